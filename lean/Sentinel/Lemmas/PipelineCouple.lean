import Mathlib.Tactic
import Sentinel.Lemmas.PipelineHist
/-!
# Coupling of the isolation component's private gauge with the shared resource node

The isolation slot of the real chain reads `CurrentConcurrency()` of the resource node that `stat.Slot` maintains.  In the
integrated model the isolation component (`Sentinel.Iso.St`) keeps its own `gauge`, moved by the isolation model's own steps.
`Couple` shows the two never differ: after every integrated history, `iso.gauge res` is the ledger's gauge of `res`
(`Entry.gauge false eh (some res)`), which by C01 is what the node's `CurrentConcurrency()` holds.
-/
namespace Sentinel.Pipe
open Sentinel.LA

variable {R : Type}

theorem rid_inj {a b : Nat} : rid a = rid b ↔ a = b := by simp [rid]
theorem rid_ne_even (a g : Nat) : rid a ≠ 2 * g := by simp only [rid]; omega

/-- the ledger holds a live (entered, admitted, not exited) account for `id` on resource `r` -/
def LiveAt (h : List Entry.TOp) (id : Nat) (r : String) : Prop :=
  ∃ i, Entry.info h (rid id) = some i ∧ i.done = false ∧ i.e.res = r

/-- every real entry of the ledger went through the node prepare slot and `stat.Slot` -/
def StdAcc (h : List Entry.TOp) : Prop :=
  ∀ id i, Entry.info h (rid id) = some i → i.e.chain.std = true ∧ Entry.attached i.e.chain = true

structure Couple (s : St R) : Prop where
  gauge : ∀ res, s.iso.gauge res = Entry.gauge false s.eh (some res)
  live : ∀ id r, Iso.resOfId s.iso.live id = some r ↔ LiveAt s.eh id r
  fresh : ∀ id, id ∉ s.used → Entry.info s.eh (rid id) = none
  std : StdAcc s.eh
  pre : s.started = false → s.eh = []

theorem couple_congr {s s' : St R} (h : Couple s) (h1 : s'.iso = s.iso) (h2 : s'.eh = s.eh) (h3 : s'.used = s.used)
    (h4 : s'.started = s.started) : Couple s' :=
  ⟨by rw [h1, h2]; exact h.gauge, by rw [h1, h2]; exact h.live, by rw [h2, h3]; exact h.fresh, by rw [h2]; exact h.std,
   by rw [h2, h4]; exact h.pre⟩

/-! ## pushing one op on the ledger -/

theorem stdChain_facts (b : Bool) :
    (stdChain b).std = true ∧ Entry.attached (stdChain b) = true ∧
    Entry.outcome (stdChain b) = (if b then Entry.Out.block else Entry.Out.pass) := by
  cases b <;> simp [stdChain, Entry.attached, Entry.outcome, Entry.preRun, Entry.ruleOut]

/-- the ledger entry op of a real request -/
def entryE (q : Req) (b : Bool) : Entry.EntryOp :=
  { id := rid q.id, res := rname q.res, inbound := q.inbound, batch := q.batch, args := q.args.map showVal, chain := stdChain b }

theorem entryOp_eq (q : Req) (b : Bool) : entryOp q b = Entry.Op.entry (entryE q b) := rfl

theorem gauge_push_entry (h : List Entry.TOp) (t : Nat) (q : Req) (b : Bool) (res : String)
    (hf : Entry.info h (rid q.id) = none) :
    Entry.gauge false ((t, entryOp q b) :: h) (some res) =
      Entry.gauge false h (some res) + (if b = false ∧ rname q.res = res then 1 else 0) := by
  obtain ⟨f1, f2, f3⟩ := stdChain_facts b
  simp only [Entry.gauge, Entry.gaugeDelta, Entry.gaugeDeltaI, entryOp, Entry.Op.addr, hf, Option.isNone_none, Bool.true_and,
    Entry.touches, f1, f2, Entry.countsPass, f3]
  cases b <;> by_cases hr : rname q.res = res <;> simp [hr]

theorem gauge_push_ghost (h : List Entry.TOp) (t id : Nat) (r res : String) :
    Entry.gauge false ((t, Entry.Op.entry { id := id, res := r, inbound := false, batch := 0, args := [], chain := nodeOnlyChain }) :: h)
        (some res) = Entry.gauge false h (some res) := by
  simp [Entry.gauge, Entry.gaugeDelta, Entry.gaugeDeltaI, Entry.touches, nodeOnlyChain]

theorem gauge_push_trace (h : List Entry.TOp) (t id : Nat) (e : Option String) (res : String) :
    Entry.gauge false ((t, Entry.Op.trace id e) :: h) (some res) = Entry.gauge false h (some res) := by
  simp [Entry.gauge, Entry.gaugeDelta, Entry.gaugeDeltaI]

theorem gauge_push_exit (h : List Entry.TOp) (t id : Nat) (e : Option String) (res : String) (hs : StdAcc h) :
    Entry.gauge false ((t, Entry.Op.exit (rid id) e) :: h) (some res) =
      Entry.gauge false h (some res) +
        (match Entry.info h (rid id) with
         | some i => if i.done = false ∧ i.e.res = res then -1 else 0
         | none => 0) := by
  simp only [Entry.gauge, Entry.gaugeDelta, Entry.gaugeDeltaI, Entry.Op.addr]
  cases hi : Entry.info h (rid id) with
  | none => rfl
  | some i =>
    obtain ⟨s1, s2⟩ := hs id i hi
    simp only [Entry.touches, s1, s2, Bool.true_and]
    cases hd : i.done <;> by_cases hr : i.e.res = res <;> simp [hr]

/-! ## the live accounts after a push -/

theorem liveAt_push_other (h : List Entry.TOp) (x : Entry.TOp) (id : Nat) (r : String) (hne : x.2.addr ≠ rid id) :
    LiveAt (x :: h) id r ↔ LiveAt h id r := by
  simp only [LiveAt, Entry.info_cons_ne x h (rid id) hne]

theorem liveAt_push_entry_self (h : List Entry.TOp) (t : Nat) (q : Req) (b : Bool) (r : String)
    (hf : Entry.info h (rid q.id) = none) :
    LiveAt ((t, entryOp q b) :: h) q.id r ↔ (b = false ∧ rname q.res = r) := by
  obtain ⟨_, _, f3⟩ := stdChain_facts b
  have := Entry.info_entry_fresh t (entryE q b) h hf
  simp only [LiveAt, entryOp_eq]
  rw [show rid q.id = (entryE q b).id from rfl, this]
  simp only [entryE, f3]
  cases b <;> simp

theorem liveAt_push_exit_self (h : List Entry.TOp) (t id : Nat) (e : Option String) (r : String) :
    ¬ LiveAt ((t, Entry.Op.exit (rid id) e) :: h) id r := by
  rintro ⟨i, hi, hd, _⟩
  cases h0 : Entry.info h (rid id) with
  | none => rw [Entry.info_exit_none t (rid id) e h h0] at hi; cases hi
  | some j =>
    rw [Entry.info_exit_some t (rid id) e h j h0] at hi
    split_ifs at hi with hj
    · cases hi; rw [hj] at hd; cases hd
    · simp only [Option.some.injEq] at hi
      rw [← hi] at hd
      cases hd

theorem liveAt_push_trace_self (h : List Entry.TOp) (t id : Nat) (e : Option String) (r : String) :
    LiveAt ((t, Entry.Op.trace (rid id) e) :: h) id r ↔ LiveAt h id r := by
  simp only [LiveAt]
  cases h0 : Entry.info h (rid id) with
  | none => rw [Entry.info_trace_none t (rid id) e h h0]
  | some j =>
    rw [Entry.info_trace_some t (rid id) e h j h0]
    split_ifs with hj
    · rfl
    · constructor
      · rintro ⟨i, hi, hd, hr⟩
        cases hi
        exact ⟨j, rfl, hd, hr⟩
      · rintro ⟨i, hi, hd, hr⟩
        cases hi
        exact ⟨_, rfl, hd, hr⟩

/-! ## `StdAcc` after a push -/

theorem stdAcc_push (h : List Entry.TOp) (x : Entry.TOp) (hs : StdAcc h)
    (hx : ∀ e, x.2 = Entry.Op.entry e → e.id % 2 = 1 → e.chain.std = true ∧ Entry.attached e.chain = true) :
    StdAcc (x :: h) := by
  intro id i hi
  obtain ⟨t, op⟩ := x
  by_cases hne : op.addr = rid id
  · cases op with
    | entry e =>
      simp only [Entry.Op.addr] at hne
      cases h0 : Entry.info h (rid id) with
      | none =>
        have := Entry.info_entry_fresh t e h (by rw [hne]; exact h0)
        rw [hne] at this
        rw [this] at hi
        cases hi
        exact hx e rfl (by rw [hne]; unfold rid; omega)
      | some j =>
        have := Entry.info_entry_dup t e h j (by rw [hne]; exact h0)
        rw [hne] at this
        rw [this] at hi
        cases hi
        exact hs id _ h0
    | trace j e =>
      simp only [Entry.Op.addr] at hne
      subst hne
      cases h0 : Entry.info h (rid id) with
      | none => rw [Entry.info_trace_none t _ e h h0] at hi; cases hi
      | some k =>
        rw [Entry.info_trace_some t _ e h k h0] at hi
        have h1 := hs id _ h0
        split_ifs at hi <;> cases hi <;> exact h1
    | exit j e =>
      simp only [Entry.Op.addr] at hne
      subst hne
      cases h0 : Entry.info h (rid id) with
      | none => rw [Entry.info_exit_none t _ e h h0] at hi; cases hi
      | some k =>
        rw [Entry.info_exit_some t _ e h k h0] at hi
        have h1 := hs id _ h0
        split_ifs at hi <;> cases hi <;> exact h1
  · rw [Entry.info_cons_ne _ h (rid id) hne] at hi
    exact hs id i hi

/-! ## the handles of the isolation model -/

theorem resOfId_cons (a : Nat) (r : String) (l : List (Nat × String)) (id : Nat) :
    Iso.resOfId ((a, r) :: l) id = if a = id then some r else Iso.resOfId l id := by
  by_cases h : a = id <;> simp [Iso.resOfId, List.find?, h]

theorem resOfId_filter (l : List (Nat × String)) (id id' : Nat) :
    Iso.resOfId (l.filter fun p => p.1 ≠ id) id' = if id' = id then none else Iso.resOfId l id' := by
  induction l with
  | nil => simp [Iso.resOfId]
  | cons p l ih =>
    obtain ⟨a, r⟩ := p
    by_cases ha : a = id
    · subst ha
      simp only [List.filter, ne_eq, not_true_eq_false, decide_false]
      rw [ih, resOfId_cons]
      by_cases h : id' = a
      · simp [h]
      · have : ¬ a = id' := fun e => h e.symm
        simp [h, this]
    · simp only [List.filter, ne_eq, ha, not_false_eq_true, decide_true]
      rw [resOfId_cons, resOfId_cons, ih]
      by_cases h : a = id'
      · have : ¬ id' = id := fun e => ha (h.trans e)
        simp [h, this]
      · simp [h]

theorem iso_exit_eq (s : Iso.St) (id : Nat) :
    (Iso.step s (.exit id)).1 =
      match Iso.resOfId s.live id with
      | some res => { s with gauge := fun x => if x = res then s.gauge res - 1 else s.gauge x,
                             live := s.live.filter fun p => p.1 ≠ id }
      | none => s := by
  simp only [Iso.step]
  cases Iso.resOfId s.live id <;> rfl

/-! ## `Couple` is an invariant -/

theorem couple_push_ghost (s : St R) (hc : Couple s) (hst : s.started = true) (r : String) :
    Couple ({ entStep s (.entry { id := 2 * s.ghosts, res := r, inbound := false, batch := 0, args := [], chain := nodeOnlyChain })
                with ghosts := s.ghosts + 1 } : St R) := by
  refine ⟨?_, ?_, ?_, ?_, ?_⟩
  · intro res
    simp only [entStep]
    rw [gauge_push_ghost]
    exact hc.gauge res
  · intro id r'
    simp only [entStep]
    rw [liveAt_push_other _ _ _ _ (by simp only [Entry.Op.addr]; exact (rid_ne_even id s.ghosts).symm)]
    exact hc.live id r'
  · intro id hid
    simp only [entStep]
    rw [Entry.info_cons_ne _ _ _ (by simp only [Entry.Op.addr]; exact (rid_ne_even id s.ghosts).symm)]
    exact hc.fresh id hid
  · simp only [entStep]
    refine stdAcc_push _ _ hc.std ?_
    intro e he hodd
    simp only [Entry.Op.entry.injEq] at he
    subst he
    simp at hodd
  · intro h
    simp only [entStep] at h
    rw [hst] at h
    cases h

theorem couple_ghostNodes (rs : List FlowReject.Rule) (s : St R) (hc : Couple s) (hst : s.started = true) :
    Couple (ghostNodes s rs) := by
  induction rs generalizing s with
  | nil => exact hc
  | cons r rs ih =>
    simp only [ghostNodes]
    split_ifs
    · exact ih _ (couple_push_ghost s hc hst (rname r.src)) hst
    · exact ih s hc hst

section step
variable [LT R] [∀ a b : R, Decidable (a < b)]

theorem couple_entry (A : System.Arith R) (s : St R) (q : Req) (hc : Couple s) (hst : s.started = true)
    (hu : q.id ∉ s.used) : Couple (entry A s q).1 := by
  have hf := hc.fresh q.id hu
  obtain ⟨e1, e2⟩ := entry_ent A s q
  obtain ⟨_, _, _, _, _, e3, _, _, _, e4⟩ := entry_static A s q
  have hiso := entry_iso A s q
  refine ⟨?_, ?_, ?_, ?_, ?_⟩
  · intro res
    rw [e2, gauge_push_entry _ _ _ _ _ hf, hiso, ← hc.gauge res]
    cases hd : decision A s q with
    | none =>
      simp only [if_true, isoAdmit, Option.isSome_none, true_and]
      by_cases hr : rname q.res = res
      · subst hr; simp
      · have : ¬ res = rname q.res := fun e => hr e.symm
        simp [hr, this]
    | some b => simp
  · intro id r
    rw [e2, hiso]
    by_cases hid : id = q.id
    · subst hid
      rw [liveAt_push_entry_self _ _ _ _ _ hf]
      cases hd : decision A s q with
      | none =>
        simp only [if_true, isoAdmit, resOfId_cons, Option.isSome_none, true_and, Option.some.injEq]
      | some b =>
        simp only [Option.isSome_some, Bool.true_eq_false, false_and, iff_false]
        rw [if_neg (by simp)]
        intro h
        obtain ⟨i, hi, _⟩ := (hc.live q.id r).mp h
        rw [hf] at hi
        cases hi
    · have hne : (s.now, entryOp q (decision A s q).isSome).2.addr ≠ rid id := by
        simp only [entryOp, Entry.Op.addr]
        exact fun e => hid (rid_inj.mp e).symm
      rw [liveAt_push_other _ _ _ _ hne, ← hc.live id r]
      cases hd : decision A s q with
      | none =>
        simp only [if_true, isoAdmit, resOfId_cons]
        rw [if_neg (fun e => hid e.symm)]
      | some b => simp
  · intro id hid
    rw [e4] at hid
    rw [e2]
    have h1 : id ≠ q.id := fun e => hid (e ▸ List.mem_cons_self ..)
    have h2 : id ∉ s.used := fun e => hid (List.mem_cons_of_mem _ e)
    rw [Entry.info_cons_ne _ _ _ (by simp only [entryOp, Entry.Op.addr]; exact fun e => h1 (rid_inj.mp e).symm)]
    exact hc.fresh id h2
  · rw [e2]
    refine stdAcc_push _ _ hc.std ?_
    intro e he _
    rw [entryOp_eq] at he
    simp only [Entry.Op.entry.injEq] at he
    subst he
    exact ⟨(stdChain_facts _).1, (stdChain_facts _).2.1⟩
  · intro h
    rw [e3, hst] at h
    cases h

theorem couple_exit (s : St R) (id : Nat) (err : Bool) (hc : Couple s) (hst : s.started = true) :
    Couple (exit s id err) := by
  have hiso : (exit s id err).iso = (Iso.step s.iso (.exit id)).1 := rfl
  have heh : (exit s id err).eh = (s.now, Entry.Op.exit (rid id) (errOf err)) :: s.eh := rfl
  have hused : (exit s id err).used = s.used := rfl
  refine ⟨?_, ?_, ?_, ?_, ?_⟩
  · intro res
    rw [heh, gauge_push_exit _ _ _ _ _ hc.std, hiso, iso_exit_eq, ← hc.gauge res]
    cases hr : Iso.resOfId s.iso.live id with
    | some r0 =>
      obtain ⟨i, hi, hd, hres⟩ := (hc.live id r0).mp hr
      simp only [hi, hd, true_and, hres]
      by_cases h : r0 = res
      · subst h; simp [sub_eq_add_neg]
      · have : ¬ res = r0 := fun e => h e.symm
        simp [h, this]
    | none =>
      cases hi : Entry.info s.eh (rid id) with
      | none => simp
      | some i =>
        cases hd : i.done
        · have := (hc.live id i.e.res).mpr ⟨i, hi, hd, rfl⟩
          rw [hr] at this
          cases this
        · simp [hd]
  · intro id' r
    rw [heh, hiso, iso_exit_eq]
    by_cases hid : id' = id
    · subst hid
      simp only [liveAt_push_exit_self, iff_false]
      cases hr : Iso.resOfId s.iso.live id' with
      | some r0 =>
        dsimp only
        rw [resOfId_filter]
        simp
      | none => simp [hr]
    · have hne : (s.now, Entry.Op.exit (rid id) (errOf err)).2.addr ≠ rid id' := by
        simp only [Entry.Op.addr]
        exact fun e => hid (rid_inj.mp e).symm
      rw [liveAt_push_other _ _ _ _ hne, ← hc.live id' r]
      cases hr : Iso.resOfId s.iso.live id with
      | some r0 =>
        dsimp only
        rw [resOfId_filter, if_neg hid]
      | none => rfl
  · intro id' hid
    rw [hused] at hid
    rw [heh]
    by_cases h : id' = id
    · subst h
      exact Entry.info_exit_none _ _ _ _ (hc.fresh id' hid)
    · rw [Entry.info_cons_ne _ _ _ (by simp only [Entry.Op.addr]; exact fun e => h (rid_inj.mp e).symm)]
      exact hc.fresh id' hid
  · rw [heh]
    exact stdAcc_push _ _ hc.std (fun e he _ => by cases he)
  · intro h
    have : (exit s id err).started = s.started := rfl
    rw [this, hst] at h
    cases h

theorem couple_trace (s : St R) (id : Nat) (hc : Couple s) (hst : s.started = true) : Couple (trace s id) := by
  have heh : (trace s id).eh = (s.now, Entry.Op.trace (rid id) (some "biz")) :: s.eh := rfl
  refine ⟨?_, ?_, ?_, ?_, ?_⟩
  · intro res
    rw [heh, gauge_push_trace]
    exact hc.gauge res
  · intro id' r
    rw [heh]
    by_cases hid : id' = id
    · subst hid
      rw [liveAt_push_trace_self]
      exact hc.live id' r
    · rw [liveAt_push_other _ _ _ _ (by simp only [Entry.Op.addr]; exact fun e => hid (rid_inj.mp e).symm)]
      exact hc.live id' r
  · intro id' hid
    rw [heh]
    by_cases h : id' = id
    · subst h
      exact Entry.info_trace_none _ _ _ _ (hc.fresh id' hid)
    · rw [Entry.info_cons_ne _ _ _ (by simp only [Entry.Op.addr]; exact fun e => h (rid_inj.mp e).symm)]
      exact hc.fresh id' hid
  · rw [heh]
    exact stdAcc_push _ _ hc.std (fun e he _ => by cases he)
  · intro h
    have : (trace s id).started = s.started := rfl
    rw [this, hst] at h
    cases h

theorem couple_step (A : System.Arith R) (s : St R) (o : Pipe.Op R) (hc : Couple s) : Couple (step A s o).1 := by
  cases o with
  | clock t =>
    simp only [step]
    split_ifs with h0 h1 h2
    · exact hc
    · have he : s.eh = [] := hc.pre (by simpa using h1)
      exact ⟨fun res => by simpa [he] using hc.gauge res, fun id r => by simpa [he] using hc.live id r,
             fun id hid => by simpa [he] using hc.fresh id hid, by simpa [he] using hc.std, fun h => by simp at h⟩
    · exact hc
    · exact couple_congr hc rfl rfl rfl rfl
  | loadSys rs => simp only [step]; split_ifs <;> first | exact hc | exact couple_congr hc rfl rfl rfl rfl
  | loadFlow rs =>
    simp only [step]
    split_ifs with hcnd
    · exact hc
    · have hst : s.started = true := by
        cases hh : s.started
        · simp [hh] at hcnd
        · rfl
      exact couple_congr (couple_ghostNodes rs s hc hst) rfl rfl rfl rfl
  | loadIso rs =>
    simp only [step]
    split_ifs
    · exact hc
    · exact ⟨hc.gauge, hc.live, hc.fresh, hc.std, hc.pre⟩
  | loadHot rs => simp only [step]; split_ifs <;> first | exact hc | exact couple_congr hc rfl rfl rfl rfl
  | loadCb rs => simp only [step]; split_ifs <;> first | exact hc | exact couple_congr hc rfl rfl rfl rfl
  | sysLoad x => exact couple_congr hc rfl rfl rfl rfl
  | sysCpu x => exact couple_congr hc rfl rfl rfl rfl
  | log => exact couple_congr hc rfl rfl rfl rfl
  | trace id =>
    simp only [step]
    split_ifs with hcnd
    · exact hc
    · exact couple_trace s id hc (by simpa using hcnd)
  | exit id err =>
    simp only [step]
    split_ifs with hcnd
    · exact hc
    · exact couple_exit s id err hc (by simpa using hcnd)
  | entry q =>
    simp only [step]
    split_ifs with hcnd
    · exact hc
    · have hst : s.started = true := by
        cases hh : s.started
        · simp [hh] at hcnd
        · rfl
      have hu : q.id ∉ s.used := by
        intro hm
        apply hcnd
        simp [usedId, hm]
      exact couple_entry A s q hc hst hu

theorem couple_run (A : System.Arith R) (s : St R) (os : List (Pipe.Op R)) (hc : Couple s) : Couple (run A s os).1 := by
  induction os generalizing s with
  | nil => exact hc
  | cons o os ih => exact ih _ (couple_step A s o hc)

end step

end Sentinel.Pipe
