import Mathlib.Tactic
import Sentinel.Model.MetricLog
/-! Helper lemmas for C17 (byte layer: decimal numbers, field / line splitting) -/
namespace Sentinel.MetricLog

/-! ### decimal numbers -/

def digitB (b : Nat) : Prop := 48 ≤ b ∧ b ≤ 57

theorem digitsAux_val (fuel n : Nat) (acc : Bytes) (h : n < fuel) :
    List.foldl (fun a b => a * 10 + (b - 48)) 0 (digitsAux fuel n acc)
      = List.foldl (fun a b => a * 10 + (b - 48)) n acc := by
  induction fuel generalizing n acc with
  | zero => omega
  | succ f ih =>
    unfold digitsAux
    split_ifs with h10
    · simp
    · rw [ih (n / 10) _ (by omega)]
      simp only [List.foldl_cons]
      congr 1
      omega

theorem digitsAux_digits (fuel n : Nat) (acc : Bytes) (hacc : ∀ b ∈ acc, digitB b) :
    ∀ b ∈ digitsAux fuel n acc, digitB b := by
  induction fuel generalizing n acc with
  | zero => simpa [digitsAux] using hacc
  | succ f ih =>
    unfold digitsAux
    split_ifs with h10
    · intro b hb
      rcases List.mem_cons.1 hb with rfl | hb
      · exact ⟨by omega, by omega⟩
      · exact hacc b hb
    · apply ih
      intro b hb
      rcases List.mem_cons.1 hb with rfl | hb
      · exact ⟨by omega, by omega⟩
      · exact hacc b hb

theorem digitsAux_ne_nil (fuel n : Nat) (acc : Bytes) (h : 0 < fuel) : digitsAux fuel n acc ≠ [] := by
  induction fuel generalizing n acc with
  | zero => omega
  | succ f ih =>
    unfold digitsAux
    split_ifs with h10
    · simp
    · cases f with
      | zero => simp [digitsAux]
      | succ f => exact ih _ _ (by omega)

theorem dec_val (n : Nat) : valOf (dec n) = n := by
  unfold valOf dec
  rw [digitsAux_val _ _ _ (by omega)]
  rfl

theorem dec_digits (n : Nat) : ∀ b ∈ dec n, digitB b :=
  digitsAux_digits _ _ _ (by simp)

theorem dec_ne_nil (n : Nat) : dec n ≠ [] := digitsAux_ne_nil _ _ _ (by omega)

theorem all_isDigit_of (l : Bytes) (h : ∀ b ∈ l, digitB b) : l.all isDigit = true := by
  rw [List.all_eq_true]
  intro b hb
  have := h b hb
  simp [isDigit, this.1, this.2]

theorem parseNat_dec (bound n : Nat) (h : n < bound) : parseNat? bound (dec n) = some n := by
  unfold parseNat?
  rw [if_neg (dec_ne_nil n), if_pos (all_isDigit_of _ (dec_digits n)), dec_val, if_pos h]

theorem dec_head (n : Nat) : ∃ b r, dec n = b :: r ∧ digitB b := by
  cases h : dec n with
  | nil => exact absurd h (dec_ne_nil n)
  | cons b r => exact ⟨b, r, rfl, dec_digits n b (by simp [h])⟩

theorem parseInt32_decInt (c : Int) (h1 : -(2 ^ 31 : Int) ≤ c) (h2 : c < 2 ^ 31) : parseInt32? (decInt c) = some c := by
  cases c with
  | ofNat n =>
    obtain ⟨b, r, hd, hb⟩ := dec_head n
    have hn : n < 2 ^ 31 := by
      have : (n : Int) < 2 ^ 31 := h2
      exact_mod_cast this
    have key := parseNat_dec (2 ^ 31) n hn
    simp only [decInt]
    rw [hd] at key ⊢
    unfold parseInt32?
    have h45 : b ≠ 45 := by have := hb.1; omega
    have h43 : b ≠ 43 := by have := hb.1; omega
    split
    · simp_all
    · rename_i heq; simp only [List.cons.injEq] at heq; exact absurd heq.1 h45
    · rename_i heq; simp only [List.cons.injEq] at heq; exact absurd heq.1 h43
    · rw [key]; rfl
  | negSucc n =>
    have hn : n + 1 < 2 ^ 31 + 1 := by
      have : -(2 ^ 31 : Int) ≤ Int.negSucc n := h1
      rw [Int.negSucc_eq] at this
      have h3 : ((n : Int) + 1) ≤ 2 ^ 31 := by linarith
      have : n + 1 ≤ 2 ^ 31 := by exact_mod_cast h3
      omega
    simp only [decInt, parseInt32?]
    rw [parseNat_dec _ _ hn]
    simp [Int.negSucc_eq]

/-! ### splitting at a separator -/

theorem splitBar_ne_nil (l : Bytes) : splitBar l ≠ [] := by
  cases l with
  | nil => simp [splitBar]
  | cons b r =>
    unfold splitBar
    split_ifs
    · simp
    · split <;> simp

theorem splitBar_noBar (l : Bytes) (h : BAR ∉ l) : splitBar l = [l] := by
  induction l with
  | nil => rfl
  | cons b r ih =>
    have hb : b ≠ BAR := fun e => h (by simp [e])
    have hr : BAR ∉ r := fun e => h (List.mem_cons_of_mem _ e)
    unfold splitBar
    rw [if_neg hb, ih hr]

theorem splitBar_append (f r : Bytes) (h : BAR ∉ f) : splitBar (f ++ BAR :: r) = f :: splitBar r := by
  induction f with
  | nil => simp [splitBar]
  | cons b f ih =>
    have hb : b ≠ BAR := fun e => h (by simp [e])
    have hf : BAR ∉ f := fun e => h (List.mem_cons_of_mem _ e)
    rw [List.cons_append, splitBar, if_neg hb, ih hf]

theorem splitBar_joinBar (fs : List Bytes) (hne : fs ≠ []) (h : ∀ f ∈ fs, BAR ∉ f) : splitBar (joinBar fs) = fs := by
  induction fs with
  | nil => exact absurd rfl hne
  | cons f r ih =>
    cases r with
    | nil => simpa [joinBar] using splitBar_noBar f (h f (by simp))
    | cons g r =>
      rw [joinBar, splitBar_append _ _ (h f (by simp)), ih (by simp) (fun x hx => h x (List.mem_cons_of_mem _ hx))]

theorem splitLines_noLF (l : Bytes) (h : LF ∉ l) : splitLines l = if l = [] then [] else [l] := by
  induction l with
  | nil => rfl
  | cons b r ih =>
    have hb : b ≠ LF := fun e => h (by simp [e])
    have hr : LF ∉ r := fun e => h (List.mem_cons_of_mem _ e)
    unfold splitLines
    rw [if_neg hb, ih hr]
    by_cases hr0 : r = [] <;> simp [hr0]

theorem splitLines_append (l r : Bytes) (h : LF ∉ l) : splitLines (l ++ LF :: r) = l :: splitLines r := by
  induction l with
  | nil => simp [splitLines]
  | cons b l ih =>
    have hb : b ≠ LF := fun e => h (by simp [e])
    have hl : LF ∉ l := fun e => h (List.mem_cons_of_mem _ e)
    rw [List.cons_append, splitLines, if_neg hb, ih hl]

theorem mem_joinBar (fs : List Bytes) (x : Nat) (hx : x ∈ joinBar fs) : x = BAR ∨ ∃ f ∈ fs, x ∈ f := by
  induction fs with
  | nil => simp [joinBar] at hx
  | cons f r ih =>
    cases r with
    | nil => exact Or.inr ⟨f, by simp, by simpa [joinBar] using hx⟩
    | cons g r =>
      rw [joinBar, List.mem_append, List.mem_cons] at hx
      rcases hx with hx | rfl | hx
      · exact Or.inr ⟨f, by simp, hx⟩
      · exact Or.inl rfl
      · rcases ih hx with h | ⟨f', hf', hxf⟩
        · exact Or.inl h
        · exact Or.inr ⟨f', List.mem_cons_of_mem _ hf', hxf⟩

theorem stripCRLF_id (l : Bytes) (h : CR ∉ l) : stripCRLF l = l := by
  induction l with
  | nil => rfl
  | cons a t ih =>
    cases t with
    | nil => rfl
    | cons b r =>
      have ha : a ≠ CR := fun e => h (by simp [e])
      rw [stripCRLF, if_neg (fun hh => ha hh.1), ih (fun e => h (List.mem_cons_of_mem _ e))]

/-! ### the fields of a line contain neither separator nor line break -/

theorem pad2_mem (n x : Nat) (h : x ∈ pad2 n) : digitB x := by
  simp only [pad2, List.mem_cons, List.not_mem_nil, or_false] at h
  rcases h with rfl | rfl <;> exact ⟨by omega, by omega⟩

theorem pad4_mem (n x : Nat) (h : x ∈ pad4 n) : digitB x := by
  simp only [pad4, List.mem_cons, List.not_mem_nil, or_false] at h
  rcases h with rfl | rfl | rfl | rfl <;> exact ⟨by omega, by omega⟩

/-- the bytes that can occur in a formatted time: digits, `-`, space, `:` -/
def timeB (x : Nat) : Prop := digitB x ∨ x = 45 ∨ x = 32 ∨ x = 58

theorem dateStr_mem (d x : Nat) (h : x ∈ dateStr d) : timeB x := by
  unfold dateStr at h
  simp only [List.mem_append, List.mem_cons] at h
  rcases h with (h | rfl | h) | rfl | h
  · exact Or.inl (pad4_mem _ _ h)
  · exact Or.inr (Or.inl rfl)
  · exact Or.inl (pad2_mem _ _ h)
  · exact Or.inr (Or.inl rfl)
  · exact Or.inl (pad2_mem _ _ h)

theorem timeStr_mem (ms x : Nat) (h : x ∈ timeStr ms) : timeB x := by
  unfold timeStr at h
  simp only [List.mem_append, List.mem_cons] at h
  rcases h with ((h | rfl | h) | rfl | h) | rfl | h
  · exact dateStr_mem _ _ h
  · exact Or.inr (Or.inr (Or.inl rfl))
  · exact Or.inl (pad2_mem _ _ h)
  · exact Or.inr (Or.inr (Or.inr rfl))
  · exact Or.inl (pad2_mem _ _ h)
  · exact Or.inr (Or.inr (Or.inr rfl))
  · exact Or.inl (pad2_mem _ _ h)

theorem decInt_mem (c : Int) (x : Nat) (h : x ∈ decInt c) : digitB x ∨ x = 45 := by
  cases c with
  | ofNat n => exact Or.inl (dec_digits n x h)
  | negSucc n =>
    simp only [decInt, List.mem_cons] at h
    rcases h with rfl | h
    · exact Or.inr rfl
    · exact Or.inl (dec_digits _ x h)

theorem sanitize_noBar (r : Bytes) : BAR ∉ sanitize r := by
  unfold sanitize
  intro h
  rcases List.mem_map.1 h with ⟨b, _, hb⟩
  split_ifs at hb with h1
  · simp [BAR] at hb
  · exact h1 hb

theorem sanitize_id (r : Bytes) (h : BAR ∉ r) : sanitize r = r := by
  unfold sanitize
  conv_rhs => rw [← List.map_id r]
  apply List.map_congr_left
  intro b hb
  have : b ≠ BAR := fun e => h (e ▸ hb)
  simp [this]

/-- a byte that is none of `|`, LF, CR -/
def plainB (x : Nat) : Prop := x ≠ BAR ∧ x ≠ LF ∧ x ≠ CR

theorem digitB_plain {x : Nat} (h : digitB x) : plainB x := by
  unfold digitB at h; unfold plainB BAR LF CR; omega

theorem timeB_plain {x : Nat} (h : timeB x) : plainB x := by
  rcases h with h | rfl | rfl | rfl
  · exact digitB_plain h
  all_goals (unfold plainB BAR LF CR; omega)

/-- every field of a line is free of `|`, LF and CR, provided the resource name is -/
theorem fields_plain (it : Item) (hres : ∀ x ∈ it.res, plainB x) : ∀ f ∈ fields it, ∀ x ∈ f, plainB x := by
  intro f hf x hx
  simp only [fields, List.mem_cons, List.not_mem_nil, or_false] at hf
  rcases hf with rfl | rfl | rfl | rfl | rfl | rfl | rfl | rfl | rfl | rfl | rfl
  · exact digitB_plain (dec_digits _ x hx)
  · exact timeB_plain (timeStr_mem _ x hx)
  · rw [sanitize_id _ (fun h => (hres _ h).1 rfl)] at hx; exact hres x hx
  · exact digitB_plain (dec_digits _ x hx)
  · exact digitB_plain (dec_digits _ x hx)
  · exact digitB_plain (dec_digits _ x hx)
  · exact digitB_plain (dec_digits _ x hx)
  · exact digitB_plain (dec_digits _ x hx)
  · exact digitB_plain (dec_digits _ x hx)
  · exact digitB_plain (dec_digits _ x hx)
  · rcases decInt_mem _ x hx with h | rfl
    · exact digitB_plain h
    · unfold plainB BAR LF CR; omega

theorem fat_plain (it : Item) (hres : ∀ x ∈ it.res, plainB x) : LF ∉ fat it ∧ CR ∉ fat it := by
  constructor
  · intro h
    rcases mem_joinBar _ _ h with h | ⟨f, hf, hx⟩
    · simp [LF, BAR] at h
    · exact (fields_plain it hres f hf _ hx).2.1 rfl
  · intro h
    rcases mem_joinBar _ _ h with h | ⟨f, hf, hx⟩
    · simp [CR, BAR] at h
    · exact (fields_plain it hres f hf _ hx).2.2 rfl

/-- an item the writer can be given: counters in their Go types' ranges, resource name without
    field separator and line breaks -/
structure Valid (it : Item) : Prop where
  ts : it.ts < 2 ^ 64
  pass : it.pass < 2 ^ 64
  block : it.block < 2 ^ 64
  complete : it.complete < 2 ^ 64
  error : it.error < 2 ^ 64
  rt : it.rt < 2 ^ 64
  occ : it.occ < 2 ^ 64
  conc : it.conc < 2 ^ 32
  cls_lo : -(2 ^ 31 : Int) ≤ it.cls
  cls_hi : it.cls < 2 ^ 31
  res : ∀ x ∈ it.res, plainB x

theorem fat_ne_nil (it : Item) : fat it ≠ [] := by
  simp [fat, fields, joinBar]

theorem splitBar_fat (it : Item) (h : Valid it) : splitBar (fat it) = fields it :=
  splitBar_joinBar _ (by simp [fields]) (fun f hf hx => (fields_plain it h.res f hf _ hx).1 rfl)

theorem parseLine_fat (it : Item) (h : Valid it) : parseLine (fat it) = some it := by
  have hs := splitBar_fat it h
  have hsan : sanitize it.res = it.res := sanitize_id _ (fun hx => (h.res _ hx).1 rfl)
  unfold parseLine
  rw [if_neg (fat_ne_nil it)]
  simp only [hs]
  have e64 : ∀ n, n < 2 ^ 64 → parseNat? 18446744073709551616 (dec n) = some n := fun n hn => by
    have := parseNat_dec _ _ hn; simpa using this
  have e32 : parseNat? 4294967296 (dec it.conc) = some it.conc := by
    have := parseNat_dec _ _ h.conc; simpa using this
  simp [fields, optField, e64 _ h.ts, e64 _ h.pass, e64 _ h.block, e64 _ h.complete, e64 _ h.error, e64 _ h.rt,
    e64 _ h.occ, e32, parseInt32_decInt _ h.cls_lo h.cls_hi, hsan]

theorem serialise_noCR (its : List Item) (h : ∀ it ∈ its, Valid it) : CR ∉ serialise its := by
  induction its with
  | nil => simp [serialise]
  | cons it r ih =>
    rw [serialise]
    intro hm
    rcases List.mem_append.1 hm with hm | hm
    · exact (fat_plain it (h it (by simp)).res).2 hm
    · rcases List.mem_cons.1 hm with hm | hm
      · simp [CR, LF] at hm
      · exact ih (fun x hx => h x (List.mem_cons_of_mem _ hx)) hm

theorem splitLines_serialise (its : List Item) (h : ∀ it ∈ its, Valid it) :
    splitLines (serialise its) = its.map fat := by
  induction its with
  | nil => rfl
  | cons it r ih =>
    rw [serialise, splitLines_append _ _ (fat_plain it (h it (by simp)).res).1,
      ih (fun x hx => h x (List.mem_cons_of_mem _ hx))]
    rfl

theorem filterMap_parse_fat (its : List Item) (h : ∀ it ∈ its, Valid it) :
    (its.map fat).filterMap parseLine = its := by
  induction its with
  | nil => rfl
  | cons it r ih =>
    rw [List.map_cons, List.filterMap_cons, parseLine_fat it (h it (by simp)),
      ih (fun x hx => h x (List.mem_cons_of_mem _ hx))]

/-! ### truncation at byte `k` -/

theorem take_app_cons (l r : Bytes) (x k : Nat) (h : l.length + 1 ≤ k) :
    (l ++ x :: r).take k = l ++ x :: r.take (k - (l.length + 1)) := by
  induction l generalizing k with
  | nil =>
    cases k with
    | zero => simp at h
    | succ k => simp
  | cons b l ih =>
    cases k with
    | zero => simp at h
    | succ k =>
      simp only [List.length_cons] at h
      simp only [List.cons_append, List.take_succ_cons, List.length_cons]
      rw [ih k (by omega)]
      have : k + 1 - (l.length + 1 + 1) = k - (l.length + 1) := by omega
      rw [this]

theorem take_app_le (l r : Bytes) (k : Nat) (h : k ≤ l.length) : (l ++ r).take k = l.take k := by
  induction l generalizing k with
  | nil => simp at h; simp [h]
  | cons b l ih =>
    cases k with
    | zero => simp
    | succ k =>
      simp only [List.length_cons] at h
      simp only [List.cons_append, List.take_succ_cons]
      rw [ih k (by omega)]

theorem wholeLines_prefix (its : List Item) (k : Nat) : wholeLines its k <+: its := by
  induction its generalizing k with
  | nil => exact List.prefix_refl _
  | cons it r ih =>
    unfold wholeLines
    split_ifs
    · exact (List.prefix_cons_inj it).2 (ih _)
    · exact List.nil_prefix

/-- **L2 prefix lemma**: the lines read from a data file cut at byte `k` are the complete lines
    before the cut plus at most one fragment -/
theorem splitLines_take_serialise (its : List Item) (hv : ∀ it ∈ its, Valid it) (k : Nat) :
    splitLines ((serialise its).take k)
      = (wholeLines its k).map fat ++ (if fragment its k = [] then [] else [fragment its k]) := by
  induction its generalizing k with
  | nil => simp [serialise, splitLines, wholeLines, fragment]
  | cons it r ih =>
    have hLF := (fat_plain it (hv it (by simp)).res).1
    unfold wholeLines fragment
    rw [serialise]
    split_ifs with hk hf hf
    · rw [take_app_cons _ _ _ _ hk, splitLines_append _ _ hLF, ih (fun x hx => hv x (List.mem_cons_of_mem _ hx)), if_pos hf]
      simp
    · rw [take_app_cons _ _ _ _ hk, splitLines_append _ _ hLF, ih (fun x hx => hv x (List.mem_cons_of_mem _ hx)), if_neg hf]
      simp
    · rw [take_app_le _ _ _ (by omega), hf]; rfl
    · rw [take_app_le _ _ _ (by omega), splitLines_noLF _ (fun h => hLF (List.mem_of_mem_take h)), if_neg hf]
      simp

theorem tailLenAux_noLF (acc : Nat) (l : Bytes) (h : LF ∉ l) : tailLenAux acc l = acc + l.length := by
  induction l generalizing acc with
  | nil => rfl
  | cons b r ih =>
    have hb : b ≠ LF := fun e => h (by simp [e])
    rw [tailLenAux, if_neg hb, ih _ (fun e => h (List.mem_cons_of_mem _ e))]
    simp; omega

theorem tailLenAux_append (acc : Nat) (l r : Bytes) (h : LF ∉ l) : tailLenAux acc (l ++ LF :: r) = tailLenAux 0 r := by
  induction l generalizing acc with
  | nil => simp [tailLenAux]
  | cons b l ih =>
    have hb : b ≠ LF := fun e => h (by simp [e])
    rw [List.cons_append, tailLenAux, if_neg hb, ih _ (fun e => h (List.mem_cons_of_mem _ e))]

theorem tailLen_serialise (its : List Item) (hv : ∀ it ∈ its, Valid it) : tailLen (serialise its) = 0 := by
  induction its with
  | nil => rfl
  | cons it r ih =>
    unfold tailLen at ih ⊢
    rw [serialise, tailLenAux_append _ _ _ (fat_plain it (hv it (by simp)).res).1]
    exact ih (fun x hx => hv x (List.mem_cons_of_mem _ hx))

theorem tailLen_take_serialise (its : List Item) (hv : ∀ it ∈ its, Valid it) (k : Nat) :
    tailLen ((serialise its).take k) = (fragment its k).length := by
  induction its generalizing k with
  | nil => simp [serialise, tailLen, tailLenAux, fragment]
  | cons it r ih =>
    have hLF := (fat_plain it (hv it (by simp)).res).1
    unfold fragment
    rw [serialise]
    unfold tailLen at ih ⊢
    split_ifs with hk
    · rw [take_app_cons _ _ _ _ hk, tailLenAux_append _ _ _ hLF]
      exact ih (fun x hx => hv x (List.mem_cons_of_mem _ hx)) _
    · rw [take_app_le _ _ _ (by omega), tailLenAux_noLF _ _ (fun h => hLF (List.mem_of_mem_take h))]
      simp

theorem readerLines_serialise (its : List Item) (hv : ∀ it ∈ its, Valid it) :
    readerLines (serialise its) = its.map fat := by
  unfold readerLines
  rw [tailLen_serialise its hv, if_neg (by simp), splitLines_serialise its hv]

/-- the lines `readLine` delivers from a data file cut at byte `k`: the complete lines, then the
    fragment unless it is dropped by the full-buffer rule -/
theorem readerLines_take_serialise (its : List Item) (hv : ∀ it ∈ its, Valid it) (k : Nat) :
    readerLines ((serialise its).take k) = (wholeLines its k).map fat ++ tailLine (fragment its k) := by
  unfold readerLines tailLine
  rw [tailLen_take_serialise its hv k, splitLines_take_serialise its hv k]
  by_cases hf : fragment its k = []
  · simp [hf]
  · have hpos : 0 < (fragment its k).length := List.length_pos_of_ne_nil hf
    rw [if_neg hf]
    by_cases hm : (fragment its k).length % bufSize = 0
    · rw [if_pos ⟨hpos, hm⟩, if_pos hm, List.dropLast_concat, List.append_nil]
    · rw [if_neg (fun h => hm h.2), if_neg hm]

theorem tornParse_nil : tornParse [] = [] := by simp [tornParse, tailLine]

theorem tornParse_mem (f : Bytes) (x : Item) (h : x ∈ tornParse f) : parseLine f = some x := by
  unfold tornParse tailLine at h
  split_ifs at h with hm
  · simp at h
  · simpa using h

/-- what the readers see of a data file cut at byte `k`: every item whose line is wholly before the
    cut, then whatever the fragment parses to -/
theorem itemsFrom_take_serialise (its : List Item) (hv : ∀ it ∈ its, Valid it) (k : Nat) :
    itemsFrom ((serialise its).take k) 0
      = wholeLines its k ++ tornParse (fragment its k) := by
  unfold itemsFrom tornParse
  rw [List.drop_zero, stripCRLF_id _ (fun h => serialise_noCR its hv (List.mem_of_mem_take h)),
    readerLines_take_serialise its hv k, List.filterMap_append,
    filterMap_parse_fat _ (fun x hx => hv x ((wholeLines_prefix its k).subset hx))]

theorem fragment_eq_nil_of_ge (its : List Item) (k : Nat) (h : (serialise its).length ≤ k) : fragment its k = [] := by
  induction its generalizing k with
  | nil => rfl
  | cons it r ih =>
    simp only [serialise, List.length_append, List.length_cons] at h
    unfold fragment
    rw [if_pos (by omega)]
    exact ih _ (by omega)

theorem wholeLines_of_ge (its : List Item) (k : Nat) (h : (serialise its).length ≤ k) : wholeLines its k = its := by
  induction its generalizing k with
  | nil => rfl
  | cons it r ih =>
    simp only [serialise, List.length_append, List.length_cons] at h
    unfold wholeLines
    rw [if_pos (by omega), ih _ (by omega)]

/-- the fragment is a prefix of the line of `tornItem` -/
theorem fragment_prefix (its : List Item) (k : Nat) :
    fragment its k = [] ∨ ∃ it ∈ its, tornItem its k = some it ∧ fragment its k <+: fat it := by
  induction its generalizing k with
  | nil => exact Or.inl rfl
  | cons it r ih =>
    unfold fragment tornItem
    split_ifs with hk
    · rcases ih (k - ((fat it).length + 1)) with h | ⟨x, hx, ht, hp⟩
      · exact Or.inl h
      · exact Or.inr ⟨x, List.mem_cons_of_mem _ hx, ht, hp⟩
    · exact Or.inr ⟨it, by simp, rfl, List.take_prefix _ _⟩

theorem parseLine_some_fields (l : Bytes) (x : Item) (h : parseLine l = some x) : 8 ≤ (splitBar l).length := by
  unfold parseLine at h
  by_cases h1 : l = []
  · simp [h1] at h
  · by_cases h2 : (splitBar l).length < 8
    · simp [h1, h2] at h
    · omega

/-! ### writer invariants -/

theorem modLast_length (l : Dir) (f : File → File) : (modLast l f).length = l.length := by
  induction l with
  | nil => rfl
  | cons x r ih =>
    cases r with
    | nil => rfl
    | cons y r => simp only [modLast, List.length_cons] at ih ⊢; omega

theorem modLast_snoc (l : Dir) (x : File) (f : File → File) : modLast (l ++ [x]) f = l ++ [f x] := by
  induction l with
  | nil => rfl
  | cons y r ih =>
    cases r with
    | nil => simp [modLast]
    | cons z r => simp only [List.cons_append, modLast] at ih ⊢; rw [ih]

theorem modLast_forall (P : File → Prop) (l : Dir) (f : File → File) (hl : ∀ x ∈ l, P x) (hf : ∀ x, P x → P (f x)) :
    ∀ x ∈ modLast l f, P x := by
  induction l with
  | nil => simp [modLast]
  | cons y r ih =>
    cases r with
    | nil =>
      intro x hx
      simp only [modLast, List.mem_singleton] at hx
      exact hx ▸ hf y (hl y (by simp))
    | cons z r =>
      intro x hx
      simp only [modLast, List.mem_cons] at hx
      rcases hx with rfl | hx
      · exact hl _ (by simp)
      · exact ih (fun a ha => hl a (List.mem_cons_of_mem _ ha)) x (by simpa [modLast] using hx)

theorem serialise_append (a b : List Item) : serialise (a ++ b) = serialise a ++ serialise b := by
  induction a with
  | nil => rfl
  | cons x r ih => simp [serialise, ih]

theorem encodeIdx_append (a b : List (Nat × Nat)) : encodeIdx (a ++ b) = encodeIdx a ++ encodeIdx b := by
  induction a with
  | nil => rfl
  | cons x r ih => obtain ⟨s, o⟩ := x; simp [encodeIdx, ih]

/-- the bytes of a file are the serialisation of what was written to it -/
def FileOK (f : File) : Prop := f.data = serialise f.lines ∧ f.idx = encodeIdx f.ents

/-- an invariant kept by the four steps of `Write` is kept by `Write` -/
theorem write_induct (P : Writer → Prop)
    (hidx : ∀ w sec, P w → P (w.addIndex sec)) (happ : ∀ w items, P w → P (w.append items))
    (hroll : ∀ w ts, P w → P (w.roll ts)) (hlat : ∀ (w : Writer) n, P w → P { w with latestOpSec := n })
    (w : Writer) (ts : Nat) (items : List Item) (h : P w) : P (w.write ts items) := by
  have hrollIf : ∀ w c ts, P w → P (w.rollIf c ts) := by
    intro w c ts hw; unfold Writer.rollIf; split_ifs; exact hroll _ _ hw; exact hw
  unfold Writer.write
  dsimp only
  split_ifs
  · exact h
  · exact hlat _ _ (hrollIf _ _ _ (happ _ _ (hrollIf _ _ _ (hidx _ _ h))))
  · exact hlat _ _ (hrollIf _ _ _ (happ _ _ h))

theorem runWrites_induct (P : Writer → Prop)
    (hidx : ∀ w sec, P w → P (w.addIndex sec)) (happ : ∀ w items, P w → P (w.append items))
    (hroll : ∀ w ts, P w → P (w.roll ts)) (hlat : ∀ (w : Writer) n, P w → P { w with latestOpSec := n })
    (w : Writer) (hist : List (Nat × List Item)) (h : P w) : P (runWrites w hist) := by
  induction hist generalizing w with
  | nil => exact h
  | cons p r ih => exact ih _ (write_induct P hidx happ hroll hlat w p.1 p.2 h)

theorem allFilesOK_runWrites (w : Writer) (hist : List (Nat × List Item)) (h : ∀ f ∈ w.files, FileOK f) :
    ∀ f ∈ (runWrites w hist).files, FileOK f := by
  refine runWrites_induct (fun w => ∀ f ∈ w.files, FileOK f) ?_ ?_ ?_ ?_ w hist h
  · intro w sec hw
    exact modLast_forall FileOK _ _ hw (fun x hx => ⟨hx.1, by simp [hx.2, encodeIdx_append, encodeIdx]⟩)
  · intro w items hw
    exact modLast_forall FileOK _ _ hw (fun x hx => ⟨by simp [hx.1, serialise_append], hx.2⟩)
  · intro w ts hw f hf
    simp only [Writer.roll, List.mem_append, List.mem_singleton] at hf
    rcases hf with hf | rfl
    · exact hw f (List.mem_of_mem_drop hf)
    · exact ⟨rfl, rfl⟩
  · intro w n hw; exact hw

theorem new_filesOK (now a b : Nat) : ∀ f ∈ (Writer.new now a b).files, FileOK f := by
  intro f hf
  simp only [Writer.new, Writer.roll, List.length_nil, List.drop_nil, List.nil_append, List.mem_singleton] at hf
  subst hf
  exact ⟨rfl, rfl⟩

/-- **file-count bound**, kept by every step -/
theorem fileCount_runWrites (w : Writer) (hist : List (Nat × List Item)) (h0 : 0 < w.maxFiles)
    (h : w.files.length ≤ w.maxFiles) :
    (runWrites w hist).files.length ≤ w.maxFiles ∧ (runWrites w hist).maxFiles = w.maxFiles := by
  have := runWrites_induct (fun x => x.maxFiles = w.maxFiles ∧ x.files.length ≤ x.maxFiles) ?_ ?_ ?_ ?_ w hist ⟨rfl, h⟩
  · exact ⟨this.1 ▸ this.2, this.1⟩
  · intro x sec hx; simpa [Writer.addIndex, modLast_length] using hx
  · intro x items hx; simpa [Writer.append, modLast_length] using hx
  · intro x ts hx
    refine ⟨hx.1, ?_⟩
    simp only [Writer.roll, List.length_append, List.length_drop, List.length_singleton]
    have := hx.1
    omega
  · intro x n hx; exact hx

/-! ### the retained items are in timestamp order -/

def secLe (a b : Item) : Prop := a.ts / 1000 ≤ b.ts / 1000

theorem retained_modLast_same (fs : Dir) (g : File → File) (hg : ∀ f, (g f).lines = f.lines) :
    retained (modLast fs g) = retained fs := by
  induction fs with
  | nil => rfl
  | cons x r ih =>
    cases r with
    | nil => simp [modLast, retained, hg]
    | cons y r =>
      simp only [modLast, retained, List.flatMap_cons] at ih ⊢
      rw [ih]

theorem retained_modLast_append (fs : Dir) (hne : fs ≠ []) (g : File → File) (items : List Item)
    (hg : ∀ f, (g f).lines = f.lines ++ items) : retained (modLast fs g) = retained fs ++ items := by
  rw [← List.dropLast_append_getLast hne, modLast_snoc]
  simp [retained, hg]

theorem retained_drop_sublist (fs : Dir) (n : Nat) : (retained (fs.drop n)).Sublist (retained fs) := by
  induction fs generalizing n with
  | nil => simp [retained]
  | cons x r ih =>
    cases n with
    | zero => simp
    | succ n =>
      simp only [List.drop_succ_cons, retained, List.flatMap_cons] at ih ⊢
      exact (ih n).trans (List.sublist_append_right _ _)

/-- files present, retained items ordered by second, none after second `L` -/
def Ordered (w : Writer) (L : Nat) : Prop :=
  w.files ≠ [] ∧ (retained w.files).Pairwise secLe ∧ ∀ it ∈ retained w.files, it.ts / 1000 ≤ L

theorem ordered_mono {w : Writer} {L L' : Nat} (h : Ordered w L) (hL : L ≤ L') : Ordered w L' :=
  ⟨h.1, h.2.1, fun it hit => (h.2.2 it hit).trans hL⟩

theorem ordered_addIndex {w : Writer} {L : Nat} (sec : Nat) (h : Ordered w L) : Ordered (w.addIndex sec) L := by
  have e : retained (w.addIndex sec).files = retained w.files := retained_modLast_same _ _ (fun _ => rfl)
  unfold Ordered
  rw [e]
  refine ⟨?_, h.2⟩
  intro e'
  have := congrArg List.length e'
  simp only [Writer.addIndex, modLast_length] at this
  exact h.1 (List.length_eq_zero_iff.1 this)

theorem ordered_roll {w : Writer} {L : Nat} (ts : Nat) (h : Ordered w L) : Ordered (w.roll ts) L := by
  unfold Ordered Writer.roll
  dsimp only
  have e : retained (List.drop (w.files.length + 1 - w.maxFiles) w.files ++ [{ name := nextName w.files ts, data := [], idx := [] }])
      = retained (List.drop (w.files.length + 1 - w.maxFiles) w.files) := by
    simp [retained]
  rw [e]
  refine ⟨by simp, h.2.1.sublist (retained_drop_sublist _ _), fun it hit => h.2.2 it ((retained_drop_sublist _ _).subset hit)⟩

theorem ordered_rollIf {w : Writer} {L : Nat} (c : Bool) (ts : Nat) (h : Ordered w L) : Ordered (w.rollIf c ts) L := by
  unfold Writer.rollIf; split_ifs; exact ordered_roll ts h; exact h

theorem ordered_append {w : Writer} {L s : Nat} (items : List Item) (h : Ordered w L) (hL : L ≤ s)
    (hi : ∀ it ∈ items, it.ts / 1000 = s) : Ordered (w.append items) s := by
  have e : retained (w.append items).files = retained w.files ++ items :=
    retained_modLast_append _ h.1 _ items (fun _ => rfl)
  unfold Ordered
  rw [e]
  refine ⟨?_, ?_, ?_⟩
  · intro e'
    have := congrArg List.length e'
    simp only [Writer.append, modLast_length] at this
    exact h.1 (List.length_eq_zero_iff.1 this)
  · rw [List.pairwise_append]
    refine ⟨h.2.1, ?_, ?_⟩
    · rw [List.pairwise_iff_forall_sublist]
      intro a b hab
      have ha := hi a (hab.subset (by simp))
      have hb := hi b (hab.subset (by simp))
      unfold secLe; omega
    · intro a ha b hb
      have := h.2.2 a ha
      have := hi b hb
      unfold secLe; omega
  · intro it hit
    rcases List.mem_append.1 hit with hit | hit
    · exact (h.2.2 it hit).trans hL
    · exact (hi it hit).le

theorem ordered_write (w : Writer) (ts : Nat) (items : List Item) (h : Ordered w w.latestOpSec) :
    Ordered (w.write ts items) (w.write ts items).latestOpSec := by
  have hi : ∀ it ∈ items.map (fun i => ({ i with ts := ts, res := sanitize i.res } : Item)), it.ts / 1000 = ts / 1000 := by
    intro it hit; rcases List.mem_map.1 hit with ⟨i, _, rfl⟩; rfl
  unfold Writer.write
  dsimp only
  split_ifs with h1 h2
  · exact h
  · refine ordered_mono (L := ts / 1000) ?_ (le_max_right _ _)
    exact ordered_rollIf _ _ (ordered_append _ (ordered_rollIf _ _ (ordered_addIndex _ h)) (by omega) hi)
  · refine ordered_mono (L := ts / 1000) ?_ (le_max_right _ _)
    exact ordered_rollIf _ _ (ordered_append _ h (by omega) hi)

theorem ordered_runWrites (w : Writer) (hist : List (Nat × List Item)) (h : Ordered w w.latestOpSec) :
    Ordered (runWrites w hist) (runWrites w hist).latestOpSec := by
  induction hist generalizing w with
  | nil => exact h
  | cons p r ih => exact ih _ (ordered_write w p.1 p.2 h)

theorem ordered_new (now a b : Nat) : Ordered (Writer.new now a b) (Writer.new now a b).latestOpSec := by
  refine ⟨by simp [Writer.new, Writer.roll], ?_, ?_⟩ <;> simp [Writer.new, Writer.roll, retained]

/-! ### the index file -/

theorem be8_length (n : Nat) : (be8 n).length = 8 := rfl

theorem beVal_be8 (n : Nat) (h : n < 2 ^ 64) : beVal (be8 n) = n := by
  simp only [be8, beVal, List.foldl]
  norm_num at h ⊢
  omega

theorem take8_be8 (n : Nat) (r : Bytes) : (be8 n ++ r).take 8 = be8 n := by simp [be8]
theorem drop8_be8 (n : Nat) (r : Bytes) : (be8 n ++ r).drop 8 = r := by simp [be8]

theorem encodeIdx_length (ents : List (Nat × Nat)) : (encodeIdx ents).length = 16 * ents.length := by
  induction ents with
  | nil => rfl
  | cons e r ih => obtain ⟨s, o⟩ := e; simp [encodeIdx, be8_length, ih]; omega

def entsBounded (ents : List (Nat × Nat)) : Prop := ∀ e ∈ ents, e.1 < 2 ^ 64 ∧ e.2 < 2 ^ 64

/-- scanning an intact index file finds the first entry whose second is not before `begin` -/
theorem idxScan_encode (ents : List (Nat × Nat)) (hb : entsBounded ents) (fuel : Nat) (hf : ents.length < fuel)
    (pos bs : Nat) (c : Cache) (nm : Name) :
    (idxScan fuel (encodeIdx ents) pos bs c nm).2
      = match ents.find? (fun e => decide (e.1 ≥ bs)) with
        | some e => Found.at e.2
        | none => Found.notFound := by
  induction ents generalizing fuel pos c with
  | nil =>
    cases fuel with
    | zero => simp at hf
    | succ f => simp [idxScan, encodeIdx]
  | cons e r ih =>
    obtain ⟨s, o⟩ := e
    have hs := (hb (s, o) (by simp)).1
    have ho := (hb (s, o) (by simp)).2
    cases fuel with
    | zero => simp at hf
    | succ f =>
      have hlen : (encodeIdx ((s, o) :: r)).length = 16 + 16 * r.length := by
        rw [encodeIdx_length]; simp; omega
      have hlen2 : (be8 o ++ encodeIdx r).length = 8 + 16 * r.length := by
        simp [be8_length, encodeIdx_length]
      unfold idxScan
      rw [if_neg (by omega), if_neg (by omega)]
      simp only [encodeIdx, List.append_assoc, take8_be8, drop8_be8, beVal_be8 s hs, beVal_be8 o ho]
      by_cases hge : s ≥ bs
      · rw [if_pos hge, if_neg (by omega)]
        simp [List.find?, hge]
      · rw [if_neg hge, if_neg (by omega)]
        rw [ih (fun e he => hb e (List.mem_cons_of_mem _ he)) f (by simpa using hf)]
        simp [List.find?, hge]

/-- the position the index delivers for `begin`: the files from the first one that has an entry
    not before `begin` on, and that entry's offset -/
def firstHit (bs : Nat) : Dir → Option (Dir × Nat)
  | [] => none
  | f :: r => match f.ents.find? (fun e => decide (e.1 ≥ bs)) with
    | some e => some (f :: r, e.2)
    | none => firstHit bs r

theorem firstHit_suffix (bs : Nat) (fs d : Dir) (off : Nat) (h : firstHit bs fs = some (d, off)) :
    ∃ pre f rest, fs = pre ++ f :: rest ∧ d = f :: rest := by
  induction fs with
  | nil => simp [firstHit] at h
  | cons f r ih =>
    unfold firstHit at h
    split at h
    · simp only [Option.some.injEq, Prod.mk.injEq] at h
      exact ⟨[], f, r, rfl, h.1.symm⟩
    · obtain ⟨pre, g, rest, e1, e2⟩ := ih h
      exact ⟨f :: pre, g, rest, by simp [e1], e2⟩

theorem findOffsetToStart_intact (f : File) (hf : FileOK f) (hb : entsBounded f.ents) (c : Cache) (b : Nat) :
    (findOffsetToStart f c b 0).2
      = match f.ents.find? (fun e => decide (e.1 ≥ b / 1000)) with
        | some e => Found.at e.2
        | none => Found.notFound := by
  unfold findOffsetToStart
  simp only [List.drop_zero]
  rw [hf.2]
  exact idxScan_encode _ hb _ (by rw [encodeIdx_length]; omega) _ _ _ _

theorem searchLoop_intact (doRead : Dir → Nat → List Item) (b : Nat) (fs : Dir)
    (hf : ∀ f ∈ fs, FileOK f ∧ entsBounded f.ents) (c : Cache) :
    (searchLoop doRead b 0 fs c).2
      = match firstHit (b / 1000) fs with
        | some (d, off) => doRead d off
        | none => [] := by
  induction fs generalizing c with
  | nil => rfl
  | cons f r ih =>
    have h1 := findOffsetToStart_intact f (hf f (by simp)).1 (hf f (by simp)).2 c b
    unfold searchLoop firstHit
    cases hfind : f.ents.find? (fun e => decide (e.1 ≥ b / 1000)) with
    | some e =>
      rw [hfind] at h1
      rcases hres : findOffsetToStart f c b 0 with ⟨c', fd⟩
      rw [hres] at h1
      simp only at h1
      subst h1
      rfl
    | none =>
      rw [hfind] at h1
      rcases hres : findOffsetToStart f c b 0 with ⟨c', fd⟩
      rw [hres] at h1
      simp only at h1
      subst h1
      exact ih (fun g hg => hf g (List.mem_cons_of_mem _ hg)) c'

/-! ### the line scan of the reader -/

theorem scanEnd_append (bs es : Nat) (res : Bytes) (a b : List Item) :
    scanEnd bs es res (a ++ b)
      = if (scanEnd bs es res a).2 then ((scanEnd bs es res a).1 ++ (scanEnd bs es res b).1, (scanEnd bs es res b).2)
        else ((scanEnd bs es res a).1, false) := by
  induction a with
  | nil => simp [scanEnd]
  | cons it r ih =>
    simp only [List.cons_append, scanEnd]
    split_ifs with h1 h2 h3 h4 <;> simp_all

theorem readByEndRest_eq (bs es : Nat) (res : Bytes) (fs : Dir) :
    readByEndRest bs es res fs = (scanEnd bs es res (fs.flatMap fun f => itemsFrom f.data 0)).1 := by
  induction fs with
  | nil => rfl
  | cons f r ih =>
    simp only [readByEndRest, List.flatMap_cons, scanEnd_append]
    split_ifs with h <;> simp_all

theorem readByEnd_eq (f : File) (r : Dir) (off b e : Nat) (res : Bytes) :
    readByEnd (f :: r) off b e res
      = (scanEnd (b / 1000) (e / 1000) res (itemsFrom f.data off ++ r.flatMap fun g => itemsFrom g.data 0)).1 := by
  simp only [readByEnd, scanEnd_append, readByEndRest_eq]
  split_ifs with h <;> simp_all

/-- on an ordered list that starts not before `begin` the scan is the filter -/
theorem scanEnd_sorted (bs es : Nat) (res : Bytes) (l : List Item) (hs : l.Pairwise secLe)
    (hb : ∀ it ∈ l, bs ≤ it.ts / 1000) :
    (scanEnd bs es res l).1 = l.filter fun it => decide (it.ts / 1000 ≤ es) && resMatch res it := by
  induction l with
  | nil => rfl
  | cons it r ih =>
    have hr := ih (List.Pairwise.of_cons hs) (fun x hx => hb x (List.mem_cons_of_mem _ hx))
    have hit := hb it (by simp)
    unfold scanEnd
    by_cases h1 : it.ts / 1000 < bs ∨ it.ts / 1000 > es
    · rw [if_pos h1]
      have hgt : it.ts / 1000 > es := by omega
      symm
      rw [List.filter_eq_nil_iff]
      intro x hx
      have : it.ts / 1000 ≤ x.ts / 1000 := by
        rcases List.mem_cons.1 hx with rfl | hx
        · exact le_refl _
        · exact List.rel_of_pairwise_cons hs hx
      have : ¬ x.ts / 1000 ≤ es := by omega
      simp [this]
    · rw [if_neg h1]
      have hle : it.ts / 1000 ≤ es := by omega
      simp only [List.filter_cons, hle, decide_true, Bool.true_and]
      rw [← hr]

theorem itemsFrom_serialise_zero (its : List Item) (hv : ∀ it ∈ its, Valid it) : itemsFrom (serialise its) 0 = its := by
  unfold itemsFrom
  rw [List.drop_zero, stripCRLF_id _ (serialise_noCR its hv), readerLines_serialise its hv, filterMap_parse_fat its hv]

theorem itemsFrom_serialise_at (its : List Item) (hv : ∀ it ∈ its, Valid it) (j : Nat) :
    itemsFrom (serialise its) (serialise (its.take j)).length = its.drop j := by
  unfold itemsFrom
  have e : (serialise its).drop (serialise (its.take j)).length = serialise (its.drop j) := by
    conv_lhs => arg 2; rw [← List.take_append_drop j its, serialise_append]
    exact List.drop_left
  rw [e, stripCRLF_id _ (serialise_noCR _ (fun x hx => hv x (List.mem_of_mem_drop hx))), readerLines_serialise _ (fun x hx => hv x (List.mem_of_mem_drop hx)),
    filterMap_parse_fat _ (fun x hx => hv x (List.mem_of_mem_drop hx))]

theorem flatMap_itemsFrom (fs : Dir) (h : ∀ f ∈ fs, FileOK f ∧ ∀ it ∈ f.lines, Valid it) :
    (fs.flatMap fun g => itemsFrom g.data 0) = retained fs := by
  induction fs with
  | nil => rfl
  | cons f r ih =>
    simp only [List.flatMap_cons, retained] at ih ⊢
    rw [ih (fun g hg => h g (List.mem_cons_of_mem _ hg)), (h f (by simp)).1.1, itemsFrom_serialise_zero _ (h f (by simp)).2]

/-! ### index entries point at the first line of their second (writer invariant) -/

/-- entry `e` of a file with lines `ls`; `before` / `after` = the items of the earlier / later files -/
def EntOK (before ls after : List Item) (e : Nat × Nat) : Prop :=
  ∃ j, j ≤ ls.length ∧ e.2 = (serialise (ls.take j)).length ∧ (∀ it ∈ before ++ ls.take j, it.ts / 1000 < e.1) ∧
    (∀ it ∈ ls.drop j ++ after, e.1 ≤ it.ts / 1000)

def EntsOK : List Item → Dir → Prop
  | _, [] => True
  | before, f :: rest => (∀ e ∈ f.ents, EntOK before f.lines (retained rest) e) ∧ EntsOK (before ++ f.lines) rest

def allEnts (fs : Dir) : List (Nat × Nat) := fs.flatMap (·.ents)

theorem retained_append (a b : Dir) : retained (a ++ b) = retained a ++ retained b := by simp [retained]
theorem retained_cons (f : File) (r : Dir) : retained (f :: r) = f.lines ++ retained r := by simp [retained]
theorem allEnts_append (a b : Dir) : allEnts (a ++ b) = allEnts a ++ allEnts b := by simp [allEnts]
theorem allEnts_cons (f : File) (r : Dir) : allEnts (f :: r) = f.ents ++ allEnts r := by simp [allEnts]

theorem EntsOK_split (before : List Item) (pre : Dir) (f : File) (rest : Dir) (h : EntsOK before (pre ++ f :: rest)) :
    ∀ e ∈ f.ents, EntOK (before ++ retained pre) f.lines (retained rest) e := by
  induction pre generalizing before with
  | nil => simpa [retained] using h.1
  | cons g pre ih =>
    have := ih (before ++ g.lines) h.2
    simpa [retained_cons, List.append_assoc] using this

theorem EntOK_mono {before before' ls after : List Item} {e : Nat × Nat} (hsub : ∀ x ∈ before', x ∈ before)
    (h : EntOK before ls after e) : EntOK before' ls after e := by
  obtain ⟨j, hj, h1, h2, h3⟩ := h
  refine ⟨j, hj, h1, ?_, h3⟩
  intro it hit
  rcases List.mem_append.1 hit with hit | hit
  · exact h2 it (List.mem_append_left _ (hsub it hit))
  · exact h2 it (List.mem_append_right _ hit)

theorem EntsOK_mono {before before' : List Item} (fs : Dir) (hsub : ∀ x ∈ before', x ∈ before)
    (h : EntsOK before fs) : EntsOK before' fs := by
  induction fs generalizing before before' with
  | nil => trivial
  | cons f r ih =>
    refine ⟨fun e he => EntOK_mono hsub (h.1 e he), ih ?_ h.2⟩
    intro x hx
    rcases List.mem_append.1 hx with hx | hx
    · exact List.mem_append_left _ (hsub x hx)
    · exact List.mem_append_right _ hx

theorem EntsOK_drop (before : List Item) (fs : Dir) (n : Nat) (h : EntsOK before fs) : EntsOK before (fs.drop n) := by
  induction n generalizing before fs with
  | zero => simpa using h
  | succ n ih =>
    cases fs with
    | nil => simpa using h
    | cons f r =>
      simp only [List.drop_succ_cons]
      exact ih _ _ (EntsOK_mono r (fun x hx => List.mem_append_left _ hx) h.2)

theorem EntsOK_snoc_empty (before : List Item) (fs : Dir) (g : File) (hl : g.lines = []) (he : g.ents = [])
    (h : EntsOK before fs) : EntsOK before (fs ++ [g]) := by
  induction fs generalizing before with
  | nil => simp [EntsOK, he]
  | cons f r ih =>
    rw [List.cons_append, EntsOK] at *
    refine ⟨?_, ih _ h.2⟩
    have : retained (r ++ [g]) = retained r := by simp [retained, hl]
    rw [this]
    exact h.1

/-- `writeIndex`: the new entry points at the end of the current file, every item so far is older -/
theorem EntsOK_addIndex (before : List Item) (init : Dir) (cur cur' : File) (s : Nat)
    (hl : cur'.lines = cur.lines) (he : cur'.ents = cur.ents ++ [(s, (serialise cur.lines).length)])
    (hold : ∀ it ∈ before ++ retained init ++ cur.lines, it.ts / 1000 < s)
    (h : EntsOK before (init ++ [cur])) : EntsOK before (init ++ [cur']) := by
  induction init generalizing before with
  | nil =>
    simp only [List.nil_append, EntsOK, and_true] at h ⊢
    intro e hee
    rw [he] at hee
    rw [hl]
    rcases List.mem_append.1 hee with hee | hee
    · exact h e hee
    · simp only [List.mem_singleton] at hee
      subst hee
      refine ⟨cur.lines.length, le_refl _, by simp, ?_, by simp [retained]⟩
      intro it hit
      simp only [List.take_length] at hit
      exact hold it (by simpa [retained] using hit)
  | cons f r ih =>
    rw [List.cons_append, EntsOK] at *
    refine ⟨?_, ih _ ?_ h.2⟩
    · have : retained (r ++ [cur']) = retained (r ++ [cur]) := by simp [retained, hl]
      rw [this]
      exact h.1
    · intro it hit
      exact hold it (by simpa [retained_cons, List.append_assoc] using hit)

/-- `writeItemsAndFlush`: the appended items are not older than any index entry -/
theorem EntsOK_append (before : List Item) (init : Dir) (cur cur' : File) (items : List Item) (s : Nat)
    (hl : cur'.lines = cur.lines ++ items) (he : cur'.ents = cur.ents)
    (hents : ∀ e ∈ allEnts (init ++ [cur]), e.1 ≤ s) (hi : ∀ it ∈ items, it.ts / 1000 = s)
    (h : EntsOK before (init ++ [cur])) : EntsOK before (init ++ [cur']) := by
  induction init generalizing before with
  | nil =>
    simp only [List.nil_append, EntsOK, and_true] at h ⊢
    intro e hee
    rw [he] at hee
    obtain ⟨j, hj, h1, h2, h3⟩ := h e hee
    have hes : e.1 ≤ s := hents e (by simp [allEnts, hee])
    refine ⟨j, by rw [hl]; simp; omega, ?_, ?_, ?_⟩
    · rw [hl, List.take_append_of_le_length hj]; exact h1
    · rw [hl, List.take_append_of_le_length hj]; exact h2
    · rw [hl, List.drop_append_of_le_length hj]
      intro it hit
      simp only [retained, List.flatMap_nil, List.append_nil, List.mem_append] at hit h3
      rcases hit with hit | hit
      · exact h3 it (by simp [hit])
      · rw [hi it hit]; exact hes
  | cons f r ih =>
    rw [List.cons_append] at hents
    rw [List.cons_append, EntsOK] at *
    refine ⟨?_, ih _ (fun e hee => hents e (by simp [allEnts_cons, allEnts_append] at hee ⊢; tauto)) h.2⟩
    intro e hee
    obtain ⟨j, hj, h1, h2, h3⟩ := h.1 e hee
    have hes : e.1 ≤ s := hents e (by simp [allEnts_cons, hee])
    refine ⟨j, hj, h1, h2, ?_⟩
    intro it hit
    have hr : retained (r ++ [cur']) = retained (r ++ [cur]) ++ items := by
      simp [retained_append, retained, hl]
    rw [hr, ← List.append_assoc] at hit
    rcases List.mem_append.1 hit with hit | hit
    · exact h3 it hit
    · rw [hi it hit]; exact hes

/-! ### the invariant bundle kept by every write history -/

def entLe (a b : Nat × Nat) : Prop := a.1 ≤ b.1

structure Inv (w : Writer) (L : Nat) : Prop where
  ord : Ordered w L
  ok : ∀ f ∈ w.files, FileOK f
  ents : EntsOK [] w.files
  sorted : (allEnts w.files).Pairwise entLe
  bound : ∀ e ∈ allEnts w.files, e.1 ≤ L

theorem files_snoc {fs : Dir} (h : fs ≠ []) : ∃ init cur, fs = init ++ [cur] :=
  ⟨_, _, (List.dropLast_append_getLast h).symm⟩

theorem curSize_snoc (init : Dir) (cur : File) : curSize (init ++ [cur]) = cur.data.length := by
  simp [curSize]

theorem allEnts_drop_sublist (fs : Dir) (n : Nat) : (allEnts (fs.drop n)).Sublist (allEnts fs) := by
  induction fs generalizing n with
  | nil => simp [allEnts]
  | cons x r ih =>
    cases n with
    | zero => simp
    | succ n =>
      simp only [List.drop_succ_cons, allEnts, List.flatMap_cons] at ih ⊢
      exact (ih n).trans (List.sublist_append_right _ _)

theorem inv_mono {w : Writer} {L L' : Nat} (h : Inv w L) (hL : L ≤ L') : Inv w L' :=
  ⟨ordered_mono h.ord hL, h.ok, h.ents, h.sorted, fun e he => (h.bound e he).trans hL⟩

def addIdxFile (cur : File) (s pos : Nat) : File :=
  { cur with idx := cur.idx ++ be8 s ++ be8 pos, ents := cur.ents ++ [(s, pos)] }

def appendFile (cur : File) (items : List Item) : File :=
  { cur with data := cur.data ++ serialise items, lines := cur.lines ++ items }

theorem inv_addIndex {w : Writer} {L : Nat} (s : Nat) (h : Inv w L) (hs : L < s) : Inv (w.addIndex s) s := by
  obtain ⟨init, cur, hfs⟩ := files_snoc h.ord.1
  have hcur : FileOK cur := h.ok cur (by rw [hfs]; simp)
  have hfiles : (w.addIndex s).files = init ++ [addIdxFile cur s cur.data.length] := by
    simp only [Writer.addIndex, hfs, modLast_snoc, curSize_snoc, addIdxFile]
  have hret : retained w.files = retained init ++ cur.lines := by rw [hfs]; simp [retained]
  refine ⟨ordered_mono (ordered_addIndex s h.ord) hs.le, ?_, ?_, ?_, ?_⟩
  · exact modLast_forall FileOK _ _ h.ok (fun x hx => ⟨hx.1, by simp [hx.2, encodeIdx_append, encodeIdx]⟩)
  · rw [hfiles]
    refine EntsOK_addIndex [] init cur _ s rfl (by simp [addIdxFile, hcur.1]) ?_ (hfs ▸ h.ents)
    intro it hit
    have := h.ord.2.2 it (by rw [hret]; simpa using hit)
    omega
  · rw [hfiles, allEnts_append]
    have : allEnts [addIdxFile cur s cur.data.length] = allEnts [cur] ++ [(s, cur.data.length)] := by
      simp [allEnts, addIdxFile]
    rw [this, ← List.append_assoc, ← allEnts_append, ← hfs, List.pairwise_append]
    refine ⟨h.sorted, List.pairwise_singleton _ _, ?_⟩
    intro a ha b hb
    simp only [List.mem_singleton] at hb
    subst hb
    have := h.bound a ha
    unfold entLe; dsimp only; omega
  · rw [hfiles, allEnts_append]
    intro e he
    have : allEnts [addIdxFile cur s cur.data.length] = allEnts [cur] ++ [(s, cur.data.length)] := by
      simp [allEnts, addIdxFile]
    rw [this, ← List.append_assoc, ← allEnts_append, ← hfs] at he
    rcases List.mem_append.1 he with he | he
    · exact (h.bound e he).trans hs.le
    · simp only [List.mem_singleton] at he; subst he; exact le_refl _

theorem inv_append {w : Writer} {L s : Nat} (items : List Item) (h : Inv w L) (hL : L ≤ s)
    (hi : ∀ it ∈ items, it.ts / 1000 = s) : Inv (w.append items) s := by
  obtain ⟨init, cur, hfs⟩ := files_snoc h.ord.1
  have hfiles : (w.append items).files = init ++ [appendFile cur items] := by
    simp only [Writer.append, hfs, modLast_snoc, appendFile]
  have hall : allEnts (w.append items).files = allEnts w.files := by
    rw [hfiles, hfs]; simp [allEnts, appendFile]
  refine ⟨ordered_append items h.ord hL hi, ?_, ?_, ?_, ?_⟩
  · exact modLast_forall FileOK _ _ h.ok (fun x hx => ⟨by simp [hx.1, serialise_append], hx.2⟩)
  · rw [hfiles]
    exact EntsOK_append [] init cur _ items s rfl rfl (fun e he => (h.bound e (hfs ▸ he)).trans hL) hi (hfs ▸ h.ents)
  · rw [hall]; exact h.sorted
  · rw [hall]; exact fun e he => (h.bound e he).trans hL

theorem inv_roll {w : Writer} {L : Nat} (ts : Nat) (h : Inv w L) : Inv (w.roll ts) L := by
  have hall : allEnts (w.roll ts).files = allEnts (w.files.drop (w.files.length + 1 - w.maxFiles)) := by
    simp [Writer.roll, allEnts]
  refine ⟨ordered_roll ts h.ord, ?_, ?_, ?_, ?_⟩
  · intro f hf
    simp only [Writer.roll, List.mem_append, List.mem_singleton] at hf
    rcases hf with hf | rfl
    · exact h.ok f (List.mem_of_mem_drop hf)
    · exact ⟨rfl, rfl⟩
  · exact EntsOK_snoc_empty [] _ _ rfl rfl (EntsOK_drop [] _ _ h.ents)
  · rw [hall]; exact h.sorted.sublist (allEnts_drop_sublist _ _)
  · rw [hall]; exact fun e he => h.bound e ((allEnts_drop_sublist _ _).subset he)

theorem inv_rollIf {w : Writer} {L : Nat} (c : Bool) (ts : Nat) (h : Inv w L) : Inv (w.rollIf c ts) L := by
  unfold Writer.rollIf; split_ifs; exact inv_roll ts h; exact h

theorem inv_setLatest {w : Writer} {L : Nat} (n : Nat) (h : Inv w L) : Inv { w with latestOpSec := n } L :=
  ⟨h.ord, h.ok, h.ents, h.sorted, h.bound⟩

theorem inv_write (w : Writer) (ts : Nat) (items : List Item) (h : Inv w w.latestOpSec) :
    Inv (w.write ts items) (w.write ts items).latestOpSec := by
  have hi : ∀ it ∈ items.map (fun i => ({ i with ts := ts, res := sanitize i.res } : Item)), it.ts / 1000 = ts / 1000 := by
    intro it hit; rcases List.mem_map.1 hit with ⟨i, _, rfl⟩; rfl
  unfold Writer.write
  dsimp only
  split_ifs with h1 h2
  · exact h
  · refine inv_mono (L := ts / 1000) (inv_setLatest _ ?_) (le_max_right _ _)
    exact inv_rollIf _ _ (inv_append _ (inv_rollIf _ _ (inv_addIndex _ h h2)) (le_refl _) hi)
  · refine inv_mono (L := ts / 1000) (inv_setLatest _ ?_) (le_max_right _ _)
    exact inv_rollIf _ _ (inv_append _ h (by omega) hi)

theorem inv_runWrites (w : Writer) (hist : List (Nat × List Item)) (h : Inv w w.latestOpSec) :
    Inv (runWrites w hist) (runWrites w hist).latestOpSec := by
  induction hist generalizing w with
  | nil => exact h
  | cons p r ih => exact ih _ (inv_write w p.1 p.2 h)

theorem inv_new (now a b : Nat) : Inv (Writer.new now a b) (Writer.new now a b).latestOpSec := by
  refine ⟨ordered_new now a b, new_filesOK now a b, ?_, ?_, ?_⟩ <;>
    simp [Writer.new, Writer.roll, EntsOK, allEnts]

/-! ### from the writer invariants to the correctness of the index for a given `begin` -/

/-- the position the index delivers for `begin` (`firstHit`) splits the retained items into those
    before `begin` and those not before it -/
def IndexCorrect (bs : Nat) (fs : Dir) : Prop :=
  match firstHit bs fs with
  | none => ∀ it ∈ retained fs, it.ts / 1000 < bs
  | some (d, off) => ∀ pre f rest, fs = pre ++ f :: rest → d = f :: rest →
      (∀ it ∈ retained pre, it.ts / 1000 < bs) ∧
      ∃ j, off = (serialise (f.lines.take j)).length ∧ (∀ it ∈ f.lines.take j, it.ts / 1000 < bs) ∧
        ∀ it ∈ f.lines.drop j ++ retained rest, bs ≤ it.ts / 1000

theorem firstHit_none (bs : Nat) (fs : Dir) (h : firstHit bs fs = none) : ∀ e ∈ allEnts fs, e.1 < bs := by
  induction fs with
  | nil => simp [allEnts]
  | cons f r ih =>
    unfold firstHit at h
    cases hfind : f.ents.find? (fun e => decide (e.1 ≥ bs)) with
    | some e => rw [hfind] at h; simp at h
    | none =>
      rw [hfind] at h
      intro e he
      rw [allEnts_cons] at he
      rcases List.mem_append.1 he with he | he
      · have := List.find?_eq_none.1 hfind e he
        simpa using this
      · exact ih h e he

theorem firstHit_some (bs : Nat) (fs d : Dir) (off : Nat) (h : firstHit bs fs = some (d, off)) :
    ∃ pre f rest l1 e l2, fs = pre ++ f :: rest ∧ d = f :: rest ∧ f.ents = l1 ++ e :: l2 ∧ off = e.2 ∧ bs ≤ e.1 ∧
      ∀ x ∈ allEnts pre ++ l1, x.1 < bs := by
  induction fs with
  | nil => simp [firstHit] at h
  | cons f r ih =>
    unfold firstHit at h
    cases hfind : f.ents.find? (fun e => decide (e.1 ≥ bs)) with
    | some e =>
      rw [hfind] at h
      simp only [Option.some.injEq, Prod.mk.injEq] at h
      obtain ⟨hp, l1, l2, hl, hall⟩ := List.find?_eq_some_iff_append.1 hfind
      refine ⟨[], f, r, l1, e, l2, rfl, h.1.symm, hl, h.2.symm, by simpa using hp, ?_⟩
      intro x hx
      simp only [allEnts, List.flatMap_nil, List.nil_append] at hx
      have := hall x hx
      simpa using this
    | none =>
      rw [hfind] at h
      obtain ⟨pre, g, rest, l1, e, l2, h1, h2, h3, h4, h5, h6⟩ := ih h
      refine ⟨f :: pre, g, rest, l1, e, l2, by simp [h1], h2, h3, h4, h5, ?_⟩
      intro x hx
      rw [allEnts_cons, List.append_assoc] at hx
      rcases List.mem_append.1 hx with hx | hx
      · have := List.find?_eq_none.1 hfind x hx
        simpa using this
      · exact h6 x hx

/-- **the index is correct for `begin`** whenever the entries are as the writer leaves them and every
    retained item not before `begin` belongs to a second that has an index entry in a retained file -/
theorem indexCorrect_of_inv (fs : Dir) (hents : EntsOK [] fs) (hsorted : (allEnts fs).Pairwise entLe) (bs : Nat)
    (hcov : ∀ x ∈ retained fs, bs ≤ x.ts / 1000 → ∃ e ∈ allEnts fs, e.1 = x.ts / 1000) : IndexCorrect bs fs := by
  unfold IndexCorrect
  cases hh : firstHit bs fs with
  | none =>
    simp only
    intro it hit
    by_contra hge
    obtain ⟨e, he, hes⟩ := hcov it hit (by omega)
    have := firstHit_none bs fs hh e he
    omega
  | some p =>
    obtain ⟨d, off⟩ := p
    simp only
    intro pre' f' rest' e1' e2'
    obtain ⟨pre, f, rest, l1, e, l2, e1, e2, hl, hoff, hbs, hlt⟩ := firstHit_some bs fs d off hh
    -- the decomposition is unique
    have hd : f' :: rest' = f :: rest := e2'.symm.trans e2
    have hpre : pre' = pre := by
      have : pre' ++ f :: rest = pre ++ f :: rest := by rw [← e1, ← hd, ← e1']
      exact List.append_cancel_right this
    obtain ⟨hf, hr⟩ := List.cons.inj hd
    subst hpre hf hr
    -- every entry not before `begin` is not before `e`
    have hge : ∀ x ∈ allEnts fs, bs ≤ x.1 → e.1 ≤ x.1 := by
      intro x hx hxb
      rw [e1, allEnts_append, allEnts_cons, hl] at hx hsorted
      have hx' : x ∈ (allEnts pre' ++ l1) ++ (e :: (l2 ++ allEnts rest')) := by
        simpa [List.append_assoc] using hx
      rcases List.mem_append.1 hx' with hx' | hx'
      · have := hlt x hx'; omega
      · rcases List.mem_cons.1 hx' with rfl | hx'
        · exact le_refl _
        · have hs2 : (e :: (l2 ++ allEnts rest')).Pairwise entLe := by
            have : ((allEnts pre' ++ l1) ++ (e :: (l2 ++ allEnts rest'))).Pairwise entLe := by
              simpa [List.append_assoc] using hsorted
            exact (List.pairwise_append.1 this).2.1
          exact List.rel_of_pairwise_cons hs2 hx'
    obtain ⟨j, hj, hoffj, hbefore, hafter⟩ := EntsOK_split [] pre' f' rest' (e1 ▸ hents) e (by rw [hl]; simp)
    have hold : ∀ it ∈ retained pre' ++ f'.lines.take j, it.ts / 1000 < bs := by
      intro it hit
      by_contra hnot
      have hmem : it ∈ retained fs := by
        rw [e1, retained_append, retained_cons]
        rcases List.mem_append.1 hit with h | h
        · exact List.mem_append_left _ h
        · exact List.mem_append_right _ (List.mem_append_left _ (List.mem_of_mem_take h))
      obtain ⟨x, hx, hxs⟩ := hcov it hmem (by omega)
      have h1 := hge x hx (by omega)
      have h2 := hbefore it (by simpa using hit)
      omega
    refine ⟨fun it hit => hold it (List.mem_append_left _ hit), j, hoff.trans hoffj,
      fun it hit => hold it (List.mem_append_right _ hit), ?_⟩
    intro it hit
    have := hafter it hit
    omega

/-! ### the remaining side conditions of `find_fresh_partial` for write histories -/

def normItems (ts : Nat) (items : List Item) : List Item :=
  items.map fun i => { i with ts := ts, res := sanitize i.res }

theorem rollIf_latest (w : Writer) (c : Bool) (ts : Nat) : (w.rollIf c ts).latestOpSec = w.latestOpSec := by
  unfold Writer.rollIf; split_ifs <;> rfl

theorem write_latest_lt (w : Writer) (ts : Nat) (items : List Item) (B : Nat) (hw : w.latestOpSec < B)
    (ht : ts / 1000 < B) : (w.write ts items).latestOpSec < B := by
  unfold Writer.write
  dsimp only
  split_ifs
  · exact hw
  · simp only [rollIf_latest, Writer.append, Writer.addIndex]; exact max_lt hw ht
  · simp only [rollIf_latest, Writer.append]; exact max_lt hw ht

theorem valid_norm (ts : Nat) (hts : ts < 2 ^ 64) (i : Item) (h : Valid i) :
    Valid { i with ts := ts, res := sanitize i.res } := by
  have hsan : sanitize i.res = i.res := sanitize_id _ (fun hx => (h.res _ hx).1 rfl)
  exact ⟨hts, h.pass, h.block, h.complete, h.error, h.rt, h.occ, h.conc, h.cls_lo, h.cls_hi, by simpa [hsan] using h.res⟩

def LinesValid (w : Writer) : Prop := ∀ f ∈ w.files, ∀ it ∈ f.lines, Valid it

theorem linesValid_roll (w : Writer) (ts : Nat) (h : LinesValid w) : LinesValid (w.roll ts) := by
  intro f hf
  simp only [Writer.roll, List.mem_append, List.mem_singleton] at hf
  rcases hf with hf | rfl
  · exact h f (List.mem_of_mem_drop hf)
  · simp

theorem linesValid_rollIf (w : Writer) (c : Bool) (ts : Nat) (h : LinesValid w) : LinesValid (w.rollIf c ts) := by
  unfold Writer.rollIf; split_ifs; exact linesValid_roll w ts h; exact h

theorem linesValid_addIndex (w : Writer) (s : Nat) (h : LinesValid w) : LinesValid (w.addIndex s) :=
  modLast_forall (fun f => ∀ it ∈ f.lines, Valid it) _ _ h (fun _ hx => hx)

theorem linesValid_append (w : Writer) (items : List Item) (hi : ∀ it ∈ items, Valid it) (h : LinesValid w) :
    LinesValid (w.append items) :=
  modLast_forall (fun f => ∀ it ∈ f.lines, Valid it) _ _ h (fun _ hx it hit => by
    rcases List.mem_append.1 hit with hit | hit
    · exact hx it hit
    · exact hi it hit)

theorem linesValid_write (w : Writer) (ts : Nat) (items : List Item) (hts : ts < 2 ^ 64)
    (hi : ∀ it ∈ items, Valid it) (h : LinesValid w) : LinesValid (w.write ts items) := by
  have hn : ∀ it ∈ items.map (fun i => ({ i with ts := ts, res := sanitize i.res } : Item)), Valid it := by
    intro it hit
    rcases List.mem_map.1 hit with ⟨i, hi', rfl⟩
    exact valid_norm ts hts i (hi i hi')
  unfold Writer.write
  dsimp only
  split_ifs
  · exact h
  · exact linesValid_rollIf _ _ _ (linesValid_append _ _ hn (linesValid_rollIf _ _ _ (linesValid_addIndex _ _ h)))
  · exact linesValid_rollIf _ _ _ (linesValid_append _ _ hn h)

/-- a history the writer accepts: timestamps and counters in the range of their Go types, resource
    names without field separator and line breaks -/
def HistValid (hist : List (Nat × List Item)) : Prop := ∀ p ∈ hist, p.1 < 2 ^ 64 ∧ ∀ it ∈ p.2, Valid it

theorem runWrites_side (w : Writer) (hist : List (Nat × List Item)) (hv : HistValid hist) (hl : LinesValid w)
    (hw : w.latestOpSec < 2 ^ 64) :
    LinesValid (runWrites w hist) ∧ (runWrites w hist).latestOpSec < 2 ^ 64 := by
  induction hist generalizing w with
  | nil => exact ⟨hl, hw⟩
  | cons p r ih =>
    have hp := hv p (by simp)
    refine ih _ (fun q hq => hv q (List.mem_cons_of_mem _ hq)) (linesValid_write w p.1 p.2 hp.1 hp.2 hl)
      (write_latest_lt w p.1 p.2 _ hw ?_)
    have := hp.1
    omega

theorem serialise_take_length_le (its : List Item) (j : Nat) : (serialise (its.take j)).length ≤ (serialise its).length := by
  conv_rhs => rw [← List.take_append_drop j its, serialise_append]
  simp

theorem filter_nil_of_lt (l : List Item) (b e : Nat) (res : Bytes) (h : ∀ it ∈ l, it.ts / 1000 < b / 1000) :
    l.filter (fun it => inRange b e it && resMatch res it) = [] := by
  rw [List.filter_eq_nil_iff]
  intro it hit
  have := h it hit
  have : ¬ b / 1000 ≤ it.ts / 1000 := by omega
  simp [inRange, this]

/-! ### whatever the bytes and the cache are, a search only returns items parsed from a retained data file -/

theorem scanEnd_subset (bs es : Nat) (res : Bytes) (l : List Item) : ∀ x ∈ (scanEnd bs es res l).1, x ∈ l := by
  induction l with
  | nil => simp [scanEnd]
  | cons it r ih =>
    intro x hx
    unfold scanEnd at hx
    by_cases h1 : it.ts / 1000 < bs ∨ it.ts / 1000 > es
    · rw [if_pos h1] at hx; simp at hx
    · rw [if_neg h1] at hx
      by_cases hm : resMatch res it = true
      · simp only [hm, if_true] at hx
        rcases List.mem_cons.1 hx with rfl | hx
        · simp
        · exact List.mem_cons_of_mem _ (ih x hx)
      · simp only [hm] at hx
        exact List.mem_cons_of_mem _ (ih x hx)

/-- `x` was parsed from a line of one of the data files of `fs` -/
def FromFiles (fs : Dir) (x : Item) : Prop := ∃ f ∈ fs, ∃ off, x ∈ itemsFrom f.data off

theorem readByEnd_fromFiles (fs : Dir) (off b e : Nat) (res : Bytes) :
    ∀ x ∈ readByEnd fs off b e res, FromFiles fs x := by
  cases fs with
  | nil => simp [readByEnd]
  | cons f r =>
    intro x hx
    rw [readByEnd_eq] at hx
    have := scanEnd_subset _ _ _ _ x hx
    rcases List.mem_append.1 this with h | h
    · exact ⟨f, by simp, off, h⟩
    · obtain ⟨g, hg, hxg⟩ := List.mem_flatMap.1 h
      exact ⟨g, List.mem_cons_of_mem _ hg, 0, hxg⟩

theorem searchLoop_fromFiles (doRead : Dir → Nat → List Item) (b o : Nat) (fs : Dir) (c : Cache)
    (hread : ∀ d off, ∀ x ∈ doRead d off, FromFiles d x) :
    ∀ x ∈ (searchLoop doRead b o fs c).2, FromFiles fs x := by
  induction fs generalizing c with
  | nil => simp [searchLoop]
  | cons f r ih =>
    intro x hx
    unfold searchLoop at hx
    rcases hres : findOffsetToStart f c b o with ⟨c', fd⟩
    rw [hres] at hx
    cases fd with
    | «at» off => exact hread _ _ x hx
    | notFound =>
      obtain ⟨g, hg, hh⟩ := ih c' x hx
      exact ⟨g, List.mem_cons_of_mem _ hg, hh⟩
    | error =>
      obtain ⟨g, hg, hh⟩ := ih c' x hx
      exact ⟨g, List.mem_cons_of_mem _ hg, hh⟩

theorem find_fromFiles (fs : Dir) (c : Cache) (b e : Nat) (res : Bytes) :
    ∀ x ∈ (find fs c b e res).2, FromFiles fs x := by
  intro x hx
  unfold find search at hx
  obtain ⟨g, hg, hh⟩ := searchLoop_fromFiles _ b _ _ c (fun d off => readByEnd_fromFiles d off b e res) x hx
  exact ⟨g, List.mem_of_mem_drop hg, hh⟩

/-! ### restarts of the writer (`Writer.reopen`) -/

theorem reopen_files_length (w : Writer) (now ms mf : Nat) (h : 0 < mf) :
    (w.reopen now ms mf).files.length ≤ mf ∧ (w.reopen now ms mf).maxFiles = mf := by
  refine ⟨?_, rfl⟩
  simp only [Writer.reopen, Writer.roll, List.length_append, List.length_drop, List.length_singleton]
  omega

/-- a history of writes and restarts in which every restart configures a non-zero file limit -/
def LimitsPos : List Ev → Prop
  | [] => True
  | .write _ _ :: r => LimitsPos r
  | .reopen _ _ mf :: r => 0 < mf ∧ LimitsPos r

/-- **file-count bound with restarts**: whatever the directory held before a restart and whatever the
    old limit was, after every event the number of files is at most the limit of the writer in force -/
theorem fileCount_runEvents (w : Writer) (evs : List Ev) (h0 : 0 < w.maxFiles) (h : w.files.length ≤ w.maxFiles)
    (hl : LimitsPos evs) :
    (runEvents w evs).files.length ≤ (runEvents w evs).maxFiles ∧ 0 < (runEvents w evs).maxFiles := by
  induction evs generalizing w with
  | nil => exact ⟨h, h0⟩
  | cons ev r ih =>
    cases ev with
    | write ts items =>
      have := fileCount_runWrites w [(ts, items)] h0 h
      simp only [runWrites, List.foldl_cons, List.foldl_nil] at this
      exact ih (w.write ts items) (this.2 ▸ h0) (this.2 ▸ this.1) hl
    | reopen now ms mf =>
      have := reopen_files_length w now ms mf hl.1
      exact ih (w.reopen now ms mf) (this.2 ▸ hl.1) (this.2 ▸ this.1) hl.2

theorem inv_reopen {w : Writer} {L : Nat} (now ms mf : Nat) (h : Inv w L) (hL : L ≤ now / 1000) :
    Inv (w.reopen now ms mf) (now / 1000) := by
  have h' : Inv ({ files := w.files, latestOpSec := 0, maxSize := ms, maxFiles := mf, createdSec := now / 1000 } : Writer) L :=
    ⟨h.ord, h.ok, h.ents, h.sorted, h.bound⟩
  exact inv_mono (inv_setLatest _ (inv_roll now h')) hL

theorem linesValid_reopen (w : Writer) (now ms mf : Nat) (h : LinesValid w) : LinesValid (w.reopen now ms mf) :=
  linesValid_roll ({ files := w.files, latestOpSec := 0, maxSize := ms, maxFiles := mf, createdSec := now / 1000 } : Writer) now h

/-- an accepted history with restarts: `Write` arguments valid, every restart happens at a clock reading
    not before the last second written (the clock does not run backwards across a restart) -/
def EvsOK : Writer → List Ev → Prop
  | _, [] => True
  | w, .write ts items :: r => ts < 2 ^ 64 ∧ (∀ it ∈ items, Valid it) ∧ EvsOK (w.write ts items) r
  | w, .reopen now ms mf :: r => w.latestOpSec ≤ now / 1000 ∧ now / 1000 < 2 ^ 64 ∧ EvsOK (w.reopen now ms mf) r

theorem runEvents_inv (w : Writer) (evs : List Ev) (hok : EvsOK w evs) (hinv : Inv w w.latestOpSec)
    (hl : LinesValid w) (hw : w.latestOpSec < 2 ^ 64) :
    Inv (runEvents w evs) (runEvents w evs).latestOpSec ∧ LinesValid (runEvents w evs) ∧
      (runEvents w evs).latestOpSec < 2 ^ 64 := by
  induction evs generalizing w with
  | nil => exact ⟨hinv, hl, hw⟩
  | cons ev r ih =>
    cases ev with
    | write ts items =>
      obtain ⟨hts, hit, hrest⟩ := hok
      exact ih (w.write ts items) hrest (inv_write w ts items hinv) (linesValid_write w ts items hts hit hl)
        (write_latest_lt w ts items _ hw (by omega))
    | reopen now ms mf =>
      obtain ⟨hge, hlt, hrest⟩ := hok
      exact ih (w.reopen now ms mf) hrest (inv_reopen now ms mf hinv hge) (linesValid_reopen w now ms mf hl) hlt

end Sentinel.MetricLog
