import Sentinel.Lemmas.EntryReset
/-!
# Gauges, contexts and outcomes do not depend on the clock

Two runs of the same ops under ANY two clocks (readings may differ arbitrarily, step backwards, read 0) agree on every
gauge, on every entry's outcome, error, input and finished-or-not.  (Window sums, response times and the recording
slots' rt figures of course depend on the clock.)  No monotonicity, no `0 < t0`.
-/
namespace Sentinel.Entry
open Sentinel.LA

/-- a context without its start time -/
def unstart (c : Ctx) : Ctx := { c with start := 0 }

theorem unstart_eq_iff (c c' : Ctx) :
    unstart c = unstart c' ↔ c.e = c'.e ∧ c.err = c'.err ∧ c.hasNode = c'.hasNode ∧ c.blocked = c'.blocked ∧ c.exited = c'.exited := by
  obtain ⟨e, st, er, hn, bl, ex⟩ := c
  obtain ⟨e', st', er', hn', bl', ex'⟩ := c'
  simp only [unstart, Ctx.mk.injEq]
  tauto

/-- the gauge after a recording is the gauge before plus `d`, whatever the time -/
def Shift (f : Node → Node) (d : Int) : Prop := ∀ n, (f n).conc = n.conc + d

theorem shift_pass (t b : Nat) : Shift (recordPass t b) 1 := fun _ => rfl
theorem shift_block (t b : Nat) : Shift (recordBlock t b) 0 := fun n => by simp [recordBlock, recordN]
theorem shift_complete (t b rt : Nat) (e : Bool) : Shift (recordComplete t b rt e) (-1) := by
  intro n; cases e <;> simp [recordComplete, recordN, sub_eq_add_neg]

structure CEq (s s' : St) : Prop where
  conc : ∀ k, obsConc s k = obsConc s' k
  ents : ∀ id, (findE s.ents id).map unstart = (findE s'.ents id).map unstart

theorem obsConc_onStat (s s' : St) (c c' : Ctx) (f f' : Node → Node) (d : Int) (hf : Shift f d) (hf' : Shift f' d)
    (hn : c.hasNode = c'.hasNode) (he : c.e = c'.e) (h : ∀ k, obsConc s k = obsConc s' k) :
    ∀ k, obsConc (onStat s c f) k = obsConc (onStat s' c' f') k := by
  intro k
  have hin := h none
  simp only [obsConc, nodeOf, Option.map, Option.some.injEq] at hin
  unfold onStat obsConc
  rw [← hn, ← he]
  cases k with
  | none =>
    by_cases h1 : c.hasNode = true <;> by_cases h2 : c.e.inbound = true <;> simp [nodeOf, h1, h2, hf _, hf' _, hin]
  | some r =>
    have hr := h (some r)
    have hres := h (some c.e.res)
    simp only [obsConc, nodeOf] at hr hres
    by_cases h1 : c.hasNode = true <;> by_cases h2 : c.e.inbound = true <;>
      simp only [nodeOf, h1, h2, if_true, if_false, Bool.false_eq_true, findN_modifyN]
    all_goals first
      | exact hr
      | (split_ifs with hh
         · cases a : findN s.nodes c.e.res <;> cases b : findN s'.nodes c.e.res <;> rw [a, b] at hres <;>
             simp_all [hf _, hf' _]
         · exact hr)

theorem obsConc_log (s : St) (l : List RecEv) (k : Key) : obsConc { s with log := l } k = obsConc s k := by
  cases k <;> rfl

theorem stat_conc (s s' : St) (c c' : Ctx) (t t' : Nat) (hc : unstart c = unstart c') (h : ∀ k, obsConc s k = obsConc s' k) :
    (∀ k, obsConc (statPassed s c t) k = obsConc (statPassed s' c' t') k) ∧
    (∀ k, obsConc (statBlocked s c t) k = obsConc (statBlocked s' c' t') k) ∧
    (∀ k, obsConc (statCompleted s c t) k = obsConc (statCompleted s' c' t') k) := by
  obtain ⟨he, her, hn, _, _⟩ := (unstart_eq_iff c c').mp hc
  refine ⟨?_, ?_, ?_⟩ <;> intro k
  · unfold statPassed; rw [obsConc_log, obsConc_log, ← he]
    by_cases hs : c.e.chain.std = true
    · simp only [hs, if_true]
      exact obsConc_onStat s s' c c' _ _ 1 (shift_pass _ _) (he ▸ shift_pass _ _) hn he h k
    · simp only [hs, if_false]; exact h k
  · unfold statBlocked; rw [obsConc_log, obsConc_log, ← he]
    by_cases hs : c.e.chain.std = true
    · simp only [hs, if_true]
      exact obsConc_onStat s s' c c' _ _ 0 (shift_block _ _) (he ▸ shift_block _ _) hn he h k
    · simp only [hs, if_false]; exact h k
  · unfold statCompleted; rw [obsConc_log, obsConc_log, ← he]
    by_cases hs : c.e.chain.std = true
    · simp only [hs, if_true]
      exact obsConc_onStat s s' c c' _ _ (-1) (shift_complete _ _ _ _) (shift_complete _ _ _ _) hn he h k
    · simp only [hs, if_false]; exact h k

theorem obsConc_getOrCreate (s s' : St) (res : String) (t t' : Nat) (h : ∀ k, obsConc s k = obsConc s' k) :
    ∀ k, obsConc ({ s with nodes := getOrCreate s.nodes res t } : St) k =
         obsConc ({ s' with nodes := getOrCreate s'.nodes res t' } : St) k := by
  intro k
  cases k with
  | none => exact h none
  | some r =>
    have hr := h (some r)
    have hres := h (some res)
    simp only [obsConc, nodeOf] at hr hres ⊢
    simp only [findN_getOrCreate]
    split_ifs with hh
    · subst hh
      cases a : findN s.nodes res <;> cases b : findN s'.nodes res <;> rw [a, b] at hres <;> simp_all [newNode]
    · exact hr

theorem chainEntry_conc (fix : Bool) (s s' : St) (c c' : Ctx) (t t' : Nat) (hc : unstart c = unstart c')
    (h : ∀ k, obsConc s k = obsConc s' k) :
    (∀ k, obsConc (chainEntry fix s c t).1 k = obsConc (chainEntry fix s' c' t').1 k) ∧
    unstart (chainEntry fix s c t).2.1 = unstart (chainEntry fix s' c' t').2.1 ∧
    (chainEntry fix s c t).2.2 = (chainEntry fix s' c' t').2.2 := by
  obtain ⟨e, st, er, hn, bl, ex⟩ := c
  obtain ⟨e', st', er', hn', bl', ex'⟩ := c'
  simp only [unstart, Ctx.mk.injEq] at hc
  obtain ⟨rfl, _, rfl, rfl, rfl, rfl⟩ := hc
  rw [chainEntry_eq, chainEntry_eq]
  simp only []
  have a1 : ∀ k, obsConc (if attached e.chain = true then ({ s with nodes := getOrCreate s.nodes e.res t } : St) else s) k =
      obsConc (if attached e.chain = true then ({ s' with nodes := getOrCreate s'.nodes e.res t' } : St) else s') k := by
    intro k; split_ifs
    · exact obsConc_getOrCreate s s' _ t t' h k
    · exact h k
  cases outcome e.chain with
  | pass => exact ⟨(stat_conc _ _ _ _ t t' rfl a1).1, rfl, rfl⟩
  | block => exact ⟨(stat_conc _ _ _ _ t t' rfl a1).2.1, rfl, rfl⟩
  | panic =>
    cases fix with
    | true =>
      simp only [recoverPanic, if_true]
      exact ⟨(stat_conc _ _ _ _ t t' rfl a1).1, rfl, trivial⟩
    | false =>
      simp only [recoverPanic, Bool.false_eq_true, if_false]
      exact ⟨a1, rfl, trivial⟩

theorem obsConc_ents (s : St) (l : List (Nat × Ctx)) (k : Key) : obsConc { s with ents := l } k = obsConc s k := by
  cases k <;> rfl

theorem ceq_findE_none {s s'} (h : CEq s s') (id : Nat) : findE s.ents id = none ↔ findE s'.ents id = none := by
  have := h.ents id
  cases h1 : findE s.ents id <;> cases h2 : findE s'.ents id <;> simp_all

open Sentinel.EntryPool in
theorem ceq_entry {s s'} (h : CEq s s') (fix : Bool) (t t' : Nat) (e : EntryOp) :
    CEq (apiEntry fix s t e) (apiEntry fix s' t' e) := by
  unfold apiEntry
  cases h1 : findE s.ents e.id with
  | some c =>
    cases h2 : findE s'.ents e.id with
    | none => exact absurd ((ceq_findE_none h e.id).mpr h2) (by simp [h1])
    | some c' => exact h
  | none =>
    have h2 : findE s'.ents e.id = none := (ceq_findE_none h e.id).mp h1
    rw [h2]
    simp only []
    obtain ⟨i1, i3, i4⟩ := chainEntry_conc fix s s'
      { e := e, start := t, err := none, hasNode := false, blocked := false, exited := false }
      { e := e, start := t', err := none, hasNode := false, blocked := false, exited := false } t t' rfl h.conc
    have k1 := chainEntry_keeps_ents fix s { e := e, start := t, err := none, hasNode := false, blocked := false, exited := false } t
    have k2 := chainEntry_keeps_ents fix s' { e := e, start := t', err := none, hasNode := false, blocked := false, exited := false } t'
    rw [← i4]
    generalize chainEntry fix s { e := e, start := t, err := none, hasNode := false, blocked := false, exited := false } t = R at i1 i3 k1 ⊢
    generalize chainEntry fix s' { e := e, start := t', err := none, hasNode := false, blocked := false, exited := false } t' = R' at i1 i3 k2 ⊢
    have key : ∀ (b : Bool), CEq { R.1 with ents := (e.id, { R.2.1 with exited := b || R.2.1.exited }) :: R.1.ents }
        { R'.1 with ents := (e.id, { R'.2.1 with exited := b || R'.2.1.exited }) :: R'.1.ents } := by
      intro b
      obtain ⟨q1, q2, q3, q4, q5⟩ := (unstart_eq_iff _ _).mp i3
      refine ⟨?_, ?_⟩
      · intro k; rw [obsConc_ents, obsConc_ents]; exact i1 k
      · intro id
        simp only [findE_cons, k1, k2]
        split_ifs
        · simp only [Option.map, Option.some.injEq]
          rw [unstart_eq_iff]; exact ⟨q1, q2, q3, q4, by simp [q5]⟩
        · exact h.ents id
    have hf := key false
    have ht := key true
    simp only [Bool.false_or, Bool.true_or] at hf ht
    cases R.2.2 with
    | none => exact hf
    | some o => cases o <;> first | exact hf | exact ht

theorem ceq_trace {s s'} (h : CEq s s') (id : Nat) (err : Option String) :
    CEq (apiTrace s id err) (apiTrace s' id err) := by
  unfold apiTrace
  have he := h.ents id
  cases h1 : findE s.ents id with
  | none =>
    have h2 := (ceq_findE_none h id).mp h1
    rw [h2]; exact h
  | some c =>
    cases h2 : findE s'.ents id with
    | none => exact absurd ((ceq_findE_none h id).mpr h2) (by simp [h1])
    | some c' =>
      rw [h1, h2] at he
      have hc : unstart c = unstart c' := by simpa using he
      obtain ⟨q1, q2, q3, q4, q5⟩ := (unstart_eq_iff _ _).mp hc
      simp only []
      by_cases hx : c'.exited = true
      · rw [if_pos (q5 ▸ hx : c.exited = true), if_pos hx]; exact h
      · rw [if_neg (q5 ▸ hx : ¬ c.exited = true), if_neg hx]
        cases err with
        | none => exact h
        | some x =>
          refine ⟨?_, ?_⟩
          · intro k; rw [obsConc_ents, obsConc_ents]; exact h.conc k
          · intro id'
            simp only [findE_cons]
            split_ifs
            · simp only [Option.map, Option.some.injEq]; rw [unstart_eq_iff]; exact ⟨q1, rfl, q3, q4, q5⟩
            · exact h.ents id'

theorem ceq_exit {s s'} (h : CEq s s') (t t' id : Nat) (err : Option String) :
    CEq (apiExit s t id err) (apiExit s' t' id err) := by
  unfold apiExit
  have he := h.ents id
  cases h1 : findE s.ents id with
  | none =>
    have h2 := (ceq_findE_none h id).mp h1
    rw [h2]; exact h
  | some c =>
    cases h2 : findE s'.ents id with
    | none => exact absurd ((ceq_findE_none h id).mpr h2) (by simp [h1])
    | some c' =>
      rw [h1, h2] at he
      have hc : unstart c = unstart c' := by simpa using he
      obtain ⟨q1, q2, q3, q4, q5⟩ := (unstart_eq_iff _ _).mp hc
      simp only []
      by_cases hx : c'.exited = true
      · rw [if_pos (q5 ▸ hx : c.exited = true), if_pos hx]; exact h
      · rw [if_neg (q5 ▸ hx : ¬ c.exited = true), if_neg hx]
        have hc1 : unstart { c with err := orErr err c.err } = unstart { c' with err := orErr err c'.err } := by
          rw [unstart_eq_iff]; exact ⟨q1, by simp [q2], q3, q4, q5⟩
        have hcx : unstart { c with err := orErr err c.err, exited := true } = unstart { c' with err := orErr err c'.err, exited := true } := by
          rw [unstart_eq_iff]; exact ⟨q1, by simp [q2], q3, q4, rfl⟩
        by_cases hb : c'.blocked = true
        · rw [if_pos (q4 ▸ hb : c.blocked = true), if_pos hb]
          refine ⟨?_, ?_⟩
          · intro k; rw [obsConc_ents, obsConc_ents]; exact h.conc k
          · intro id'
            simp only [findE_cons]
            split_ifs
            · simpa using hcx
            · exact h.ents id'
        · rw [if_neg (q4 ▸ hb : ¬ c.blocked = true), if_neg hb]
          have j := (stat_conc s s' _ _ t t' hc1 h.conc).2.2
          refine ⟨?_, ?_⟩
          · intro k; rw [obsConc_ents, obsConc_ents]; exact j k
          · intro id'
            simp only [findE_cons, statCompleted_keeps_ents']
            split_ifs
            · simpa using hcx
            · exact h.ents id'

/-- the same ops under two clocks -/
theorem ceq_run (fix : Bool) (t0 t0' : Nat) (h h' : List TOp) (hops : h.map (·.2) = h'.map (·.2)) :
    CEq (runR fix t0 h) (runR fix t0' h') := by
  induction h generalizing h' with
  | nil =>
    cases h' with
    | nil => exact ⟨fun k => by cases k <;> rfl, fun _ => rfl⟩
    | cons y r => simp at hops
  | cons x r ih =>
    cases h' with
    | nil => simp at hops
    | cons y r' =>
      simp only [List.map_cons, List.cons.injEq] at hops
      have hr := ih r' hops.2
      obtain ⟨t, op⟩ := x
      obtain ⟨t', op'⟩ := y
      have : op = op' := hops.1
      subst this
      simp only [runR, step]
      cases op with
      | entry e => exact ceq_entry hr fix t t' e
      | trace i a => exact ceq_trace hr i a
      | exit i a => exact ceq_exit hr t t' i a

end Sentinel.Entry
