import Mathlib.Tactic
import Sentinel.Lemmas.PipelineShape
import Sentinel.Lemmas.FlowReject
/-!
# The flow component's private copy of the resource nodes

`FlowNodes`: after every integrated history the flow component's node map (`FlowReject.Nodes`, pass counters only, keyed by
resource number) is the pass projection `passNode` of the shared resource nodes of `ent` (keyed by `rname`).

Uses from C02's lemma file only the node-map facts `lookup_touch`, `lookup_ensure_some`, `lookup_ensure_none`.
-/
namespace Sentinel.Pipe
open Sentinel.LA

variable {R : Type}

/-! ## the pass projection commutes with the leap-array step -/

/-- the pass counters of a node array, as the flow model keeps them -/
def passArr (a : Arr Bucket) : Arr Nat :=
  { n := a.n, L := a.L, slots := a.slots.map fun s => { start := s.start, val := s.val.pass } }

def passNode (n : Entry.Node) : Arr Nat := passArr n.arr

theorem bucket_add_pass (a b : Bucket) : (a + b).pass = a.pass + b.pass := rfl

theorem passArr_add (a : Arr Bucket) (t : Nat) (x : Bucket) : passArr (add a t x).1 = (add (passArr a) t x.pass).1 := by
  unfold add
  simp only [passArr, idx, List.getElem?_map]
  cases h : a.slots[t / a.L % a.n]? with
  | none => simp [passArr]
  | some s =>
    simp only [Option.map_some]
    split_ifs <;> simp [passArr, List.map_set, bucket_add_pass, *]

theorem passArr_addAt (a : Arr Bucket) (t : Nat) (x : Bucket) : passArr (addAt a t x).1 = (addAt (passArr a) t x.pass).1 := by
  unfold addAt
  split_ifs
  · rfl
  · exact passArr_add a t x

theorem passArr_mk (n L now : Nat) : passArr (mk n L now : Arr Bucket) = (mk n L now : Arr Nat) := by
  simp only [passArr, mk, List.map_map]
  rfl

/-- several recordings at one instant on a pass-counter array -/
def addAll (a : Arr Nat) (t : Nat) : List Nat → Arr Nat
  | [] => a
  | x :: xs => addAll (addAt a t x).1 t xs

theorem addAll_append (a : Arr Nat) (t : Nat) (xs ys : List Nat) : addAll a t (xs ++ ys) = addAll (addAll a t xs) t ys := by
  induction xs generalizing a with
  | nil => rfl
  | cons x xs ih => simp only [List.cons_append, addAll, ih]

theorem passNode_recordN (n : Entry.Node) (t : Nat) (x : Bucket) :
    passNode (Entry.recordN n t x) = (addAt (passNode n) t x.pass).1 := passArr_addAt n.arr t x

theorem passNode_statFn (b : Bool) (t batch : Nat) (n : Entry.Node) :
    passNode (statFn b t batch n) = addAll (passNode n) t (if b then [0] else [0, batch]) := by
  cases b
  · simp only [statFn, Bool.false_eq_true, if_false, Entry.recordPass, passNode_recordN, addAll]
    rfl
  · simp only [statFn, if_true, Entry.recordBlock, passNode_recordN, addAll]
    rfl

theorem passNode_doneFn (t batch start : Nat) (err : Bool) (n : Entry.Node) :
    passNode (doneFn t batch start err n) = addAll (passNode n) t ((if err then [0] else []) ++ [0, 0]) := by
  cases err
  · simp only [doneFn, Entry.recordComplete, Bool.false_eq_true, if_false, List.nil_append, addAll]
    show passNode (Entry.recordN (Entry.recordN n t _) t _) = _
    rw [passNode_recordN, passNode_recordN]
    rfl
  · simp only [doneFn, Entry.recordComplete, if_true, List.cons_append, List.nil_append, addAll]
    show passNode (Entry.recordN (Entry.recordN (Entry.recordN n t _) t _) t _) = _
    rw [passNode_recordN, passNode_recordN, passNode_recordN]
    rfl

/-! ## the two node maps -/

theorem lookup_touches (ns : FlowReject.Nodes) (r now : Nat) (xs : List Nat) (q : Nat) :
    FlowReject.lookup (FlowReject.touches ns r now xs) q =
      (FlowReject.lookup ns q).map fun a => if q = r then addAll a now xs else a := by
  induction xs generalizing ns with
  | nil => simp [FlowReject.touches, addAll]
  | cons x xs ih =>
    simp only [FlowReject.touches, ih, FlowReject.lookup_touch, Option.map_map]
    congr 1
    funext a
    by_cases h : q = r <;> simp [h, addAll]

/-- the coupling of the two maps -/
def NodesCoupled (ns : FlowReject.Nodes) (nodes : List (String × Entry.Node)) : Prop :=
  ∀ k, FlowReject.lookup ns k = (Entry.findN nodes (rname k)).map passNode

theorem coupled_ensure {ns nodes} (h : NodesCoupled ns nodes) (r now : Nat) :
    NodesCoupled (FlowReject.ensure ns r now) (Entry.getOrCreate nodes (rname r) now) := by
  intro k
  rw [Entry.findN_getOrCreate]
  by_cases hk : r = k
  · subst hk
    simp only [if_true]
    cases hl : FlowReject.lookup ns r with
    | some a =>
      rw [FlowReject.lookup_ensure_some hl]
      have := h r
      rw [hl] at this
      cases hn : Entry.findN nodes (rname r) with
      | none => rw [hn] at this; cases this
      | some n => rw [hn] at this; simpa using this
    | none =>
      rw [FlowReject.lookup_ensure_none hl, if_pos rfl]
      have := h r
      rw [hl] at this
      cases hn : Entry.findN nodes (rname r) with
      | none =>
        simp only [Option.map_some, passNode, Entry.newNode, Entry.sampleCountTotal, Entry.bucketLen, passArr_mk]
        rfl
      | some n => rw [hn] at this; cases this
  · have hk' : ¬ rname r = rname k := fun e => hk (rname_inj.mp e)
    rw [if_neg hk']
    cases hl : FlowReject.lookup ns k with
    | some a => rw [FlowReject.lookup_ensure_some hl, ← h k, hl]
    | none => rw [FlowReject.lookup_ensure_none hl, if_neg hk, ← h k, hl]

theorem coupled_touches {ns nodes} (h : NodesCoupled ns nodes) (r now : Nat) (xs : List Nat) (f : Entry.Node → Entry.Node)
    (hf : ∀ n, passNode (f n) = addAll (passNode n) now xs) :
    NodesCoupled (FlowReject.touches ns r now xs) (Entry.modifyN nodes (rname r) f) := by
  intro k
  rw [lookup_touches, Entry.findN_modifyN, h k]
  by_cases hk : k = r
  · subst hk
    simp only [if_true, Option.map_map]
    congr 1
    funext n
    exact (hf n).symm
  · have hk' : ¬ rname r = rname k := fun e => hk (rname_inj.mp e).symm
    simp only [hk, hk', if_false]
    cases Entry.findN nodes (rname k) <;> rfl

/-! ## the invariant -/

/-- `reqs` = live contexts, and the flow component's node map = pass projection of the shared nodes -/
structure Sync (s : St R) : Prop where
  ctx : CtxSync s
  nodes : NodesCoupled s.flow.nodes s.ent.nodes
  pre : s.started = false → s.flow.nodes = []

theorem flowStat_nodes (f : FlowReject.St) (res now b : Nat) (blocked : Bool) :
    (flowStat f res now b blocked).nodes = FlowReject.touches f.nodes res now (if blocked then [0] else [0, b]) := by
  cases blocked <;> rfl

theorem ghostNodes_frame2 (rs : List FlowReject.Rule) (s : St R) :
    (ghostNodes s rs).now = s.now ∧ (ghostNodes s rs).started = s.started ∧ (ghostNodes s rs).flow = s.flow ∧
    (ghostNodes s rs).sysRules = s.sysRules ∧ (ghostNodes s rs).load = s.load ∧ (ghostNodes s rs).cpu = s.cpu ∧
    (ghostNodes s rs).t0 = s.t0 := by
  induction rs generalizing s with
  | nil => exact ⟨rfl, rfl, rfl, rfl, rfl, rfl, rfl⟩
  | cons r rs ih =>
    simp only [ghostNodes]
    split_ifs
    · obtain ⟨a, b, c, d, e, f, g⟩ := ih _
      exact ⟨a.trans rfl, b.trans rfl, c.trans rfl, d.trans rfl, e.trans rfl, f.trans rfl, g.trans rfl⟩
    · exact ih s

theorem sync_loadFrom (rules : List FlowReject.Rule) (s : St R) (acc : FlowReject.St) (i : Nat) (hc : CtxSync s)
    (hst : s.started = true) (hn : NodesCoupled acc.nodes s.ent.nodes) :
    CtxSync (ghostNodes s rules) ∧
      NodesCoupled (FlowReject.loadFrom acc s.now i rules).nodes (ghostNodes s rules).ent.nodes := by
  induction rules generalizing s acc i with
  | nil => exact ⟨hc, hn⟩
  | cons r rs ih =>
    simp only [ghostNodes, FlowReject.loadFrom]
    by_cases hv : r.valid = true
    · simp only [hv, if_true]
      obtain ⟨c1, e1⟩ := ctxSync_ghost s hc hst (rname r.src)
      have hn1 : NodesCoupled (FlowReject.ensure acc.nodes r.src s.now)
          ({ entStep s (.entry (ghostE (2 * s.ghosts) (rname r.src))) with ghosts := s.ghosts + 1 } : St R).ent.nodes := by
        show NodesCoupled _ (entStep s (.entry (ghostE (2 * s.ghosts) (rname r.src)))).ent.nodes
        rw [e1]
        exact coupled_ensure hn r.src s.now
      cases hm : FlowReject.mkCtrl i r s.now with
      | some c => exact ih _ _ (i + 1) c1 hst hn1
      | none => exact ih _ _ (i + 1) c1 hst hn1
    · simp only [hv, Bool.false_eq_true, if_false]
      exact ih s acc (i + 1) hc hst hn

section step
variable [LT R] [∀ a b : R, Decidable (a < b)]

theorem sync_step (A : System.Arith R) (s : St R) (o : Op R) (h : Sync s) : Sync (step A s o).1 := by
  cases o with
  | clock t =>
    simp only [step]
    split_ifs with h0 h1 h2
    · exact h
    · have hs : s.started = false := by simpa using h1
      have hr := h.ctx.pre hs
      have hf := h.pre hs
      refine ⟨⟨?_, ?_, ?_, ?_, ?_, ?_⟩, ?_, ?_⟩
      · intro q hq; rw [show s.reqs = [] from hr] at hq; cases hq
      · intro id _ c hcx; cases hcx
      · intro id _; rfl
      · intro g _; rfl
      · intro q hq; rw [show s.reqs = [] from hr] at hq; cases hq
      · intro hx; simp at hx
      · intro k
        show FlowReject.lookup s.flow.nodes k = _
        rw [hf]
        rfl
      · intro hx; simp at hx
    · exact h
    · exact ⟨ctxSync_congr h.ctx rfl rfl rfl rfl rfl, h.nodes, h.pre⟩
  | loadSys rs =>
    simp only [step]; split_ifs
    · exact h
    · exact ⟨ctxSync_congr h.ctx rfl rfl rfl rfl rfl, h.nodes, h.pre⟩
  | loadIso rs =>
    simp only [step]; split_ifs
    · exact h
    · exact ⟨ctxSync_congr h.ctx rfl rfl rfl rfl rfl, h.nodes, h.pre⟩
  | loadHot rs =>
    simp only [step]; split_ifs
    · exact h
    · exact ⟨ctxSync_congr h.ctx rfl rfl rfl rfl rfl, h.nodes, h.pre⟩
  | loadCb rs =>
    simp only [step]; split_ifs
    · exact h
    · exact ⟨ctxSync_congr h.ctx rfl rfl rfl rfl rfl, h.nodes, h.pre⟩
  | sysLoad x => exact ⟨ctxSync_congr h.ctx rfl rfl rfl rfl rfl, h.nodes, h.pre⟩
  | sysCpu x => exact ⟨ctxSync_congr h.ctx rfl rfl rfl rfl rfl, h.nodes, h.pre⟩
  | log => exact ⟨ctxSync_congr h.ctx rfl rfl rfl rfl rfl, h.nodes, h.pre⟩
  | loadFlow rs =>
    simp only [step]
    split_ifs with hcnd
    · exact h
    · have hst : s.started = true := by
        cases hh : s.started
        · simp [hh] at hcnd
        · rfl
      obtain ⟨c1, n1⟩ := sync_loadFrom rs s { nodes := s.flow.nodes, ctrls := [] } 0 h.ctx hst h.nodes
      have hg := ghostNodes_frame rs s
      refine ⟨ctxSync_congr c1 rfl rfl rfl rfl rfl, n1, ?_⟩
      intro hx
      have h3 : (ghostNodes s rs).started = s.started := (ghostNodes_frame2 rs s).2.1
      simp only [loadFlow] at hx
      rw [h3, hst] at hx
      cases hx
  | trace id =>
    simp only [step]
    split_ifs with hcnd
    · exact h
    · have hst : s.started = true := by simpa using hcnd
      obtain ⟨_, e2, c1⟩ := ctxSync_trace s id h.ctx hst
      refine ⟨c1, ?_, fun hx => ?_⟩
      · show NodesCoupled s.flow.nodes (trace s id).ent.nodes
        rw [e2]; exact h.nodes
      · have : s.started = false := hx
        rw [hst] at this; cases this
  | exit id err =>
    simp only [step]
    split_ifs with hcnd
    · exact h
    · have hst : s.started = true := by simpa using hcnd
      cases hf : s.reqs.find? (·.id = id) with
      | none =>
        have hno : ∀ q ∈ s.reqs, q.id ≠ id := by
          intro q hq
          have := List.find?_eq_none.mp hf q hq
          simpa using this
        obtain ⟨e1, _, c1⟩ := ctxSync_exit_dead s id err h.ctx hst hno
        refine ⟨c1, ?_, fun hx => ?_⟩
        · have hfl : (exit s id err).flow = s.flow := by simp [exit, hf, entStep]
          rw [hfl, e1]; exact h.nodes
        · have : s.started = false := hx
          rw [hst] at this; cases this
      | some q =>
        have hq : q ∈ s.reqs := List.mem_of_find?_eq_some hf
        have hid : q.id = id := by simpa using List.find?_some hf
        obtain ⟨t0, e0, _, _, e1, c1⟩ := ctxSync_exit_live s id err h.ctx hst q hq hid
        refine ⟨c1, ?_, fun hx => ?_⟩
        · have hfl : (exit s id err).flow.nodes =
              FlowReject.touches s.flow.nodes q.res s.now ((if ctxErr s id err then [0] else []) ++ [0, 0]) := by
            simp [exit, hf, entStep, flowExit]
          rw [hfl, e1]
          exact coupled_touches h.nodes q.res s.now _ _ (passNode_doneFn s.now q.batch t0 (ctxErr s id err))
        · have : s.started = false := hx
          rw [hst] at this; cases this
  | entry q =>
    simp only [step]
    split_ifs with hcnd
    · exact h
    · have hst : s.started = true := by
        cases hh : s.started
        · simp [hh] at hcnd
        · rfl
      have hu : q.id ∉ s.used := by
        intro hm
        apply hcnd
        simp [usedId, hm]
      obtain ⟨c1, e1⟩ := ctxSync_entry A s q h.ctx hst hu
      refine ⟨c1, ?_, fun hx => ?_⟩
      · rw [entry_flow, flowStat_nodes, e1]
        exact coupled_touches (coupled_ensure h.nodes q.res s.now) q.res s.now _ _
          (passNode_statFn (decision A s q).isSome s.now q.batch)
      · rw [(entry_static A s q).2.2.2.2.2.1, hst] at hx
        cases hx

theorem sync_run (A : System.Arith R) (s : St R) (os : List (Op R)) (h : Sync s) : Sync (run A s os).1 := by
  induction os generalizing s with
  | nil => exact h
  | cons o os ih => exact ih _ (sync_step A s o h)

end step

end Sentinel.Pipe
