import Mathlib.Tactic
import Sentinel.Lemmas.Rules
/-!
# C13 — only valid, latest-loaded rules are in force; reported rules equal enforced

All statements are about `Sentinel.Rules` (`Model/Rules.lean`), the definitions the C13 driver executes against
the six `rule_manager.go`.  `M` ranges over the four map-shaped managers (`flowMod tm`, `isoMod`, `hotMod`, `cbMod`,
all `Lawful`); system and outlier have their own shape and their own theorems (`sys_*`, `out_*`).
Histories are arbitrary lists of `LoadRules / LoadRulesOfResource / ClearRules / ClearRulesOfResource` with arbitrary
rule lists (valid, invalid, nil).  `latest` / `latestOut` are the raw lists most recently handed over per resource.

Findings of the pinned tree (faithful model, `_witness` by `decide`, `_partial` for the rest):
`normalised-rule-reload`, `empty-resource-reload` (identical reload reports "changed"), `cb-getter-reports-unbuilt`
(getter ≠ enforced, paths disagree), `outlier-invalid-keeps-old`.
-/
namespace Sentinel.C13
open Sentinel.Rules

section map
variable {R : Type} [DecidableEq R] {M : RuleMod R}

/-- **enforced = the accepted rules of the latest load of that resource, in order** (accepted = passes `IsValidRule`,
    names the resource where the module checks it, and has a registered generator; built rules carry the
    constructor's defaults). -/
theorem enforced_eq_valid_latest (hM : Lawful M) (ops : List (Op R)) (k : String) :
    (run M ops).enf k = (((latest M ops k).filterMap id).filter (built M k)).map M.norm :=
  (inv_run hM ops).enf k

/-- previously loaded rules of the affected scope are gone: after a whole-set load only its rules remain … -/
theorem whole_load_replaces_everything (hM : Lawful M) (ops : List (Op R)) (rules : List (Option R)) (k : String) :
    (run M (ops ++ [.loadAll rules])).enf k = buildList M k (proj M k rules) := by
  rw [enforced_eq_valid_latest hM, latest_snoc]; rfl

/-- … and after a per-resource load only that list's rules remain for the resource -/
theorem resource_load_replaces_resource (hM : Lawful M) (ops : List (Op R)) (res : String) (h : res ≠ "")
    (rules : List (Option R)) :
    (run M (ops ++ [.loadRes res rules])).enf res = buildList M res rules := by
  rw [enforced_eq_valid_latest hM, latest_snoc]
  simp [latestStep, h, upd_same, buildList]

/-- **the getters return exactly the rule objects bound to the controllers in force** (flow, isolation, hotspot) -/
theorem getters_eq_bound (hM : Lawful M) (hp : M.pubValid = false) (ops : List (Op R)) :
    (∀ k, getRes (run M ops) k = (run M ops).bound k) ∧
    getAll (run M ops) = (run M ops).keys.eraseDups.flatMap (run M ops).bound := by
  have h : ∀ k, (run M ops).pub k = (run M ops).bound k := by
    intro k
    rcases (inv_run hM ops).pub k with h | ⟨h, _⟩
    · exact h.2
    · rw [hp] at h; cases h
  refine ⟨h, ?_⟩
  unfold getAll
  congr 1
  exact funext h

/-- … and those objects are the accepted rules of the latest load **up to the fields the module's own equality
    ignores** (`M.sim`: the ID; hotspot also `BurstCount` under Throttling / `MaxQueueingTimeMs` under Reject; flow and
    breaker a `Threshold` closer than `Float64Equals`' 1e-8):
    a controller kept by `calculateReuseIndexFor` stays bound to the old object -/
theorem getters_eq_enforced (hM : Lawful M) (hp : M.pubValid = false) (ops : List (Op R)) (k : String) :
    List.Forall₂ (fun a b => M.sim a b = true) (getRes (run M ops) k) ((run M ops).enf k) := by
  rw [(getters_eq_bound hM hp ops).1 k]; exact (inv_run hM ops).bound k

/-- where nothing is reused (isolation: the rule map holds the rules themselves) the getters are exact -/
theorem getters_eq_enforced_of_no_reuse (hM : Lawful M) (hp : M.pubValid = false) (hne : ∀ a b, M.equals a b = false)
    (ops : List (Op R)) (k : String) : getRes (run M ops) k = (run M ops).enf k := by
  rw [(getters_eq_bound hM hp ops).1 k]; exact (inv_run hM ops).boundEq hne k

def getters_eq_enforced_statement (M : RuleMod R) : Prop :=
  ∀ (ops : List (Op R)) (k : String), getRes (run M ops) k = (run M ops).enf k

/-- modules whose getters read a separate map of valid rules (the circuit breaker's `breakerRules`): the getter equals
    the enforced rules of a resource whenever every valid rule handed over for it got a controller -/
theorem getters_eq_enforced_partial (hM : Lawful M) (hp : M.pubValid = true) (ops : List (Op R)) (k : String)
    (h : ∀ r ∈ validList M (latest M ops k), built M k r = true) :
    getRes (run M ops) k = (run M ops).enf k := by
  rcases (inv_run hM ops).pub k with ⟨hp', _⟩ | ⟨_, hv | ⟨hv, he⟩⟩
  · rw [hp] at hp'; cases hp'
  · show (run M ops).pub k = _
    rw [hv, (inv_run hM ops).enf k]
    unfold validList buildList
    have e : ((latest M ops k).filterMap id).filter M.valid = ((latest M ops k).filterMap id).filter (built M k) := by
      apply List.filter_congr
      intro r hr
      by_cases hv' : M.valid r = true
      · rw [hv', h r (by unfold validList; exact List.mem_filter.mpr ⟨hr, hv'⟩)]
      · simp only [Bool.not_eq_true] at hv'
        simp [built, hv']
    rw [e]
    have : M.norm = id := funext (hM.pub_norm hp)
    rw [this, List.map_id]
  · show (run M ops).pub k = _
    rw [hv, he]

/-- **one controller per enforced rule, pairwise distinct objects**: the controllers in force for a resource are bound,
    in order, to the rule objects the getters/`bound` show, and no controller object occurs twice — a second identical
    rule of the same load gets its own controller (own pacer / breaker / counters), whatever was loaded before -/
theorem controllers_distinct (ops : List (Op R)) (k : String) :
    (((runC M ops).2.ctrl k).map Prod.snd).Nodup ∧
    ((runC M ops).2.ctrl k).map Prod.fst = (run M ops).bound k := by
  have h := cinv_run (M := M) ops
  exact ⟨h.nodup k, by rw [h.fst k, runC_fst]⟩

theorem controllers_count (hM : Lawful M) (ops : List (Op R)) (k : String) :
    ((runC M ops).2.ctrl k).length = ((run M ops).enf k).length := by
  have h1 := congrArg List.length (controllers_distinct (M := M) ops k).2
  have h2 := ((inv_run hM ops).bound k).length_eq
  simp only [List.length_map] at h1
  omega

/-- pinned tree: a circuit-breaker rule with an unregistered strategy passes `IsValidRule`, is returned by both
    getters, and no breaker exists for it; loaded through the per-resource path it is *not* returned -/
theorem cb_getter_reports_unbuilt_witness :
    let r : CbRule := { id := "", res := "c", strategy := 3, retryMs := 1000, minReq := 1, statMs := 1000, buckets := 0, maxRt := 0, th := 0 * thQ, probe := 0 }
    let s := (loadAll cbMod MState.init [some r]).1
    let s' := (loadRes cbMod MState.init "c" [some r]).1
    getRes s "c" = [r] ∧ s.enf "c" = [] ∧ getRes s' "c" = [] := by decide

/-- **rules failing the validity check are never in force**: every enforced rule is valid and stems from a valid
    element of the latest list of its resource -/
theorem invalid_never_enforced (hM : Lawful M) (ops : List (Op R)) (k : String) (r : R) (h : r ∈ (run M ops).enf k) :
    M.valid r = true ∧ ∃ r0, some r0 ∈ latest M ops k ∧ M.valid r0 = true ∧ r = M.norm r0 := by
  rw [(inv_run hM ops).enf k, mem_buildList] at h
  obtain ⟨r0, hm, hb, rfl⟩ := h
  have hv : M.valid r0 = true := by
    simp only [built, Bool.and_eq_true] at hb; exact hb.1.1
  exact ⟨hM.valid_norm r0 hv, r0, hm, hv, rfl⟩

/-- **locality**: a per-resource load or clear leaves every other resource's controllers, published rules and raw
    cache untouched (no invariant needed: true in every state) -/
theorem locality (s : MState R) (res : String) (rules : List (Option R)) (k : String) (hk : k ≠ res) :
    (loadRes M s res rules).1.enf k = s.enf k ∧ (loadRes M s res rules).1.pub k = s.pub k ∧
    (loadRes M s res rules).1.cache k = s.cache k ∧ (loadRes M s res rules).1.bound k = s.bound k := by
  by_cases h0 : res = ""
  · subst h0; rw [loadRes_noRes]; exact ⟨rfl, rfl, rfl, rfl⟩
  by_cases h1 : rules = []
  · subst h1; rw [loadRes_clear h0]; exact ⟨upd_other _ _ hk, upd_other _ _ hk, upd_other _ _ hk, upd_other _ _ hk⟩
  by_cases hc : s.cache res = rules
  · rw [loadRes_unchanged h0 h1 hc]; exact ⟨rfl, rfl, rfl, rfl⟩
  · rw [loadRes_changed h0 h1 hc]; exact ⟨upd_other _ _ hk, upd_other _ _ hk, upd_other _ _ hk, upd_other _ _ hk⟩

theorem locality_step (s : MState R) (res : String) (k : String) (hk : k ≠ res) :
    (∀ rules, (step M s (.loadRes res rules)).1.enf k = s.enf k) ∧ (step M s (.clearRes res)).1.enf k = s.enf k :=
  ⟨fun rules => (locality s res rules k hk).1, (locality s res [] k hk).1⟩

/-- **both load paths agree**: loading the `res`-projection of a rule set through `LoadRulesOfResource` puts the
    same rules in force for `res` as loading the whole set through `LoadRules`, after any history -/
theorem both_paths_agree (hM : Lawful M) (ops : List (Op R)) (rules : List (Option R)) (res : String) (h : res ≠ "") :
    (run M (ops ++ [.loadRes res (proj M res rules)])).enf res = (run M (ops ++ [.loadAll rules])).enf res := by
  rw [resource_load_replaces_resource hM ops res h, whole_load_replaces_everything hM]

/-- … and, where the getters read the controllers, what they report after either path is `sim`-related to that same list -/
theorem both_paths_agree_getters (hM : Lawful M) (hp : M.pubValid = false) (ops : List (Op R)) (rules : List (Option R))
    (res : String) (h : res ≠ "") :
    List.Forall₂ (fun a b => M.sim a b = true) (getRes (run M (ops ++ [.loadRes res (proj M res rules)])) res)
      (buildList M res (proj M res rules)) ∧
    List.Forall₂ (fun a b => M.sim a b = true) (getRes (run M (ops ++ [.loadAll rules])) res)
      (buildList M res (proj M res rules)) := by
  have h1 := getters_eq_enforced hM hp (ops ++ [.loadRes res (proj M res rules)]) res
  have h2 := getters_eq_enforced hM hp (ops ++ [.loadAll rules]) res
  rw [resource_load_replaces_resource hM ops res h] at h1
  rw [whole_load_replaces_everything hM] at h2
  exact ⟨h1, h2⟩

/-- **loading never panics** (every element may be nil; after 9992752 the grouping loops skip nil) -/
theorem never_panics (s : MState R) (op : Op R) : (step M s op).2 ≠ .panic := by
  have hA : ∀ rules, (loadAll M s rules).2 ≠ .panic := by
    intro rules
    by_cases h : (s.keys ++ ruleKeys M rules).all (fun k => s.cache k == proj M k rules) = true
    · rw [loadAll_unchanged h]; simp
    · rw [loadAll_changed h]; simp
  have hR : ∀ res rules, (loadRes M s res rules).2 ≠ .panic := by
    intro res rules
    by_cases h0 : res = ""
    · subst h0; rw [loadRes_noRes]; simp
    by_cases h1 : rules = []
    · subst h1; rw [loadRes_clear h0]; simp
    by_cases hc : s.cache res = rules
    · rw [loadRes_unchanged h0 h1 hc]; simp
    · rw [loadRes_changed h0 h1 hc]; simp
  cases op with
  | loadAll rules => exact hA rules
  | loadRes res rules => exact hR res rules
  | clearAll => exact hA []
  | clearRes res => exact hR res []

/-! ### a generator that panics or errors during a load -/

theorem loadRes_outcome (M : RuleMod R) (s : MState R) (res : String) (rules : List (Option R)) :
    (loadRes M s res rules).2 =
      if res = "" then .err else if rules = [] then .changed else if s.cache res = rules then .unchanged else .changed := by
  by_cases h0 : res = ""
  · subst h0; rw [loadRes_noRes]; simp
  by_cases h1 : rules = []
  · subst h1; rw [loadRes_clear h0]; simp [h0]
  by_cases hc : s.cache res = rules
  · rw [loadRes_unchanged h0 h1 hc]; simp [h0, h1, hc]
  · rw [loadRes_changed h0 h1 hc]; simp [h0, h1, hc]

theorem loadAll_outcome (M : RuleMod R) (s : MState R) (rules : List (Option R)) :
    (loadAll M s rules).2 = .unchanged ∨ (loadAll M s rules).2 = .changed := by
  by_cases h : (s.keys ++ ruleKeys M rules).all (fun k => s.cache k == proj M k rules) = true
  · rw [loadAll_unchanged h]; exact Or.inl rfl
  · rw [loadAll_changed h]; exact Or.inr rfl

/-- **a load whose build panics installs nothing**: when a per-resource or whole-set load reports `(true, err)` because the
    generator panicked, controllers, published rules and the raw cache are exactly as before -/
theorem gen_panic_installs_nothing (custom : R → Bool) (s : MState R) (res : String) (rules : List (Option R)) :
    ((loadResG M custom .panic s res rules).2 = .changedErr → (loadResG M custom .panic s res rules).1 = s) ∧
    ((loadAllG M custom .panic s rules).2 = .changedErr → (loadAllG M custom .panic s rules).1 = s) := by
  constructor
  · intro h
    unfold loadResG at h ⊢
    split_ifs at h ⊢ with hc
    · rfl
    · rw [loadRes_outcome] at h; split_ifs at h
  · intro h
    unfold loadAllG at h ⊢
    split_ifs at h ⊢ with hc
    · rfl
    · rcases loadAll_outcome (withGen M custom .panic) s rules with h' | h' <;> rw [h'] at h <;> cases h

/-- **… and the identical retry takes effect** once the generator stopped failing: it is not short-circuited (reports
    "changed") and is executed as the plain load of the same list in the state before the failed attempt -/
theorem retry_after_panic_takes_effect (custom : R → Bool) (s : MState R) (res : String) (rules : List (Option R))
    (h : (loadResG M custom .panic s res rules).2 = .changedErr) :
    loadResG M custom .ok (loadResG M custom .panic s res rules).1 res rules = loadRes (withGen M custom .ok) s res rules ∧
    (loadResG M custom .ok (loadResG M custom .panic s res rules).1 res rules).2 = .changed := by
  have hs := (gen_panic_installs_nothing (M := M) custom s res rules).1 h
  rw [hs]
  have e : loadResG M custom .ok s res rules = loadRes (withGen M custom .ok) s res rules := by
    unfold loadResG; simp
  refine ⟨e, ?_⟩
  rw [e, loadRes_outcome]
  unfold loadResG at h
  split_ifs at h with hc
  · have := hc.2.1
    rw [loadRes_outcome] at this
    exact this
  · rw [loadRes_outcome] at h; split_ifs at h

/-! ### histories in which the generator table changes

`GOp.mode g` is the op that changes the table (what the custom generator does from now on); loads are executed by
`loadAllG` / `loadResG` — the functions the driver runs — under the mode in force.  `runE` also records the loads whose
build did not panic (`executed`): a panicking load returns `(true, err)` to its caller, so this list is observable. -/

inductive GOp (R : Type)
  | load (o : Op R)
  | mode (g : GenMode)

def opG (M : RuleMod R) (custom : R → Bool) (g : GenMode) (s : MState R) : Op R → MState R × Outcome
  | .loadAll rules => loadAllG M custom g s rules
  | .loadRes res rules => loadResG M custom g s res rules
  | .clearAll => loadAllG M custom g s []
  | .clearRes res => loadResG M custom g s res []

structure GState (R : Type) where
  st : MState R
  mode : GenMode
  executed : List (Op R)

def stepE (M : RuleMod R) (custom : R → Bool) (x : GState R) : GOp R → GState R
  | .mode g => { x with mode := g }
  | .load o =>
    if (opG M custom x.mode x.st o).2 = .changedErr then { x with st := (opG M custom x.mode x.st o).1 }
    else { x with st := (opG M custom x.mode x.st o).1, executed := x.executed ++ [o] }

def runE (M : RuleMod R) (custom : R → Bool) (ops : List (GOp R)) : GState R :=
  ops.foldl (stepE M custom) ⟨MState.init, .ok, []⟩

def rulesOf : Op R → List (Option R)
  | .loadAll rules => rules
  | .loadRes _ rules => rules
  | _ => []

/-- outside `generator-error-swallowed`: no load issued while the custom generator returns errors hands over a valid
    rule of the custom kind (the mode in force at each load is determined by the history itself) -/
def NoFailedBuild (M : RuleMod R) (custom : R → Bool) : GenMode → List (GOp R) → Prop
  | _, [] => True
  | _, .mode g :: ops => NoFailedBuild M custom g ops
  | g, .load o :: ops =>
    (g = .fail → ∀ r, some r ∈ rulesOf o → M.valid r = true → custom r = false) ∧ NoFailedBuild M custom g ops

theorem opG_err_state (custom : R → Bool) (g : GenMode) (s : MState R) (o : Op R)
    (h : (opG M custom g s o).2 = .changedErr) : (opG M custom g s o).1 = s := by
  have hA : ∀ rules, (loadAllG M custom g s rules).2 = .changedErr → (loadAllG M custom g s rules).1 = s := by
    intro rules h
    unfold loadAllG at h ⊢
    split_ifs at h ⊢ with hc
    · rfl
    · rcases loadAll_outcome (withGen M custom g) s rules with h' | h' <;> rw [h'] at h <;> cases h
  have hR : ∀ res rules, (loadResG M custom g s res rules).2 = .changedErr → (loadResG M custom g s res rules).1 = s := by
    intro res rules h
    unfold loadResG at h ⊢
    split_ifs at h ⊢ with hc
    · rfl
    · rw [loadRes_outcome] at h; split_ifs at h
  cases o with
  | loadAll rules => exact hA rules h
  | loadRes res rules => exact hR res rules h
  | clearAll => exact hA [] h
  | clearRes res => exact hR res [] h

/-- a load that did not panic, issued outside the finding's region, is the plain load of the fixed-table model -/
theorem opG_eq_step (custom : R → Bool) (g : GenMode) (s : MState R) (o : Op R)
    (hne : (opG M custom g s o).2 ≠ .changedErr)
    (hs : g = .fail → ∀ r, some r ∈ rulesOf o → M.valid r = true → custom r = false) :
    (opG M custom g s o).1 = (step M s o).1 := by
  have hA : ∀ rules, (loadAllG M custom g s rules).2 ≠ .changedErr →
      (g = .fail → ∀ r, some r ∈ rules → M.valid r = true → custom r = false) →
      (loadAllG M custom g s rules).1 = (loadAll M s rules).1 := by
    intro rules hne hs
    unfold loadAllG at hne ⊢
    split_ifs at hne ⊢ with hc
    · exact absurd rfl hne
    · by_cases hg : g = .fail
      · rw [loadAll_withGen custom g s rules (hs hg)]
      · rw [withGen_eq custom hg]
  have hR : ∀ res rules, (loadResG M custom g s res rules).2 ≠ .changedErr →
      (g = .fail → ∀ r, some r ∈ rules → M.valid r = true → custom r = false) →
      (loadResG M custom g s res rules).1 = (loadRes M s res rules).1 := by
    intro res rules hne hs
    unfold loadResG at hne ⊢
    split_ifs at hne ⊢ with hc
    · exact absurd rfl hne
    · by_cases hg : g = .fail
      · rw [loadRes_withGen custom g s res rules (hs hg)]
      · rw [withGen_eq custom hg]
  cases o with
  | loadAll rules => exact hA rules hne hs
  | loadRes res rules => exact hR res rules hne hs
  | clearAll => exact hA [] hne (fun _ r hr => by simp at hr)
  | clearRes res => exact hR res [] hne (fun _ r hr => by simp at hr)

/-- **reduction**: for every interleaving of loads and generator-mode changes outside `generator-error-swallowed`, the
    manager state is the state of the fixed-table model after exactly the loads whose build did not panic -/
theorem runE_eq_run_executed (custom : R → Bool) (ops : List (GOp R)) (h : NoFailedBuild M custom .ok ops) :
    (runE M custom ops).st = run M (runE M custom ops).executed := by
  have gen : ∀ (ops : List (GOp R)) (x : GState R), NoFailedBuild M custom x.mode ops → x.st = run M x.executed →
      (ops.foldl (stepE M custom) x).st = run M (ops.foldl (stepE M custom) x).executed := by
    intro ops
    induction ops with
    | nil => intro x _ hx; exact hx
    | cons op ops ih =>
      intro x hn hx
      rw [List.foldl_cons]
      cases op with
      | mode g => exact ih _ hn hx
      | load o =>
        obtain ⟨h1, h2⟩ := hn
        by_cases he : (opG M custom x.mode x.st o).2 = .changedErr
        · have e : stepE M custom x (.load o) = { x with st := (opG M custom x.mode x.st o).1 } := by simp [stepE, he]
          rw [e]
          refine ih { x with st := (opG M custom x.mode x.st o).1 } h2 ?_
          show (opG M custom x.mode x.st o).1 = run M x.executed
          rw [opG_err_state custom _ _ _ he]; exact hx
        · have e : stepE M custom x (.load o) =
              { x with st := (opG M custom x.mode x.st o).1, executed := x.executed ++ [o] } := by simp [stepE, he]
          rw [e]
          refine ih { x with st := (opG M custom x.mode x.st o).1, executed := x.executed ++ [o] } h2 ?_
          show (opG M custom x.mode x.st o).1 = run M (x.executed ++ [o])
          rw [opG_eq_step custom _ _ _ he h1, run_snoc, hx]
  exact gen ops _ h rfl

/-- **enforced = valid rules of the latest load whose build did not panic** — history level, arbitrary interleavings of
    loads and generator-mode changes, outside `generator-error-swallowed` -/
theorem enforced_eq_valid_latest_modes (hM : Lawful M) (custom : R → Bool) (ops : List (GOp R))
    (h : NoFailedBuild M custom .ok ops) (k : String) :
    (runE M custom ops).st.enf k =
      (((latest M (runE M custom ops).executed k).filterMap id).filter (built M k)).map M.norm := by
  rw [runE_eq_run_executed custom ops h]; exact enforced_eq_valid_latest hM _ k

/-- … and the getters report those rules (up to `sim`), every enforced rule is valid -/
theorem getters_eq_enforced_modes (hM : Lawful M) (hp : M.pubValid = false) (custom : R → Bool) (ops : List (GOp R))
    (h : NoFailedBuild M custom .ok ops) (k : String) :
    List.Forall₂ (fun a b => M.sim a b = true) (getRes (runE M custom ops).st k) ((runE M custom ops).st.enf k) := by
  rw [runE_eq_run_executed custom ops h]; exact getters_eq_enforced hM hp _ k

theorem invalid_never_enforced_modes (hM : Lawful M) (custom : R → Bool) (ops : List (GOp R))
    (h : NoFailedBuild M custom .ok ops) (k : String) (r : R) (hr : r ∈ (runE M custom ops).st.enf k) : M.valid r = true := by
  rw [runE_eq_run_executed custom ops h] at hr; exact (invalid_never_enforced hM _ k r hr).1

/-- the side condition is satisfiable with panics and errors in the history: panicking builds are unrestricted -/
example : NoFailedBuild isoMod (fun _ => true) .ok
    [.mode .panic, .load (.loadAll [some { id := "", res := "i", metric := 0, th := 1 }]), .mode .fail, .load (.clearRes "i"), .mode .ok] := by
  simp [NoFailedBuild, rulesOf]

/-! #### inside `generator-error-swallowed`: what exactly the as-is model does -/

theorem buildReuse_fail (custom : R → Bool) (k : String) (rules : List R) :
    ∀ old, (∀ r ∈ rules, custom r = true → ∀ o ∈ old, M.equals o r = false) →
      buildReuse (withGen M custom .fail) k rules old = buildReuse M k (rules.filter fun r => !custom r) old := by
  induction rules with
  | nil => intro old _; rfl
  | cons r rs ih =>
    intro old h
    have hrs : ∀ old' : List R, (∀ x ∈ old', x ∈ old) → ∀ r' ∈ rs, custom r' = true → ∀ o ∈ old', M.equals o r' = false :=
      fun old' hsub r' hr' hc o ho => h r' (List.mem_cons_of_mem _ hr') hc o (hsub o ho)
    have hnone : custom r = true → findEq M r old = none := by
      intro hc
      cases hf : findEq M r old with
      | none => rfl
      | some p =>
        obtain ⟨o, rest⟩ := p
        obtain ⟨hm, he, _⟩ := findEq_some hf
        rw [h r List.mem_cons_self hc o hm] at he; cases he
    by_cases hc : custom r = true
    · have hf := hnone hc
      rw [List.filter_cons_of_neg (by simp [hc])]
      conv_lhs => unfold buildReuse
      rw [findEq_withGen, hf]
      have hb : (withGen M custom .fail).buildable r = false := by simp [withGen, hc]
      by_cases hs : (M.scopedRes && M.res r != k) = true
      · have hs' : ((withGen M custom .fail).scopedRes && (withGen M custom .fail).res r != k) = true := hs
        rw [if_pos hs']; exact ih old (hrs old fun _ hx => hx)
      · have hs' : ¬ ((withGen M custom .fail).scopedRes && (withGen M custom .fail).res r != k) = true := hs
        rw [if_neg hs']; simp only [hb]
        exact ih old (hrs old fun _ hx => hx)
    · simp only [Bool.not_eq_true] at hc
      rw [List.filter_cons_of_pos (by simp [hc])]
      unfold buildReuse
      rw [findEq_withGen, dropStat_withGen]
      have hb : (withGen M custom .fail).buildable r = M.buildable r := by simp [withGen, hc]
      by_cases hs : (M.scopedRes && M.res r != k) = true
      · have hs' : ((withGen M custom .fail).scopedRes && (withGen M custom .fail).res r != k) = true := hs
        rw [if_pos hs', if_pos hs]; exact ih old (hrs old fun _ hx => hx)
      · have hs' : ¬ ((withGen M custom .fail).scopedRes && (withGen M custom .fail).res r != k) = true := hs
        rw [if_neg hs', if_neg hs]
        cases hf : findEq M r old with
        | some p =>
          obtain ⟨o, rest⟩ := p
          dsimp only
          rw [ih rest (hrs rest (findEq_some hf).2.2)]
        | none =>
          dsimp only
          simp only [hb]
          by_cases hbr : M.buildable r = true
          · simp only [hbr, if_true]
            rw [ih _ (hrs _ (dropStat_subset r old))]
            rfl
          · simp only [hbr, if_false, Bool.false_eq_true]
            rw [ih old (hrs old fun _ hx => hx)]

/-- **inside the finding**: a per-resource load executed while the custom generator returns errors installs the
    controllers of the list *without its custom rules* (here: none of them equal to a controller already in force, so the
    generator is really asked), yet caches the *whole* list … -/
theorem fail_load_installs_rest (custom : R → Bool) (s : MState R) (res : String) (rules : List (Option R))
    (h0 : res ≠ "") (h1 : rules ≠ []) (hc : s.cache res ≠ rules)
    (hq : ∀ r ∈ validList M rules, custom r = true → ∀ o ∈ s.bound res, M.equals o r = false) :
    (loadResG M custom .fail s res rules).2 = .changed ∧
    (loadResG M custom .fail s res rules).1.bound res =
      buildReuse M res ((validList M rules).filter fun r => !custom r) (s.bound res) ∧
    (loadResG M custom .fail s res rules).1.cache res = rules.map (normIn (withGen M custom .fail) res) := by
  have e : loadResG M custom .fail s res rules = loadRes (withGen M custom .fail) s res rules := by
    unfold loadResG; simp
  rw [e, loadRes_changed h0 h1 hc]
  refine ⟨rfl, ?_, ?_⟩
  · show upd s.bound res _ res = _
    rw [upd_same, validList_withGen, buildReuse_fail custom res _ _ hq]
  · show upd s.cache res _ res = _
    rw [upd_same]

/-- … so that the identical retry, after the generator recovered, is short-circuited: it reports "unchanged" and the
    dropped rules stay out of force (for lists no constructor normalised, as in `identical_reload_unchanged_res_partial`) -/
theorem retry_after_fail_short_circuited (custom : R → Bool) (s : MState R) (res : String) (rules : List (Option R))
    (h0 : res ≠ "") (h1 : rules ≠ []) (hn : rules.map (normIn (withGen M custom .fail) res) = rules) :
    (loadResG M custom .ok (loadResG M custom .fail s res rules).1 res rules).2 = .unchanged ∧
    (loadResG M custom .ok (loadResG M custom .fail s res rules).1 res rules).1 = (loadResG M custom .fail s res rules).1 := by
  have e : ∀ t, loadResG M custom .fail t res rules = loadRes (withGen M custom .fail) t res rules := by
    intro t; unfold loadResG; simp
  have e' : ∀ t, loadResG M custom .ok t res rules = loadRes (withGen M custom .ok) t res rules := by
    intro t; unfold loadResG; simp
  have hcache : (loadResG M custom .fail s res rules).1.cache res = rules := by
    rw [e]
    by_cases hc : s.cache res = rules
    · rw [loadRes_unchanged h0 h1 hc]; exact hc
    · rw [loadRes_changed h0 h1 hc]; show upd s.cache res _ res = _; rw [upd_same, hn]
  rw [e', loadRes_unchanged h0 h1 hcache]
  exact ⟨rfl, rfl⟩

/-- the property's last clause, at full strength (false on the pinned tree: see the two witnesses below) -/
def identical_reload_unchanged_statement (M : RuleMod R) : Prop :=
  (∀ (ops : List (Op R)) (rules : List (Option R)),
      (loadAll M (run M (ops ++ [.loadAll rules])) rules).2 = .unchanged) ∧
  (∀ (ops : List (Op R)) (res : String) (rules : List (Option R)), res ≠ "" →
      (loadRes M (run M (ops ++ [.loadRes res rules])) res rules).2 = .unchanged)

/-- **an identical reload reports "unchanged"**, whole-set path: whenever no constructor wrote a default into one of
    the rules (outside `normalised-rule-reload`) -/
theorem identical_reload_unchanged_partial (hM : Lawful M) (ops : List (Op R)) (rules : List (Option R))
    (h : ∀ k, (proj M k rules).map (normIn M k) = proj M k rules) :
    (loadAll M (run M (ops ++ [.loadAll rules])) rules).2 = .unchanged := by
  have hI := inv_run hM (ops ++ [.loadAll rules])
  have hc : ∀ k, (run M (ops ++ [.loadAll rules])).cache k = proj M k rules := by
    intro k; rw [hI.cache k, latest_snoc]; exact h k
  rw [loadAll_unchanged]
  rw [List.all_eq_true]
  intro k _
  simp [hc k]

/-- per-resource path: for a non-empty list (outside `empty-resource-reload`) that no constructor normalised -/
theorem identical_reload_unchanged_res_partial (hM : Lawful M) (ops : List (Op R)) (res : String) (h0 : res ≠ "")
    (rules : List (Option R)) (h1 : rules ≠ []) (h : rules.map (normIn M res) = rules) :
    (loadRes M (run M (ops ++ [.loadRes res rules])) res rules).2 = .unchanged := by
  have hI := inv_run hM (ops ++ [.loadRes res rules])
  have hc : (run M (ops ++ [.loadRes res rules])).cache res = rules := by
    rw [hI.cache res, latest_snoc]; simp [latestStep, h0, upd_same, h]
  rw [loadRes_unchanged h0 h1 hc]

/-- modules whose constructors write nothing back (isolation, circuit breaker): the whole-set clause holds outright -/
theorem identical_reload_unchanged_of_norm_id (hM : Lawful M) (hn : ∀ r, M.norm r = r) (ops : List (Op R))
    (rules : List (Option R)) : (loadAll M (run M (ops ++ [.loadAll rules])) rules).2 = .unchanged := by
  apply identical_reload_unchanged_partial hM
  intro k
  have : ∀ o : Option R, normIn M k o = o := by intro o; cases o <;> simp [normIn, hn]
  rw [show normIn M k = id from funext this, List.map_id]

end map

/-- pinned tree: identical reload of a warm-up rule without cold factor / a hotspot rule without specific items
    reports "changed" (the constructor normalised the cached object) -/
theorem normalised_reload_witness :
    let w : FlowRule := { id := "", res := "f", tcs := 1, cb := 0, th := 20 * thQ, rel := 0, ref := "", maxQ := 0, wuPeriod := 10, wuCf := 0,
                          statMs := 0, lowMem := 0, highMem := 0, memLow := 0, memHigh := 0 }
    let h : HotRule := { id := "", res := "h", metric := 1, cb := 0, pidx := 0, pkey := "", th := 3, maxQ := 0, burst := 0, dur := 1, cap := 0, items := 0 }
    (loadAll (flowMod 0) (loadAll (flowMod 0) MState.init [some w]).1 [some w]).2 = .changed ∧
    (loadAll hotMod (loadAll hotMod MState.init [some h]).1 [some h]).2 = .changed ∧
    (loadRes (flowMod 0) (loadRes (flowMod 0) MState.init "f" [some w]).1 "f" [some w]).2 = .changed := by decide

/-- pinned tree (`generator-error-swallowed`): when a registered generator returns an *error* for a valid rule, the load reports
    plain success, caches the list and drops the rule; the identical retry after the generator recovered is short-circuited
    ("unchanged") and the rule never comes into force -/
theorem generator_error_swallowed_witness :
    let x : FlowRule := { id := "", res := "f", tcs := 7, cb := 9, th := 2 * thQ, rel := 0, ref := "", maxQ := 0, wuPeriod := 0, wuCf := 0,
                          statMs := 0, lowMem := 0, highMem := 0, memLow := 0, memHigh := 0 }
    let s1 := loadResG (flowMod 0) flowCustom .fail MState.init "f" [some x]
    let s2 := loadResG (flowMod 0) flowCustom .ok s1.1 "f" [some x]
    s1.2 = .changed ∧ s1.1.enf "f" = [] ∧ s2.2 = .unchanged ∧ s2.1.enf "f" = [] ∧
    (loadResG (flowMod 0) flowCustom .ok MState.init "f" [some x]).1.enf "f" = [x] := by decide

/-- pinned tree: the empty per-resource load always reports "changed" -/
theorem empty_resource_reload_witness :
    (loadRes isoMod (loadRes isoMod MState.init "i" []).1 "i" []).2 = .changed ∧
    (loadResOut (loadResOut OState.init "o" none).1 "o" none).2 = .changed := by decide

theorem identical_reload_statement_fails : ¬ identical_reload_unchanged_statement (flowMod 0) := by
  intro h
  have := h.1 [] [some { id := "", res := "f", tcs := 1, cb := 0, th := 20 * thQ, rel := 0, ref := "", maxQ := 0, wuPeriod := 10, wuCf := 0,
                         statMs := 0, lowMem := 0, highMem := 0, memLow := 0, memHigh := 0 }]
  revert this
  decide

/-! ### the four instances are lawful, so everything above applies to them -/

theorem flow_laws (tm : Int) : Lawful (flowMod tm) := flow_lawful tm
theorem iso_laws : Lawful isoMod := iso_lawful
theorem hot_laws : Lawful hotMod := hot_lawful
theorem cb_laws : Lawful cbMod := cb_lawful

/-- isolation and circuit breaker: an identical whole-set reload always reports "unchanged" -/
theorem iso_identical_reload_unchanged (ops : List (Op IsoRule)) (rules : List (Option IsoRule)) :
    (loadAll isoMod (run isoMod (ops ++ [.loadAll rules])) rules).2 = .unchanged :=
  identical_reload_unchanged_of_norm_id iso_lawful (fun _ => rfl) ops rules
theorem cb_identical_reload_unchanged (ops : List (Op CbRule)) (rules : List (Option CbRule)) :
    (loadAll cbMod (run cbMod (ops ++ [.loadAll rules])) rules).2 = .unchanged :=
  identical_reload_unchanged_of_norm_id cb_lawful (fun _ => rfl) ops rules

/-- isolation getters are exact; flow / hotspot getters up to what `isEqualsTo` / `Equals` ignore -/
theorem iso_getters (ops : List (Op IsoRule)) (k : String) :
    getRes (run isoMod ops) k = (run isoMod ops).enf k :=
  getters_eq_enforced_of_no_reuse iso_lawful rfl (fun _ _ => rfl) ops k
theorem flow_getters (tm : Int) (ops : List (Op FlowRule)) (k : String) :
    List.Forall₂ (fun a b => flowSim a b = true) (getRes (run (flowMod tm) ops) k) ((run (flowMod tm) ops).enf k) :=
  getters_eq_enforced (flow_lawful tm) rfl ops k
theorem hot_getters (ops : List (Op HotRule)) (k : String) :
    List.Forall₂ (fun a b => hotCanon a = hotCanon b) (getRes (run hotMod ops) k) ((run hotMod ops).enf k) :=
  (getters_eq_enforced hot_lawful rfl ops k).imp (fun h => by simpa [hotMod] using h)

/-- pinned tree (`stale-equal-rule`): reloading a rule that differs only in what the module's equality ignores keeps
    the old controller, and the getter keeps returning the OLD object — old ID (flow, hotspot), old
    `MaxQueueingTimeMs` of a Reject rule (hotspot) -/
theorem stale_equal_rule_witness :
    let f : FlowRule := { id := "a", res := "f", tcs := 0, cb := 0, th := 2 * thQ, rel := 0, ref := "", maxQ := 0, wuPeriod := 0, wuCf := 0,
                          statMs := 0, lowMem := 0, highMem := 0, memLow := 0, memHigh := 0 }
    let h : HotRule := { id := "", res := "h", metric := 1, cb := 0, pidx := 0, pkey := "", th := 3, maxQ := 0, burst := 0, dur := 1, cap := 0, items := 1 }
    getRes (run (flowMod 0) [.loadAll [some f], .loadAll [some { f with id := "b" }]]) "f" = [f] ∧
    (run (flowMod 0) [.loadAll [some f], .loadAll [some { f with id := "b" }]]).enf "f" = [{ f with id := "b" }] ∧
    getRes (run hotMod [.loadRes "h" [some h], .loadRes "h" [some { h with maxQ := 7 }]]) "h" = [h] := by decide

/-- pinned tree (`stale-equal-rule`, threshold variant): `isEqualsTo` compares `Threshold` with `Float64Equals` (1e-8).  A reload that
    moves a threshold by less keeps the old controller: flow keeps reporting (and enforcing) the old value; an error-count
    breaker built for `2 - 2^-40` (uint64 → 1) stays in force when `2` is loaded, and one failed request still opens it -/
theorem stale_threshold_witness :
    let f : FlowRule := { id := "", res := "f", tcs := 0, cb := 0, th := 3 * thQ, rel := 0, ref := "", maxQ := 0, wuPeriod := 0, wuCf := 0,
                          statMs := 0, lowMem := 0, highMem := 0, memLow := 0, memHigh := 0 }
    let c : CbRule := { id := "", res := "c", strategy := 2, retryMs := 1000, minReq := 1, statMs := 1000, buckets := 0, maxRt := 0,
                        th := 2 * thQ - 2 ^ 20, probe := 0 }
    getRes (run (flowMod 0) [.loadAll [some f], .loadAll [some { f with th := 3 * thQ - 2 ^ 20 }]]) "f" = [f] ∧
    (run cbMod [.loadAll [some c], .loadAll [some { c with th := 2 * thQ }]]).bound "c" = [c] ∧
    cbProbe [c] = some true ∧ cbProbe [{ c with th := 2 * thQ }] = some false := by decide

/-- the history of the witness: the same flow rule loaded twice, only the ID differs -/
def staleIdOps : List (Op FlowRule) :=
  let f : FlowRule := { id := "a", res := "f", tcs := 0, cb := 0, th := 2 * thQ, rel := 0, ref := "", maxQ := 0, wuPeriod := 0, wuCf := 0,
                        statMs := 0, lowMem := 0, highMem := 0, memLow := 0, memHigh := 0 }
  [.loadAll [some f], .loadAll [some { f with id := "b" }]]

theorem getters_statement_fails : ¬ getters_eq_enforced_statement (flowMod 0) := by
  intro h
  have := h staleIdOps "f"
  revert this
  decide

/-- the hypotheses of the partial theorems are satisfiable, and the conclusions are not vacuous -/
example : (run isoMod [.loadAll [some { id := "", res := "i", metric := 0, th := 1 }, none, some { id := "", res := "i", metric := 0, th := 0 }]]).enf "i"
    = [{ id := "", res := "i", metric := 0, th := 1 }] := by decide
example : ∀ k, (proj hotMod k [some { id := "", res := "h", metric := 1, cb := 0, pidx := 0, pkey := "", th := 3, maxQ := 0, burst := 0, dur := 1, cap := 0, items := 1 }]).map (normIn hotMod k)
    = proj hotMod k [some { id := "", res := "h", metric := 1, cb := 0, pidx := 0, pkey := "", th := 3, maxQ := 0, burst := 0, dur := 1, cap := 0, items := 1 }] := by
  intro k
  by_cases h : k = "h"
  · subst h; decide
  · have : ("h" == k) = false := by simpa using fun e => h e.symm
    simp [proj, hotMod, this]

section modes
variable {R : Type} [DecidableEq R] {M : RuleMod R}

/-- whole-set analogue of `fail_load_installs_rest`: a `LoadRules` executed while the custom generator returns errors installs,
    for every resource, the controllers of its group *without the custom rules* and caches the *whole* grouped input -/
theorem fail_loadAll_installs_rest (custom : R → Bool) (s : MState R) (rules : List (Option R))
    (hc : ¬ (s.keys ++ ruleKeys M rules).all (fun k => s.cache k == proj M k rules) = true)
    (hq : ∀ k, ∀ r ∈ validList M (proj M k rules), custom r = true → ∀ o ∈ s.bound k, M.equals o r = false) :
    (loadAllG M custom .fail s rules).2 = .changed ∧
    (∀ k, (loadAllG M custom .fail s rules).1.bound k =
        buildReuse M k ((validList M (proj M k rules)).filter fun r => !custom r) (s.bound k)) ∧
    (∀ k, (loadAllG M custom .fail s rules).1.cache k = (proj M k rules).map (normIn (withGen M custom .fail) k)) := by
  have e : loadAllG M custom .fail s rules = loadAll (withGen M custom .fail) s rules := by
    unfold loadAllG; simp
  have hc' : ¬ (s.keys ++ ruleKeys (withGen M custom .fail) rules).all
      (fun k => s.cache k == proj (withGen M custom .fail) k rules) = true := hc
  rw [e, loadAll_changed hc']
  refine ⟨rfl, fun k => ?_, fun k => rfl⟩
  show buildReuse (withGen M custom .fail) k (validList (withGen M custom .fail) (proj (withGen M custom .fail) k rules)) (s.bound k) = _
  rw [validList_withGen]
  exact buildReuse_fail custom k _ _ (hq k)

/-- … and the identical whole-set retry after the generator recovered is short-circuited -/
theorem retry_all_after_fail_short_circuited (custom : R → Bool) (s : MState R) (rules : List (Option R))
    (hn : ∀ k, (proj M k rules).map (normIn (withGen M custom .fail) k) = proj M k rules) :
    (loadAllG M custom .ok (loadAllG M custom .fail s rules).1 rules).2 = .unchanged ∧
    (loadAllG M custom .ok (loadAllG M custom .fail s rules).1 rules).1 = (loadAllG M custom .fail s rules).1 := by
  have e : ∀ t, loadAllG M custom .fail t rules = loadAll (withGen M custom .fail) t rules := by
    intro t; unfold loadAllG; simp
  have e' : ∀ t, loadAllG M custom .ok t rules = loadAll (withGen M custom .ok) t rules := by
    intro t; unfold loadAllG; simp
  rw [e, e']
  by_cases hc : (s.keys ++ ruleKeys (withGen M custom .fail) rules).all
      (fun k => s.cache k == proj (withGen M custom .fail) k rules) = true
  · rw [loadAll_unchanged hc]
    have hc' : (s.keys ++ ruleKeys (withGen M custom .ok) rules).all
        (fun k => s.cache k == proj (withGen M custom .ok) k rules) = true := hc
    rw [loadAll_unchanged hc']; exact ⟨rfl, rfl⟩
  · have hk : (loadAll (withGen M custom .fail) s rules).1.keys = ruleKeys M rules := by rw [loadAll_changed hc]; rfl
    have hcache : ∀ k, (loadAll (withGen M custom .fail) s rules).1.cache k = proj M k rules := by
      intro k; rw [loadAll_changed hc]; exact hn k
    have hc' : ((loadAll (withGen M custom .fail) s rules).1.keys ++ ruleKeys (withGen M custom .ok) rules).all
        (fun k => (loadAll (withGen M custom .fail) s rules).1.cache k == proj (withGen M custom .ok) k rules) = true := by
      rw [List.all_eq_true]; intro k _
      rw [hcache k]; simp; rfl
    rw [loadAll_unchanged hc']; exact ⟨rfl, rfl⟩

/-! #### the remaining history theorems over mode-changing histories -/

theorem loadAll_outcome_withGen (custom : R → Bool) (g : GenMode) (s : MState R) (rules : List (Option R)) :
    (loadAll (withGen M custom g) s rules).2 = (loadAll M s rules).2 := by
  by_cases hc : (s.keys ++ ruleKeys M rules).all (fun k => s.cache k == proj M k rules) = true
  · have hc' : (s.keys ++ ruleKeys (withGen M custom g) rules).all
        (fun k => s.cache k == proj (withGen M custom g) k rules) = true := hc
    rw [loadAll_unchanged hc, loadAll_unchanged hc']
  · have hc' : ¬ (s.keys ++ ruleKeys (withGen M custom g) rules).all
        (fun k => s.cache k == proj (withGen M custom g) k rules) = true := hc
    rw [loadAll_changed hc, loadAll_changed hc']

/-- **identical whole-set reload reports "unchanged"** after any interleaving of loads and generator-mode changes outside
    `generator-error-swallowed`, whatever the generator does at the time of the two loads (the first one not panicking) -/
theorem identical_reload_unchanged_modes_partial (hM : Lawful M) (custom : R → Bool) (ops : List (GOp R))
    (h : NoFailedBuild M custom .ok ops) (rules : List (Option R))
    (hs : (runE M custom ops).mode = .fail → ∀ r, some r ∈ rules → M.valid r = true → custom r = false)
    (hfirst : (opG M custom (runE M custom ops).mode (runE M custom ops).st (.loadAll rules)).2 ≠ .changedErr)
    (hn : ∀ k, (proj M k rules).map (normIn M k) = proj M k rules) :
    (opG M custom (runE M custom ops).mode
        (opG M custom (runE M custom ops).mode (runE M custom ops).st (.loadAll rules)).1 (.loadAll rules)).2 = .unchanged := by
  have h1 := opG_eq_step custom _ _ _ hfirst hs
  rw [h1, runE_eq_run_executed custom ops h]
  have hu := identical_reload_unchanged_partial hM (runE M custom ops).executed rules hn
  rw [run_snoc] at hu
  show (loadAllG M custom _ _ rules).2 = .unchanged
  unfold loadAllG
  have hu' : (loadAll M (step M (run M (runE M custom ops).executed) (Op.loadAll rules)).1 rules).2 = .unchanged := hu
  split_ifs with hc
  · rw [hu'] at hc; exact absurd hc.2.1 (by decide)
  · rw [loadAll_outcome_withGen]; exact hu'

/-- the identity layer as the driver composes it: `cstep` under the module the generator mode induces, skipped when the
    build panicked -/
structure GCState (R : Type) where
  st : MState R
  mode : GenMode
  c : CState R

def stepEC (M : RuleMod R) (custom : R → Bool) (x : GCState R) : GOp R → GCState R
  | .mode g => { x with mode := g }
  | .load o =>
    if (opG M custom x.mode x.st o).2 = .changedErr then x
    else { x with st := (opG M custom x.mode x.st o).1, c := cstep (withGen M custom x.mode) x.st x.c o }

def runEC (M : RuleMod R) (custom : R → Bool) (ops : List (GOp R)) : GCState R :=
  ops.foldl (stepEC M custom) ⟨MState.init, .ok, CState.init⟩

theorem opG_eq_step_withGen (custom : R → Bool) (g : GenMode) (s : MState R) (o : Op R)
    (hne : (opG M custom g s o).2 ≠ .changedErr) : (opG M custom g s o).1 = (step (withGen M custom g) s o).1 := by
  cases o with
  | loadAll rules => simp only [opG, loadAllG, step] at hne ⊢; split_ifs at hne ⊢ <;> first | rfl | exact absurd rfl hne
  | loadRes res rules => simp only [opG, loadResG, step] at hne ⊢; split_ifs at hne ⊢ <;> first | rfl | exact absurd rfl hne
  | clearAll => simp only [opG, loadAllG, step] at hne ⊢; split_ifs at hne ⊢ <;> first | rfl | exact absurd rfl hne
  | clearRes res => simp only [opG, loadResG, step] at hne ⊢; split_ifs at hne ⊢ <;> first | rfl | exact absurd rfl hne

/-- **one controller per bound rule, pairwise distinct objects — over every history with generator-mode changes, inside
    the finding's region too** (no side condition) -/
theorem controllers_distinct_modes (custom : R → Bool) (ops : List (GOp R)) (k : String) :
    (((runEC M custom ops).c.ctrl k).map Prod.snd).Nodup ∧
    ((runEC M custom ops).c.ctrl k).map Prod.fst = (runEC M custom ops).st.bound k := by
  have gen : ∀ (ops : List (GOp R)) (x : GCState R), CInv x.st x.c →
      CInv (ops.foldl (stepEC M custom) x).st (ops.foldl (stepEC M custom) x).c := by
    intro ops
    induction ops with
    | nil => intro x hx; exact hx
    | cons op ops ih =>
      intro x hx
      rw [List.foldl_cons]
      apply ih
      cases op with
      | mode g => exact hx
      | load o =>
        by_cases he : (opG M custom x.mode x.st o).2 = .changedErr
        · have e : stepEC M custom x (.load o) = x := by simp [stepEC, he]
          rw [e]; exact hx
        · have e : stepEC M custom x (.load o) =
              { x with st := (opG M custom x.mode x.st o).1, c := cstep (withGen M custom x.mode) x.st x.c o } := by
            simp [stepEC, he]
          rw [e]
          show CInv (opG M custom x.mode x.st o).1 (cstep (withGen M custom x.mode) x.st x.c o)
          rw [opG_eq_step_withGen custom _ _ _ he]
          exact cinv_step hx o
  have h := gen ops ⟨MState.init, .ok, CState.init⟩
    ⟨fun _ => rfl, fun _ => List.nodup_nil, fun _ _ hx => by simp [CState.init] at hx⟩
  exact ⟨h.nodup k, h.fst k⟩

/-- the manager component of `runEC` is `runE`'s -/
theorem runEC_st (custom : R → Bool) (ops : List (GOp R)) : (runEC M custom ops).st = (runE M custom ops).st := by
  have gen : ∀ (ops : List (GOp R)) (x : GCState R) (y : GState R), x.st = y.st → x.mode = y.mode →
      (ops.foldl (stepEC M custom) x).st = (ops.foldl (stepE M custom) y).st := by
    intro ops
    induction ops with
    | nil => intro x y h _; exact h
    | cons op ops ih =>
      intro x y h hm
      rw [List.foldl_cons, List.foldl_cons]
      cases op with
      | mode g => exact ih _ _ h rfl
      | load o =>
        by_cases he : (opG M custom x.mode x.st o).2 = .changedErr
        · have he' : (opG M custom y.mode y.st o).2 = .changedErr := by rw [← h, ← hm]; exact he
          apply ih
          · simp only [stepEC, stepE, he, he', if_true]
            rw [← h, ← hm, opG_err_state custom _ _ _ he]
          · simp only [stepEC, stepE, he, he', if_true]; exact hm
        · have he' : ¬ (opG M custom y.mode y.st o).2 = .changedErr := by rw [← h, ← hm]; exact he
          apply ih
          · simp only [stepEC, stepE, he, he', if_false]; rw [h, hm]
          · simp only [stepEC, stepE, he, he', if_false]; exact hm
  exact gen ops _ _ rfl rfl

/-! #### `GetRules` grouped by resource after a whole-set load (the `getord` observation) -/

/-- what the getter holds for one resource has that resource's name -/
theorem res_of_mem_pub (hM : Lawful M) (ops : List (Op R)) (rules : List (Option R)) (k : String) :
    ∀ x ∈ (run M (ops ++ [.loadAll rules])).pub k, M.res x = k := by
  have hI := inv_run hM (ops ++ [.loadAll rules])
  have hL : latest M (ops ++ [.loadAll rules]) k = proj M k rules := by rw [latest_snoc]; rfl
  have henf : ∀ y ∈ (run M (ops ++ [.loadAll rules])).enf k, M.res y = k := by
    intro y hy; rw [hI.enf k, hL] at hy; exact res_of_mem_buildList hM hy
  rcases hI.pub k with ⟨_, hp⟩ | ⟨_, hp | ⟨hp, _⟩⟩
  · rw [hp]; exact res_of_forall₂ hM (hI.bound k) henf
  · rw [hp, hL]
    intro x hx
    have := (List.mem_filter.mp ((List.mem_filterMap.mp (List.mem_filter.mp hx).1).choose_spec.1)).2
    have hid := (List.mem_filterMap.mp (List.mem_filter.mp hx).1).choose_spec.2
    simp only [id] at hid
    rw [hid] at this
    simpa using this
  · rw [hp]; intro x hx; simp at hx

/-- **`GetRules`, grouped stably by resource, is the per-resource getter of each resource, in the order the load gave**:
    picking resource `k`'s rules out of `GetRules` (in whatever map order it came) yields exactly `GetRulesOfResource(k)` -/
theorem getAll_filter_res (hM : Lawful M) (ops : List (Op R)) (rules : List (Option R)) (k : String) :
    (getAll (run M (ops ++ [.loadAll rules]))).filter (fun x => M.res x == k) =
      if k ∈ (run M (ops ++ [.loadAll rules])).keys then getRes (run M (ops ++ [.loadAll rules])) k else [] := by
  unfold getAll getRes
  rw [filter_flatMap_key M.res _ k _ (nodup_eraseDups_str _) (fun k' _ => res_of_mem_pub hM ops rules k')]
  simp [List.mem_eraseDups]

theorem groupStable_getAll (hM : Lawful M) (ops : List (Op R)) (rules : List (Option R)) (order : List String)
    (ho : ∀ k ∈ order, k ∈ (run M (ops ++ [.loadAll rules])).keys) :
    groupStable M.res order (getAll (run M (ops ++ [.loadAll rules]))) =
      order.flatMap fun k => getRes (run M (ops ++ [.loadAll rules])) k := by
  unfold groupStable
  apply List.flatMap_congr
  intro k hk
  rw [getAll_filter_res hM ops rules k, if_pos (ho k hk)]

/-- … and that is, resource by resource, the accepted rules of the load in load order (up to `sim` where controllers
    are reused; exactly the valid rules of the group for the circuit breaker, whose getter reads `breakerRules`) -/
theorem getord_eq_valid_in_load_order (hM : Lawful M) (hp : M.pubValid = false) (ops : List (Op R)) (rules : List (Option R))
    (k : String) (hk : k ∈ (run M (ops ++ [.loadAll rules])).keys) :
    List.Forall₂ (fun a b => M.sim a b = true)
      ((getAll (run M (ops ++ [.loadAll rules]))).filter (fun x => M.res x == k)) (buildList M k (proj M k rules)) := by
  rw [getAll_filter_res hM ops rules k, if_pos hk]
  have := getters_eq_enforced hM hp (ops ++ [.loadAll rules]) k
  rw [whole_load_replaces_everything hM] at this
  exact this

theorem getord_iso_exact (ops : List (Op IsoRule)) (rules : List (Option IsoRule)) (k : String)
    (hk : k ∈ (run isoMod (ops ++ [.loadAll rules])).keys) :
    (getAll (run isoMod (ops ++ [.loadAll rules]))).filter (fun x => x.res == k) = buildList isoMod k (proj isoMod k rules) := by
  have := getAll_filter_res iso_lawful ops rules k
  rw [if_pos hk] at this
  rw [show (fun x : IsoRule => x.res == k) = (fun x => isoMod.res x == k) from rfl, this, iso_getters,
      whole_load_replaces_everything iso_lawful]

/-- circuit breaker (getter reads `breakerRules`): exact, outside `cb-getter-reports-unbuilt` -/
theorem getord_cb_partial (ops : List (Op CbRule)) (rules : List (Option CbRule)) (k : String)
    (hk : k ∈ (run cbMod (ops ++ [.loadAll rules])).keys)
    (h : ∀ r ∈ validList cbMod (proj cbMod k rules), built cbMod k r = true) :
    (getAll (run cbMod (ops ++ [.loadAll rules]))).filter (fun x => x.res == k) = buildList cbMod k (proj cbMod k rules) := by
  have e := getAll_filter_res cb_lawful ops rules k
  rw [if_pos hk] at e
  have g := getters_eq_enforced_partial cb_lawful rfl (ops ++ [.loadAll rules]) k (by rw [latest_snoc]; exact h)
  rw [whole_load_replaces_everything cb_lawful] at g
  rw [show (fun x : CbRule => x.res == k) = (fun x => cbMod.res x == k) from rfl, e]
  exact g

/-- system: `GetRules` grouped stably by metric type is the valid rules of the latest load, in load order within each type -/
theorem sys_getord (loads : List (List (Option SysRule))) (rules : List (Option SysRule)) (order : List String) :
    groupStable (fun r : SysRule => toString r.metric) order (runSys (loads ++ [rules])).enf =
      groupStable (fun r : SysRule => toString r.metric) order (sysBuild rules) := by
  rw [(sinv_run (loads ++ [rules])).enf]
  simp

end modes

/-! ### system -/

/-- the enforced system rules are the valid rules of the latest load, in order -/
theorem sys_enforced_eq_valid_latest (loads : List (List (Option SysRule))) :
    (runSys loads).enf = ((loads.getLast?.getD []).filterMap id).filter (fun r => sysClause r = 0) :=
  (sinv_run loads).enf

theorem sys_invalid_never_enforced (loads : List (List (Option SysRule))) (r : SysRule) (h : r ∈ (runSys loads).enf) :
    sysClause r = 0 := by
  rw [sys_enforced_eq_valid_latest] at h
  simpa using (List.mem_filter.mp h).2

theorem sys_never_panics (s : SysState) (rules : List (Option SysRule)) : (loadSys s rules).2 ≠ .panic := by
  unfold loadSys; split_ifs <;> simp

/-- an identical reload of system rules reports "unchanged", in every state -/
theorem sys_identical_reload_unchanged (s : SysState) (rules : List (Option SysRule)) :
    (loadSys (loadSys s rules).1 rules).2 = .unchanged := by
  by_cases h : (s.cache == rules && (!rules.isEmpty || s.cacheNil)) = true
  · have e : loadSys s rules = (s, .unchanged) := by unfold loadSys; rw [if_pos h]
    rw [e]; exact congrArg Prod.snd e
  · have e : loadSys s rules = ({ cacheNil := rules.isEmpty, cache := rules, enf := sysBuild rules }, .changed) := by
      unfold loadSys; rw [if_neg h]
    rw [e]
    unfold loadSys
    simp

/-! ### outlier -/

def out_enforced_eq_valid_latest_statement : Prop :=
  ∀ (ops : List OOp) (k : String), (runOut ops).enf k = outAccept (latestOut ops k)

/-- pinned tree: a refused per-resource load leaves the previous rule in force (and in `GetRules`) -/
theorem outlier_invalid_keeps_old_witness :
    let c : CbRule := { id := "", res := "o", strategy := 2, retryMs := 1000, minReq := 1, statMs := 1000, buckets := 0, maxRt := 0, th := 2 * thQ, probe := 0 }
    let good : OutRule := { pct2 := 1, recMs := 0, inner := some c }
    let bad : OutRule := { pct2 := 3, recMs := 0, inner := some c }
    let ops := [OOp.loadRes "o" (some good), OOp.loadRes "o" (some bad)]
    (stepOut (runOut [OOp.loadRes "o" (some good)]) (.loadRes "o" (some bad))).2 = .changedErr ∧
    (runOut ops).enf "o" = some good ∧ outAccept (latestOut ops "o") = none ∧ getAllOut (runOut ops) = [good] := by decide

theorem out_statement_fails : ¬ out_enforced_eq_valid_latest_statement := by
  intro h
  have := h [OOp.loadRes "o" (some { pct2 := 1, recMs := 0, inner := some { id := "", res := "o", strategy := 2, retryMs := 1000, minReq := 1, statMs := 1000, buckets := 0, maxRt := 0, th := 2 * thQ, probe := 0 } }),
             OOp.loadRes "o" (some { pct2 := 3, recMs := 0, inner := some { id := "", res := "o", strategy := 2, retryMs := 1000, minReq := 1, statMs := 1000, buckets := 0, maxRt := 0, th := 2 * thQ, probe := 0 } })] "o"
  revert this
  decide

/-- outside `outlier-invalid-keeps-old` — for every resource whose latest rule was not a refused per-resource load
    (`taintOut` is the classifier the driver uses) — the rule in force is the latest rule handed over for it if that
    rule is valid, and nothing otherwise -/
theorem out_enforced_eq_valid_latest_partial (ops : List OOp) (k : String) (h : k ∉ taintOut ops) :
    (runOut ops).enf k = outAccept (latestOut ops k) := by
  have hI := oinv_run ops
  rw [hI.all k, hI.good k h]

/-- a whole-set load wipes the finding's region: right after it every resource is governed by the loaded set -/
theorem out_whole_load_replaces_everything (ops : List OOp) (rules : List (Option OutRule)) (k : String) :
    (runOut (ops ++ [.loadAll rules])).enf k = outAccept (outProj k rules) := by
  have h : k ∉ taintOut (ops ++ [.loadAll rules]) := by simp [taintOut, List.foldl_append, taintStep]
  rw [out_enforced_eq_valid_latest_partial _ k h]
  simp [latestOut, List.foldl_append, latestOutStep]

example : taintOut [.loadRes "o" (some { pct2 := 3, recMs := 0, inner := none }), .loadAll [none], .loadRes "p" none] = [] := by decide

/-- invalid outlier rules are never put in force (in every state, whatever happened before) -/
theorem out_invalid_never_installed (s : OState) (op : OOp) (k : String) (r : OutRule)
    (h : (stepOut s op).1.enf k = some r) : s.enf k = some r ∨ outCheck r = .ok := by
  cases op with
  | loadAll rules =>
    simp only [stepOut, loadAllOut] at h
    split_ifs at h with hc
    · exact Or.inl h
    · right
      simp only [outAccept, Option.filter_eq_some_iff, beq_iff_eq] at h
      exact h.2
  | loadRes res rule =>
    simp only [stepOut, loadResOut] at h
    split_ifs at h with h0
    · exact Or.inl h
    · cases rule with
      | none =>
        dsimp only at h
        by_cases hk : k = res
        · subst hk; simp [upd_same] at h
        · rw [upd_other _ _ hk] at h; exact Or.inl h
      | some r' =>
        dsimp only at h
        split_ifs at h with h2
        · exact Or.inl h
        · unfold outResBody at h
          cases hcheck : outCheck r' with
          | panics => rw [hcheck] at h; exact Or.inl h
          | invalid => rw [hcheck] at h; exact Or.inl h
          | ok =>
            rw [hcheck] at h
            dsimp only at h
            by_cases hk : k = res
            · subst hk; rw [upd_same] at h; cases h; exact Or.inr hcheck
            · rw [upd_other _ _ hk] at h; exact Or.inl h

/-- `GetRules` of the outlier module reads the rules in force -/
theorem out_getters_eq_enforced (s : OState) : getAllOut s = s.keys.eraseDups.filterMap s.enf := rfl

theorem out_locality (s : OState) (res : String) (rule : Option OutRule) (k : String) (hk : k ≠ res) :
    (loadResOut s res rule).1.enf k = s.enf k ∧ (loadResOut s res rule).1.cache k = s.cache k := by
  unfold loadResOut
  split_ifs with h0
  · exact ⟨rfl, rfl⟩
  · cases rule with
    | none => exact ⟨upd_other _ _ hk, upd_other _ _ hk⟩
    | some r =>
      dsimp only
      split_ifs with h2
      · exact ⟨rfl, rfl⟩
      · unfold outResBody
        cases outCheck r with
        | panics => exact ⟨rfl, rfl⟩
        | invalid => exact ⟨rfl, rfl⟩
        | ok => exact ⟨upd_other _ _ hk, upd_other _ _ hk⟩

/-- the panic raised by dereferencing a nil embedded breaker rule never leaves `LoadRuleOfResource`
    (the deferred `recover` turns it into the returned error), and `LoadRules` skips such rules -/
theorem out_never_panics (s : OState) (op : OOp) : (stepOut s op).2 ≠ .panic := by
  cases op with
  | loadAll rules => simp only [stepOut, loadAllOut]; split_ifs <;> simp
  | loadRes res rule =>
    simp only [stepOut, loadResOut]
    split_ifs with h0
    · simp
    · cases rule with
      | none => simp
      | some r =>
        dsimp only
        split_ifs with h2
        · simp
        · unfold outResBody
          cases outCheck r <;> simp

/-- an identical whole-set reload of outlier rules reports "unchanged", in every state -/
theorem out_identical_reload_unchanged (s : OState) (rules : List (Option OutRule)) :
    (loadAllOut (loadAllOut s rules).1 rules).2 = .unchanged := by
  by_cases h : (s.keys ++ outKeys rules).all (fun k => s.cache k == outProj k rules) = true
  · have e : loadAllOut s rules = (s, .unchanged) := by unfold loadAllOut; dsimp only; rw [if_pos h]
    rw [e]; exact congrArg Prod.snd e
  · have e : loadAllOut s rules =
        (OState.mk (outKeys rules) (fun k => outProj k rules) (fun k => outAccept (outProj k rules)), .changed) := by
      unfold loadAllOut; dsimp only; rw [if_neg h]
    rw [e]
    unfold loadAllOut
    simp

end Sentinel.C13
