import Sentinel.Model.Rules
namespace Sentinel.C13
open Sentinel.Rules
theorem placeholder : (1 : Nat) = 1 := rfl
end Sentinel.C13
