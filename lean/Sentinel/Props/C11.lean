import Mathlib.Tactic
import Sentinel.Lemmas.WarmUp
import Sentinel.Lemmas.WarmUpHist
import Sentinel.Lemmas.WarmUpRun
import Sentinel.Lemmas.WarmUpReload
import Sentinel.Lemmas.WarmUpOwn
/-!
# C11 — adaptive thresholds stay inside their configured envelope

All statements are about `Sentinel.WU` (`lean/Sentinel/Model/WarmUp.lean`) — the definitions the driver
executes with the `Float` carrier — instantiated at the exact rationals (`Carrier ℚ`, `next = id`).
`allowed c tokens = none` is the code's NaN threshold (the reject comparison is false: admit).

* static envelope of the warm-up threshold on the non-degenerate domain (`T > 0`, `maxToken > warningToken`,
  which is exactly `Known.degenerateNaN c = false`);
* memory-adaptive interpolation for every valid rule;
* the dynamic claims in full (`…_statement`), their refutations on the faithful model (the recorded
  findings `warmup-nan`, `warmup-starvation`; general region theorems + the concrete witnesses), and the
  positive `_partial`s.
-/
namespace Sentinel.C11
open Sentinel.WU Sentinel.WU.L Sentinel.LA

/-! ## the non-degenerate domain is the complement of the `warmup-nan` classifier -/

theorem nondegenerate_iff (T : ℚ) (p cf0 : ℕ) :
    Known.degenerateNaN (mkCfg T p cf0) = false ↔ 0 < T ∧ (mkCfg T p cf0).warn < (mkCfg T p cf0).max := by
  constructor
  · intro h
    have := mkCfg_wf T p cf0 h
    exact ⟨this.Tpos, this.lt⟩
  · rintro ⟨hT, hlt⟩
    unfold Known.degenerateNaN
    unfold mkCfg at hlt ⊢
    simp only [c_ofNat, c_ltb, Nat.cast_zero] at hlt ⊢
    rw [if_neg]
    · rfl
    · rw [not_or]
      refine ⟨by omega, by simpa using hT⟩

/-! ## warm-up: static envelope (every non-degenerate configuration, every token level) -/

section static
variable (T : ℚ) (p cf0 : ℕ) (hnd : Known.degenerateNaN (mkCfg T p cf0) = false)
include hnd

/-- the effective threshold never exceeds the configured one -/
theorem allowed_le_T (tokens : ℤ) : ∃ q, allowed (mkCfg T p cf0) tokens = some q ∧ q ≤ T :=
  ⟨_, allowed_closed_form (mkCfg_wf T p cf0 hnd) tokens, val_le_T (mkCfg_wf T p cf0 hnd) tokens⟩

/-- … and never falls below `T / coldFactor` (stored tokens never exceed `maxToken`: `tokens_stay_in_bucket`) -/
theorem allowed_ge_T_div_cf (tokens : ℤ) (h : tokens ≤ (mkCfg T p cf0).max) :
    ∃ q, allowed (mkCfg T p cf0) tokens = some q ∧ T / (effCf cf0 : ℚ) ≤ q :=
  ⟨_, allowed_closed_form (mkCfg_wf T p cf0 hnd) tokens, T_div_cf_le_val (mkCfg_wf T p cf0 hnd) tokens h⟩

/-- the effective threshold is a finite (not NaN) positive number -/
theorem allowed_finite_nonneg (tokens : ℤ) (h : tokens ≤ (mkCfg T p cf0).max) :
    ∃ q, allowed (mkCfg T p cf0) tokens = some q ∧ 0 < q := by
  have hwf := mkCfg_wf T p cf0 hnd
  refine ⟨_, allowed_closed_form hwf tokens, lt_of_lt_of_le ?_ (T_div_cf_le_val hwf tokens h)⟩
  have : (0 : ℚ) < (mkCfg T p cf0).cf := by
    have : (2 : ℚ) ≤ (mkCfg T p cf0).cf := by exact_mod_cast hwf.cf2
    linarith
  exact div_pos hwf.Tpos this

/-- with a full bucket (cold system) the threshold is exactly `T / coldFactor` -/
theorem cold_start_eq_T_div_cf :
    allowed (mkCfg T p cf0) (mkCfg T p cf0).max = some (T / (effCf cf0 : ℚ)) := by
  rw [allowed_closed_form (mkCfg_wf T p cf0 hnd), val_at_max (mkCfg_wf T p cf0 hnd)]; rfl

/-- below (or at) the warning line the threshold is the full `T` -/
theorem warm_eq_T (tokens : ℤ) (h : tokens ≤ (mkCfg T p cf0).warn) : allowed (mkCfg T p cf0) tokens = some T := by
  rw [allowed_closed_form (mkCfg_wf T p cf0 hnd), val_eq_T_of_le_warn (mkCfg_wf T p cf0 hnd) tokens h]; rfl

/-- a colder system (more stored tokens) never has a higher threshold -/
theorem allowed_antitone_in_tokens (t1 t2 : ℤ) (h : t1 ≤ t2) :
    ∃ q1 q2, allowed (mkCfg T p cf0) t1 = some q1 ∧ allowed (mkCfg T p cf0) t2 = some q2 ∧ q2 ≤ q1 :=
  ⟨_, _, allowed_closed_form (mkCfg_wf T p cf0 hnd) t1, allowed_closed_form (mkCfg_wf T p cf0 hnd) t2,
    val_antitone (mkCfg_wf T p cf0 hnd) t1 t2 h⟩

end static

/-- `syncToken` keeps the stored tokens inside `[0, maxToken]` (any configuration, any previous-window QPS ≥ 0) -/
theorem tokens_stay_in_bucket (c : Cfg ℚ) (s : Tok) (now : ℕ) (q : ℚ) (hq : 0 ≤ q)
    (h0 : 0 ≤ s.tokens) (h1 : s.tokens ≤ c.max) :
    0 ≤ (sync c s now q).tokens ∧ (sync c s now q).tokens ≤ c.max := sync_bounds c s now q hq h0 h1

example : Known.degenerateNaN (mkCfg (2 : ℚ) 10 3) = false := by
  rw [nondegenerate_iff]
  simp only [mkCfg, effCf, c_ofNat]
  rw [trunc_eq 10 (by norm_num) (by norm_num) (by norm_num), trunc_eq 10 (by norm_num) (by norm_num) (by norm_num)]
  norm_num

/-! ## memory-adaptive: every valid rule, every memory reading -/

section adaptive
variable (m : MemCfg) (total : ℤ) (hv : m.valid total = true)
include hv

theorem low_at_or_below_low_mark (mem : ℤ) (h : mem ≤ m.lowM) : (memAllowed m mem : ℚ) = m.lowT := by
  obtain ⟨_, _, _, hl, _⟩ := (valid_iff m total).1 hv
  rw [memAllowed_eq m hl, if_pos h]

theorem high_at_or_above_high_mark (mem : ℤ) (h : m.highM ≤ mem) : (memAllowed m mem : ℚ) = m.highT := by
  obtain ⟨_, _, _, hl, _, _, hlh⟩ := (valid_iff m total).1 hv
  rw [memAllowed_eq m hl, if_neg (by omega), if_pos h]

/-- strictly between the water marks the threshold lies strictly between the two configured values -/
theorem strictly_between (mem : ℤ) (h1 : m.lowM < mem) (h2 : mem < m.highM) :
    (m.highT : ℚ) < memAllowed m mem ∧ (memAllowed m mem : ℚ) < m.lowT := by
  obtain ⟨_, _, ht, hl, _, _, hlh⟩ := (valid_iff m total).1 hv
  rw [memAllowed_eq m hl, if_neg (by omega), if_neg (by omega)]
  exact interp_bounds m ht hlh mem h1 h2

/-- the threshold is monotone (non-increasing) in the memory reading, over the whole range -/
theorem monotone_between (mem1 mem2 : ℤ) (h : mem1 ≤ mem2) : (memAllowed m mem2 : ℚ) ≤ memAllowed m mem1 := by
  obtain ⟨_, _, ht, hl, _, _, hlh⟩ := (valid_iff m total).1 hv
  have htq : (m.highT : ℚ) < m.lowT := by exact_mod_cast ht
  by_cases a2 : mem2 ≤ m.lowM
  · rw [low_at_or_below_low_mark m total hv mem2 a2, low_at_or_below_low_mark m total hv mem1 (by omega)]
  by_cases a1 : mem1 ≤ m.lowM
  · rw [low_at_or_below_low_mark m total hv mem1 a1]
    by_cases b2 : m.highM ≤ mem2
    · rw [high_at_or_above_high_mark m total hv mem2 b2]; linarith
    · exact le_of_lt (strictly_between m total hv mem2 (by omega) (by omega)).2
  by_cases b1 : m.highM ≤ mem1
  · rw [high_at_or_above_high_mark m total hv mem1 b1, high_at_or_above_high_mark m total hv mem2 (by omega)]
  by_cases b2 : m.highM ≤ mem2
  · rw [high_at_or_above_high_mark m total hv mem2 b2]
    exact le_of_lt (strictly_between m total hv mem1 (by omega) (by omega)).1
  · rw [memAllowed_eq m hl, memAllowed_eq m hl, if_neg a2, if_neg b2, if_neg a1, if_neg b1]
    have hb : (0 : ℚ) < (m.highM : ℚ) - m.lowM := by
      have : (m.lowM : ℚ) < m.highM := by exact_mod_cast hlh
      linarith
    have hs : ((m.highT : ℚ) - m.lowT) / ((m.highM : ℚ) - m.lowM) ≤ 0 :=
      div_nonpos_of_nonpos_of_nonneg (by linarith) (le_of_lt hb)
    have hm : (mem1 : ℚ) ≤ mem2 := by exact_mod_cast h
    nlinarith

/-- the effective threshold of a valid rule is always finite and positive (at least the high-memory threshold) -/
theorem finite_nonneg (mem : ℤ) : (0 : ℚ) < memAllowed m mem ∧ (m.highT : ℚ) ≤ memAllowed m mem ∧ (memAllowed m mem : ℚ) ≤ m.lowT := by
  obtain ⟨_, hh, ht, hl, _, _, hlh⟩ := (valid_iff m total).1 hv
  have hhq : (0 : ℚ) < m.highT := by exact_mod_cast hh
  have htq : (m.highT : ℚ) < m.lowT := by exact_mod_cast ht
  have key : (m.highT : ℚ) ≤ memAllowed m mem ∧ (memAllowed m mem : ℚ) ≤ m.lowT := by
    by_cases a : mem ≤ m.lowM
    · rw [low_at_or_below_low_mark m total hv mem a]; exact ⟨le_of_lt htq, le_refl _⟩
    by_cases b : m.highM ≤ mem
    · rw [high_at_or_above_high_mark m total hv mem b]; exact ⟨le_refl _, le_of_lt htq⟩
    · have := strictly_between m total hv mem (by omega) (by omega)
      exact ⟨le_of_lt this.1, le_of_lt this.2⟩
  exact ⟨lt_of_lt_of_le hhq key.1, key⟩

end adaptive

example : (⟨100, 10, 1000, 2000⟩ : MemCfg).valid (2^62) = true := by decide

/-! ## dynamic claims: full statements -/

/-- "a steady single-token demand is never starved forever when the threshold is at least one":
    for every valid warm-up rule with `T ≥ 1`, loaded at any time, and every strictly increasing sequence of
    single-token request instants, some request is eventually admitted -/
def not_starved_forever_statement : Prop :=
  ∀ (T : ℚ) (p cf0 sc Iv t0 : ℕ), 1 ≤ T → 0 < p → cf0 ≠ 1 →
  ∀ times : ℕ → ℕ, StrictMono times → t0 ≤ times 0 →
  ∃ n, true ∈ run (loadWarmUp ({} : Sys ℚ) t0 T p cf0 sc Iv) ((List.range n).map fun i => (times i, 1))

/-- `k` seconds of saturating demand: `N` single-token requests at `t`, `t + 1000`, … -/
def satRun (s : Sys ℚ) (N : ℕ) : ℕ → ℕ → Sys ℚ
  | _, 0 => s
  | t, k + 1 => satRun (reqs s t 1 N).1 N (t + 1000) k

/-- the threshold a request arriving at `now` would be checked against -/
def thresholdAt (s : Sys ℚ) (now : ℕ) : Option (Option ℚ) :=
  match (s.touch now).arr with
  | none => none
  | some a => (threshold (s.touch now) a now).2

/-- "reaches the full threshold after sustained demand for the warm-up period": for every valid warm-up rule
    with `T > 0`, after `period` seconds of saturating demand (more than `T` requests at every second) the
    threshold in force is the configured `T` -/
def reaches_full_threshold_after_period_statement : Prop :=
  ∀ (T : ℚ) (p cf0 t0 N : ℕ), 0 < T → 0 < p → cf0 ≠ 1 → T < N → 0 < t0 →
    thresholdAt (satRun (loadWarmUp ({} : Sys ℚ) t0 T p cf0 2 1000) N t0 p) (t0 + 1000 * p) = some (some T)

/-! ## the recorded findings on the faithful model (region theorems and concrete witnesses) -/

/-- `warmup-nan`, whole region with `maxToken = 0`: whatever the history, every request is admitted -/
theorem nan_admits_everything (T : ℚ) (p cf0 sc Iv t0 : ℕ)
    (hs : Known.degenerateNaN (mkCfg T p cf0) = true) (hm : (mkCfg T p cf0).max = 0) (h : List (ℕ × ℕ)) :
    ∀ d ∈ run (loadWarmUp ({} : Sys ℚ) t0 T p cf0 sc Iv) h, d = true := by
  have hs' : (mkCfg T p cf0).slope = none := by
    unfold Known.degenerateNaN at hs
    cases hsl : (mkCfg T p cf0).slope with
    | none => rfl
    | some v => rw [hsl] at hs; simp at hs
  have hw : (mkCfg T p cf0).warn = 0 := by
    have : (mkCfg T p cf0).warn ≤ (mkCfg T p cf0).max := by simp only [mkCfg]; omega
    omega
  exact nan_run hs' hm hw h _ rfl (le_refl _) (by show (0 : ℤ) ≤ _; positivity)

theorem cfg_1_1_3 : (mkCfg (1 : ℚ) 1 3).warn = 0 ∧ (mkCfg (1 : ℚ) 1 3).max = 0 := by
  simp only [mkCfg, effCf, c_ofNat]
  rw [trunc_eq 0 (by norm_num) (by norm_num) (by norm_num), trunc_eq 0 (by norm_num) (by norm_num) (by norm_num)]
  exact ⟨rfl, rfl⟩

/-- `warmup-nan` witness (`T = 1`, period 1 s, cold factor 3): the threshold is NaN and every request of every
    history is admitted — in particular 50 of 50 within 50 ms -/
theorem nan_unlimited_witness :
    allowed (mkCfg (1 : ℚ) 1 3) 0 = none ∧
    (∀ (t0 : ℕ) (h : List (ℕ × ℕ)), ∀ d ∈ run (loadWarmUp ({} : Sys ℚ) t0 1 1 3 2 1000) h, d = true) ∧
    (∀ t0 : ℕ, (reqs (loadWarmUp ({} : Sys ℚ) t0 1 1 3 2 1000) t0 1 50).2 = 50) := by
  have hnan : Known.degenerateNaN (mkCfg (1 : ℚ) 1 3) = true := by
    have hf : ¬ Known.degenerateNaN (mkCfg (1 : ℚ) 1 3) = false := by
      rw [nondegenerate_iff]; rintro ⟨_, h⟩; rw [cfg_1_1_3.1, cfg_1_1_3.2] at h; omega
    simpa using hf
  have hall := fun t0 h => nan_admits_everything 1 1 3 2 1000 t0 hnan cfg_1_1_3.2 h
  refine ⟨?_, hall, ?_⟩
  · apply allowed_nan
    · unfold Known.degenerateNaN at hnan
      cases hsl : (mkCfg (1 : ℚ) 1 3).slope with
      | none => rfl
      | some v => rw [hsl] at hnan; simp at hnan
    · rw [cfg_1_1_3.1]; rfl
  · intro t0
    rw [reqs_run]
    have : (run (loadWarmUp ({} : Sys ℚ) t0 1 1 3 2 1000) (List.replicate 50 (t0, 1))).filter id
        = run (loadWarmUp ({} : Sys ℚ) t0 1 1 3 2 1000) (List.replicate 50 (t0, 1)) :=
      List.filter_eq_self.2 fun d hd => by rw [hall t0 _ d hd]; rfl
    rw [this]
    have hlen : ∀ (l : List (ℕ × ℕ)) (s : Sys ℚ), (run s l).length = l.length := by
      intro l; induction l with
      | nil => intro s; rfl
      | cons e r ih => intro s; obtain ⟨t, b⟩ := e; simp [run, ih]
    rw [hlen]; simp

theorem starves_iff (c : Cfg ℚ) : Known.starves c = true ↔ c.slope.isSome = true ∧ c.T < c.cf ∧ 0 < c.warn := by
  unfold Known.starves
  simp only [Bool.and_eq_true, decide_eq_true_eq]
  tauto

/-- `warmup-starvation`, whole region: once the first sync has filled the bucket (`Filled`: true of every
    real wall-clock time) no request of any history is ever admitted -/
theorem starved_forever (T : ℚ) (p cf0 sc Iv t0 : ℕ) (hs : Known.starves (mkCfg T p cf0) = true)
    (h : List (ℕ × ℕ)) (hh : ∀ e ∈ h, 1 ≤ e.2 ∧ Filled (mkCfg T p cf0) e.1) :
    ∀ d ∈ run (loadWarmUp ({} : Sys ℚ) t0 T p cf0 sc Iv) h, d = false := by
  obtain ⟨h1, h2, h3⟩ := (starves_iff _).1 hs
  have hnd : Known.degenerateNaN (mkCfg T p cf0) = false := by
    unfold Known.degenerateNaN
    cases hsl : (mkCfg T p cf0).slope with
    | none => rw [hsl] at h1; simp at h1
    | some v => rfl
  exact starve_run (mkCfg_wf T p cf0 hnd) h2 h3 h _ (sinv_load T p cf0 sc Iv t0) hh

theorem cfg_2_10_3 : (mkCfg (2 : ℚ) 10 3).warn = 10 ∧ (mkCfg (2 : ℚ) 10 3).max = 20 := by
  simp only [mkCfg, effCf, c_ofNat]
  rw [trunc_eq 10 (by norm_num) (by norm_num) (by norm_num), trunc_eq 10 (by norm_num) (by norm_num) (by norm_num)]
  exact ⟨rfl, rfl⟩

theorem starves_2_10_3 : Known.starves (mkCfg (2 : ℚ) 10 3) = true := by
  rw [starves_iff]
  have hnd : Known.degenerateNaN (mkCfg (2 : ℚ) 10 3) = false := by
    rw [nondegenerate_iff, cfg_2_10_3.1, cfg_2_10_3.2]; norm_num
  refine ⟨?_, ?_, ?_⟩
  · unfold Known.degenerateNaN at hnd
    cases hsl : (mkCfg (2 : ℚ) 10 3).slope with
    | none => rw [hsl] at hnd; simp at hnd
    | some v => rfl
  · show (2 : ℚ) < ((effCf 3 : ℕ) : ℚ)
    norm_num [effCf]
  · rw [cfg_2_10_3.1]; norm_num

theorem filled_2_10_3 (t : ℕ) (ht : 10000 ≤ t) : Filled (mkCfg (2 : ℚ) 10 3) t := by
  unfold Filled
  rw [cfg_2_10_3.2]
  have h1 : 10000 ≤ t - t % 1000 := by omega
  have h2 : (10000 : ℚ) ≤ ((t - t % 1000 : ℕ) : ℚ) := by exact_mod_cast h1
  show ((20 : ℕ) : ℚ) ≤ ((t - t % 1000 : ℕ) : ℚ) * 2 / 1000
  push_cast at h2 ⊢
  linarith

/-- `warmup-starvation` witness (`T = 2`, period 10 s, cold factor 3): by induction over arbitrary request
    histories, nothing is ever admitted -/
theorem starved_forever_witness (t0 : ℕ) (h : List (ℕ × ℕ)) (hh : ∀ e ∈ h, 1 ≤ e.2 ∧ 10000 ≤ e.1) :
    ∀ d ∈ run (loadWarmUp ({} : Sys ℚ) t0 2 10 3 2 1000) h, d = false :=
  starved_forever 2 10 3 2 1000 t0 starves_2_10_3 h fun e he => ⟨(hh e he).1, filled_2_10_3 e.1 (hh e he).2⟩

/-- the pinned code contradicts `not_starved_forever_statement` -/
theorem not_starved_forever_refuted : ¬ not_starved_forever_statement := by
  intro hst
  obtain ⟨n, hn⟩ := hst 2 10 3 2 1000 10000 (by norm_num) (by norm_num) (by norm_num)
    (fun i => 10000 + 1000 * i) (fun a b hab => by dsimp only; omega) (le_refl _)
  have := starved_forever_witness 10000 _ (fun e he => by
    rw [List.mem_map] at he
    obtain ⟨i, _, rfl⟩ := he
    exact ⟨le_refl _, by dsimp only; omega⟩) true hn
  exact Bool.noConfusion this

theorem satRun_sinv {c : Cfg ℚ} (hwf : WF c) (hT : c.T < c.cf) (hw : 0 < c.warn) {sc Iv : ℕ} (N : ℕ)
    (hF : ∀ t, 10000 ≤ t → Filled c t) (k : ℕ) :
    ∀ (t : ℕ) (s : Sys ℚ), 10000 ≤ t → SInv c sc Iv s → SInv c sc Iv (satRun s N t k) := by
  induction k with
  | zero => intro t s _ inv; exact inv
  | succ k ih =>
    intro t s ht inv
    exact ih (t + 1000) _ (by omega) (starve_reqs hwf hT hw t 1 (le_refl _) (hF t ht) N s inv).2

/-- the pinned code contradicts `reaches_full_threshold_after_period_statement` (same configuration: the
    threshold in force after 10 s of saturating demand is still `2/3`, not `2`) -/
theorem reaches_full_threshold_refuted : ¬ reaches_full_threshold_after_period_statement := by
  intro hst
  have h := hst 2 10 3 10000 3 (by norm_num) (by norm_num) (by norm_num) (by norm_num) (by norm_num)
  obtain ⟨h1, h2, h3⟩ := (starves_iff _).1 starves_2_10_3
  have hnd : Known.degenerateNaN (mkCfg (2 : ℚ) 10 3) = false := by
    rw [nondegenerate_iff, cfg_2_10_3.1, cfg_2_10_3.2]; norm_num
  have hwf := mkCfg_wf 2 10 3 hnd
  have inv := satRun_sinv hwf h2 h3 (sc := 2) (Iv := 1000) 3 filled_2_10_3 10 10000 _ (le_refl _) (sinv_load 2 10 3 2 1000 10000)
  obtain ⟨hr, ⟨a, ha, hnp⟩, htok⟩ := inv
  have htouch : ∀ s : Sys ℚ, s.arr = some a → s.touch (10000 + 1000 * 10) = s := by
    intro s hs; unfold Sys.touch; rw [hs]
  unfold thresholdAt at h
  rw [htouch _ ha, ha] at h
  dsimp only at h
  unfold threshold at h
  rw [hr] at h
  dsimp only at h
  rw [prevQps_zero a hnp, sync_starved hwf h2 h3 _ htok _ (filled_2_10_3 _ (by norm_num)),
    allowed_closed_form hwf, val_at_max hwf] at h
  have : (mkCfg (2 : ℚ) 10 3).T / ((mkCfg (2 : ℚ) 10 3).cf : ℚ) = 2 := by
    simpa using h
  have e : (mkCfg (2 : ℚ) 10 3).T / ((mkCfg (2 : ℚ) 10 3).cf : ℚ) = 2 / 3 := by
    show (2 : ℚ) / ((effCf 3 : ℕ) : ℚ) = 2 / 3
    norm_num [effCf]
  rw [e] at this
  norm_num at this

/-! ## positive partials (outside the classified regions) -/

/-- every request keeps the rule and the token bounds: `0 ≤ storedTokens ≤ maxToken` holds in every state reachable
    from `loadWarmUp` (so the hypotheses of `allowed_ge_T_div_cf` / `not_starved_partial` are invariants) -/
theorem req_tok_bounds {c : Cfg ℚ} {sc Iv : ℕ} {s : Sys ℚ} (hr : s.rule = some (.warmup c, sc, Iv))
    (h0 : 0 ≤ s.tok.tokens) (h1 : s.tok.tokens ≤ c.max) (t b : ℕ) :
    (req s t b).1.rule = some (.warmup c, sc, Iv) ∧ 0 ≤ (req s t b).1.tok.tokens ∧ (req s t b).1.tok.tokens ≤ c.max := by
  obtain ⟨a, ha, hr', htk, _⟩ := touch_arr s t
  have hb := sync_bounds c s.tok t (prevQps a sc Iv t) (prevQps_nonneg a sc Iv t) h0 h1
  have hthr : threshold (s.touch t) a t =
      (sync c s.tok t (prevQps a sc Iv t), some (allowed c (sync c s.tok t (prevQps a sc Iv t)).tokens)) := by
    unfold threshold
    rw [hr', hr]
    dsimp only
    rw [htk]
  unfold req
  simp only [ha, hthr, hr', hr]
  exact ⟨trivial, hb⟩

theorem run_tok_bounds (T : ℚ) (p cf0 sc Iv : ℕ) (h : List (ℕ × ℕ)) :
    ∀ (s : Sys ℚ), s.rule = some (.warmup (mkCfg T p cf0), sc, Iv) → 0 ≤ s.tok.tokens → s.tok.tokens ≤ (mkCfg T p cf0).max →
    let s' := h.foldl (fun s e => (req s e.1 e.2).1) s
    0 ≤ s'.tok.tokens ∧ s'.tok.tokens ≤ (mkCfg T p cf0).max := by
  induction h with
  | nil => intro s _ h0 h1; exact ⟨h0, h1⟩
  | cons e r ih =>
    intro s hr h0 h1
    obtain ⟨k1, k2, k3⟩ := req_tok_bounds hr h0 h1 e.1 e.2
    exact ih _ k1 k2 k3



/-- `not_starved_forever`, partial: outside the `warmup-nan` region and with `T ≥ coldFactor` (the complement
    of `warmup-starvation` among thresholds ≥ 1 is `T ≥ coldFactor`, or `warningToken = 0`), a single-token request
    that finds the statistic window empty is admitted — at every instant of every history (so a steady
    demand is served at least once per window) -/
theorem not_starved_partial (T : ℚ) (p cf0 sc Iv : ℕ) (hnd : Known.degenerateNaN (mkCfg T p cf0) = false)
    (hT : ((effCf cf0 : ℕ) : ℚ) ≤ T) (s : Sys ℚ) (hr : s.rule = some (.warmup (mkCfg T p cf0), sc, Iv))
    (h0 : 0 ≤ s.tok.tokens) (h1 : s.tok.tokens ≤ (mkCfg T p cf0).max) (t : ℕ)
    (hW : ∀ a, (s.touch t).arr = some a → vSum a Iv t .pass = 0) :
    (req s t 1).2 = true := by
  have hwf := mkCfg_wf T p cf0 hnd
  obtain ⟨a, ha, hr', htk, _⟩ := touch_arr s t
  have hb := sync_bounds (mkCfg T p cf0) s.tok t (prevQps a sc Iv t) (prevQps_nonneg a sc Iv t) h0 h1
  have hadm := admits_when_window_empty hwf hT _ hb.2
  unfold req
  simp only [ha]
  unfold threshold
  rw [hr', hr]
  dsimp only
  rw [htk, hW a ha, hadm]
  rfl

/-- cold start after idling, partial (`T ≥ coldFactor`): one sync after a gap long enough to refill, with nothing
    admitted in the previous window, leaves a full bucket — hence threshold exactly `T / coldFactor` —
    unless the bucket sits exactly on the warning line (`warmup-stuck-at-warning`) -/
theorem cold_after_idle_partial (T : ℚ) (p cf0 : ℕ) (hnd : Known.degenerateNaN (mkCfg T p cf0) = false)
    (hT : ((effCf cf0 : ℕ) : ℚ) ≤ T) (tok : Tok) (h0 : 0 ≤ tok.tokens)
    (hne : tok.tokens ≠ (mkCfg T p cf0).warn) (t : ℕ) (hcur : tok.lastFilled < t - t % 1000)
    (hgap : ((mkCfg T p cf0).max : ℚ) - tok.tokens ≤ ((t - t % 1000 - tok.lastFilled : ℕ) : ℚ) * T / 1000) :
    allowed (mkCfg T p cf0) (sync (mkCfg T p cf0) tok t 0).tokens = some (T / (effCf cf0 : ℚ)) := by
  rw [sync_idle_refills (mkCfg_wf T p cf0 hnd) hT tok h0 hne t hcur hgap]
  exact cold_start_eq_T_div_cf T p cf0 hnd

/-- the equality case the code has no branch for: a bucket exactly on the warning line is never refilled
    while idle (`warmup-stuck-at-warning`); the threshold stays at the full `T` however long the idle time -/
theorem stuck_at_warning (c : Cfg ℚ) (hle : c.warn ≤ c.max) (tok : Tok) (h : tok.tokens = c.warn) (t : ℕ) :
    (sync c tok t 0).tokens = c.warn := by
  have hcd : ∀ cur, coolDown c tok cur 0 = c.warn := by
    intro cur
    unfold coolDown
    dsimp only
    rw [h, if_neg (lt_irrefl _), if_neg (lt_irrefl _), if_pos (by exact_mod_cast hle)]
  unfold sync
  dsimp only
  rw [trunc_zero, hcd]
  split_ifs with h1 h2
  · exact h
  · omega
  · simp

/-- `reaches_full_threshold_after_period`, partial (token level): under a per-second demand of which an integral
    number `q_j ≥ 1`, `q_j ≥ ⌊⌊T⌋ / coldFactor⌋` is admitted each second (what a saturating demand yields when
    `T ≥ coldFactor`, by `allowed_ge_T_div_cf`), the bucket reaches the warning line within
    `maxToken - warningToken` seconds — not within `period` seconds, which the flooring of the per-second
    admissions does not guarantee — and the threshold is then the full `T` -/
theorem reaches_full_threshold_partial (T : ℚ) (p cf0 : ℕ) (hnd : Known.degenerateNaN (mkCfg T p cf0) = false)
    (tok : Tok) (ev : ℕ → ℕ × ℕ) (hmax : tok.tokens ≤ (mkCfg T p cf0).max)
    (h0 : tok.lastFilled < (ev 0).1 - (ev 0).1 % 1000)
    (hsec : ∀ j, (ev j).1 - (ev j).1 % 1000 < (ev (j + 1)).1 - (ev (j + 1)).1 % 1000)
    (hq : ∀ j, 1 ≤ (ev j).2 ∧ (Carrier.trunc T).toNat / effCf cf0 ≤ (ev j).2) :
    ∃ j, j ≤ (mkCfg T p cf0).max - (mkCfg T p cf0).warn ∧
      allowed (mkCfg T p cf0) (drainSeq (mkCfg T p cf0) tok ev j).tokens = some T := by
  obtain ⟨j, hj, hle⟩ := drains_to_warning (mkCfg T p cf0) tok ev hmax h0 hsec hq
  refine ⟨j, ?_, warm_eq_T T p cf0 hnd _ hle⟩
  have : (tok.tokens - ((mkCfg T p cf0).warn : ℤ)).toNat ≤ (mkCfg T p cf0).max - (mkCfg T p cf0).warn := by omega
  omega

/-! ## `warmup-late-ramp`: the warm-up period is not long enough -/

theorem tok_eq (a : Tok) (x : ℤ) (y : ℕ) (h1 : a.tokens = x) (h2 : a.lastFilled = y) : a = ⟨x, y⟩ := by
  cases a; simp_all

theorem cfg_2_3_2 : (mkCfg (2 : ℚ) 3 2).warn = 6 ∧ (mkCfg (2 : ℚ) 3 2).max = 10 := by
  simp only [mkCfg, effCf, c_ofNat]
  rw [trunc_eq 6 (by norm_num) (by norm_num) (by norm_num), trunc_eq 4 (by norm_num) (by norm_num) (by norm_num)]
  exact ⟨rfl, rfl⟩

/-- `warmup-late-ramp` witness (`T = 2`, period 3 s, cold factor 2; token level): starting cold and admitting each
    second exactly what the threshold permits (`⌊allowed⌋ = 1`), the threshold in force after the warm-up period
    (fourth sync, second 3) is `8/5`, not yet the configured `2` -/
theorem late_ramp_witness :
    allowed (mkCfg (2 : ℚ) 3 2)
      (drainSeq (mkCfg (2 : ℚ) 3 2) {} (fun j => (10000 + 1000 * j, if j = 0 then 0 else 1)) 4).tokens = some (8 / 5) := by
  have hnd : Known.degenerateNaN (mkCfg (2 : ℚ) 3 2) = false := by
    rw [nondegenerate_iff, cfg_2_3_2.1, cfg_2_3_2.2]; norm_num
  have hwf := mkCfg_wf 2 3 2 hnd
  have hT : (mkCfg (2 : ℚ) 3 2).T = 2 := rfl
  have hcf : (mkCfg (2 : ℚ) 3 2).cf = 2 := rfl
  have hw := cfg_2_3_2.1
  have hm := cfg_2_3_2.2
  have htr : (Carrier.trunc (mkCfg (2 : ℚ) 3 2).T).toNat / (mkCfg (2 : ℚ) 3 2).cf ≤ 1 := by
    rw [hT, hcf, trunc_eq 2 (by norm_num) (by norm_num) (by norm_num)]; decide
  -- second 0: the first sync fills the bucket
  have d1 : sync (mkCfg (2 : ℚ) 3 2) {} 10000 0 = ⟨10, 10000⟩ := by
    apply tok_eq
    · rw [sync_idle_refills hwf (by rw [hT, hcf]; norm_num) {} (le_refl _) (by rw [hw]; decide) 10000 (by decide)
        (by rw [hm, hT]; norm_num), hm]; rfl
    · rw [sync_lastFilled _ _ _ _ (by decide)]
  have step : ∀ (x : ℤ) (l t : ℕ), 6 < x → x ≤ 10 → l < t - t % 1000 →
      sync (mkCfg (2 : ℚ) 3 2) ⟨x, l⟩ t ((1 : ℕ) : ℚ) = ⟨x - 1, t - t % 1000⟩ := by
    intro x l t h1 h2 h3
    apply tok_eq
    · rw [sync_drains _ _ _ 1 h3 (by rw [hw]; exact_mod_cast h1) (by rw [hm]; exact_mod_cast h2) htr]
      show max (x - ((1 : ℕ) : ℤ)) 0 = x - 1
      rw [max_eq_left (by push_cast; omega)]; rfl
    · rw [sync_lastFilled _ _ _ _ h3]
  have e : drainSeq (mkCfg (2 : ℚ) 3 2) {} (fun j => (10000 + 1000 * j, if j = 0 then 0 else 1)) 4 = ⟨7, 13000⟩ := by
    simp only [drainSeq]
    norm_num
    rw [d1]
    have := step 10 10000 11000 (by norm_num) (by norm_num) (by norm_num)
    simp only [Nat.cast_one] at this
    rw [this]
    have := step 9 11000 12000 (by norm_num) (by norm_num) (by norm_num)
    simp only [Nat.cast_one] at this
    norm_num at this ⊢
    rw [this]
    have := step 8 12000 13000 (by norm_num) (by norm_num) (by norm_num)
    simp only [Nat.cast_one] at this
    norm_num at this ⊢
    rw [this]
  rw [e, allowed_closed_form hwf]
  unfold val
  simp only [hw, hm, hT, hcf]
  norm_num


/-! ## reloads: the calculator in force is that of the rule loaded last -/

/-- coherence of a resource state: the controller in force was constructed from the bound rule -/
def Coh (s : Sys ℚ) : Prop :=
  match s.bound with
  | none => True
  | some (.wu T p cf _) => ∃ sc Iv, s.rule = some (.warmup (mkCfg T p cf), sc, Iv)
  | some (.ma m _) => ∃ sc Iv, s.rule = some (.adaptive m, sc, Iv)

theorem effCf_idem (cf : ℕ) : effCf (effCf cf) = effCf cf := by
  unfold effCf; split_ifs <;> omega

theorem mkCfg_norm (T : ℚ) (p cf : ℕ) : mkCfg T p (effCf cf) = mkCfg T p cf := by
  unfold mkCfg; rw [effCf_idem]

theorem coh_init : Coh ({} : Sys ℚ) := trivial

/-- requests never change which rule is in force -/
theorem req_keeps_rule (s : Sys ℚ) (t b : ℕ) : (req s t b).1.rule = s.rule ∧ (req s t b).1.bound = s.bound := by
  obtain ⟨a, ha, hr, _, _⟩ := touch_arr s t
  have hb : (s.touch t).bound = s.bound := by unfold Sys.touch; cases s.arr <;> rfl
  unfold req
  simp only [ha]
  rcases h : threshold (s.touch t) a t with ⟨tk, thr⟩
  exact ⟨hr, hb⟩

theorem req_coh (s : Sys ℚ) (h : Coh s) (t b : ℕ) : Coh (req s t b).1 := by
  obtain ⟨h1, h2⟩ := req_keeps_rule s t b
  unfold Coh at h ⊢
  rw [h1, h2]; exact h

/-- whatever was loaded before, after loading a **valid memory-adaptive rule** `m` (Reject, or Throttling with queueing limit
    `q`) the calculator in force has exactly `m`'s thresholds and water marks and the checker is the requested one — so
    `low_at_or_below_low_mark` … `finite_nonneg` speak about the rule loaded last -/
theorem reload_adaptive_follows_rule (s : Sys ℚ) (h : Coh s) (now : ℕ) (m : MemCfg) (q : Option ℕ) (iv sc Iv : ℕ) :
    (∃ sc' Iv', (loadRule s now (.ma m iv) q true sc Iv).rule = some (.adaptive m, sc', Iv')) ∧
    (loadRule s now (.ma m iv) q true sc Iv).behav = q ∧
    Coh (loadRule s now (.ma m iv) q true sc Iv) := by
  unfold loadRule
  simp only [Bool.not_true, Bool.false_eq_true, if_false]
  cases hb : s.bound with
  | none => cases q <;> exact ⟨⟨sc, Iv, rfl⟩, rfl, ⟨sc, Iv, rfl⟩⟩
  | some b =>
    dsimp only
    by_cases hs : (b.same (.ma m iv) && s.behav == q) = true
    · rw [if_pos hs]
      rw [Bool.and_eq_true] at hs
      obtain ⟨hs1, hs2⟩ := hs
      have hq : s.behav = q := eq_of_beq hs2
      cases b with
      | wu T p cf iv' => simp [RuleP.same] at hs1
      | ma m' iv' =>
        simp only [RuleP.same, Bool.and_eq_true, decide_eq_true_eq] at hs1
        obtain ⟨rfl, _⟩ := hs1
        unfold Coh at h
        rw [hb] at h
        exact ⟨h, hq, by unfold Coh; rw [hb]; exact h⟩
    · rw [if_neg hs]
      cases q <;> exact ⟨⟨sc, Iv, rfl⟩, rfl, ⟨sc, Iv, rfl⟩⟩

/-- after loading a **valid warm-up rule** the calculator in force is `mkCfg T' period coldFactor` with the new period and
    cold factor and a threshold `T'` that is the new one, or (kept controller) within `util.Float64Equals` of it -/
theorem reload_warmup_follows_rule (s : Sys ℚ) (h : Coh s) (now : ℕ) (T : ℚ) (q : Option ℕ) (p cf0 iv sc Iv : ℕ) :
    (∃ T' sc' Iv', (loadRule s now (.wu T p cf0 iv) q true sc Iv).rule = some (.warmup (mkCfg T' p cf0), sc', Iv') ∧
      (T' = T ∨ Carrier.feq T' T = true)) ∧
    (loadRule s now (.wu T p cf0 iv) q true sc Iv).behav = q ∧
    Coh (loadRule s now (.wu T p cf0 iv) q true sc Iv) := by
  have fresh : ∀ s' : Sys ℚ,
      s' = { loadWarmUp s now T p cf0 sc Iv with bound := some (RuleP.wu T p cf0 iv).norm, behav := q, last := 0 } →
      (∃ T' sc' Iv', s'.rule = some (.warmup (mkCfg T' p cf0), sc', Iv') ∧ (T' = T ∨ Carrier.feq T' T = true)) ∧
      s'.behav = q ∧ Coh s' := by
    intro s' hs'
    subst hs'
    refine ⟨⟨T, sc, Iv, rfl, Or.inl rfl⟩, rfl, ?_⟩
    unfold Coh
    exact ⟨sc, Iv, by rw [mkCfg_norm]; rfl⟩
  unfold loadRule
  simp only [Bool.not_true, Bool.false_eq_true, if_false]
  cases hb : s.bound with
  | none => exact fresh _ rfl
  | some b =>
    dsimp only
    by_cases hs : (b.same (.wu T p cf0 iv) && s.behav == q) = true
    · rw [if_pos hs]
      rw [Bool.and_eq_true] at hs
      obtain ⟨hs1, hs2⟩ := hs
      have hq : s.behav = q := eq_of_beq hs2
      cases b with
      | ma m' iv' => simp [RuleP.same] at hs1
      | wu T' p' cf' iv' =>
        simp only [RuleP.same, Bool.and_eq_true, beq_iff_eq] at hs1
        obtain ⟨⟨⟨hT, rfl⟩, rfl⟩, _⟩ := hs1
        unfold Coh at h
        rw [hb] at h
        obtain ⟨sc', Iv', hr⟩ := h
        exact ⟨⟨T', sc', Iv', hr, Or.inr hT⟩, hq, by unfold Coh; rw [hb]; exact ⟨sc', Iv', hr⟩⟩
    · rw [if_neg hs]
      exact fresh _ rfl

/-- an invalid rule leaves the resource without any controller (`ok 0`) -/
theorem reload_invalid_unprotected (s : Sys ℚ) (now : ℕ) (r : RuleP ℚ) (q : Option ℕ) (sc Iv : ℕ) :
    (loadRule s now r q false sc Iv).rule = none ∧ Coh (loadRule s now r q false sc Iv) := by
  unfold loadRule
  exact ⟨rfl, trivial⟩

/-- whatever memory reading a request happens to see (the gauge may be overwritten concurrently between requests), the reject
    checker admits it only if the window stays within `LowMemUsageThreshold`: the soak's cap -/
theorem adaptive_admission_under_cap (m : MemCfg) (total : ℤ) (hv : m.valid total = true) (mem : ℤ) (cur b : ℕ)
    (h : rejects (some (memAllowed m mem : ℚ)) cur b = false) : ((cur + b : ℕ) : ℚ) ≤ m.lowT := by
  unfold rejects at h
  simp only [c_ofNat, c_ltb, decide_eq_false_iff_not, not_lt] at h
  exact le_trans h (finite_nonneg m total hv mem).2.2

/-- under Throttling the checker of a valid memory-adaptive rule never sees a non-positive threshold: a batch within the
    high-memory threshold is never refused outright (`excess`), a batch above the low-memory threshold always is -/
theorem adaptive_throttle_class (m : MemCfg) (total : ℤ) (hv : m.valid total = true) (mem : ℤ) (b statNs : ℕ) (hb : 0 < b) :
    (((b : ℤ) ≤ m.highT) → throttleClass (some (memAllowed m mem : ℚ)) b statNs ≠ .excess) ∧
    ((m.lowT < (b : ℤ)) → throttleClass (some (memAllowed m mem : ℚ)) b statNs = .excess) := by
  obtain ⟨hpos, hlo, hhi⟩ := finite_nonneg m total hv mem
  unfold throttleClass
  simp only [c_ofNat, c_ltb, Nat.cast_zero, hpos, decide_true, Bool.not_true, Bool.false_eq_true, if_false,
    Nat.ne_of_gt hb]
  constructor
  · intro h1
    have : ((b : ℤ) : ℚ) ≤ (m.highT : ℚ) := by exact_mod_cast h1
    have h2 : ¬ ((memAllowed m mem : ℚ) < (b : ℚ)) := by
      push_cast at this
      linarith
    simp [h2]
  · intro h1
    have : ((m.lowT : ℤ) : ℚ) < ((b : ℤ) : ℚ) := by exact_mod_cast h1
    have h2 : (memAllowed m mem : ℚ) < (b : ℚ) := by
      push_cast at this
      linarith
    simp [h2]

/-! ## history level: the executed `req` over the shared leap array (`Sentinel.LA`), tied to the decision log through
the C08 reference theorems (`getSum_eq_ref`, `prevSum_eq_ref`); `Lemmas/WarmUpHist.lean`

`runLog s [] rq` runs the requests `rq = [(time, batch), …]` through `req` and returns the decision log
`(time, batch, admitted)`; `runLog_decisions` says these are the decisions of `run`. `passIn log lo hi` = admitted tokens whose
500 ms bucket start lies in `[lo, hi]`. All statements: fresh resource, rule loaded at `t0 ≥ 1000` ms, default 1 s view. -/
open Sentinel.WU.H

/-- the log speaks about the same decisions as `run` -/
theorem log_is_run (s : Sys ℚ) (rq : List (ℕ × ℕ)) : (runLog s [] rq).2.map (fun e => e.2.2) = run s rq := by
  simpa using runLog_decisions rq s []

/-- **"the admitted rate never exceeds the configured threshold", at history level**: for every non-degenerate warm-up rule and
    every history (any batch sizes, any instants), every window of two consecutive 500 ms buckets — in particular every aligned
    second `[1000k, 1000k+1000)` — holds at most `T`, hence at most `⌊T⌋`, admitted tokens -/
theorem admitted_le_threshold_every_window (T : ℚ) (p cf0 t0 : ℕ) (hnd : Known.degenerateNaN (mkCfg T p cf0) = false)
    (h0 : 1000 ≤ t0) (rq : List (ℕ × ℕ)) (hm : MonoT t0 rq) (w : ℕ) :
    (passIn (runLog (loadWarmUp ({} : Sys ℚ) t0 T p cf0 2 1000) [] rq).2 w (w + 500) : ℚ) ≤ T ∧
    passIn (runLog (loadWarmUp ({} : Sys ℚ) t0 T p cf0 2 1000) [] rq).2 w (w + 500) ≤ ⌊T⌋₊ := by
  have hwf := mkCfg_wf T p cf0 hnd
  have h := winv_run hwf t0 rq _ [] t0 (hinv_load T p cf0 t0 h0)
    (fun w => by simpa [passIn] using le_of_lt hwf.Tpos) hm w
  exact ⟨h, Nat.le_floor h⟩

/-- in the `warmup-nan` region the same window is unbounded (`nan_unlimited_witness`: 50 of 50) — the clause is false there -/
example : Known.degenerateNaN (mkCfg (1 : ℚ) 1 3) = true := by
  have hf : ¬ Known.degenerateNaN (mkCfg (1 : ℚ) 1 3) = false := by
    rw [nondegenerate_iff]; rintro ⟨_, h⟩; rw [cfg_1_1_3.1, cfg_1_1_3.2] at h; omega
  simpa using hf

/-- **not starved, at history level** (`T ≥ coldFactor`, non-degenerate): in every history, every refused single-token request
    was preceded by an admitted request less than 1000 ms earlier -/
theorem not_starved_history (T : ℚ) (p cf0 t0 : ℕ) (hnd : Known.degenerateNaN (mkCfg T p cf0) = false)
    (hT : ((effCf cf0 : ℕ) : ℚ) ≤ T) (h0 : 1000 ≤ t0) (rq : List (ℕ × ℕ)) (hm : MonoT t0 rq) :
    RecentAdm (runLog (loadWarmUp ({} : Sys ℚ) t0 T p cf0 2 1000) [] rq).2 :=
  recent_run (mkCfg_wf T p cf0 hnd) hT t0 rq _ [] t0 (hinv_load T p cf0 t0 h0)
    (fun i hi => by simp at hi) hm

/-- finite form: a single-token request with no admission during the preceding 1000 ms is admitted — so when requests keep arriving
    at least once per second, any two consecutive seconds contain an admission (`N = 2`) -/
theorem not_starved_within_two_seconds (T : ℚ) (p cf0 t0 : ℕ) (hnd : Known.degenerateNaN (mkCfg T p cf0) = false)
    (hT : ((effCf cf0 : ℕ) : ℚ) ≤ T) (h0 : 1000 ≤ t0) (rq : List (ℕ × ℕ)) (hm : MonoT t0 rq)
    (i : ℕ) (hi : i < (runLog (loadWarmUp ({} : Sys ℚ) t0 T p cf0 2 1000) [] rq).2.length)
    (h1 : ((runLog (loadWarmUp ({} : Sys ℚ) t0 T p cf0 2 1000) [] rq).2[i]).2.1 = 1)
    (hquiet : ∀ j, ∀ (hj : j < i), ((runLog (loadWarmUp ({} : Sys ℚ) t0 T p cf0 2 1000) [] rq).2[j]'(by omega)).2.2 = true →
      ((runLog (loadWarmUp ({} : Sys ℚ) t0 T p cf0 2 1000) [] rq).2[j]'(by omega)).1 + 1000 ≤
        ((runLog (loadWarmUp ({} : Sys ℚ) t0 T p cf0 2 1000) [] rq).2[i]).1) :
    ((runLog (loadWarmUp ({} : Sys ℚ) t0 T p cf0 2 1000) [] rq).2[i]).2.2 = true := by
  by_contra hne
  have hf : ((runLog (loadWarmUp ({} : Sys ℚ) t0 T p cf0 2 1000) [] rq).2[i]).2.2 = false := by
    simpa using hne
  obtain ⟨j, hj, k1, k2⟩ := not_starved_history T p cf0 t0 hnd hT h0 rq hm i hi h1 hf
  have := hquiet j hj k1
  omega

/-- **sustained demand drains the bucket, on the executed model** (the bridge from the leap-array reads to
    `reaches_full_threshold_partial`): non-degenerate rule with `T ≥ coldFactor` — i.e. outside `warmup-nan` and `warmup-starvation`;
    `warmup-stuck-at-warning` does not bite under demand, `warmup-late-ramp` is the very bound proved here —, loaded at a second
    boundary `1000·k0`; every second `i` brings more than `T` single-token requests (`⌈T⌉+1` suffice) at arbitrary non-decreasing
    millisecond offsets **within the first half-second bucket** of the second (`SatDemand`). Then the previous-window pass count seen
    by `syncToken` at each second is the number admitted in the previous second, which is `≥ 1` and `≥ ⌊⌊T⌋/cf⌋` (`J.sat`), the bucket
    drains by exactly that amount (`tok_step`), and within `maxToken − warningToken + 1` seconds the stored tokens are at or below the
    warning line, i.e. the threshold in force is the full `T`.  The restriction to first-half offsets is necessary:
    `phase_stall_witness` / `replays/known/C11-warmup-phase-stall.ops` -/
theorem saturating_demand_drains (T : ℚ) (p cf0 k0 : ℕ) (hnd : Known.degenerateNaN (mkCfg T p cf0) = false)
    (hT : ((effCf cf0 : ℕ) : ℚ) ≤ T) (hk0 : 1 ≤ k0) (dem : ℕ → List ℕ) (hd : SatDemand (mkCfg T p cf0) dem) :
    ∃ n, 1 ≤ n ∧ n ≤ (mkCfg T p cf0).max - (mkCfg T p cf0).warn + 1 ∧
      allowed (mkCfg T p cf0)
        (secRun dem k0 n (loadWarmUp ({} : Sys ℚ) (1000 * k0) T p cf0 2 1000, [])).1.tok.tokens = some T := by
  obtain ⟨n, h1, h2, h3⟩ := drains_history (mkCfg_wf T p cf0 hnd) hT (1000 * k0) k0 dem hd _ (j_load T p cf0 k0 hk0)
  exact ⟨n, h1, h2, warm_eq_T T p cf0 hnd _ h3⟩

/-- the statement asked for — offsets anywhere in the second — is **false** on the pinned code (`warmup-phase-stall`), so it is kept
    as a `def`: sustained demand at arbitrary millisecond offsets -/
def saturating_demand_drains_any_offset_statement : Prop :=
  ∀ (T : ℚ) (p cf0 k0 : ℕ), Known.degenerateNaN (mkCfg T p cf0) = false → ((effCf cf0 : ℕ) : ℚ) ≤ T → 1 ≤ k0 →
  ∀ dem : ℕ → List ℕ, (∀ i, T < ((dem i).length : ℚ)) → (∀ i, ∀ o ∈ dem i, o < 1000) → (∀ i, (dem i).Pairwise (· ≤ ·)) →
  ∃ n, 1 ≤ n ∧ n ≤ (mkCfg T p cf0).max - (mkCfg T p cf0).warn + 1 ∧
    allowed (mkCfg T p cf0)
      (secRun dem k0 n (loadWarmUp ({} : Sys ℚ) (1000 * k0) T p cf0 2 1000, [])).1.tok.tokens = some T

/-! ## `warmup-phase-stall`: sustained demand whose phase alternates between the half-second buckets never warms the rule up -/

theorem cfg_10_10_3 : (mkCfg (10 : ℚ) 10 3).warn = 50 ∧ (mkCfg (10 : ℚ) 10 3).max = 100 := by
  simp only [mkCfg, effCf, c_ofNat]
  rw [trunc_eq 50 (by norm_num) (by norm_num) (by norm_num), trunc_eq 50 (by norm_num) (by norm_num) (by norm_num)]
  exact ⟨rfl, rfl⟩

/-- `warmup-phase-stall` witness (`T = 10`, period 10 s, cold factor 3; token level): when the previous-window counts seen by
    `syncToken` alternate between the cold admission `3` and `0` — which is what a demand of 15 requests per second produces when it
    arrives in the second half of odd seconds and the first half of even seconds (replay on the real code) — the bucket oscillates
    between 100 and 97 tokens for ever: every idle-looking sync refills what the previous one drained, and the threshold never
    reaches the configured 10 -/
theorem phase_stall_witness (n : ℕ) :
    (drainSeq (mkCfg (10 : ℚ) 10 3) ⟨100, 9000⟩ (fun j => (10000 + 1000 * j, if j % 2 = 0 then 3 else 0)) n =
      ⟨if n % 2 = 0 then 100 else 97, 9000 + 1000 * n⟩) ∧
    allowed (mkCfg (10 : ℚ) 10 3)
      (drainSeq (mkCfg (10 : ℚ) 10 3) ⟨100, 9000⟩ (fun j => (10000 + 1000 * j, if j % 2 = 0 then 3 else 0)) n).tokens ≠ some 10 := by
  have hnd : Known.degenerateNaN (mkCfg (10 : ℚ) 10 3) = false := by
    rw [nondegenerate_iff, cfg_10_10_3.1, cfg_10_10_3.2]; norm_num
  have hwf := mkCfg_wf 10 10 3 hnd
  have hT : (mkCfg (10 : ℚ) 10 3).T = 10 := rfl
  have hcf : (mkCfg (10 : ℚ) 10 3).cf = 3 := rfl
  have hw := cfg_10_10_3.1
  have hm := cfg_10_10_3.2
  have htr : (Carrier.trunc (mkCfg (10 : ℚ) 10 3).T).toNat / (mkCfg (10 : ℚ) 10 3).cf ≤ 3 := by
    rw [hT, hcf, trunc_eq 10 (by norm_num) (by norm_num) (by norm_num)]; decide
  have key : ∀ n, drainSeq (mkCfg (10 : ℚ) 10 3) ⟨100, 9000⟩ (fun j => (10000 + 1000 * j, if j % 2 = 0 then 3 else 0)) n =
      ⟨if n % 2 = 0 then 100 else 97, 9000 + 1000 * n⟩ := by
    intro n
    induction n with
    | zero => rfl
    | succ n ih =>
      simp only [drainSeq]
      rw [ih]
      have hsec : 10000 + 1000 * n - (10000 + 1000 * n) % 1000 = 10000 + 1000 * n := by omega
      by_cases hpar : n % 2 = 0
      · have h1 : (n + 1) % 2 ≠ 0 := by omega
        rw [if_pos hpar, if_pos hpar, if_neg h1]
        apply tok_eq
        · rw [sync_drains _ _ _ 3 (by rw [hsec]; show 9000 + 1000 * n < _; omega)
            (by rw [hw]; norm_num) (by rw [hm]; norm_num) htr]
          norm_num
        · rw [sync_lastFilled _ _ _ _ (by rw [hsec]; show 9000 + 1000 * n < _; omega), hsec]; ring
      · have h1 : (n + 1) % 2 = 0 := by omega
        rw [if_neg hpar, if_neg hpar, if_pos h1]
        apply tok_eq
        · have := sync_idle_refills hwf (by rw [hT, hcf]; norm_num) ⟨97, 9000 + 1000 * n⟩ (by norm_num)
            (by rw [hw]; norm_num) (10000 + 1000 * n) (by rw [hsec]; show 9000 + 1000 * n < _; omega)
            (by
              rw [hm, hT, hsec]
              have : 10000 + 1000 * n - (9000 + 1000 * n) = 1000 := by omega
              show ((100 : ℕ) : ℚ) - ((97 : ℤ) : ℚ) ≤ ((10000 + 1000 * n - (9000 + 1000 * n) : ℕ) : ℚ) * 10 / 1000
              rw [this]; norm_num)
          simp only [Nat.cast_zero] at this ⊢
          rw [this, hm]; rfl
        · rw [sync_lastFilled _ _ _ _ (by rw [hsec]; show 9000 + 1000 * n < _; omega), hsec]; ring
  refine ⟨key n, ?_⟩
  rw [key n, allowed_closed_form hwf]
  unfold val
  simp only [hw, hm, hT, hcf]
  by_cases hpar : n % 2 = 0
  · rw [if_pos hpar]; norm_num
  · rw [if_neg hpar]; norm_num



/-! ## rules with a statistic of their own (`StatIntervalInMs` not reusable): what the theorems above cover -/

/-- the driver's `reqG` is `req` whenever the rule reads the resource's statistic — the case all history-level theorems are about -/
theorem reqG_eq_req (s : Sys ℚ) (h : s.own = none) (t b : ℕ) : reqG s t b = req s t b := by
  unfold reqG; rw [h]

/-- … and `req` never creates an own statistic -/
theorem req_own (s : Sys ℚ) (t b : ℕ) : (req s t b).1.own = s.own := by
  obtain ⟨a, ha, _, _, _⟩ := touch_arr s t
  have hb : (s.touch t).own = s.own := by unfold Sys.touch; cases s.arr <;> rfl
  unfold req
  simp only [ha]
  rcases h : threshold (s.touch t) a t with ⟨tk, thr⟩
  exact hb

/-- per decision, on the rule's own statistic `o`: a request admitted under a non-degenerate warm-up rule leaves the rule's window
    (as read from `o`) within the configured threshold -/
theorem reqOwn_admits_under_threshold (T : ℚ) (p cf0 sc Iv : ℕ) (hnd : Known.degenerateNaN (mkCfg T p cf0) = false)
    (s : Sys ℚ) (hr : s.rule = some (.warmup (mkCfg T p cf0), sc, Iv)) (o : Arr Bucket) (t b : ℕ)
    (hadm : (reqOwn s o t b).2 = true) : ((vSum o Iv t .pass + b : ℕ) : ℚ) ≤ T := by
  have hwf := mkCfg_wf T p cf0 hnd
  obtain ⟨a, ha, hr', htk, _⟩ := touch_arr s t
  unfold reqOwn at hadm
  simp only [ha] at hadm
  unfold threshold at hadm
  rw [hr', hr] at hadm
  dsimp only at hadm
  rw [allowed_closed_form hwf] at hadm
  unfold rejects at hadm
  simp only [c_ofNat, c_ltb, Bool.not_eq_true', decide_eq_false_iff_not, not_lt] at hadm
  exact le_trans hadm (val_le_T hwf _)


/-! ## every history of the model the driver runs (`Lemmas/WarmUpRun.lean`)

`runOps total ({}, 0) ops` is the driver's `step` over a structured history `ops : List Op` — `clock`, `mem` (any reading), `loadWu` / `loadMa`
with Reject or Throttling (`q`), any view and with or without a statistic of the rule's own (`sa`), i.e. reloads that keep, inherit or
replace controller and statistic (`loadRuleG`), `req n b` (`reqsG`), `probe b` — on the exact carrier. A second, never-deciding rule on the
resource (`companion`) is not an op of the model: the driver ignores it. `RInv` is the invariant of all reachable states. -/
open Sentinel.WU.R

/-- reachable states keep the stored tokens inside the bucket of the rule in force, which is the `mkCfg` of some loaded parameters -/
theorem history_tokens_in_bucket (total : ℤ) (ops : List Op) (c : Cfg ℚ) (sc Iv : ℕ)
    (hr : (runOps total ({}, 0) ops).1.rule = some (.warmup c, sc, Iv)) :
    (∃ T p cf, c = mkCfg T p cf) ∧ 0 ≤ (runOps total ({}, 0) ops).1.tok.tokens ∧ (runOps total ({}, 0) ops).1.tok.tokens ≤ c.max :=
  (runOps_rinv total ops (rinv_init total)).wu c sc Iv hr

/-- **warm-up envelope along every history** (Reject and Throttling, any view, any inherited or own statistic `a`, any instant): outside
    `warmup-nan` the threshold a decision is checked against lies in `[T / coldFactor, T]` -/
theorem history_threshold_envelope_warmup (total : ℤ) (ops : List Op) (a : Arr Bucket) (now : ℕ) (c : Cfg ℚ) (sc Iv : ℕ)
    (hr : (runOps total ({}, 0) ops).1.rule = some (.warmup c, sc, Iv)) (hnd : Known.degenerateNaN c = false) :
    ∃ q, (threshold (runOps total ({}, 0) ops).1 a now).2 = some (some q) ∧ c.T / c.cf ≤ q ∧ q ≤ c.T ∧ 0 < q :=
  threshold_envelope_warmup (runOps_rinv total ops (rinv_init total)) a now c sc Iv hr hnd

/-- **memory-adaptive envelope along every history**: whatever was loaded, reloaded and injected before (readings of `-1`, `0`, negative,
    `2^62`, `MaxInt64` included — `mem` ranges over ℤ), the threshold is `memAllowed` of the rule in force at the current reading and lies in
    `[HighMemUsageThreshold, LowMemUsageThreshold]` -/
theorem history_threshold_envelope_adaptive (total : ℤ) (ops : List Op) (a : Arr Bucket) (now : ℕ) (m : MemCfg) (sc Iv : ℕ)
    (hr : (runOps total ({}, 0) ops).1.rule = some (.adaptive m, sc, Iv)) :
    ∃ q : ℚ, (threshold (runOps total ({}, 0) ops).1 a now).2 = some (some q) ∧ (m.highT : ℚ) ≤ q ∧ q ≤ m.lowT ∧ 0 < q ∧
      q = memAllowed m (runOps total ({}, 0) ops).1.mem :=
  threshold_envelope_adaptive (runOps_rinv total ops (rinv_init total)) a now m sc Iv hr

/-- **admitted tokens never exceed the window's allowed threshold, along every history (Reject, slack 0)**: after any history, a request that
    `reqG` admits leaves the window of the statistic its rule reads (`readArr`: the resource's, an inherited or an own one) within the
    threshold computed for that decision, hence within `T` (non-degenerate warm-up) -/
theorem history_admission_within_threshold_warmup (total : ℤ) (ops : List Op) (t b : ℕ) (ra : Arr Bucket) (c : Cfg ℚ) (sc Iv : ℕ)
    (hr : (runOps total ({}, 0) ops).1.rule = some (.warmup c, sc, Iv)) (hnd : Known.degenerateNaN c = false)
    (hra : readArr (runOps total ({}, 0) ops).1 t = some ra) (hadm : (reqG (runOps total ({}, 0) ops).1 t b).2 = true) :
    ∃ q, (threshold (runOps total ({}, 0) ops).1 ra t).2 = some (some q) ∧ ((vSum ra Iv t .pass + b : ℕ) : ℚ) ≤ q ∧ q ≤ c.T := by
  obtain ⟨q, hq, _, h2, _⟩ := history_threshold_envelope_warmup total ops ra t c sc Iv hr hnd
  exact ⟨q, hq, reqG_admits_within _ t b ra hra _ sc Iv hr q hq hadm, h2⟩

/-- the same for memory-adaptive rules: within the interpolated threshold of the current reading, hence within `LowMemUsageThreshold` -/
theorem history_admission_within_threshold_adaptive (total : ℤ) (ops : List Op) (t b : ℕ) (ra : Arr Bucket) (m : MemCfg) (sc Iv : ℕ)
    (hr : (runOps total ({}, 0) ops).1.rule = some (.adaptive m, sc, Iv))
    (hra : readArr (runOps total ({}, 0) ops).1 t = some ra) (hadm : (reqG (runOps total ({}, 0) ops).1 t b).2 = true) :
    ((vSum ra Iv t .pass + b : ℕ) : ℚ) ≤ memAllowed m (runOps total ({}, 0) ops).1.mem ∧
    ((vSum ra Iv t .pass + b : ℕ) : ℚ) ≤ m.lowT := by
  obtain ⟨q, hq, _, h2, _, h4⟩ := history_threshold_envelope_adaptive total ops ra t m sc Iv hr
  have := reqG_admits_within _ t b ra hra _ sc Iv hr q hq hadm
  exact ⟨by rw [← h4]; exact this, le_trans this h2⟩

/-- **Throttling along every history** (WarmUp × Throttling, MemoryAdaptive × Throttling): a probe that is not blocked was checked against a
    positive threshold inside the envelope that is at least its batch, and a wait never exceeds `MaxQueueingTimeMs` -/
theorem history_throttled_admission (total : ℤ) (ops : List Op) (ns b : ℕ) (hb : 0 < b) (a : Arr Bucket)
    (ha : ((runOps total ({}, 0) ops).1.touch (ns / 1000000)).arr = some a) (cl : Calc ℚ) (sc Iv maxQ : ℕ)
    (hr : (runOps total ({}, 0) ops).1.rule = some (cl, sc, Iv)) (hq : (runOps total ({}, 0) ops).1.behav = some maxQ)
    (hadm : (probe (runOps total ({}, 0) ops).1 ns b).2.1 ≠ .block) :
    (∃ q, (threshold (runOps total ({}, 0) ops).1 (((runOps total ({}, 0) ops).1.touch (ns / 1000000)).own.getD a) (ns / 1000000)).2
        = some (some q) ∧ 0 < q ∧ (b : ℚ) ≤ q ∧
      (∀ c, cl = .warmup c → Known.degenerateNaN c = false → c.T / c.cf ≤ q ∧ q ≤ c.T) ∧
      (∀ m, cl = .adaptive m → (m.highT : ℚ) ≤ q ∧ q ≤ m.lowT)) ∧
    (∀ w, (probe (runOps total ({}, 0) ops).1 ns b).2.1 = .wait w → w ≤ (maxQ : ℤ) * 1000000) := by
  obtain ⟨⟨q, h1, h2, h3⟩, hw⟩ := probe_admitted _ ns b hb a ha cl sc Iv maxQ hr hq hadm
  refine ⟨⟨q, h1, h2, h3, ?_, ?_⟩, hw⟩
  · intro c hc hnd
    subst hc
    obtain ⟨q', e, k1, k2, _⟩ := history_threshold_envelope_warmup total ops
      (((runOps total ({}, 0) ops).1.touch (ns / 1000000)).own.getD a) (ns / 1000000) c sc Iv hr hnd
    rw [h1] at e
    simp only [Option.some.injEq] at e
    subst e
    exact ⟨k1, k2⟩
  · intro m hm
    subst hm
    obtain ⟨q', e, k1, k2, _⟩ := history_threshold_envelope_adaptive total ops
      (((runOps total ({}, 0) ops).1.touch (ns / 1000000)).own.getD a) (ns / 1000000) m sc Iv hr
    rw [h1] at e
    simp only [Option.some.injEq] at e
    subst e
    exact ⟨k1, k2⟩


/-- **window cap along histories with reloads** (default 1 s view, Reject): the warm-up rule of a fresh resource is loaded at `t0` and
    afterwards reloaded any number of times — unchanged (controller and tokens kept) or with other threshold / period / cold factor (fresh,
    cold calculator on the same statistic) — between requests of any batch size at any non-decreasing instants. If every loaded rule is
    non-degenerate with threshold at most `B`, every window of two consecutive 500 ms buckets (every aligned second in particular) holds at
    most `B` admitted tokens. (`B` = the largest threshold in force; a window can straddle a reload that lowers the threshold.) -/
theorem window_cap_with_reloads (B T : ℚ) (p cf iv t0 : ℕ) (hnd : Known.degenerateNaN (mkCfg T p cf) = false) (hTB : T ≤ B)
    (h0 : 1000 ≤ t0) (ops : List DOp) (hm : MonoD t0 ops) (hr : RulesBelow B ops) (w : ℕ) :
    (passIn (runD (loadRuleG ({} : Sys ℚ) t0 (.wu T p cf iv) none true 2 1000 false, []) ops).2 w (w + 500) : ℚ) ≤ B ∧
    passIn (runD (loadRuleG ({} : Sys ℚ) t0 (.wu T p cf iv) none true 2 1000 false, []) ops).2 w (w + 500) ≤ ⌊B⌋₊ := by
  have hwf := mkCfg_wf T p cf hnd
  have d : DInv B t0 (loadRuleG ({} : Sys ℚ) t0 (.wu T p cf iv) none true 2 1000 false, []) t0 := by
    refine ⟨⟨mkCfg T p cf, ⟨rfl, rfl, trivial, by simp, le_refl _, h0, le_refl _, ?_⟩, hwf, hTB⟩, rfl, rfl, ?_⟩
    · show (0 : ℤ) ≤ _; positivity
    · intro w
      have : passIn ([] : Log) w (w + 500) = 0 := by simp [passIn]
      rw [this]
      have hp : (0 : ℚ) < T := hwf.Tpos
      push_cast
      linarith
  have h := dinv_run ops d hm hr w
  exact ⟨h, Nat.le_floor h⟩


/-! ## window cap on a statistic of the rule's own (any geometry `n × L`; `Lemmas/WarmUpOwn.lean`, via C08's `getSum_eq_ref n L`)

`runO n L (s0, []) ops`: after the first load, any history of requests `req t b` (through the driver's `reqG`), memory readings `mem v`
and reloads `reload now r` of the resource's rule (Reject, same `StatIntervalInMs`, so the controller is kept or rebuilt **on the inherited
statistic**); the second component is the list of admitted requests. `passInL L adm lo hi` = admitted tokens whose bucket start (own grid,
bucket length `L`) lies in `[lo, hi]`; `[w, w + n·L − L]` is a window of `n` consecutive buckets = one interval of the rule. -/
open Sentinel.WU.O

/-- the state right after loading a valid rule with a statistic of its own (`n` buckets of length `L`, interval `n·L`) on a fresh resource -/
theorem own_load_state (r : RuleP ℚ) (n L t0 : ℕ) (hn : 0 < n) :
    (loadRuleG ({} : Sys ℚ) t0 r none true n (n * L) true).own = some (LA.mk n L t0) ∧
    (∃ a, (loadRuleG ({} : Sys ℚ) t0 r none true n (n * L) true).arr = some a) ∧
    (loadRuleG ({} : Sys ℚ) t0 r none true n (n * L) true).rule = some (calcOf r, n, n * L) ∧
    (∃ b, (loadRuleG ({} : Sys ℚ) t0 r none true n (n * L) true).bound = some b ∧ b.iv = r.iv) ∧
    (loadRuleG ({} : Sys ℚ) t0 r none true n (n * L) true).behav = none := by
  have e : n * L / n = L := Nat.mul_div_cancel_left L hn
  cases r with
  | wu T p cf iv =>
    refine ⟨?_, ⟨_, rfl⟩, rfl, ⟨_, rfl, rfl⟩, rfl⟩
    show some (LA.mk n (n * L / n) t0) = _
    rw [e]
  | ma m iv =>
    refine ⟨?_, ⟨_, rfl⟩, rfl, ⟨_, rfl, rfl⟩, rfl⟩
    show some (LA.mk n (n * L / n) t0) = _
    rw [e]

theorem own_oinv_init (total : ℤ) (B : ℚ) (r : RuleP ℚ) (n L t0 : ℕ) (hn : 0 < n) (h0 : 0 < t0)
    (hv : ∀ m iv, r = .ma m iv → m.valid total = true) (hB : RuleBelow B (calcOf r)) (hB0 : 0 ≤ B) :
    OInv total B r.iv n L t0 (loadRuleG ({} : Sys ℚ) t0 r none true n (n * L) true, []) t0 := by
  obtain ⟨k1, k2, k3, k4, k5⟩ := own_load_state r n L t0 hn
  have hri : RInv total (loadRuleG ({} : Sys ℚ) t0 r none true n (n * L) true) :=
    loadRuleG_rinv (rinv_init total) _ _ _ _ _ _ _ (fun m iv e _ => hv m iv e)
  refine ⟨k4, k5, hri, ⟨_, k3, hB⟩, ?_, k2, trivial, by simp, le_refl _, h0, ?_⟩
  · rw [k1]; rfl
  · intro w
    have : passInL L ([] : Adm) w (w + n * L - L) = 0 := by simp [passInL]
    rw [this]; simpa using hB0

/-- **window cap on the rule's own statistic, warm-up (Reject), with reloads**: a non-degenerate warm-up rule whose `StatIntervalInMs = n·L`
    cannot reuse the resource's statistic is loaded on a fresh resource at `t0` and owns a `BucketLeapArray(n, n·L)` (one bucket for every
    non-round interval, several for 1500 / 3000 ms). After **any** history of requests (any batch sizes, any non-decreasing instants), memory
    readings and reloads that inherit the statistic — each reloaded rule valid, with the same interval and thresholds at most `B`
    (`ReloadsBelow`: a non-degenerate warm-up rule with `T' ≤ B`, or a memory-adaptive rule with `LowMemUsageThreshold ≤ B`) — every aligned
    window of the rule's interval (`n` consecutive buckets of its own grid) holds at most `B` = the largest threshold loaded, hence `⌊B⌋` tokens -/
theorem own_window_cap_warmup (total : ℤ) (B T : ℚ) (p cf iv n L t0 : ℕ) (hn : 0 < n) (hL : 0 < L) (h0 : 0 < t0)
    (hnd : Known.degenerateNaN (mkCfg T p cf) = false) (hTB : T ≤ B) (ops : List OOp) (hm : MonoO t0 ops)
    (hrb : ReloadsBelow total B iv ops) (w : ℕ) :
    (passInL L (runO n L (loadRuleG ({} : Sys ℚ) t0 (.wu T p cf iv) none true n (n * L) true, []) ops).2 w (w + n * L - L) : ℚ) ≤ B ∧
    passInL L (runO n L (loadRuleG ({} : Sys ℚ) t0 (.wu T p cf iv) none true n (n * L) true, []) ops).2 w (w + n * L - L) ≤ ⌊B⌋₊ := by
  have hT : (0 : ℚ) ≤ B := le_trans (le_of_lt (mkCfg_wf T p cf hnd).Tpos) hTB
  have d := own_oinv_init total B (.wu T p cf iv) n L t0 hn h0 (fun m iv' e => by cases e) ⟨hnd, hTB⟩ hT
  have h := oinv_run hn hL ops d hm hrb w
  exact ⟨h, Nat.le_floor h⟩

/-- **… memory-adaptive (Reject), with reloads**: for a valid rule on its own statistic, whatever memory readings are injected along the
    history (any integers) and whichever rules of the same interval are reloaded with thresholds at most `B ≥ LowMemUsageThreshold`, every
    aligned window of the rule's interval holds at most `B` admitted tokens — each admission was within the interpolated threshold of its
    reading, which lies in `[HighMemUsageThreshold, LowMemUsageThreshold]` (`history_admission_within_threshold_adaptive`) -/
theorem own_window_cap_adaptive (total : ℤ) (B : ℚ) (m : MemCfg) (hv : m.valid total = true) (hB : (m.lowT : ℚ) ≤ B)
    (iv n L t0 : ℕ) (hn : 0 < n) (hL : 0 < L) (h0 : 0 < t0) (ops : List OOp) (hm : MonoO t0 ops)
    (hrb : ReloadsBelow total B iv ops) (w : ℕ) :
    (passInL L (runO n L (loadRuleG ({} : Sys ℚ) t0 (.ma m iv) none true n (n * L) true, []) ops).2 w (w + n * L - L) : ℚ) ≤ B := by
  have hlow : (0 : ℚ) ≤ B := by
    have := ((valid_iff m total).1 hv).1
    have : (0 : ℚ) < m.lowT := by exact_mod_cast this
    linarith
  have d := own_oinv_init total B (.ma m iv) n L t0 hn h0 (fun m' iv' e => by cases e; exact hv) hB hlow
  exact oinv_run hn hL ops d hm hrb w

/-- without reloads the bound is the rule's own threshold (`B := T`, resp. `B := LowMemUsageThreshold`) -/
example (total : ℤ) (T : ℚ) (p cf iv n L t0 : ℕ) (hn : 0 < n) (hL : 0 < L) (h0 : 0 < t0)
    (hnd : Known.degenerateNaN (mkCfg T p cf) = false) (rq : List (ℕ × ℕ)) (w : ℕ)
    (hm : MonoO t0 (rq.map fun e => OOp.req e.1 e.2)) (hrb : ReloadsBelow total T iv (rq.map fun e => OOp.req e.1 e.2)) :
    passInL L (runO n L (loadRuleG ({} : Sys ℚ) t0 (.wu T p cf iv) none true n (n * L) true, []) (rq.map fun e => OOp.req e.1 e.2)).2
      w (w + n * L - L) ≤ ⌊T⌋₊ :=
  (own_window_cap_warmup total T T p cf iv n L t0 hn hL h0 hnd (le_refl _) _ hm hrb w).2

end Sentinel.C11
