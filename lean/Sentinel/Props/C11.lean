import Mathlib.Tactic
import Sentinel.Model.WarmUp
/-! C11 — placeholder while the machinery is being brought up (replaced below) -/
namespace Sentinel.C11
open Sentinel.WU

theorem effCf_ge_two (cf0 : Nat) (h : cf0 ≠ 1) : 2 ≤ effCf cf0 := by
  unfold effCf; split_ifs <;> omega

end Sentinel.C11
