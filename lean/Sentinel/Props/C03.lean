import Sentinel.Lemmas.Breaker
import Sentinel.Lemmas.BreakerReload
/-!
# C03 — Circuit breaker trips, blocks and recovers exactly as specified
(property theorems only; helper lemmas live in `Sentinel/Lemmas/Breaker.lean`)

Reading guide.  `Sentinel.CB` (`Sentinel/Model/Breaker.lean`) is the breaker machine the driver executes
against the implementation: `tryPass` / `onComplete` per breaker, `checkPass` / `rollback` /
`completeAll` over the breakers of a resource, `step` / `run` over histories of `clock`, `entry`, `exit`
ops.  It is generic in the store `W` of the sliding counters; `laOps` is the code-shaped leap array,
`histOps` the bare list of completions counted by filter-and-sum over the last `n` aligned buckets.
`Rule.reached` (the float trip predicate) is a parameter: every theorem holds for every predicate.
Stragglers are ordinary `exit` ops arriving in whatever state the breaker has by then; all theorems
quantify over arbitrary histories, so they are covered.
-/
namespace Sentinel.C03
open Sentinel.LA Sentinel.CB

/-! ## 1. the code-shaped counters are the completions of the last `n` buckets -/

/-- **refines_abstract.**  Starting from the empty rule manager at any clock reading `now0 > 0`, for any
    history of `LoadRules` / `LoadRulesOfResource` (valid rules: `StatIntervalMs > 0`; statistics reused as
    `BuildResourceCircuitBreaker` reuses them), clock readings that never go backwards, entries and exits:
    the machine over the breakers' leap arrays produces exactly the decisions and listener callbacks of the
    machine that keeps, per statistic, only the list of completions since its creation or last clear.  In
    particular every breaker trips over its *own* statistic: the window of a stat-reusing breaker is the
    donor's history continued, and no statistic is ever shared (`build_consumes_once`). -/
theorem refines_abstract (now0 : Nat) (h0 : 0 < now0) (ops : List Op) (ht : Timed now0 ops)
    (hv : ∀ o ∈ ops, ∀ r ∈ o.rules, 0 < r.statI) :
    (run laOps { now := now0 } ops).2 = (run histOps { now := now0 } ops).2 :=
  (run_rel ⟨rfl, h0, rfl, rfl, List.Forall₂.nil⟩ ops ht hv).1

/-- what the abstract store counts: the `total`s (1 per completion) of the completions whose bucket lies
    in the window -/
theorem window_total (L : Nat) (h : List (Nat × Cnt)) (lo hi : Nat) :
    (refW L h lo hi).total = ((h.filter fun e => decide (lo ≤ cbs L e.1 ∧ cbs L e.1 ≤ hi)).map (·.2.total)).sum := by
  unfold refW
  induction h with
  | nil => rfl
  | cons e r ih =>
    simp only [List.map_cons, List.sum_cons, add_total, ih, List.filter_cons]
    by_cases hw : lo ≤ cbs L e.1 ∧ cbs L e.1 ≤ hi
    · simp [hw]
    · simp [hw]

/-- … and the `bad`s (1 per slow / failed completion) -/
theorem window_bad (L : Nat) (h : List (Nat × Cnt)) (lo hi : Nat) :
    (refW L h lo hi).bad = ((h.filter fun e => decide (lo ≤ cbs L e.1 ∧ cbs L e.1 ≤ hi)).map (·.2.bad)).sum := by
  unfold refW
  induction h with
  | nil => rfl
  | cons e r ih =>
    simp only [List.map_cons, List.sum_cons, add_bad, ih, List.filter_cons]
    by_cases hw : lo ≤ cbs L e.1 ∧ cbs L e.1 ≤ hi
    · simp [hw]
    · simp [hw]

/-- the abstract store never fails at a positive clock reading and returns the window sums of the
    history including the completion just recorded -/
theorem abstract_record (r : Rule) (h : List (Nat × Cnt)) (now : Nat) (x : Cnt) (h0 : 0 < now) :
    (histOps r).record h now x =
      some (h ++ [(now, x)], refW r.L (h ++ [(now, x)]) (winLo r.n r.L now) (cbs r.L now)) := by
  have : now ≠ 0 := by omega
  simp [histOps, this]

section breaker
variable {W : Type} (ops : Rule → WinOps W)

/-! ## 2. admission (`TryPass`) -/

theorem closed_admits (b : Brk W) (now : Nat) (hc : b.st = .closed) : tryPass b now = (b, true, [], false) := by
  unfold tryPass; simp [hc]

/-- **open_rejects_until.**  While open and before the deadline the breaker rejects and nothing changes. -/
theorem open_rejects_until (b : Brk W) (now : Nat) (ho : b.st = .opened) (hlt : now < b.nextRetry) :
    tryPass b now = (b, false, [], false) := by
  unfold tryPass; simp [ho, Nat.not_le.mpr hlt]

/-- **one_probe.**  At or after the deadline the next request is admitted as the probe: the breaker goes
    half-open (one `OnTransformToHalfOpen`) and the entry carries the rollback hook. -/
theorem one_probe (b : Brk W) (now : Nat) (ho : b.st = .opened) (hd : b.nextRetry ≤ now) :
    tryPass b now = ({ b with st := .halfOpen }, true, [.toHalfOpen], true) := by
  unfold tryPass; simp [ho, hd]

/-- while half-open nothing changes at admission; further requests are admitted iff `ProbeNum > 0`
    (with `ProbeNum = 0` the probe stays the only admitted request until it completes) -/
theorem halfopen_gate (b : Brk W) (now : Nat) (hh : b.st = .halfOpen) :
    tryPass b now = (b, decide (0 < b.rule.probeNum), [], false) := by
  unfold tryPass; simp [hh]

/-- admission never opens or closes a breaker and never touches deadline, probe counter or counters -/
theorem tryPass_frame (b : Brk W) (now : Nat) :
    (tryPass b now).1.nextRetry = b.nextRetry ∧ (tryPass b now).1.curProbe = b.curProbe ∧ (tryPass b now).1.w = b.w ∧
      ((tryPass b now).1.st = b.st ∨ (b.st = .opened ∧ (tryPass b now).1.st = .halfOpen)) := by
  unfold tryPass
  cases hst : b.st <;> dsimp only
  · exact ⟨rfl, rfl, rfl, Or.inl hst⟩
  · exact ⟨rfl, rfl, rfl, Or.inl hst⟩
  · split_ifs
    · exact ⟨rfl, rfl, rfl, Or.inr ⟨rfl, rfl⟩⟩
    · exact ⟨rfl, rfl, rfl, Or.inl hst⟩

/-! ## 3. completions (`OnRequestComplete`) -/

/-- **opens_iff** (+ **deadline_eq** for Closed→Open).  On a completion while closed the breaker opens
    exactly when the window (including this completion) holds at least `MinRequestAmount` completions and
    the trip predicate holds; then the deadline is a full timeout away and exactly one `OnTransformToOpen`
    (prev = Closed, snapshot = the tripping statistic) is emitted; otherwise it stays closed, silently. -/
theorem opens_iff (b : Brk W) (now rt : Nat) (err : Bool) (w1 : W) (tot : Cnt) (hc : b.st = .closed)
    (hrec : (ops b.rule).record b.w now { bad := if isBad b.rule rt err = true then 1 else 0, total := 1 } = some (w1, tot)) :
    ((onComplete ops b now rt err).1.st = .opened ↔
        (b.rule.minReq ≤ tot.total ∧ b.rule.reached tot.bad tot.total = true)) ∧
    ((onComplete ops b now rt err).1.st = .opened →
        (onComplete ops b now rt err).1.nextRetry = now + b.rule.retryMs ∧
        (onComplete ops b now rt err).2 = [.toOpen .closed (.stat tot.bad tot.total)]) ∧
    ((onComplete ops b now rt err).1.st ≠ .opened →
        (onComplete ops b now rt err).1.st = .closed ∧ (onComplete ops b now rt err).1.nextRetry = b.nextRetry ∧
        (onComplete ops b now rt err).2 = []) ∧
    (onComplete ops b now rt err).1.w = w1 := by
  unfold onComplete
  dsimp only
  rw [hrec]
  simp only [hc]
  split_ifs with h1 h2
  · refine ⟨?_, ?_, ?_, rfl⟩ <;> simp <;> omega
  · refine ⟨?_, ?_, ?_, rfl⟩ <;> simp [h2] <;> omega
  · refine ⟨?_, ?_, ?_, rfl⟩ <;> simp [h2]

/-- a completion arriving while the breaker is open (a straggler) is counted and changes nothing else -/
theorem open_ignores_completion (b : Brk W) (now rt : Nat) (err : Bool) (ho : b.st = .opened) :
    (onComplete ops b now rt err).1.st = .opened ∧ (onComplete ops b now rt err).1.nextRetry = b.nextRetry ∧
      (onComplete ops b now rt err).1.curProbe = b.curProbe ∧ (onComplete ops b now rt err).2 = [] := by
  unfold onComplete
  dsimp only
  cases (ops b.rule).record b.w now { bad := if isBad b.rule rt err = true then 1 else 0, total := 1 } with
  | none => exact ⟨ho, rfl, rfl, rfl⟩
  | some p => simp [ho]

/-- **failed_probe_reopens_full_timeout** (+ **deadline_eq** for HalfOpen→Open). -/
theorem failed_probe_reopens_full_timeout (b : Brk W) (now rt : Nat) (err : Bool) (w1 : W) (tot : Cnt)
    (hh : b.st = .halfOpen) (hbad : isBad b.rule rt err = true)
    (hrec : (ops b.rule).record b.w now { bad := if isBad b.rule rt err = true then 1 else 0, total := 1 } = some (w1, tot)) :
    (onComplete ops b now rt err).1.st = .opened ∧ (onComplete ops b now rt err).1.nextRetry = now + b.rule.retryMs ∧
      (onComplete ops b now rt err).1.curProbe = 0 ∧ (onComplete ops b now rt err).2 = [.toOpen .halfOpen .probe] := by
  unfold onComplete
  dsimp only
  rw [hrec]
  simp [hh, hbad]

/-- **probes_close_and_clear.**  A good completion while half-open counts as a successful probe: when
    `ProbeNum = 0` or the count reaches `ProbeNum` the breaker closes (one `OnTransformToClosed`), the probe
    counter is reset and the statistics are cleared (`reset`); otherwise it stays half-open with the count
    incremented. -/
theorem probes_close_and_clear (b : Brk W) (now rt : Nat) (err : Bool) (w1 : W) (tot : Cnt)
    (hh : b.st = .halfOpen) (hgood : isBad b.rule rt err = false)
    (hrec : (ops b.rule).record b.w now { bad := if isBad b.rule rt err = true then 1 else 0, total := 1 } = some (w1, tot)) :
    ((b.rule.probeNum = 0 ∨ b.rule.probeNum ≤ b.curProbe + 1) →
        (onComplete ops b now rt err).1.st = .closed ∧ (onComplete ops b now rt err).1.curProbe = 0 ∧
        (onComplete ops b now rt err).1.w = (ops b.rule).reset w1 now ∧ (onComplete ops b now rt err).2 = [.toClosed]) ∧
    (¬ (b.rule.probeNum = 0 ∨ b.rule.probeNum ≤ b.curProbe + 1) →
        (onComplete ops b now rt err).1.st = .halfOpen ∧ (onComplete ops b now rt err).1.curProbe = b.curProbe + 1 ∧
        (onComplete ops b now rt err).1.nextRetry = b.nextRetry ∧ (onComplete ops b now rt err).2 = []) := by
  unfold onComplete
  dsimp only
  rw [hrec]
  simp only [hh, hgood]
  constructor
  · intro h; simp [h]
  · intro h; simp [h]

/-- **deadline_eq.**  Whenever a completion makes the breaker emit `OnTransformToOpen` (from Closed or
    from HalfOpen) the breaker is open and its deadline is `now + RetryTimeoutMs`. -/
theorem deadline_eq (b : Brk W) (now rt : Nat) (err : Bool) (p : St) (sn : Snap)
    (hmem : Tr.toOpen p sn ∈ (onComplete ops b now rt err).2) :
    (onComplete ops b now rt err).1.st = .opened ∧ (onComplete ops b now rt err).1.nextRetry = now + b.rule.retryMs := by
  unfold onComplete at hmem ⊢
  dsimp only at hmem ⊢
  cases hr : (ops b.rule).record b.w now { bad := if isBad b.rule rt err = true then 1 else 0, total := 1 } with
  | none => rw [hr] at hmem; simp at hmem
  | some q =>
    rw [hr] at hmem
    dsimp only at hmem ⊢
    cases hst : b.st <;> rw [hst] at hmem <;> dsimp only at hmem ⊢
    · split_ifs at hmem ⊢ <;> simp at hmem ⊢
    · split_ifs at hmem ⊢ <;> simp at hmem ⊢
    · simp at hmem

end breaker

/-- the statistics really are cleared: right after `resetMetric` every window counter of the leap array
    reads zero (later windows then hold only later completions, by `refines_abstract`) -/
theorem reset_clears (a : Arr Cnt) (now : Nat) : laTotal (laReset a now) now = 0 := by
  unfold laTotal laReset valuesAt
  by_cases h0 : now = 0
  · simp [h0]
  · simp only [h0, if_false]
    apply List.sum_eq_zero
    intro x hx
    obtain ⟨s', hs', rfl⟩ := List.mem_map.mp hx
    obtain ⟨hs1, hs2⟩ := List.mem_filter.mp hs'
    obtain ⟨s, _, rfl⟩ := List.mem_map.mp hs1
    split_ifs at hs2 ⊢ with hd
    · simp [hd] at hs2
    · rfl

/-! ## 4. the resource level (`checkPass`, exit hooks) -/

section system
variable {W : Type}

/-- does this breaker admit a request at `now` -/
def admits (b : Brk W) (now : Nat) : Prop :=
  b.st = .closed ∨ (b.st = .opened ∧ b.nextRetry ≤ now) ∨ (b.st = .halfOpen ∧ 0 < b.rule.probeNum)

theorem tryPass_iff (b : Brk W) (now : Nat) : (tryPass b now).2.1 = true ↔ admits b now := by
  unfold tryPass admits
  cases hst : b.st <;> dsimp only
  · simp
  · simp
  · split_ifs with h <;> simp [h]

theorem checkPass_pass_iff (res : String) (now : Nat) (l : List (Brk W)) :
    (checkPass res now l).2.1 = none ↔ ∀ b ∈ l, b.rule.res = res → admits b now := by
  induction l with
  | nil => simp [checkPass]
  | cons b bs ih =>
    simp only [checkPass, List.mem_cons, forall_eq_or_imp]
    by_cases hr0 : b.rule.res = res
    · rw [if_pos hr0]
      by_cases hp : (tryPass b now).2.1 = true
      · rw [if_pos hp]
        dsimp only
        rw [ih]
        exact ⟨fun h => ⟨fun _ => (tryPass_iff b now).mp hp, h⟩, fun h => h.2⟩
      · rw [if_neg hp]
        dsimp only
        constructor
        · intro h; exact absurd h (by simp)
        · intro h; exact absurd ((tryPass_iff b now).mpr (h.1 hr0)) hp
    · rw [if_neg hr0]
      dsimp only
      rw [ih]
      exact ⟨fun h => ⟨fun h' => absurd h' hr0, h⟩, fun h => h.2⟩

/-- **entry_pass_iff.**  A request to a resource is admitted iff every breaker of the resource admits
    it; otherwise it is rejected with a circuit-breaking block naming a breaker. -/
theorem entry_pass_iff (s : Sys W) (id : Nat) (res : String) :
    ((doEntry s id res).2.dec = some none ↔ ∀ b ∈ s.brs, b.rule.res = res → admits b s.now) ∧
    ((doEntry s id res).2.dec = some none ∨ ∃ k, (doEntry s id res).2.dec = some (some k)) := by
  unfold doEntry
  dsimp only
  cases hd : (checkPass res s.now s.brs).2.1 with
  | none =>
    dsimp only
    exact ⟨⟨fun _ => (checkPass_pass_iff res s.now s.brs).mp hd, fun _ => rfl⟩, Or.inl rfl⟩
  | some k =>
    dsimp only
    refine ⟨⟨fun h => by simp at h, fun h => ?_⟩, Or.inr ⟨k, rfl⟩⟩
    have := (checkPass_pass_iff res s.now s.brs).mpr h
    rw [hd] at this
    simp at this

theorem rollback_map_false (l : List (Brk W)) : (rollback (l.map (·, false))).1 = l ∧ (rollback (l.map (·, false))).2 = [] := by
  induction l with
  | nil => exact ⟨rfl, rfl⟩
  | cons b bs ih => simp [rollback, ih.1, ih.2]

theorem rollback_undoes (res : String) (now : Nat) (l : List (Brk W)) (k : Nat)
    (hk : (checkPass res now l).2.1 = some k) : (rollback (checkPass res now l).1).1 = l := by
  induction l with
  | nil => simp [checkPass] at hk
  | cons b bs ih =>
    simp only [checkPass] at hk ⊢
    by_cases hr0 : b.rule.res = res
    · rw [if_pos hr0] at hk ⊢
      by_cases hp : (tryPass b now).2.1 = true
      · rw [if_pos hp] at hk ⊢
        dsimp only at hk ⊢
        simp only [rollback]
        rw [ih hk]
        obtain ⟨id, rule, st, nr, cp, w⟩ := b
        unfold tryPass
        cases st <;> dsimp only
        · simp
        · simp
        · split_ifs <;> simp_all
      · rw [if_neg hp] at hk ⊢
        dsimp only
        simp only [rollback, (rollback_map_false bs).1]
        obtain ⟨id, rule, st, nr, cp, w⟩ := b
        unfold tryPass at hp ⊢
        cases st <;> dsimp only at hp ⊢
        · simp at hp
        · simp
        · split_ifs at hp ⊢ <;> simp at hp ⊢
    · rw [if_neg hr0] at hk ⊢
      dsimp only at hk ⊢
      simp only [rollback]
      rw [ih hk]
      simp

/-- **blocked_entry_preserves_state.**  A rejected request leaves *every* breaker exactly as it was —
    state, deadline, probe counter, counters — although breakers in front of the rejecting one may have
    gone Open→HalfOpen (probe admitted) and back (exit-hook rollback, which neither refreshes the deadline
    nor resets the probe counter).  In particular: while some breaker of the resource is open and before
    its deadline, requests are rejected and nothing changes (`open_blocks_resource`). -/
theorem blocked_entry_preserves_state (s : Sys W) (id : Nat) (res : String) (k : Nat)
    (hb : (doEntry s id res).2.dec = some (some k)) : (doEntry s id res).1 = s := by
  unfold doEntry at hb ⊢
  dsimp only at hb ⊢
  cases hd : (checkPass res s.now s.brs).2.1 with
  | none => rw [hd] at hb; simp at hb
  | some k' =>
    dsimp only
    rw [rollback_undoes res s.now s.brs k' hd]

/-- **open_blocks_resource.**  While a breaker of the resource is open and its deadline has not come,
    every request to the resource is rejected with a circuit-breaking block and nothing changes. -/
theorem open_blocks_resource (s : Sys W) (id : Nat) (res : String) (b : Brk W) (hb : b ∈ s.brs)
    (hres : b.rule.res = res) (ho : b.st = .opened) (hlt : s.now < b.nextRetry) :
    (∃ k, (doEntry s id res).2.dec = some (some k)) ∧ (doEntry s id res).1 = s := by
  have hnot : ¬ (doEntry s id res).2.dec = some none := by
    intro h
    have := (entry_pass_iff s id res).1.mp h b hb hres
    unfold admits at this
    rcases this with h1 | ⟨_, h2⟩ | ⟨h3, _⟩
    · rw [ho] at h1; cases h1
    · omega
    · rw [ho] at h3; cases h3
  rcases (entry_pass_iff s id res).2 with h | ⟨k, hk⟩
  · exact absurd h hnot
  · exact ⟨⟨k, hk⟩, blocked_entry_preserves_state s id res k hk⟩

/-! ## 5. the listener log -/

/-- **listener_log_is_path.**  For any history (reloads included: kept breakers keep their identity, new
    ones get fresh identities and start Closed), replaying the concatenated listener callbacks on a map
    `id ↦ state` that agrees with the breakers at the start never meets an illegal edge (`Closed→Open`,
    `Open→HalfOpen`, `HalfOpen→Open`, `HalfOpen→Closed` are the only edges) and ends in a map that agrees with
    the breakers at the end: the log is exactly the sequence of state changes, each once. -/
theorem listener_log_is_path (ops : Rule → WinOps W) (s : Sys W) (os : List Op) (m : Nat → St) (inv : LogInv m s) :
    ∃ m', replay m ((run ops s os).2.flatMap (·.evs)) = some m' ∧ LogInv m' (run ops s os).1 := by
  induction os generalizing s m with
  | nil => exact ⟨m, rfl, inv⟩
  | cons o os ih =>
    obtain ⟨m1, hm1, inv1⟩ := step_replay ops s o m inv
    obtain ⟨m2, hm2, inv2⟩ := ih (step ops s o).1 m1 inv1
    refine ⟨m2, ?_, inv2⟩
    simp only [run, List.flatMap_cons]
    rw [replay_append, hm1]
    exact hm2

/-- from the empty rule manager the whole log is a legal path from Closed for every breaker ever created,
    and the final map gives the current state of every live breaker -/
theorem listener_log_from_closed (ops : Rule → WinOps W) (now0 : Nat) (os : List Op) :
    ∃ m', replay (fun _ => .closed) ((run ops { now := now0 } os).2.flatMap (·.evs)) = some m' ∧
      Agree m' (run ops { now := now0 } os).1.brs := by
  obtain ⟨m', h1, h2⟩ := listener_log_is_path ops ({ now := now0 } : Sys W) os (fun _ => .closed)
    ⟨List.nodup_nil, (fun _ hb => by cases hb), (fun _ hb => by cases hb), fun _ _ => rfl⟩
  exact ⟨m', h1, h2.ag⟩

/-- **build_consumes_once.**  A (re)load hands every old breaker — kept as it is, or as donor of its
    statistic — to at most one new rule: the consumed identities are pairwise distinct.  (This is the clause
    "removed from the candidates" of `BuildResourceCircuitBreaker`; a change that lets two new breakers
    share one sliding window breaks the correspondence with this model.) -/
theorem build_consumes_once (rules : List Rule) (old : List (Brk W)) (nd : (old.map (·.id)).Nodup) :
    (donorIds rules old).Nodup ∧ ∀ k ∈ donorIds rules old, k ∈ old.map (·.id) := by
  induction rules generalizing old with
  | nil => exact ⟨List.nodup_nil, fun _ h => by cases h⟩
  | cons r rs ih =>
    simp only [donorIds]
    have step : ∀ (i : Nat) (c : Brk W), old[i]? = some c →
        (c.id :: donorIds rs (old.eraseIdx i)).Nodup ∧ ∀ k ∈ c.id :: donorIds rs (old.eraseIdx i), k ∈ old.map (·.id) := by
      intro i c hc
      obtain ⟨h1, h2⟩ := ih (old.eraseIdx i) (nodup_eraseIdx _ nd i)
      refine ⟨List.nodup_cons.mpr ⟨?_, h1⟩, ?_⟩
      · intro hmem
        obtain ⟨b, hb, hbe⟩ := List.mem_map.mp (h2 _ hmem)
        exact mem_eraseIdx_ne (·.id) nd hc hb hbe
      · intro k hk
        rcases List.mem_cons.mp hk with rfl | hk
        · exact List.mem_map_of_mem (getElem?_mem' hc)
        · obtain ⟨b, hb, hbe⟩ := List.mem_map.mp (h2 _ hk)
          exact List.mem_map.mpr ⟨b, List.mem_of_mem_eraseIdx hb, hbe⟩
    rcases reuseIdx r old 0 none with ⟨e, j⟩
    cases e with
    | some i =>
      dsimp only
      cases hc : old[i]? with
      | none => exact ih old nd
      | some c => exact step i c hc
    | none =>
      cases j with
      | none => exact ih old nd
      | some j =>
        dsimp only
        cases hc : old[j]? with
        | none => exact ih old nd
        | some c => exact step j c hc

end system

/-! ## 5a. driven only by completed requests: the batch count of an entry is irrelevant -/

/-- **batch_irrelevant.**  `WithBatchCount(n)` does not reach the breakers: an entry is admitted or
    rejected, and later counted as exactly one completion, whatever its batch count (0 included). -/
theorem batch_irrelevant {W : Type} (ops : Rule → WinOps W) (s : Sys W) (id : Nat) (res : String) (n m : Nat) :
    step ops s (.entry id res n) = step ops s (.entry id res m) := rfl

/-- the same for whole histories: erasing the batch counts changes neither the outputs nor the final state -/
def eraseBatch : Op → Op
  | .entry id res _ => .entry id res 1
  | o => o

theorem run_batch_irrelevant {W : Type} (ops : Rule → WinOps W) (s : Sys W) (os : List Op) :
    run ops s (os.map eraseBatch) = run ops s os := by
  induction os generalizing s with
  | nil => rfl
  | cons o os ih =>
    have h : step ops s (eraseBatch o) = step ops s o := by cases o <;> rfl
    simp only [List.map_cons, run, h, ih]

/-- **clear_ruleless_irrelevant.**  `ClearRulesOfResource(x)` / `LoadRulesOfResource(x, [])` (and, the harness
    dropping invalid rules, `LoadRulesOfResource(x, <only invalid rules>)`) for a resource that owns no breaker
    changes nothing at all: every breaker of every other resource, the live entries and the identities stay as they
    are, so all later decisions and callbacks are the same as without the call. -/
theorem clear_ruleless_irrelevant {W : Type} (ops : Rule → WinOps W) (s : Sys W) (x : String)
    (h : ∀ b ∈ s.brs, b.rule.res ≠ x) : step ops s (.loadRes x []) = (s, {}) := by
  have hf : s.brs.filter (fun b => b.rule.res != x) = s.brs := by
    rw [List.filter_eq_self]
    intro b hb
    simpa using h b hb
  simp only [step, build, List.append_nil, hf, List.length_nil, Nat.add_zero]

/-- clearing any resource removes exactly its breakers and touches no other breaker -/
theorem clear_keeps_others {W : Type} (ops : Rule → WinOps W) (s : Sys W) (x : String) :
    (step ops s (.loadRes x [])).1.brs = s.brs.filter (fun b => b.rule.res != x) := by
  simp only [step, build, List.append_nil]

/-! ## 5b. the probe counter -/

section probes
variable {W : Type}

/-- the probe counter is 0 except while half-open, where it stays below `ProbeNum` -/
def ProbeOk (b : Brk W) : Prop := b.curProbe = 0 ∨ (b.st = .halfOpen ∧ b.curProbe < b.rule.probeNum)

theorem tryPass_probeOk (b : Brk W) (now : Nat) (h : ProbeOk b) : ProbeOk (tryPass b now).1 := by
  unfold tryPass
  cases hst : b.st <;> dsimp only
  · exact h
  · exact h
  · split_ifs
    · rcases h with h | ⟨h, _⟩
      · exact Or.inl h
      · rw [hst] at h; cases h
    · exact h

theorem onComplete_probeOk (ops : Rule → WinOps W) (b : Brk W) (now rt : Nat) (err : Bool) (h : ProbeOk b) :
    ProbeOk (onComplete ops b now rt err).1 := by
  unfold onComplete
  dsimp only
  cases (ops b.rule).record b.w now { bad := if isBad b.rule rt err = true then 1 else 0, total := 1 } with
  | none => exact h
  | some p =>
    dsimp only
    have hcz : b.st ≠ .halfOpen → b.curProbe = 0 := by
      intro hne; rcases h with h | ⟨h, _⟩
      · exact h
      · exact absurd h hne
    cases hst : b.st <;> dsimp only
    · have := hcz (by rw [hst]; simp)
      split_ifs <;> exact Or.inl this
    · split_ifs with h1 h2
      · exact Or.inl rfl
      · exact Or.inl rfl
      · right
        refine ⟨rfl, ?_⟩
        dsimp only
        omega
    · exact Or.inl (hcz (by rw [hst]; simp))

theorem checkPass_probeOk (res : String) (now : Nat) (l : List (Brk W)) (h : ∀ b ∈ l, ProbeOk b) :
    ∀ p ∈ (checkPass res now l).1, ProbeOk p.1 := by
  induction l with
  | nil => intro p hp; simp [checkPass] at hp
  | cons b bs ih =>
    have hb := h b (List.mem_cons_self ..)
    have hbs := fun c hc => h c (List.mem_cons_of_mem _ hc)
    simp only [checkPass]
    by_cases hr0 : b.rule.res = res
    · rw [if_pos hr0]
      by_cases hp : (tryPass b now).2.1 = true
      · rw [if_pos hp]
        intro p hp'
        rcases List.mem_cons.mp hp' with rfl | hp'
        · exact tryPass_probeOk b now hb
        · exact ih hbs p hp'
      · rw [if_neg hp]
        intro p hp'
        rcases List.mem_cons.mp hp' with rfl | hp'
        · exact tryPass_probeOk b now hb
        · obtain ⟨c, hc, rfl⟩ := List.mem_map.mp hp'
          exact hbs c hc
    · rw [if_neg hr0]
      intro p hp'
      rcases List.mem_cons.mp hp' with rfl | hp'
      · exact hb
      · exact ih hbs p hp'

theorem completeAll_probeOk (ops : Rule → WinOps W) (res : String) (now rt : Nat) (err : Bool) (l : List (Brk W))
    (h : ∀ b ∈ l, ProbeOk b) : ∀ b ∈ (completeAll ops res now rt err l).1, ProbeOk b := by
  induction l with
  | nil => intro p hp; simp [completeAll] at hp
  | cons b bs ih =>
    have hb := h b (List.mem_cons_self ..)
    have hbs := fun c hc => h c (List.mem_cons_of_mem _ hc)
    simp only [completeAll]
    split_ifs
    · intro p hp'
      rcases List.mem_cons.mp hp' with rfl | hp'
      · exact onComplete_probeOk ops b now rt err hb
      · exact ih hbs p hp'
    · intro p hp'
      rcases List.mem_cons.mp hp' with rfl | hp'
      · exact hb
      · exact ih hbs p hp'

/-- **probe_counter_invariant.**  Along any history (rollbacks of blocked probes included) the probe
    counter of every breaker is 0 unless it is half-open, where it is the number of successful probes of
    the current phase and below `ProbeNum`.  With `probes_close_and_clear` this gives: a half-open phase
    ends in Closed exactly at its `max 1 ProbeNum`-th successful probe (if no probe fails before). -/
theorem probe_counter_invariant (ops : Rule → WinOps W) (s : Sys W) (os : List Op) (h : ∀ b ∈ s.brs, ProbeOk b) :
    ∀ b ∈ (run ops s os).1.brs, ProbeOk b := by
  induction os generalizing s with
  | nil => exact h
  | cons o os ih =>
    simp only [run]
    apply ih
    cases o with
    | clock t => exact h
    | entry id res batch =>
      rcases (entry_pass_iff s id res).2 with hp | ⟨k, hk⟩
      · simp only [step]
        unfold doEntry at hp ⊢
        dsimp only at hp ⊢
        cases hd : (checkPass res s.now s.brs).2.1 with
        | none =>
          dsimp only
          intro b hb
          obtain ⟨p, hp', rfl⟩ := List.mem_map.mp hb
          exact checkPass_probeOk res s.now s.brs h p hp'
        | some k => rw [hd] at hp; simp at hp
      · simp only [step]
        rw [blocked_entry_preserves_state s id res k hk]
        exact h
    | exit id err =>
      simp only [step, doExit]
      cases hf : s.live.find? (fun x => decide (x.id = id)) with
      | none => exact h
      | some e => exact completeAll_probeOk ops e.res s.now _ err s.brs h
    | load rules =>
      intro b hb
      rcases build_mem ops s.now rules s.brs s.next b hb with hm | ⟨_, _, _, hz⟩
      · exact h b hm
      · exact Or.inl hz
    | loadRes res rules =>
      intro b hb
      rcases List.mem_append.mp hb with hm | hm
      · exact h b (List.mem_filter.mp hm).1
      · rcases build_mem ops s.now rules _ s.next b hm with hm' | ⟨_, _, _, hz⟩
        · exact h b (List.mem_filter.mp hm').1
        · exact Or.inl hz

end probes

/-- a run of good completions on one breaker of the abstract machine -/
def goodRun (b : Brk Hist) : List (Nat × Nat) → Brk Hist
  | [] => b
  | (now, rt) :: cs => goodRun (onComplete histOps b now rt false).1 cs

/-- **good_probes_close.**  From half-open with `c` successful probes so far, `k` further good completions
    keep the breaker half-open with counter `c + k` as long as `c + k < max 1 ProbeNum`, and the one that
    makes `c + k = max 1 ProbeNum` closes it with the probe counter reset and the statistics cleared. -/
theorem good_probes_close (b : Brk Hist) (cs : List (Nat × Nat)) (hh : b.st = .halfOpen)
    (hpos : ∀ c ∈ cs, 0 < c.1) (hgood : ∀ c ∈ cs, isBad b.rule c.2 false = false) :
    (b.curProbe + cs.length < max 1 b.rule.probeNum →
        (goodRun b cs).st = .halfOpen ∧ (goodRun b cs).curProbe = b.curProbe + cs.length) ∧
    (cs ≠ [] → b.curProbe + cs.length = max 1 b.rule.probeNum →
        (goodRun b cs).st = .closed ∧ (goodRun b cs).curProbe = 0 ∧ (goodRun b cs).w = []) := by
  induction cs generalizing b with
  | nil => exact ⟨fun _ => ⟨hh, rfl⟩, fun h => absurd rfl h⟩
  | cons c cs ih =>
    obtain ⟨now, rt⟩ := c
    have h0 : 0 < now := hpos (now, rt) (List.mem_cons_self ..)
    have hg : isBad b.rule rt false = false := hgood (now, rt) (List.mem_cons_self ..)
    have hrec := abstract_record b.rule b.w now { bad := if isBad b.rule rt false = true then 1 else 0, total := 1 } h0
    obtain ⟨hclose, hstay⟩ := probes_close_and_clear histOps b now rt false _ _ hh hg hrec
    have hrule : (onComplete histOps b now rt false).1.rule = b.rule := (onComplete_walk histOps b now rt false).2.1
    simp only [goodRun, List.length_cons]
    by_cases hc : b.rule.probeNum = 0 ∨ b.rule.probeNum ≤ b.curProbe + 1
    · obtain ⟨h1, h2, h3, _⟩ := hclose hc
      constructor
      · intro hlt; exfalso; rcases hc with hc | hc <;> omega
      · intro _ heq
        have hnil : cs = [] := by
          cases cs with
          | nil => rfl
          | cons d ds => exfalso; simp only [List.length_cons] at heq; rcases hc with hc | hc <;> omega
        subst hnil
        simp only [goodRun]
        exact ⟨h1, h2, by rw [h3]; rfl⟩
    · obtain ⟨h1, h2, _, _⟩ := hstay hc
      have ih' := ih (onComplete histOps b now rt false).1 h1
        (fun d hd => hpos d (List.mem_cons_of_mem _ hd))
        (fun d hd => by rw [hrule]; exact hgood d (List.mem_cons_of_mem _ hd))
      rw [h2, hrule] at ih'
      constructor
      · intro hlt
        have := ih'.1 (by omega)
        exact ⟨this.1, by rw [this.2]; omega⟩
      · intro _ heq
        have hne : cs ≠ [] := by
          intro hnil; subst hnil; simp only [List.length_nil] at heq; omega
        exact ih'.2 hne (by omega)


/-! ## 5c. open ⇒ rejected until the deadline, along whole histories -/

section history
variable {W : Type}

/-- breaker `k` of resource `res` is open with deadline `D` -/
def OpenUntil (k : Nat) (res : String) (D : Nat) (l : List (Brk W)) : Prop :=
  ∃ b ∈ l, b.id = k ∧ b.rule.res = res ∧ b.st = .opened ∧ b.nextRetry = D

theorem checkPass_keeps_other (res : String) (now : Nat) (l : List (Brk W)) (b : Brk W) (hb : b ∈ l)
    (hne : b.rule.res ≠ res) : b ∈ (checkPass res now l).1.map (·.1) := by
  induction l with
  | nil => cases hb
  | cons c cs ih =>
    simp only [checkPass]
    rcases List.mem_cons.mp hb with rfl | hb'
    · rw [if_neg hne]; simp
    · by_cases hr0 : c.rule.res = res
      · rw [if_pos hr0]
        by_cases hp : (tryPass c now).2.1 = true
        · rw [if_pos hp]
          simp only [List.map_cons, List.mem_cons]
          exact Or.inr (ih hb')
        · rw [if_neg hp]
          simp only [List.map_cons, List.mem_cons, List.map_map]
          right
          simpa [Function.comp_def] using hb'
      · rw [if_neg hr0]
        simp only [List.map_cons, List.mem_cons]
        exact Or.inr (ih hb')

theorem completeAll_keeps_open (ops : Rule → WinOps W) (res' : String) (now rt : Nat) (err : Bool) (l : List (Brk W))
    (k : Nat) (res : String) (D : Nat) (h : OpenUntil k res D l) :
    OpenUntil k res D (completeAll ops res' now rt err l).1 := by
  obtain ⟨b, hb, h1, h2, h3, h4⟩ := h
  induction l with
  | nil => cases hb
  | cons c cs ih =>
    simp only [completeAll]
    rcases List.mem_cons.mp hb with rfl | hb'
    · split_ifs
      · obtain ⟨e1, e2, _⟩ := onComplete_walk ops b now rt err
        obtain ⟨o1, o2, _, _⟩ := open_ignores_completion ops b now rt err h3
        exact ⟨_, List.mem_cons_self .., by rw [e1]; exact h1, by rw [e2]; exact h2, o1, by rw [o2]; exact h4⟩
      · exact ⟨b, List.mem_cons_self .., h1, h2, h3, h4⟩
    · obtain ⟨b', hb'', r⟩ := ih hb'
      split_ifs
      · exact ⟨b', List.mem_cons_of_mem _ hb'', r⟩
      · exact ⟨b', List.mem_cons_of_mem _ hb'', r⟩

/-- one op before the deadline: the breaker stays open with the same deadline, and an entry to its
    resource is rejected -/
theorem step_keeps_open (ops : Rule → WinOps W) (s : Sys W) (o : Op) (k : Nat) (res : String) (D : Nat)
    (h : OpenUntil k res D s.brs) (hnow : s.now < D) (hno : ∀ rs, o ≠ .load rs ∧ ∀ x, o ≠ .loadRes x rs) :
    OpenUntil k res D (step ops s o).1.brs ∧ (∀ id n, o = .entry id res n → ∃ j, (step ops s o).2.dec = some (some j)) := by
  cases o with
  | clock t => exact ⟨h, fun id n hid => by cases hid⟩
  | entry id res' batch =>
    obtain ⟨b, hb, h1, h2, h3, h4⟩ := h
    simp only [step]
    by_cases hres : res' = res
    · subst hres
      obtain ⟨hblk, hsame⟩ := open_blocks_resource s id res' b hb h2 h3 (by rw [h4]; exact hnow)
      rw [hsame]
      exact ⟨⟨b, hb, h1, h2, h3, h4⟩, fun _ _ _ => hblk⟩
    · refine ⟨?_, fun id' n hid => by cases hid; exact absurd rfl hres⟩
      rcases (entry_pass_iff s id res').2 with hp | ⟨j, hj⟩
      · unfold doEntry at hp ⊢
        dsimp only at hp ⊢
        cases hd : (checkPass res' s.now s.brs).2.1 with
        | none =>
          dsimp only
          exact ⟨b, checkPass_keeps_other res' s.now s.brs b hb (by rw [h2]; exact fun e => hres e.symm), h1, h2, h3, h4⟩
        | some j => rw [hd] at hp; simp at hp
      · rw [blocked_entry_preserves_state s id res' j hj]
        exact ⟨b, hb, h1, h2, h3, h4⟩
  | exit id err =>
    refine ⟨?_, fun id' n hid => by cases hid⟩
    simp only [step, doExit]
    cases hf : s.live.find? (fun x => decide (x.id = id)) with
    | none => exact h
    | some e => exact completeAll_keeps_open ops e.res s.now _ err s.brs k res D h
  | load rules => exact absurd rfl (hno rules).1
  | loadRes x rules => exact absurd rfl ((hno rules).2 x)

/-- **open_rejects_until (history form).**  Once a breaker of a resource is open with deadline `D`, then
    along *any* continuation without rule reloads whose clock readings stay below `D` — requests to this or
    other resources, completions of stragglers with or without errors, probes and rollbacks of other
    breakers — every request to the resource is rejected with a circuit-breaking block, and the breaker is
    still open with the same deadline at the end.  (A reload may of course replace the breaker.) -/
theorem open_rejects_until_history (ops : Rule → WinOps W) (s : Sys W) (os : List Op) (k : Nat) (res : String) (D : Nat)
    (h : OpenUntil k res D s.brs) (hnow : s.now < D) (hclk : ∀ t, Op.clock t ∈ os → t < D)
    (hno : ∀ o ∈ os, ∀ rs, o ≠ .load rs ∧ ∀ x, o ≠ .loadRes x rs) :
    OpenUntil k res D (run ops s os).1.brs ∧
      List.Forall₂ (fun o out => ∀ id n, o = Op.entry id res n → ∃ j, out.dec = some (some j)) os (run ops s os).2 := by
  induction os generalizing s with
  | nil => exact ⟨h, List.Forall₂.nil⟩
  | cons o os ih =>
    have hno' := hno o (List.mem_cons_self ..)
    obtain ⟨h1, h2⟩ := step_keeps_open ops s o k res D h hnow hno'
    have hnow' : (step ops s o).1.now < D := by
      rw [step_now]
      cases o with
      | clock t => exact hclk t (List.mem_cons_self ..)
      | entry id r n => exact hnow
      | exit id e => exact hnow
      | load rules => exact hnow
      | loadRes x rules => exact hnow
    obtain ⟨i1, i2⟩ := ih (step ops s o).1 h1 hnow' (fun t ht => hclk t (List.mem_cons_of_mem _ ht))
      (fun o ho => hno o (List.mem_cons_of_mem _ ho))
    simp only [run]
    exact ⟨i1, List.Forall₂.cons h2 i2⟩

end history

/-! ## 5d. reloads: a kept breaker keeps rejecting, a replaced one admits; trips over an inherited window -/

section reloads
variable {W : Type}

/-- side condition on one op of a continuation: a (re)load that concerns the breaker's resource keeps breaker `k`
    (some rule of the new list picks it as its equal old breaker — `keptIds` follows the real builder) -/
def keepsStep (k : Nat) (res : String) (s : Sys W) : Op → Prop
  | .load rs => k ∈ keptIds rs s.brs
  | .loadRes x rs => x ≠ res ∨ k ∈ keptIds rs (s.brs.filter fun b => b.rule.res == x)
  | _ => True

/-- the side condition along a whole continuation (evaluated on the states the history really reaches) -/
def KeepsAlong (ops : Rule → WinOps W) (k : Nat) (res : String) : Sys W → List Op → Prop
  | _, [] => True
  | s, o :: os => keepsStep k res s o ∧ KeepsAlong ops k res (step ops s o).1 os

/-- a reload that keeps the breaker leaves it open with the same deadline -/
theorem reload_keeps_open (ops : Rule → WinOps W) (s : Sys W) (o : Op) (k : Nat) (res : String) (D : Nat)
    (h : OpenUntil k res D s.brs) (inv : IdInv s) (hk : keepsStep k res s o)
    (hload : (∃ rs, o = .load rs) ∨ ∃ x rs, o = .loadRes x rs) : OpenUntil k res D (step ops s o).1.brs := by
  obtain ⟨b, hb, h1, h2, h3, h4⟩ := h
  rcases hload with ⟨rs, rfl⟩ | ⟨x, rs, rfl⟩
  · obtain ⟨b', hb', hid, hmem⟩ := build_keeps ops s.now rs s.brs s.next k hk
    have : b' = b := List.inj_on_of_nodup_map inv.nd hb' hb (by rw [hid, h1])
    subst this
    exact ⟨b', hmem, h1, h2, h3, h4⟩
  · show OpenUntil k res D (s.brs.filter (fun b => b.rule.res != x) ++ build ops s.now rs (s.brs.filter fun b => b.rule.res == x) s.next)
    rcases hk with hx | hk
    · refine ⟨b, List.mem_append_left _ (List.mem_filter.mpr ⟨hb, ?_⟩), h1, h2, h3, h4⟩
      simp only [bne_iff_ne, ne_eq, h2]
      exact fun e => hx e.symm
    · obtain ⟨b', hb', hid, hmem⟩ := build_keeps ops s.now rs _ s.next k hk
      have : b' = b := List.inj_on_of_nodup_map inv.nd (List.mem_filter.mp hb').1 hb (by rw [hid, h1])
      subst this
      exact ⟨b', List.mem_append_right _ hmem, h1, h2, h3, h4⟩

/-- **open_rejects_until (history form, with reloads).**  Once a breaker of a resource is open with deadline `D`,
    then along *any* continuation whose clock readings stay below `D` — requests to any resource, stragglers,
    probes and rollbacks of other breakers, **and any number of `LoadRules` / `LoadRulesOfResource` calls that
    keep the breaker** (`KeepsAlong`: each reload concerning its resource has a rule that picks it as its equal
    old breaker; reloads of other resources are unconstrained) — every request to the resource is rejected with
    a circuit-breaking block and the breaker is still open with the same deadline at the end. -/
theorem open_rejects_until_reloads (ops : Rule → WinOps W) (s : Sys W) (os : List Op) (k : Nat) (res : String) (D : Nat)
    (h : OpenUntil k res D s.brs) (hnow : s.now < D) (hclk : ∀ t, Op.clock t ∈ os → t < D)
    (inv : IdInv s) (hk : KeepsAlong ops k res s os) :
    OpenUntil k res D (run ops s os).1.brs ∧
      List.Forall₂ (fun o out => ∀ id n, o = Op.entry id res n → ∃ j, out.dec = some (some j)) os (run ops s os).2 := by
  induction os generalizing s with
  | nil => exact ⟨h, List.Forall₂.nil⟩
  | cons o os ih =>
    obtain ⟨hk1, hk2⟩ := hk
    have hstep : OpenUntil k res D (step ops s o).1.brs ∧
        (∀ id n, o = .entry id res n → ∃ j, (step ops s o).2.dec = some (some j)) := by
      cases o with
      | clock t => exact step_keeps_open ops s _ k res D h hnow (fun rs => ⟨by simp, fun x => by simp⟩)
      | entry id r n => exact step_keeps_open ops s _ k res D h hnow (fun rs => ⟨by simp, fun x => by simp⟩)
      | exit id e => exact step_keeps_open ops s _ k res D h hnow (fun rs => ⟨by simp, fun x => by simp⟩)
      | load rs => exact ⟨reload_keeps_open ops s _ k res D h inv hk1 (Or.inl ⟨rs, rfl⟩), fun id n hid => by cases hid⟩
      | loadRes x rs =>
        exact ⟨reload_keeps_open ops s _ k res D h inv hk1 (Or.inr ⟨x, rs, rfl⟩), fun id n hid => by cases hid⟩
    have hnow' : (step ops s o).1.now < D := by
      rw [step_now]
      cases o with
      | clock t => exact hclk t (List.mem_cons_self ..)
      | entry id r n => exact hnow
      | exit id e => exact hnow
      | load rules => exact hnow
      | loadRes x rules => exact hnow
    obtain ⟨i1, i2⟩ := ih (step ops s o).1 hstep.1 hnow' (fun t ht => hclk t (List.mem_cons_of_mem _ ht))
      (step_idInv ops s o inv) hk2
    simp only [run]
    exact ⟨i1, List.Forall₂.cons hstep.2 i2⟩

/-- **reload_replaces_admits** (the complementary, as-is fact; C14 records it for modified rules).  If a reload of
    the resource lists no rule `eqv` to the rule of any of its old breakers, every breaker of the resource afterwards
    is a new, Closed one — so the very next request is admitted, even if an old breaker was Open with its deadline
    still ahead. -/
theorem reload_replaces_admits (ops : Rule → WinOps W) (s : Sys W) (res : String) (rules : List Rule) (o : Op)
    (ho : o = .load rules ∨ o = .loadRes res rules)
    (hne : ∀ c ∈ s.brs, c.rule.res = res → ∀ r ∈ rules, c.rule.eqv r = false) (id : Nat) :
    (∀ b ∈ (step ops s o).1.brs, b.rule.res = res → b.st = .closed) ∧
      (doEntry (step ops s o).1 id res).2.dec = some none := by
  have hall : ∀ b ∈ (step ops s o).1.brs, b.rule.res = res → b.st = .closed := by
    intro b hb hres
    rcases ho with rfl | rfl
    · rcases build_mem_eqv ops s.now rules s.brs s.next b hb with ⟨hold, r, hr, he⟩ | ⟨hc, _⟩
      · rw [hne b hold hres r hr] at he; cases he
      · exact hc
    · have hb' : b ∈ s.brs.filter (fun b => b.rule.res != res) ++
          build ops s.now rules (s.brs.filter fun b => b.rule.res == res) s.next := hb
      rcases List.mem_append.mp hb' with hf | hbuild
      · have := (List.mem_filter.mp hf).2
        simp [hres] at this
      · rcases build_mem_eqv ops s.now rules _ s.next b hbuild with ⟨hold, r, hr, he⟩ | ⟨hc, _⟩
        · rw [hne b (List.mem_filter.mp hold).1 hres r hr] at he; cases he
        · exact hc
  exact ⟨hall, (entry_pass_iff _ id res).1.mpr fun b hb hres => Or.inl (hall b hb hres)⟩

end reloads

/-! ### the trip condition over an inherited window -/

/-- what a completion adds to the counters: `total` 1, `bad` 1 iff slow (resp. failed) -/
def completion (r : Rule) (rt : Nat) (err : Bool) : Cnt := { bad := if isBad r rt err = true then 1 else 0, total := 1 }

/-- counters of rule `r` over a history at `now`: the completions whose bucket lies in the last `n` aligned buckets -/
def windowOf (r : Rule) (h : Hist) (now : Nat) : Cnt := refW r.L h (winLo r.n r.L now) (cbs r.L now)

/-- **trip_iff_window.**  For a breaker whose leap array represents the history `b2.w` (`RelB`: established by
    `LoadRules`, preserved by every op incl. reloads — `run_rel`), a completion while Closed opens it iff the
    completions of `b2.w` plus this one that fall into the last `n` aligned buckets number at least
    `MinRequestAmount` and satisfy the trip predicate: the `refines_abstract` trip clause made explicit. -/
theorem trip_iff_window {now0 : Nat} {b1 : Brk (Arr Cnt)} {b2 : Brk Hist} (rel : RelB now0 b1 b2)
    (now rt : Nat) (err : Bool) (hle : now0 ≤ now) (h0 : 0 < now) (hc : b1.st = .closed) :
    (onComplete laOps b1 now rt err).1.st = .opened ↔
      (b1.rule.minReq ≤ (windowOf b1.rule (b2.w ++ [(now, completion b1.rule rt err)]) now).total ∧
       b1.rule.reached (windowOf b1.rule (b2.w ++ [(now, completion b1.rule rt err)]) now).bad
         (windowOf b1.rule (b2.w ++ [(now, completion b1.rule rt err)]) now).total = true) := by
  unfold windowOf completion
  obtain ⟨a', tot, hr1, hr2, _⟩ := record_refines b1.rule now0 now b1.w b2.w
    { bad := if isBad b1.rule rt err = true then 1 else 0, total := 1 } rel.w hle h0
  have habs := abstract_record b1.rule b2.w now { bad := if isBad b1.rule rt err = true then 1 else 0, total := 1 } h0
  rw [habs] at hr2
  simp only [Option.some.injEq, Prod.mk.injEq, true_and] at hr2
  rw [hr2]
  exact (opens_iff laOps b1 now rt err a' tot hc hr1).1

/-- **inherited_window_trip_iff.**  A breaker generated on the statistic of a stat-reusable predecessor
    (`new…CircuitBreakerWithStat`: exactly the breaker `build` creates, on both machines) trips over the *inherited*
    window: its completions are judged against the donor's completions still inside the last `n` buckets plus its
    own, with the new rule's `MinRequestAmount` and trip predicate. -/
theorem inherited_window_trip_iff {now0 : Nat} {c1 : Brk (Arr Cnt)} {c2 : Brk Hist} (rel : RelB now0 c1 c2)
    (r : Rule) (hsr : c1.rule.statReusable r = true) (id now rt : Nat) (err : Bool) (hle : now0 ≤ now) (h0 : 0 < now) :
    RelB now0 ({ id := id, rule := r, w := c1.w } : Brk (Arr Cnt)) ({ id := id, rule := r, w := c2.w } : Brk Hist) ∧
    ((onComplete laOps ({ id := id, rule := r, w := c1.w } : Brk (Arr Cnt)) now rt err).1.st = .opened ↔
      (r.minReq ≤ (windowOf r (c2.w ++ [(now, completion r rt err)]) now).total ∧
       r.reached (windowOf r (c2.w ++ [(now, completion r rt err)]) now).bad
         (windowOf r (c2.w ++ [(now, completion r rt err)]) now).total = true)) := by
  obtain ⟨g1, g2⟩ := geometry_of_statReusable hsr
  have hw := rel.w
  rw [g1, g2] at hw
  have hrel : RelB now0 ({ id := id, rule := r, w := c1.w } : Brk (Arr Cnt)) ({ id := id, rule := r, w := c2.w } : Brk Hist) :=
    ⟨rfl, rfl, rfl, rfl, rfl, hw⟩
  exact ⟨hrel, trip_iff_window hrel now rt err hle h0 rfl⟩


/-! ## 6. non-vacuity: a concrete history on the code-shaped machine (evaluated by `decide`) -/

/-- error-ratio-like rule: trips when `2·bad ≥ total`, 2 buckets of 500 ms, timeout 100 ms -/
def demoRule (probe : Nat) : Rule :=
  { res := "r", kind := .ratio, retryMs := 100, minReq := 2, statI := 1000, buckets := 2, maxRt := 0,
    probeNum := probe, reached := fun bad total => decide (total ≤ 2 * bad) }

def demoSys (probe : Nat) : Sys (Arr Cnt) := { now := 1000, brs := [Brk.new 0 (demoRule probe) 1000] }

/-- trip, reject, probe after exactly 100 ms, failed probe re-opens, good probe closes -/
example :
    ((run laOps (demoSys 0)
      [.entry 1 "r", .exit 1 true, .entry 2 "r", .exit 2 true,     -- 2 of 2 failed: opens at 1000, deadline 1100
       .clock 1099, .entry 3 "r",                                    -- rejected
       .clock 1100, .entry 4 "r", .entry 5 "r",                      -- probe admitted, second request rejected
       .exit 4 true,                                                 -- failed probe: deadline 1200
       .clock 1199, .entry 6 "r", .clock 1200, .entry 7 "r", .exit 7 false]).2.map fun o => (o.dec, o.evs)) =
    [(some none, []), (none, []), (some none, []), (none, [⟨0, .toOpen .closed (.stat 2 2)⟩]),
     (none, []), (some (some 0), []),
     (none, []), (some none, [⟨0, .toHalfOpen⟩]), (some (some 0), []),
     (none, [⟨0, .toOpen .halfOpen .probe⟩]),
     (none, []), (some (some 0), []), (none, []), (some none, [⟨0, .toHalfOpen⟩]), (none, [⟨0, .toClosed⟩])] := by
  decide

/-- Observation (not part of the statement of C03, recorded in the notes): with `ProbeNum ≥ 1` *every*
    request arriving while the breaker is half-open is admitted, not just `ProbeNum` of them — here
    `ProbeNum = 1` and three requests are in flight in one half-open phase. -/
theorem halfopen_admits_unbounded_witness :
    ((run laOps (demoSys 1)
      [.entry 1 "r", .exit 1 true, .entry 2 "r", .exit 2 true, .clock 1100,
       .entry 3 "r", .entry 4 "r", .entry 5 "r"]).2.map (·.dec)) =
    [some none, none, some none, none, none, some none, some none, some none] := by
  decide

/-- an Open breaker survives an identical reload (and a reload of another resource) and keeps rejecting; a reload with a
    modified rule replaces it by a Closed one and the next request passes (evaluated on the code-shaped machine) -/
example :
    ((run laOps (demoSys 0)
      [.entry 1 "r", .exit 1 true, .entry 2 "r", .exit 2 true,          -- opens at 1000, deadline 1100
       .load [demoRule 0], .entry 3 "r",                                  -- equal rule: breaker 0 kept, still rejecting
       .loadRes "q" [], .clock 1050, .entry 4 "r",
       .loadRes "r" [{ demoRule 0 with minReq := 3 }], .entry 5 "r"]      -- modified rule: new Closed breaker, admitted
      ).2.map (·.dec)) =
    [some none, none, some none, none, none, some (some 0), none, none, some (some 0), none, some none] := by
  decide

end Sentinel.C03
