import Mathlib.Tactic
import Sentinel.Lemmas.LeapArray
import Sentinel.Model.Breaker
/-! # C03 (work in progress) -/
namespace Sentinel.C03
open Sentinel.LA Sentinel.CB

theorem open_rejects_until {W : Type} (b : Brk W) (now : Nat) (ho : b.st = .opened) (hlt : now < b.nextRetry) :
    tryPass b now = (b, false, [], false) := by
  unfold tryPass
  simp [ho, Nat.not_le.mpr hlt]

end Sentinel.C03
