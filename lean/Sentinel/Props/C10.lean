import Mathlib.Tactic
import Sentinel.Model.Throttle
/-!
# C10 — Throttling flow rules pace admitted requests and bound queueing

All statements are about the definitions of `Sentinel/Model/Throttle.lean`, the ones the driver executes
against `core/flow/tc_throttling.go`.

Reading guide.  A sequential history is `h : List (Int × Req)` (arrival time in ns, request class); the class
`Req.norm iv` carries `iv = intervalNs = ⌈batch/threshold · statIntervalNs⌉`, which is a *parameter* here
(`exact_interval` below shows that the exact instance meets the property's literal wording).
`runSeq maxQ last h` returns the final `lastPassedTime` and the results.  `passes h out` lists the admitted
requests that consume capacity as `(pass time, interval)`, pass time = arrival + wait.  `Spaced prev l`:
every pass time is at least the request's own interval after the previous one (`prev` = the one before the first).
No hypothesis on `iv`, `maxQ` or the arrival times is needed for spacing / wait bound / reject-only-if.
-/
namespace Sentinel.C10
open Sentinel.Throttle

/-! ## vocabulary -/

/-- admitted requests with batch > 0 as (pass time, interval), in arrival order -/
def passes : List (Int × Req) → List Res → List (Int × Int)
  | (now, .norm iv) :: h, r :: rs =>
    (match r.passAt now with | some p => [(p, iv)] | none => []) ++ passes h rs
  | _ :: h, _ :: rs => passes h rs
  | _, _ => []

/-- consecutive pass times are separated by at least the later request's interval -/
def Spaced : Int → List (Int × Int) → Prop
  | _, [] => True
  | prev, (p, iv) :: r => prev + iv ≤ p ∧ Spaced p r

/-- the latest pass time (`prev` if nothing was admitted) -/
def latest : Int → List (Int × Int) → Int
  | prev, [] => prev
  | _, (p, _) :: r => latest p r

/-! ## one call -/

theorem doCheck_norm (maxQ last now iv : Int) :
    (last + iv ≤ now ∧ doCheck maxQ last now (.norm iv) = (now, .pass)) ∨
    (¬ last + iv ≤ now ∧ last + iv - now > maxQ ∧ doCheck maxQ last now (.norm iv) = (last, .block)) ∨
    (¬ last + iv ≤ now ∧ ¬ last + iv - now > maxQ ∧
      doCheck maxQ last now (.norm iv) = (last + iv, .wait (last + iv - now))) := by
  unfold doCheck
  by_cases h1 : last + iv ≤ now
  · left; exact ⟨h1, by simp [h1]⟩
  · by_cases h2 : last + iv - now > maxQ
    · right; left; exact ⟨h1, h2, by simp [h1, h2]⟩
    · right; right
      refine ⟨h1, h2, ?_⟩
      have h3 : last + iv - now > 0 := by omega
      simp [h1, h2]

/-! ## histories -/

theorem runSeq_cons (maxQ last now : Int) (r : Req) (h : List (Int × Req)) :
    runSeq maxQ last ((now, r) :: h) =
      ((runSeq maxQ (doCheck maxQ last now r).1 h).1,
       (doCheck maxQ last now r).2 :: (runSeq maxQ (doCheck maxQ last now r).1 h).2) := rfl

theorem runSeq_append (maxQ last : Int) (h1 h2 : List (Int × Req)) :
    runSeq maxQ last (h1 ++ h2) =
      ((runSeq maxQ (runSeq maxQ last h1).1 h2).1, (runSeq maxQ last h1).2 ++ (runSeq maxQ (runSeq maxQ last h1).1 h2).2) := by
  induction h1 generalizing last with
  | nil => simp [runSeq]
  | cons e r ih =>
    obtain ⟨now, q⟩ := e
    simp only [List.cons_append, runSeq_cons, ih, List.cons_append]

theorem runSeq_length (maxQ last : Int) (h : List (Int × Req)) : (runSeq maxQ last h).2.length = h.length := by
  induction h generalizing last with
  | nil => simp [runSeq]
  | cons e r ih => obtain ⟨now, q⟩ := e; simp [runSeq_cons, ih]

/-- **Spacing** (sequential callers, every history, every parameter): the admitted pass times are separated by at least
    the later request's interval, and `lastPassedTime` is always the latest pass time. -/
theorem spacing (maxQ last : Int) (h : List (Int × Req)) :
    Spaced last (passes h (runSeq maxQ last h).2) ∧
    (runSeq maxQ last h).1 = latest last (passes h (runSeq maxQ last h).2) := by
  induction h generalizing last with
  | nil => simp [runSeq, passes, Spaced, latest]
  | cons e r ih =>
    obtain ⟨now, q⟩ := e
    rw [runSeq_cons]
    cases q with
    | zero => simpa [doCheck, passes] using ih last
    | excess => simpa [doCheck, passes] using ih last
    | norm iv =>
      rcases doCheck_norm maxQ last now iv with ⟨h1, he⟩ | ⟨_, _, he⟩ | ⟨h1, _, he⟩
      · rw [he]; simp only [passes, Res.passAt, List.singleton_append, Spaced, latest]
        exact ⟨⟨h1, (ih now).1⟩, (ih now).2⟩
      · rw [he]; simp only [passes, Res.passAt, List.nil_append]
        exact ih last
      · rw [he]; simp only [passes, Res.passAt, List.singleton_append, Spaced, latest]
        have e1 : now + (last + iv - now) = last + iv := by ring
        rw [e1]
        exact ⟨⟨le_refl _, (ih (last + iv)).1⟩, (ih (last + iv)).2⟩

/-- with non-negative intervals the pass times never decrease -/
theorem Spaced.sorted {prev : Int} {l : List (Int × Int)} (h : Spaced prev l) (hiv : ∀ e ∈ l, 0 ≤ e.2) :
    List.Pairwise (· ≤ ·) (prev :: l.map (·.1)) := by
  induction l generalizing prev with
  | nil => simp
  | cons e r ih =>
    obtain ⟨p, iv⟩ := e
    obtain ⟨h1, h2⟩ := h
    have hr := ih h2 (fun e he => hiv e (List.mem_cons_of_mem _ he))
    have h0 : 0 ≤ iv := hiv (p, iv) (List.mem_cons_self ..)
    rw [List.map_cons, List.pairwise_cons]
    refine ⟨?_, hr⟩
    intro x hx
    rw [List.mem_cons] at hx
    rcases hx with rfl | hx
    · omega
    · have := (List.pairwise_cons.mp hr).1 x hx
      omega

/-- **No banked burst**: `k` admitted requests span at least the sum of the intervals of all but the first —
    whatever the state before (`prev` may lie arbitrarily far in the past: an idle gap earns nothing). -/
theorem Spaced.span {prev : Int} {l : List (Int × Int)} (h : Spaced prev l) :
    prev + (l.map (·.2)).sum ≤ latest prev l := by
  induction l generalizing prev with
  | nil => simp [latest]
  | cons e r ih =>
    obtain ⟨p, iv⟩ := e
    obtain ⟨h1, h2⟩ := h
    have := ih h2
    simp only [List.map_cons, List.sum_cons, latest]
    omega

theorem no_banked_burst (maxQ last : Int) (h1 h2 : List (Int × Req)) (p iv : Int) (rest : List (Int × Int))
    (hp : passes h2 (runSeq maxQ (runSeq maxQ last h1).1 h2).2 = (p, iv) :: rest) :
    p + (rest.map (·.2)).sum ≤ latest p rest := by
  have h := (spacing maxQ (runSeq maxQ last h1).1 h2).1
  rw [hp] at h
  exact h.2.span

/-- **Wait bound**: nobody is asked to wait longer than the maximum queueing time (and a `wait` is positive). -/
theorem wait_le_max (maxQ last : Int) (h : List (Int × Req)) (w : Int)
    (hw : Res.wait w ∈ (runSeq maxQ last h).2) : 0 < w ∧ w ≤ maxQ := by
  induction h generalizing last with
  | nil => simp [runSeq] at hw
  | cons e r ih =>
    obtain ⟨now, q⟩ := e
    rw [runSeq_cons, List.mem_cons] at hw
    rcases hw with hw | hw
    · cases q with
      | zero => simp [doCheck] at hw
      | excess => simp [doCheck] at hw
      | norm iv =>
        rcases doCheck_norm maxQ last now iv with ⟨_, he⟩ | ⟨_, _, he⟩ | ⟨h1, h2, he⟩
        · rw [he] at hw; simp at hw
        · rw [he] at hw; simp at hw
        · rw [he] at hw; simp only [Res.wait.injEq] at hw; omega
    · exact ih _ hw

/-- **Reject only if**: the request at position `h1.length` is rejected only when its batch exceeds the threshold /
    the threshold is ≤ 0 (`Req.excess`), or when honouring the spacing after the latest pass time would make it wait
    longer than the limit. -/
theorem reject_only_if (maxQ last now : Int) (q : Req) (h1 h2 : List (Int × Req))
    (hb : (runSeq maxQ last (h1 ++ (now, q) :: h2)).2[h1.length]? = some .block) :
    q = .excess ∨ ∃ iv, q = .norm iv ∧ latest last (passes h1 (runSeq maxQ last h1).2) + iv - now > maxQ := by
  rw [runSeq_append, runSeq_cons] at hb
  simp only at hb
  rw [List.getElem?_append_right (by rw [runSeq_length]), runSeq_length] at hb
  simp only [Nat.sub_self, List.getElem?_cons_zero, Option.some.injEq] at hb
  rw [← (spacing maxQ last h1).2]
  cases q with
  | zero => simp [doCheck] at hb
  | excess => left; rfl
  | norm iv =>
    right
    refine ⟨iv, rfl, ?_⟩
    rcases doCheck_norm maxQ (runSeq maxQ last h1).1 now iv with ⟨_, he⟩ | ⟨_, h2', _⟩ | ⟨_, _, he⟩
    · rw [he] at hb; simp at hb
    · exact h2'
    · rw [he] at hb; simp at hb

/-- …and conversely an admissible request is admitted: the checker never rejects more than the property allows
    nor admits a request that would have to wait longer than the limit. -/
theorem admit_iff (maxQ last now iv : Int) :
    (doCheck maxQ last now (.norm iv)).2 ≠ .block ↔ last + iv - now ≤ maxQ ∨ last + iv ≤ now := by
  rcases doCheck_norm maxQ last now iv with ⟨h1, he⟩ | ⟨h1, h2, he⟩ | ⟨h1, h2, he⟩ <;> rw [he] <;> simp <;> omega

/-- the exact instance of the interval meets the literal wording "at least batch/threshold of the statistic interval" -/
theorem exact_interval (b I : ℕ) (T : ℚ) : (b : ℚ) / T * I ≤ ((⌈(b : ℚ) / T * I⌉ : ℤ) : ℚ) := Int.le_ceil _

/-! ## non-vacuity -/

example : (runSeq 250 1000 [(1000, .norm 100), (1000, .norm 100), (1000, .norm 100), (1400, .norm 100), (1400, .zero), (1400, .excess)]).2
    = [.wait 100, .wait 200, .block, .pass, .pass, .block] := by decide

end Sentinel.C10
