import Sentinel.Lemmas.Throttle
/-!
# C10 — Throttling flow rules pace admitted requests and bound queueing

All statements are about the definitions of `Sentinel/Model/Throttle.lean`, the ones the driver executes
against `core/flow/tc_throttling.go`.

Reading guide.  A sequential history is `h : List (Int × Req)` (arrival time in ns, request class); the class
`Req.norm iv` carries `iv = intervalNs = ⌈batch/threshold · statIntervalNs⌉`, which is a *parameter* here
(`exact_interval` below shows that the exact instance meets the property's literal wording).
`runSeq maxQ last h` returns the final `lastPassedTime` and the results.  `passes h out` lists the admitted
requests that consume capacity as `(pass time, interval)`, pass time = arrival + wait.  `Spaced prev l`:
every pass time is at least the request's own interval after the previous one (`prev` = the one before the first).
No hypothesis on `iv`, `maxQ` or the arrival times is needed for spacing / wait bound / reject-only-if.
(The vocabulary and the helper lemmas are in `Sentinel/Lemmas/Throttle.lean`.)

Schedules.  `Cfg.start maxQ last ws` is the configuration after every worker `(clock reading, request class)` has been
advanced to its first yield hook; `Cfg.runSched c s` executes the schedule `s` (thread ids; finished / unknown ones are
skipped) and then drains round-robin — the semantics of `go/internal/sched`.  Theorems about schedules hold for **any number
of threads and any schedule**.  `Cfg.log` is the ghost record of admissions `(pass time, interval)` in admission order,
`Cfg.rb` / `Cfg.stale` are the classifiers of the two known findings (see `Cfg` in the model file).
-/
namespace Sentinel.C10
open Sentinel.Throttle

/-- **Spacing** (sequential callers, every history, every parameter): the admitted pass times are separated by at least
    the later request's interval, and `lastPassedTime` is always the latest pass time. -/
theorem spacing (maxQ last : Int) (h : List (Int × Req)) :
    Spaced last (passes h (runSeq maxQ last h).2) ∧
    (runSeq maxQ last h).1 = latest last (passes h (runSeq maxQ last h).2) := by
  induction h generalizing last with
  | nil => simp [runSeq, passes, Spaced, latest]
  | cons e r ih =>
    obtain ⟨now, q⟩ := e
    rw [runSeq_cons]
    cases q with
    | zero => simpa [doCheck, passes] using ih last
    | excess => simpa [doCheck, passes] using ih last
    | norm iv =>
      rcases doCheck_norm maxQ last now iv with ⟨h1, he⟩ | ⟨_, _, he⟩ | ⟨h1, _, he⟩
      · rw [he]; simp only [passes, Res.passAt, List.singleton_append, Spaced, latest]
        exact ⟨⟨h1, (ih now).1⟩, (ih now).2⟩
      · rw [he]; simp only [passes, Res.passAt, List.nil_append]
        exact ih last
      · rw [he]; simp only [passes, Res.passAt, List.singleton_append, Spaced, latest]
        have e1 : now + (last + iv - now) = last + iv := by ring
        rw [e1]
        exact ⟨⟨le_refl _, (ih (last + iv)).1⟩, (ih (last + iv)).2⟩

/-- with non-negative intervals the pass times never decrease -/
theorem Spaced.sorted {prev : Int} {l : List (Int × Int)} (h : Spaced prev l) (hiv : ∀ e ∈ l, 0 ≤ e.2) :
    List.Pairwise (· ≤ ·) (prev :: l.map (·.1)) := by
  induction l generalizing prev with
  | nil => simp
  | cons e r ih =>
    obtain ⟨p, iv⟩ := e
    obtain ⟨h1, h2⟩ := h
    have hr := ih h2 (fun e he => hiv e (List.mem_cons_of_mem _ he))
    have h0 : 0 ≤ iv := hiv (p, iv) (List.mem_cons_self ..)
    rw [List.map_cons, List.pairwise_cons]
    refine ⟨?_, hr⟩
    intro x hx
    rw [List.mem_cons] at hx
    rcases hx with rfl | hx
    · omega
    · have := (List.pairwise_cons.mp hr).1 x hx
      omega

/-- …hence *any* two admitted requests (not only consecutive ones) are at least the later one's interval apart -/
theorem Spaced.pairwise {prev : Int} {l : List (Int × Int)} (h : Spaced prev l) (hiv : ∀ e ∈ l, 0 ≤ e.2) :
    List.Pairwise (fun a b => a.1 + b.2 ≤ b.1) ((prev, 0) :: l) := by
  induction l generalizing prev with
  | nil => simp
  | cons e r ih =>
    obtain ⟨p, iv⟩ := e
    obtain ⟨h1, h2⟩ := h
    have hr := ih h2 (fun e he => hiv e (List.mem_cons_of_mem _ he))
    have h0 : 0 ≤ iv := hiv (p, iv) (List.mem_cons_self ..)
    rw [List.pairwise_cons] at hr ⊢
    refine ⟨?_, List.pairwise_cons.mpr hr⟩
    intro b hb
    rw [List.mem_cons] at hb
    rcases hb with rfl | hb
    · exact h1
    · have := hr.1 b hb
      simp only at this ⊢
      omega

/-- **No banked burst**: `k` admitted requests span at least the sum of the intervals of all but the first —
    whatever the state before (`prev` may lie arbitrarily far in the past: an idle gap earns nothing). -/
theorem Spaced.span {prev : Int} {l : List (Int × Int)} (h : Spaced prev l) :
    prev + (l.map (·.2)).sum ≤ latest prev l := by
  induction l generalizing prev with
  | nil => simp [latest]
  | cons e r ih =>
    obtain ⟨p, iv⟩ := e
    obtain ⟨h1, h2⟩ := h
    have := ih h2
    simp only [List.map_cons, List.sum_cons, latest]
    omega

theorem no_banked_burst (maxQ last : Int) (h1 h2 : List (Int × Req)) (p iv : Int) (rest : List (Int × Int))
    (hp : passes h2 (runSeq maxQ (runSeq maxQ last h1).1 h2).2 = (p, iv) :: rest) :
    p + (rest.map (·.2)).sum ≤ latest p rest := by
  have h := (spacing maxQ (runSeq maxQ last h1).1 h2).1
  rw [hp] at h
  exact h.2.span

/-- **Wait bound**: nobody is asked to wait longer than the maximum queueing time (and a `wait` is positive). -/
theorem wait_le_max (maxQ last : Int) (h : List (Int × Req)) (w : Int)
    (hw : Res.wait w ∈ (runSeq maxQ last h).2) : 0 < w ∧ w ≤ maxQ := by
  induction h generalizing last with
  | nil => simp [runSeq] at hw
  | cons e r ih =>
    obtain ⟨now, q⟩ := e
    rw [runSeq_cons, List.mem_cons] at hw
    rcases hw with hw | hw
    · cases q with
      | zero => simp [doCheck] at hw
      | excess => simp [doCheck] at hw
      | norm iv =>
        rcases doCheck_norm maxQ last now iv with ⟨_, he⟩ | ⟨_, _, he⟩ | ⟨h1, h2, he⟩
        · rw [he] at hw; simp at hw
        · rw [he] at hw; simp at hw
        · rw [he] at hw; simp only [Res.wait.injEq] at hw; omega
    · exact ih _ hw

/-- **Reject only if**: the request at position `h1.length` is rejected only when its batch exceeds the threshold /
    the threshold is ≤ 0 (`Req.excess`), or when honouring the spacing after the latest pass time would make it wait
    longer than the limit. -/
theorem reject_only_if (maxQ last now : Int) (q : Req) (h1 h2 : List (Int × Req))
    (hb : (runSeq maxQ last (h1 ++ (now, q) :: h2)).2[h1.length]? = some .block) :
    q = .excess ∨ ∃ iv, q = .norm iv ∧ latest last (passes h1 (runSeq maxQ last h1).2) + iv - now > maxQ := by
  rw [runSeq_append, runSeq_cons] at hb
  simp only at hb
  rw [List.getElem?_append_right (by rw [runSeq_length]), runSeq_length] at hb
  simp only [Nat.sub_self, List.getElem?_cons_zero, Option.some.injEq] at hb
  rw [← (spacing maxQ last h1).2]
  cases q with
  | zero => simp [doCheck] at hb
  | excess => left; rfl
  | norm iv =>
    right
    refine ⟨iv, rfl, ?_⟩
    rcases doCheck_norm maxQ (runSeq maxQ last h1).1 now iv with ⟨_, he⟩ | ⟨_, h2', _⟩ | ⟨_, _, he⟩
    · rw [he] at hb; simp at hb
    · exact h2'
    · rw [he] at hb; simp at hb

/-- …and conversely an admissible request is admitted: the checker never rejects more than the property allows
    nor admits a request that would have to wait longer than the limit. -/
theorem admit_iff (maxQ last now iv : Int) :
    (doCheck maxQ last now (.norm iv)).2 ≠ .block ↔ last + iv - now ≤ maxQ ∨ last + iv ≤ now := by
  rcases doCheck_norm maxQ last now iv with ⟨h1, he⟩ | ⟨h1, h2, he⟩ | ⟨h1, h2, he⟩ <;> rw [he] <;> simp <;> omega

/-- the exact instance of the interval meets the literal wording "at least batch/threshold of the statistic interval" -/
theorem exact_interval (b I : ℕ) (T : ℚ) : (b : ℚ) / T * I ≤ ((⌈(b : ℚ) / T * I⌉ : ℤ) : ℚ) := Int.le_ceil _


/-! ## concurrent callers: any number of threads, any schedule -/

/-- **Wait bound under every schedule**: no caller is ever asked to wait longer than the maximum queueing time. -/
theorem sched_wait_le_max (maxQ last : Int) (ws : List (Int × Req)) (s : List Nat) (w : Int)
    (hw : some (Res.wait w) ∈ ((Cfg.start maxQ last ws).runSched s).results) : 0 < w ∧ w ≤ maxQ := by
  have h0 : AllOk (Cfg.start maxQ last ws) := by
    intro t ht
    simp only [Cfg.start, List.mem_map] at ht
    obtain ⟨e, _, rfl⟩ := ht
    exact thOk_init _ _ _
  have h1 := allOk_runSched _ s h0
  simp only [Cfg.results, List.mem_map] at hw
  obtain ⟨t, ht, he⟩ := hw
  have h2 := h1 t ht
  have hm : ((Cfg.start maxQ last ws).runSched s).maxQ = maxQ := by
    simp [Cfg.runSched, Cfg.round, run_maxQ, Cfg.start]
  rw [hm] at h2
  cases hpc : t.pc with
  | done r =>
    rw [hpc] at he
    simp only [Option.some.injEq] at he
    subst he
    exact h2.2 w hpc
  | _ => rw [hpc] at he; simp at he

/-- **Every call returns**: after the schedule and the round-robin drain every worker has a result (the lock-free code
    has no loop: at most five hooks per call). -/
theorem sched_all_done (maxQ last : Int) (ws : List (Int × Req)) (s : List Nat) :
    ∀ r ∈ ((Cfg.start maxQ last ws).runSched s).results, r ≠ none := by
  intro r hr
  simp only [Cfg.results, List.mem_map] at hr
  obtain ⟨t, ht, rfl⟩ := hr
  have := runSched_all_done _ s t ht
  cases hpc : t.pc <;> simp [Th.isDone, hpc] at this ⊢

/-- the statement C10 makes about schedules (spacing part): the admission log of every run is spaced -/
def sched_spacing_statement : Prop :=
  ∀ (maxQ last : Int) (ws : List (Int × Req)) (s : List Nat),
    Spaced last ((Cfg.start maxQ last ws).runSched s).log

/-- **Spacing under schedules, outside the two classified regions**: if no thread took a step while another one was
    parked before its rollback (`rb`), and no `add` left the timestamp behind its caller's clock (`stale`), then the
    admissions are spaced — in admission order, each pass time at least its own interval after the previous one —
    and the shared timestamp *is* the latest pass time afterwards, i.e. the next round (or the next sequential caller:
    `spacing` starts from any `last`) starts from a consistent state. -/
theorem sched_spacing_partial (maxQ last : Int) (ws : List (Int × Req)) (s : List Nat)
    (hrb : ((Cfg.start maxQ last ws).runSched s).rb = false)
    (hst : ((Cfg.start maxQ last ws).runSched s).stale = false) :
    Spaced last ((Cfg.start maxQ last ws).runSched s).log ∧
    ((Cfg.start maxQ last ws).runSched s).last = latest last ((Cfg.start maxQ last ws).runSched s).log := by
  exact good_final last _ (clean_final maxQ last ws s hrb hst).1 (runSched_all_done _ s)

/-- **Reject only if, under schedules outside the classified regions**: every rejection decided on the shared timestamp
    (`Cfg.rej` records the caller's clock, its interval and the admission log of that moment, a prefix of the final log)
    was decided because honouring the spacing after the latest pass time *of that moment* would have exceeded the limit. -/
theorem sched_reject_only_if_partial (maxQ last : Int) (ws : List (Int × Req)) (s : List Nat)
    (hrb : ((Cfg.start maxQ last ws).runSched s).rb = false)
    (hst : ((Cfg.start maxQ last ws).runSched s).stale = false) :
    ∀ e ∈ ((Cfg.start maxQ last ws).runSched s).rej,
      e.2.2 <+: ((Cfg.start maxQ last ws).runSched s).log ∧ latest last e.2.2 + e.2.1 - e.1 > maxQ := by
  have h := (clean_final maxQ last ws s hrb hst).2
  unfold RejOk at h
  have hm : ((Cfg.start maxQ last ws).runSched s).maxQ = maxQ := by
    simp [Cfg.runSched, Cfg.round, run_maxQ, Cfg.start]
  rw [hm] at h
  exact h

/-- **No banked burst under schedules outside the classified regions**: the admissions of a round span at least the sum
    of their intervals after the previous pass time, however long the timestamp had been idle. -/
theorem sched_no_banked_burst_partial (maxQ last : Int) (ws : List (Int × Req)) (s : List Nat)
    (hrb : ((Cfg.start maxQ last ws).runSched s).rb = false)
    (hst : ((Cfg.start maxQ last ws).runSched s).stale = false) :
    last + (((Cfg.start maxQ last ws).runSched s).log.map (·.2)).sum ≤ ((Cfg.start maxQ last ws).runSched s).last := by
  exact span_of_final last ((Cfg.start maxQ last ws).runSched s) (sched_spacing_partial maxQ last ws s hrb hst)

/-- every admitted caller that consumes capacity (interval ≠ 0) is recorded in the admission log -/
theorem sched_logged (maxQ last : Int) (ws : List (Int × Req)) (s : List Nat) :
    ∀ t ∈ ((Cfg.start maxQ last ws).runSched s).ths, ∀ e, t.passOf = some e →
      e ∈ ((Cfg.start maxQ last ws).runSched s).log ∨ e.2 = 0 := by
  have h0 : Logged (Cfg.start maxQ last ws) := by
    intro t ht e he
    simp only [Cfg.start, List.mem_map] at ht
    obtain ⟨⟨now, q⟩, _, rfl⟩ := ht
    cases q <;> simp [Th.init, Th.passOf, Res.passAt] at he
    right; rw [← he]
  unfold Cfg.runSched Cfg.round
  exact logged_run _ _ (logged_run _ _ (logged_run _ _ (logged_run _ _ (logged_run _ _ (logged_run _ _ h0)))))

/-- a caller that runs alone is the big-step `doCheck` (the sequential theorems and the schedule theorems talk about
    the same code) -/
theorem solo_eq_doCheck (maxQ last now : Int) (q : Req) :
    ((Cfg.start maxQ last [(now, q)]).runSched []).last = (doCheck maxQ last now q).1 ∧
    ((Cfg.start maxQ last [(now, q)]).runSched []).results = [some (doCheck maxQ last now q).2] := by
  cases q with
  | zero => simp [Cfg.start, Cfg.runSched, Cfg.round, Cfg.run, Cfg.sched, Th.init, Th.isDone, Cfg.results, doCheck, List.range, List.range.loop]
  | excess => simp [Cfg.start, Cfg.runSched, Cfg.round, Cfg.run, Cfg.sched, Th.init, Th.isDone, Cfg.results, doCheck, List.range, List.range.loop]
  | norm iv =>
    rcases doCheck_norm maxQ last now iv with ⟨h1, he⟩ | ⟨h1, h2, he⟩ | ⟨h1, h2, he⟩ <;> rw [he]
    · simp [Cfg.start, Cfg.runSched, Cfg.round, Cfg.run, Cfg.sched, Th.init, Th.isDone, Th.isRb, Cfg.results, stepTh, List.range, List.range.loop, h1]
    · simp [Cfg.start, Cfg.runSched, Cfg.round, Cfg.run, Cfg.sched, Th.init, Th.isDone, Th.isRb, Cfg.results, stepTh, List.range, List.range.loop, h1, h2]
    · have h3 : ¬ now < last + iv - maxQ := by omega
      have h4 : last + iv - now > 0 := by omega
      simp [Cfg.start, Cfg.runSched, Cfg.round, Cfg.run, Cfg.sched, Th.init, Th.isDone, Th.isRb, Cfg.results, stepTh, List.range, List.range.loop, h1, h2]

/-- …and a caller that runs alone is never inside a classified region -/
theorem solo_clean (maxQ last now : Int) (q : Req) :
    ((Cfg.start maxQ last [(now, q)]).runSched []).rb = false ∧
    ((Cfg.start maxQ last [(now, q)]).runSched []).stale = false := by
  cases q with
  | zero => simp [Cfg.start, Cfg.runSched, Cfg.round, Cfg.run, Cfg.sched, Th.init, Th.isDone, List.range, List.range.loop]
  | excess => simp [Cfg.start, Cfg.runSched, Cfg.round, Cfg.run, Cfg.sched, Th.init, Th.isDone, List.range, List.range.loop]
  | norm iv =>
    by_cases h1 : last + iv ≤ now
    · simp [Cfg.start, Cfg.runSched, Cfg.round, Cfg.run, Cfg.sched, Th.init, Th.isDone, Th.isRb, rbCount, stepTh, List.range, List.range.loop, h1]
    · by_cases h2 : last + iv - now > maxQ
      · simp [Cfg.start, Cfg.runSched, Cfg.round, Cfg.run, Cfg.sched, Th.init, Th.isDone, Th.isRb, rbCount, stepTh, List.range, List.range.loop, h1, h2]
      · have h3 : ¬ last + iv < now := by omega
        simp [Cfg.start, Cfg.runSched, Cfg.round, Cfg.run, Cfg.sched, Th.init, Th.isDone, Th.isRb, rbCount, stepTh, List.range, List.range.loop, h1, h2, h3]

/-! ## several rules on one resource; reloading -/

/-- what C10 demands of one walk over the rules `(maxQ, lastPassedTime, class)`, arrival `now`: every visited rule answers
    as the property wants for *its own* timestamp and limit (spacing, wait bound, justified rejection), a wait moves the
    arrival at the next rule, a rejection ends the walk -/
def ChainOk : Int → List (Int × Int × Req) → List Int → List Res → Prop
  | _, [], [], [] => True
  | now, (_, last, .zero) :: cs, l' :: ls, .pass :: rs => l' = last ∧ ChainOk now cs ls rs
  | _, (_, last, .excess) :: cs, l' :: ls, [.block] => l' = last ∧ ls = cs.map (·.2.1)
  | now, (_, last, .norm iv) :: cs, l' :: ls, .pass :: rs => last + iv ≤ now ∧ l' = now ∧ ChainOk now cs ls rs
  | now, (maxQ, last, .norm iv) :: cs, l' :: ls, .wait w :: rs =>
    0 < w ∧ w ≤ maxQ ∧ last + iv ≤ now + w ∧ l' = now + w ∧ ChainOk (now + w) cs ls rs
  | now, (maxQ, last, .norm iv) :: cs, l' :: ls, [.block] => last + iv - now > maxQ ∧ l' = last ∧ ls = cs.map (·.2.1)
  | _, _, _, _ => False

/-- **Every rule of the resource is honoured**: the slot's walk satisfies `ChainOk` for any rule list and any state. -/
theorem chain_ok (now : Int) (cs : List (Int × Int × Req)) : ChainOk now cs (chain now cs).1 (chain now cs).2 := by
  induction cs generalizing now with
  | nil => simp [chain, ChainOk]
  | cons c r ih =>
    obtain ⟨maxQ, last, q⟩ := c
    cases q with
    | zero => simpa [chain, doCheck, ChainOk] using ih now
    | excess => simp [chain, doCheck, ChainOk]
    | norm iv =>
      rcases doCheck_norm maxQ last now iv with ⟨h1, he⟩ | ⟨h1, h2, he⟩ | ⟨h1, h2, he⟩
      · simp only [chain, he, ChainOk]; exact ⟨h1, trivial, ih now⟩
      · simp only [chain, he, ChainOk]; exact ⟨h2, trivial, trivial⟩
      · simp only [chain, he, ChainOk]
        refine ⟨by omega, by omega, by omega, by ring, ?_⟩
        exact ih _

/-- the controllers keep their positions (one timestamp per rule, also after a rejection half-way) -/
theorem chain_length (now : Int) (cs : List (Int × Int × Req)) : (chain now cs).1.length = cs.length := by
  induction cs generalizing now with
  | nil => simp [chain]
  | cons c r ih =>
    obtain ⟨maxQ, last, q⟩ := c
    unfold chain
    split <;> simp [ih]

theorem findEq_spec {ρ : Type} (eq : ρ → ρ → Bool) (r : ρ) (l : List (Ctl ρ)) (i : Nat) (h : findEq eq r l = some i) :
    ∃ c, l[i]? = some c ∧ eq c.rule r = true := by
  induction l generalizing i with
  | nil => simp [findEq] at h
  | cons c cs ihl =>
    unfold findEq at h
    by_cases hc : eq c.rule r = true
    · simp only [hc, ↓reduceIte, Option.some.injEq] at h; subst h; exact ⟨c, by simp, hc⟩
    · simp only [hc, Bool.false_eq_true, ↓reduceIte, Option.map_eq_some_iff] at h
      obtain ⟨j, hj, rfl⟩ := h
      obtain ⟨c', h1, h2⟩ := ihl j hj
      exact ⟨c', by simpa using h1, h2⟩

/-- **Reload**: every controller in force afterwards was built for its rule or is an old controller whose rule the
    code's equality accepts for it — in particular a rule whose limit, threshold or interval changed (equality false)
    gets a fresh checker with the new parameters, it never keeps the old ones. -/
theorem reload_sound {ρ : Type} (eq : ρ → ρ → Bool) (next : Nat) (old : List (Ctl ρ)) (rules : List ρ) :
    List.Forall₂ (fun c r => (c.rule = r ∧ c.last = 0) ∨ (c ∈ old ∧ eq c.rule r = true)) (reload eq next old rules) rules := by
  induction rules generalizing old next with
  | nil => simp [reload]
  | cons r rs ih =>
    unfold reload
    split
    · rename_i i hi
      obtain ⟨c, hc, he⟩ := findEq_spec eq r old i hi
      simp only [hc]
      refine List.Forall₂.cons (Or.inr ⟨List.mem_of_getElem? hc, he⟩) ?_
      refine (ih (next + 1) (old.eraseIdx i)).imp ?_
      intro c' r' h
      rcases h with h | ⟨h1, h2⟩
      · exact Or.inl h
      · exact Or.inr ⟨List.mem_of_mem_eraseIdx h1, h2⟩
    · exact List.Forall₂.cons (Or.inl ⟨rfl, rfl⟩) (ih (next + 1) old)

theorem findEq_map {ρ : Type} (eq : ρ → ρ → Bool) (r : ρ) (h : Ctl ρ → Ctl ρ) (hr : ∀ c, (h c).rule = c.rule)
    (l : List (Ctl ρ)) : findEq eq r (l.map h) = findEq eq r l := by
  induction l with
  | nil => rfl
  | cons c cs ih => simp [findEq, hr, ih]

/-- **A reload does not look at the timestamps**: changing the controllers' `lastPassedTime` by identity (`h` keeps the
    rule, and leaves the controllers the reload creates alone) commutes with the reload.  Hence a reload that happens while a
    request sleeps yields the same controllers as a reload after that request (`chainReload` vs. `chain` then `reload`). -/
theorem reload_map {ρ : Type} (eq : ρ → ρ → Bool) (h : Ctl ρ → Ctl ρ) (hr : ∀ c, (h c).rule = c.rule)
    (next : Nat) (hf : ∀ n r, next ≤ n → h ⟨n, r, 0⟩ = ⟨n, r, 0⟩) (old : List (Ctl ρ)) (rules : List ρ) :
    reload eq next (old.map h) rules = (reload eq next old rules).map h := by
  induction rules generalizing old next with
  | nil => simp [reload]
  | cons r rs ih =>
    have hf' : ∀ n r, next + 1 ≤ n → h ⟨n, r, 0⟩ = ⟨n, r, 0⟩ := fun n r hn => hf n r (by omega)
    unfold reload
    rw [findEq_map eq r h hr]
    cases hfe : findEq eq r old with
    | none => simp only [List.map_cons, hf next r (le_refl _), ih (next + 1) hf' old]
    | some i =>
      obtain ⟨c, hc, _⟩ := findEq_spec eq r old i hfe
      simp only [List.getElem?_map, hc, Option.map_some, List.map_cons, List.eraseIdx_map, ih (next + 1) hf' (old.eraseIdx i)]

/-- the walk up to the first sleep, then the walk over the rest, is the walk -/
theorem chain_split (now : Int) (cs : List (Int × Int × Req)) (now1 : Int) (h : (chainHead now cs).2.2 = some now1) :
    chain now cs =
      ((chainHead now cs).1.take (chainHead now cs).2.1.length ++ (chain now1 (cs.drop (chainHead now cs).2.1.length)).1,
       (chainHead now cs).2.1 ++ (chain now1 (cs.drop (chainHead now cs).2.1.length)).2) := by
  induction cs with
  | nil => simp [chainHead] at h
  | cons c r ih =>
    obtain ⟨maxQ, last, q⟩ := c
    rcases hd : doCheck maxQ last now q with ⟨l', res⟩
    have e1 : chain now ((maxQ, last, q) :: r) = (match (l', res) with
        | (l', .block) => (l' :: r.map (·.2.1), [.block])
        | (l', .pass) => (l' :: (chain now r).1, .pass :: (chain now r).2)
        | (l', .wait w) => (l' :: (chain (now + w) r).1, .wait w :: (chain (now + w) r).2)) := by
      conv_lhs => unfold chain
      rw [hd]
      cases res <;> rfl
    have e2 : chainHead now ((maxQ, last, q) :: r) = (match (l', res) with
        | (l', .block) => (l' :: r.map (·.2.1), [.block], none)
        | (l', .pass) => (l' :: (chainHead now r).1, .pass :: (chainHead now r).2.1, (chainHead now r).2.2)
        | (l', .wait w) => (l' :: r.map (·.2.1), [.wait w], some (now + w))) := by
      conv_lhs => unfold chainHead
      rw [hd]
      cases res <;> rfl
    rw [e1]
    rw [e2] at h ⊢
    cases res with
    | block => simp at h
    | pass =>
      simp only at h ⊢
      rw [ih h]
      simp
    | wait w =>
      simp only [Option.some.injEq] at h ⊢
      subst h
      simp

/-- **A request that sleeps through a reload finishes with the rule list it started with**: whatever is loaded during its
    first sleep (or nothing), the controllers it visits answer exactly as in the plain walk over the controllers in force
    when it arrived — so `chain_ok` (every visited rule honoured for its own timestamp and limit) applies to it unchanged. -/
theorem chainReload_results {ρ : Type} (eq : ρ → ρ → Bool) (next : Nat) (now : Int) (ctls : List (Ctl ρ)) (par : ρ → Int × Req)
    (rules : Option (List ρ)) :
    (chainReload eq next now ctls par rules).2.1 = (chain now (ctls.map fun c => ((par c.rule).1, c.last, (par c.rule).2))).2 := by
  unfold chainReload
  simp only
  split
  · rename_i now1 rs h1
    simp only
    rw [chain_split now _ now1 h1, List.map_drop]
  · rfl

/-- the list fact behind `chainReload_ctls`: updating, by identity, the controllers `ctls.drop k` of what a reload built from
    `ctls` (with timestamps `H`) with the timestamps `B` is the reload of `ctls` with `H` on the first `k` and `B` on the rest -/
theorem reload_setLast_drop {ρ : Type} (eq : ρ → ρ → Bool) (next : Nat) (ctls : List (Ctl ρ)) (rules : List ρ)
    (H B : List Int) (k : Nat) (hn : (ctls.map (·.id)).Nodup) (hlt : ∀ c ∈ ctls, c.id < next)
    (hH : H.length = ctls.length) (hB : B.length = (ctls.drop k).length) :
    (reload eq next (zipLast ctls H) rules).map (Ctl.setLast (((ctls.drop k).map (·.id)).zip B)) =
      reload eq next (zipLast ctls (H.take k ++ B)) rules := by
  have hfresh : ∀ n r, next ≤ n →
      Ctl.setLast (((ctls.drop k).map (·.id)).zip B) (⟨n, r, 0⟩ : Ctl ρ) = ⟨n, r, 0⟩ := by
    intro n r hle
    apply setLast_of_not_mem
    simp only [List.mem_map, not_exists, not_and]
    intro c hc he
    have := hlt c (List.mem_of_mem_drop hc)
    omega
  rw [← reload_map eq _ (setLast_rule _) next hfresh]
  congr 1
  -- split the controllers into the visited ones and the rest
  have hlen : (ctls.take k).length = (H.take k).length := by simp [List.length_take, hH]
  have e1 : zipLast ctls H = zipLast (ctls.take k) (H.take k) ++ zipLast (ctls.drop k) (H.drop k) := by
    rw [← zipLast_append _ _ _ _ hlen, List.take_append_drop, List.take_append_drop]
  have e2 : zipLast ctls (H.take k ++ B) = zipLast (ctls.take k) (H.take k) ++ zipLast (ctls.drop k) B := by
    rw [← zipLast_append _ _ _ _ hlen, List.take_append_drop]
  have hnd : ((ctls.take k).map (·.id) ++ (ctls.drop k).map (·.id)).Nodup := by
    rw [← List.map_append, List.take_append_drop]; exact hn
  rw [e1, e2, List.map_append]
  congr 1
  · apply map_setLast_of_disjoint
    intro x hx hmem
    exact (List.nodup_append.mp hnd).2.2 _ (mem_zipLast_id _ _ x hx) _ hmem rfl
  · exact map_setLast_self _ _ _ (List.nodup_append.mp hnd).2.1 (by simp [List.length_drop, hH]) hB

/-- **What is in force after a request that slept through a reload is what a reload *after* the request would have built**
    (controllers are shared by reference, and the reload does not look at timestamps).  For controllers with distinct
    identities below `next` — which the driver maintains (`St.next`) — and a request that did sleep (`.2.2 = true`). -/
theorem chainReload_ctls {ρ : Type} (eq : ρ → ρ → Bool) (next : Nat) (now : Int) (ctls : List (Ctl ρ)) (par : ρ → Int × Req)
    (rules : List ρ) (hn : (ctls.map (·.id)).Nodup) (hlt : ∀ c ∈ ctls, c.id < next)
    (hf : (chainReload eq next now ctls par (some rules)).2.2 = true) :
    (chainReload eq next now ctls par (some rules)).1 =
      reload eq next (zipLast ctls (chain now (ctls.map fun c => ((par c.rule).1, c.last, (par c.rule).2))).1) rules := by
  cases hs : (chainHead now (ctls.map fun c => ((par c.rule).1, c.last, (par c.rule).2))).2.2 with
  | none => simp [chainReload, hs] at hf
  | some now1 =>
    have hsplit := chain_split now _ now1 hs
    rw [hsplit]
    simp only [chainReload, hs]
    rw [← List.map_drop]
    exact reload_setLast_drop eq next ctls rules _ _ _ hn hlt
      (by rw [chainHead_length, List.length_map]) (by rw [chain_length, List.length_map])

/-- the demo of the seeded change: three rules, the request sleeps 90 for rule 1, meanwhile the same rules plus one more are
    loaded; it is still rejected by rule 2, and rule 2's controller (identity 1) is the one in force afterwards -/
example :
    let r := chainReload (fun (a b : Nat) => a == b) 3 10 [⟨0, 0, 0⟩, ⟨1, 1, 0⟩, ⟨2, 2, 0⟩]
      (fun r => if r = 0 then (1000, .norm 100) else if r = 1 then (0, .norm 1000) else (1000, .norm 1)) (some [0, 1, 2, 3])
    r.2.1 = [.wait 90, .block] ∧ r.1.map (·.id) = [0, 1, 2, 6] ∧ r.1.map (·.last) = [100, 0, 0, 0] := by decide

/-- the hypotheses of `chainReload_ctls` are satisfiable (the same demo) -/
example :=
  chainReload_ctls (fun (a b : Nat) => a == b) 3 10 [⟨0, 0, 0⟩, ⟨1, 1, 0⟩, ⟨2, 2, 0⟩]
    (fun r => if r = 0 then (1000, .norm 100) else if r = 1 then (0, .norm 1000) else (1000, .norm 1)) [0, 1, 2, 3]
    (by decide) (by decide) (by decide)

example : chain 0 [(1000, 0, .norm 100), (0, 0, .norm 300)] = ([100, 0], [.wait 100, .block]) := by decide

/-! ## the two known findings: the model (as the code) violates spacing under these schedules -/

/-- X (clock 1000) and W (1000), Y and Z (1150); interval 100, limit 250, timestamp 1100 -/
abbrev witnessCfg : Cfg := Cfg.start 250 1100 [(1000, .norm 100), (1000, .norm 100), (1150, .norm 100), (1150, .norm 100)]

/-- `throttle-rollback-collision`: X adds and is parked before its rollback, Y queues on X's phantom interval (pass time
    1400), X rolls back, Z gets 1400 as well. -/
theorem spacing_witness :
    (witnessCfg.runSched [0, 0, 1, 1, 1, 0, 2, 2, 2, 0, 3, 3, 3]).results =
      [some .block, some (.wait 200), some (.wait 250), some (.wait 250)] ∧
    (witnessCfg.runSched [0, 0, 1, 1, 1, 0, 2, 2, 2, 0, 3, 3, 3]).log = [(1200, 100), (1400, 100), (1400, 100)] ∧
    ¬ Spaced 1100 (witnessCfg.runSched [0, 0, 1, 1, 1, 0, 2, 2, 2, 0, 3, 3, 3]).log ∧
    (witnessCfg.runSched [0, 0, 1, 1, 1, 0, 2, 2, 2, 0, 3, 3, 3]).rb = true := by decide

/-- `throttle-stale-add`: Y (clock 1000) and X (1150) load the idle timestamp 0, Y wins the CAS, X loses it, adds
    (timestamp 1100, behind its own clock) and passes at 1150; Z (1150) then queues for 1200 — 50 after X, interval 100. -/
theorem stale_add_witness :
    ((Cfg.start 250 0 [(1000, .norm 100), (1150, .norm 100)]).runSched [0, 1, 0, 1, 1, 1]).results = [some .pass, some .pass] ∧
    ((Cfg.start 250 0 [(1000, .norm 100), (1150, .norm 100)]).runSched [0, 1, 0, 1, 1, 1]).last = 1100 ∧
    ((Cfg.start 250 0 [(1000, .norm 100), (1150, .norm 100)]).runSched [0, 1, 0, 1, 1, 1]).stale = true ∧
    doCheck 250 1100 1150 (.norm 100) = (1200, .wait 50) := by decide

/-- hence the full statement is false for the code as it is -/
theorem sched_spacing_statement_false : ¬ sched_spacing_statement := by
  simp only [sched_spacing_statement, not_forall]
  exact ⟨250, 1100, [(1000, .norm 100), (1000, .norm 100), (1150, .norm 100), (1150, .norm 100)],
    [0, 0, 1, 1, 1, 0, 2, 2, 2, 0, 3, 3, 3], by decide⟩

/-! ### the exact region

`collides base c s` (`Lemmas/Throttle.lean`) is a function of the start configuration and the schedule alone: along the run,
some step admits a caller whose pass time is less than its own interval after the latest admitted pass time.  In the code
that is exactly a caller that takes the idle CAS or the add on a `lastPassedTime` that is not the latest admitted pass time —
because another caller's interval is still added and about to be rolled back when it reads (`throttle-rollback-collision`),
has just been taken back under a queued caller (the same finding), or because the add of a caller that lost the CAS left the
timestamp behind that caller's own pass time (`throttle-stale-add`).  `fullSched c s` is the schedule that is really executed
(the given entries, then the five drain rounds). -/

/-- **Spacing under schedules, exactly**: for any number of callers and any schedule, the admissions are spaced
    iff the schedule stays outside the collision region. -/
theorem sched_spacing_iff (maxQ last : Int) (ws : List (Int × Req)) (s : List Nat) :
    Spaced last ((Cfg.start maxQ last ws).runSched s).log ↔
      collides last (Cfg.start maxQ last ws) (fullSched (Cfg.start maxQ last ws) s) = false := by
  exact spaced_runSched_iff last (Cfg.start maxQ last ws) s (spaced_start maxQ last ws)

section
attribute [local irreducible] Spaced

/-- …and the collision region lies inside the two classified regions: every collision needs a step taken while another
    caller is parked before its rollback, or an add that leaves the timestamp behind its caller's clock. -/
theorem collides_classified (maxQ last : Int) (ws : List (Int × Req)) (s : List Nat)
    (h : collides last (Cfg.start maxQ last ws) (fullSched (Cfg.start maxQ last ws) s) = true) :
    ((Cfg.start maxQ last ws).runSched s).rb = true ∨ ((Cfg.start maxQ last ws).runSched s).stale = true := by
  by_cases hrb : ((Cfg.start maxQ last ws).runSched s).rb = true
  · exact Or.inl hrb
  · by_cases hst : ((Cfg.start maxQ last ws).runSched s).stale = true
    · exact Or.inr hst
    · exfalso
      have h2 := collides_false_of last (Cfg.start maxQ last ws) s (spaced_start maxQ last ws) _
        (sched_spacing_partial maxQ last ws s ((Bool.not_eq_true _).mp hrb) ((Bool.not_eq_true _).mp hst))
      rw [h2] at h
      exact Bool.false_ne_true h

end

/-- the region is inhabited: the recorded `throttle-rollback-collision` replay … -/
theorem collides_witness_rollback :
    collides 1100 witnessCfg (fullSched witnessCfg [0, 0, 1, 1, 1, 0, 2, 2, 2, 0, 3, 3, 3]) = true := by decide

/-- … and the recorded `throttle-stale-add` replay with its third caller Z (clock 1150) as a thread: no rollback is involved -/
theorem collides_witness_stale :
    collides 0 (Cfg.start 250 0 [(1000, .norm 100), (1150, .norm 100), (1150, .norm 100)])
      (fullSched (Cfg.start 250 0 [(1000, .norm 100), (1150, .norm 100), (1150, .norm 100)]) [0, 1, 0, 1, 1, 1, 2, 2, 2, 2]) = true ∧
    ((Cfg.start 250 0 [(1000, .norm 100), (1150, .norm 100), (1150, .norm 100)]).runSched [0, 1, 0, 1, 1, 1, 2, 2, 2, 2]).rb = false := by
  decide

/-- outside the region: a genuinely interleaved schedule without a collision; and the region is strictly smaller than the
    classified ones — a schedule on which the rollback classifier fires although nothing collides -/
example :
    collides 1100 witnessCfg (fullSched witnessCfg [0, 1, 2, 3, 0, 1, 2, 3, 2, 3, 1, 1, 0, 0]) = false ∧
    collides 1100 witnessCfg (fullSched witnessCfg [0, 1, 2, 3, 0, 1, 2, 3, 1, 0, 3, 2]) = false ∧
    (witnessCfg.runSched [0, 1, 2, 3, 0, 1, 2, 3, 1, 0, 3, 2]).rb = true := by decide

/-! ## non-vacuity -/

/-- a genuinely interleaved schedule inside the clean region (the hypotheses of `sched_spacing_partial` are satisfiable) -/
example :
    (witnessCfg.runSched [0, 1, 2, 3, 0, 1, 2, 3, 2, 3, 1, 1, 0, 0]).rb = false ∧
    (witnessCfg.runSched [0, 1, 2, 3, 0, 1, 2, 3, 2, 3, 1, 1, 0, 0]).stale = false ∧
    (witnessCfg.runSched [0, 1, 2, 3, 0, 1, 2, 3, 2, 3, 1, 1, 0, 0]).results =
      [some .block, some .block, some (.wait 50), some (.wait 150)] := by decide

/-! ## non-vacuity (sequential) -/

example : (runSeq 250 1000 [(1000, .norm 100), (1000, .norm 100), (1000, .norm 100), (1400, .norm 100), (1400, .zero), (1400, .excess)]).2
    = [.wait 100, .wait 200, .block, .pass, .pass, .block] := by decide

end Sentinel.C10
