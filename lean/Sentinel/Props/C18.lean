import Mathlib.Tactic
import Sentinel.Lemmas.Datasource
/-!
# C18 — Datasource payloads are applied faithfully or rejected, never half-applied

All statements are about `Sentinel.Datasource.handle / deliver / FileSrc.step` and the table-driven codec
(`decodeObj / encodeFields` over `flowTags … hotspotTags`), i.e. the definitions `Sentinel.Drv.C18` executes.

Quantification: the byte type `B`, the converter `conv : B → Conv _` (so: **every byte string**, whatever the text
parser makes of it), Go's `reflect.DeepEqual` (`eqv`, nothing assumed — it is not reflexive in Go), the module's
validity predicate, normalisation and rule-equality (`Module`) are all universally quantified.
-/
namespace Sentinel.C18
open Sentinel.Datasource

variable {B D M R : Type}

/-! ## 1. `Handle` never panics out to the datasource -/

/-- whatever the converter and the updater do (error, panic, success), `Handle` returns normally -/
theorem never_panics_out (conv : B → Conv D) (eqv : Option D → Option D → Bool) (upd : Option D → M → Upd M)
    (h : Handler D) (m : M) (src : B) :
    ∃ h' m' r, handle conv eqv upd h m src = (h', m', Outcome.ret r) := by
  unfold handle handleBody recovered
  cases conv src with
  | err => exact ⟨_, _, _, rfl⟩
  | panic => exact ⟨_, _, _, rfl⟩
  | ok v =>
    by_cases he : eqv v h.last = true
    · simp only [he, if_true]; exact ⟨_, _, _, rfl⟩
    · simp only [he]
      cases upd v m <;> exact ⟨_, _, _, rfl⟩

/-- the body alone does let a panic through (the `recover` is what the theorem above is about) -/
example : (handleBody (fun (_ : Unit) => (Conv.panic : Conv Unit)) (fun _ _ => true)
    (fun _ (m : Unit) => Upd.ok m) {} () ()).2.2 = Outcome.panicked := rfl

/-- latent: a panicking updater is swallowed too — `nil` is returned and the payload is remembered (not reachable
    with the five real updaters since fix 9992752; kept as a statement about the handler) -/
theorem updater_panic_is_swallowed (conv : B → Conv D) (eqv : Option D → Option D → Bool)
    (upd : Option D → M → Upd M) (h : Handler D) (m m' : M) (src : B) (v : Option D)
    (hc : conv src = .ok v) (he : eqv v h.last = false) (hu : upd v m = .panic m') :
    handle conv eqv upd h m src = ({ last := v }, m', Outcome.ret Ret.nil) := by
  simp [handle, handleBody, recovered, hc, he, hu]

/-! ## 2. Faithful or rejected -/

/-- the invariant of a handler/manager pair that only this handler feeds: the rules in force are the valid rules of
    the property the handler remembers — each one either the delivered rule (normalised) or an older rule object that
    the module itself judges equal to it (`isEqualsTo` / `Equals`) -/
abbrev Inv (mo : Module R) (s : Handler (WireList R) × Mgr R) : Prop := Sentinel.Datasource.Inv mo s

theorem inv_init (mo : Module R) : Inv mo (({}, {}) : Handler (WireList R) × Mgr R) := by
  simp [Inv, Sentinel.Datasource.Inv, validElems]

/-- What the property needs of `reflect.DeepEqual(src, lastUpdateProperty)`: it only identifies values for which the same
    rules count as being in force.  Implied by soundness (`SoundEq`: equal only if identical).  Go's DeepEqual is sound
    except that (a) `+0.0` and `-0.0` in a float field are equal — harmless where the module's own rule equality
    identifies them too (flow thresholds), a genuine deviation where it does not (system/circuit-breaker thresholds:
    the signed-zero part of known finding `stale-equal-rule`) — and (b) `lastUpdateProperty` holds the *same rule
    objects* the flow manager normalised in place (default warm-up cold factor), so a later payload is compared with the
    normalised rules, for which the same rules are in force.  The driver's `eqv` implements both. -/
def SoundFor (mo : Module R) (eqv : Option (WireList R) → Option (WireList R) → Bool) : Prop :=
  ∀ a b, eqv a b = true → ∀ es, List.Forall₂ (InForceFor mo) es (validElems mo.valid b) →
    List.Forall₂ (InForceFor mo) es (validElems mo.valid a)

/-- `reflect.DeepEqual` never claims equality of two different values -/
def SoundEq (eqv : Option D → Option D → Bool) : Prop := ∀ a b, eqv a b = true → a = b

theorem soundEq_soundFor (mo : Module R) (eqv : Option (WireList R) → Option (WireList R) → Bool) (h : SoundEq eqv) :
    SoundFor mo eqv := by
  intro a b hab es hes
  rw [h a b hab]; exact hes

/-- The property for one converter and one delivery: the converter yields a value or an error (it must not panic);
    a value is applied — `nil` returned, the valid rules of *that* list in force — and an error leaves everything as
    it was. -/
def FaithfulFor (conv : B → Conv (WireList R)) : Prop :=
  ∀ (eqv : Option (WireList R) → Option (WireList R) → Bool)
    (mo : Module R) (s : Handler (WireList R) × Mgr R) (src : B), SoundFor mo eqv → Inv mo s →
    let r := deliver conv eqv mo s src
    Inv mo r.1 ∧
    ((∃ v, conv src = .ok v ∧ r.2 = .ret .nil ∧
        List.Forall₂ (InForceFor mo) r.1.2.enforced (validElems mo.valid v)) ∨
     (conv src = .err ∧ r.2 = .ret .err ∧ r.1 = s))

/-- The property as stated: it holds of the five parsers — the four of the shape `json.Unmarshal(src, &[]*Rule)` (any
    tag table) and the hotspot parser — for **all** byte strings: the byte type, the emptiness test and the text-level
    JSON parser are arbitrary. -/
def faithful_or_rejected_statement : Prop :=
  ∀ (B : Type) (isEmpty : B → Bool) (parse : B → Option Json),
    (∀ ts : List Tag, FaithfulFor (fun b => convPlain ts (isEmpty b) (parse b))) ∧
    (∀ sc : StrConv, FaithfulFor (fun b => convHotspot sc (isEmpty b) (parse b)))

/-- the generic step: any converter, any delivery on which it does not panic -/
theorem faithful_or_rejected_of_no_panic (conv : B → Conv (WireList R))
    (eqv : Option (WireList R) → Option (WireList R) → Bool)
    (mo : Module R) (s : Handler (WireList R) × Mgr R) (src : B) (hsound : SoundFor mo eqv) (hinv : Inv mo s)
    (hnp : conv src ≠ .panic) :
    let r := deliver conv eqv mo s src
    Inv mo r.1 ∧
    ((∃ v, conv src = .ok v ∧ r.2 = .ret .nil ∧
        List.Forall₂ (InForceFor mo) r.1.2.enforced (validElems mo.valid v)) ∨
     (conv src = .err ∧ r.2 = .ret .err ∧ r.1 = s)) := by
  intro r
  rcases deliver_cases conv eqv mo s src with ⟨hp, _⟩ | ⟨he, hr⟩ | ⟨v, hv, hc, hr⟩ | ⟨v, hv, _, hr⟩
  · exact absurd hp hnp
  · have : r = (s, .ret .err) := hr
    rw [this]; exact ⟨hinv, Or.inr ⟨he, rfl, rfl⟩⟩
  · have : r = (s, .ret .nil) := hr
    rw [this]
    exact ⟨hinv, Or.inl ⟨v, hv, rfl, hsound _ _ hc _ hinv⟩⟩
  · have : r = (({ last := v }, { enforced := enforcedOf mo.valid mo.norm mo.equiv mo.reusable s.2.enforced v }), .ret .nil) := hr
    rw [this]
    have hrel := reuseBuild_rel mo (validElems mo.valid v) s.2.enforced
    exact ⟨by simpa [Inv, Sentinel.Datasource.Inv, enforcedOf] using hrel,
      Or.inl ⟨v, hv, rfl, by simpa [enforcedOf] using hrel⟩⟩

/-- the four converters of the shape `json.Unmarshal(src, &[]*Rule)` never panic, whatever the bytes parse to -/
theorem convPlain_never_panics (ts : List Tag) (empty : Bool) (tree : Option Json) : convPlain ts empty tree ≠ .panic := by
  unfold convPlain
  split
  · simp
  · split
    · simp
    · split <;> simp

/-- so for flow, system, circuit breaker and isolation the property holds as stated, for **all** byte strings
    (`isEmpty` and `parse`, the text-level JSON parser, are arbitrary) -/
theorem faithful_or_rejected_plain (ts : List Tag) (isEmpty : B → Bool) (parse : B → Option Json)
    (eqv : Option (WireList Rec) → Option (WireList Rec) → Bool) (mo : Module Rec)
    (s : Handler (WireList Rec) × Mgr Rec) (src : B) (hsound : SoundFor mo eqv) (hinv : Inv mo s) :
    let conv := fun b => convPlain ts (isEmpty b) (parse b)
    let r := deliver conv eqv mo s src
    Inv mo r.1 ∧
    ((∃ v, conv src = .ok v ∧ r.2 = .ret .nil ∧
        List.Forall₂ (InForceFor mo) r.1.2.enforced (validElems mo.valid v)) ∨
     (conv src = .err ∧ r.2 = .ret .err ∧ r.1 = s)) :=
  faithful_or_rejected_of_no_panic _ eqv mo s src hsound hinv (convPlain_never_panics ts _ _)

/-- for a module that never reuses old rule objects (system, circuit breaker, isolation: `equiv = never`) "in force"
    is literally the normalised valid rules of the list -/
theorem inForce_exact (valid : R → Bool) (norm : R → R) (es rs : List R)
    (h : List.Forall₂ (InForceFor { valid := valid, norm := norm }) es rs) : es = rs.map norm := by
  induction h with
  | nil => rfl
  | cons hab _ ih =>
    rcases hab with h1 | h1
    · simp [h1, ih]
    · simp at h1

/-- the invariant survives every delivery, whatever the converter does (a converter panic leaves the state alone) -/
theorem inv_deliver (conv : B → Conv (WireList R)) (eqv : Option (WireList R) → Option (WireList R) → Bool)
    (mo : Module R) (hsound : SoundFor mo eqv) (s : Handler (WireList R) × Mgr R) (b : B) (hs : Inv mo s) :
    Inv mo (deliver conv eqv mo s b).1 := by
  by_cases hp : conv b = .panic
  · rcases deliver_cases conv eqv mo s b with ⟨_, hr⟩ | ⟨he, _⟩ | ⟨v, hv, _, _⟩ | ⟨v, hv, _, _⟩
    · rw [hr]; exact hs
    · rw [hp] at he; cases he
    · rw [hp] at hv; cases hv
    · rw [hp] at hv; cases hv
  · exact (faithful_or_rejected_of_no_panic conv eqv mo s b hsound hs hp).1

/-- a decodable payload is in force afterwards -/
theorem deliver_ok_inforce (conv : B → Conv (WireList R)) (eqv : Option (WireList R) → Option (WireList R) → Bool)
    (mo : Module R) (hsound : SoundFor mo eqv) (s : Handler (WireList R) × Mgr R) (b : B) (hs : Inv mo s)
    (v : Option (WireList R)) (hv : conv b = .ok v) :
    List.Forall₂ (InForceFor mo) (deliver conv eqv mo s b).1.2.enforced (validElems mo.valid v) := by
  have hnp : conv b ≠ .panic := by simp [hv]
  rcases (faithful_or_rejected_of_no_panic conv eqv mo s b hsound hs hnp).2 with ⟨v', hv', _, hf⟩ | ⟨he, _⟩
  · rw [hv] at hv'; cases hv'; exact hf
  · rw [hv] at he; cases he

/-- histories: from fresh handlers and cleared managers the invariant holds after every sequence of deliveries,
    whatever the converter does (a converter panic leaves the state alone) -/
theorem inv_history (conv : B → Conv (WireList R)) (eqv : Option (WireList R) → Option (WireList R) → Bool)
    (mo : Module R) (hsound : SoundFor mo eqv) (srcs : List B) :
    Inv mo (srcs.foldl (fun s b => (deliver conv eqv mo s b).1) ({}, {})) := by
  suffices h : ∀ s, Inv mo s → Inv mo (srcs.foldl (fun s b => (deliver conv eqv mo s b).1) s) from h _ (inv_init mo)
  induction srcs with
  | nil => intro s hs; exact hs
  | cons b bs ih =>
    intro s hs
    exact ih _ (inv_deliver conv eqv mo hsound s b hs)

/-- the hotspot parser (since fix 2a360c1) never panics either -/
theorem convHotspot_never_panics (sc : StrConv) (empty : Bool) (tree : Option Json) :
    convHotspot sc empty tree ≠ .panic := by
  unfold convHotspot
  split
  · simp
  · split
    · simp
    · split <;> simp

theorem faithful_or_rejected_hotspot (sc : StrConv) (isEmpty : B → Bool) (parse : B → Option Json) :
    FaithfulFor (fun b => convHotspot sc (isEmpty b) (parse b)) :=
  fun eqv mo s src hsound hinv =>
    faithful_or_rejected_of_no_panic _ eqv mo s src hsound hinv (convHotspot_never_panics sc _ _)

/-- **The property at full strength, for all five parsers and all byte strings.** -/
theorem faithful_or_rejected : faithful_or_rejected_statement :=
  fun _ isEmpty parse =>
    ⟨fun ts eqv mo s src hsound hinv => faithful_or_rejected_plain ts isEmpty parse eqv mo s src hsound hinv,
     fun sc => faithful_or_rejected_hotspot sc isEmpty parse⟩

/-- `Base.Handle` with one registered handler is that handler's `Handle`: same new state, same `nil`/`err` — whatever
    the payload was delivered *in* (a fresh slice, a reused buffer): the model of `Base` has no memory of payloads, so all
    the theorems about `deliver` are theorems about deliveries through a `datasource.Base`. -/
theorem base_handle_single (conv : B → Conv (WireList R)) (eqv : Option (WireList R) → Option (WireList R) → Bool)
    (mo : Module R) (s : Handler (WireList R) × Mgr R) (src : B) :
    baseDeliver conv eqv mo [s] src = ([(deliver conv eqv mo s src).1], (deliver conv eqv mo s src).2) := by
  rcases deliver_cases conv eqv mo s src with ⟨_, hr⟩ | ⟨_, hr⟩ | ⟨v, _, _, hr⟩ | ⟨v, _, _, hr⟩ <;>
    simp [baseDeliver, hr]

/-- with several handlers every one of them is served, and `err` is returned iff one of them returned `err` -/
theorem base_handle_all (conv : B → Conv (WireList R)) (eqv : Option (WireList R) → Option (WireList R) → Bool)
    (mo : Module R) (ss : List (Handler (WireList R) × Mgr R)) (src : B) :
    (baseDeliver conv eqv mo ss src).1 = ss.map (fun s => (deliver conv eqv mo s src).1) ∧
    ((baseDeliver conv eqv mo ss src).2 = .ret .err ↔ ∃ s ∈ ss, (deliver conv eqv mo s src).2 = .ret .err) := by
  constructor
  · simp [baseDeliver, List.map_map, Function.comp_def]
  · unfold baseDeliver
    by_cases h : ((ss.map fun s => deliver conv eqv mo s src).any fun r => r.2 == Outcome.ret Ret.err) = true
    · simp only [h, if_true, true_iff]
      simpa [List.any_eq_true] using h
    · simp only [h]
      simp only [List.any_eq_true, not_exists, not_and] at h
      constructor
      · intro hc; cases hc
      · rintro ⟨s, hs, he⟩
        exact absurd (by simpa using he) (h _ (List.mem_map_of_mem hs))

/-! ## 3. Repaired finding `null-element-swallowed` (hotspot path, fix 2a360c1) -/

/-- before 2a360c1 the hotspot converter panicked on a `null` element; `Handle` then returned `nil` although nothing
    was applied and nothing was rejected: with any rules in force, a payload whose tree is `[null, {"resource":"b"}]`
    left them in force and returned `nil`. -/
theorem null_element_swallowed_witness (sc : StrConv) (eqv : Option (WireList Rec) → Option (WireList Rec) → Bool)
    (mo : Module Rec) (s : Handler (WireList Rec) × Mgr Rec) :
    let tree := Json.arr [.null, .obj [("resource", .str "b")]]
    let conv := fun (_ : Unit) => convHotspotOld sc false (some tree)
    conv () = .panic ∧ deliver conv eqv mo s () = (s, .ret .nil) := by
  have hp : convHotspotOld sc false (some (Json.arr [.null, .obj [("resource", .str "b")]])) = .panic := by
    simp [convHotspotOld, decodeList, decodeElems, decodeObj, decodeKvs, setField, hotspotTags, zeroRec, decodeVal, Kind.zero]
  refine ⟨hp, ?_⟩
  rcases deliver_cases (fun (_ : Unit) => convHotspotOld sc false (some (Json.arr [.null, .obj [("resource", .str "b")]])))
      eqv mo s () with ⟨_, hr⟩ | ⟨he, _⟩ | ⟨v, hv, _, _⟩ | ⟨v, hv, _, _⟩
  · exact hr
  · simp only [hp] at he; cases he
  · simp only [hp] at hv; cases hv
  · simp only [hp] at hv; cases hv

/-- so the property was false of the old hotspot parser -/
theorem faithful_false_before_2a360c1 :
    ¬ FaithfulFor (fun (_ : Unit) => convHotspotOld ⟨fun _ => none, fun _ => none, fun _ => none⟩ false
      (some (Json.arr [.null, .obj [("resource", .str "b")]]))) := by
  intro h
  have hw := null_element_swallowed_witness ⟨fun _ => none, fun _ => none, fun _ => none⟩ (fun a b => decide (a = b))
    { valid := fun _ => true } ({}, {})
  have := h (fun a b => decide (a = b)) { valid := fun _ => true } ({}, {}) ()
    (soundEq_soundFor _ _ (by intro a b hab; simpa using hab)) (inv_init _)
  obtain ⟨hp, _⟩ := hw
  dsimp only at hp
  rcases this.2 with ⟨v, hv, _⟩ | ⟨he, _⟩
  · rw [hp] at hv; cases hv
  · rw [hp] at he; cases he

/-- regression statement for fix 2a360c1 (`kind: fixed`): the repaired parser skips the `null` element and yields the
    other rules -/
theorem hotspot_null_element_skipped (sc : StrConv) (kvs : List (String × Json)) (r : Rec)
    (hdec : decodeObj hotspotTags kvs = some r) :
    convHotspot sc false (some (.arr [.null, .obj kvs])) = .ok (some (some [some (hotspotToCore sc r)])) := by
  simp [convHotspot, decodeList, decodeElems, hdec, WireList.elems]

/-- regression statement for fix 9992752 (`kind: fixed`): on the four other paths a `null` element is a nil rule, the
    list's valid rules are loaded and `nil` is returned -/
theorem null_element_loads_valid_rules (ts : List Tag) (kvs : List (String × Json)) (r : Rec)
    (hdec : decodeObj ts kvs = some r) :
    convPlain ts false (some (.arr [.null, .obj kvs])) = .ok (some (some [none, some r])) ∧
    validElems (fun _ => true) (some (some [none, some r])) = [r] := by
  constructor
  · simp [convPlain, decodeList, decodeElems, hdec]
  · simp [validElems, WireList.elems]

/-! ## 4. Redelivery and clearing -/

/-- re-delivering the identical payload is a no-op when `DeepEqual` recognises the value as itself (always, except for
    a hotspot specific item with a NaN key, see notes): same state, same return value -/
theorem redelivery_noop (conv : B → Conv (WireList R)) (eqv : Option (WireList R) → Option (WireList R) → Bool)
    (mo : Module R) (s : Handler (WireList R) × Mgr R) (src : B)
    (hrefl : ∀ v, conv src = .ok v → eqv v v = true) :
    let r1 := deliver conv eqv mo s src
    deliver conv eqv mo r1.1 src = r1 := by
  intro r1
  rcases deliver_cases conv eqv mo s src with ⟨hp, hr⟩ | ⟨he, hr⟩ | ⟨v, hv, hc, hr⟩ | ⟨v, hv, hc, hr⟩
  · have e1 : r1 = (s, .ret .nil) := hr
    rw [e1]; exact hr
  · have e1 : r1 = (s, .ret .err) := hr
    rw [e1]; exact hr
  · have e1 : r1 = (s, .ret .nil) := hr
    rw [e1]; exact hr
  · have e1 : r1 = (({ last := v }, { enforced := enforcedOf mo.valid mo.norm mo.equiv mo.reusable s.2.enforced v }), .ret .nil) := hr
    rw [e1]
    rcases deliver_cases conv eqv mo ({ last := v }, { enforced := enforcedOf mo.valid mo.norm mo.equiv mo.reusable s.2.enforced v }) src
      with ⟨hp, _⟩ | ⟨he, _⟩ | ⟨v', hv', _, hr'⟩ | ⟨v', hv', hc', _⟩
    · rw [hp] at hv; cases hv
    · rw [he] at hv; cases hv
    · exact hr'
    · rw [hv] at hv'
      cases hv'
      have := hrefl v hv
      simp [this] at hc'

/-- without any assumption on `DeepEqual`: for a module that does not reuse rule objects the redelivery is a no-op all
    the same (the reload computes the same rules) -/
theorem redelivery_noop_exact (conv : B → Conv (WireList R)) (eqv : Option (WireList R) → Option (WireList R) → Bool)
    (valid : R → Bool) (norm : R → R) (s : Handler (WireList R) × Mgr R) (src : B) :
    let mo : Module R := { valid := valid, norm := norm }
    let r1 := deliver conv eqv mo s src
    deliver conv eqv mo r1.1 src = r1 := by
  intro mo r1
  rcases deliver_cases conv eqv mo s src with ⟨hp, hr⟩ | ⟨he, hr⟩ | ⟨v, hv, hc, hr⟩ | ⟨v, hv, hc, hr⟩
  · have e1 : r1 = (s, .ret .nil) := hr
    rw [e1]; exact hr
  · have e1 : r1 = (s, .ret .err) := hr
    rw [e1]; exact hr
  · have e1 : r1 = (s, .ret .nil) := hr
    rw [e1]; exact hr
  · have e1 : r1 = (({ last := v }, { enforced := enforcedOf mo.valid mo.norm mo.equiv mo.reusable s.2.enforced v }), .ret .nil) := hr
    rw [e1]
    rcases deliver_cases conv eqv mo ({ last := v }, { enforced := enforcedOf mo.valid mo.norm mo.equiv mo.reusable s.2.enforced v }) src
      with ⟨hp, _⟩ | ⟨he, _⟩ | ⟨v', hv', _, hr'⟩ | ⟨v', hv', _, hr'⟩
    · rw [hp] at hv; cases hv
    · rw [he] at hv; cases hv
    · exact hr'
    · rw [hv] at hv'
      cases hv'
      rw [hr']
      simp [enforcedOf, mo, reuseBuild_never]

/-- an empty payload (`(nil, nil)` from the converter), `null` and `[]` clear the rules -/
theorem empty_clears (conv : B → Conv (WireList R)) (eqv : Option (WireList R) → Option (WireList R) → Bool)
    (mo : Module R) (s : Handler (WireList R) × Mgr R) (src : B) (hsound : SoundFor mo eqv) (hinv : Inv mo s)
    (hc : conv src = .ok none ∨ conv src = .ok (some none) ∨ conv src = .ok (some (some []))) :
    let r := deliver conv eqv mo s src
    r.2 = .ret .nil ∧ r.1.2.enforced = [] := by
  intro r
  have hnp : conv src ≠ .panic := by rcases hc with h | h | h <;> simp [h]
  rcases (faithful_or_rejected_of_no_panic conv eqv mo s src hsound hinv hnp).2 with ⟨v, hv, hr, hf⟩ | ⟨he, _⟩
  · refine ⟨hr, ?_⟩
    have hve : validElems mo.valid v = [] := by
      rcases hc with h | h | h <;> (rw [h] at hv; cases hv; simp [validElems, WireList.elems])
    rw [hve] at hf
    exact List.forall₂_nil_right_iff.mp hf
  · rcases hc with h | h | h <;> (rw [h] at he; cases he)

/-- the five parsers do return `(nil, nil)` for an empty source -/
theorem empty_source_is_nil (ts : List Tag) (sc : StrConv) (tree : Option Json) :
    convPlain ts true tree = .ok none ∧ convHotspot sc true tree = .ok none := by
  simp [convPlain, convHotspot]

/-! ## 5. Wire formats: `fromJson (toJson r) = some r` (tree level) -/

theorem flow_roundtrip (r : Rec) (h : wtRec flowTags r = true) : decodeObj flowTags (encodeFields flowTags r) = some r :=
  decodeObj_encode flowTags r (by decide) h
theorem system_roundtrip (r : Rec) (h : wtRec systemTags r = true) : decodeObj systemTags (encodeFields systemTags r) = some r :=
  decodeObj_encode systemTags r (by decide) h
theorem cb_roundtrip (r : Rec) (h : wtRec cbTags r = true) : decodeObj cbTags (encodeFields cbTags r) = some r :=
  decodeObj_encode cbTags r (by decide) h
theorem isolation_roundtrip (r : Rec) (h : wtRec isolationTags r = true) :
    decodeObj isolationTags (encodeFields isolationTags r) = some r :=
  decodeObj_encode isolationTags r (by decide) h
theorem hotspot_roundtrip (r : Rec) (h : wtRec hotspotTags r = true) :
    decodeObj hotspotTags (encodeFields hotspotTags r) = some r :=
  decodeObj_encode hotspotTags r (by decide) h
theorem specificValue_roundtrip (v : SpecificValue) (h : v.wf = true) : SpecificValue.fromJson v.toJson = some v :=
  specific_roundtrip v h

/-- a whole rule list written in a module's wire format decodes to exactly the rules it describes -/
theorem list_roundtrip (ts : List Tag) (hnd : (ts.map Tag.json).Nodup) (rs : List Rec) (h : ∀ r ∈ rs, wtRec ts r = true) :
    convPlain ts false (some (.arr (rs.map (encodeObj ts)))) = .ok (some (some (rs.map some))) := by
  simp [convPlain, decodeList, decodeElems_encode ts hnd rs h]

/-- well-typed records exist (non-vacuity): a flow rule with every field set -/
example : wtRec flowTags [.s "id", .s "res", .i 1, .i 0, .f 0x4024000000000000, .i 0, .s "", .i 0, .i 10, .i 3, .i 1000,
    .i 0, .i 0, .i 0, .i 0] = true := by decide

/-! ## 6. The other two known findings, on the model -/

/-- `hotspot-paramkey-dropped`: the `paramKey` of a hotspot rule never reaches `hotspot.Rule.ParamKey` (field 5) -/
theorem hotspot_paramkey_dropped_witness (sc : StrConv) :
    convHotspot sc false (some (.arr [.obj [("resource", .str "h"), ("paramKey", .str "user")]])) =
      .ok (some (some [some [.s "", .s "h", .i 0, .i 0, .i 0, .s "", .i 0, .i 0, .i 0, .i 0, .i 0, .smap []]])) := by
  simp [convHotspot, decodeList, decodeElems, decodeObj, decodeKvs, setField, hotspotTags, zeroRec, decodeVal, Kind.zero,
    hotspotToCore, parseSpecific, WireList.elems]

/-- `stale-equal-rule`: a delivered rule that the module judges equal to one in force leaves the *old* object in force -/
theorem stale_equal_rule_witness (mo : Module R) (o r : R) (hval : mo.valid r = true) (heq : mo.equiv o r = true) :
    enforcedOf mo.valid mo.norm mo.equiv mo.reusable [o] (some (some [some r])) = [o] := by
  simp [enforcedOf, validElems, WireList.elems, reuseBuild, hval, heq]

/-! ## 7. Refreshable file source -/

/-- what holds of the file source at every moment -/
def FileInv (conv : B → Conv (WireList R)) (mo : Module R) (s : FileSrc B R) : Prop :=
  Inv mo s.hm ∧
  (s.closed = true ∨ s.rewatching = true → s.hm.2.enforced = []) ∧
  (s.closed = false → s.rewatching = false → s.pending = false → ∀ c v, s.content = some c → conv c = .ok v →
      List.Forall₂ (InForceFor mo) s.hm.2.enforced (validElems mo.valid v))

/-- For every sequence of events — in-place writes, the watcher looking at the file, removal, rename-away, re-creation
    during or after the re-watch retries, giving up, replacement by rename-over —:
    * while the source is open and idle (the watcher has looked after the last write, no re-watch in progress) the rules
      in force are those of the file's **current** content if that decodes (an undecodable content leaves the previous
      rules, by `faithful_or_rejected`); in particular a file re-created while the re-watch retries are pending **is
      loaded** (`recreate` falls through to the read);
    * while the file is away (re-watch in progress) and once the source has closed (removal, retries exhausted,
      rename-over, file never existed) the rules are cleared, and stay so. -/
theorem file_source_converges (conv : B → Conv (WireList R)) (eqv : Option (WireList R) → Option (WireList R) → Bool)
    (mo : Module R) (empty : B) (hsound : SoundFor mo eqv) (hempty : conv empty = .ok none) (c0 : Option B)
    (evs : List (FileEv B)) :
    FileInv conv mo (FileSrc.run conv eqv mo empty (FileSrc.init conv eqv mo c0).1 evs) := by
  have hinit : FileInv conv mo (FileSrc.init conv eqv mo c0).1 := by
    cases c0 with
    | none => exact ⟨inv_init mo, fun _ => rfl, fun h => by simp [FileSrc.init] at h⟩
    | some c =>
      refine ⟨inv_deliver conv eqv mo hsound _ c (inv_init mo), fun h => by simp [FileSrc.init] at h, ?_⟩
      intro _ _ _ c' v hc' hv
      simp only [FileSrc.init, Option.some.injEq] at hc'
      subst hc'
      exact deliver_ok_inforce conv eqv mo hsound _ _ (inv_init mo) v hv
  suffices h : ∀ s, FileInv conv mo s → FileInv conv mo (FileSrc.run conv eqv mo empty s evs) from h _ hinit
  induction evs with
  | nil => intro s hs; exact hs
  | cons e es ih =>
    intro s hs
    apply ih
    obtain ⟨h1, h2, h3⟩ := hs
    have hclear : ∀ hm, Inv mo hm → (deliver conv eqv mo hm empty).1.2.enforced = [] := fun hm hi =>
      (empty_clears conv eqv mo hm empty hsound hi (Or.inl hempty)).2
    cases hcl : s.closed <;> cases hrw : s.rewatching
    · -- open, not re-watching
      cases e with
      | write c =>
        unfold FileSrc.step
        by_cases hc : s.content.isSome = true
        · simp only [hc, if_true]
          exact ⟨h1, h2, fun _ _ hp => by simp at hp⟩
        · simp only [hc]; exact ⟨h1, h2, h3⟩
      | proc =>
        simp only [FileSrc.step, hcl, hrw, Bool.or_self, Bool.false_eq_true, if_false]
        cases hcont : s.content with
        | none => exact ⟨h1, h2, h3⟩
        | some c =>
          refine ⟨inv_deliver conv eqv mo hsound _ c h1, fun h => by simp [hcl, hrw] at h, ?_⟩
          intro _ _ _ c' v hc' hv
          have hcc : c = c' := by simpa [hcont] using hc'
          subst hcc
          exact deliver_ok_inforce conv eqv mo hsound _ _ h1 v hv
      | remove =>
        simp only [FileSrc.step, hcl, hrw, Bool.or_self, Bool.false_eq_true, if_false]
        exact ⟨inv_deliver conv eqv mo hsound _ empty h1, fun _ => hclear _ h1, fun h => by simp at h⟩
      | renameAway =>
        simp only [FileSrc.step, hcl, hrw, Bool.or_self, Bool.false_eq_true, if_false]
        exact ⟨inv_deliver conv eqv mo hsound _ empty h1, fun _ => hclear _ h1, fun _ h => by simp at h⟩
      | recreate c =>
        simp only [FileSrc.step, hcl, hrw, Bool.false_eq_true, if_false]
        exact ⟨h1, h2, h3⟩
      | giveUp =>
        simp only [FileSrc.step, hrw, Bool.false_eq_true, if_false]
        exact ⟨h1, h2, h3⟩
      | replaceOver c =>
        simp only [FileSrc.step, hcl, hrw, Bool.false_eq_true, if_false]
        have hi1 := inv_deliver conv eqv mo hsound _ c h1
        exact ⟨inv_deliver conv eqv mo hsound _ empty hi1, fun _ => hclear _ hi1, fun h => by simp at h⟩
    · -- open, re-watching: rules are cleared
      have hnil : s.hm.2.enforced = [] := h2 (Or.inr hrw)
      cases e with
      | write c =>
        unfold FileSrc.step
        by_cases hc : s.content.isSome = true
        · simp only [hc, if_true]
          exact ⟨h1, h2, fun _ h => by simp [hrw] at h⟩
        · simp only [hc]; exact ⟨h1, h2, h3⟩
      | proc =>
        simp only [FileSrc.step, hcl, hrw, Bool.or_true, if_true]
        exact ⟨h1, h2, h3⟩
      | remove =>
        simp only [FileSrc.step, hcl, hrw, Bool.or_true, if_true]
        exact ⟨h1, fun _ => hnil, fun _ h => by simp [hrw] at h⟩
      | renameAway =>
        simp only [FileSrc.step, hcl, hrw, Bool.or_true, if_true]
        exact ⟨h1, fun _ => hnil, fun _ h => by simp [hrw] at h⟩
      | recreate c =>
        simp only [FileSrc.step, hcl, hrw, Bool.false_eq_true, if_false, if_true]
        refine ⟨inv_deliver conv eqv mo hsound _ c h1, fun h => by simp [hcl] at h, ?_⟩
        intro _ _ _ c' v hc' hv
        have hcc : c = c' := by simpa using hc'
        subst hcc
        exact deliver_ok_inforce conv eqv mo hsound _ _ h1 v hv
      | giveUp =>
        simp only [FileSrc.step, hrw, if_true]
        exact ⟨h1, fun _ => hnil, fun h => by simp at h⟩
      | replaceOver c =>
        simp only [FileSrc.step, hcl, hrw, Bool.false_eq_true, if_false, if_true]
        refine ⟨inv_deliver conv eqv mo hsound _ c h1, fun h => by simp [hcl] at h, ?_⟩
        intro _ _ _ c' v hc' hv
        have hcc : c = c' := by simpa using hc'
        subst hcc
        exact deliver_ok_inforce conv eqv mo hsound _ _ h1 v hv
    all_goals
      -- closed: nothing but the path's content ever changes again
      have hnil : s.hm.2.enforced = [] := h2 (Or.inl hcl)
      cases e with
      | write c =>
        unfold FileSrc.step
        by_cases hc : s.content.isSome = true
        · simp only [hc, if_true]
          exact ⟨h1, fun _ => hnil, fun h => by simp [hcl] at h⟩
        · simp only [hc]; exact ⟨h1, h2, h3⟩
      | proc =>
        simp only [FileSrc.step, hcl, Bool.true_or, if_true]
        exact ⟨h1, h2, h3⟩
      | remove =>
        simp only [FileSrc.step, hcl, Bool.true_or, if_true]
        exact ⟨h1, fun _ => hnil, fun h => by simp [hcl] at h⟩
      | renameAway =>
        simp only [FileSrc.step, hcl, Bool.true_or, if_true]
        exact ⟨h1, fun _ => hnil, fun h => by simp [hcl] at h⟩
      | recreate c =>
        simp only [FileSrc.step, hcl, if_true]
        exact ⟨h1, fun _ => hnil, fun h => by simp [hcl] at h⟩
      | giveUp =>
        unfold FileSrc.step
        by_cases hr : s.rewatching = true
        · simp only [hr, if_true]
          exact ⟨h1, fun _ => hnil, fun h => by simp at h⟩
        · simp only [hr]; exact ⟨h1, h2, h3⟩
      | replaceOver c =>
        simp only [FileSrc.step, hcl, if_true]
        exact ⟨h1, fun _ => hnil, fun h => by simp [hcl] at h⟩

/-- Renaming the watched file away and **back unchanged** (or putting any file `c` there while the re-watch retries are
    pending — same size, same mtime or not: the model, like the code, looks at nothing but the content): from an open idle
    source, after `[renameAway, recreate c]` the rules are those of `c` again.  (`renameBack` is `recreate` with the content
    the file had; this is an instance of `file_source_converges`.) -/
theorem rename_away_and_back (conv : B → Conv (WireList R)) (eqv : Option (WireList R) → Option (WireList R) → Bool)
    (mo : Module R) (empty : B) (hsound : SoundFor mo eqv) (hempty : conv empty = .ok none) (c0 : Option B)
    (evs : List (FileEv B)) (c : B) (v : Option (WireList R)) (hv : conv c = .ok v) :
    let s := FileSrc.run conv eqv mo empty (FileSrc.init conv eqv mo c0).1 evs
    s.closed = false → s.rewatching = false →
    List.Forall₂ (InForceFor mo) (FileSrc.run conv eqv mo empty s [.renameAway, .recreate c]).hm.2.enforced
      (validElems mo.valid v) := by
  intro s hcl hrw
  have hrun : FileSrc.run conv eqv mo empty s [.renameAway, .recreate c] =
      FileSrc.run conv eqv mo empty (FileSrc.init conv eqv mo c0).1 (evs ++ [.renameAway, .recreate c]) := by
    simp [FileSrc.run, s, List.foldl_append]
  have hinv := file_source_converges conv eqv mo empty hsound hempty c0 (evs ++ [.renameAway, .recreate c])
  rw [← hrun] at hinv
  have h1 : (FileSrc.run conv eqv mo empty s [.renameAway, .recreate c]).closed = false := by
    simp [FileSrc.run, FileSrc.step, hcl, hrw]
  have h2 : (FileSrc.run conv eqv mo empty s [.renameAway, .recreate c]).rewatching = false := by
    simp [FileSrc.run, FileSrc.step, hcl, hrw]
  have h3 : (FileSrc.run conv eqv mo empty s [.renameAway, .recreate c]).pending = false := by
    simp [FileSrc.run, FileSrc.step, hcl, hrw]
  have h4 : (FileSrc.run conv eqv mo empty s [.renameAway, .recreate c]).content = some c := by
    simp [FileSrc.run, FileSrc.step, hcl, hrw]
  exact hinv.2.2 h1 h2 h3 c v h4 hv

/-- The file part of the property as stated: after any events that do not remove the file for good (no `remove`, no
    exhausted retries), once nothing is pending the rules are those of the current content. -/
def file_converges_statement : Prop :=
  ∀ {B R : Type} (conv : B → Conv (WireList R)) (eqv : Option (WireList R) → Option (WireList R) → Bool)
    (mo : Module R) (empty : B), SoundFor mo eqv → conv empty = .ok none → ∀ (c0 : B) (evs : List (FileEv B)),
    (∀ e ∈ evs, match e with | .remove => False | .giveUp => False | _ => True) →
    let s := FileSrc.run conv eqv mo empty (FileSrc.init conv eqv mo (some c0)).1 evs
    s.pending = false → s.rewatching = false → ∀ c v, s.content = some c → conv c = .ok v →
      List.Forall₂ (InForceFor mo) s.hm.2.enforced (validElems mo.valid v)

/-- Known finding `file-replace-over-closes-source`: a file replaced the way editors and config-management tools do it
    (temp file renamed over the path) leaves the rules **cleared** and the source closed, although the path holds a
    complete decodable file. -/
theorem replace_over_witness (conv : B → Conv (WireList R)) (eqv : Option (WireList R) → Option (WireList R) → Bool)
    (mo : Module R) (empty : B) (hsound : SoundFor mo eqv) (hempty : conv empty = .ok none) (c0 c : B) :
    let s := FileSrc.run conv eqv mo empty (FileSrc.init conv eqv mo (some c0)).1 [.replaceOver c]
    s.content = some c ∧ s.closed = true ∧ s.pending = false ∧ s.rewatching = false ∧ s.hm.2.enforced = [] := by
  have hi0 := inv_deliver conv eqv mo hsound ({}, {}) c0 (inv_init mo)
  have hi1 := inv_deliver conv eqv mo hsound _ c hi0
  refine ⟨rfl, rfl, rfl, rfl, ?_⟩
  exact (empty_clears conv eqv mo _ empty hsound hi1 (Or.inl hempty)).2

/-- … so the statement is false as it stands -/
theorem file_converges_false : ¬ file_converges_statement := by
  intro h
  -- one rule type `Unit`, every rule valid; bytes `Bool`: `true` = a file holding one rule, `false` = the empty source
  let conv : Bool → Conv (WireList Unit) := fun b => if b then .ok (some (some [some ()])) else .ok none
  have hs : SoundFor ({ valid := fun _ => true } : Module Unit) (fun a b => decide (a = b)) :=
    soundEq_soundFor _ _ (by intro a b hab; simpa using hab)
  have hw := replace_over_witness conv (fun a b => decide (a = b)) { valid := fun _ => true } false hs rfl true true
  have := h conv (fun a b => decide (a = b)) { valid := fun _ => true } false hs rfl true [.replaceOver true]
    (by intro e he; simp at he; subst he; trivial) hw.2.2.1 hw.2.2.2.1 true (some (some [some ()])) hw.1 rfl
  rw [hw.2.2.2.2] at this
  simp [validElems, WireList.elems] at this

/-- Without rename-over (and without removal / exhausted retries) the source never closes, so `file_source_converges`
    gives the statement: this is the `_partial`. -/
theorem file_converges_partial (conv : B → Conv (WireList R)) (eqv : Option (WireList R) → Option (WireList R) → Bool)
    (mo : Module R) (empty : B) (hsound : SoundFor mo eqv) (hempty : conv empty = .ok none) (c0 : B)
    (evs : List (FileEv B))
    (hev : ∀ e ∈ evs, match e with | .remove => False | .giveUp => False | .replaceOver _ => False | _ => True) :
    let s := FileSrc.run conv eqv mo empty (FileSrc.init conv eqv mo (some c0)).1 evs
    s.pending = false → s.rewatching = false → ∀ c v, s.content = some c → conv c = .ok v →
      List.Forall₂ (InForceFor mo) s.hm.2.enforced (validElems mo.valid v) := by
  intro s hp hr c v hc hv
  have hopen : ∀ (es : List (FileEv B)) (t : FileSrc B R),
      (∀ e ∈ es, match e with | .remove => False | .giveUp => False | .replaceOver _ => False | _ => True) →
      t.closed = false → (FileSrc.run conv eqv mo empty t es).closed = false := by
    intro es
    induction es with
    | nil => intro t _ ht; exact ht
    | cons e es ih =>
      intro t he ht
      apply ih _ (fun e' h' => he e' (List.mem_cons_of_mem _ h'))
      have h0 := he e (List.mem_cons_self ..)
      cases e with
      | remove => exact absurd h0 (by simp)
      | giveUp => exact absurd h0 (by simp)
      | replaceOver c => exact absurd h0 (by simp)
      | write c => cases hct : t.content <;> simp [FileSrc.step, ht, hct]
      | proc => cases hct : t.content <;> cases hrw : t.rewatching <;> simp [FileSrc.step, ht, hct, hrw]
      | renameAway => cases hrw : t.rewatching <;> simp [FileSrc.step, ht, hrw]
      | recreate c => cases hrw : t.rewatching <;> simp [FileSrc.step, ht, hrw]
  have hcl : s.closed = false := hopen evs _ hev rfl
  exact (file_source_converges conv eqv mo empty hsound hempty (some c0) evs).2.2 hcl hr hp c v hc hv

/-! ## 8. Proof depth: the exact region of the file statement, handler histories, redelivery in histories -/

/-- whether the source has closed is a function of the event history alone: it is closed exactly after a `ClosingHistory`
    (a `remove` or a rename-over while the file is watched, or the re-watch retries running out) -/
theorem closed_iff_closingHistory (conv : B → Conv (WireList R)) (eqv : Option (WireList R) → Option (WireList R) → Bool)
    (mo : Module R) (empty c0 : B) (evs : List (FileEv B)) :
    (FileSrc.run conv eqv mo empty (FileSrc.init conv eqv mo (some c0)).1 evs).closed = true ↔ ClosingHistory evs := by
  have h := phase_run conv eqv mo empty evs (FileSrc.init conv eqv mo (some c0)).1
  have h1 := congrArg Prod.fst h
  simp only [FileSrc.init] at h1
  unfold ClosingHistory phaseOf
  simp only [FileSrc.init]
  rw [h1]

/-- **Exact characterisation of the file statement.**  What keeps `file_converges_partial` partial is precisely the region
    `ClosingHistory` (which contains the recorded finding `file-replace-over-closes-source`: `[replaceOver c]`, and the two
    closings that are by design: removal, exhausted retries).  For an idle source whose path holds a decodable file with at
    least one valid rule: the rules in force are those of the file's current content **iff** the history is outside the
    region; inside the region the rules are empty whatever the file holds (`closingHistory_cleared`). -/
theorem file_converges_iff (conv : B → Conv (WireList R)) (eqv : Option (WireList R) → Option (WireList R) → Bool)
    (mo : Module R) (empty : B) (hsound : SoundFor mo eqv) (hempty : conv empty = .ok none) (c0 : B)
    (evs : List (FileEv B)) :
    let s := FileSrc.run conv eqv mo empty (FileSrc.init conv eqv mo (some c0)).1 evs
    s.pending = false → s.rewatching = false → ∀ c v, s.content = some c → conv c = .ok v → validElems mo.valid v ≠ [] →
      (List.Forall₂ (InForceFor mo) s.hm.2.enforced (validElems mo.valid v) ↔ ¬ ClosingHistory evs) := by
  intro s hp hr c v hc hv hne
  have hinv := file_source_converges conv eqv mo empty hsound hempty (some c0) evs
  have hcl := closed_iff_closingHistory conv eqv mo empty c0 evs
  constructor
  · intro hf hclosing
    have hnil : s.hm.2.enforced = [] := hinv.2.1 (Or.inl (hcl.mpr hclosing))
    rw [hnil] at hf
    cases hve : validElems mo.valid v with
    | nil => exact hne hve
    | cons x xs => rw [hve] at hf; cases hf
  · intro hno
    have : s.closed = false := by
      cases h : s.closed with
      | false => rfl
      | true => exact absurd (hcl.mp h) hno
    exact hinv.2.2 this hr hp c v hc hv

/-- inside the region the rules are empty, whatever the path holds -/
theorem closingHistory_cleared (conv : B → Conv (WireList R)) (eqv : Option (WireList R) → Option (WireList R) → Bool)
    (mo : Module R) (empty : B) (hsound : SoundFor mo eqv) (hempty : conv empty = .ok none) (c0 : B)
    (evs : List (FileEv B)) (h : ClosingHistory evs) :
    (FileSrc.run conv eqv mo empty (FileSrc.init conv eqv mo (some c0)).1 evs).hm.2.enforced = [] :=
  (file_source_converges conv eqv mo empty hsound hempty (some c0) evs).2.1
    (Or.inl ((closed_iff_closingHistory conv eqv mo empty c0 evs).mpr h))

/-- the region is inhabited: the recorded finding, a removal, exhausted retries … -/
theorem closingHistory_inhabited (c : B) :
    ClosingHistory [FileEv.replaceOver c] ∧ ClosingHistory ([FileEv.remove] : List (FileEv B)) ∧
    ClosingHistory ([.renameAway, .giveUp] : List (FileEv B)) := ⟨rfl, rfl, rfl⟩

/-- … and so is its complement (non-vacuity of the `iff`): writes, looks, rename-away + re-creation, rename-over into the
    absent path stay outside -/
example (c : B) : ¬ ClosingHistory [FileEv.write c, .proc, .renameAway, .recreate c, .write c, .proc, .renameAway, .replaceOver c] := by
  simp [ClosingHistory, phaseOf, phStep]

/-! ### handler histories with `base.add` / `base.remove` and arbitrary converter results (every byte string, every `ds.mode` wrapper) -/

theorem deliver_track (c : Conv (WireList R)) (eqv : Option (WireList R) → Option (WireList R) → Bool) (mo : Module R)
    (hsound : SoundFor mo eqv) (hm : Handler (WireList R) × Mgr R) (la : Option (WireList R)) (hinv : Inv mo hm)
    (hla : List.Forall₂ (InForceFor mo) hm.2.enforced (validElems mo.valid la)) :
    let r := deliver (fun (_ : Unit) => c) eqv mo hm ()
    Inv mo r.1 ∧ List.Forall₂ (InForceFor mo) r.1.2.enforced
      (validElems mo.valid (accVal c la)) := by
  intro r
  rcases deliver_cases (fun (_ : Unit) => c) eqv mo hm () with ⟨hp, hr⟩ | ⟨he, hr⟩ | ⟨v, hv, hc, hr⟩ | ⟨v, hv, _, hr⟩
  · have e : r = (hm, .ret .nil) := hr
    rw [e, hp]; exact ⟨hinv, by simpa [accVal] using hla⟩
  · have e : r = (hm, .ret .err) := hr
    rw [e, he]; exact ⟨hinv, by simpa [accVal] using hla⟩
  · have e : r = (hm, .ret .nil) := hr
    rw [e, hv]; exact ⟨hinv, by simpa [accVal] using hsound _ _ hc _ hinv⟩
  · have e : r = (({ last := v }, { enforced := enforcedOf mo.valid mo.norm mo.equiv mo.reusable hm.2.enforced v }), .ret .nil) := hr
    rw [e, hv]
    have hrel := reuseBuild_rel mo (validElems mo.valid v) hm.2.enforced
    exact ⟨by simpa [Inv, Sentinel.Datasource.Inv, enforcedOf] using hrel, by simpa [enforcedOf, accVal] using hrel⟩

/-- **History-level "faithful or rejected, never half-applied".**  After any sequence of deliveries (direct or through the
    Base; the converter result arbitrary: any payload, any mode wrapper), `AddPropertyHandler`s and `RemovePropertyHandler`s,
    the rules in force are those of the **last delivery that reached the handler and that the converter accepted** — up to
    the module's own rule equality (`InForceFor`: that is the `stale-equal-rule` region; `hotspot-paramkey-dropped` lives in
    the converter, which is a parameter here).  Deliveries that do not reach the handler (a Base without it), converter
    errors and converter panics leave everything as it was. -/
theorem history_faithful (eqv : Option (WireList R) → Option (WireList R) → Bool) (mo : Module R)
    (hsound : SoundFor mo eqv) (ops : List (HOp R)) :
    let s := hrun eqv mo {} ops
    Inv mo s.hm ∧ List.Forall₂ (InForceFor mo) s.hm.2.enforced (validElems mo.valid (lastAccepted true none ops)) := by
  suffices h : ∀ (s : HSt R) (la : Option (WireList R)), Inv mo s.hm →
      List.Forall₂ (InForceFor mo) s.hm.2.enforced (validElems mo.valid la) →
      Inv mo (hrun eqv mo s ops).hm ∧
      List.Forall₂ (InForceFor mo) (hrun eqv mo s ops).hm.2.enforced (validElems mo.valid (lastAccepted s.attached la ops)) from
    h {} none (inv_init mo) (by simp [validElems])
  have hcons : ∀ (s : HSt R) (o : HOp R) (os : List (HOp R)),
      hrun eqv mo s (o :: os) = hrun eqv mo (hstep eqv mo s o).1 os := fun _ _ _ => rfl
  induction ops with
  | nil => intro s la hi hl; exact ⟨hi, hl⟩
  | cons o os ih =>
    intro s la hi hl
    cases o with
    | add => exact ih { s with attached := true } la hi hl
    | remove => exact ih { s with attached := false } la hi hl
    | deliver c vb =>
      have ht := deliver_track c eqv mo hsound s.hm la hi hl
      cases vb with
      | false =>
        have hs : (hstep eqv mo s (.deliver c false)).1 =
            { s with hm := (deliver (fun (_ : Unit) => c) eqv mo s.hm ()).1 } := rfl
        rw [hcons, hs]
        have := ih { s with hm := (deliver (fun (_ : Unit) => c) eqv mo s.hm ()).1 } _ ht.1 ht.2
        simpa [lastAccepted] using this
      | true =>
        cases hatt : s.attached with
        | false =>
          have hs : (hstep eqv mo s (.deliver c true)).1 = s := by simp [hstep, hatt]
          rw [hcons, hs]
          have := ih s la hi hl
          simpa [lastAccepted, hatt] using this
        | true =>
          have hb := base_handle_single (fun (_ : Unit) => c) eqv mo s.hm ()
          have hs : (hstep eqv mo s (.deliver c true)).1 =
              { s with hm := (deliver (fun (_ : Unit) => c) eqv mo s.hm ()).1 } := by simp [hstep, hatt, hb]
          rw [hcons, hs]
          have := ih { s with hm := (deliver (fun (_ : Unit) => c) eqv mo s.hm ()).1 } _ ht.1 ht.2
          simpa [lastAccepted, hatt] using this

/-- a rejected delivery (converter error) changes nothing at all and returns the error — directly or through the Base -/
theorem rejected_changes_nothing (eqv : Option (WireList R) → Option (WireList R) → Bool) (mo : Module R) (s : HSt R)
    (vb : Bool) (hreach : reaches s.attached (HOp.deliver (R := R) .err vb) = true) :
    hstep eqv mo s (.deliver .err vb) = (s, some (.ret .err)) := by
  obtain ⟨hm0, att⟩ := s
  simp only at hreach ⊢
  have hd : deliver (fun (_ : Unit) => (Conv.err : Conv (WireList R))) eqv mo hm0 () = (hm0, .ret .err) := by
    rcases deliver_cases (fun (_ : Unit) => (Conv.err : Conv (WireList R))) eqv mo hm0 () with
      ⟨hp, _⟩ | ⟨_, hr⟩ | ⟨v, hv, _, _⟩ | ⟨v, hv, _, _⟩
    · cases hp
    · exact hr
    · cases hv
    · cases hv
  cases vb with
  | false => simp [hstep, hd]
  | true =>
    have hatt : att = true := by simpa [reaches] using hreach
    subst hatt
    have hb := base_handle_single (fun (_ : Unit) => (Conv.err : Conv (WireList R))) eqv mo hm0 ()
    simp [hstep, hb, hd]

/-- an updater that rejects what it is given (`ds.mode bad`, the circuit breaker with a value slice: the type-assertion
    error) leaves the downstream exactly as it was, and the error is returned — but the payload **is** remembered
    (`isPropertyConsistent` ran first), which is why such a handler is outside the property -/
theorem updater_error_keeps_rules {D M : Type} (conv : B → Conv D) (eqv : Option D → Option D → Bool)
    (upd : Option D → M → Upd M) (h : Handler D) (m : M) (src : B) (v : Option D)
    (hc : conv src = .ok v) (he : eqv v h.last = false) (hu : upd v m = .err m) :
    handle conv eqv upd h m src = ({ last := v }, m, Outcome.ret Ret.err) := by
  simp [handle, handleBody, recovered, hc, he, hu]

/-! ### idempotent redelivery inside histories -/

theorem hstep_dup (eqv : Option (WireList R) → Option (WireList R) → Bool) (mo : Module R)
    (hrefl : ∀ v, eqv v v = true) (s : HSt R) (o : HOp R) :
    hstep eqv mo (hstep eqv mo s o).1 o = ((hstep eqv mo s o).1, (hstep eqv mo s o).2) := by
  cases o with
  | add => rfl
  | remove => rfl
  | deliver c vb =>
    have hn := redelivery_noop (fun (_ : Unit) => c) eqv mo s.hm () (fun v _ => hrefl v)
    simp only [] at hn
    cases vb with
    | false => simp [hstep, hn]
    | true =>
      cases hatt : s.attached with
      | false => simp [hstep, hatt]
      | true =>
        have hb := base_handle_single (fun (_ : Unit) => c) eqv mo s.hm ()
        have hb2 := base_handle_single (fun (_ : Unit) => c) eqv mo (deliver (fun (_ : Unit) => c) eqv mo s.hm ()).1 ()
        simp [hstep, hatt, hb, hb2, hn]

theorem hrun_append (eqv : Option (WireList R) → Option (WireList R) → Bool) (mo : Module R) (s : HSt R)
    (xs ys : List (HOp R)) : hrun eqv mo s (xs ++ ys) = hrun eqv mo (hrun eqv mo s xs) ys := by
  simp [hrun, List.foldl_append]

/-- **Idempotent redelivery at history level** (side condition: `DeepEqual` recognises a value as itself — always, except
    for a NaN specific-item key and the in-place normalised warm-up rule, see notes): inserting a duplicate of any operation
    right after it — a delivery, direct or through the Base, or a handler addition/removal — anywhere in a history yields the
    same state, the duplicate returns what the original returned, and **every later observation is unchanged**. -/
theorem redelivery_history_noop (eqv : Option (WireList R) → Option (WireList R) → Bool) (mo : Module R)
    (hrefl : ∀ v, eqv v v = true) (s : HSt R) (pre post : List (HOp R)) (o : HOp R) :
    hrun eqv mo s (pre ++ [o, o]) = hrun eqv mo s (pre ++ [o]) ∧
    (hstep eqv mo (hrun eqv mo s (pre ++ [o])) o).2 = (hstep eqv mo (hrun eqv mo s pre) o).2 ∧
    hobs eqv mo (hrun eqv mo s (pre ++ [o, o])) post = hobs eqv mo (hrun eqv mo s (pre ++ [o])) post ∧
    hrun eqv mo s (pre ++ o :: o :: post) = hrun eqv mo s (pre ++ o :: post) := by
  have hd := hstep_dup eqv mo hrefl (hrun eqv mo s pre) o
  have h1 : hrun eqv mo s (pre ++ [o, o]) = hrun eqv mo s (pre ++ [o]) := by
    rw [hrun_append, hrun_append]
    simp only [hrun, List.foldl_cons, List.foldl_nil]
    exact congrArg Prod.fst hd
  have h2 : (hstep eqv mo (hrun eqv mo s (pre ++ [o])) o).2 = (hstep eqv mo (hrun eqv mo s pre) o).2 := by
    rw [hrun_append]
    simp only [hrun, List.foldl_cons, List.foldl_nil]
    exact congrArg Prod.snd hd
  refine ⟨h1, h2, by rw [h1], ?_⟩
  have e1 : pre ++ o :: o :: post = (pre ++ [o, o]) ++ post := by simp
  have e2 : pre ++ o :: post = (pre ++ [o]) ++ post := by simp
  rw [e1, e2, hrun_append eqv mo s (pre ++ [o, o]) post, hrun_append eqv mo s (pre ++ [o]) post, h1]

/-- without any assumption on `DeepEqual`, for the modules that never reuse rule objects (system, circuit breaker, isolation) -/
theorem redelivery_history_noop_exact (eqv : Option (WireList R) → Option (WireList R) → Bool)
    (valid : R → Bool) (norm : R → R) (hm : Handler (WireList R) × Mgr R) (c : Conv (WireList R)) (post : List (HOp R))
    (att : Bool) :
    let mo : Module R := { valid := valid, norm := norm }
    hobs eqv mo (hrun eqv mo { hm := hm, attached := att } [.deliver c false, .deliver c false]) post =
      hobs eqv mo (hrun eqv mo { hm := hm, attached := att } [.deliver c false]) post := by
  intro mo
  have hn := redelivery_noop_exact (fun (_ : Unit) => c) eqv valid norm hm ()
  simp only [] at hn
  have : hrun eqv mo { hm := hm, attached := att } [.deliver c false, .deliver c false] =
      hrun eqv mo { hm := hm, attached := att } [.deliver c false] := by
    simp [hrun, hstep, mo, hn]
  rw [this]

end Sentinel.C18
