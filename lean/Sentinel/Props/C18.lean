import Mathlib.Tactic
import Sentinel.Lemmas.Datasource
/-!
# C18 — Datasource payloads are applied faithfully or rejected, never half-applied

All statements are about `Sentinel.Datasource.handle / deliver / FileSrc.step` and the table-driven codec
(`decodeObj / encodeFields` over `flowTags … hotspotTags`), i.e. the definitions `Sentinel.Drv.C18` executes.

Quantification: the byte type `B`, the converter `conv : B → Conv _` (so: **every byte string**, whatever the text
parser makes of it), Go's `reflect.DeepEqual` (`eqv`, nothing assumed — it is not reflexive in Go), the module's
validity predicate, normalisation and rule-equality (`Module`) are all universally quantified.
-/
namespace Sentinel.C18
open Sentinel.Datasource

variable {B D M R : Type}

/-! ## 1. `Handle` never panics out to the datasource -/

/-- whatever the converter and the updater do (error, panic, success), `Handle` returns normally -/
theorem never_panics_out (conv : B → Conv D) (eqv : Option D → Option D → Bool) (upd : Option D → M → Upd M)
    (h : Handler D) (m : M) (src : B) :
    ∃ h' m' r, handle conv eqv upd h m src = (h', m', Outcome.ret r) := by
  unfold handle handleBody recovered
  cases conv src with
  | err => exact ⟨_, _, _, rfl⟩
  | panic => exact ⟨_, _, _, rfl⟩
  | ok v =>
    by_cases he : eqv v h.last = true
    · simp only [he, if_true]; exact ⟨_, _, _, rfl⟩
    · simp only [he]
      cases upd v m <;> exact ⟨_, _, _, rfl⟩

/-- the body alone does let a panic through (the `recover` is what the theorem above is about) -/
example : (handleBody (fun (_ : Unit) => (Conv.panic : Conv Unit)) (fun _ _ => true)
    (fun _ (m : Unit) => Upd.ok m) {} () ()).2.2 = Outcome.panicked := rfl

/-- latent: a panicking updater is swallowed too — `nil` is returned and the payload is remembered (not reachable
    with the five real updaters since fix 9992752; kept as a statement about the handler) -/
theorem updater_panic_is_swallowed (conv : B → Conv D) (eqv : Option D → Option D → Bool)
    (upd : Option D → M → Upd M) (h : Handler D) (m m' : M) (src : B) (v : Option D)
    (hc : conv src = .ok v) (he : eqv v h.last = false) (hu : upd v m = .panic m') :
    handle conv eqv upd h m src = ({ last := v }, m', Outcome.ret Ret.nil) := by
  simp [handle, handleBody, recovered, hc, he, hu]

/-! ## 2. Faithful or rejected -/

/-- the invariant of a handler/manager pair that only this handler feeds: the rules in force are the valid rules of
    the property the handler remembers — each one either the delivered rule (normalised) or an older rule object that
    the module itself judges equal to it (`isEqualsTo` / `Equals`) -/
abbrev Inv (mo : Module R) (s : Handler (WireList R) × Mgr R) : Prop := Sentinel.Datasource.Inv mo s

theorem inv_init (mo : Module R) : Inv mo (({}, {}) : Handler (WireList R) × Mgr R) := by
  simp [Inv, Sentinel.Datasource.Inv, validElems]

/-- `reflect.DeepEqual` never claims equality of two different values.  (Go's does so in exactly one corner: `+0.0`
    and `-0.0` in a float field; that corner is part of known finding `stale-equal-rule`.) -/
def SoundEq (eqv : Option D → Option D → Bool) : Prop := ∀ a b, eqv a b = true → a = b

/-- The property as stated, for one delivery: a converter either yields a value or an error (it must not panic);
    a value is applied — `nil` returned, the valid rules of *that* list in force — and an error leaves everything as
    it was. -/
def faithful_or_rejected_statement : Prop :=
  ∀ {B R : Type} (conv : B → Conv (WireList R)) (eqv : Option (WireList R) → Option (WireList R) → Bool)
    (mo : Module R) (s : Handler (WireList R) × Mgr R) (src : B), SoundEq eqv → Inv mo s →
    let r := deliver conv eqv mo s src
    Inv mo r.1 ∧
    ((∃ v, conv src = .ok v ∧ r.2 = .ret .nil ∧
        List.Forall₂ (InForceFor mo) r.1.2.enforced (validElems mo.valid v)) ∨
     (conv src = .err ∧ r.2 = .ret .err ∧ r.1 = s))

/-- proved for every converter result except a converter *panic* -/
theorem faithful_or_rejected_partial (conv : B → Conv (WireList R))
    (eqv : Option (WireList R) → Option (WireList R) → Bool)
    (mo : Module R) (s : Handler (WireList R) × Mgr R) (src : B) (hsound : SoundEq eqv) (hinv : Inv mo s)
    (hnp : conv src ≠ .panic) :
    let r := deliver conv eqv mo s src
    Inv mo r.1 ∧
    ((∃ v, conv src = .ok v ∧ r.2 = .ret .nil ∧
        List.Forall₂ (InForceFor mo) r.1.2.enforced (validElems mo.valid v)) ∨
     (conv src = .err ∧ r.2 = .ret .err ∧ r.1 = s)) := by
  intro r
  rcases deliver_cases conv eqv mo s src with ⟨hp, _⟩ | ⟨he, hr⟩ | ⟨v, hv, hc, hr⟩ | ⟨v, hv, _, hr⟩
  · exact absurd hp hnp
  · have : r = (s, .ret .err) := hr
    rw [this]; exact ⟨hinv, Or.inr ⟨he, rfl, rfl⟩⟩
  · have : r = (s, .ret .nil) := hr
    rw [this]
    have hl : v = s.1.last := hsound _ _ hc
    exact ⟨hinv, Or.inl ⟨v, hv, rfl, by simpa [Inv, Sentinel.Datasource.Inv, hl] using hinv⟩⟩
  · have : r = (({ last := v }, { enforced := enforcedOf mo.valid mo.norm mo.equiv s.2.enforced v }), .ret .nil) := hr
    rw [this]
    have hrel := reuseBuild_rel mo (validElems mo.valid v) s.2.enforced
    exact ⟨by simpa [Inv, Sentinel.Datasource.Inv, enforcedOf] using hrel,
      Or.inl ⟨v, hv, rfl, by simpa [enforcedOf] using hrel⟩⟩

end Sentinel.C18
