import Sentinel.Model.PoolFacts
import Sentinel.Gen.PoolFacts
/-!
# C01, regenerated obligation: the pooled objects are used with discipline

`Sentinel.Gen.PoolFacts` is extracted from the source tree on every run.  The theorem below is what the pooled
model (`Sentinel/Model/EntryPool.lean`) takes for granted about `api.entry`, `EntryContext.Reset`,
`EntryOptions.Reset` and `SentinelEntry`; on the tree before `3ae3ba7` it fails at
`SentinelInput.Args ← alias EntryOptions.args` (owner truncates, does not drop), before `89ee7f5` at the guards.
-/
namespace Sentinel.C01Pool
open Sentinel.PoolFacts Sentinel.Gen.PoolFacts

theorem pool_discipline : disciplined fields assigns guards = true := by decide

/-- the defect `args-alias` as a table row: the check rejects it -/
theorem args_alias_rejected :
    aliasesDropped fields [⟨"SentinelInput.Args", false, .alias "EntryOptions.args"⟩] = false ∧
    keptArraysCopied fields [⟨"SentinelInput.Args", false, .alias "EntryOptions.args"⟩] = false := by decide

/-- the defect `late-exit-error` as guards: rejected -/
theorem unguarded_rejected : guarded ⟨false, true, false, false, true⟩ = false := by decide

end Sentinel.C01Pool
