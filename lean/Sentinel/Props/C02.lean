import Mathlib.Tactic
import Sentinel.Model.FlowReject
namespace Sentinel.C02
open Sentinel.LA Sentinel.FlowReject

/-- placeholder while the refinement proof is being ported -/
theorem exceeds_mono (T : Thr) {N N' : Nat} (h : N ≤ N') (he : T.exceeds N = true) : T.exceeds N' = true := by
  cases T with
  | unbounded => simp [Thr.exceeds] at he
  | invalid => simp [Thr.exceeds] at he
  | frac num den =>
    simp only [Thr.exceeds, decide_eq_true_eq] at he ⊢
    exact lt_of_lt_of_le he (Nat.mul_le_mul_right _ h)

end Sentinel.C02
