import Sentinel.Lemmas.FlowReject
import Sentinel.Lemmas.FlowRejectConc
import Sentinel.Lemmas.FlowRejectG
import Sentinel.Lemmas.FlowRejectBurstG
import Sentinel.Lemmas.FlowRejectOracle
/-!
# C02 — a reject-mode QPS flow rule admits exactly up to the threshold per statistic window
(property theorems only; the refinement lemmas live in `Sentinel/Lemmas/FlowReject.lean`)

Reading guide.  `load rules t0` is `flow.LoadRules(rules)` at time `t0` into an empty manager;
`runEntries s as` feeds the arrivals `as : List Arrival` (`t`, `res`, batch `b`) through the code-shaped
`entry` (prepare slot, `Slot.Check` over the resource's controllers in order, statistic slots after the
checks, leap arrays underneath) and returns the decisions (`none` = admitted, `some i` = blocked by the
`i`-th loaded rule).  These are the definitions the driver executes against the implementation.

The **reference** has no arrays: `refRun srcOf infos H as` keeps only the list `H` of admitted arrivals and
decides by filter-and-sum, `windowTokens H r L Iv now` = tokens of resource `r` admitted in the buckets
`[cbs L now + L - Iv, cbs L now]`.  `srcOf` says whose traffic a rule counts: `demanded c = c.rule.src`
(own resource, or `RefResource` for an associated rule) is what the property says; `RuleInfo.feed` is what
the code does (they differ exactly for associated rules with an independent window: the known finding
`assoc-standalone-own-traffic`).
-/
namespace Sentinel.C02
open Sentinel.LA Sentinel.FlowReject

/-- the resource whose admitted tokens a rule must count according to the property -/
def demanded (c : RuleInfo) : Nat := c.rule.src

/-! ## thresholds are read exactly -/

/-- `x > T` for a finite threshold `T = num/den` is the exact rational comparison -/
theorem exceeds_frac_iff (num den N : Nat) (hd : 0 < den) :
    (Thr.frac num den).exceeds N = true ↔ (num : ℚ) / den < N := by
  simp only [Thr.exceeds, decide_eq_true_eq]
  rw [div_lt_iff₀ (by exact_mod_cast hd)]
  exact_mod_cast Iff.rfl

/-- decoding of IEEE-754 bit patterns: 2.0, 0.5, 2.5, +Inf, NaN, -1.0 (invalid), -0.0 (valid, zero) -/
theorem ofBits_samples :
    Thr.ofBits 0x4000000000000000 = .frac (2^52) (2^51) ∧ Thr.ofBits 0x3fe0000000000000 = .frac (2^52) (2^53) ∧
    Thr.ofBits 0x4004000000000000 = .frac (5 * 2^50) (2^51) ∧
    Thr.ofBits 0x7ff0000000000000 = .unbounded ∧ Thr.ofBits 0x7ff8000000000001 = .unbounded ∧
    Thr.ofBits 0xbff0000000000000 = .invalid ∧ Thr.ofBits 0xfff0000000000000 = .invalid ∧
    (Thr.ofBits 0x8000000000000000 matches .frac 0 _) := by
  decide

/-! ## sequential part -/

/-- **the model is the reference with the as-is wiring** — for every rule list (valid or not, any thresholds,
any intervals, associated or not), every load time and every monotone arrival history, the decisions of the
code-shaped model (including *which* rule blocks) are those of the array-free reference over the admitted
history; valid across any number of bucket and array-cycle boundaries and idle gaps of any length. -/
theorem run_eq_ref_asis (rules : List Rule) (t0 : Nat) (h0 : 0 < t0) (as : List Arrival) (hm : MonoA t0 as) :
    (runEntries (load rules t0) as).2 = (refRun RuleInfo.feed (compile rules) [] as).2 :=
  (runEntries_eq_refRun (load_rep rules t0 h0) h0 as hm).1

/-- **C02 `admit_iff`, full statement**: decisions equal the reference in which every rule counts the
resource the property names (`RefResource` for associated rules). False on the pinned tree: `assoc_standalone_witness`. -/
def admit_iff_statement : Prop :=
  ∀ (rules : List Rule) (t0 : Nat), 0 < t0 → ∀ as : List Arrival, MonoA t0 as →
    (runEntries (load rules t0) as).2 = (refRun demanded (compile rules) [] as).2

/-- **C02 `admit_iff`** outside the known finding: if no loaded rule is (associated ∧ independent window ∧
`RefResource ≠ Resource`), every decision is the one the property demands. -/
theorem admit_iff_partial (rules : List Rule) (hreg : ∀ c ∈ compile rules, c.inFinding = false)
    (t0 : Nat) (h0 : 0 < t0) (as : List Arrival) (hm : MonoA t0 as) :
    (runEntries (load rules t0) as).2 = (refRun demanded (compile rules) [] as).2 := by
  rw [run_eq_ref_asis rules t0 h0 as hm]
  congr 1
  apply refRun_congr
  intro c hc
  have := hreg c hc
  simpa [RuleInfo.inFinding, demanded] using this

/-- the same, arrival by arrival and as an `iff`: after any history `as`, the next request `a` is admitted
**iff** for every rule in force on `a.res` the tokens already admitted in that rule's aligned window plus the
batch do not exceed the threshold (`H` = the arrivals admitted so far, recomputed by the reference). -/
theorem admit_iff_pointwise (rules : List Rule) (hreg : ∀ c ∈ compile rules, c.inFinding = false)
    (t0 : Nat) (h0 : 0 < t0) (as : List Arrival) (a : Arrival) (hm : MonoA t0 (as ++ [a])) :
    (runEntries (load rules t0) (as ++ [a])).2.getLast? = some none ↔
      ∀ c ∈ compile rules, c.rule.res = a.res →
        c.rule.thr.exceeds (windowTokens (refRun demanded (compile rules) [] as).1 (demanded c) c.L c.Iv a.t + a.b) = false := by
  rw [admit_iff_partial rules hreg t0 h0 _ hm, ← refCheck_none_iff, refRun_snoc]
  simp

/-- **no spurious block**: a block always names a rule in force on that resource whose window really has no room -/
theorem no_spurious_block (rules : List Rule) (t0 : Nat) (h0 : 0 < t0) (as : List Arrival) (a : Arrival)
    (hm : MonoA t0 as) (hle : ∀ x ∈ as, x.t ≤ a.t) (hle0 : t0 ≤ a.t) (i : Nat)
    (hb : (entry (runEntries (load rules t0) as).1 a.res a.t a.b).2 = some i) :
    ∃ c ∈ compile rules, c.idx = i ∧ c.rule.res = a.res ∧
      c.rule.thr.exceeds (windowTokens (refRun RuleInfo.feed (compile rules) [] as).1 c.feed c.L c.Iv a.t + a.b) = true := by
  obtain ⟨l, hla, _, rep⟩ := runEntries_rep_le (load_rep rules t0 h0) h0 a.t hle0 as hm hle
  have hpos : 0 < a.t := lt_of_lt_of_le h0 hle0
  obtain ⟨hd, _⟩ := entry_step rep hla hpos a.res a.b
  rw [hd] at hb
  exact refCheck_some _ _ _ _ _ _ _ hb

/-- **window cap**: along every monotone history, for every rule in force that counts its own resource
(`CurrentResource`, or an associated rule naming its own resource) and for **every** window position `e`
of that rule's geometry, the admitted tokens never exceed the threshold.  (`H` is the admitted history.) -/
theorem window_cap (rules : List Rule) (t0 : Nat) (as : List Arrival) (hm : MonoA t0 as)
    (c : RuleInfo) (hc : c ∈ compile rules) (hown : c.feed = c.rule.res) (e : Nat) :
    c.rule.thr.exceeds (refW c.L (histOf (refRun RuleInfo.feed (compile rules) [] as).1 c.rule.res) (e + c.L - c.Iv) e) = false := by
  obtain ⟨l, cp⟩ := refRun_capped (Capped.nil RuleInfo.feed (compile rules) t0) as hm
  exact cp.cap c hc hown e

/-- the cap read off the **model's** counter: in every reachable state, at every later instant, the window sum
the controller reads from its leap array (`readOnlyMetric.GetSum(pass)`) does not exceed the threshold. -/
theorem window_cap_model (rules : List Rule) (t0 : Nat) (h0 : 0 < t0) (as : List Arrival) (hm : MonoA t0 as)
    (now : Nat) (hle : ∀ x ∈ as, x.t ≤ now) (hle0 : t0 ≤ now)
    (c : Ctrl) (hc : c ∈ (runEntries (load rules t0) as).1.ctrls) (hown : c.info.feed = c.rule.res) :
    c.rule.thr.exceeds (c.cur (runEntries (load rules t0) as).1.nodes now) = false := by
  obtain ⟨l, hl, _, rep⟩ := runEntries_rep_le (load_rep rules t0 h0) h0 now hle0 as hm hle
  rw [rep.cur_eq hl c hc, hown]
  have hci : c.info ∈ compile rules := by rw [← rep.shape]; exact List.mem_map_of_mem hc
  exact window_cap rules t0 as hm c.info hci hown (cbs c.info.L now)

/-- **blocked requests consume nothing**: a blocked entry leaves every later decision of every later
history unchanged (the state it leaves behind is indistinguishable from the one it found). -/
theorem blocked_consumes_nothing {infos : List RuleInfo} {s : St} {H : List Arrival} {latest : Nat}
    (rep : Rep infos s H latest) (a : Arrival) (hle : latest ≤ a.t) (h0 : 0 < latest) (i : Nat)
    (hb : (entry s a.res a.t a.b).2 = some i) (as : List Arrival) (hm : MonoA a.t as) :
    (runEntries (entry s a.res a.t a.b).1 as).2 = (runEntries s as).2 := by
  have hpos : 0 < a.t := lt_of_lt_of_le h0 hle
  obtain ⟨_, rep'⟩ := entry_step rep hle hpos a.res a.b
  rw [hb] at rep'
  simp only [Option.isNone_some, Bool.false_eq_true, if_false] at rep'
  rw [(runEntries_eq_refRun rep' hpos as hm).1, (runEntries_eq_refRun rep h0 as (hm.weaken hle)).1]

/-- a reachable state satisfies the invariant used by `blocked_consumes_nothing` -/
theorem reachable_rep (rules : List Rule) (t0 : Nat) (h0 : 0 < t0) (as : List Arrival) (hm : MonoA t0 as) :
    ∃ latest, t0 ≤ latest ∧ Rep (compile rules) (runEntries (load rules t0) as).1 (refRun RuleInfo.feed (compile rules) [] as).1 latest :=
  (runEntries_eq_refRun (load_rep rules t0 h0) h0 as hm).2


/-! ## concurrent part: `k` callers inside the admission path

The yield point `chain.between-check-and-stat` splits an entry into its check phase and its statistic
phase; `runSched s now ths sched` executes the threads `ths` under the schedule `sched` (any interleaving
of those phases) on the code-shaped model, `refRunSched` does the same on the array-free reference, where
the admitted history grows when an admitted thread *records*. -/

/-- **tie at yield-point granularity**: for every reachable state, every set of threads (any number, any
resources, any batches) and every schedule, the model's per-thread decisions are those of the reference small step. -/
theorem sched_eq_ref (rules : List Rule) (t0 : Nat) (h0 : 0 < t0) (as : List Arrival) (hm : MonoA t0 as)
    (now : Nat) (hle : ∀ x ∈ as, x.t ≤ now) (hle0 : t0 ≤ now)
    (ths : List Thread) (hfresh : ∀ th ∈ ths, th.st = none) (sched : List Nat) :
    (runSched (runEntries (load rules t0) as).1 now ths sched).2 =
      (refRunSched RuleInfo.feed (compile rules) (refRun RuleInfo.feed (compile rules) [] as).1 now ths sched).2 := by
  obtain ⟨l, hl, hl0, rep⟩ := runEntries_rep_le (load_rep rules t0 h0) h0 now hle0 as hm hle
  exact (runSched_eq_ref rep hl (lt_of_lt_of_le hl0 hl) ths
    (fun th hth d hd => by rw [hfresh th hth] at hd; cases hd) sched).1

/-- **overshoot bound of a burst** (reference small step, any number of threads, any schedule that keeps at
most `k` callers between check and record): for a rule that counts its own resource and has the finite cap
`t = ⌊T⌋`, if the window held at most `t` tokens before the burst then after it the window holds at most
`t + (k-1)·B` tokens, `B` = the largest batch. -/
theorem burst_overshoot (f : RuleInfo → Nat) (cs : List RuleInfo) (c : RuleInfo) (hc : c ∈ cs) (hf : f c = c.rule.res)
    (t : Nat) (hcap : c.rule.thr.cap = some t) (k B now : Nat) (H : List Arrival)
    (h0 : windowTokens H c.rule.res c.L c.Iv now ≤ t)
    (ths : List Thread) (hfresh : ∀ th ∈ ths, th.st = none) (hB : ∀ th ∈ ths, th.b ≤ B)
    (sched : List Nat) (hw : WidthOk k f cs H now ths sched) :
    windowTokens (refRunSched f cs H now ths sched).1 c.rule.res c.L c.Iv now ≤ t + (k - 1) * B := by
  have hz : (ths.map (pending c.rule.res)).sum = 0 := by
    apply List.sum_eq_zero
    intro x hx
    obtain ⟨th, hth, rfl⟩ := List.mem_map.mp hx
    simp [pending, hfresh th hth]
  have bu : Burst f cs c t k B now H ths := ⟨by rw [hz]; omega, hB⟩
  have := (bu.run hc hf hcap sched hw).bound
  omega

/-- the same bound read off the **model's** counter: after the burst the controller's window sum
(`readOnlyMetric.GetSum(pass)` on the leap array) is at most `t + (k-1)·B`. -/
theorem burst_overshoot_model {infos : List RuleInfo} {s : St} {H : List Arrival} {latest : Nat}
    (rep : Rep infos s H latest) (now : Nat) (hle : latest ≤ now) (h0 : 0 < now)
    (ths : List Thread) (hfresh : ∀ th ∈ ths, th.st = none) (B : Nat) (hB : ∀ th ∈ ths, th.b ≤ B)
    (k : Nat) (sched : List Nat) (hw : WidthOk k RuleInfo.feed infos H now ths sched)
    (c : Ctrl) (hc : c ∈ (runSched s now ths sched).1.ctrls) (hown : c.info.feed = c.rule.res)
    (t : Nat) (hcap : c.rule.thr.cap = some t)
    (hbefore : windowTokens H c.rule.res c.info.L c.info.Iv now ≤ t) :
    c.cur (runSched s now ths sched).1.nodes now ≤ t + (k - 1) * B := by
  obtain ⟨_, rep'⟩ := runSched_eq_ref rep hle h0 ths
    (fun th hth d hd => by rw [hfresh th hth] at hd; cases hd) sched
  rw [rep'.cur_eq (le_refl _) c hc, hown]
  have hci : c.info ∈ infos := by rw [← rep'.shape]; exact List.mem_map_of_mem hc
  exact burst_overshoot RuleInfo.feed infos c.info hci hown t hcap k B now H hbefore ths hfresh hB sched hw

/-- **C02, concurrent clause, end to end on the model**: after any monotone sequential history, a burst of any
number of callers at `now`, under any schedule with at most `k` of them between check and record, leaves the
window counter of every own-traffic rule with finite cap `t = ⌊T⌋` at most `(k-1)·B` above the cap. -/
theorem par_overshoot (rules : List Rule) (t0 : Nat) (h0 : 0 < t0) (as : List Arrival) (hm : MonoA t0 as)
    (now : Nat) (hle : ∀ x ∈ as, x.t ≤ now) (hle0 : t0 ≤ now)
    (ths : List Thread) (hfresh : ∀ th ∈ ths, th.st = none) (B : Nat) (hB : ∀ th ∈ ths, th.b ≤ B)
    (k : Nat) (sched : List Nat)
    (hw : WidthOk k RuleInfo.feed (compile rules) (refRun RuleInfo.feed (compile rules) [] as).1 now ths sched)
    (c : Ctrl) (hc : c ∈ (runSched (runEntries (load rules t0) as).1 now ths sched).1.ctrls)
    (hown : c.info.feed = c.rule.res) (t : Nat) (hcap : c.rule.thr.cap = some t) :
    c.cur (runSched (runEntries (load rules t0) as).1 now ths sched).1.nodes now ≤ t + (k - 1) * B := by
  obtain ⟨l, hl, hl0, rep⟩ := runEntries_rep_le (load_rep rules t0 h0) h0 now hle0 as hm hle
  have hpos : 0 < now := lt_of_lt_of_le hl0 hl
  obtain ⟨_, rep'⟩ := runSched_eq_ref rep hl hpos ths
    (fun th hth d hd => by rw [hfresh th hth] at hd; cases hd) sched
  have hci : c.info ∈ compile rules := by rw [← rep'.shape]; exact List.mem_map_of_mem hc
  refine burst_overshoot_model rep now hl hpos ths hfresh B hB k sched hw c hc hown t hcap ?_
  have hcapd := window_cap rules t0 as hm c.info hci hown (cbs c.info.L now)
  by_contra hx
  have : c.rule.thr.exceeds (windowTokens (refRun RuleInfo.feed (compile rules) [] as).1 c.rule.res c.info.L c.info.Iv now) = true :=
    (Thr.exceeds_iff_cap _ _).mpr ⟨t, hcap, by omega⟩
  unfold windowTokens at this
  have hcapd' : c.rule.thr.exceeds (refW c.info.L (histOf (refRun RuleInfo.feed (compile rules) [] as).1 c.rule.res)
      (cbs c.info.L now + c.info.L - c.info.Iv) (cbs c.info.L now)) = false := hcapd
  rw [this] at hcapd'
  cases hcapd'

/-- `WidthOk` is satisfiable with callers really overlapping: two callers, both checked before either records -/
example : WidthOk 2 RuleInfo.feed [] [] 1000 [{ res := 1, b := 1 }, { res := 1, b := 1 }] [0, 1, 0, 1] := by
  simp [WidthOk, refStepThread, refCheck, nParked, parked]

/-- **any number of threads, any schedule, window rolls at any moment** (abstract small step with
batches as weights): if at most `k` threads are between check and record, the window sum never exceeds
`T + (k-1)·B`. -/
theorem overshoot_any_schedule (T k B S0 : Nat) (hS : S0 ≤ T) (bs : List Nat) (hB : ∀ b ∈ bs, b ≤ B) (acts : List Abs.Act) :
    (Abs.run T k { S := S0, th := bs.map fun b => { b := b, pc := .idle } } acts).S ≤ T + (k - 1) * B := by
  have hz : ((bs.map fun b => ({ b := b, pc := .idle } : Abs.AThread)).map Abs.owed).sum = 0 := by
    apply List.sum_eq_zero
    intro x hx
    simp only [List.map_map, List.mem_map, Function.comp] at hx
    obtain ⟨b, _, rfl⟩ := hx
    simp [Abs.owed]
  have inv : Abs.Inv T k B { S := S0, th := bs.map fun b => { b := b, pc := .idle } } :=
    ⟨by dsimp only; rw [hz]; omega, by
      intro t ht
      simp only [List.mem_map] at ht
      obtain ⟨b, hb, rfl⟩ := ht
      exact hB b hb⟩
  have := (Abs.run_inv T k B _ acts inv).pot
  omega

/-- the bound is attained: threshold 1, two callers of batch 1 both checked before either records → 2 = 1 + (2-1)·1 -/
theorem overshoot_tight :
    (Abs.run 1 2 { S := 0, th := [⟨1, .idle⟩, ⟨1, .idle⟩] } [.thread 0, .thread 1, .thread 0, .thread 1]).S = 2 := by
  decide

/-! ## what the driver executes: the general flow slot (throttling rules, ns clock, reloads)

The driver runs `reloadG` / `entryG` / `runSchedG` (`Model/FlowReject.lean`, last section), which also handle
throttling rules in the chain and reloading. On reject-only rule lists and a first load they *are* the core
definitions used above, so every theorem of this file speaks about the executed code paths. -/

/-- **executed = core**: a first `LoadRules` of reject rules followed by any monotone arrival history through
the general slot (`clock a.t`, then `entryG`) gives exactly the decisions of the core model. -/
theorem executed_eq_core (rules : List Rule) (hk : ∀ r ∈ rules, r.kind = .reject) (t0 : Nat) (as : List Arrival)
    (hm : MonoA t0 as) :
    (runG (reloadG {} rules t0 0) (t0 * nsPerMs) as).2 = (runEntries (load rules t0) as).2 := by
  rw [reloadG_eq_load rules hk, runG_eq_runEntries _ (load_rejectOnly rules hk t0) t0 as hm]

/-- **C02 `admit_iff` for the executed definitions** (reject-only rule list outside the known finding) -/
theorem admit_iff_executed (rules : List Rule) (hk : ∀ r ∈ rules, r.kind = .reject)
    (hreg : ∀ c ∈ compile rules, c.inFinding = false) (t0 : Nat) (h0 : 0 < t0) (as : List Arrival) (hm : MonoA t0 as) :
    (runG (reloadG {} rules t0 0) (t0 * nsPerMs) as).2 = (refRun demanded (compile rules) [] as).2 := by
  rw [executed_eq_core rules hk t0 as hm, admit_iff_partial rules hreg t0 h0 as hm]

/-- **throttling rules in the chain**: the walk over a resource's controllers is one function (`chainG`) shared
by the model and by the reference, so for pairwise related controller lists whose reject rules answer alike
from the current millisecond on, decision, clock after the sleeps and updated `lastPassedTime`s coincide — in
particular a reject rule listed after a throttling rule that queued the request is still asked, at the
advanced time. -/
theorem chain_model_eq_ref {α β : Type} (A : ChainOps α) (B : ChainOps β) (R : α → β → Prop)
    (hrule : ∀ a b, R a b → A.rule a = B.rule b ∧ A.idx a = B.idx b ∧ A.last a = B.last b)
    (hset : ∀ a b l, R a b → R (A.setLast a l) (B.setLast b l))
    (res bt : Nat) (as : List α) (bs : List β) (hR : List.Forall₂ R as bs) (t : Nat)
    (hblk : ∀ a b, R a b → (B.rule b).kind = .reject → ∀ ms, t / nsPerMs ≤ ms → A.blocks a ms bt = B.blocks b ms bt) :
    (chainG A res bt as t).2 = (chainG B res bt bs t).2 ∧
    List.Forall₂ R (chainG A res bt as t).1 (chainG B res bt bs t).1 :=
  chainG_rel A B R hrule hset res bt as bs hR t hblk

/-- a queued request does reach the reject rule behind the throttling rule (threshold 3 after a 1024/s
    throttler, fourth request at t = 1 s): blocked by rule 1, after having slept 976563 ns three times -/
theorem throttle_then_reject_sample :
    let s0 := reloadG {} [{ res := 1, thr := .frac 1024 1, iv := 0, kind := .throttle 500 }, { res := 1, thr := .frac 3 1, iv := 0 }] 1000 0
    let t0 := 1000 * nsPerMs
    let x1 := entryG s0 1 t0 1
    let x2 := entryG x1.1 1 x1.2.1 1
    let x3 := entryG x2.1 1 x2.2.1 1
    let x4 := entryG x3.1 1 x3.2.1 1
    (x1.2.2, x2.2.2, x3.2.2, x4.2.2) = (none, none, none, some 1) ∧ x4.2.1 = t0 + 3 * 976563 := by
  decide

/-! ## every op history of the executed definitions (throttling rules, sleeps, reloads)

`runOps m ops` is what the driver executes for `clock` / `load` / `loadres` / `entry` lines (`stepOp`): the ns clock that never
goes backwards, `reloadG` (first load and every reload, with the reuse order of `buildResourceTrafficShapingController`),
`loadresG` (`flow.LoadRulesOfResource`: one resource rebuilt or cleared, rules of other resources and invalid rules ignored),
`entryG` (chain walk with throttling controllers and sleeps, then the statistic slots at the advanced time).
`refRunOps` is the array-free reference: rules in force with their `since` offsets and `lastPassedTime`s, and the
admitted history. -/

/-- **`runG_eq_ref`** — for every starting instant `t0 ≥ 1 ms` and **every** op history (loads and reloads of rule
lists mixing reject and throttling rules, valid or not; clock moves; entries), the observations of the executed
model over the leap arrays — controller counts after each load, every decision with the id of the blocking rule,
and the time slept inside the flow slot — are exactly those of the reference, whose windows are recomputed from
the admitted history. (Reloads: a kept window keeps its leap-array invariant, a fresh one starts empty at the
reload time; throttling: both sides run C10's `Throttle.doCheck` on equal `lastPassedTime`s, `chain_model_eq_ref`.) -/
theorem runG_eq_ref (t0 : Nat) (h0 : 0 < t0 / nsPerMs) (ops : List Op) :
    (runOps { t := t0 } ops).2 = (refRunOps RuleInfo.feed { t := t0 } ops).2 :=
  (runOps_eq_ref (RepM.init t0 h0) ops).1

/-- **`admit_iff_executed_full`, full statement**: the same for the reference in which every rule counts the
resource the property names. False on the pinned tree for the same reason as `admit_iff_statement`. -/
def admit_iff_executed_full_statement : Prop :=
  ∀ (t0 : Nat), 0 < t0 / nsPerMs → ∀ (ops : List Op) (res b : Nat),
    let m := (runOps { t := t0 } ops).1
    let rm := (refRunOps RuleInfo.feed { t := t0 } ops).1
    ((entryG m.s res m.t b).2.2 = none ↔ Admits demanded rm.r.H res b rm.r.ctrls rm.t)

/-- **`admit_iff_executed_full`** (`_partial`: hypothesis = no rule *in force* lies in the region of the known finding
`assoc-standalone-own-traffic`): after any op history, a request `(res, b)` is admitted **iff** `Admits` holds — every
reject rule in force on `res` has room for `b` in its aligned window (recomputed from the admitted history) at the
moment it is asked, i.e. at the time advanced by the sleeps of the throttling rules before it, and no throttling
rule on the way rejects. -/
theorem admit_iff_executed_full_partial (t0 : Nat) (h0 : 0 < t0 / nsPerMs) (ops : List Op) (res b : Nat)
    (hreg : ∀ c ∈ (refRunOps RuleInfo.feed { t := t0 } ops).1.r.ctrls, c.info.inFinding = false) :
    ((entryG (runOps { t := t0 } ops).1.s res (runOps { t := t0 } ops).1.t b).2.2 = none ↔
      Admits demanded (refRunOps RuleInfo.feed { t := t0 } ops).1.r.H res b
        (refRunOps RuleInfo.feed { t := t0 } ops).1.r.ctrls (refRunOps RuleInfo.feed { t := t0 } ops).1.t) := by
  obtain ⟨_, ⟨latest, hl, rep⟩, ht, _, hpos⟩ := runOps_eq_ref (RepM.init t0 h0) ops
  obtain ⟨heq, _⟩ := entryG_step rep hl hpos res b
  have e2 : (entryG (runOps { t := t0 } ops).1.s res (runOps { t := t0 } ops).1.t b).2.2 =
      (refEntryG RuleInfo.feed (refRunOps RuleInfo.feed { t := t0 } ops).1.r res (runOps { t := t0 } ops).1.t b).2.2 := by rw [heq]
  rw [e2, ht]
  have : (refEntryG RuleInfo.feed (refRunOps RuleInfo.feed { t := t0 } ops).1.r res (refRunOps RuleInfo.feed { t := t0 } ops).1.t b).2.2 =
      (chainG (refOps RuleInfo.feed (refRunOps RuleInfo.feed { t := t0 } ops).1.r.H) res b
        (refRunOps RuleInfo.feed { t := t0 } ops).1.r.ctrls (refRunOps RuleInfo.feed { t := t0 } ops).1.t).2.2 := rfl
  rw [this, chainG_none_iff]
  apply Admits_congr
  intro c hc
  have := hreg c hc
  simpa [RuleInfo.inFinding, demanded] using this

/-- the full statement fails exactly on the known finding (same configuration as `assoc_standalone_witness`, as ops) -/
theorem admit_iff_executed_full_statement_false : ¬ admit_iff_executed_full_statement := by
  intro h
  have h1 := h (1000 * nsPerMs) (by decide)
    [.load [{ res := 1, thr := .frac 2 1, iv := 3000, ref := some 2 }], .entry 2 1, .entry 2 1, .entry 2 1] 1 1
  simp only at h1
  rw [← chainG_none_iff] at h1
  revert h1
  decide

/-- the region hypothesis is about the rules in force only: a history whose loads never contain a rule of the region
    satisfies it (here: one reject rule, one throttling rule, a reload changing the threshold) -/
example : ∀ c ∈ (refRunOps RuleInfo.feed { t := 1000 * nsPerMs }
    [.load [{ res := 1, thr := .frac 1024 1, iv := 0, kind := .throttle 500 }, { res := 1, thr := .frac 3 1, iv := 3000 }],
     .entry 1 1, .clock 1001, .load [{ res := 1, thr := .frac 4 1, iv := 3000 }], .entry 1 1]).1.r.ctrls,
    c.info.inFinding = false := by decide

/-- **`window_cap_after_reload`, full statement** (what one would like: the plain cap `≤ T` in every window after any
history). False as soon as a reload lowers a threshold below what a kept window already holds, which the code
allows by design (`isStatReusable` keeps the window); hence the `_partial` below. -/
def window_cap_after_reload_statement : Prop :=
  ∀ (t0 : Nat), 0 < t0 / nsPerMs → ∀ (ops : List Op),
    ∀ c ∈ (refRunOps RuleInfo.feed { t := t0 } ops).1.r.ctrls, c.info.rule.kind = .reject → c.info.feed = c.info.rule.res → ∀ e,
      c.info.rule.thr.exceeds (refW c.info.L (histOf (refRunOps RuleInfo.feed { t := t0 } ops).1.r.H c.info.rule.res)
        (e + c.info.L - c.info.Iv) e) = false

/-- **`window_cap_after_reload_partial`**: after any op history, for every own-traffic reject rule in force and every
window position `e` of its geometry, the tokens admitted **since that rule came into force** (`born` = length of the
admitted history at the load that installed or changed it; an unchanged rule keeps its `born`) never exceed its
threshold. In particular every window that began after the latest change of its rule obeys the plain cap. Missing
for the full statement: tokens admitted under the *previous* version of the rule are not bounded by the new threshold. -/
theorem window_cap_after_reload_partial (t0 : Nat) (ops : List Op) :
    ∀ c ∈ (refRunOps RuleInfo.feed { t := t0 } ops).1.r.ctrls, c.info.rule.kind = .reject → c.info.feed = c.info.rule.res → ∀ e,
      c.info.rule.thr.exceeds (refW c.info.L
        (histOf ((refRunOps RuleInfo.feed { t := t0 } ops).1.r.H.drop c.born) c.info.rule.res) (e + c.info.L - c.info.Iv) e) = false := by
  have h0 : CappedG ({ t := t0 } : RMSt).r (({ t := t0 } : RMSt).t / nsPerMs) :=
    ⟨by intro a ha; simp at ha, by intro c hc; simp at hc, by intro c hc; simp at hc⟩
  exact (refRunOps_capped h0 ops).cap

/-- the full cap statement is indeed false: threshold 3 on an independent 3000 ms window, three admissions, then a
    reload lowering the threshold to 1 (window kept): the window holds 3 > 1 -/
def wCapOps : List Op :=
  [.load [{ res := 1, thr := .frac 3 1, iv := 3000 }], .entry 1 1, .entry 1 1, .entry 1 1,
   .load [{ res := 1, thr := .frac 1 1, iv := 3000 }]]

theorem window_cap_after_reload_statement_false : ¬ window_cap_after_reload_statement := by
  intro h
  have h1 := h (1000 * nsPerMs) (by decide) wCapOps
  have key : ∃ c ∈ (refRunOps RuleInfo.feed { t := 1000 * nsPerMs } wCapOps).1.r.ctrls,
      c.info.rule.kind = .reject ∧ c.info.feed = c.info.rule.res ∧
      c.info.rule.thr.exceeds (refW c.info.L (histOf (refRunOps RuleInfo.feed { t := 1000 * nsPerMs } wCapOps).1.r.H c.info.rule.res)
        (1000 + c.info.L - c.info.Iv) 1000) = true := by decide
  obtain ⟨c, hc, hk, hf, hx⟩ := key
  have := h1 c hc hk hf 1000
  rw [hx] at this
  cases this

/-! ## bursts through the general slot: throttling rules in front, sleeping callers, reloads between bursts

`BOp` histories interleave the ops of `stepOp` with `par` bursts; the executed side runs a burst with `runSchedG`
(what the driver does for a `par` line: each caller's check phase is the whole chain walk — a throttling rule may make
it sleep, which advances the shared clock — and its record phase happens at the clock of that later moment), the
reference with `refRunSchedG`. A caller without `WithBatchCount` is simply a thread with `b = 1`. -/

/-- **histories with bursts: executed model = reference** — for every start `t0 ≥ 1 ms` and every history of
`clock` / `load` / `loadres` / `entry` ops and `par` bursts (any threads, batches, schedules; throttling rules before or
behind reject rules; reloads between bursts), all observations coincide: op results as in `runG_eq_ref`, and for every
burst the per-caller decisions with blocking-rule ids. -/
theorem bursts_eq_ref (t0 : Nat) (h0 : 0 < t0 / nsPerMs) (ops : List BOp) :
    (runB { t := t0 } ops).2 = (refRunB { t := t0 } ops).2 :=
  (runB_eq_ref (RepM.init t0 h0) ops).1

/-- **`(k-1)·maxBatch` for the full `par`, full statement**: the plain window count of every own-traffic reject rule in
force stays within `⌊T⌋ + (K-1)·B` after any history with bursts. False for the same reason as
`window_cap_after_reload_statement` (a reload may lower `T` under a kept window); see `par_overshoot_full_partial`. -/
def par_overshoot_full_statement : Prop :=
  ∀ (K B t0 : Nat), 0 < t0 / nsPerMs → ∀ (ops : List BOp), BurstsOk K B { t := t0 } ops →
    ∀ c ∈ (refRunB { t := t0 } ops).1.r.ctrls, c.info.rule.kind = .reject → c.info.feed = c.info.rule.res →
      ∀ cap, c.info.rule.thr.cap = some cap → ∀ e,
        refW c.info.L (histOf (refRunB { t := t0 } ops).1.r.H c.info.rule.res) (e + c.info.L - c.info.Iv) e ≤ cap + (K - 1) * B

/-- **`(k-1)·maxBatch` for the full `par`** (`_partial` only in that it counts the tokens admitted *since the rule came
into force*, like `window_cap_after_reload_partial`): after **any** history of ops and bursts in which every burst keeps
at most `K` callers between check and record (`WidthOkG`, a condition on the schedule) and uses batches up to `B`
(`BurstsOk`), for every own-traffic reject rule in force with finite cap `⌊T⌋` and every window position, the tokens
admitted since the rule came into force are at most `⌊T⌋ + (K-1)·B`. Covers throttling rules in front of the reject rule
(callers that sleep inside their check phase and record at later instants, the window possibly rolling in between),
default batches, and reloads between bursts. By `bursts_eq_ref` the history `H` is the one the executed model's leap
arrays track. -/
theorem par_overshoot_full_partial (K B t0 : Nat) (ops : List BOp) (hok : BurstsOk K B { t := t0 } ops) :
    ∀ c ∈ (refRunB { t := t0 } ops).1.r.ctrls, c.info.rule.kind = .reject → c.info.feed = c.info.rule.res →
      ∀ cap, c.info.rule.thr.cap = some cap → ∀ e,
        refW c.info.L (histOf ((refRunB { t := t0 } ops).1.r.H.drop c.born) c.info.rule.res) (e + c.info.L - c.info.Iv) e
          ≤ cap + (K - 1) * B := by
  have h0 : CappedS ((K - 1) * B) ({ t := t0 } : RMSt).r (({ t := t0 } : RMSt).t / nsPerMs) :=
    ⟨by intro a ha; simp at ha, by intro c hc; simp at hc, by intro c hc; simp at hc⟩
  exact (refRunB_capped h0 ops hok).cap

/-- without a reload after the first load nothing is dropped (`born = 0`): the plain `(K-1)·B` bound of the property -/
theorem par_overshoot_full_first_load (K B t0 : Nat) (ops : List BOp) (hok : BurstsOk K B { t := t0 } ops)
    (c : RCtrl) (hc : c ∈ (refRunB { t := t0 } ops).1.r.ctrls) (hb : c.born = 0)
    (hk : c.info.rule.kind = .reject) (hf : c.info.feed = c.info.rule.res) (cap : Nat) (hcap : c.info.rule.thr.cap = some cap) (e : Nat) :
    refW c.info.L (histOf (refRunB { t := t0 } ops).1.r.H c.info.rule.res) (e + c.info.L - c.info.Iv) e ≤ cap + (K - 1) * B := by
  have := par_overshoot_full_partial K B t0 ops hok c hc hk hf cap hcap e
  rw [hb] at this
  simpa using this

/-- **soundness of the oracle's attribution rule** (`checks/C02.py` oracle phase, `Drv.C02.capViolations`): callers of a
burst that slept are attributed to the clock before the burst although they recorded somewhere in `[t, t + slept]`;
whatever those real instants were, if the cap check holds on the real history it raises no alarm on the oracle's — an
earlier attribution never puts a token into a window it is not in. -/
theorem oracle_attribution_sound (real orc : Sentinel.Drv.C02.DSt) (res : Nat)
    (hinfos : orc.infos = real.infos) (ht : orc.t = real.t) (hw : orc.width = real.width) (hb : orc.maxB = real.maxB)
    (hH : List.Forall₂ (Earlier real.now) orc.H real.H)
    (hreal : Sentinel.Drv.C02.capViolations real res = []) : Sentinel.Drv.C02.capViolations orc res = [] :=
  Sentinel.Drv.C02.oracle_attribution_sound real orc res hinfos ht hw hb hH hreal

/-- the relation `Earlier` is exactly what the oracle produces for a burst: same prefix, the burst's admitted callers
    stamped `t0` instead of their real instants `t0 ≤ tᵢ ≤ now` -/
theorem earlier_burst (H0 : List Arrival) (now t0 : Nat) (hH0 : ∀ a ∈ H0, a.t ≤ now) (adm : List Arrival)
    (hreal : ∀ a ∈ adm, t0 ≤ a.t ∧ a.t ≤ now) :
    List.Forall₂ (Earlier now) (H0 ++ adm.map fun a => { a with t := t0 }) (H0 ++ adm) := by
  apply List.rel_append
  · exact List.forall₂_same.mpr (fun a ha => Earlier.refl_of_le (hH0 a ha))
  · rw [List.forall₂_map_left_iff]
    exact List.forall₂_same.mpr (fun a ha => ⟨rfl, rfl, (hreal a ha).1, (hreal a ha).2⟩)

/-! ## reloading: which rule object stays in force -/

/-- `Float64Equals` on two finite thresholds is the **absolute** comparison `|x - y| < 10⁻⁸` -/
theorem thrEq_frac_iff (n1 d1 n2 d2 : Nat) (h1 : 0 < d1) (h2 : 0 < d2) :
    thrEq (.frac n1 d1) (.frac n2 d2) = true ↔ |(n1 : ℚ) / d1 - (n2 : ℚ) / d2| < 1 / 100000000 := by
  have hd1 : (0 : ℚ) < d1 := by exact_mod_cast h1
  have hd2 : (0 : ℚ) < d2 := by exact_mod_cast h2
  have hdd : (0 : ℚ) < (d1 : ℚ) * d2 := mul_pos hd1 hd2
  have hdiff : (n1 : ℚ) / d1 - (n2 : ℚ) / d2 = ((n1 : ℚ) * d2 - n2 * d1) / (d1 * d2) := by
    field_simp
  have habs : (((n1 * d2 - n2 * d1 + (n2 * d1 - n1 * d2) : Nat)) : ℚ) = |(n1 : ℚ) * d2 - n2 * d1| := by
    rcases Nat.le_total (n2 * d1) (n1 * d2) with h | h
    · have e : n2 * d1 - n1 * d2 = 0 := Nat.sub_eq_zero_of_le h
      rw [e, Nat.add_zero, Nat.cast_sub h]
      push_cast
      rw [abs_of_nonneg]
      have : ((n2 * d1 : Nat) : ℚ) ≤ ((n1 * d2 : Nat) : ℚ) := by exact_mod_cast h
      push_cast at this; linarith
    · have e : n1 * d2 - n2 * d1 = 0 := Nat.sub_eq_zero_of_le h
      rw [e, Nat.zero_add, Nat.cast_sub h]
      push_cast
      rw [abs_of_nonpos]
      · ring
      have : ((n1 * d2 : Nat) : ℚ) ≤ ((n2 * d1 : Nat) : ℚ) := by exact_mod_cast h
      push_cast at this; linarith
  simp only [thrEq, decide_eq_true_eq]
  rw [hdiff, abs_div, abs_of_pos hdd, div_lt_iff₀ hdd, ← habs]
  constructor
  · intro h
    have : (((n1 * d2 - n2 * d1 + (n2 * d1 - n1 * d2)) * 100000000 : Nat) : ℚ) < ((d1 * d2 : Nat) : ℚ) := by exact_mod_cast h
    push_cast at this ⊢
    linarith
  · intro h
    have : (((n1 * d2 - n2 * d1 + (n2 * d1 - n1 * d2)) * 100000000 : Nat) : ℚ) < ((d1 * d2 : Nat) : ℚ) := by
      push_cast at h ⊢
      linarith
    exact_mod_cast this

/-- a reload whose threshold moved by less than the tolerance keeps the **old** controller (old id, old threshold); one
    that moved by more installs the new one — also for huge thresholds, where a relative tolerance would be far larger:
    3·10⁹ → 3·10⁹ − 20 is a change -/
theorem thrEq_samples :
    thrEq (.frac 3 1) (.frac 299999998 100000000) = false ∧ thrEq (.frac 3 1) (.frac 2999999995 1000000000) = true ∧
    thrEq (.frac 3000000000 1) (.frac 2999999980 1) = false ∧ thrEq .unbounded .unbounded = false := by decide

theorem par_overshoot_full_statement_false : ¬ par_overshoot_full_statement := by
  intro h
  have hok : BurstsOk 1 0 { t := 1000 * nsPerMs } (wCapOps.map BOp.op) := by
    simp [BurstsOk, wCapOps]
  have h1 := h 1 0 (1000 * nsPerMs) (by decide) (wCapOps.map BOp.op) hok
  have key : ∃ c ∈ (refRunB { t := 1000 * nsPerMs } (wCapOps.map BOp.op)).1.r.ctrls,
      c.info.rule.kind = .reject ∧ c.info.feed = c.info.rule.res ∧ c.info.rule.thr.cap = some 1 ∧
      ¬ refW c.info.L (histOf (refRunB { t := 1000 * nsPerMs } (wCapOps.map BOp.op)).1.r.H c.info.rule.res)
        (1000 + c.info.L - c.info.Iv) 1000 ≤ 1 + (1 - 1) * 0 := by decide
  obtain ⟨c, hc, hk, hf, hcap, hx⟩ := key
  exact hx (h1 c hc hk hf 1 hcap 1000)

/-- `BurstsOk` is satisfiable with real overlap behind a throttling rule and a reload between two bursts: two callers,
    both checked before either records (`K = 2`), batches 1 -/
example : BurstsOk 2 1 { t := 1000 * nsPerMs }
    [.op (.load [{ res := 1, thr := .frac 1024 1, iv := 0, kind := .throttle 500 }, { res := 1, thr := .frac 3 1, iv := 3000 }]),
     .par 1 [1, 1] [0, 1, 0, 1],
     .op (.load [{ res := 1, thr := .frac 1024 1, iv := 0, kind := .throttle 500 }, { res := 1, thr := .frac 2 1, iv := 3000 }]),
     .par 1 [1, 1] [0, 1, 1, 0]] := by
  simp [BurstsOk, WidthOkG, burstThreads, nParked, parked, refStepB, refStepThreadG, refRunSchedG]

/-! ## the known finding `assoc-standalone-own-traffic` -/

/-- the witness configuration: a rule on resource 1, associated with resource 2, threshold 2, interval 3000
    (3000 does not divide 10000: independent window); three entries on 2, then one on 1, all at t = 1000 -/
def wRules : List Rule := [{ res := 1, thr := .frac 2 1, iv := 3000, ref := some 2 }]
def wArrivals : List Arrival := [⟨1000, 2, 1⟩, ⟨1000, 2, 1⟩, ⟨1000, 2, 1⟩, ⟨1000, 1, 1⟩]

/-- on the faithful model the entry on 1 is admitted although the referenced resource already used 3 > 2
    tokens in the window: the property demands `some 0` (blocked by rule 0) -/
theorem assoc_standalone_witness :
    (compile wRules).any (·.inFinding) = true ∧
    (runEntries (load wRules 1000) wArrivals).2 = [none, none, none, none] ∧
    (refRun demanded (compile wRules) [] wArrivals).2 = [none, none, none, some 0] := by
  decide

theorem admit_iff_statement_false : ¬ admit_iff_statement := by
  intro h
  have w := assoc_standalone_witness
  have := h wRules 1000 (by decide) wArrivals (by simp [MonoA, wArrivals])
  rw [w.2.1, w.2.2] at this
  cases this

/-! ## non-vacuity -/

example : MonoA 1000 [⟨1000, 1, 1⟩, ⟨1000, 1, 2⟩, ⟨1700, 2, 1⟩] := by simp [MonoA]
example : ∀ c ∈ compile [{ res := 1, thr := .frac 5 2, iv := 0 }, { res := 1, thr := .frac 3 1, iv := 3000 },
    { res := 2, thr := .unbounded, iv := 2000, ref := some 1 }], c.inFinding = false := by decide

end Sentinel.C02
