import Sentinel.Lemmas.LeapArray
import Sentinel.Model.Bucket
/-!
# C08 — Sliding-window statistics equal the aligned-bucket reference for any history
(property theorems only; helper lemmas live in `Sentinel/Lemmas/LeapArray.lean`)

Reading guide.  `h : List (Nat × M)` is the history of recorded events `(timestamp, payload)`,
`Mono now0 h` says timestamps never decrease from the creation time `now0`.  `refW L h lo hi` is the
reference: the sum of the payloads whose *bucket start* `cbs L t` lies in `[lo, hi]`.  The model
functions (`mk`, `runAdds`, `viewSum`, `valuesAt`, …) are the code-shaped definitions of
`Sentinel/Model/LeapArray.lean`, the ones the driver executes against the implementation.
-/
namespace Sentinel.C08
open Sentinel.LA

/-! ## the payload really is a commutative monoid -/

@[ext] theorem Bucket.ext' {a b : Bucket} (h1 : a.pass = b.pass) (h2 : a.block = b.block)
    (h3 : a.complete = b.complete) (h4 : a.error = b.error) (h5 : a.rt = b.rt) (h6 : a.hr = b.hr)
    (h7 : a.mc = b.mc) : a = b := by
  cases a; cases b; simp_all

@[simp] theorem add_pass (a b : Bucket) : (a + b).pass = a.pass + b.pass := rfl
@[simp] theorem add_block (a b : Bucket) : (a + b).block = a.block + b.block := rfl
@[simp] theorem add_complete (a b : Bucket) : (a + b).complete = a.complete + b.complete := rfl
@[simp] theorem add_error (a b : Bucket) : (a + b).error = a.error + b.error := rfl
@[simp] theorem add_rt (a b : Bucket) : (a + b).rt = a.rt + b.rt := rfl
@[simp] theorem add_hr (a b : Bucket) : (a + b).hr = max a.hr b.hr := rfl
@[simp] theorem add_mc (a b : Bucket) : (a + b).mc = max a.mc b.mc := rfl
@[simp] theorem zero_pass : (0 : Bucket).pass = 0 := rfl
@[simp] theorem zero_block : (0 : Bucket).block = 0 := rfl
@[simp] theorem zero_complete : (0 : Bucket).complete = 0 := rfl
@[simp] theorem zero_error : (0 : Bucket).error = 0 := rfl
@[simp] theorem zero_rt : (0 : Bucket).rt = 0 := rfl
@[simp] theorem zero_hr : (0 : Bucket).hr = 0 := rfl
@[simp] theorem zero_mc : (0 : Bucket).mc = 0 := rfl

instance : AddCommMonoid Bucket where
  add_assoc a b c := by ext <;> simp [Nat.add_assoc, max_assoc]
  zero_add a := by ext <;> simp
  add_zero a := by ext <;> simp
  add_comm a b := by ext <;> simp [Nat.add_comm, max_comm]
  nsmul := nsmulRec

/-! ## generic core (any commutative-monoid payload) -/
section generic
variable {M : Type} [AddCommMonoid M]

theorem sum_filter_eq_readW (sl : List (Slot M)) (p : Slot M → Bool) (lo hi : Nat)
    (hp : ∀ s ∈ sl, (lo ≤ s.start ∧ s.start ≤ hi) → p s = true) :
    ((sl.filter fun s => p s && decide (lo ≤ s.start ∧ s.start ≤ hi)).map (·.val)).sum = readW sl lo hi := by
  unfold readW
  induction sl with
  | nil => rfl
  | cons s r ih =>
    have ihr := ih (fun s hs => hp s (List.mem_cons_of_mem _ hs))
    by_cases hw : lo ≤ s.start ∧ s.start ≤ hi
    · have := hp s (List.mem_cons_self ..) hw
      simp only [List.filter_cons, this, hw, decide_true, Bool.and_self, if_true, List.map_cons,
        List.sum_cons, and_self] at ihr ⊢
      rw [ihr]
    · simp only [List.filter_cons, hw, decide_false, Bool.and_false, List.map_cons,
        List.sum_cons, if_false, zero_add] at ihr ⊢
      simpa using ihr

/-- **C08, sums** (`GetSum`, and through it QPS / AvgRT / MinRT / MaxConcurrency, which are functions
of the window payload): for every geometry `(n, L)`, every view interval `Iv ≤ n·L`, every monotone
history since creation and every read time `now` not before the last event, the code-shaped view sum
equals the reference over the aligned window `[cbs now + L - Iv, cbs now]` (subtraction saturating
at 0: the repaired `getBucketStartRange`). Nothing older is counted, nothing inside is lost. -/
theorem viewSum_eq_ref (n L now0 : Nat) (hn : 0 < n) (hL : 0 < L) (h : List (Nat × M)) (mono : Mono now0 h)
    (now : Nat) (hnow : ∀ e ∈ h, e.1 ≤ now) (hnow0 : now0 ≤ now) (hpos : 0 < now)
    (Iv : Nat) (hIv : Iv ≤ n * L) (hIv0 : 0 < Iv) :
    viewSum (runAdds (mk n L now0) h) Iv now = refW L h (cbs L now + L - Iv) (cbs L now) := by
  have hLn := runAdds_nL (mk n L now0 : Arr M) h
  have hL' : (runAdds (mk n L now0 : Arr M) h).L = L := by simpa [mk] using hLn.1
  have hn' : (runAdds (mk n L now0 : Arr M) h).n = n := by simpa [mk] using hLn.2
  unfold viewSum viewVals rangeOf
  simp only [hL', hn', Nat.ne_of_gt hpos, if_false]
  rw [sum_filter_eq_readW]
  · exact window_eq_ref n L now0 hn hL h mono now hnow hnow0 _ _ (by omega)
  · intro s _ hw
    have hc : cbs L now ≤ now := by unfold cbs; omega
    unfold deprecated
    have : s.start ≤ now := le_trans hw.2 hc
    simp only [this, if_true]
    have hlt : now < cbs L now + L := by
      unfold cbs; have := Nat.mod_lt now hL; omega
    simp; omega

/-- **C08, previous window** (`GetPreviousQPS` reads at `now - Lv`): the same equality one view bucket
earlier, under the property's own side condition `Iv + Lv ≤ n·L` (the array cannot retain what it has
no slot for). -/
theorem prevSum_eq_ref (n L now0 : Nat) (hn : 0 < n) (hL : 0 < L) (h : List (Nat × M)) (mono : Mono now0 h)
    (now : Nat) (hnow : ∀ e ∈ h, e.1 ≤ now) (hnow0 : now0 ≤ now) (Iv Lv : Nat) (hIv : Iv + Lv ≤ n * L)
    (hLv : Lv < now) (hdiv : L ∣ Lv) :
    viewSum (runAdds (mk n L now0) h) Iv (now - Lv) = refW L h (cbs L (now - Lv) + L - Iv) (cbs L (now - Lv)) := by
  have hLn := runAdds_nL (mk n L now0 : Arr M) h
  have hL' : (runAdds (mk n L now0 : Arr M) h).L = L := by simpa [mk] using hLn.1
  have hn' : (runAdds (mk n L now0 : Arr M) h).n = n := by simpa [mk] using hLn.2
  obtain ⟨k, rfl⟩ := hdiv
  have hcb : cbs L (now - L * k) + L * k = cbs L now := by
    rw [cbs_eq, cbs_eq]
    have hLv' : L * k ≤ now := Nat.le_of_lt hLv
    have : (now - L * k) / L = now / L - k := Nat.sub_mul_div_of_le now L k hLv'
    rw [this]
    have hk : k ≤ now / L := by
      rw [Nat.le_div_iff_mul_le hL, Nat.mul_comm]; exact hLv'
    rw [Nat.sub_mul]
    have : k * L ≤ now / L * L := Nat.mul_le_mul_right _ hk
    rw [Nat.mul_comm L k]; omega
  have hpos : now - L * k ≠ 0 := by omega
  unfold viewSum viewVals rangeOf
  simp only [hL', hn', hpos, if_false]
  rw [sum_filter_eq_readW]
  · exact window_eq_ref n L now0 hn hL h mono now hnow hnow0 _ _ (by omega)
  · intro s _ hw
    have hc : cbs L (now - L * k) ≤ now - L * k := by unfold cbs; omega
    unfold deprecated
    have : s.start ≤ now - L * k := le_trans hw.2 hc
    simp only [this, if_true]
    have hlt : now - L * k < cbs L (now - L * k) + L := by
      unfold cbs; have := Nat.mod_lt (now - L * k) hL; omega
    simp; omega

/-- **nothing is lost**: along a monotone history no recording is ever dropped (`add` always finds a bucket) -/
theorem add_never_dropped (a : Arr M) (h : List (Nat × M)) (t0 latest t : Nat) (x : M)
    (inv : Inv a h t0 latest) (hle : latest ≤ t) : (add a t x).2 = true :=
  (add_step a h t0 latest t x inv hle).2

end generic

/-! ## the concrete getters -/

/-- `GetSum(ev)` of a view equals the reference count of `ev` in the aligned window -/
theorem getSum_eq_ref (n L now0 : Nat) (hn : 0 < n) (hL : 0 < L) (h : List (Nat × Bucket)) (mono : Mono now0 h)
    (now : Nat) (hnow : ∀ e ∈ h, e.1 ≤ now) (hnow0 : now0 ≤ now) (hpos : 0 < now)
    (Iv : Nat) (hIv : Iv ≤ n * L) (hIv0 : 0 < Iv) (ev : Ev) :
    vSum (runAdds (mk n L now0) h) Iv now ev = (refW L h (cbs L now + L - Iv) (cbs L now)).get ev := by
  unfold vSum; rw [viewSum_eq_ref n L now0 hn hL h mono now hnow hnow0 hpos Iv hIv hIv0]

/-- `MinRT` / `MaxConcurrency` of a view equal the reference minimum / peak over the aligned window -/
theorem minRt_maxConc_eq_ref (n L now0 : Nat) (hn : 0 < n) (hL : 0 < L) (h : List (Nat × Bucket)) (mono : Mono now0 h)
    (now : Nat) (hnow : ∀ e ∈ h, e.1 ≤ now) (hnow0 : now0 ≤ now) (hpos : 0 < now)
    (Iv : Nat) (hIv : Iv ≤ n * L) (hIv0 : 0 < Iv) :
    vMinRt (runAdds (mk n L now0) h) Iv now = max 1 (refW L h (cbs L now + L - Iv) (cbs L now)).minRt ∧
    vMaxConc (runAdds (mk n L now0) h) Iv now = (refW L h (cbs L now + L - Iv) (cbs L now)).mc := by
  unfold vMinRt vMaxConc; rw [viewSum_eq_ref n L now0 hn hL h mono now hnow hnow0 hpos Iv hIv hIv0]; exact ⟨rfl, rfl⟩

/-- the window payload's counters are plain sums, its `mc` a maximum and its `minRt` a minimum capped at 60000:
    what "computed from the multiset of recorded events" means for each getter -/
theorem ref_append_get (L : Nat) (h : List (Nat × Bucket)) (t : Nat) (x : Bucket) (lo hi : Nat) (ev : Ev) :
    (refW L (h ++ [(t, x)]) lo hi).get ev =
      (refW L h lo hi).get ev + (if lo ≤ cbs L t ∧ cbs L t ≤ hi then x.get ev else 0) := by
  rw [refW_append]; split_ifs <;> cases ev <;> simp [Bucket.get]

/-- a view is constructible exactly when it tiles the parent's buckets:
    `validView = 0 ↔` both geometries are well formed, the parent interval is a multiple of the view
    interval and the view bucket is a multiple of the parent bucket -/
theorem validView_iff_tiles (sc Iv psc pI : Nat) :
    validView sc Iv psc pI = 0 ↔
      (Iv ≠ 0 ∧ sc ≠ 0 ∧ sc ∣ Iv) ∧ (pI ≠ 0 ∧ psc ≠ 0 ∧ psc ∣ pI) ∧ Iv ∣ pI ∧ (pI / psc) ∣ (Iv / sc) := by
  unfold validView
  simp only [Nat.dvd_iff_mod_eq_zero]
  split_ifs <;> simp_all <;> omega

/-! ## non-vacuity: concrete histories meet the hypotheses, and the pinned defect is real -/

example : Mono 100 [(100, evBucket .pass 3), (700, evBucket .pass 2)] := by simp [Mono]

/-- the pre-repair arithmetic (`rangeOfWrap`, uint64 wrap-around) lost the window for `now < Iv - L`:
    array 2×500 created at t=100, view interval 1000 read at t=100 — the wrapped start excludes the
    only event although the reference contains it. -/
theorem underflow_witness :
    (rangeOfWrap 500 1000 100).1 > 100 ∧ (rangeOf 500 1000 100) = (0, 0) ∧
    (refW 500 [(100, evBucket .pass 1)] 0 (cbs 500 100)).pass = 1 := by decide

/-- known finding `items-boundary-bucket` (not repaired; same strict test as upstream): a per-second
    item read issued exactly on a bucket boundary (array 20×1 ms created at t=1, 3 passes at t=618, read at
    t=638 with no refresh in between) still reports the bucket 618 = 638 − 20, although the aligned
    window ending at the current bucket is [619, 638] and contains nothing. -/
theorem items_boundary_witness :
    ((secondItems (addAt (mk 20 1 1 : Arr Bucket) 618 (evBucket .pass 3)).1 638 0 100000).map fun p => p.2.pass) = [3]
    ∧ (refW 1 [(618, evBucket .pass 3)] 619 638).pass = 0 := by decide

end Sentinel.C08
