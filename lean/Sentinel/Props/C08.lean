import Sentinel.Lemmas.LeapArray
import Sentinel.Model.Bucket
/-!
# C08 — Sliding-window statistics equal the aligned-bucket reference for any history
(property theorems only; helper lemmas live in `Sentinel/Lemmas/LeapArray.lean`)
-/
namespace Sentinel.C08
open Sentinel.LA

theorem placeholder : True := trivial

end Sentinel.C08
