import Sentinel.Lemmas.C08Bucket
import Sentinel.Lemmas.C08Read
import Sentinel.Lemmas.C08Items
import Sentinel.Model.Bucket
/-!
# C08 — Sliding-window statistics equal the aligned-bucket reference for any history
(property theorems only; helper lemmas live in `Sentinel/Lemmas/LeapArray.lean` and `Sentinel/Lemmas/C08*.lean`)

Reading guide.  `h : List (Nat × M)` is the history of recorded events `(timestamp, payload)`,
`Mono now0 h` says timestamps never decrease from the creation time `now0`.  `refW L h lo hi` is the
reference: the sum of the payloads whose *bucket start* `cbs L t` lies in `[lo, hi]`.  The model
functions (`mk`, `runAdds`, `viewSum`, `valuesAt`, …) are the code-shaped definitions of
`Sentinel/Model/LeapArray.lean`, the ones the driver executes against the implementation.

Two shapes of "any history": `runAdds (mk n L now0) h` (recordings only, the original statements) and
`runOps (mk n L now0) ops` (`Lemmas/C08Ops.lean`: recordings `addAt` interleaved with the refreshes that array-level
reads perform, exactly the calls `Drv/C08.lean` issues; the reference is over `addsOf ops`, the recordings alone).
A `BaseStatNode` is the second shape with `now0` = the node's creation time and `ops` = the recordings since.
-/
namespace Sentinel.C08
open Sentinel.LA

/-! ## generic core (any commutative-monoid payload; `Bucket` is one: `Lemmas/C08Bucket.lean`) -/
section generic
variable {M : Type} [AddCommMonoid M]

/-- **C08, sums** (`GetSum`, and through it QPS / AvgRT / MinRT / MaxConcurrency, which are functions
of the window payload): for every geometry `(n, L)`, every view interval `Iv ≤ n·L`, every monotone
history since creation and every read time `now` not before the last event, the code-shaped view sum
equals the reference over the aligned window `[cbs now + L - Iv, cbs now]` (subtraction saturating
at 0: the repaired `getBucketStartRange`). Nothing older is counted, nothing inside is lost. -/
theorem viewSum_eq_ref (n L now0 : Nat) (hn : 0 < n) (hL : 0 < L) (h : List (Nat × M)) (mono : Mono now0 h)
    (now : Nat) (hnow : ∀ e ∈ h, e.1 ≤ now) (hnow0 : now0 ≤ now) (hpos : 0 < now)
    (Iv : Nat) (hIv : Iv ≤ n * L) (hIv0 : 0 < Iv) :
    viewSum (runAdds (mk n L now0) h) Iv now = refW L h (cbs L now + L - Iv) (cbs L now) := by
  have hLn := runAdds_nL (mk n L now0 : Arr M) h
  have hL' : (runAdds (mk n L now0 : Arr M) h).L = L := by simpa [mk] using hLn.1
  have hn' : (runAdds (mk n L now0 : Arr M) h).n = n := by simpa [mk] using hLn.2
  unfold viewSum viewVals rangeOf
  simp only [hL', hn', Nat.ne_of_gt hpos, if_false]
  rw [sum_filter_eq_readW]
  · exact window_eq_ref n L now0 hn hL h mono now hnow hnow0 _ _ (by omega)
  · intro s _ hw
    have hc : cbs L now ≤ now := by unfold cbs; omega
    unfold deprecated
    have : s.start ≤ now := le_trans hw.2 hc
    simp only [this, if_true]
    have hlt : now < cbs L now + L := by
      unfold cbs; have := Nat.mod_lt now hL; omega
    simp; omega

/-- **C08, previous window** (`GetPreviousQPS` reads at `now - Lv`): the same equality one view bucket
earlier, under the property's own side condition `Iv + Lv ≤ n·L` (the array cannot retain what it has
no slot for). -/
theorem prevSum_eq_ref (n L now0 : Nat) (hn : 0 < n) (hL : 0 < L) (h : List (Nat × M)) (mono : Mono now0 h)
    (now : Nat) (hnow : ∀ e ∈ h, e.1 ≤ now) (hnow0 : now0 ≤ now) (Iv Lv : Nat) (hIv : Iv + Lv ≤ n * L)
    (hLv : Lv < now) (hdiv : L ∣ Lv) :
    viewSum (runAdds (mk n L now0) h) Iv (now - Lv) = refW L h (cbs L (now - Lv) + L - Iv) (cbs L (now - Lv)) := by
  have hLn := runAdds_nL (mk n L now0 : Arr M) h
  have hL' : (runAdds (mk n L now0 : Arr M) h).L = L := by simpa [mk] using hLn.1
  have hn' : (runAdds (mk n L now0 : Arr M) h).n = n := by simpa [mk] using hLn.2
  obtain ⟨k, rfl⟩ := hdiv
  have hcb : cbs L (now - L * k) + L * k = cbs L now := by
    rw [cbs_eq, cbs_eq]
    have hLv' : L * k ≤ now := Nat.le_of_lt hLv
    have : (now - L * k) / L = now / L - k := Nat.sub_mul_div_of_le now L k hLv'
    rw [this]
    have hk : k ≤ now / L := by
      rw [Nat.le_div_iff_mul_le hL, Nat.mul_comm]; exact hLv'
    rw [Nat.sub_mul]
    have : k * L ≤ now / L * L := Nat.mul_le_mul_right _ hk
    rw [Nat.mul_comm L k]; omega
  have hpos : now - L * k ≠ 0 := by omega
  unfold viewSum viewVals rangeOf
  simp only [hL', hn', hpos, if_false]
  rw [sum_filter_eq_readW]
  · exact window_eq_ref n L now0 hn hL h mono now hnow hnow0 _ _ (by omega)
  · intro s _ hw
    have hc : cbs L (now - L * k) ≤ now - L * k := by unfold cbs; omega
    unfold deprecated
    have : s.start ≤ now - L * k := le_trans hw.2 hc
    simp only [this, if_true]
    have hlt : now - L * k < cbs L (now - L * k) + L := by
      unfold cbs; have := Nat.mod_lt (now - L * k) hL; omega
    simp; omega

/-- **nothing is lost**: along a monotone history no recording is ever dropped (`add` always finds a bucket) -/
theorem add_never_dropped (a : Arr M) (h : List (Nat × M)) (t0 latest t : Nat) (x : M)
    (inv : Inv a h t0 latest) (hle : latest ≤ t) : (add a t x).2 = true :=
  (add_step a h t0 latest t x inv hle).2

/-- **C08, sums, interleaved with array-level reads**: after any time-monotone sequence of recordings and
refreshes at positive times since creation (time 0 is "no time" in the library: `time0_calls_irrelevant`), the view sum read at any `now` not
before the last call equals the reference over the recordings alone.  Reads therefore compose with later
recordings: a refresh never changes what any later read returns. -/
theorem ops_viewSum_eq_ref (n L now0 : Nat) (hn : 0 < n) (hL : 0 < L) (ops : List (Op M))
    (mono : MonoOps now0 ops) (now : Nat) (hnow : ∀ o ∈ ops, o.time ≤ now) (hnow0 : now0 ≤ now) (h0 : ∀ o ∈ ops, 0 < o.time) (hpos : 0 < now)
    (Iv : Nat) (hIv : Iv ≤ n * L) :
    viewSum (runOps (mk n L now0) ops) Iv now = refW L (addsOf ops) (cbs L now + L - Iv) (cbs L now) :=
  viewSum_of_reach _ n L _ _ now (reach_ops_pos n L now0 hn hL ops mono now hnow hnow0 h0)
    hpos Iv hIv

/-- **previous window, interleaved** (`GetPreviousQPS` reads at `now - Lv`): under the property's side condition
`Iv + Lv ≤ n·L`, with the view bucket `Lv` a multiple of the array bucket and `Lv < now` (a read landing on time 0 is
outside the library's domain). -/
theorem ops_prevSum_eq_ref (n L now0 : Nat) (hn : 0 < n) (hL : 0 < L) (ops : List (Op M))
    (mono : MonoOps now0 ops) (now : Nat) (hnow : ∀ o ∈ ops, o.time ≤ now) (hnow0 : now0 ≤ now) (h0 : ∀ o ∈ ops, 0 < o.time) (hpos : 0 < now)
    (Iv Lv : Nat) (hIv : Iv + Lv ≤ n * L) (hLv : Lv < now) (hdiv : L ∣ Lv) :
    viewSum (runOps (mk n L now0) ops) Iv (now - Lv) =
      refW L (addsOf ops) (cbs L (now - Lv) + L - Iv) (cbs L (now - Lv)) := by
  obtain ⟨k, rfl⟩ := hdiv
  have hcb := cbs_sub_mul L now k hL (Nat.le_of_lt hLv)
  exact viewSum_at_of_reach _ n L _ _ now (reach_ops_pos n L now0 hn hL ops mono now hnow hnow0 h0)
    (now - L * k) (by omega) Iv (by omega) (by omega)

/-- **array-level total, interleaved**: refresh at `now`, then the sum of all non-deprecated buckets, equals the
reference over the last `n` aligned buckets `[cbs now + L − n·L, cbs now]` of the recordings alone. -/
theorem ops_total_eq_ref (n L now0 : Nat) (hn : 0 < n) (hL : 0 < L) (ops : List (Op M))
    (mono : MonoOps now0 ops) (now : Nat) (hnow : ∀ o ∈ ops, o.time ≤ now) (hnow0 : now0 ≤ now) (h0 : ∀ o ∈ ops, 0 < o.time) (hpos : 0 < now) :
    ((valuesAt (refresh (runOps (mk n L now0) ops) now) now).map (·.val)).sum =
      refW L (addsOf ops) (cbs L now + L - n * L) (cbs L now) :=
  (total_of_reach _ n L _ _ now (reach_ops_pos n L now0 hn hL ops mono now hnow hnow0 h0)
    hpos).2

end generic

/-! ## the concrete getters -/

/-- `GetSum(ev)` of a view equals the reference count of `ev` in the aligned window -/
theorem getSum_eq_ref (n L now0 : Nat) (hn : 0 < n) (hL : 0 < L) (h : List (Nat × Bucket)) (mono : Mono now0 h)
    (now : Nat) (hnow : ∀ e ∈ h, e.1 ≤ now) (hnow0 : now0 ≤ now) (hpos : 0 < now)
    (Iv : Nat) (hIv : Iv ≤ n * L) (hIv0 : 0 < Iv) (ev : Ev) :
    vSum (runAdds (mk n L now0) h) Iv now ev = (refW L h (cbs L now + L - Iv) (cbs L now)).get ev := by
  unfold vSum; rw [viewSum_eq_ref n L now0 hn hL h mono now hnow hnow0 hpos Iv hIv hIv0]

/-- `MinRT` / `MaxConcurrency` of a view equal the reference minimum / peak over the aligned window -/
theorem minRt_maxConc_eq_ref (n L now0 : Nat) (hn : 0 < n) (hL : 0 < L) (h : List (Nat × Bucket)) (mono : Mono now0 h)
    (now : Nat) (hnow : ∀ e ∈ h, e.1 ≤ now) (hnow0 : now0 ≤ now) (hpos : 0 < now)
    (Iv : Nat) (hIv : Iv ≤ n * L) (hIv0 : 0 < Iv) :
    vMinRt (runAdds (mk n L now0) h) Iv now = max 1 (refW L h (cbs L now + L - Iv) (cbs L now)).minRt ∧
    vMaxConc (runAdds (mk n L now0) h) Iv now = (refW L h (cbs L now + L - Iv) (cbs L now)).mc := by
  unfold vMinRt vMaxConc; rw [viewSum_eq_ref n L now0 hn hL h mono now hnow hnow0 hpos Iv hIv hIv0]; exact ⟨rfl, rfl⟩

/-- **`BucketLeapArray.CountWithTime`** (`aCount`: refresh, then all valid buckets): for every geometry, every
monotone recording history since creation and every read time `now > 0` not before the last event, the count equals
the reference over the last `n` aligned buckets `[cbs now + L − n·L, cbs now]`. -/
theorem count_eq_ref (n L now0 : Nat) (hn : 0 < n) (hL : 0 < L) (h : List (Nat × Bucket)) (mono : Mono now0 h)
    (now : Nat) (hnow : ∀ e ∈ h, e.1 ≤ now) (hnow0 : now0 ≤ now) (hpos : 0 < now) (ev : Ev) :
    (aCount (runAdds (mk n L now0) h) now ev).2 = (refW L h (cbs L now + L - n * L) (cbs L now)).get ev := by
  obtain ⟨l', _, hl'm, hinv⟩ := runAdds_inv (mk n L now0) [] now0 now0 h (mk_inv n L now0 hn hL) mono now hnow0 hnow
  have hLn := runAdds_nL (mk n L now0 : Arr Bucket) h
  have hL' : (runAdds (mk n L now0 : Arr Bucket) h).L = L := by simpa [mk] using hLn.1
  have hn' : (runAdds (mk n L now0 : Arr Bucket) h).n = n := by simpa [mk] using hLn.2
  have ht := (refresh_total_eq_ref _ _ now0 l' now hinv hl'm hpos).2
  rw [hL', hn'] at ht
  simp only [List.nil_append] at ht
  unfold aCount aTotal
  dsimp only
  rw [ht]

/-- **`CountWithTime`, interleaved**: the same after any monotone sequence of recordings and earlier array-level
reads; the reference is over the recordings alone. -/
theorem ops_count_eq_ref (n L now0 : Nat) (hn : 0 < n) (hL : 0 < L) (ops : List (Op Bucket))
    (mono : MonoOps now0 ops) (now : Nat) (hnow : ∀ o ∈ ops, o.time ≤ now) (hnow0 : now0 ≤ now) (h0 : ∀ o ∈ ops, 0 < o.time) (hpos : 0 < now) (ev : Ev) :
    (aCount (runOps (mk n L now0) ops) now ev).2 =
      (refW L (addsOf ops) (cbs L now + L - n * L) (cbs L now)).get ev := by
  unfold aCount aTotal
  dsimp only
  rw [ops_total_eq_ref n L now0 hn hL ops mono now hnow hnow0 h0 hpos]

/-- **reads compose with later recordings**: the array an array-level read leaves behind is the array of the call
sequence extended by a refresh, still time-monotone — so every `ops_…` theorem applies to whatever follows. -/
theorem count_composes (a : Arr Bucket) (now0 : Nat) (ops : List (Op Bucket)) (now : Nat) (ev : Ev)
    (mono : MonoOps now0 ops) (hnow : ∀ o ∈ ops, o.time ≤ now) (hnow0 : now0 ≤ now) :
    (aCount (runOps a ops) now ev).1 = runOps a (ops ++ [Op.refresh now]) ∧
    MonoOps now0 (ops ++ [Op.refresh now]) ∧ addsOf (ops ++ [Op.refresh now]) = addsOf ops := by
  refine ⟨by rw [runOps_append]; rfl, ?_, ?_⟩
  · clear a ev
    induction ops generalizing now0 with
    | nil => exact ⟨hnow0, trivial⟩
    | cons o r ih =>
      exact ⟨mono.1, ih o.time mono.2 (fun o' ho' => hnow o' (List.mem_cons_of_mem _ ho')) (hnow o (List.mem_cons_self ..))⟩
  · clear mono hnow hnow0
    induction ops with
    | nil => rfl
    | cons o r ih => cases o <;> simp [addsOf] at ih ⊢ <;> exact ih

/-- **`BucketLeapArray.MinRt` / `MaxConcurrency`** (`aMinRt`, `aMaxConc`: refresh, then all valid buckets): the minimum
RT (60000 when nothing was recorded, no clamp) and the peak concurrency of the reference over the last `n` aligned
buckets — in particular nothing older than one array interval is seen, however long the array was idle. -/
theorem ops_array_minRt_maxConc_eq_ref (n L now0 : Nat) (hn : 0 < n) (hL : 0 < L) (ops : List (Op Bucket)) (mono : MonoOps now0 ops) (now : Nat) (hnow : ∀ o ∈ ops, o.time ≤ now)
    (hnow0 : now0 ≤ now) (h0 : ∀ o ∈ ops, 0 < o.time) (hpos : 0 < now) :
    (aMinRt (runOps (mk n L now0) ops) now).2 = (refW L (addsOf ops) (cbs L now + L - n * L) (cbs L now)).minRt ∧
    (aMaxConc (runOps (mk n L now0) ops) now).2 = (refW L (addsOf ops) (cbs L now + L - n * L) (cbs L now)).mc := by
  unfold aMinRt aMaxConc aTotal
  dsimp only
  rw [ops_total_eq_ref n L now0 hn hL ops mono now hnow hnow0 h0 hpos]
  exact ⟨rfl, rfl⟩

/-- **`BucketLeapArray.Values(now)`** (`aValues`): the returned buckets have distinct aligned starts inside
`[cbs now + L − n·L, cbs now]`, each holds exactly the recordings of its own bucket (`refW b b`), and an aligned
bucket of that window that is not returned has no recordings — so, untouched buckets aside, the list is the
per-bucket reference of the last `n` aligned buckets (what the driver's `spec` mode prints). -/
theorem ops_values_eq_ref (n L now0 : Nat) (hn : 0 < n) (hL : 0 < L) (ops : List (Op Bucket)) (mono : MonoOps now0 ops) (now : Nat) (hnow : ∀ o ∈ ops, o.time ≤ now)
    (hnow0 : now0 ≤ now) (h0 : ∀ o ∈ ops, 0 < o.time) (hpos : 0 < now) :
    let vs := (aValues (runOps (mk n L now0) ops) now).2
    (vs.map (·.start)).Nodup ∧
    (∀ s ∈ vs, L ∣ s.start ∧ cbs L now + L - n * L ≤ s.start ∧ s.start ≤ cbs L now ∧
      s.val = refW L (addsOf ops) s.start s.start) ∧
    (∀ b, L ∣ b → cbs L now + L - n * L ≤ b → b ≤ cbs L now →
      (∃ s ∈ vs, s.start = b) ∨ refW L (addsOf ops) b b = 0) :=
  values_of_reach _ n L _ _ now (reach_ops_pos n L now0 hn hL ops mono now hnow hnow0 h0) hpos

/-- every array-level read leaves the same array behind: the call sequence extended by one refresh
(`count_composes` then says the `ops_…` theorems keep applying) -/
theorem array_reads_compose (a : Arr Bucket) (ops : List (Op Bucket)) (now : Nat) (ev : Ev) :
    (aCount (runOps a ops) now ev).1 = runOps a (ops ++ [Op.refresh now]) ∧
    (aValues (runOps a ops) now).1 = runOps a (ops ++ [Op.refresh now]) ∧
    (aMinRt (runOps a ops) now).1 = runOps a (ops ++ [Op.refresh now]) ∧
    (aMaxConc (runOps a ops) now).1 = runOps a (ops ++ [Op.refresh now]) := by
  rw [runOps_append]; exact ⟨rfl, rfl, rfl, rfl⟩

/-- **`GetMaxOfSingleBucket`** (`vMaxBucket`): the largest per-bucket count of `ev` among the view's buckets equals
the maximum, over the aligned bucket starts `b` of the window (`viewStarts`: the list the reference enumerates,
`b ∈ viewStarts L Iv now ↔ L ∣ b ∧ cbs now + L − Iv ≤ b ≤ cbs now` by `mem_viewStarts`), of the reference count
of the single bucket `[b, b]`. -/
theorem maxBucket_eq_ref (n L now0 : Nat) (hn : 0 < n) (hL : 0 < L) (ops : List (Op Bucket))
    (mono : MonoOps now0 ops) (now : Nat) (hnow : ∀ o ∈ ops, o.time ≤ now) (hnow0 : now0 ≤ now) (h0 : ∀ o ∈ ops, 0 < o.time) (hpos : 0 < now)
    (Iv : Nat) (hIv : Iv ≤ n * L) (ev : Ev) :
    vMaxBucket (runOps (mk n L now0) ops) Iv now ev =
      ((viewStarts L Iv now).map fun b => (refW L (addsOf ops) b b).get ev).foldl max 0 :=
  maxBucket_of_reach _ n L _ _ now (reach_ops_pos n L now0 hn hL ops mono now hnow hnow0 h0)
    hpos Iv hIv (fun b => b.get ev) (zero_get ev)

/-- `viewStarts` is exactly the set of aligned bucket starts of the view window, each once -/
theorem viewStarts_spec (L Iv now : Nat) (hL : 0 < L) :
    (viewStarts L Iv now).Nodup ∧
    ∀ b, b ∈ viewStarts L Iv now ↔ L ∣ b ∧ cbs L now + L - Iv ≤ b ∧ b ≤ cbs L now :=
  ⟨(nodup_lastStarts L _ _ hL).filter _, fun b => mem_viewStarts L Iv now b hL⟩

/-! ### `BaseStatNode` wrappers (an own array created at the node's creation time, recordings only) -/

/-- integer part of `BaseStatNode.AvgRT`: total RT over completions, 0 without completions -/
def nodeAvgRt (b : Bucket) : Nat := if b.complete = 0 then 0 else b.rt / b.complete

/-- **`BaseStatNode` getters**: `GetSum`, `AvgRT` (= ⌊Σrt / Σcomplete⌋ of the window, 0 without completions),
`MinRT`, `MaxConcurrency` and the integer argument of `GetMaxAvg` (`GetMaxOfSingleBucket`; the driver multiplies it
by `sampleCount / interval · 1000` in `Float`) are the same functions of the reference window payload. -/
theorem node_getters_eq_ref (n L now0 : Nat) (hn : 0 < n) (hL : 0 < L) (ops : List (Op Bucket))
    (mono : MonoOps now0 ops) (now : Nat) (hnow : ∀ o ∈ ops, o.time ≤ now) (hnow0 : now0 ≤ now) (h0 : ∀ o ∈ ops, 0 < o.time) (hpos : 0 < now)
    (Iv : Nat) (hIv : Iv ≤ n * L) :
    let a := runOps (mk n L now0) ops
    let w := refW L (addsOf ops) (cbs L now + L - Iv) (cbs L now)
    (∀ ev, vSum a Iv now ev = w.get ev) ∧
    nodeAvgRt (viewSum a Iv now) = (if w.get .complete = 0 then 0 else w.get .rt / w.get .complete) ∧
    vMinRt a Iv now = max 1 w.minRt ∧ vMaxConc a Iv now = w.mc ∧
    (∀ ev, vMaxBucket a Iv now ev =
      ((viewStarts L Iv now).map fun b => (refW L (addsOf ops) b b).get ev).foldl max 0) := by
  intro a w
  have hv : viewSum a Iv now = w := ops_viewSum_eq_ref n L now0 hn hL ops mono now hnow hnow0 h0 hpos Iv hIv
  refine ⟨fun ev => by unfold vSum; rw [hv], by rw [hv]; rfl, by unfold vMinRt; rw [hv], by unfold vMaxConc; rw [hv], ?_⟩
  intro ev
  exact maxBucket_eq_ref n L now0 hn hL ops mono now hnow hnow0 h0 hpos Iv hIv ev

/-! ### per-second items (`SecondMetricsOnCondition`, a read that does **not** refresh)

`secondItems` and the reference `refItems` (the expression the driver's `spec` mode evaluates over
`itemStarts L cnt now lo hi`, the last `cnt` aligned bucket starts restricted to the caller's `[lo, hi]`) are both
lists with one item per distinct second; they are compared as finite maps `second ↦ payload` (`itemAt`), and
therefore have the same non-zero items — the driver's canonical form (all-zero items dropped, sorted by second). -/

/-- **items, outside the known-finding region** (`_partial`: `now` is not on a bucket boundary, or the current
bucket has been touched): each reported second's payload equals the sum of the references of its buckets inside the
array-wide aligned window (the last `n` buckets ending at the current one) that satisfy the caller's predicate;
no second with a non-zero reference is missing; seconds are distinct. -/
theorem secondItems_eq_ref_partial (n L now0 : Nat) (hn : 0 < n) (hL : 0 < L) (ops : List (Op Bucket))
    (mono : MonoOps now0 ops) (now : Nat) (hnow : ∀ o ∈ ops, o.time ≤ now) (hnow0 : now0 ≤ now) (h0 : ∀ o ∈ ops, 0 < o.time) (hpos : 0 < now) (lo hi : Nat)
    (hreg : now % L ≠ 0 ∨ cbs L now0 = cbs L now ∨ ∃ o ∈ ops, cbs L o.time = cbs L now) :
    let items := secondItems (runOps (mk n L now0) ops) now lo hi
    let ref := refItems L (addsOf ops) (itemStarts L n now lo hi)
    (∀ sec, itemAt items sec = itemAt ref sec) ∧ (∀ p, p.2 ≠ 0 → (p ∈ items ↔ p ∈ ref)) ∧
    (items.map (·.1)).Nodup ∧ (ref.map (·.1)).Nodup := by
  intro items ref
  have r := reach_ops_pos n L now0 hn hL ops mono now hnow hnow0 h0
  have hreg' : now % L ≠ 0 ∨ cbs L (lastTime now0 ops) = cbs L now := by
    rcases hreg with h | h
    · exact Or.inl h
    · exact Or.inr (touched_last L now0 ops mono now hnow hnow0 h)
  have heq : ∀ sec, itemAt items sec = itemAt ref sec :=
    items_of_reach _ n L _ _ now r hpos lo hi hreg'
  have k1 := secondItems_keys_nodup (runOps (mk n L now0) ops) now lo hi
  have k2 := refItems_keys_nodup L (addsOf ops) (itemStarts L n now lo hi)
  exact ⟨heq, fun p hp => items_same_nonzero items ref k1 k2 heq p hp, k1, k2⟩

/-- **items, inside the known-finding region** (`items-boundary-bucket`: `now` exactly on a bucket boundary, nothing
has touched the current bucket): the same equality holds with the window one bucket longer (`n + 1` buckets) — the
strict deprecation test `now − start > n·L` admits the bucket that began exactly one interval ago.  Together with
`secondItems_eq_ref_partial` this determines the items for every reachable array and every read time. -/
theorem secondItems_boundary_eq (n L now0 : Nat) (hn : 0 < n) (hL : 0 < L) (ops : List (Op Bucket))
    (mono : MonoOps now0 ops) (now : Nat) (hnow : ∀ o ∈ ops, o.time ≤ now) (hnow0 : now0 ≤ now) (h0 : ∀ o ∈ ops, 0 < o.time) (hpos : 0 < now) (lo hi : Nat)
    (hb : now % L = 0) (hun : cbs L (lastTime now0 ops) ≠ cbs L now) :
    let items := secondItems (runOps (mk n L now0) ops) now lo hi
    let ref := refItems L (addsOf ops) (itemStarts L (n + 1) now lo hi)
    (∀ sec, itemAt items sec = itemAt ref sec) ∧ (∀ p, p.2 ≠ 0 → (p ∈ items ↔ p ∈ ref)) := by
  intro items ref
  have r := reach_ops_pos n L now0 hn hL ops mono now hnow hnow0 h0
  have heq : ∀ sec, itemAt items sec = itemAt ref sec :=
    items_of_reach_boundary _ n L _ _ now r hpos lo hi hb hun
  exact ⟨heq, fun p hp => items_same_nonzero items ref (secondItems_keys_nodup _ now lo hi)
    (refItems_keys_nodup L _ _) heq p hp⟩

/-- **items, exact form for every reachable array and every read time**: second by second, the reported payload is
the reference over the array-wide aligned window (last `n` buckets ∩ caller's predicate) **plus**, inside
`BoundaryRegion` (read exactly on a bucket boundary, no call in the current bucket yet), the contribution
`boundaryItem` of the one bucket that began exactly an array interval ago — nothing else, ever. -/
theorem secondItems_exact (n L now0 : Nat) (hn : 0 < n) (hL : 0 < L) (ops : List (Op Bucket))
    (mono : MonoOps now0 ops) (now : Nat) (hnow : ∀ o ∈ ops, o.time ≤ now) (hnow0 : now0 ≤ now) (h0 : ∀ o ∈ ops, 0 < o.time) (hpos : 0 < now) (lo hi sec : Nat) :
    itemAt (secondItems (runOps (mk n L now0) ops) now lo hi) sec =
      itemAt (refItems L (addsOf ops) (itemStarts L n now lo hi)) sec +
        (if BoundaryRegion L now0 ops now then boundaryItem L (addsOf ops) n now lo hi sec else 0) := by
  have r := reach_ops_pos n L now0 hn hL ops mono now hnow hnow0 h0
  by_cases hr : BoundaryRegion L now0 ops now
  · rw [if_pos hr, items_of_reach_boundary _ n L _ _ now r hpos lo hi hr.1 hr.2 sec, itemAt_refItems_succ]
  · rw [if_neg hr, add_zero]
    apply items_of_reach _ n L _ _ now r hpos lo hi
    by_cases hb : now % L = 0
    · right
      by_contra hc
      exact hr ⟨hb, hc⟩
    · exact Or.inl hb

/-- **items equal the aligned-window reference exactly outside the known-finding region**: the per-second items agree
with the reference (as finite maps, hence in the driver's canonical form) **iff it is not the case that** the read is
in `BoundaryRegion`, the bucket `cbs now − n·L` exists and satisfies the caller's predicate, and adding its recordings
changes the payload of its second.  (The last clause cannot be simplified to "has recordings": min-RT headroom and peak
concurrency combine by `max`, so a boundary bucket dominated by its second's other buckets is invisible.) -/
theorem secondItems_eq_ref_iff (n L now0 : Nat) (hn : 0 < n) (hL : 0 < L) (ops : List (Op Bucket))
    (mono : MonoOps now0 ops) (now : Nat) (hnow : ∀ o ∈ ops, o.time ≤ now) (hnow0 : now0 ≤ now) (h0 : ∀ o ∈ ops, 0 < o.time) (hpos : 0 < now) (lo hi : Nat) :
    (∀ sec, itemAt (secondItems (runOps (mk n L now0) ops) now lo hi) sec =
        itemAt (refItems L (addsOf ops) (itemStarts L n now lo hi)) sec) ↔
    ¬ (BoundaryRegion L now0 ops now ∧ n * L ≤ cbs L now ∧ lo ≤ cbs L now - n * L ∧ cbs L now - n * L ≤ hi ∧
        itemAt (refItems L (addsOf ops) (itemStarts L n now lo hi)) ((cbs L now - n * L) - (cbs L now - n * L) % 1000) +
            refW L (addsOf ops) (cbs L now - n * L) (cbs L now - n * L) ≠
          itemAt (refItems L (addsOf ops) (itemStarts L n now lo hi)) ((cbs L now - n * L) - (cbs L now - n * L) % 1000)) := by
  have hex := secondItems_exact n L now0 hn hL ops mono now hnow hnow0 h0 hpos lo hi
  constructor
  · rintro heq ⟨hr, h1, h2, h3, hne⟩
    have := hex ((cbs L now - n * L) - (cbs L now - n * L) % 1000)
    rw [heq, if_pos hr] at this
    unfold boundaryItem at this
    rw [if_pos ⟨h1, h2, h3, rfl⟩] at this
    exact hne this.symm
  · intro hnot sec
    rw [hex sec]
    by_cases hr : BoundaryRegion L now0 ops now
    · rw [if_pos hr]
      unfold boundaryItem
      split_ifs with hc
      · obtain ⟨h1, h2, h3, rfl⟩ := hc
        by_contra hne
        exact hnot ⟨hr, h1, h2, h3, hne⟩
      · rw [add_zero]
    · rw [if_neg hr, add_zero]

/-- the region is inhabited and the deviation is real: on the known-finding replay (array 20×1 ms created at 1, 3 passes
at 618, item read at 638) the items differ from the aligned-window reference at second 0 -/
theorem secondItems_region_witness :
    BoundaryRegion 1 1 [Op.add 618 (evBucket .pass 3)] 638 ∧
    ¬ (∀ sec, itemAt (secondItems (runOps (mk 20 1 1) [Op.add 618 (evBucket .pass 3)]) 638 0 100000) sec =
        itemAt (refItems 1 (addsOf [Op.add 618 (evBucket .pass 3)]) (itemStarts 1 20 638 0 100000)) sec) := by
  refine ⟨by decide, fun h => ?_⟩
  have h0 := h 0
  revert h0
  decide

/-- outside the region (same replay, but the current bucket has been touched by a later recording): equality -/
example : ∀ sec, itemAt (secondItems (runOps (mk 20 1 1)
      [Op.add 618 (evBucket .pass 3), Op.add 638 (evBucket .block 1)]) 638 0 100000) sec =
    itemAt (refItems 1 (addsOf [Op.add 618 (evBucket .pass 3), Op.add 638 (evBucket .block 1)])
      (itemStarts 1 20 638 0 100000)) sec :=
  (secondItems_eq_ref_partial 20 1 1 (by decide) (by decide) _ (by simp [MonoOps, Op.time]) 638
    (by simp [Op.time]) (by decide) (by simp [Op.time]) (by decide) 0 100000 (Or.inr (Or.inr ⟨_, List.mem_cons_of_mem _ (List.mem_cons_self ..), rfl⟩))).1

/-- `itemStarts L cnt now lo hi` is exactly the set of aligned bucket starts among the last `cnt` buckets ending at
the current one that satisfy the caller's predicate, each once -/
theorem itemStarts_spec (L cnt now lo hi : Nat) (hL : 0 < L) :
    (itemStarts L cnt now lo hi).Nodup ∧
    ∀ b, b ∈ itemStarts L cnt now lo hi ↔
      (L ∣ b ∧ b ≤ cbs L now ∧ cbs L now < b + cnt * L) ∧ lo ≤ b ∧ b ≤ hi := by
  refine ⟨(nodup_lastStarts L _ _ hL).filter _, fun b => ?_⟩
  simp only [itemStarts, List.mem_filter, decide_eq_true_eq, mem_lastStarts L cnt _ b hL (cbs_dvd L now)]

/-! ### idle gaps of any length -/

/-- **after an idle gap every getter returns its empty-window value**: if every recording is at least `g` ms old for
some `g` longer than the array interval `n·L` — **for every `g ∈ ℕ`**, 2^32 ms and its multiples included; refreshes and
reads may have happened in between — then the view payload is empty (`GetSum = 0`, hence QPS 0; `MinRT` = 60000 = "no
data"; `MaxConcurrency = 0`; `GetMaxOfSingleBucket = 0`; node `AvgRT = 0`), the array-level reads are empty (`Count = 0`,
`MinRt = 60000`, `MaxConcurrency = 0`, every bucket `Values(now)` returns is untouched) and every per-second item is
all-zero — even inside the boundary region of the known finding. -/
theorem idle_gap_empty (n L now0 : Nat) (hn : 0 < n) (hL : 0 < L) (ops : List (Op Bucket))
    (mono : MonoOps now0 ops) (now : Nat) (hnow : ∀ o ∈ ops, o.time ≤ now) (hnow0 : now0 ≤ now) (h0 : ∀ o ∈ ops, 0 < o.time) (hpos : 0 < now)
    (g : Nat) (hg : n * L < g) (hidle : ∀ e ∈ addsOf ops, e.1 + g ≤ now)
    (Iv : Nat) (hIv : Iv ≤ n * L) (lo hi : Nat) :
    let a := runOps (mk n L now0) ops
    viewSum a Iv now = 0 ∧ (∀ ev, vSum a Iv now ev = 0) ∧ vMinRt a Iv now = maxRt ∧ vMaxConc a Iv now = 0 ∧
    (∀ ev, vMaxBucket a Iv now ev = 0) ∧ nodeAvgRt (viewSum a Iv now) = 0 ∧
    (∀ ev, (aCount a now ev).2 = 0) ∧ (aMinRt a now).2 = maxRt ∧ (aMaxConc a now).2 = 0 ∧
    (∀ s ∈ (aValues a now).2, s.val = 0) ∧ (∀ p ∈ secondItems a now lo hi, p.2 = 0) := by
  intro a
  have hold := idle_lt_window n L now g hL (addsOf ops) hg hidle
  -- any window starting inside the array-wide aligned window is empty
  have hz : ∀ lo' hi', cbs L now + L - n * L ≤ lo' → refW L (addsOf ops) lo' hi' = 0 := fun lo' hi' hlo =>
    refW_eq_zero_of_lt L _ lo' hi' (fun e he => Nat.lt_of_lt_of_le (hold e he).1 hlo)
  have hv : viewSum a Iv now = 0 := by
    rw [ops_viewSum_eq_ref n L now0 hn hL ops mono now hnow hnow0 h0 hpos Iv hIv]
    exact hz _ _ (by omega)
  have htot : refW L (addsOf ops) (cbs L now + L - n * L) (cbs L now) = 0 := hz _ _ (le_refl _)
  refine ⟨hv, fun ev => by unfold vSum; rw [hv]; exact zero_get ev, by unfold vMinRt; rw [hv]; decide,
    by unfold vMaxConc; rw [hv]; rfl, ?_, by rw [hv]; rfl, ?_, ?_, ?_, ?_, ?_⟩
  · intro ev
    rw [maxBucket_eq_ref n L now0 hn hL ops mono now hnow hnow0 h0 hpos Iv hIv ev]
    apply foldl_max_zero
    intro x hx
    obtain ⟨b, hb, rfl⟩ := List.mem_map.mp hx
    obtain ⟨_, hlo, _⟩ := (mem_viewStarts L Iv now b hL).mp hb
    rw [hz b b (by omega)]
    exact zero_get ev
  · intro ev
    rw [ops_count_eq_ref n L now0 hn hL ops mono now hnow hnow0 h0 hpos ev, htot]
    exact zero_get ev
  · rw [(ops_array_minRt_maxConc_eq_ref n L now0 hn hL ops mono now hnow hnow0 h0 hpos).1, htot]; decide
  · rw [(ops_array_minRt_maxConc_eq_ref n L now0 hn hL ops mono now hnow hnow0 h0 hpos).2, htot]; rfl
  · intro s hs
    obtain ⟨_, hlo, _, hval⟩ := (ops_values_eq_ref n L now0 hn hL ops mono now hnow hnow0 h0 hpos).2.1 s hs
    rw [hval]
    exact hz _ _ hlo
  · intro p hp
    rw [← itemAt_of_mem _ (secondItems_keys_nodup a now lo hi) p hp,
      secondItems_exact n L now0 hn hL ops mono now hnow hnow0 h0 hpos lo hi p.1, itemAt_refItems]
    have h1 : ((((itemStarts L n now lo hi).filter fun b => b - b % 1000 = p.1).map
        fun b => refW L (addsOf ops) b b).sum) = 0 := by
      apply sum_map_zero
      intro b hb
      obtain ⟨⟨hal, hle, hcnt⟩, _⟩ := ((itemStarts_spec L n now lo hi hL).2 b).mp (List.mem_filter.mp hb).1
      have hstep := aligned_lt_step L _ _ (cbs_dvd L now) (Nat.dvd_add hal (Dvd.intro_left _ rfl)) hcnt
      exact hz b b (by omega)
    rw [h1, zero_add]
    split_ifs with hr
    · unfold boundaryItem
      split_ifs with hc
      · apply refW_eq_zero_of_lt
        intro e he
        have h2 := (hold e he).2
        have h3 := cbs_le L e.1
        have hcn : cbs L now = now := by unfold cbs; have := hr.1; omega
        omega
      · rfl
    · rfl

/-- **calls at time 0 are irrelevant** (time 0 is "no time": `currentBucketOfTime(0)` is an error and nothing is
recorded or refreshed): the array after any call sequence is the array after its positive-time calls, which are
still time-monotone — so every `ops_…` theorem, whose hypothesis `h0` asks for positive call times, applies to
`posOps ops` with the reference over the positive-time recordings; the creation time itself may be 0. -/
theorem time0_calls_irrelevant (a : Arr Bucket) (now0 : Nat) (ops : List (Op Bucket)) (mono : MonoOps now0 ops) :
    runOps a ops = runOps a (posOps ops) ∧ MonoOps now0 (posOps ops) ∧
    (∀ o ∈ posOps ops, 0 < o.time ∧ o ∈ ops) :=
  ⟨runOps_posOps a ops, monoOps_posOps now0 ops mono, fun o ho => ((mem_posOps ops o).mp ho).symm⟩

/-- **no recording is ever dropped along the driver's run** (the hypothesis `Inv` of `add_never_dropped`
discharged over histories): after any time-monotone sequence of recordings and refreshes, a recording at any
`t` not before the last call finds its bucket. -/
theorem ops_add_never_dropped (n L now0 : Nat) (hn : 0 < n) (hL : 0 < L) (ops : List (Op Bucket))
    (mono : MonoOps now0 ops) (t : Nat) (ht : ∀ o ∈ ops, o.time ≤ t) (ht0 : now0 ≤ t)
    (h0 : ∀ o ∈ ops, 0 < o.time) (hpos : 0 < t) (x : Bucket) :
    (addAt (runOps (mk n L now0) ops) t x).2 = true := by
  have r := reach_ops_pos n L now0 hn hL ops mono t ht ht0 h0
  obtain ⟨t0, inv⟩ := r.inv
  have hne : t ≠ 0 := Nat.ne_of_gt hpos
  unfold addAt
  rw [if_neg hne]
  exact add_never_dropped _ _ t0 _ t x inv r.le

/-- the window payload's counters are plain sums, its `mc` a maximum and its `minRt` a minimum capped at 60000:
    what "computed from the multiset of recorded events" means for each getter -/
theorem ref_append_get (L : Nat) (h : List (Nat × Bucket)) (t : Nat) (x : Bucket) (lo hi : Nat) (ev : Ev) :
    (refW L (h ++ [(t, x)]) lo hi).get ev =
      (refW L h lo hi).get ev + (if lo ≤ cbs L t ∧ cbs L t ≤ hi then x.get ev else 0) := by
  rw [refW_append]; split_ifs <;> cases ev <;> simp [Bucket.get]

/-- a view is constructible exactly when it tiles the parent's buckets:
    `validView = 0 ↔` both geometries are well formed, the parent interval is a multiple of the view
    interval and the view bucket is a multiple of the parent bucket -/
theorem validView_iff_tiles (sc Iv psc pI : Nat) :
    validView sc Iv psc pI = 0 ↔
      (Iv ≠ 0 ∧ sc ≠ 0 ∧ sc ∣ Iv) ∧ (pI ≠ 0 ∧ psc ≠ 0 ∧ psc ∣ pI) ∧ Iv ∣ pI ∧ (pI / psc) ∣ (Iv / sc) := by
  unfold validView
  simp only [Nat.dvd_iff_mod_eq_zero]
  split_ifs <;> simp_all <;> omega

/-! ## non-vacuity: concrete histories meet the hypotheses, and the pinned defect is real -/

example : Mono 100 [(100, evBucket .pass 3), (700, evBucket .pass 2)] := by simp [Mono]
example : MonoOps 100 [Op.add 100 (evBucket .pass 3), Op.refresh 600, Op.add 700 (evBucket .pass 2)] := by
  simp [MonoOps, Op.time]
/-- the hypotheses of `secondItems_boundary_eq` are met by the known-finding replay (read at 638 on a 1 ms grid,
    last call at 618) -/
example : 638 % 1 = 0 ∧ cbs 1 (lastTime 1 [Op.add 618 (evBucket .pass 3)]) ≠ cbs 1 638 := by decide

/-- the pre-repair arithmetic (`rangeOfWrap`, uint64 wrap-around) lost the window for `now < Iv - L`:
    array 2×500 created at t=100, view interval 1000 read at t=100 — the wrapped start excludes the
    only event although the reference contains it. -/
theorem underflow_witness :
    (rangeOfWrap 500 1000 100).1 > 100 ∧ (rangeOf 500 1000 100) = (0, 0) ∧
    (refW 500 [(100, evBucket .pass 1)] 0 (cbs 500 100)).pass = 1 := by decide

/-- known finding `items-boundary-bucket` (not repaired; same strict test as upstream): a per-second
    item read issued exactly on a bucket boundary (array 20×1 ms created at t=1, 3 passes at t=618, read at
    t=638 with no refresh in between) still reports the bucket 618 = 638 − 20, although the aligned
    window ending at the current bucket is [619, 638] and contains nothing. -/
theorem items_boundary_witness :
    ((secondItems (addAt (mk 20 1 1 : Arr Bucket) 618 (evBucket .pass 3)).1 638 0 100000).map fun p => p.2.pass) = [3]
    ∧ (refW 1 [(618, evBucket .pass 3)] 619 638).pass = 0 := by decide

end Sentinel.C08
