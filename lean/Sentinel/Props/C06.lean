import Sentinel.Lemmas.HotConc
import Sentinel.Lemmas.HotConcCap
import Sentinel.Lemmas.HotConcReload
import Sentinel.Drv.C06
/-!
# C06 — Hot-parameter concurrency is capped per value and its counters conserved
(property-level theorems; helper lemmas in `Sentinel/Lemmas/HotConc.lean`, model in `Sentinel/Model/HotConc.lean`)

Reading guide.  `init rules` is the state right after `hotspot.LoadRules(rules)` (one controller `Tc` with an empty LRU
counter cache per valid rule); `run s ops` executes a history of `Op.entry id res args atts` / `Op.exit id` /
`Op.flowBlock res` with the code-shaped definitions the correspondence driver executes against `core/hotspot` +
`api.Entry`.  `St.live` is the ledger the property speaks about: the entries that were admitted and have not been
exited yet, with the arguments they were admitted with (the code has no such list; `admitted_counted`,
`blocked_not_counted` and `args_stable` tie it to the history).  `r.sel res args atts` is the value rule `r` selects from an entry (`Val.nil`: the rule does not apply or the
entry lacks the argument — such a request is not limited by the rule); `liveOf r v L` counts the entries of `L` on the
rule's resource whose selected value is `v`; `cellOf t.cache v` is the in-flight figure the code keeps for `v`;
`r.thrOf v` is the specific item for `v` if there is one, else the general threshold.

`Tc.ev` is a ghost flag: the controller's LRU cache has evicted a key (more distinct values than `ParamsMaxCapacity`,
default 4000, have been seen).  The statement has no such proviso: beyond the capacity the code deviates (known finding
`cell-evicted`, `evict_witness`); the theorems are stated for controllers that have not evicted, and
`no_evict_of_few_values` gives the history-level sufficient condition.
-/
namespace Sentinel.C06
open Sentinel.HotConc

/-! ## conservation: the per-value figure equals the number of live entries admitted with that value -/

/-- **C06, conservation.** For every rule set, every history of entries and exits (any values, any argument
positions, any nesting, exits in any order, blocked entries and entries blocked by another slot in between), every
controller that has not evicted and every value: the cell equals the number of live entries admitted with it. -/
theorem cell_eq_live (rules : List Rule) (ops : List Op) :
    ∀ t ∈ (run (init rules) ops).tcs, t.ev = false → ∀ v, v ≠ Val.nil →
      cellOf t.cache v = (liveOf t.rule v (run (init rules) ops).live : Int) :=
  fun t ht hev v hv => (inv_run _ ops (inv_init rules)).1 t ht hev v hv

/-- **no eviction below the capacity**: a controller that has been asked about at most `ParamsMaxCapacity`
(default 4000) distinct values in the whole history — `valsOf r ops` lists the values rule `r` selects from the
`entry`/`check` ops — has never evicted, so everything below applies to it. -/
theorem no_evict_of_few_values (rules : List Rule) (ops : List Op) :
    ∀ t ∈ (run (init rules) ops).tcs, (valsOf t.rule ops).dedup.length ≤ t.rule.cap → t.ev = false := by
  intro t ht hcap
  have hj := J_run ops (fun _ => []) (init rules) (by
    intro t ht
    simp only [init, load, List.mem_map] at ht
    obtain ⟨r, _, rfl⟩ := ht
    exact ⟨by simp [keys], by simp [keys], by simp⟩) t ht
  cases hev : t.ev with
  | false => rfl
  | true =>
    have := hj.2.2 hev
    simp only [List.nil_append] at this
    omega

/-- conservation, stated on the history alone: at most `capacity` distinct values ⇒ cell = live -/
theorem cell_eq_live_of_few_values (rules : List Rule) (ops : List Op) :
    ∀ t ∈ (run (init rules) ops).tcs, (valsOf t.rule ops).dedup.length ≤ t.rule.cap → ∀ v, v ≠ Val.nil →
      cellOf t.cache v = (liveOf t.rule v (run (init rules) ops).live : Int) :=
  fun t ht hcap => cell_eq_live rules ops t ht (no_evict_of_few_values rules ops t ht hcap)

/-- **returns to zero**: once every admitted entry has been exited, every cell is 0 -/
theorem returns_to_zero (rules : List Rule) (ops : List Op) (hall : (run (init rules) ops).live = []) :
    ∀ t ∈ (run (init rules) ops).tcs, t.ev = false → ∀ v, v ≠ Val.nil → cellOf t.cache v = 0 := by
  intro t ht hev v hv
  rw [cell_eq_live rules ops t ht hev v hv, hall]
  simp [liveOf]

/-- no step changes the rules of the controllers -/
theorem step_rules (s : St) (op : Op) : (step s op).tcs.map (·.rule) = s.tcs.map (·.rule) := by
  cases op with
  | entry id res a at' =>
    simp only [step]; split
    · rfl
    · unfold entry; split
      · rfl
      · dsimp only; split
        · exact checkTcs_rules ..
        · simp only [List.map_map]
          rw [← checkTcs_rules res a at' s.tcs]
          apply List.map_congr_left
          intro t _; simp
  | exit id =>
    simp only [step]; unfold exit; split
    · rfl
    · simp only [List.map_map]
      apply List.map_congr_left
      intro t _; simp
  | flowBlock res => rfl
  | check id res a at' =>
    simp only [step]; split
    · rfl
    · unfold check; split
      · rfl
      · exact checkTcs_rules ..
  | commit id =>
    simp only [step]; unfold commit; split
    · rfl
    · split
      · simp only [List.map_map]
        apply List.map_congr_left
        intro t _; simp
      · rfl

theorem run_rules (s : St) (ops : List Op) : (run s ops).tcs.map (·.rule) = s.tcs.map (·.rule) := by
  induction ops generalizing s with
  | nil => rfl
  | cons op ops ih =>
    show (run (step s op) ops).tcs.map (·.rule) = _
    rw [ih, step_rules]

/-- the controllers of a reachable state are, in order, those of the valid rules that were loaded -/
theorem rules_fixed (rules : List Rule) (ops : List Op) :
    (run (init rules) ops).tcs.map (·.rule) = rules.filter Rule.valid := by
  rw [run_rules]
  simp [init, load, List.map_map, Function.comp_def]

/-- exiting every live entry (in any order the ledger lists them) empties the ledger -/
theorem drain (s : St) : (run s (s.live.map fun e => Op.exit e.id)).live = [] := by
  have key : ∀ (n : Nat) (s : St), s.live.length = n → (run s (s.live.map fun e => Op.exit e.id)).live = [] := by
    intro n
    induction n with
    | zero =>
      intro s hn
      have : s.live = [] := List.eq_nil_of_length_eq_zero hn
      simp [this, run]
    | succ n ih =>
      intro s hn
      match hl : s.live with
      | [] => simp [hl] at hn
      | e :: L =>
        simp only [List.map_cons, run, List.foldl_cons]
        have hstep : (step s (Op.exit e.id)).live = L := by
          simp [step, exit, hl, List.find?, List.eraseP]
        have := ih (step s (Op.exit e.id)) (by rw [hstep]; simpa [hl] using hn)
        rw [hstep] at this
        exact this
  exact key _ s rfl

/-! ## admission -/

/-- what the check of one controller decides, in terms of the ledger -/
theorem violates_iff (t : Tc) (L : List Live) (res : String) (a : List Val) (at' : List (String × Val))
    (h : TcInv t L) (hev : t.ev = false) :
    t.violates res a at' = true ↔
      (t.rule.sel res a at' ≠ Val.nil ∧
        ¬ (liveOf t.rule (t.rule.sel res a at') L : Int) < t.rule.thrOf (t.rule.sel res a at')) := by
  unfold Tc.violates Tc.sel; dsimp only
  by_cases hv : t.rule.sel res a at' = Val.nil
  · simp [hv]
  · have hc := h hev _ hv
    simp only [hv, if_false, ne_eq, not_false_eq_true, true_and, Bool.not_eq_true', decide_eq_false_iff_not]
    rw [hc]; omega

/-- admission in any state that satisfies the invariant (reachable with or without reloads) -/
theorem admit_iff_of_inv (s : St) (hinv0 : Inv s) (id res : String) (a : List Val) (at' : List (String × Val))
    (hev : ∀ t ∈ s.tcs, t.ev = false) :
    (entry s id res a at').2 = Res.pass ↔
      (¬ res ∈ s.fb ∧
       ∀ t ∈ s.tcs, t.rule.sel res a at' ≠ Val.nil →
         (liveOf t.rule (t.rule.sel res a at') s.live : Int) < t.rule.thrOf (t.rule.sel res a at')) := by
  have hinv := hinv0.1
  unfold entry
  by_cases hfb : s.fb.contains res = true
  · have : res ∈ s.fb := by simpa using hfb
    simp [hfb, this]
  · have hnm : ¬ res ∈ s.fb := by simpa using hfb
    simp only [hfb, Bool.false_eq_true, if_false, hnm, not_false_eq_true, true_and]
    rw [checkTcs_blocked]
    by_cases hany : (s.tcs.any fun t => t.violates res a at') = true
    · simp only [hany, if_true]
      constructor
      · intro h; cases h
      · intro h
        exfalso
        obtain ⟨t, ht, hv⟩ := List.any_eq_true.mp hany
        have := (violates_iff t s.live res a at' (hinv t ht) (hev t ht)).mp hv
        exact this.2 (h t ht this.1)
    · simp only [hany, Bool.false_eq_true, if_false, true_iff]
      intro t ht hv
      by_contra hc
      apply hany
      apply List.any_eq_true.mpr
      exact ⟨t, ht, (violates_iff t s.live res a at' (hinv t ht) (hev t ht)).mpr ⟨hv, hc⟩⟩

/-- **C06, admission.** In every reachable state whose controllers have not evicted, an entry is admitted iff no other
slot blocks it and, for every concurrency rule of the resource that selects a value `v` from it, fewer entries are in
flight for `v` than the threshold configured for `v` (specific or general) — independently of every other value: the
right-hand side mentions only `v`'s own ledger.  Full strength: any thresholds (0 and negative specific items
included), first request of a value included (repaired tree, commit 9ba0999; on the old code `first_touch_witness`). -/
theorem admit_iff (rules : List Rule) (ops : List Op) (id res : String) (a : List Val) (at' : List (String × Val))
    (hev : ∀ t ∈ (run (init rules) ops).tcs, t.ev = false) :
    (entry (run (init rules) ops) id res a at').2 = Res.pass ↔
      (¬ res ∈ (run (init rules) ops).fb ∧
       ∀ t ∈ (run (init rules) ops).tcs, t.rule.sel res a at' ≠ Val.nil →
         (liveOf t.rule (t.rule.sel res a at') (run (init rules) ops).live : Int) < t.rule.thrOf (t.rule.sel res a at')) :=
  admit_iff_of_inv _ (inv_run _ ops (inv_init rules)) id res a at' hev

/-- the same on the history alone: every rule of the resource has been asked about at most `capacity` distinct values -/
theorem admit_iff_of_few_values (rules : List Rule) (ops : List Op) (id res : String) (a : List Val) (at' : List (String × Val))
    (hcap : ∀ t ∈ (run (init rules) ops).tcs, (valsOf t.rule ops).dedup.length ≤ t.rule.cap) :
    (entry (run (init rules) ops) id res a at').2 = Res.pass ↔
      (¬ res ∈ (run (init rules) ops).fb ∧
       ∀ t ∈ (run (init rules) ops).tcs, t.rule.sel res a at' ≠ Val.nil →
         (liveOf t.rule (t.rule.sel res a at') (run (init rules) ops).live : Int) < t.rule.thrOf (t.rule.sel res a at')) :=
  admit_iff rules ops id res a at' (fun t ht => no_evict_of_few_values rules ops t ht (hcap t ht))

/-- a request that lacks the selected argument of every rule of its resource is not limited -/
theorem no_arg_not_limited (s : St) (id res : String) (a : List Val) (at' : List (String × Val))
    (hfb : ¬ res ∈ s.fb) (hnil : ∀ t ∈ s.tcs, t.rule.sel res a at' = Val.nil) :
    (entry s id res a at').2 = Res.pass := by
  unfold entry
  have : s.fb.contains res = false := by simpa using hfb
  simp only [this, Bool.false_eq_true, if_false]
  rw [checkTcs_blocked]
  have : (s.tcs.any fun t => t.violates res a at') = false := by
    apply List.any_eq_false.mpr
    intro t ht
    simp [Tc.violates, Tc.sel, hnil t ht]
  simp [this]

/-- **independence of values**: whether a request is admitted depends on the other entries only through the ledger
of the values it selects itself — two reachable states (of the same rules, after any two histories) whose ledgers
agree on those values give the same answer, whatever is in flight for any other value. -/
theorem independent_of_other_values (rules : List Rule) (ops₁ ops₂ : List Op) (id₁ id₂ res : String)
    (a : List Val) (at' : List (String × Val))
    (hev₁ : ∀ t ∈ (run (init rules) ops₁).tcs, t.ev = false) (hev₂ : ∀ t ∈ (run (init rules) ops₂).tcs, t.ev = false)
    (hfb : res ∈ (run (init rules) ops₁).fb ↔ res ∈ (run (init rules) ops₂).fb)
    (hsame : ∀ r ∈ rules.filter Rule.valid, r.sel res a at' ≠ Val.nil →
      liveOf r (r.sel res a at') (run (init rules) ops₁).live = liveOf r (r.sel res a at') (run (init rules) ops₂).live) :
    ((entry (run (init rules) ops₁) id₁ res a at').2 = Res.pass ↔ (entry (run (init rules) ops₂) id₂ res a at').2 = Res.pass) := by
  rw [admit_iff rules ops₁ id₁ res a at' hev₁, admit_iff rules ops₂ id₂ res a at' hev₂, hfb]
  have m₁ : ∀ t ∈ (run (init rules) ops₁).tcs, t.rule ∈ rules.filter Rule.valid := by
    intro t ht; rw [← rules_fixed rules ops₁]; exact List.mem_map_of_mem ht
  have m₂ : ∀ t ∈ (run (init rules) ops₂).tcs, t.rule ∈ rules.filter Rule.valid := by
    intro t ht; rw [← rules_fixed rules ops₂]; exact List.mem_map_of_mem ht
  have r₁ : ∀ r ∈ rules.filter Rule.valid, ∃ t ∈ (run (init rules) ops₁).tcs, t.rule = r := by
    intro r hr; rw [← rules_fixed rules ops₁] at hr; simpa using hr
  have r₂ : ∀ r ∈ rules.filter Rule.valid, ∃ t ∈ (run (init rules) ops₂).tcs, t.rule = r := by
    intro r hr; rw [← rules_fixed rules ops₂] at hr; simpa using hr
  constructor
  · rintro ⟨h1, h2⟩
    refine ⟨h1, fun t ht hv => ?_⟩
    obtain ⟨t', ht', hr⟩ := r₁ _ (m₂ t ht)
    have := h2 t' ht' (by rw [hr]; exact hv)
    rw [hr] at this
    rw [← hsame _ (m₂ t ht) hv]; exact this
  · rintro ⟨h1, h2⟩
    refine ⟨h1, fun t ht hv => ?_⟩
    obtain ⟨t', ht', hr⟩ := r₂ _ (m₁ t ht)
    have := h2 t' ht' (by rw [hr]; exact hv)
    rw [hr] at this
    rw [hsame _ (m₁ t ht) hv]; exact this

/-! ## blocked entries occupy nothing; the ledger is the history's -/

/-- an entry that is not admitted (blocked by the hotspot rule or by another slot) is not in the ledger
(and, by `cell_eq_live`, in no cell) -/
theorem blocked_not_counted (s : St) (id res : String) (a : List Val) (at' : List (String × Val))
    (h : (entry s id res a at').2 ≠ Res.pass) : (entry s id res a at').1.live = s.live := by
  unfold entry at h ⊢
  by_cases h1 : s.fb.contains res = true
  · simp only [h1, if_true]
  · by_cases h2 : (checkTcs res a at' s.tcs).2 = true
    · simp only [h1, h2, Bool.false_eq_true, if_false, if_true]
    · simp only [h1, h2, Bool.false_eq_true, if_false] at h
      exact absurd rfl h

/-- an admitted entry is in the ledger exactly once more, with the arguments it was admitted with -/
theorem admitted_counted (s : St) (id res : String) (a : List Val) (at' : List (String × Val))
    (h : (entry s id res a at').2 = Res.pass) :
    (entry s id res a at').1.live = { id := id, res := res, args := a, atts := at' } :: s.live := by
  unfold entry at h ⊢
  by_cases h1 : s.fb.contains res = true
  · simp only [h1, if_true] at h; cases h
  · by_cases h2 : (checkTcs res a at' s.tcs).2 = true
    · simp only [h1, h2, Bool.false_eq_true, if_false, if_true] at h; cases h
    · simp only [h1, h2, Bool.false_eq_true, if_false]

/-- **the arguments of a live entry are the ones it was created with** (observation `Input.Args` of live entries):
every entry of the ledger stems from an `entry` (or two-step `check`) op of the history with exactly these arguments,
and so does every parked entry -/
theorem args_stable (rules : List Rule) (ops : List Op) :
    ∀ e ∈ (run (init rules) ops).live,
      Op.entry e.id e.res e.args e.atts ∈ ops ∨ Op.check e.id e.res e.args e.atts ∈ ops := by
  have key : ∀ (ops : List Op) (s : St),
      (∀ e ∈ (run s ops).live, e ∈ s.live ∨ (∃ p ∈ s.pend, p.id = e.id ∧ p.res = e.res ∧ p.args = e.args ∧ p.atts = e.atts) ∨
        Op.entry e.id e.res e.args e.atts ∈ ops ∨ Op.check e.id e.res e.args e.atts ∈ ops) ∧
      (∀ p ∈ (run s ops).pend, p ∈ s.pend ∨ Op.check p.id p.res p.args p.atts ∈ ops) := by
    intro ops
    induction ops with
    | nil => intro s; exact ⟨fun e he => Or.inl he, fun p hp => Or.inl hp⟩
    | cons op ops ih =>
      intro s
      obtain ⟨ih1, ih2⟩ := ih (step s op)
      -- what one step does to the ledger and to the parked entries
      have hl : ∀ e ∈ (step s op).live, e ∈ s.live ∨
          (∃ p ∈ s.pend, p.id = e.id ∧ p.res = e.res ∧ p.args = e.args ∧ p.atts = e.atts) ∨
          op = Op.entry e.id e.res e.args e.atts := by
        intro e h
        cases op with
        | entry id res a at' =>
          simp only [step] at h
          split at h
          · exact Or.inl h
          · by_cases hp : (entry s id res a at').2 = Res.pass
            · rw [admitted_counted s id res a at' hp] at h
              rcases List.mem_cons.mp h with rfl | h
              · exact Or.inr (Or.inr rfl)
              · exact Or.inl h
            · rw [blocked_not_counted s id res a at' hp] at h
              exact Or.inl h
        | exit id =>
          simp only [step] at h
          unfold exit at h
          split at h
          · exact Or.inl h
          · exact Or.inl (List.mem_of_mem_eraseP h)
        | flowBlock res => exact Or.inl h
        | check id res a at' =>
          simp only [step] at h
          split at h
          · exact Or.inl h
          · unfold check at h; split at h <;> exact Or.inl h
        | commit id =>
          simp only [step] at h
          unfold commit at h
          split at h
          · exact Or.inl h
          · rename_i p hf
            split at h
            · rcases List.mem_cons.mp h with rfl | h
              · exact Or.inr (Or.inl ⟨p, find_mem _ _ _ hf, rfl, rfl, rfl, rfl⟩)
              · exact Or.inl h
            · exact Or.inl h
      have hpd : ∀ p ∈ (step s op).pend, p ∈ s.pend ∨ op = Op.check p.id p.res p.args p.atts := by
        intro p h
        cases op with
        | entry id res a at' =>
          simp only [step] at h
          split at h
          · exact Or.inl h
          · unfold entry at h
            split at h
            · exact Or.inl h
            · dsimp only at h; split at h <;> exact Or.inl h
        | exit id =>
          simp only [step] at h
          unfold exit at h
          split at h <;> exact Or.inl h
        | flowBlock res => exact Or.inl h
        | check id res a at' =>
          simp only [step] at h
          split at h
          · exact Or.inl h
          · unfold check at h
            split at h
            · rcases List.mem_cons.mp h with rfl | h
              · exact Or.inr rfl
              · exact Or.inl h
            · dsimp only at h
              rcases List.mem_cons.mp h with rfl | h
              · exact Or.inr rfl
              · exact Or.inl h
        | commit id =>
          simp only [step] at h
          unfold commit at h
          split at h
          · exact Or.inl h
          · split at h <;> exact Or.inl (List.mem_of_mem_eraseP h)
      refine ⟨?_, ?_⟩
      · intro e he
        rcases ih1 e he with h | ⟨p, hp, h1, h2, h3, h4⟩ | h | h
        · rcases hl e h with h | h | h
          · exact Or.inl h
          · exact Or.inr (Or.inl h)
          · exact Or.inr (Or.inr (Or.inl (h ▸ List.mem_cons_self ..)))
        · rcases hpd p hp with h | h
          · exact Or.inr (Or.inl ⟨p, h, h1, h2, h3, h4⟩)
          · refine Or.inr (Or.inr (Or.inr ?_))
            rw [← h1, ← h2, ← h3, ← h4, ← h]; exact List.mem_cons_self ..
        · exact Or.inr (Or.inr (Or.inl (List.mem_cons_of_mem _ h)))
        · exact Or.inr (Or.inr (Or.inr (List.mem_cons_of_mem _ h)))
      · intro p hp
        rcases ih2 p hp with h | h
        · rcases hpd p h with h | h
          · exact Or.inl h
          · exact Or.inr (h ▸ List.mem_cons_self ..)
        · exact Or.inr (List.mem_cons_of_mem _ h)
  intro e he
  rcases (key ops (init rules)).1 e he with h | ⟨p, hp, _⟩ | h
  · simp [init, load] at h
  · simp [init, load] at hp
  · exact h

/-! ## the cap -/

/-- a sequential history: every `api.Entry` runs to completion before the next op (no parked goroutines) -/
def sequential : Op → Bool
  | .check .. => false
  | .commit .. => false
  | _ => true

theorem liveOf_eraseP_le (r : Rule) (v : Val) (q : Live → Bool) (L : List Live) :
    liveOf r v (L.eraseP q) ≤ liveOf r v L := by
  unfold liveOf
  exact (List.eraseP_sublist (l := L)).countP_le

/-! ## schedules -/

/-- a sequential `api.Entry` is the two steps run back to back -/
theorem entry_eq_check_commit (s : St) (id res : String) (a : List Val) (at' : List (String × Val)) :
    (commit (check s id res a at') id).2 = some (entry s id res a at').2 ∧
    (commit (check s id res a at') id).1.tcs = (entry s id res a at').1.tcs ∧
    (commit (check s id res a at') id).1.live = (entry s id res a at').1.live ∧
    (commit (check s id res a at') id).1.pend = s.pend := by
  by_cases h1 : s.fb.contains res = true
  · have hc : check s id res a at' =
        { s with pend := { id := id, res := res, args := a, atts := at', verdict := Res.blockFlow } :: s.pend } := by
      simp only [check, h1, if_true]
    have he : entry s id res a at' = (s, Res.blockFlow) := by simp only [entry, h1, if_true]
    rw [hc, he]
    simp [commit, List.find?, List.eraseP]
  · by_cases h2 : (checkTcs res a at' s.tcs).2 = true
    · have hc : check s id res a at' =
          { s with tcs := (checkTcs res a at' s.tcs).1,
                   pend := { id := id, res := res, args := a, atts := at', verdict := Res.blockHot } :: s.pend } := by
        simp only [check, h1, h2, Bool.false_eq_true, if_false, if_true]
      have he : entry s id res a at' = ({ s with tcs := (checkTcs res a at' s.tcs).1 }, Res.blockHot) := by
        simp only [entry, h1, h2, Bool.false_eq_true, if_false, if_true]
      rw [hc, he]
      simp [commit, List.find?, List.eraseP]
    · have hc : check s id res a at' =
          { s with tcs := (checkTcs res a at' s.tcs).1,
                   pend := { id := id, res := res, args := a, atts := at', verdict := Res.pass } :: s.pend } := by
        simp only [check, h1, h2, Bool.false_eq_true, if_false]
      have he : entry s id res a at' =
          ({ s with tcs := (checkTcs res a at' s.tcs).1.map (fun t => t.bump res a at' 1),
                    live := { id := id, res := res, args := a, atts := at' } :: s.live }, Res.pass) := by
        simp only [entry, h1, h2, Bool.false_eq_true, if_false]
      rw [hc, he]
      simp [commit, List.find?, List.eraseP]

/-- **admission under any schedule**: whatever interleaving of check / commit / exit steps of any number of
goroutines led to the state, the verdict fixed by a `check` step is "pass" iff no other slot blocks and, for every rule
selecting a value `v`, fewer *completed* admissions for `v` are in flight than `v`'s threshold — requests that are
themselves between their check and their commit are not counted (see `overshoot_witness`, `capped_sched`). -/
theorem check_verdict_iff (rules : List Rule) (ops : List Op) (id res : String) (a : List Val) (at' : List (String × Val))
    (hev : ∀ t ∈ (run (init rules) ops).tcs, t.ev = false) :
    (commit (check (run (init rules) ops) id res a at') id).2 = some Res.pass ↔
      (¬ res ∈ (run (init rules) ops).fb ∧
       ∀ t ∈ (run (init rules) ops).tcs, t.rule.sel res a at' ≠ Val.nil →
         (liveOf t.rule (t.rule.sel res a at') (run (init rules) ops).live : Int) < t.rule.thrOf (t.rule.sel res a at')) := by
  rw [(entry_eq_check_commit _ id res a at').1, ← admit_iff rules ops id res a at' hev]
  simp

/-! ### the cap under schedules: at most `P − 1` above the threshold for `P` goroutines inside `api.Entry` -/

/-- parked entries with verdict "pass" that rule `r` accounts to value `v` -/
def parkedOf (r : Rule) (v : Val) (pend : List Pend) : Nat :=
  pend.countP (fun p => decide (p.verdict = Res.pass) && (r.sel p.res p.args p.atts == v))

/-- the schedule never has more than `P` goroutines between the start of their `api.Entry` and the end of its
statistic slots (parked ones, plus the one executing a sequential `entry`) -/
def within (P : Nat) : St → List Op → Prop
  | s, [] => s.pend.length ≤ P
  | s, op :: ops =>
    s.pend.length + (match op with | .entry .. => 1 | _ => 0) ≤ P ∧ within P (step s op) ops

theorem within_pend (P : Nat) (s : St) (ops : List Op) (h : within P s ops) : s.pend.length ≤ P := by
  cases ops with
  | nil => exact h
  | cons op ops => have := h.1; omega

theorem parkedOf_le (r : Rule) (v : Val) (pend : List Pend) : parkedOf r v pend ≤ pend.length :=
  List.countP_le_length

def CappedP (P : Nat) (s : St) : Prop :=
  ∀ t ∈ s.tcs, t.ev = false → ∀ v, v ≠ Val.nil →
    (liveOf t.rule v s.live : Int) + parkedOf t.rule v s.pend ≤ max (t.rule.thrOf v) 0 + P - 1

/-- a controller that did not object to a request had room for the value it selects -/
theorem room_of_not_violates (s : St) (hinv : Inv s)
    (res : String) (a : List Val) (at' : List (String × Val)) (hb : (checkTcs res a at' s.tcs).2 = false)
    (t : Tc) (hm : t ∈ s.tcs) (hev : t.ev = false) (hv : t.rule.sel res a at' ≠ Val.nil) :
    (liveOf t.rule (t.rule.sel res a at') s.live : Int) < t.rule.thrOf (t.rule.sel res a at') := by
  have hnv : t.violates res a at' = false := by
    have := checkTcs_blocked res a at' s.tcs
    rw [hb] at this
    exact (List.any_eq_false.mp this.symm) t hm |> fun h => by simpa using h
  have hvi := violates_iff t s.live res a at' (hinv.1 t hm) hev
  by_contra hcon
  have := hvi.mpr ⟨hv, hcon⟩
  rw [hnv] at this; cases this

theorem cappedP_step (P : Nat) (s : St) (op : Op) (ops : List Op) (hw : within P s (op :: ops)) (hinv : Inv s)
    (hc : CappedP P s) : CappedP P (step s op) := by
  have hnext := within_pend P _ _ hw.2
  cases op with
  | flowBlock res => exact hc
  | exit id =>
    simp only [step]; unfold exit
    split
    · exact hc
    · intro t' ht' hev v hv
      simp only [List.mem_map] at ht'
      obtain ⟨t, hm, rfl⟩ := ht'
      rw [bump_ev] at hev
      rw [bump_rule]
      have := hc t hm hev v hv
      have h2 := liveOf_eraseP_le t.rule v (fun e => e.id == id) s.live
      show (liveOf t.rule v (s.live.eraseP _) : Int) + parkedOf t.rule v s.pend ≤ _
      omega
  | commit id =>
    simp only [step]; unfold commit
    split
    · exact hc
    · rename_i p hf
      have hcnt : ∀ (r : Rule) (v : Val), parkedOf r v (s.pend.eraseP fun p => p.id == id) +
          (if (decide (p.verdict = Res.pass) && (r.sel p.res p.args p.atts == v)) = true then 1 else 0) = parkedOf r v s.pend :=
        fun r v => countP_eraseP_find _ _ s.pend p hf
      split
      · rename_i hvp
        intro t' ht' hev v hv
        simp only [List.mem_map] at ht'
        obtain ⟨t, hm, rfl⟩ := ht'
        rw [bump_ev] at hev
        rw [bump_rule]
        have h0 := hc t hm hev v hv
        have h1 := hcnt t.rule v
        show (liveOf t.rule v ({ id := p.id, res := p.res, args := p.args, atts := p.atts } :: s.live) : Int) +
          parkedOf t.rule v (s.pend.eraseP _) ≤ _
        rw [liveOf_cons]
        by_cases hs : t.rule.sel p.res p.args p.atts = v
        · simp only [hvp, hs, decide_true, beq_self_eq_true, Bool.and_self, if_true] at h1 ⊢
          push_cast; omega
        · have : (t.rule.sel p.res p.args p.atts == v) = false := by simpa using hs
          simp only [this, Bool.and_false, Bool.false_eq_true, if_false, Nat.add_zero] at h1
          simp only [hs, if_false, Nat.add_zero]
          omega
      · rename_i hvp
        intro t ht hev v hv
        have h0 := hc t ht hev v hv
        have h1 := hcnt t.rule v
        have : decide (p.verdict = Res.pass) = false := by simpa using hvp
        simp only [this, Bool.false_and, Bool.false_eq_true, if_false, Nat.add_zero] at h1
        show (liveOf t.rule v s.live : Int) + parkedOf t.rule v (s.pend.eraseP _) ≤ _
        omega
  | check id res a at' =>
    simp only [step] at hnext ⊢
    split
    · exact hc
    · rename_i hu
      simp only [hu, Bool.false_eq_true, if_false] at hnext
      unfold check at hnext ⊢
      by_cases h1 : s.fb.contains res = true
      · simp only [h1, if_true] at hnext ⊢
        intro t ht hev v hv
        have h0 := hc t ht hev v hv
        show (liveOf t.rule v s.live : Int) + parkedOf t.rule v (_ :: s.pend) ≤ _
        unfold parkedOf at h0 ⊢
        rw [List.countP_cons]
        simp only [decide_false, Bool.false_and, Bool.false_eq_true, if_false, Nat.add_zero, reduceCtorEq]
        exact h0
      · simp only [h1, Bool.false_eq_true, if_false] at hnext ⊢
        intro t' ht' hev v hv
        obtain ⟨t, hm, hr, hk⟩ := checkTcs_keeps res a at' s.tcs t' ht'
        have hev0 := (hk hev).1
        have h0 := hc t hm hev0 v hv
        rw [hr]
        show (liveOf t.rule v s.live : Int) + parkedOf t.rule v (_ :: s.pend) ≤ _
        unfold parkedOf at h0 ⊢
        rw [List.countP_cons]
        by_cases hb : (checkTcs res a at' s.tcs).2 = true
        · simp only [hb, if_true, decide_false, Bool.false_and, Bool.false_eq_true, if_false, Nat.add_zero, reduceCtorEq]
          exact h0
        · have hb' : (checkTcs res a at' s.tcs).2 = false := by simpa using hb
          simp only [hb', Bool.false_eq_true, if_false, decide_true, Bool.true_and]
          by_cases hs : t.rule.sel res a at' = v
          · have hroom := room_of_not_violates s hinv res a at' hb' t hm hev0 (by rw [hs]; exact hv)
            rw [hs] at hroom
            have hle : List.countP (fun p => decide (p.verdict = Res.pass) && (t.rule.sel p.res p.args p.atts == v)) s.pend
                ≤ s.pend.length := List.countP_le_length
            simp only [List.length_cons] at hnext
            simp only [hs, beq_self_eq_true, if_true]
            push_cast; omega
          · have : (t.rule.sel res a at' == v) = false := by simpa using hs
            simp only [this, Bool.false_eq_true, if_false, Nat.add_zero]
            exact h0
  | entry id res a at' =>
    have hroomP : s.pend.length + 1 ≤ P := hw.1
    simp only [step]
    split
    · exact hc
    · by_cases hp : (entry s id res a at').2 = Res.pass
      · have hlive := admitted_counted s id res a at' hp
        have hb : (checkTcs res a at' s.tcs).2 = false := by
          unfold entry at hp
          by_cases h1 : s.fb.contains res = true
          · simp only [h1, if_true] at hp; cases hp
          · by_cases h2 : (checkTcs res a at' s.tcs).2 = true
            · simp only [h1, h2, Bool.false_eq_true, if_false, if_true] at hp; cases hp
            · simpa using h2
        have hst : (entry s id res a at').1.tcs =
            (s.tcs.map (fun t => t.touchFor res a at')).map (fun t => t.bump res a at' 1) ∧
            (entry s id res a at').1.pend = s.pend := by
          unfold entry
          by_cases h1 : s.fb.contains res = true
          · unfold entry at hp; simp only [h1, if_true] at hp; cases hp
          · simp only [h1, hb, Bool.false_eq_true, if_false]
            rw [checkTcs_pass res a at' s.tcs hb]
            simp
        intro t' ht' hev v hv
        rw [hst.1] at ht'
        rw [hst.2]
        simp only [List.map_map, List.mem_map, Function.comp] at ht'
        obtain ⟨t, hm, rfl⟩ := ht'
        rw [bump_ev] at hev
        have hev0 := touchFor_ev t res a at' hev
        rw [bump_rule, touchFor_rule, hlive, liveOf_cons]
        have h0 := hc t hm hev0 v hv
        by_cases hs : t.rule.sel res a at' = v
        · have hroom := room_of_not_violates s hinv res a at' hb t hm hev0 (by rw [hs]; exact hv)
          rw [hs] at hroom
          have hle := parkedOf_le t.rule v s.pend
          simp only [hs, if_true]
          push_cast; omega
        · simp only [hs, if_false, Nat.add_zero]; exact h0
      · have hlive := blocked_not_counted s id res a at' hp
        have hpend : (entry s id res a at').1.pend = s.pend := by
          unfold entry
          by_cases h1 : s.fb.contains res = true
          · simp only [h1, if_true]
          · by_cases h2 : (checkTcs res a at' s.tcs).2 = true
            · simp only [h1, h2, Bool.false_eq_true, if_false, if_true]
            · simp only [h1, h2, Bool.false_eq_true, if_false]
        intro t' ht' hev v hv
        rw [hlive, hpend]
        have : ∃ t ∈ s.tcs, Keeps t t' := by
          unfold entry at ht'
          by_cases h1 : s.fb.contains res = true
          · simp only [h1, if_true] at ht'; exact ⟨t', ht', keeps_refl _⟩
          · by_cases h2 : (checkTcs res a at' s.tcs).2 = true
            · simp only [h1, h2, Bool.false_eq_true, if_false, if_true] at ht'
              exact checkTcs_keeps res a at' s.tcs t' ht'
            · unfold entry at hp; simp only [h1, h2, Bool.false_eq_true, if_false] at hp
              exact absurd trivial hp
        obtain ⟨t, hm, hr, hk⟩ := this
        rw [hr]
        exact hc t hm (hk hev).1 v hv

/-- **C06, the cap under any schedule.** If at most `P` goroutines are ever inside `api.Entry` at once (`within P`)
and the controller has not evicted, then at every moment the entries in flight for a value plus the
admitted-but-not-yet-counted ones stay within `threshold(v) + P − 1` (a threshold below 0 counts as 0: nothing is ever
admitted for such a value).  `P = 1` is the sequential cap `live(v) ≤ threshold(v)` (`capped_sequential`);
`overshoot_witness` shows the bound is attained for `P = 2`. -/
theorem capped_sched (P : Nat) (rules : List Rule) (ops : List Op) (hw : within P (init rules) ops) (hP : 1 ≤ P) :
    ∀ t ∈ (run (init rules) ops).tcs, t.ev = false → ∀ v, v ≠ Val.nil →
      (liveOf t.rule v (run (init rules) ops).live : Int) ≤ max (t.rule.thrOf v) 0 + P - 1 := by
  have key : ∀ (ops : List Op) (s : St), within P s ops → Inv s → CappedP P s → CappedP P (run s ops) := by
    intro ops
    induction ops with
    | nil => intro s _ _ hc; exact hc
    | cons op ops ih =>
      intro s hw hinv hc
      exact ih (step s op) hw.2 (inv_step s op hinv) (cappedP_step P s op ops hw hinv hc)
  have hfin := key ops (init rules) hw (inv_init rules) (by
    intro t ht _ v _
    simp only [init, load, liveOf, parkedOf, List.countP_nil, Nat.cast_zero]
    omega)
  intro t ht hev v hv
  have := hfin t ht hev v hv
  omega

/-- a sequential history: every `api.Entry` runs to completion before the next op (no parked goroutines) -/
theorem within_one_of_sequential (ops : List Op) : ∀ (s : St), s.pend = [] → (∀ op ∈ ops, sequential op = true) →
    within 1 s ops := by
  induction ops with
  | nil => intro s hp _; simp [within, hp]
  | cons op ops ih =>
    intro s hp hseq
    have hs := hseq op (List.mem_cons_self ..)
    refine ⟨by rw [hp]; cases op <;> simp, ih _ ?_ (fun o ho => hseq o (List.mem_cons_of_mem _ ho))⟩
    cases op with
    | check => simp [sequential] at hs
    | commit => simp [sequential] at hs
    | flowBlock res => exact hp
    | exit id =>
      simp only [step]; unfold exit; split
      · exact hp
      · exact hp
    | entry id res a at' =>
      simp only [step]; split
      · exact hp
      · unfold entry
        by_cases h1 : s.fb.contains res = true
        · simp only [h1, if_true]; exact hp
        · by_cases h2 : (checkTcs res a at' s.tcs).2 = true
          · simp only [h1, h2, Bool.false_eq_true, if_false, if_true]; exact hp
          · simp only [h1, h2, Bool.false_eq_true, if_false]; exact hp

/-- **C06, the cap.** In every sequential history (entries and exits in any order, any values, blocked entries and
entries blocked by another slot in between), a controller that has not evicted never has more entries in flight for a
value than the threshold configured for that value (0 for a negative specific item).  (Beyond the capacity:
`evict_witness`; goroutines racing through the check: `overshoot_witness`, `capped_sched`.) -/
theorem capped_sequential (rules : List Rule) (ops : List Op) (hseq : ∀ op ∈ ops, sequential op = true) :
    ∀ t ∈ (run (init rules) ops).tcs, t.ev = false → ∀ v, v ≠ Val.nil →
      (liveOf t.rule v (run (init rules) ops).live : Int) ≤ max (t.rule.thrOf v) 0 := by
  intro t ht hev v hv
  have := capped_sched 1 rules ops (within_one_of_sequential ops _ (by simp [init, load]) hseq) (le_refl 1) t ht hev v hv
  simpa using this

/-- the witness schedule has two goroutines inside `api.Entry` at once and attains `threshold + 2 − 1` -/
example : within 2 (init [{ res := "r", thr := 1 }])
    [.check "e1" "r" [Val.str "a"] [], .check "e2" "r" [Val.str "a"] [], .commit "e1", .commit "e2"] := by
  simp only [within]
  decide

/-- known finding `check-then-act-overshoot`: threshold 1; two goroutines run their checks before either has run
its statistic slot: both are admitted, two entries for one value are in flight (the cells stay exact: 2). -/
def raceOps : List Op :=
  [.check "e1" "r" [Val.str "a"] [], .check "e2" "r" [Val.str "a"] [], .commit "e1", .commit "e2"]

theorem overshoot_witness :
    liveOf { res := "r", thr := 1 } (Val.str "a") (run (init [{ res := "r", thr := 1 }]) raceOps).live = 2 ∧
    (run (init [{ res := "r", thr := 1 }]) raceOps).tcs.map (fun t => cellOf t.cache (Val.str "a")) = [2] ∧
    ({ res := "r", thr := 1 } : Rule).thrOf (Val.str "a") = 1 := by decide

/-! ## `Exit` is idempotent -/

theorem find_eraseP_none (l : List Live) (id : String) (h : (l.map (·.id)).Nodup) :
    (l.eraseP (fun e => e.id == id)).find? (fun e => e.id == id) = none := by
  induction l with
  | nil => rfl
  | cons a l ih =>
    simp only [List.map_cons, List.nodup_cons] at h
    by_cases ha : (a.id == id) = true
    · have hid : a.id = id := by simpa using ha
      simp only [List.eraseP_cons, ha, cond_true]
      apply List.find?_eq_none.mpr
      intro e he hc
      have : e.id = id := by simpa using hc
      exact h.1 (List.mem_map.mpr ⟨e, he, by rw [this, hid]⟩)
    · have ha' : (a.id == id) = false := by simpa using ha
      simp only [List.eraseP_cons, ha', cond_false, List.find?_cons]
      exact ih h.2

/-- a second `Exit` of the same entry (sequentially, or overlapping: `sync.Once` serialises them) changes nothing: the
unit is released exactly once.  (`St.used` keeps the ids of live entries distinct in every well-formed history.) -/
theorem exit_twice (s : St) (id : String) (h : (s.live.map (·.id)).Nodup) : exit (exit s id) id = exit s id := by
  cases hf : s.live.find? (fun e => e.id == id) with
  | none =>
    have : exit s id = s := by simp [exit, hf]
    rw [this, this]
  | some e =>
    have h1 : (exit s id).live = s.live.eraseP (fun e => e.id == id) := by simp [exit, hf]
    have h2 : (exit s id).live.find? (fun e => e.id == id) = none := by rw [h1]; exact find_eraseP_none s.live id h
    generalize exit s id = s' at h2 ⊢
    simp [exit, h2]

/-! ## reloads (outside the property's quantifier; two sanity theorems about the executable reuse model) -/

theorem itemsEq_refl (a : List (Val × Int)) : itemsEq a a = true := by
  simp [itemsEq, List.all_eq_true]

theorem equals_refl (r : Rule) : r.equals r = true := by
  simp [Rule.equals, itemsEq_refl]

/-- a reload on top of no controllers is a plain load -/
theorem reload_fresh (s : St) (rules : List Rule) (h : s.tcs = []) : reload s rules = load s rules := by
  have key : ∀ rs : List Rule, reuseBuild (fun t : Tc => t.rule) Tc.inherit rs [] = rs.map fun r => ({ rule := r } : Tc) := by
    intro rs
    induction rs with
    | nil => rfl
    | cons r rs ih => simp [reuseBuild, findReuse, Tc.inherit, ih]
  simp [reload, load, h, key]

/-- reloading exactly the rules in force is invisible: every controller, with its cells, stays as it is
    (the hotspot part of "an identical reload changes nothing") -/
theorem reload_same (s : St) (hv : ∀ t ∈ s.tcs, t.rule.valid = true) :
    reload s (s.tcs.map fun t => t.rule) = s := by
  have key : ∀ tcs : List Tc, reuseBuild (fun t : Tc => t.rule) Tc.inherit (tcs.map fun t => t.rule) tcs = tcs := by
    intro tcs
    induction tcs with
    | nil => rfl
    | cons t ts ih => simp [reuseBuild, findReuse, equals_refl, ih]
  have hf : (s.tcs.map fun t => t.rule).filter Rule.valid = s.tcs.map fun t => t.rule := by
    apply List.filter_eq_self.mpr
    intro r hr
    obtain ⟨t, ht, rfl⟩ := List.mem_map.mp hr
    exact hv t ht
  simp [reload, hf, key]

/-! ## histories WITH reloads

The driver's model follows `load` (`ClearRules; LoadRules`), `reload` (`LoadRules` on top of the rules in force) and
`reloadRes` (`LoadRulesOfResource`).  `reuseBuild_mem` (Lemmas) says exactly what a reload hands to each new rule: an old
controller kept as it is, the cells of a stat-reusable old controller under the new rule, or a fresh controller.
What carries the property across a reload, controller by controller (`ReloadSide`):
* a **kept** controller (its rule stays in force unchanged): its cells keep equalling the live entries admitted under it;
* a controller whose rule changed but **selects the same argument** (threshold / items changed): it keeps the cells, and
  they keep equalling the ledger — the new thresholds apply to the entries already in flight;
* any controller of a resource on which **nothing is alive or parked**: rebuilt or inherited, its cells are all 0 and so is
  the ledger — a new controller generation starts from 0.
What is *not* covered, because it is false of the as-is model: a controller that is rebuilt fresh, or that inherits the
cells of a rule selecting another argument (another `ParamIndex`/`ParamKey`, a MetricType switch never inherits), **while
entries are alive on its resource**.  Those entries were admitted under the old controller; at exit the code re-extracts
their argument under the *new* rule and decrements that value's cell of the new controller if such a cell exists by then
(a no-op otherwise) — so the new cells can fall below the number of entries admitted since (`reload_busy_witness`).
This is the region in which the trace oracle answers `?`. -/

def ReloadSide (s : St) (tcs' : List Tc) : Prop :=
  ∀ t' ∈ tcs', t' ∈ s.tcs ∨ Idle s t'.rule.res ∨
    (∃ t ∈ s.tcs, t' = { t with rule := t'.rule } ∧ SelSame t.rule t'.rule)

theorem tcOk_of_side (s : St) (rs : List Rule) (old : List Tc) (hold : ∀ t ∈ old, t ∈ s.tcs) (t' : Tc)
    (hm : t' ∈ reuseBuild (fun t : Tc => t.rule) Tc.inherit rs old)
    (hside : t' ∈ s.tcs ∨ Idle s t'.rule.res ∨ (∃ t ∈ s.tcs, t' = { t with rule := t'.rule } ∧ SelSame t.rule t'.rule)) :
    TcOk s t' := by
  rcases hside with hk | hi | ⟨t, ht, heq, hs⟩
  · exact Or.inl ⟨t', hk, rfl, rfl, selSame_refl _⟩
  · obtain ⟨r, _, hcase⟩ := reuseBuild_mem rs old t' hm
    rcases hcase with ⟨hk, _⟩ | ⟨t, ht, hsr, rfl⟩ | rfl
    · exact Or.inl ⟨t', hold _ hk, rfl, rfl, selSame_refl _⟩
    · exact Or.inr (Or.inl ⟨t, hold _ ht, rfl, rfl, res_of_statReusable hsr, hi⟩)
    · refine Or.inr (Or.inr ⟨rfl, ?_, ?_⟩)
      · intro e he; exact sel_nil_of_res_ne _ _ _ _ (hi.1 e he)
      · intro p hp; exact sel_nil_of_res_ne _ _ _ _ (hi.2 p hp)
  · refine Or.inl ⟨t, ht, ?_, ?_, hs⟩
    · rw [heq]
    · rw [heq]

/-- **`LoadRules` on top of the rules in force preserves the invariant** (cells = ledger for every controller that has not
evicted, parked entries keep their cells) under `ReloadSide` -/
theorem inv_reload_partial (s : St) (rules : List Rule) (h : Inv s) (hside : ReloadSide s (reload s rules).tcs) :
    Inv (reload s rules) := by
  apply inv_retcs s _ h
  intro t' ht'
  exact tcOk_of_side s _ s.tcs (fun _ ht => ht) t' ht' (hside t' ht')

/-- the same for `LoadRulesOfResource` (the controllers of the other resources are kept as they are) -/
theorem inv_reloadRes_partial (s : St) (res : String) (rules : List Rule) (h : Inv s)
    (hside : ReloadSide s (reloadRes s res rules).tcs) : Inv (reloadRes s res rules) := by
  apply inv_retcs s _ h
  intro t' ht'
  have hm : t' ∈ s.tcs.filter (fun t => !(t.rule.res == res)) ++
      reuseBuild (fun t : Tc => t.rule) Tc.inherit (rules.filter (fun r => r.valid && r.res == res))
        (s.tcs.filter (fun t => t.rule.res == res)) := ht'
  rcases List.mem_append.mp hm with hk | hb
  · exact Or.inl ⟨t', List.mem_of_mem_filter hk, rfl, rfl, selSame_refl _⟩
  · exact tcOk_of_side s _ _ (fun _ ht => List.mem_of_mem_filter ht) t' hb (hside t' ht')

/-- the same for a clean `load`: every controller is fresh, so nothing may be alive or parked on the loaded resources -/
theorem inv_load_partial (s : St) (rules : List Rule) (h : Inv s)
    (hidle : ∀ r ∈ rules.filter Rule.valid, Idle s r.res) : Inv (load s rules) := by
  apply inv_retcs s _ h
  intro t' ht'
  simp only [List.mem_map] at ht'
  obtain ⟨r, hr, rfl⟩ := ht'
  refine Or.inr (Or.inr ⟨rfl, ?_, ?_⟩)
  · intro e he; exact sel_nil_of_res_ne _ _ _ _ ((hidle r hr).1 e he)
  · intro p hp; exact sel_nil_of_res_ne _ _ _ _ ((hidle r hr).2 p hp)

/-- with nothing alive and nothing parked any reload is fine -/
theorem reloadSide_quiescent (s : St) (tcs' : List Tc) (hl : s.live = []) (hp : s.pend = []) : ReloadSide s tcs' := by
  intro t' _
  exact Or.inr (Or.inl ⟨by simp [hl], by simp [hp]⟩)

/-- the op language of the driver including its three rule-loading ops -/
inductive OpR where
  | op (o : Op)
  | load (rules : List Rule)
  | reload (rules : List Rule)
  | reloadRes (res : String) (rules : List Rule)

def stepR (s : St) : OpR → St
  | .op o => step s o
  | .load rules => load s rules
  | .reload rules => reload s rules
  | .reloadRes res rules => reloadRes s res rules

def runR (s : St) (ops : List OpR) : St := ops.foldl stepR s

/-- every rule-loading step of the history meets the side condition in the state in which it happens -/
def GoodR : St → List OpR → Prop
  | _, [] => True
  | s, o :: os =>
    (match o with
     | .op _ => True
     | .load rules => ∀ r ∈ rules.filter Rule.valid, Idle s r.res
     | .reload rules => ReloadSide s (reload s rules).tcs
     | .reloadRes res rules => ReloadSide s (reloadRes s res rules).tcs) ∧ GoodR (stepR s o) os

theorem inv_runR (ops : List OpR) : ∀ s : St, Inv s → GoodR s ops → Inv (runR s ops) := by
  induction ops with
  | nil => intro s h _; exact h
  | cons o os ih =>
    intro s h hg
    apply ih (stepR s o) ?_ hg.2
    cases o with
    | op o => exact inv_step s o h
    | load rules => exact inv_load_partial s rules h hg.1
    | reload rules => exact inv_reload_partial s rules h hg.1
    | reloadRes res rules => exact inv_reloadRes_partial s res rules h hg.1

/-- **conservation across reloads**: in every history of entries, exits, check/commit interleavings AND rule loads whose
loads meet `ReloadSide`, every controller in force that has not evicted has, for every value, a cell equal to the number
of live entries its rule accounts to that value — kept controllers carry their counts across the reload, rebuilt ones
start a new generation at 0 on an idle resource. -/
theorem cell_eq_live_reloads (ops : List OpR) (hg : GoodR {} ops) :
    ∀ t ∈ (runR {} ops).tcs, t.ev = false → ∀ v, v ≠ Val.nil →
      cellOf t.cache v = (liveOf t.rule v (runR {} ops).live : Int) :=
  fun t ht hev v hv => (inv_runR ops {} (by exact ⟨by simp, by simp⟩) hg).1 t ht hev v hv

theorem returns_to_zero_reloads (ops : List OpR) (hg : GoodR {} ops) (hall : (runR {} ops).live = []) :
    ∀ t ∈ (runR {} ops).tcs, t.ev = false → ∀ v, v ≠ Val.nil → cellOf t.cache v = 0 := by
  intro t ht hev v hv
  rw [cell_eq_live_reloads ops hg t ht hev v hv, hall]
  simp [liveOf]

/-- **admission across reloads**: the iff of `admit_iff`, in the state after any such history, against the rules and
thresholds in force now -/
theorem admit_iff_reloads (ops : List OpR) (hg : GoodR {} ops) (id res : String) (a : List Val) (at' : List (String × Val))
    (hev : ∀ t ∈ (runR {} ops).tcs, t.ev = false) :
    (entry (runR {} ops) id res a at').2 = Res.pass ↔
      (¬ res ∈ (runR {} ops).fb ∧
       ∀ t ∈ (runR {} ops).tcs, t.rule.sel res a at' ≠ Val.nil →
         (liveOf t.rule (t.rule.sel res a at') (runR {} ops).live : Int) < t.rule.thrOf (t.rule.sel res a at')) :=
  admit_iff_of_inv _ (inv_runR ops {} (by exact ⟨by simp, by simp⟩) hg) id res a at' hev

/-- the uncovered region is really uncovered: threshold 2, `e1` alive for `a`; the rule is reloaded with another capacity
(not stat-reusable: a fresh controller); `e2` for `a` creates the new cell (1); `e1`'s exit releases on the NEW
controller: cell 0 with `e2` alive — and two more requests are admitted, three in flight under threshold 2. -/
theorem reload_busy_witness :
    let s := runR {} [.load [{ res := "r", thr := 2 }], .op (.entry "e1" "r" [Val.str "a"] []),
                     .reload [{ res := "r", thr := 2, pmc := 8 }], .op (.entry "e2" "r" [Val.str "a"] []), .op (.exit "e1")]
    s.tcs.map (fun t => cellOf t.cache (Val.str "a")) = [0] ∧
    liveOf { res := "r", thr := 2, pmc := 8 } (Val.str "a") s.live = 1 ∧
    (runR s [.op (.entry "e3" "r" [Val.str "a"] []), .op (.entry "e4" "r" [Val.str "a"] [])]).live.length = 3 := by
  decide

/-! ### the cap across reloads, per controller generation -/

theorem step_pend_nil (s : St) (op : Op) (hp : s.pend = []) (hs : sequential op = true) : (step s op).pend = [] := by
  cases op with
  | check => simp [sequential] at hs
  | commit => simp [sequential] at hs
  | flowBlock res => exact hp
  | exit id =>
    simp only [step]; unfold exit; split
    · exact hp
    · exact hp
  | entry id res a at' =>
    simp only [step]; split
    · exact hp
    · unfold entry
      by_cases h1 : s.fb.contains res = true
      · simp only [h1, if_true]; exact hp
      · by_cases h2 : (checkTcs res a at' s.tcs).2 = true
        · simp only [h1, h2, Bool.false_eq_true, if_false, if_true]; exact hp
        · simp only [h1, h2, Bool.false_eq_true, if_false]; exact hp

theorem parkedOf_of_selSame {a b : Rule} (h : SelSame a b) (v : Val) (pend : List Pend) :
    parkedOf a v pend = parkedOf b v pend := by
  unfold parkedOf
  congr 1
  funext p
  rw [sel_of_selSame h]

/-- what a load must respect for the cap to carry over, controller by controller: kept; or nothing alive / parked on its
resource (a new generation starts at 0); or same selector, same cells, and no threshold lowered (a lowered threshold
applies to new requests only: the entries in flight may exceed it until enough of them have exited) -/
def CapSide (s : St) (tcs' : List Tc) : Prop :=
  ∀ t' ∈ tcs', t' ∈ s.tcs ∨ Idle s t'.rule.res ∨
    (∃ t ∈ s.tcs, t'.ev = t.ev ∧ SelSame t.rule t'.rule ∧ ∀ v, t.rule.thrOf v ≤ t'.rule.thrOf v)

theorem cappedP_retcs (P : Nat) (hP : 1 ≤ P) (s : St) (tcs' : List Tc) (hc : CappedP P s) (hside : CapSide s tcs') :
    CappedP P { s with tcs := tcs' } := by
  intro t' ht' hev v hv
  show (liveOf t'.rule v s.live : Int) + parkedOf t'.rule v s.pend ≤ max (t'.rule.thrOf v) 0 + P - 1
  rcases hside t' ht' with hk | hi | ⟨t, ht, he, hs, hthr⟩
  · exact hc t' hk hev v hv
  · have h1 := liveOf_idle s t'.rule v hv hi
    have h2 : parkedOf t'.rule v s.pend = 0 := by
      unfold parkedOf
      apply List.countP_eq_zero.mpr
      intro p hp
      rw [sel_nil_of_res_ne t'.rule p.res p.args p.atts (hi.2 p hp)]
      have : (Val.nil == v) = false := by simpa using hv.symm
      simp [this]
    rw [h1, h2]
    have : (0 : Int) ≤ max (t'.rule.thrOf v) 0 := le_max_right _ _
    push_cast; omega
  · have h0 := hc t ht (by rw [← he]; exact hev) v hv
    rw [← liveOf_of_selSame hs, ← parkedOf_of_selSame hs]
    have := hthr v
    have hm : max (t.rule.thrOf v) 0 ≤ max (t'.rule.thrOf v) 0 := max_le_max this (le_refl 0)
    omega

/-- the loads of the history respect `CapSide` -/
def GoodCapR : St → List OpR → Prop
  | _, [] => True
  | s, o :: os =>
    (match o with
     | .op _ => True
     | .load rules => CapSide s (load s rules).tcs
     | .reload rules => CapSide s (reload s rules).tcs
     | .reloadRes res rules => CapSide s (reloadRes s res rules).tcs) ∧ GoodCapR (stepR s o) os

def sequentialR : OpR → Bool
  | .op o => sequential o
  | _ => true

/-- **the cap across reloads (sequential histories)**: with loads that meet `ReloadSide` (cells stay meaningful) and
`CapSide` (no threshold lowered under entries in flight), every controller in force that has not evicted never has more
entries in flight for a value than its threshold — for a kept controller counted across the reload, for a rebuilt one per
generation (it starts from 0 on an idle resource).  Under schedules the same argument gives `threshold + P − 1`
(`cappedP_step` and `cappedP_retcs` are the two step lemmas; only the sequential corollary is spelled out). -/
theorem capped_sequential_reloads (ops : List OpR) (hseq : ∀ o ∈ ops, sequentialR o = true)
    (hg : GoodR {} ops) (hcap : GoodCapR {} ops) :
    ∀ t ∈ (runR {} ops).tcs, t.ev = false → ∀ v, v ≠ Val.nil →
      (liveOf t.rule v (runR {} ops).live : Int) ≤ max (t.rule.thrOf v) 0 := by
  have key : ∀ (ops : List OpR) (s : St), (∀ o ∈ ops, sequentialR o = true) → GoodR s ops → GoodCapR s ops →
      Inv s → CappedP 1 s → s.pend = [] → CappedP 1 (runR s ops) := by
    intro ops
    induction ops with
    | nil => intro s _ _ _ _ hc _; exact hc
    | cons o os ih =>
      intro s hseq hg hcap hinv hc hp
      have hs := hseq o (List.mem_cons_self ..)
      have hrest := fun o' ho' => hseq o' (List.mem_cons_of_mem _ ho')
      cases o with
      | op o =>
        have hso : sequential o = true := hs
        exact ih (step s o) hrest hg.2 hcap.2 (inv_step s o hinv)
          (cappedP_step 1 s o [] (within_one_of_sequential [o] s hp (by intro x hx; simp at hx; subst hx; exact hso)) hinv hc)
          (step_pend_nil s o hp hso)
      | load rules =>
        exact ih (load s rules) hrest hg.2 hcap.2 (inv_load_partial s rules hinv hg.1)
          (cappedP_retcs 1 (le_refl 1) s _ hc hcap.1) hp
      | reload rules =>
        exact ih (reload s rules) hrest hg.2 hcap.2 (inv_reload_partial s rules hinv hg.1)
          (cappedP_retcs 1 (le_refl 1) s _ hc hcap.1) hp
      | reloadRes res rules =>
        exact ih (reloadRes s res rules) hrest hg.2 hcap.2 (inv_reloadRes_partial s res rules hinv hg.1)
          (cappedP_retcs 1 (le_refl 1) s _ hc hcap.1) hp
  have hfin := key ops {} hseq hg hcap ⟨by simp, by simp⟩ (by intro t ht; simp at ht) rfl
  intro t ht hev v hv
  have := hfin t ht hev v hv
  have hnn : (0 : Int) ≤ parkedOf t.rule v (runR {} ops).pend := Int.natCast_nonneg _
  omega

/-- at most `P` goroutines inside `api.Entry` at any moment of a history with loads (loads do not touch parked entries) -/
def withinR (P : Nat) : St → List OpR → Prop
  | s, [] => s.pend.length ≤ P
  | s, o :: os =>
    (match o with
     | .op o => within P s [o]
     | _ => True) ∧ withinR P (stepR s o) os

/-- **the cap under any schedule, across reloads**: at most `P` goroutines inside `api.Entry` at once (`withinR`), loads
that meet `ReloadSide` (cells stay meaningful) and `CapSide` (no threshold lowered under entries in flight) ⇒ every
controller in force that has not evicted has at most `max(threshold(v),0) + P − 1` entries in flight for any value — a kept
controller counted across the reload, a rebuilt one per generation. `P = 1` is `capped_sequential_reloads`. -/
theorem capped_sched_reloads (P : Nat) (hP : 1 ≤ P) (ops : List OpR) (hw : withinR P {} ops)
    (hg : GoodR {} ops) (hcap : GoodCapR {} ops) :
    ∀ t ∈ (runR {} ops).tcs, t.ev = false → ∀ v, v ≠ Val.nil →
      (liveOf t.rule v (runR {} ops).live : Int) ≤ max (t.rule.thrOf v) 0 + P - 1 := by
  have key : ∀ (ops : List OpR) (s : St), withinR P s ops → GoodR s ops → GoodCapR s ops →
      Inv s → CappedP P s → CappedP P (runR s ops) := by
    intro ops
    induction ops with
    | nil => intro s _ _ _ _ hc; exact hc
    | cons o os ih =>
      intro s hw hg hcap hinv hc
      cases o with
      | op o =>
        exact ih (step s o) hw.2 hg.2 hcap.2 (inv_step s o hinv) (cappedP_step P s o [] hw.1 hinv hc)
      | load rules =>
        exact ih (load s rules) hw.2 hg.2 hcap.2 (inv_load_partial s rules hinv hg.1)
          (cappedP_retcs P hP s _ hc hcap.1)
      | reload rules =>
        exact ih (reload s rules) hw.2 hg.2 hcap.2 (inv_reload_partial s rules hinv hg.1)
          (cappedP_retcs P hP s _ hc hcap.1)
      | reloadRes res rules =>
        exact ih (reloadRes s res rules) hw.2 hg.2 hcap.2 (inv_reloadRes_partial s res rules hinv hg.1)
          (cappedP_retcs P hP s _ hc hcap.1)
  have hfin := key ops {} hw hg hcap ⟨by simp, by simp⟩ (by intro t ht; simp at ht)
  intro t ht hev v hv
  have := hfin t ht hev v hv
  have hnn : (0 : Int) ≤ parkedOf t.rule v (runR {} ops).pend := Int.natCast_nonneg _
  omega

/-! ### several `WithArgs` options on one `Entry` (the `+` token of the op language)

`api.WithArgs` appends: `Input.Args` of a call with the options `WithArgs(g₁…), WithArgs(g₂…), …` is the concatenation
`g₁ ++ g₂ ++ …`.  The model's `entry` / `check` take that concatenated list, so how a list is split into options is not an
input of any modelled step: -/

/-- `api.Entry(res, WithArgs(g₁…), WithArgs(g₂…), …)` -/
def entrySplit (s : St) (id res : String) (groups : List (List Val)) (atts : List (String × Val)) : St × Res :=
  entry s id res groups.flatten atts

/-- **any two splittings of the same argument list are observationally equal**: same verdict, same cells, same ledger -/
theorem entrySplit_eq (s : St) (id res : String) (g₁ g₂ : List (List Val)) (atts : List (String × Val))
    (h : g₁.flatten = g₂.flatten) : entrySplit s id res g₁ atts = entrySplit s id res g₂ atts := by
  unfold entrySplit; rw [h]

/-- in particular a split call is the unsplit call (also with empty options anywhere) -/
theorem entrySplit_single (s : St) (id res : String) (g : List (List Val)) (atts : List (String × Val)) :
    entrySplit s id res g atts = entry s id res g.flatten atts := rfl

/-- and whole histories: replacing every entry's argument list by any re-splitting of it changes nothing -/
theorem step_split_eq (s : St) (id res : String) (g₁ g₂ : List (List Val)) (atts : List (String × Val))
    (h : g₁.flatten = g₂.flatten) :
    step s (.entry id res g₁.flatten atts) = step s (.entry id res g₂.flatten atts) ∧
    step s (.check id res g₁.flatten atts) = step s (.check id res g₂.flatten atts) := by
  rw [h]; exact ⟨rfl, rfl⟩

/-! ### the storm line

After any schedule of entries, check/commit interleavings and exits — also exits issued twice for one entry, in any
overlap: `exit_twice` — at the end of which every admitted entry has been exited (the ledger is empty), every cell of every
controller that has not evicted is 0 (`returns_to_zero`), so the sequential probe starts from an empty ledger: -/

/-- a doubled exit anywhere in a history leaves the final state unchanged (ids of live entries are distinct) -/
theorem run_exit_doubled (s : St) (id : String) (rest : List Op) (h : (s.live.map (·.id)).Nodup) :
    run s (.exit id :: .exit id :: rest) = run s (.exit id :: rest) := by
  show run (step (step s (.exit id)) (.exit id)) rest = run (step s (.exit id)) rest
  simp only [step]
  rw [exit_twice s id h]

/-- **after the round, all cells are 0 and the first probe entry is admitted iff every threshold in force for the value
is positive** — whatever the schedule of the round was -/
theorem storm_first_probe (rules : List Rule) (ops : List Op) (hall : (run (init rules) ops).live = [])
    (hev : ∀ t ∈ (run (init rules) ops).tcs, t.ev = false) (id res : String) (v : Val) :
    (∀ t ∈ (run (init rules) ops).tcs, ∀ w, w ≠ Val.nil → cellOf t.cache w = 0) ∧
    ((entry (run (init rules) ops) id res [v] []).2 = Res.pass ↔
      (¬ res ∈ (run (init rules) ops).fb ∧
       ∀ t ∈ (run (init rules) ops).tcs, t.rule.sel res [v] [] ≠ Val.nil → 0 < t.rule.thrOf (t.rule.sel res [v] []))) := by
  refine ⟨fun t ht w hw => returns_to_zero rules ops hall t ht (hev t ht) w hw, ?_⟩
  rw [admit_iff rules ops id res [v] [] hev, hall]
  simp [liveOf]

theorem entry_rules_fb (s : St) (id res : String) (a : List Val) (at' : List (String × Val)) :
    (entry s id res a at').1.tcs.map (·.rule) = s.tcs.map (·.rule) ∧ (entry s id res a at').1.fb = s.fb := by
  unfold entry
  by_cases h1 : s.fb.contains res = true
  · simp only [h1, if_true]; exact ⟨trivial, trivial⟩
  · by_cases h2 : (checkTcs res a at' s.tcs).2 = true
    · simp only [h1, h2, Bool.false_eq_true, if_false, if_true]
      exact ⟨checkTcs_rules .., trivial⟩
    · simp only [h1, h2, Bool.false_eq_true, if_false, List.map_map]
      refine ⟨?_, trivial⟩
      rw [← checkTcs_rules res a at' s.tcs]
      apply List.map_congr_left
      intro t _; simp

/-- **the storm line** (`Sentinel.Drv.C06.probe` is the probe the driver runs): one concurrency rule `r` in force that
selects `v`; `k` entries for `v` in flight (`k = 0` after a round whose admitted entries have all exited, whatever the
schedule and however many of the exits were doubled: `returns_to_zero`, `exit_twice`); no eviction while probing.  Then `n`
sequential probe attempts end with exactly `max k (min (k + n) T)` admitted, `T = max(threshold(v), 0)`: from `k = 0` the
probe admits exactly the threshold, or its cap `n`.  Partial: one rule on the resource (several rules: the least
threshold — not proved), and the no-eviction hypothesis (the storm's fresh values do overflow the cache in the long run; that
those evictions only drop dead cells is argued in the notes, not proved). -/
theorem probe_admits_partial (r : Rule) (res : String) (v : Val) (hv : v ≠ Val.nil) (hsel : r.sel res [v] [] = v) (n : Nat) :
    ∀ (s : St) (k : Nat), Inv s → s.tcs.map (·.rule) = [r] → ¬ res ∈ s.fb → liveOf r v s.live = k →
      (∀ m ≤ n, ∀ t ∈ (Sentinel.Drv.C06.probe s res v m k).1.tcs, t.ev = false) →
      (Sentinel.Drv.C06.probe s res v n k).2 = max k (min (k + n) (r.thrOf v).toNat) := by
  induction n with
  | zero =>
    intro s k _ _ _ _ _
    simp [Sentinel.Drv.C06.probe]
  | succ n ih =>
    intro s k hinv hr hfb hk hev
    have hev0 : ∀ t ∈ s.tcs, t.ev = false := by
      have := hev 0 (Nat.zero_le _)
      simpa [Sentinel.Drv.C06.probe] using this
    have hrule : ∀ t ∈ s.tcs, t.rule = r := by
      intro t ht
      have : t.rule ∈ s.tcs.map (·.rule) := List.mem_map_of_mem ht
      rw [hr] at this
      simpa using this
    have hne : ∃ t, t ∈ s.tcs := by
      cases hts : s.tcs with
      | nil => rw [hts] at hr; simp at hr
      | cons t ts => exact ⟨t, List.mem_cons_self ..⟩
    have hstep : ∀ (m : Nat), Sentinel.Drv.C06.probe s res v (m + 1) k =
        (if ((entry s s!"probe{k}" res [v] []).2 == Res.pass) = true
         then Sentinel.Drv.C06.probe (entry s s!"probe{k}" res [v] []).1 res v m (k + 1)
         else ((entry s s!"probe{k}" res [v] []).1, k)) := fun _ => rfl
    generalize (s!"probe{k}" : String) = pid at hstep
    have hadm := admit_iff_of_inv s hinv pid res [v] [] hev0
    have hpass : (entry s pid res [v] []).2 = Res.pass ↔ k < (r.thrOf v).toNat := by
      rw [hadm]
      constructor
      · rintro ⟨_, h⟩
        obtain ⟨t, ht⟩ := hne
        have := h t ht (by rw [hrule t ht, hsel]; exact hv)
        rw [hrule t ht, hsel, hk] at this
        exact (Int.lt_toNat).mpr this
      · intro h
        refine ⟨hfb, fun t ht _ => ?_⟩
        rw [hrule t ht, hsel, hk]
        exact (Int.lt_toNat).mp h
    rw [hstep n]
    by_cases hp : (entry s pid res [v] []).2 = Res.pass
    · have hlt := hpass.mp hp
      have hb : ((entry s pid res [v] []).2 == Res.pass) = true := by rw [hp]; rfl
      rw [if_pos hb]
      have hrf := entry_rules_fb s pid res [v] []
      have hlive := admitted_counted s pid res [v] [] hp
      rw [ih (entry s pid res [v] []).1 (k + 1) (inv_entry s _ res [v] [] hinv)
        (by rw [hrf.1]; exact hr) (by rw [hrf.2]; exact hfb)
        (by rw [hlive, liveOf_cons, hk]; simp [hsel])
        (by
          intro m hm t ht
          have := hev (m + 1) (by omega) t
          rw [hstep m, if_pos hb] at this
          exact this ht)]
      omega
    · have hge : ¬ k < (r.thrOf v).toNat := fun h => hp (hpass.mpr h)
      have hb : ¬ ((entry s pid res [v] []).2 == Res.pass) = true := by
        intro hc; exact hp (by simpa using hc)
      rw [if_neg hb]
      show k = _
      omega

/-- reloading exactly the rules in force meets both side conditions whatever is alive -/
theorem sides_of_same (s : St) (hv : ∀ t ∈ s.tcs, t.rule.valid = true) :
    ReloadSide s (reload s (s.tcs.map fun t => t.rule)).tcs ∧ CapSide s (reload s (s.tcs.map fun t => t.rule)).tcs := by
  rw [reload_same s hv]
  exact ⟨fun t' ht' => Or.inl ht', fun t' ht' => Or.inl ht'⟩

instance (s : St) (ρ : String) : Decidable (Idle s ρ) := by unfold Idle; infer_instance
instance (a b : Rule) : Decidable (SelSame a b) := by unfold SelSame; infer_instance

/-- non-vacuity: a history with entries alive across three loads — the threshold of the rule in force is raised under a
live entry (same selector: cells inherited), the same list is loaded again (controllers kept), a second resource on which
nothing is alive gets its rules through `LoadRulesOfResource` — meets the side condition of the conservation theorems -/
example : GoodR {} [.load [{ res := "r", thr := 1 }], .op (.entry "e1" "r" [Val.str "a"] []),
                   .reload [{ res := "r", thr := 2 }], .op (.entry "e2" "r" [Val.str "a"] []),
                   .reload [{ res := "r", thr := 2 }], .reloadRes "q" [{ res := "q", thr := 1 }],
                   .op (.exit "e1"), .op (.entry "e3" "q" [Val.str "a"] [])] := by
  simp only [GoodR, ReloadSide]
  decide

/-! ## deviations of the code from the statement (faithful model, concrete witnesses) -/

/-- repaired defect `first-touch-unchecked` (commit 9ba0999), on the OLD semantics (`entryFT`: the check returned
"pass" without comparing when `AddIfAbsent` had just created the value's cell): threshold 0, nothing in flight — the
statement says "not admitted" (0 is not fewer than 0), the old code admitted the first request for the value, also
through a specific item 0 under a general threshold 5 … -/
theorem first_touch_witness :
    (entryFT (init [{ res := "r", thr := 0 }]) "e1" "r" [Val.str "a"] []).2 = Res.pass ∧
    (entryFT (init [{ res := "r", thr := 5, items := [(Val.str "a", 0)] }]) "e1" "r" [Val.str "a"] []).2 = Res.pass ∧
    liveOf { res := "r", thr := 0 } (Val.str "a") (init [{ res := "r", thr := 0 }]).live = 0 ∧
    ({ res := "r", thr := 0 } : Rule).thrOf (Val.str "a") = 0 := by decide

/-- … the repaired code refuses it, and keeps refusing (the cell created by the refused request stays at 0) -/
theorem first_touch_repaired :
    (entry (init [{ res := "r", thr := 0 }]) "e1" "r" [Val.str "a"] []).2 = Res.blockHot ∧
    (entry (init [{ res := "r", thr := 5, items := [(Val.str "a", 0)] }]) "e1" "r" [Val.str "a"] []).2 = Res.blockHot ∧
    (entry (run (init [{ res := "r", thr := 0 }]) [.entry "e1" "r" [Val.str "a"] []]) "e2" "r" [Val.str "a"] []).2 = Res.blockHot ∧
    (entry (init [{ res := "r", thr := 5, items := [(Val.str "a", 0)] }]) "e1" "r" [Val.str "b"] []).2 = Res.pass := by decide

/-- known finding `cell-evicted`: capacity 2, threshold 1.  `a` is alive; `b` and `c` push `a`'s cell out of the LRU;
a second request for `a` is admitted although one is in flight; after all four have exited the re-created cell of `a`
stands at −1 with nothing alive, and two requests for `a` are then admitted at once. -/
def evictRule : Rule := { res := "r", thr := 1, pmc := 2 }
def evictOps : List Op :=
  [.entry "e1" "r" [Val.str "a"] [], .entry "e2" "r" [Val.str "b"] [], .entry "e3" "r" [Val.str "c"] []]

theorem evict_witness :
    -- one entry for `a` is alive, threshold 1, and yet the next one is admitted
    liveOf evictRule (Val.str "a") (run (init [evictRule]) evictOps).live = 1 ∧
    (entry (run (init [evictRule]) evictOps) "e4" "r" [Val.str "a"] []).2 = Res.pass ∧
    -- everything exited: the ledger is empty, the cell is not 0
    (run (init [evictRule]) (evictOps ++ [.entry "e4" "r" [Val.str "a"] [], .exit "e1", .exit "e4", .exit "e2", .exit "e3"])).live = [] ∧
    (run (init [evictRule]) (evictOps ++ [.entry "e4" "r" [Val.str "a"] [], .exit "e1", .exit "e4", .exit "e2", .exit "e3"])).tcs.map
      (fun t => cellOf t.cache (Val.str "a")) = [-1] := by decide

/-- repaired defect `args-alias` (commit 3ae3ba7), on the OLD semantics (`runAliased`: a second `Entry` with the same
number of arguments overwrites the arguments of the entries still alive): `e1` is admitted with `a`, `e2` with `b`;
`e1`'s arguments then read `b`; after both have exited the cell of `a` is stuck at 1 and that of `b` is 0 − 1 + … = −1:
nothing is alive, yet `a` (threshold 1) is refused. The same history on the repaired semantics returns to zero. -/
def aliasOps : List Op :=
  [.entry "e1" "r" [Val.str "a"] [], .entry "e2" "r" [Val.str "b"] [], .exit "e1", .exit "e2"]

theorem args_alias_witness :
    (runAliased (init [{ res := "r", thr := 1 }]) aliasOps).live = [] ∧
    (runAliased (init [{ res := "r", thr := 1 }]) aliasOps).tcs.map (fun t => (cellOf t.cache (Val.str "a"), cellOf t.cache (Val.str "b")))
      = [(1, -1)] ∧
    (entry (runAliased (init [{ res := "r", thr := 1 }]) aliasOps) "e3" "r" [Val.str "a"] []).2 = Res.blockHot ∧
    -- repaired semantics, same history
    (run (init [{ res := "r", thr := 1 }]) aliasOps).tcs.map (fun t => (cellOf t.cache (Val.str "a"), cellOf t.cache (Val.str "b")))
      = [(0, 0)] ∧
    (entry (run (init [{ res := "r", thr := 1 }]) aliasOps) "e3" "r" [Val.str "a"] []).2 = Res.pass := by decide

/-! ## non-vacuity of the hypotheses -/

/-- a history with two values alive at once, a blocked request, exits in non-LIFO order, a threshold 0 item, where no
controller has evicted and both directions of `admit_iff` occur -/
example :
    let rules : List Rule := [{ res := "r", thr := 1, items := [(Val.str "b", 2), (Val.str "z", 0)] }]
    let ops : List Op := [.entry "e1" "r" [Val.str "a"] [], .entry "e2" "r" [Val.str "b"] [], .entry "e3" "r" [Val.str "b"] [],
                          .entry "e4" "r" [Val.str "a"] [], .entry "e0" "r" [Val.str "z"] [], .exit "e1"]
    (∀ t ∈ (run (init rules) ops).tcs, t.ev = false) ∧
    (entry (run (init rules) ops) "e5" "r" [Val.str "a"] []).2 = Res.pass ∧
    (entry (run (init rules) ops) "e6" "r" [Val.str "b"] []).2 = Res.blockHot ∧
    (entry (run (init rules) ops) "e7" "r" [Val.str "z"] []).2 = Res.blockHot := by decide

end Sentinel.C06
