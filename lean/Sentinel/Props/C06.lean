import Sentinel.Model.HotConc
namespace Sentinel.C06
open Sentinel.HotConc

theorem placeholder : (init []).live = [] := rfl

end Sentinel.C06
