import Mathlib.Tactic
import Sentinel.Lemmas.System
/-!
# C07 — System protection gates inbound traffic only, by the configured predicate
(property theorems only; helper lemmas live in `Sentinel/Lemmas/System.lean`)

Reading guide.  `check A inbound rules v` is the code-shaped `AdaptiveSlot.Check` (first rule in the
given order whose `doCheckRule` fails), `violated A v r` is the property's predicate (`Model/System.lean`,
section *Spec*), `v : View R` are the inbound aggregates and the last load / cpu reading.  `R` is the
carrier of the `float64` values: any linear order (a NaN is not a member of one: `nan_trigger_witness`).
The rule list handed to `check` is the flattening of a Go map, i.e. determined only up to permutation:
the theorems quantify over every permutation.
-/
set_option linter.unusedSectionVars false

namespace Sentinel.C07
open Sentinel.System
open Sentinel.LA (Mono runAdds mk Bucket)

section generic
variable {R : Type} [LT R] [LE R] [∀ a b : R, Decidable (a < b)] [∀ a b : R, Decidable (a ≤ b)] (A : Arith R)

/-- `checkBbrSimple` refuses exactly when the in-flight count exceeds the estimated capacity -/
theorem bbrOk_false_iff (v : View R) : bbrOk A v = false ↔ overCapacity A v := by
  unfold bbrOk overCapacity
  split_ifs with h
  · simpa using h
  · simpa using h

/-- `doCheckRule` fails exactly on a violated rule, on any carrier, provided that for the three `≥`-type
    metrics "not below the trigger" means "has reached the trigger" for the value at hand (true in a linear
    order; false for a NaN trigger) -/
theorem ruleOk_false_iff_of (v : View R) (r : Rule R)
    (hge : ∀ x : R, (r.metric = 3 ∧ x = A.qps v.pass) ∨ (r.metric = 2 ∧ x = A.conc v.conc) ∨
        (r.metric = 1 ∧ x = A.avgRt (avgRtOf v)) → (¬ x < r.trigger ↔ r.trigger ≤ x)) :
    ruleOk A v r = false ↔ violated A v r := by
  have hb := bbrOk_false_iff A v
  unfold ruleOk violated
  rcases r with ⟨m, s, T⟩
  match m with
  | 0 =>
    simp only [gt_iff_lt]
    by_cases h1 : T < v.load <;> by_cases h2 : s = 1 <;> cases hbb : bbrOk A v <;> simp_all
  | 1 => have := hge (A.avgRt (avgRtOf v)) (Or.inr (Or.inr ⟨rfl, rfl⟩)); simpa using this
  | 2 => have := hge (A.conc v.conc) (Or.inr (Or.inl ⟨rfl, rfl⟩)); simpa using this
  | 3 => have := hge (A.qps v.pass) (Or.inl ⟨rfl, rfl⟩); simpa using this
  | 4 =>
    simp only [gt_iff_lt]
    by_cases h1 : T < v.cpu <;> by_cases h2 : s = 1 <;> cases hbb : bbrOk A v <;> simp_all
  | (n + 5) => simp

end generic

section predicate
variable {R : Type} [LinearOrder R] (A : Arith R)

/-- `doCheckRule` fails exactly on a violated rule -/
theorem ruleOk_false_iff (v : View R) (r : Rule R) : ruleOk A v r = false ↔ violated A v r :=
  ruleOk_false_iff_of A v r (fun _ _ => not_lt)

/-- **outbound traffic is never blocked by the system slot**, whatever the rules and the statistics -/
theorem outbound_never_blocked (rules : List (Rule R)) (v : View R) :
    check A false rules v = none := by
  simp [check]

/-- **an inbound request is rejected iff at least one loaded rule is violated at that moment** —
    for every order in which the rule map may be flattened -/
theorem blocked_iff_exists_violated (rules flat : List (Rule R)) (hperm : flat.Perm rules) (v : View R) :
    (check A true flat v).isSome ↔ ∃ r ∈ rules, violated A v r := by
  unfold check
  simp only [Bool.not_true, Bool.false_eq_true, if_false, List.find?_isSome]
  constructor
  · rintro ⟨r, hr, hv⟩
    refine ⟨r, hperm.mem_iff.mp hr, (ruleOk_false_iff A v r).mp ?_⟩
    simpa using hv
  · rintro ⟨r, hr, hv⟩
    refine ⟨r, hperm.mem_iff.mpr hr, ?_⟩
    simpa using (ruleOk_false_iff A v r).mpr hv

/-- the decision does not depend on the iteration order of the rule map -/
theorem decision_order_independent (rules flat : List (Rule R)) (hperm : flat.Perm rules) (v : View R) (inbound : Bool) :
    (check A inbound flat v).isSome = (check A inbound rules v).isSome := by
  cases inbound
  · simp [check]
  · have h1 := blocked_iff_exists_violated A rules flat hperm v
    have h2 := blocked_iff_exists_violated A rules rules (List.Perm.refl _) v
    exact Bool.eq_iff_iff.mpr (h1.trans h2.symm)

/-- the rule that is *reported* is itself one of the loaded, violated rules (which one is unspecified) -/
theorem reported_rule_is_violated (rules flat : List (Rule R)) (hperm : flat.Perm rules) (v : View R) (inbound : Bool)
    (r : Rule R) (h : check A inbound flat v = some r) : inbound = true ∧ r ∈ rules ∧ violated A v r := by
  unfold check at h
  cases inbound
  · simp at h
  · simp only [Bool.not_true, Bool.false_eq_true, if_false] at h
    have hm := List.mem_of_find?_eq_some h
    have hp := List.find?_some h
    refine ⟨rfl, hperm.mem_iff.mp hm, (ruleOk_false_iff A v r).mp ?_⟩
    simpa using hp

/-- **with no violated rule every inbound request passes this stage** -/
theorem no_violated_rule_passes (rules flat : List (Rule R)) (hperm : flat.Perm rules) (v : View R)
    (h : ∀ r ∈ rules, ¬ violated A v r) (inbound : Bool) : check A inbound flat v = none := by
  cases inbound
  · exact outbound_never_blocked A flat v
  · have := (blocked_iff_exists_violated A rules flat hperm v).not.mpr (by rintro ⟨r, hr, hv⟩; exact h r hr hv)
    simpa using this

/-- the code's decision is the Spec's decision (`specBlocked` is what the `spec` driver mode prints) -/
theorem check_eq_specBlocked (rules : List (Rule R)) (v : View R) (inbound : Bool) :
    (check A inbound rules v).isSome = specBlocked A inbound rules v := by
  cases inbound
  · simp [check, specBlocked]
  · apply Bool.eq_iff_iff.mpr
    rw [blocked_iff_exists_violated A rules rules (List.Perm.refl _) v]
    simp [specBlocked]

end predicate

/-! ## the inputs: what the code reads from the inbound node is the reference over the traffic history -/

/-- **inputs equal the reference** (via the shared window theorem `C08.viewSum_eq_ref`): on an inbound node
    created at `t0`, after every monotone history of recordings, the admitted-QPS sum, the RT and completion
    sums (hence the average RT), the minimum RT and the per-bucket completion peak read at `now` are those of
    the aligned window `[cbs now − 500, cbs now]` of the history -/
theorem inputs_eq_reference {R : Type} (t0 : Nat) (h : List (Nat × Bucket)) (mono : Mono t0 h)
    (now : Nat) (hnow : ∀ e ∈ h, e.1 ≤ now) (h0 : t0 ≤ now) (hpos : 0 < now) (conc : Int) (load cpu : R) :
    modelView (runAdds (mk gN gL t0) h) conc now load cpu = refView h conc now load cpu :=
  modelView_eq_refView t0 h mono now hnow h0 hpos conc load cpu

/-! ## the whole machine: for every op sequence the code decides what the property demands -/
section invariant
variable {R : Type} [LT R] [LE R] [∀ a b : R, Decidable (a < b)] [∀ a b : R, Decidable (a ≤ b)] (A : Arith R)

omit [LT R] [LE R] [∀ a b : R, Decidable (a < b)] [∀ a b : R, Decidable (a ≤ b)] in
theorem init_good (load cpu : R) : Good ({ load := load, cpu := cpu } : St R) :=
  ⟨⟨fun h => by simp at h, by simp [Mono], by simp, le_refl _, fun h => by simp at h, fun _ => rfl⟩, by simp [cnt]⟩

/-- the invariant is preserved by every op, in both modes -/
theorem step_good (sp : Bool) (s : St R) (g : Good s) (op : Op R) : Good (step A sp s op).1 := by
  cases op with
  | load rs => exact ⟨goodH_congr s _ g.h rfl rfl rfl rfl rfl, g.conc⟩
  | sysLoad x => exact ⟨goodH_congr s _ g.h rfl rfl rfl rfl rfl, g.conc⟩
  | sysCpu x => exact ⟨goodH_congr s _ g.h rfl rfl rfl rfl rfl, g.conc⟩
  | clock t =>
    simp only [step]
    split_ifs with h0 hst hlt
    · exact g
    · have hs : s.started = false := by simpa using hst
      have hh := g.h.fresh hs
      refine ⟨⟨fun _ => ?_, ?_, ?_, le_refl _, fun _ => Nat.pos_of_ne_zero h0, fun h => by simp at h⟩, g.conc⟩
      · show mk gN gL t = runAdds (mk gN gL t) s.hist
        rw [hh]; rfl
      · show Mono t s.hist
        rw [hh]; simp [Mono]
      · show ∀ e ∈ s.hist, e.1 ≤ t
        rw [hh]; simp
    · exact g
    · have hs : s.started = true := by simpa using hst
      have hle : s.now ≤ t := Nat.le_of_not_lt hlt
      exact ⟨⟨g.h.arr, g.h.mono, fun e he => le_trans (g.h.le e he) hle, le_trans g.h.t0 hle,
        fun _ => Nat.pos_of_ne_zero h0, g.h.fresh⟩, g.conc⟩
  | entry id inbound batch =>
    simp only [step]
    split_ifs with hbad hblk
    · exact g
    · have hs : s.started = true := by
        by_contra hc; exact hbad (by simp [hc])
      exact onBlocked_good s batch hs g
    · have hs : s.started = true := by
        by_contra hc; exact hbad (by simp [hc])
      exact onPassed_good s _ hs g
  | sysMem x => exact g
  | config sc iv => exact g
  | exit id =>
    simp only [step]
    split_ifs with hbad
    · exact g
    · have hs : s.started = true := by simpa using hbad
      cases hf : s.live.find? (·.id == id) with
      | none => exact g
      | some e =>
        have hid : e.id = id := by simpa using List.find?_some hf
        subst hid
        exact onExit_good s e hs g hf

  | exitErr id =>
    simp only [step]
    split_ifs with hbad
    · exact g
    · have hs : s.started = true := by simpa using hbad
      cases hf : s.live.find? (·.id == id) with
      | none => exact g
      | some e =>
        have hid : e.id = id := by simpa using List.find?_some hf
        subst hid
        exact onExitErr_good s e hs g hf

end invariant

section machine
variable {R : Type} [LinearOrder R] (A : Arith R)

/-- in a reachable state, one op of the code (`spec = false`: `check` over the leap-array view and the
    atomic gauge) and one op of the Spec (`spec = true`: `specBlocked`, i.e. `∃ violated`, over the inputs
    recomputed from the history) agree on the decision and on the next state -/
theorem step_model_eq_spec (s : St R) (g : Good s) (op : Op R) : step A false s op = step A true s op := by
  cases op with
  | load rs => rfl
  | sysLoad x => rfl
  | sysCpu x => rfl
  | clock t => rfl
  | exit id => rfl
  | exitErr id => rfl
  | sysMem x => rfl
  | config sc iv => rfl
  | entry id inbound batch =>
    have hb : s.started = true → blockedBy A false s inbound = blockedBy A true s inbound := by
      intro hs
      simp only [blockedBy, Bool.false_eq_true, if_false, if_true]
      rw [viewOf_eq s hs g, check_eq_specBlocked]
    by_cases hs : s.started = true
    · simp only [step, hb hs]
    · have hbad : (!s.started || s.live.any (·.id == id)) = true := by simp [hs]
      simp only [step, hbad, if_true]

/-- **C07, end to end**: for every sequence of rule loads, load / cpu readings, clock steps and inbound /
    outbound entries and exits, the code-shaped model and the Spec produce the same decisions -/
theorem run_model_eq_spec (s : St R) (g : Good s) (ops : List (Op R)) : run A false s ops = run A true s ops := by
  induction ops generalizing s with
  | nil => rfl
  | cons o r ih =>
    simp only [run]
    rw [step_model_eq_spec A s g o, ih _ (step_good A true s g o)]

theorem decisions_eq_spec (load cpu : R) (ops : List (Op R)) :
    (run A false { load := load, cpu := cpu } ops).2 = (run A true { load := load, cpu := cpu } ops).2 := by
  rw [run_model_eq_spec A _ (init_good load cpu) ops]

/-- the same, spelt out for one request in a reachable state: an entry is answered `blockSys` iff it is
    inbound and some loaded rule is violated on the aggregates recomputed from the traffic history -/
theorem entry_blocked_iff (s : St R) (g : Good s) (hs : s.started = true) (id : String) (inbound : Bool) (batch : Nat)
    (hfresh : ¬ s.live.any (·.id == id)) :
    (step A false s (.entry id inbound batch)).2 = .blockSys ↔
      inbound = true ∧ ∃ r ∈ s.rules, violated A (refView s.hist (cnt s.live) s.now s.load s.cpu) r := by
  have hv : viewOf false s = refView s.hist (cnt s.live) s.now s.load s.cpu := by
    rw [viewOf_eq s hs g]; simp [viewOf, liveInbound, cnt]
  have hb : (!s.started || s.live.any (·.id == id)) = false := by simp [hs, hfresh]
  have hiff := blocked_iff_exists_violated A s.rules s.rules (List.Perm.refl _) (refView s.hist (cnt s.live) s.now s.load s.cpu)
  simp only [step, hb, Bool.false_eq_true, if_false, blockedBy, hv]
  cases inbound with
  | false => simp [check]
  | true =>
    by_cases hc : (check A true s.rules (refView s.hist (cnt s.live) s.now s.load s.cpu)).isSome = true
    · simp only [hc, if_true, true_and]
      exact ⟨fun _ => hiff.mp hc, fun _ => trivial⟩
    · have hn := hiff.not.mp hc
      simp only [hc, Bool.false_eq_true, if_false, true_and]
      exact ⟨fun h => by simp at h, fun h => absurd h hn⟩

end machine

/-! ## the finding `nan-trigger` (repaired in `/repo` by `faf0578`: `IsValidSystemRule` rejects a NaN trigger)

With IEEE comparisons a NaN trigger is "never reached", yet `doCheckRule` (`!(value < trigger)`) blocks on it.
The pinned `IsValidSystemRule` (`validRulePinned`) let such a rule through: `nan_trigger_witness`. The repaired
one (`validRule`) does not, so on the carrier *with* NaN the property holds for everything `LoadRules` can put
in force: `blocked_iff_exists_violated_nan_carrier`. -/
section nan

/-- **witness** (faithful model of the *pinned* validity check, carrier with a NaN): an InboundQPS rule with a
    NaN trigger was accepted by the old `IsValidSystemRule`, is not violated (no value reaches NaN), and blocks
    an inbound request on an idle node -/
theorem nan_trigger_witness :
    validRulePinned nanArith ({ metric := 3, strategy := -1, trigger := none } : Rule NanNat) = true ∧
    (check nanArith true [({ metric := 3, strategy := -1, trigger := none } : Rule NanNat)]
        { pass := 0, conc := 0, rt := 0, complete := 0, minRt := 60000, maxComplete := 0, load := some 0, cpu := some 0 }).isSome = true ∧
    ¬ violated nanArith
        ({ pass := 0, conc := 0, rt := 0, complete := 0, minRt := 60000, maxComplete := 0, load := some 0, cpu := some 0 } : View NanNat)
        ({ metric := 3, strategy := -1, trigger := none } : Rule NanNat) := by decide

/-- the repaired validity check refuses that rule -/
theorem nan_trigger_rejected :
    validRule nanArith ({ metric := 3, strategy := -1, trigger := none } : Rule NanNat) = false := by decide

/-- the statement over *arbitrary* rule lists on the carrier with a NaN, i.e. what held the property back while
    NaN-trigger rules could be in force (false: `nan_trigger_witness`) -/
def blocked_iff_exists_violated_statement : Prop :=
  ∀ (rules flat : List (Rule NanNat)) (_ : flat.Perm rules) (v : View NanNat),
    (check nanArith true flat v).isSome ↔ ∃ r ∈ rules, violated nanArith v r

theorem blocked_iff_exists_violated_statement_false : ¬ blocked_iff_exists_violated_statement := by
  intro h
  have hw := nan_trigger_witness
  have := (h [_] [_] (List.Perm.refl _) _).mp hw.2.1
  obtain ⟨r, hr, hv⟩ := this
  simp only [List.mem_singleton] at hr
  subst hr
  exact hw.2.2 hv

theorem nanNat_not_lt_iff (a b : NanNat) (x t : Nat) (ha : a = some x) (hb : b = some t) : (¬ a < b) ↔ b ≤ a := by
  subst ha hb
  show (¬ NanNat.lt (some x) (some t) = true) ↔ NanNat.le (some t) (some x) = true
  simp [NanNat.lt, NanNat.le]

/-- **partial** (everything outside the finding's region, on the carrier *with* NaN — NaN readings and NaN
    triggers of load / cpu rules included): if no loaded QPS / concurrency / avgRT rule carries a NaN trigger,
    an inbound request is rejected iff some loaded rule is violated, for every flattening order -/
theorem blocked_iff_exists_violated_partial (rules flat : List (Rule NanNat)) (hperm : flat.Perm rules) (v : View NanNat)
    (hnan : ∀ r ∈ rules, (r.metric = 1 ∨ r.metric = 2 ∨ r.metric = 3) → r.trigger ≠ none) :
    (check nanArith true flat v).isSome ↔ ∃ r ∈ rules, violated nanArith v r := by
  have key : ∀ r ∈ rules, (ruleOk nanArith v r = false ↔ violated nanArith v r) := by
    intro r hr
    apply ruleOk_false_iff_of
    intro x hx
    have hm : r.metric = 1 ∨ r.metric = 2 ∨ r.metric = 3 := by
      rcases hx with h | h | h
      · exact Or.inr (Or.inr h.1)
      · exact Or.inr (Or.inl h.1)
      · exact Or.inl h.1
    have hT := hnan r hr hm
    obtain ⟨t, ht⟩ : ∃ t, r.trigger = some t := by
      cases hh : r.trigger with
      | none => exact absurd hh hT
      | some t => exact ⟨t, rfl⟩
    obtain ⟨y, hy⟩ : ∃ y, x = some y := by
      rcases hx with h | h | h
      · exact ⟨_, h.2⟩
      · exact ⟨_, h.2⟩
      · exact ⟨_, h.2⟩
    exact nanNat_not_lt_iff x r.trigger y t hy ht
  unfold check
  simp only [Bool.not_true, Bool.false_eq_true, if_false, List.find?_isSome]
  constructor
  · rintro ⟨r, hr, hv⟩
    have hr' := hperm.mem_iff.mp hr
    exact ⟨r, hr', (key r hr').mp (by simpa using hv)⟩
  · rintro ⟨r, hr, hv⟩
    exact ⟨r, hperm.mem_iff.mpr hr, by simpa using (key r hr).mpr hv⟩

/-- after the repair no rule that `LoadRules` puts in force carries a NaN trigger -/
theorem loadRules_no_nan (rs : List (Rule NanNat)) : ∀ r ∈ loadRules nanArith rs, r.trigger ≠ none := by
  intro r hr hn
  have hv : validRule nanArith r = true := (List.mem_filter.mp hr).2
  unfold validRule at hv
  simp [nanArith, hn] at hv

/-- **full strength on the carrier with NaN, repaired tree**: whatever rule list is handed to `LoadRules`
    (NaN triggers, NaN readings included), an inbound request is rejected iff some rule in force is violated,
    for every flattening order of the rule map -/
theorem blocked_iff_exists_violated_nan_carrier (rs flat : List (Rule NanNat)) (hperm : flat.Perm (loadRules nanArith rs))
    (v : View NanNat) :
    (check nanArith true flat v).isSome ↔ ∃ r ∈ loadRules nanArith rs, violated nanArith v r :=
  blocked_iff_exists_violated_partial (loadRules nanArith rs) flat hperm v (fun r hr _ => loadRules_no_nan rs r hr)

end nan

/-! ## the whole machine on any carrier (NaN included): end to end for everything `LoadRules` can put in force -/
section machine_any
variable {R : Type} [LT R] [LE R] [∀ a b : R, Decidable (a < b)] [∀ a b : R, Decidable (a ≤ b)] (A : Arith R)

/-- every rule in force is judged by `doCheckRule` exactly as the predicate says (on every view) -/
def RulesOk (s : St R) : Prop := ∀ r ∈ s.rules, ∀ v : View R, (ruleOk A v r = false ↔ violated A v r)

/-- the loader only puts such rules in force (true for every linear order; true for IEEE-like comparisons since
    the repaired `IsValidSystemRule` refuses NaN triggers) -/
def LoadSound : Prop := ∀ (rs : List (Rule R)), ∀ r ∈ loadRules A rs, ∀ v : View R, (ruleOk A v r = false ↔ violated A v r)

theorem check_eq_specBlocked_of (rules : List (Rule R)) (v : View R)
    (h : ∀ r ∈ rules, (ruleOk A v r = false ↔ violated A v r)) (inbound : Bool) :
    (check A inbound rules v).isSome = specBlocked A inbound rules v := by
  cases inbound
  · simp [check, specBlocked]
  · apply Bool.eq_iff_iff.mpr
    simp only [check, specBlocked, Bool.not_true, Bool.false_eq_true, if_false, List.find?_isSome, Bool.true_and,
      List.any_eq_true, decide_eq_true_eq]
    constructor
    · rintro ⟨r, hr, hv⟩; exact ⟨r, hr, (h r hr).mp (by simpa using hv)⟩
    · rintro ⟨r, hr, hv⟩; exact ⟨r, hr, by simpa using (h r hr).mpr hv⟩

/-- only `load` changes the rules in force -/
theorem step_rules (sp : Bool) (s : St R) (op : Op R) :
    (step A sp s op).1.rules = (match op with | .load rs => loadRules A rs | _ => s.rules) := by
  cases op with
  | load rs => rfl
  | sysLoad x => rfl
  | sysCpu x => rfl
  | sysMem x => rfl
  | config sc iv => rfl
  | clock t => simp only [step]; split_ifs <;> rfl
  | entry id inbound batch =>
    simp only [step, onBlocked, onPassed]
    split_ifs <;> rfl
  | exit id =>
    simp only [step]
    split_ifs
    · rfl
    · cases s.live.find? (·.id == id) with
      | none => rfl
      | some e => simp only [onExit]; split_ifs <;> rfl
  | exitErr id =>
    simp only [step]
    split_ifs
    · rfl
    · cases s.live.find? (·.id == id) with
      | none => rfl
      | some e => simp only [onExitErr, onExit]; split_ifs <;> rfl

theorem rulesOk_step (hA : LoadSound A) (sp : Bool) (s : St R) (h : RulesOk A s) (op : Op R) :
    RulesOk A (step A sp s op).1 := by
  unfold RulesOk
  rw [step_rules]
  cases op with
  | load rs => exact hA rs
  | _ => exact h

theorem step_model_eq_spec_of (s : St R) (g : Good s) (h : RulesOk A s) (op : Op R) :
    step A false s op = step A true s op := by
  cases op with
  | load rs => rfl
  | sysLoad x => rfl
  | sysCpu x => rfl
  | clock t => rfl
  | exit id => rfl
  | exitErr id => rfl
  | sysMem x => rfl
  | config sc iv => rfl
  | entry id inbound batch =>
    have hb : s.started = true → blockedBy A false s inbound = blockedBy A true s inbound := by
      intro hs
      simp only [blockedBy, Bool.false_eq_true, if_false, if_true]
      rw [viewOf_eq s hs g]
      exact check_eq_specBlocked_of A s.rules _ (fun r hr => h r hr _) inbound
    by_cases hs : s.started = true
    · simp only [step, hb hs]
    · have hbad : (!s.started || s.live.any (·.id == id)) = true := by simp [hs]
      simp only [step, hbad, if_true]

/-- **end to end on any carrier**: if the loader is sound for the carrier, the code-shaped machine and the Spec
    machine agree on every op sequence -/
theorem run_model_eq_spec_of (hA : LoadSound A) (s : St R) (g : Good s) (h : RulesOk A s) (ops : List (Op R)) :
    run A false s ops = run A true s ops := by
  induction ops generalizing s with
  | nil => rfl
  | cons o r ih =>
    simp only [run]
    rw [step_model_eq_spec_of A s g h o, ih _ (step_good A true s g o) (rulesOk_step A hA true s h o)]

/-- memory usage is no input of system protection: injecting it changes nothing (`SetSystemMemoryUsage`) -/
theorem sysMem_irrelevant (sp : Bool) (s : St R) (x : Int) : step A sp s (.sysMem x) = (s, .none) := rfl

/-- the configured metric statistic shape is no input either: the inbound node was created at package
    initialisation with the default shape and keeps it (as-is behaviour of `stat.InboundNode()`) -/
theorem config_irrelevant (sp : Bool) (s : St R) (sc iv : Nat) : step A sp s (.config sc iv) = (s, .none) := rfl

/-- **outbound traffic leaves no trace**: an outbound entry on a fresh id followed by its exit is admitted and
    gives back exactly the state before — whatever rules are loaded, whatever the readings (op `many`) -/
theorem outbound_roundtrip (sp : Bool) (s : St R) (hs : s.started = true) (id : String) (batch : Nat)
    (hfresh : s.live.any (·.id == id) = false) :
    (step A sp s (.entry id false batch)).2 = .pass ∧
    (step A sp (step A sp s (.entry id false batch)).1 (.exit id)).1 = s := by
  have hb : (!s.started || s.live.any (·.id == id)) = false := by simp [hs, hfresh]
  have hnb : blockedBy A sp s false = false := by
    cases sp <;> simp [blockedBy, check, specBlocked]
  have h1 : step A sp s (.entry id false batch) =
      ({ s with live := { id := id, inbound := false, start := s.now, batch := batch } :: s.live }, .pass) := by
    simp [step, hb, hnb, onPassed]
  rw [h1]
  refine ⟨rfl, ?_⟩
  simp only [step, hs, Bool.not_true, Bool.false_eq_true, if_false, List.find?_cons, beq_self_eq_true, onExit,
    List.eraseP_cons_of_pos]
  cases s
  simp_all

/-- `system.GetRules()` after `LoadRules(rs)`: exactly the valid elements of `rs` (nil pointers are invalid) -/
theorem mem_loadRules (rs : List (Rule R)) (r : Rule R) : r ∈ loadRules A rs ↔ r ∈ rs ∧ validRule A r = true := by
  simp [loadRules, List.mem_filter]

end machine_any

/-- the loader is sound on the carrier with a NaN (repaired validity check) -/
theorem nanArith_loadSound : LoadSound nanArith := by
  intro rs r hr v
  apply ruleOk_false_iff_of
  intro x hx
  have hT := loadRules_no_nan rs r hr
  obtain ⟨t, ht⟩ : ∃ t, r.trigger = some t := by
    cases hh : r.trigger with
    | none => exact absurd hh hT
    | some t => exact ⟨t, rfl⟩
  obtain ⟨y, hy⟩ : ∃ y, x = some y := by
    rcases hx with h | h | h
    · exact ⟨_, h.2⟩
    · exact ⟨_, h.2⟩
    · exact ⟨_, h.2⟩
  exact nanNat_not_lt_iff x r.trigger y t hy ht

/-- **C07 end to end on the carrier with NaN**: NaN / absent load and cpu readings, NaN triggers handed to
    `LoadRules`, every op sequence — the code-shaped machine decides what the property demands -/
theorem decisions_eq_spec_nan_carrier (load cpu : NanNat) (ops : List (Op NanNat)) :
    (run nanArith false { load := load, cpu := cpu } ops).2 = (run nanArith true { load := load, cpu := cpu } ops).2 := by
  rw [run_model_eq_spec_of nanArith nanArith_loadSound _ (init_good load cpu) (by intro r hr; simp at hr) ops]

/-! ## non-vacuity: the hypotheses are satisfiable and both outcomes occur -/
section examples

/-- carrier ℕ, integer-valued arithmetic: a QPS rule with trigger 3 is violated exactly from 3 admitted on -/
def natArith : Arith Nat :=
  { zero := 0, one := 1, qps := id, conc := Int.toNat, avgRt := id, cap := fun m r => m * 2 * r / 1000 }

example : (check natArith true [{ metric := 3, strategy := -1, trigger := 3 }]
    { pass := 3, conc := 0, rt := 0, complete := 0, minRt := 60000, maxComplete := 0, load := 0, cpu := 0 }).isSome = true := by decide
example : (check natArith true [{ metric := 3, strategy := -1, trigger := 3 }]
    { pass := 2, conc := 0, rt := 0, complete := 0, minRt := 60000, maxComplete := 0, load := 0, cpu := 0 }).isSome = false := by decide
/-- BBR: load 5 > trigger 2, three in flight, capacity 3·2·400/1000 = 2 < 3 → rejected; with two in flight → admitted -/
example : (check natArith true [{ metric := 0, strategy := 1, trigger := 2 }]
    { pass := 0, conc := 3, rt := 1200, complete := 3, minRt := 400, maxComplete := 3, load := 5, cpu := 0 }).isSome = true := by decide
example : (check natArith true [{ metric := 0, strategy := 1, trigger := 2 }]
    { pass := 0, conc := 2, rt := 1200, complete := 3, minRt := 400, maxComplete := 3, load := 5, cpu := 0 }).isSome = false := by decide
/-- a reachable state with a non-empty history: `Good` is not vacuous -/
example : Good (run natArith false { load := 0, cpu := 0 }
    [.clock 1900000000000, .load [{ metric := 2, strategy := -1, trigger := 1 }], .entry "a" true 1, .entry "b" true 1, .clock 1900000000300, .exitErr "a"]).1 :=
  by
    have h := init_good (R := Nat) 0 0
    simp only [run]
    repeat (first | exact h | apply step_good)

end examples

end Sentinel.C07
