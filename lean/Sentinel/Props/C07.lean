import Mathlib.Tactic
import Sentinel.Model.System
import Sentinel.Props.C08
/-!
# C07 — System protection gates inbound traffic only, by the configured predicate
(property theorems only; helper lemmas live in `Sentinel/Lemmas/System.lean`)

Reading guide.  `check A inbound rules v` is the code-shaped `AdaptiveSlot.Check` (first rule in the
given order whose `doCheckRule` fails), `violated A v r` is the property's predicate (`Model/System.lean`,
section *Spec*), `v : View R` are the inbound aggregates and the last load / cpu reading.  `R` is the
carrier of the `float64` values: any linear order (a NaN is not a member of one: `nan_trigger_witness`).
The rule list handed to `check` is the flattening of a Go map, i.e. determined only up to permutation:
the theorems quantify over every permutation.
-/
namespace Sentinel.C07
open Sentinel.LA Sentinel.System

section predicate
variable {R : Type} [LinearOrder R] (A : Arith R)

/-- `checkBbrSimple` refuses exactly when the in-flight count exceeds the estimated capacity -/
theorem bbrOk_false_iff (v : View R) : bbrOk A v = false ↔ overCapacity A v := by
  unfold bbrOk overCapacity
  split_ifs with h
  · simpa using h
  · simpa using h

/-- `doCheckRule` fails exactly on a violated rule -/
theorem ruleOk_false_iff (v : View R) (r : Rule R) : ruleOk A v r = false ↔ violated A v r := by
  have hb := bbrOk_false_iff A v
  unfold ruleOk violated
  rcases r with ⟨m, s, T⟩
  match m with
  | 0 =>
    simp only [gt_iff_lt]
    by_cases h1 : T < v.load <;> by_cases h2 : s = 1 <;> cases hbb : bbrOk A v <;> simp_all
  | 1 => simp
  | 2 => simp
  | 3 => simp
  | 4 =>
    simp only [gt_iff_lt]
    by_cases h1 : T < v.cpu <;> by_cases h2 : s = 1 <;> cases hbb : bbrOk A v <;> simp_all
  | (n + 5) => simp

/-- **outbound traffic is never blocked by the system slot**, whatever the rules and the statistics -/
theorem outbound_never_blocked (rules : List (Rule R)) (v : View R) :
    check A false rules v = none := by
  simp [check]

/-- **an inbound request is rejected iff at least one loaded rule is violated at that moment** —
    for every order in which the rule map may be flattened -/
theorem blocked_iff_exists_violated (rules flat : List (Rule R)) (hperm : flat.Perm rules) (v : View R) :
    (check A true flat v).isSome ↔ ∃ r ∈ rules, violated A v r := by
  unfold check
  simp only [Bool.not_true, Bool.false_eq_true, if_false, List.find?_isSome]
  constructor
  · rintro ⟨r, hr, hv⟩
    refine ⟨r, hperm.mem_iff.mp hr, (ruleOk_false_iff A v r).mp ?_⟩
    simpa using hv
  · rintro ⟨r, hr, hv⟩
    refine ⟨r, hperm.mem_iff.mpr hr, ?_⟩
    simpa using (ruleOk_false_iff A v r).mpr hv

/-- the decision does not depend on the iteration order of the rule map -/
theorem decision_order_independent (rules flat : List (Rule R)) (hperm : flat.Perm rules) (v : View R) (inbound : Bool) :
    (check A inbound flat v).isSome = (check A inbound rules v).isSome := by
  cases inbound
  · simp [check]
  · have h1 := blocked_iff_exists_violated A rules flat hperm v
    have h2 := blocked_iff_exists_violated A rules rules (List.Perm.refl _) v
    exact Bool.eq_iff_iff.mpr (h1.trans h2.symm)

/-- the rule that is *reported* is itself one of the loaded, violated rules (which one is unspecified) -/
theorem reported_rule_is_violated (rules flat : List (Rule R)) (hperm : flat.Perm rules) (v : View R) (inbound : Bool)
    (r : Rule R) (h : check A inbound flat v = some r) : inbound = true ∧ r ∈ rules ∧ violated A v r := by
  unfold check at h
  cases inbound
  · simp at h
  · simp only [Bool.not_true, Bool.false_eq_true, if_false] at h
    have hm := List.mem_of_find?_eq_some h
    have hp := List.find?_some h
    refine ⟨rfl, hperm.mem_iff.mp hm, (ruleOk_false_iff A v r).mp ?_⟩
    simpa using hp

/-- **with no violated rule every inbound request passes this stage** -/
theorem no_violated_rule_passes (rules flat : List (Rule R)) (hperm : flat.Perm rules) (v : View R)
    (h : ∀ r ∈ rules, ¬ violated A v r) (inbound : Bool) : check A inbound flat v = none := by
  cases inbound
  · exact outbound_never_blocked A flat v
  · have := (blocked_iff_exists_violated A rules flat hperm v).not.mpr (by rintro ⟨r, hr, hv⟩; exact h r hr hv)
    simpa using this

/-- the code's decision is the Spec's decision (`specBlocked` is what the `spec` driver mode prints) -/
theorem check_eq_specBlocked (rules : List (Rule R)) (v : View R) (inbound : Bool) :
    (check A inbound rules v).isSome = specBlocked A inbound rules v := by
  cases inbound
  · simp [check, specBlocked]
  · apply Bool.eq_iff_iff.mpr
    rw [blocked_iff_exists_violated A rules rules (List.Perm.refl _) v]
    simp [specBlocked]

end predicate

end Sentinel.C07
