import Mathlib.Tactic
import Sentinel.Model.LockModel
import Sentinel.Model.LockKnown
import Sentinel.Gen.Access
import Sentinel.Lemmas.LockDiscipline
/-! # C15 — the public API is race free and rule switches are atomic under live traffic

Three layers.

1. **General, proved once** (no table involved): `discipline_implies_exclusion` — in every execution the
   reader-writer mutex semantics admits, two accesses by different threads made while both hold a common mutex,
   at least one of them in write mode, are separated by `rel t₁ l … acq t₂ l`, i.e. ordered by the lock and never
   concurrent; `disciplinedB_sound`, `ranked_no_cycle` — the Boolean checks evaluated on the table decide the
   stated `Prop`s; `switch_is_atomic`, `switch_old_or_new`, `switch_independent` — the snapshot model.
2. **On the generated table** `Sentinel.Gen.Access` (regenerated from the Go source on every run, re-proved by
   kernel evaluation on every run): `table_disciplined`, `atomics_never_mixed`, `lock_order_acyclic`,
   `slots_single_snapshot`, `extractor_understood_everything`; and `table_race_free`, which puts 1 and 2 together.
3. **Known findings** (`known/C15.jsonl`): the table theorems are stated over the complement of the listed
   `(class, reading function)` / `(field, reading function)` / slot keys; `*_witness` theorems show, on the rows
   copied from the pinned tree, that those keys really break the discipline.
-/
namespace Sentinel.C15
open Sentinel.LockModel

/-! ## 1. Lock discipline ⇒ exclusion (general) -/

/-- **C15 core.**  Two accesses of `x` by different threads, each made while holding the common mutex `l`, at
    least one hold in write mode, are separated by `rel t₁ l … acq t₂ l` in every well-formed execution: they are
    ordered by the lock (release happens-before acquire), hence never concurrent — no data race on `x`. -/
theorem discipline_implies_exclusion (s0 : LS) (pre mid post : List Ev) (l : Lock) (t1 t2 : Thread) (x : Cls)
    (a1 a2 : Bool) (w1 w2 : Bool) (hne : t1 ≠ t2) (hw : w1 = true ∨ w2 = true)
    (hwf : WFrom s0 (pre ++ [Ev.acc t1 x a1] ++ mid ++ [Ev.acc t2 x a2] ++ post))
    (hold1 : holds (runLS s0 pre) t1 l w1)
    (hold2 : holds (runLS s0 (pre ++ [Ev.acc t1 x a1] ++ mid)) t2 l w2) :
    ∃ a b c, mid = a ++ [Ev.rel t1 l w1] ++ b ++ [Ev.acq t2 l w2] ++ c := by
  have h1 : WFrom (runLS s0 (pre ++ [Ev.acc t1 x a1])) mid := by
    have := wf_append s0 (pre ++ [Ev.acc t1 x a1]) (mid ++ [Ev.acc t2 x a2] ++ post)
      (by simpa [List.append_assoc] using hwf)
    exact wf_prefix _ mid ([Ev.acc t2 x a2] ++ post) (by simpa [List.append_assoc] using this)
  have hs : holds (runLS s0 (pre ++ [Ev.acc t1 x a1])) t1 l w1 := by
    rw [runLS_append]; simpa [runLS, stepLS] using hold1
  apply handover _ mid l t1 t2 w1 w2 hne hw h1 hs
  rw [← runLS_append]; simpa [List.append_assoc] using hold2

/-- the hypotheses are satisfiable: writer `1` and reader `2` of class `7` under mutex `0` -/
example : ∃ mid, WFrom (fun _ => .readers [])
      ([Ev.acq 1 0 true] ++ [Ev.acc 1 7 true] ++ mid ++ [Ev.acc 2 7 false] ++ [Ev.rel 2 0 false]) ∧
    holds (runLS (fun _ => .readers []) [Ev.acq 1 0 true]) 1 0 true ∧
    holds (runLS (fun _ => .readers []) ([Ev.acq 1 0 true] ++ [Ev.acc 1 7 true] ++ mid)) 2 0 false :=
  ⟨[Ev.rel 1 0 true, Ev.acq 2 0 false], by simp [WFrom, enabled, stepLS, upd],
    by simp [runLS, holds, stepLS, upd], by simp [runLS, holds, stepLS, upd]⟩

/-! ## The snapshot model: a single snapshot is old-or-new, and other resources do not matter -/

/-- **A request that takes one snapshot is decided by exactly one published rule list** of its resource: the
    list it uses is the `r`-entry of one of the stores that existed while the updates ran — never a mixture. -/
theorem switch_is_atomic {ρ} (s : Res → List ρ) (us : List (Upd ρ)) (k : Nat) (r : Res) :
    oneSnapshot s us k r ∈ (history s us).map (fun st => st r) :=
  List.mem_map.mpr ⟨_, snapshot_mem_history s us k, rfl⟩

/-- racing with a single update: the old list or the new list -/
theorem switch_old_or_new {ρ} (s : Res → List ρ) (u : Upd ρ) (k : Nat) (r : Res) :
    oneSnapshot s [u] k r = s r ∨ oneSnapshot s [u] k r = applyUpd s u r := by
  cases k with
  | zero => left; rfl
  | succ k => right; simp [oneSnapshot, applyAll]

/-- per-resource updates of other resources never change what a request on `r` sees -/
theorem switch_independent {ρ} (s : Res → List ρ) (us : List (Upd ρ)) (k : Nat) (r : Res)
    (h : ∀ u ∈ us, ∃ r' rules, u = Upd.setRes r' rules ∧ r' ≠ r) : oneSnapshot s us k r = s r := by
  unfold oneSnapshot
  induction us generalizing s k with
  | nil => simp [applyAll]
  | cons u us ih =>
    cases k with
    | zero => simp [applyAll]
    | succ k =>
      obtain ⟨r', rules, hu, hr⟩ := h u (List.mem_cons_self ..)
      simp only [List.take_succ_cons, applyAll]
      rw [ih (applyUpd s u) k (fun v hv => h v (List.mem_cons_of_mem _ hv))]
      subst hu
      simp [applyUpd, Ne.symm hr]

/-- why the extractor insists on *one* critical section per slot phase: with two, a request can combine the
    old list (first read) with the new one (second read) -/
theorem two_snapshots_can_mix :
    twoSnapshots (fun _ => [0]) [Upd.setRes "r" [1]] 0 1 "r" = ([0], [1]) := by
  decide

/-! ## get-or-create: re-checking under the write lock is what keeps the first insert -/

/-- an atomic get-or-create returns what is stored afterwards -/
theorem getOrCreate_returns_stored {ν} (m : Res → Option ν) (k : Res) (v : ν) :
    (getOrCreate m k v).1 k = some (getOrCreate m k v).2 := by
  unfold getOrCreate
  cases h : m k <;> simp [h]

/-- and never replaces an element that is present: every later caller (any key, any interleaving of atomic steps)
    leaves it alone, so all callers of one key end up with the same object -/
theorem getOrCreate_stable {ν} (m : Res → Option ν) (k k' : Res) (x v : ν) (h : m k = some x) :
    (getOrCreate m k' v).1 k = some x := by
  unfold getOrCreate
  cases h' : m k' with
  | some y => simpa using h
  | none =>
    by_cases hk : k = k'
    · subst hk; rw [h] at h'; cases h'
    · simp [hk, h]

/-- the split version loses an insert: two callers that both saw nothing insert one after the other; the first caller
    keeps object `1`, the map (and every later caller) has object `2` -/
theorem blindCreate_can_lose :
    let m0 : Res → Option Nat := fun _ => none
    let s1 := blindCreate m0 "r" (m0 "r") 1
    let s2 := blindCreate s1.1 "r" (m0 "r") 2
    s1.2 = 1 ∧ s2.1 "r" = some 2 := by
  decide

/-! ## The settled switch, in the lock model (any number of threads, any schedule)

Model: `Sentinel.Lemmas.LockDiscipline` (`SEv`, `sAdm`, `sWF`, `pub`).  A request's single snapshot is a `read` event; a
writer swaps the table between `wbegin` and `wend f` while holding the mutex in write mode.  `pub v tr` is the table
published by the completed swaps of `tr`. -/

/-- **(a) Old-or-new, never torn.**  In every admissible execution the table a request reads is a *published* table —
    the one published by the swaps completed before the read, `pub s0.cur pre` — and no swap is in progress at that
    moment: the request is decided entirely by one published table. -/
theorem request_reads_one_published_table {τ : Type} {l : Lock} (s0 : SSt τ) (pre post : List (SEv τ)) (t : Thread)
    (hi : SInv l s0) (hw : sWF l s0 (pre ++ [SEv.read t] ++ post)) :
    (sRun s0 pre).pending = none ∧ (sRun s0 pre).cur = pub s0.cur pre :=
  ⟨read_not_torn s0 pre post t hi hw, cur_run s0 pre⟩

/-- **(b) Settled.**  Once a switch has completed (`wend t' f`, after which the writer returns), every request whose
    read comes later in the execution — with no further switch completed in between — reads exactly the table that
    switch published, whatever the other threads do and however the scheduler interleaves them. -/
theorem request_after_switch_reads_new_table {τ : Type} {l : Lock} (s0 : SSt τ) (p mid post : List (SEv τ))
    (t t' : Thread) (f : τ → τ) (hi : SInv l s0)
    (hw : sWF l s0 (p ++ [SEv.wend t' f] ++ mid ++ [SEv.read t] ++ post))
    (hmid : ∀ e ∈ mid, isWend e = false) :
    (sRun s0 (p ++ [SEv.wend t' f] ++ mid)).pending = none ∧
      (sRun s0 (p ++ [SEv.wend t' f] ++ mid)).cur = f (pub s0.cur p) := by
  obtain ⟨h1, h2⟩ := request_reads_one_published_table s0 (p ++ [SEv.wend t' f] ++ mid) post t hi hw
  refine ⟨h1, ?_⟩
  rw [h2, pub_append, pub_append, pub_noWend _ mid hmid]
  simp [pub]

/-- **(c) Cross-resource independence.**  If every switch completed in `pre` leaves the entry of resource `r` as it was
    (per-resource loads / clears of other resources: `fun m => applyUpd m (Upd.setRes r' rules)` with `r' ≠ r`), then a
    request on `r` reads `r`'s entry of the initial table — other resources' switches never change its decision. -/
theorem other_resources_switches_invisible {ρ : Type} {l : Lock} (s0 : SSt (Res → List ρ)) (pre post : List (SEv (Res → List ρ)))
    (t : Thread) (r : Res) (hi : SInv l s0) (hw : sWF l s0 (pre ++ [SEv.read t] ++ post))
    (hother : ∀ e ∈ pre, ∀ t' f, e = SEv.wend t' f → ∀ m, f m r = m r) :
    (sRun s0 pre).pending = none ∧ (sRun s0 pre).cur r = s0.cur r := by
  obtain ⟨h1, h2⟩ := request_reads_one_published_table s0 pre post t hi hw
  refine ⟨h1, ?_⟩
  rw [h2]
  exact pub_preserves (fun m => m r) s0.cur pre hother

/-- a per-resource update of another resource is such a swap -/
theorem setRes_other_preserves {ρ : Type} (r r' : Res) (rules : List ρ) (h : r' ≠ r) (m : Res → List ρ) :
    applyUpd m (Upd.setRes r' rules) r = m r := by
  simp [applyUpd, Ne.symm h]

/-- the hypotheses are satisfiable: writer `1` swaps under `Lock`, reader `2` reads under `RLock` afterwards -/
example : sWF 0 (⟨fun _ => .readers [], (0 : Nat), none⟩ : SSt Nat)
    ([SEv.lk (Ev.acq 1 0 true), SEv.wbegin 1, SEv.wend 1 (fun _ => 7), SEv.lk (Ev.rel 1 0 true),
      SEv.lk (Ev.acq 2 0 false)] ++ [SEv.read 2] ++ [SEv.lk (Ev.rel 2 0 false)]) := by
  simp [sWF, sAdm, sStep, enabled, holds, stepLS, upd]

/-! ## `sync.Once`: the body runs exactly once -/

/-- **For any number of concurrent `Do` calls and any schedule the body is begun at most once, and whenever a `Do` call
    has returned it has been begun exactly once** (and completed: `ret` is only admissible when `done`). -/
theorem once_body_runs_exactly_once (tr : List OEv) (hw : oWF ⟨false, none⟩ tr) :
    starts tr ≤ 1 ∧ ∀ pre post t, tr = pre ++ [OEv.ret t] ++ post → starts pre = 1 := by
  refine ⟨by simpa [oBudget] using starts_le_budget _ tr hw, ?_⟩
  intro pre post t htr
  subst htr
  rw [List.append_assoc, oWF_append] at hw
  obtain ⟨hpre, hrest⟩ := hw
  have hdone : (oRun ⟨false, none⟩ pre).done = true := hrest.1
  have h1 := done_needs_start _ pre hpre rfl rfl hdone
  have h2 : starts pre ≤ 1 := by simpa [oBudget] using starts_le_budget _ pre hpre
  omega

example : oWF ⟨false, none⟩ [OEv.start 1, OEv.finish 1, OEv.ret 2, OEv.ret 1] := by
  simp [oWF, oAdm, oStep]

/-! ## 2. The generated table -/

open Sentinel.Gen.Access

def excusedReads : List (Cls × String) := resolve classNames knownReads
def excusedPlain : List (Nat × String) := resolve atomicFields knownPlainReads
def excusedInserts : List (Cls × String) := resolve classNames knownInserts

/-- **Every pair of conflicting live accesses of one object class holds a common mutex, at least one side in
    write mode** (outside the listed known reads).  Object classes: package-level variables and the containers
    reached from them (protected by package-level mutexes), and the data fields of structs that carry a mutex field,
    accessed through the method receiver (protected by that receiver's own mutex field, so "common" means the same
    object's mutex).  Kernel-evaluated on the regenerated table. -/
theorem table_disciplined : Disciplined excusedReads accesses :=
  disciplinedB_sound _ _ (by decide +kernel)

/-- a field / variable that is accessed with `sync/atomic` anywhere is never accessed plainly in live code
    (initialisation before publication and test-only helpers are not live code) -/
theorem atomics_never_mixed : ∀ p ∈ plainUses, plainOkB excusedPlain p = true :=
  List.all_eq_true.mp (by decide +kernel)

/-- nested acquisitions (direct and through static calls, across the analysed packages) admit a ranking, so
    there is no cycle in the lock order -/
theorem lock_order_acyclic : ∀ m, ¬ Path lockEdges m m :=
  ranked_no_cycle lockRanks lockEdges (by decide +kernel)

/-- every slot phase (`Check`, `Prepare`, `OnEntryPassed`, `OnEntryBlocked`, `OnCompleted`) enters the read lock of
    its module's rule store at most once on any path and not in a loop, and every rule loading / clearing function
    enters the write lock at most once (one atomic replacement) — the shape `switch_is_atomic` models — outside the
    listed known functions -/
theorem slots_single_snapshot : ∀ s ∈ slotShapes, shapeOkB knownSlots s = true :=
  List.all_eq_true.mp (by decide +kernel)

/-- **Lost-insert rule.**  Every live map insertion `G[k] = v` into a tracked container class is made while holding, in
    write mode, a mutex that (a) every live writer of the class also holds in write mode and (b) has been held since
    function entry or since a lookup of the same `G[k]` on every path (the re-check under the write lock) — so a
    get-or-create cannot be split into a check in one critical section and an insert in another
    (`blindCreate_can_lose`), outside the listed known sites.  `r.rechecked` is `r.guards ≠ []`. -/
theorem inserts_rechecked : ∀ r ∈ inserts, insertOkB accesses excusedInserts r = true :=
  List.all_eq_true.mp (by decide +kernel)

/-- the `Prop` it decides, for the live, non-excused inserts -/
theorem inserts_guarded (r : Insert) (hr : r ∈ inserts) (hl : r.phase = Phase.live)
    (hx : (excusedInserts.any fun e => e.1 == r.cls && e.2 == r.fn) = false) : InsertGuarded accesses r :=
  insertOkB_sound _ _ r (inserts_rechecked r hr) hl hx

/-- **Panic safety of critical sections.**  Every operation that can panic on caller-controlled data and runs inside a
    critical section opened in the same function runs after the section's unlock has been deferred — so a panic that is
    recovered further up (`SlotChain.Entry`, `SentinelEntry.Exit`, the rule managers' `recover`) cannot leave the mutex
    locked (`explicit_unlock_leaks_on_panic`). -/
theorem sections_panic_safe : ∀ r ∈ riskyOps, r.phase = Phase.live → r.deferred = true := by
  have h : riskyOps.all riskyOkB = true := by decide +kernel
  intro r hr hl
  have := List.all_eq_true.mp h r hr
  simpa [riskyOkB, hl] using this

theorem deferred_unlock_always_releases (p : Bool) : lockedAfterSection true p = false := by cases p <;> rfl
theorem explicit_unlock_leaks_on_panic : lockedAfterSection false true = true := rfl

/-- **Caller data is never mutated.**  No map/slice-typed field that is set to a parameter of an exported function
    without copying is written through anywhere in its package: the API never writes into (nor keeps appending into
    the backing array of) a map/slice the caller passed in, so callers may share such data between goroutines. -/
theorem caller_data_never_mutated : ∀ s ∈ callerStores, ∀ w ∈ fieldWrites,
    s.phase = Phase.live → w.phase = Phase.live → s.field ≠ w.field := by
  have h : callerDataOkB callerStores fieldWrites = true := by decide +kernel
  intro s hs w hw ls lw heq
  have h1 := List.all_eq_true.mp h s hs
  simp only [ls, bne_self_eq_false, Bool.false_or] at h1
  have h2 := List.all_eq_true.mp h1 w hw
  simp [heq, lw] at h2

/-- **Exit takes effect once.**  `SentinelEntry.Exit` performs every call that acts on the entry (exit handlers,
    `sc.exit`, `RefurbishContext`) inside `e.exitCtl.Do(func(){…})`, so any number of goroutines may call `Exit` on one
    entry: `sync.Once` runs the body once and makes the other callers wait for it. -/
theorem exit_runs_once : ∀ f ∈ requiredOnce, ∃ r ∈ onceFacts, r.fn = f ∧ r.outside = 0 ∧ 0 < r.inside := by
  have h : onceOkB requiredOnce onceFacts = true := by decide +kernel
  intro f hf
  have h1 := List.all_eq_true.mp h f hf
  obtain ⟨r, hr, hp⟩ := List.any_eq_true.mp h1
  simp only [Bool.and_eq_true, beq_iff_eq, decide_eq_true_eq] at hp
  exact ⟨r, hr, hp.1.1, hp.1.2, hp.2⟩

/-- fail closed: the extractor met no construct it could not interpret in live code -/
theorem extractor_understood_everything : ∀ u ∈ unknowns, (u.phase != Phase.live) = true :=
  List.all_eq_true.mp (by decide +kernel)

/-- **Race freedom of the extracted discipline.**  In every well-formed execution, if two accesses of one class
    by different threads, at least one a write, are instances of live table rows (not excused reads) and the
    threads hold what the rows say, then a release/acquire pair of a common mutex separates them. -/
theorem table_race_free (s0 : LS) (pre mid post : List Ev) (t1 t2 : Thread) (x : Cls) (w1 w2 : Bool)
    (hne : t1 ≠ t2) (hw : w1 = true ∨ w2 = true)
    (hwf : WFrom s0 (pre ++ [Ev.acc t1 x w1] ++ mid ++ [Ev.acc t2 x w2] ++ post))
    (a : Access) (ha : a ∈ accesses) (b : Access) (hb : b ∈ accesses)
    (la : a.live = true) (lb : b.live = true) (ca : a.cls = x) (cb : b.cls = x)
    (wa : a.write = w1) (wb : b.write = w2)
    (ea : excusedRead excusedReads a = false) (eb : excusedRead excusedReads b = false)
    (hold1 : ∀ h ∈ a.held, holds (runLS s0 pre) t1 h.mu h.w)
    (hold2 : ∀ k ∈ b.held, holds (runLS s0 (pre ++ [Ev.acc t1 x w1] ++ mid)) t2 k.mu k.w) :
    ∃ l m1 m2 p q r, mid = p ++ [Ev.rel t1 l m1] ++ q ++ [Ev.acq t2 l m2] ++ r := by
  obtain ⟨h, hh, k, hk, hmu, hww⟩ :=
    table_disciplined a ha b hb la lb (ca.trans cb.symm) (by rw [wa, wb]; exact hw) ea eb
  have h1 := hold1 h hh
  have h2 := hold2 k hk
  rw [← hmu] at h2
  obtain ⟨p, q, r, hm⟩ := discipline_implies_exclusion s0 pre mid post h.mu t1 t2 x w1 w2 h.w k.w hne hww hwf h1 h2
  exact ⟨h.mu, h.w, k.w, p, q, r, hm⟩

/-! ### `outlier-nodemap-race`: the exact extent of the finding

`outlier_nodemap_partial` (below) is about the rows *copied from the pinned tree*; `table_disciplined` is the partial
statement over the regenerated table.  What keeps both partial: the full statement `Disciplined [] accesses` is false on
the pinned tree (`outlier_nodemap_witness`) — the two reads in `getNodeBreakersOfResource` hold nothing.  The following
says that the exclusion list is *exactly* the failure set, not a superset: -/

/-- for every live write row `a` and live row `b` of the same class: the pair lacks a common mutex **iff** `b` is a listed
    known read (one of the two is false exactly when the other is true) -/
def exactB (ex : List (Cls × String)) (t : List Access) : Bool :=
  t.all fun a => !(a.write && a.live) ||
    t.all fun b => b.cls != a.cls || !b.live || (commonLockB a b != excusedRead ex b)

/-- **Exact characterisation, by kernel evaluation of the regenerated table:** either the finding is present exactly
    as listed — a (live write, live row of the same class) pair lacks a common mutex *iff* its second row is a listed
    read of `getNodeBreakersOfResource`; every listed row really conflicts with every writer of its class, and nothing
    else does — or the table has no undisciplined pair at all (the code has been repaired; then the listed keys are
    simply unused and `table_disciplined` is the full statement). -/
theorem nodemap_exact_or_repaired : exactB excusedReads accesses = true ∨ (badPairs [] accesses).isEmpty = true := by
  decide +kernel

theorem exactB_spec (ex : List (Cls × String)) (t : List Access) (h : exactB ex t = true)
    (a : Access) (ha : a ∈ t) (b : Access) (hb : b ∈ t) (wa : a.write = true) (la : a.live = true) (lb : b.live = true)
    (hc : b.cls = a.cls) : commonLockB a b = false ↔ excusedRead ex b = true := by
  have h1 := List.all_eq_true.mp h a ha
  simp only [wa, la, Bool.and_self, Bool.not_true, Bool.false_or] at h1
  have h2 := List.all_eq_true.mp h1 b hb
  simp only [hc, lb, bne_self_eq_false, Bool.not_true, Bool.false_or] at h2
  cases h3 : commonLockB a b <;> cases h4 : excusedRead ex b <;> simp_all

/-- the `iff` over the generated table, while the finding is present -/
theorem nodemap_exact (hpresent : (badPairs [] accesses).isEmpty = false)
    (a : Access) (ha : a ∈ accesses) (b : Access) (hb : b ∈ accesses) (wa : a.write = true) (la : a.live = true)
    (lb : b.live = true) (hc : b.cls = a.cls) :
    commonLockB a b = false ↔ excusedRead excusedReads b = true := by
  rcases nodemap_exact_or_repaired with h | h
  · exact exactB_spec _ _ h a ha b hb wa la lb hc
  · rw [h] at hpresent; cases hpresent

/-! ### The five rule tables obey the premise of the settled-switch theorems -/

/-- module rule table (cell class; its container is `<name>[*]`), its RW mutex, the only function allowed to swap the
    whole map, and the mutex that serialises the module's loaders -/
def moduleTables : List (String × String × String × String) :=
  [("core/flow.tcMap", "core/flow.tcMux", "core/flow.onRuleUpdate", "core/flow.updateRuleMux"),
   ("core/isolation.ruleMap", "core/isolation.rwMux", "core/isolation.onRuleUpdate", "core/isolation.updateRuleMux"),
   ("core/hotspot.tcMap", "core/hotspot.tcMux", "core/hotspot.onRuleUpdate", "core/hotspot.updateRuleMux"),
   ("core/circuitbreaker.breakers", "core/circuitbreaker.updateMux", "core/circuitbreaker.onRuleUpdate", "core/circuitbreaker.updateRuleMux"),
   ("core/system.ruleMap", "core/system.ruleMapMux", "core/system.onRuleUpdate", "core/system.updateRuleMux")]

/-- every live row of the table's cell or container class holds the module's mutex — a write in write mode, a read in
    either mode (`sAdm`'s requirement on `read` / `wbegin`) —, except reads made by the (single, serialised) loader
    itself while it holds the loaders' mutex in write mode: the writer looking at the table it has just published
    (e.g. for logging) is not a request; and the classes and the mutexes exist in the table -/
def tableLockedB (cls mu upd : String) : Bool :=
  let cids := idsOf classNames [cls, cls ++ "[*]"]
  let mids := idsOf mutexNames [mu]
  let uids := idsOf mutexNames [upd]
  cids.length == 2 && mids.length == 1 && uids.length == 1 &&
    accesses.all fun a => !(a.live && cids.contains a.cls) ||
      (mids.any fun m => heldIn a m true || (!a.write && heldIn a m false)) ||
      (!a.write && uids.any fun u => heldIn a u true)

/-- the whole map (the cell class) is replaced only by the module's global loader; per-resource functions only touch
    elements of the container -/
def wholeSwapOnlyB (cls loader : String) : Bool :=
  let cids := idsOf classNames [cls]
  let eids := idsOf classNames [cls ++ "[*]"]
  (accesses.all fun a => !(a.live && a.write && cids.contains a.cls) || a.fn == loader) &&
  -- what the table records of the per-resource write sets: every live element insertion is at key `res`
  (inserts.all fun r => !(r.phase == .live && eids.contains r.cls) || r.key == "res")

/-- **Instantiation for flow, isolation, hotspot, circuit breaker and system**, from the regenerated table: all readers
    and writers of the module's rule table follow the discipline `sAdm` asks for, so (a), (b), (c) above apply to them.
    (That each access site of the code is one `read` / one `wbegin…wend` of the model is the same modelling step as in
    `table_race_free`; `slots_single_snapshot` adds that a slot phase performs one `read` and a loader one swap.)
    For (c) the table gives: the whole map is replaced only by the global loader, and every live element insertion of a
    per-resource function is at the key expression `res`.  **Missing for a table-level proof of (c):** the rows of
    `delete(G, k)` / element writes carry no key (only `Gen.inserts` records one, as source text), and nothing ties the
    text `res` to the function's resource parameter or shows two calls with different arguments use different keys;
    so `other_resources_switches_invisible` is instantiated under the hypothesis that a per-resource loader's swap is
    `applyUpd · (Upd.setRes res _)` (`setRes_other_preserves`), which the stress oracles `fixedB` / `cbB` / `isoB` sample. -/
theorem module_tables_locked :
    ∀ m ∈ moduleTables, tableLockedB m.1 m.2.1 m.2.2.2 = true ∧ wholeSwapOnlyB m.1 m.2.2.1 = true := by
  decide +kernel

/-! ### `Exit`: from the once-fact to "the body runs exactly once" -/

/-- **For any number of concurrent `Exit` calls on one entry the exit body runs exactly once.**  Table side: every call
    of `SentinelEntry.Exit` that acts on the entry sits inside `exitCtl.Do(func(){…})` (`exit_runs_once`), so the effects
    of an `Exit` call are the effects of the once-body.  Model side (`once_body_runs_exactly_once`): in every admissible
    execution of `sync.Once` — any number of callers, any schedule — the body is begun at most once, and exactly once
    before any `Do` (hence any `Exit`) has returned. -/
theorem exit_body_runs_exactly_once :
    (∃ r ∈ onceFacts, r.fn = "core/base.SentinelEntry.Exit" ∧ r.outside = 0 ∧ 0 < r.inside) ∧
    ∀ tr : List OEv, oWF ⟨false, none⟩ tr →
      starts tr ≤ 1 ∧ ∀ pre post t, tr = pre ++ [OEv.ret t] ++ post → starts pre = 1 :=
  ⟨exit_runs_once _ (by simp [requiredOnce]), once_body_runs_exactly_once⟩

/-! ## 3. Witnesses of the known findings (rows copied from the pinned tree; the check prints
    `KNOWN-FINDING` only while the regenerated table still contains such rows) -/

/-- `outlier.getNodeBreakersOfResource` ranges over the inner map with nothing held;
    `addNodeBreakerOfResource` writes it under `updateMux.Lock` -/
def pinnedNodeMapRows : List Access :=
  [⟨0, 0, false, [], .live, "core/outlier.getNodeBreakersOfResource", "core/outlier/rule_manager.go:46"⟩,
   ⟨1, 0, true, [⟨0, true⟩], .live, "core/outlier.addNodeBreakerOfResource", "core/outlier/rule_manager.go:69"⟩]

theorem outlier_nodemap_witness : disciplinedB [] pinnedNodeMapRows = false := by decide

/-- and the lock semantics really admits the two accesses back to back (nothing between them) -/
theorem outlier_nodemap_trace_witness :
    WFrom (fun _ => .readers []) [Ev.acq 1 0 true, Ev.acc 1 0 true, Ev.acc 2 0 false, Ev.rel 1 0 true] := by
  simp [WFrom, enabled, stepLS, upd]

/-- with the read excused the pinned rows are fine: the `_partial` is exactly `table_disciplined` -/
theorem outlier_nodemap_partial :
    disciplinedB [(0, "core/outlier.getNodeBreakersOfResource")] pinnedNodeMapRows = true := by decide

/-- `outlier.addNodeBreakerOfResource` inserts the breaker it built before taking the lock without looking the
    address up again (no guard at all) -/
def pinnedInsertRows : List Insert :=
  [⟨0, 0, [], false, .live, "core/outlier.addNodeBreakerOfResource", "core/outlier/rule_manager.go:69", "address"⟩]

theorem outlier_lost_insert_witness : pinnedInsertRows.all (insertOkB pinnedNodeMapRows []) = false := by decide

/-- known finding `same-entry-seterror-exit-race` (heap field, found by the race detector; rows written by hand from
    the detector's report, not produced by the translator): `SentinelEntry.SetError` writes `ctx.err` with nothing held,
    the statistic slots read it inside `Exit` with nothing held -/
def pinnedEntryErrRows : List Access :=
  [⟨0, 0, true, [], .live, "core/base.EntryContext.SetError", "core/base/context.go:52"⟩,
   ⟨1, 0, false, [], .live, "core/base.EntryContext.Err", "core/base/context.go:48"⟩]

theorem same_entry_error_race_witness : disciplinedB [] pinnedEntryErrRows = false := by decide

def pinnedPlainRows : List PlainUse :=
  [⟨0, 0, false, .live, "core/stat/base.LeapArray.currentBucketOfTime", "core/stat/base/leap_array.go:232"⟩,
   ⟨1, 0, false, .live, "core/stat/base.SlidingWindowMetric.metricItemFromBuckets", "core/stat/base/sliding_window_metric.go:240"⟩]

theorem bucketstart_plain_read_witness : pinnedPlainRows.all (plainOkB []) = false := by decide

def pinnedOutlierShapes : List SlotShape :=
  [⟨0, "core/outlier.MetricStatSlot.OnCompleted", 0, 4, false⟩, ⟨1, "core/outlier.Slot.Check", 0, 3, false⟩,
   ⟨2, "core/outlier.LoadRules", 0, 2, false⟩]

theorem outlier_multi_snapshot_witness : pinnedOutlierShapes.all (shapeOkB []) = false := by decide

end Sentinel.C15
