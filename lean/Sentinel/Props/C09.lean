import Sentinel.Lemmas.LeapArrayRace
import Sentinel.Lemmas.LeapArrayRaceTerm
import Sentinel.Lemmas.LeapArrayRaceOwn
import Sentinel.Lemmas.LeapArrayRaceStarted
import Sentinel.Lemmas.LeapArrayRaceRead
import Sentinel.Lemmas.LeapArrayRaceDrain
import Sentinel.Lemmas.LeapArrayRaceNonInt
import Sentinel.Lemmas.LeapArrayRaceSigned
/-!
# C09 — Sliding-window counters stay sound under concurrent writers and rollover
(property theorems only; the invariants live in `Sentinel/Lemmas/LeapArrayRace*.lean`)

Reading guide.  The model is `Sentinel.LAR` (`Sentinel/Model/LeapArrayRace.lean`), the one the driver runs
against `core/stat/base` under the yield-hook scheduler: a configuration `Cfg` is the shared words
(`start`, `cnt`, `minRt`, `maxConc` per slot, the try-lock word, the ghost `tot`), the clock and a list of
threads; `run c s` executes a schedule `s : List Entry` (`step tid` grants thread `tid` one atomic access,
`tick ms` advances the clock).  A thread's `res` lists its completed operations: `val` is the value a read
returned, `totAt` the ghost total of its event at that moment.  `Shared.performed ev` is the ghost total now:
the sum of the amounts of all `AddInt64(&counter[ev], amt)` that have been **executed**.

Theorems quantify over every geometry, every number of threads, every program and every schedule.
-/
namespace Sentinel.C09
open Sentinel.LAR

/-- a fresh array `n × L` created at `t0` with a view of interval `Iv`, and threads that have not started -/
def fresh (n L Iv t0 clock : Nat) (progs : List (List OpSpec)) : Cfg :=
  { sh := mkShared n L Iv t0, clock := clock, th := progs.map mkThread }

/-- the next round on the same array: new threads on the shared state another run has left behind -/
def nextRound (c : Cfg) (clock : Nat) (progs : List (List OpSpec)) : Cfg :=
  { sh := c.sh, clock := clock, th := progs.map mkThread }

/-! ## (a) no update is duplicated or invented -/

/-- **no invention** — the reported totals never exceed what has been recorded.
    Whatever the geometry, the programs and the schedule: every value returned by a read (`count` or
    `viewsum`) of event `ev` is at most the sum of the amounts of the atomic adds of `ev` that had been
    executed when the read returned, and that sum never shrinks afterwards.  (An executed add belongs to a
    started `add` operation, so this is stronger than "≤ Σ amounts whose add has started".) -/
theorem no_invention (n L Iv t0 clock : Nat) (progs : List (List OpSpec)) (s : List Entry) :
    let c := run (fresh n L Iv t0 clock progs) s
    ∀ t ∈ c.th, ∀ r ∈ t.res, ∀ v, r.val = some v → v ≤ r.totAt ∧ r.totAt ≤ c.sh.performed r.op.ev := by
  intro c t ht r hr v hv
  have inv := run_inv _ s (inv_init n L Iv t0 clock progs)
  have h := (inv.th t ht).1 r hr
  exact ⟨h.1 v hv, h.2⟩

/-- the ghost total is itself bounded by the adds that have **started**: `Cfg.started ev` is the sum of the amounts of
    the `add ev` operations that have begun (completed ones and those in progress), over all threads -/
theorem performed_le_started (n L Iv t0 clock : Nat) (progs : List (List OpSpec)) (s : List Entry) (ev : Nat) :
    (run (fresh n L Iv t0 clock progs) s).sh.performed ev ≤ (run (fresh n L Iv t0 clock progs) s).started ev := by
  refine le_trans (run_cred _ s ev ?_) (cfg_cred_le_started ev _)
  simp [fresh, mkShared, Shared.performed, sumTo_zero]

/-- **no invention, in the property's wording**: at every reachable configuration, every completed read of event
    `ev` reported at most the sum of the amounts of the `add ev` operations that have started -/
theorem no_invention_started (n L Iv t0 clock : Nat) (progs : List (List OpSpec)) (s : List Entry) :
    let c := run (fresh n L Iv t0 clock progs) s
    ∀ t ∈ c.th, ∀ r ∈ t.res, ∀ v, r.val = some v → v ≤ c.started r.op.ev := by
  intro c t ht r hr v hv
  have h := no_invention n L Iv t0 clock progs s t ht r hr v hv
  exact le_trans h.1 (le_trans h.2 (performed_le_started n L Iv t0 clock progs s r.op.ev))

/-- … and the same over any number of rounds: the invariant `Inv` carries over to a new round of threads
    on the state left behind, so `no_invention_from` applies again. -/
theorem inv_nextRound (c : Cfg) (inv : Inv c) (clock : Nat) (progs : List (List OpSpec)) :
    Inv (nextRound c clock progs) := by
  refine ⟨inv.le, fun t ht => ?_⟩
  simp only [nextRound, List.mem_map] at ht
  obtain ⟨p, _, rfl⟩ := ht
  exact ⟨fun r hr => by simp [mkThread] at hr, fun f hf => by simp [mkThread] at hf⟩

theorem no_invention_from (c0 : Cfg) (inv : Inv c0) (s : List Entry) :
    ∀ t ∈ (run c0 s).th, ∀ r ∈ t.res, ∀ v, r.val = some v →
      v ≤ r.totAt ∧ r.totAt ≤ (run c0 s).sh.performed r.op.ev := by
  intro t ht r hr v hv
  have h := ((run_inv _ s inv).th t ht).1 r hr
  exact ⟨h.1 v hv, h.2⟩

/-- the invariant behind it, for readers still **in progress** ("partial sums" = the sums a reader has accumulated
    so far — this is a full theorem, not a `_partial`: nothing is assumed beyond reachability).  No counter word exceeds its
    ghost total, and the partial sum of every reader in the middle of its summation is bounded by what has been executed for
    its event. -/
theorem no_invention_in_progress (c0 : Cfg) (inv : Inv c0) (s : List Entry) :
    (∀ i k, (run c0 s).sh.cnt i k ≤ (run c0 s).sh.tot i k) ∧
    ∀ t ∈ (run c0 s).th, ∀ op now rem acc, t.cur = some ⟨op, now, .mbGet rem acc⟩ →
      acc ≤ (run c0 s).sh.performed op.ev := by
  have inv' := run_inv _ s inv
  refine ⟨inv'.le, fun t ht op now rem acc hc => ?_⟩
  have h := (inv'.th t ht).2 _ hc
  simp only [pcOk] at h
  refine le_trans h.2.2 (sumTo_le_of_le _ ?_)
  cases rem with
  | nil => exact le_refl _
  | cons j r => exact Nat.le_of_lt (h.2.1 j (List.mem_cons_self ..))

/-- non-vacuity: a read that returns a non-zero value (sequential: add 5, then count) -/
example : (((run (fresh 2 500 1000 1000 1000 [[.add 0 5, .count 0]])
    (List.replicate 12 (.step 0))).th[0]?).map fun t => t.res.map (·.val)) = some [none, some 5] := by decide

/-! ## the reset section is mutually exclusive -/

/-- **mutual exclusion** — at every reachable configuration at most one thread is between `TryLock` and
    `Unlock` (inside `ResetBucketTo`/`reset`), the lock word is set exactly then. -/
theorem reset_section_exclusive (n L Iv t0 clock : Nat) (progs : List (List OpSpec)) (s : List Entry) :
    MutexInv (run (fresh n L Iv t0 clock progs) s) :=
  run_mutex _ s (mutex_init _ clock progs rfl)

/-! ## every recorder and reader terminates -/

/-- **termination, lock holder** — a thread inside the reset section leaves it (and clears the lock word)
    within `critMeas ≤ 9` of its *own* steps, whatever the other threads and the clock do in between. -/
theorem holder_releases (c : Cfg) (i : Nat) (t : Th) (hi : c.th[i]? = some t) (hc : t.inCrit = true)
    (s : List Entry) (hs : t.critMeas ≤ stepsOf i s) :
    ∃ p, p <+: s ∧ ∃ t', (run c p).th[i]? = some t' ∧ t'.inCrit = false ∧ (run c p).sh.lock = false := by
  induction s generalizing c t with
  | nil =>
    exfalso
    have : 0 < t.critMeas := by
      unfold Th.critMeas Th.inCrit at *
      cases hcur : t.cur with
      | none => rw [hcur] at hc; cases hc
      | some f => rw [hcur] at hc; exact critMeas_pos f.pc hc
    simp [stepsOf] at hs; omega
  | cons e r ih =>
    by_cases he : e = .step i
    · subst he
      have hex : (c.exec (.step i)) = { c with sh := (stepTh c.sh c.clock t).1, th := c.th.set i (stepTh c.sh c.clock t).2 } := by
        simp [Cfg.exec, hi]
      have hget : (c.exec (.step i)).th[i]? = some (stepTh c.sh c.clock t).2 := by
        rw [hex]; simp only []; rw [set_get c.th i t _ hi]; simp
      rcases stepTh_lock c.sh c.clock t with ⟨h1, _⟩ | ⟨_, h2, h3⟩ | ⟨h1, _, h3⟩
      · rw [hc] at h1; cases h1
      · refine ⟨[.step i], by simp, (stepTh c.sh c.clock t).2, ?_, h2, ?_⟩
        · simpa [run] using hget
        · simp only [run]; rw [hex]; exact h3
      · have hlt := h3 hc
        have hs' : (stepTh c.sh c.clock t).2.critMeas ≤ stepsOf i r := by
          simp [stepsOf] at hs; omega
        obtain ⟨p, hp, t', h4, h5, h6⟩ := ih (c.exec (.step i)) _ hget (by rw [h1]; exact hc) hs'
        exact ⟨.step i :: p, by simpa using hp, t', by simpa [run] using h4, h5, by simpa [run] using h6⟩
    · have hget : (c.exec e).th[i]? = some t := by rw [exec_other c i e he]; exact hi
      have hs' : t.critMeas ≤ stepsOf i r := by
        cases e with
        | tick d => simpa [stepsOf] using hs
        | step j =>
          have : j ≠ i := fun hji => he (by rw [hji])
          simpa [stepsOf, this] using hs
      obtain ⟨p, hp, t', h4, h5, h6⟩ := ih (c.exec e) t hget hc hs'
      exact ⟨e :: p, by simpa using hp, t', by simpa [run] using h4, h5, by simpa [run] using h6⟩

/-- the bound of `holder_releases` is at most 9 steps (store start, 5 counters, minRt, maxConcurrency, unlock) -/
theorem holder_bound (t : Th) : t.critMeas ≤ 9 := by
  unfold Th.critMeas
  cases t.cur with
  | none => simp
  | some f => exact critMeas_le f.pc

/-- **progress** — a granted step strictly decreases the explicit measure `Th.meas` of the thread, unless the
    step is a `TryLock` that fails because another thread holds the lock (then it spins and retries). -/
theorem step_decreases (sh : Shared) (clock : Nat) (t : Th) (hnf : t.finished = false)
    (hl : ∀ f, t.cur = some f → f.pc = .tryLock → sh.lock = false) :
    (stepTh sh clock t).2.meas sh.n < t.meas sh.n :=
  stepTh_meas sh clock t hnf hl

/-- **termination, solo** — from any configuration satisfying the lock discipline in which no *other* thread
    is inside the reset section (i.e. once the lock is free or held by the thread itself), a thread scheduled
    alone completes all its operations within `Th.meas` steps (≤ 12 + 3·n + 4 per operation). -/
theorem solo_terminates (k : Nat) (c : Cfg) (i : Nat) (t : Th) (hm : MutexInv c) (hi : c.th[i]? = some t)
    (hothers : ∀ (j : Nat) (u : Th), j ≠ i → c.th[j]? = some u → u.inCrit = false)
    (hk : t.meas c.sh.n ≤ k) :
    ∃ t', (run c (List.replicate k (.step i))).th[i]? = some t' ∧ t'.finished = true := by
  induction k generalizing c t with
  | zero => exact ⟨t, by simpa [run] using hi, meas_zero_finished c.sh.n t (by omega)⟩
  | succ k ih =>
    have hex : (c.exec (.step i)) = { c with sh := (stepTh c.sh c.clock t).1, th := c.th.set i (stepTh c.sh c.clock t).2 } := by
      simp [Cfg.exec, hi]
    have hget : (c.exec (.step i)).th[i]? = some (stepTh c.sh c.clock t).2 := by
      rw [hex]; simp only []; rw [set_get c.th i t _ hi]; simp
    have hoth : ∀ (j : Nat) (u : Th), j ≠ i → (c.exec (.step i)).th[j]? = some u → u.inCrit = false := by
      intro j u hj hu
      rw [hex] at hu; simp only [] at hu
      rw [set_get c.th i t _ hi] at hu
      have : i ≠ j := fun h => hj h.symm
      simp [this] at hu
      exact hothers j u hj hu
    have hn : (c.exec (.step i)).sh.n = c.sh.n := by
      rw [hex]; simp only []
      cases hcur : t.cur with
      | none => rw [stepTh_none _ _ _ hcur]
      | some f => rw [stepTh_some _ _ _ f hcur]; exact apply_n _ _
    have hmeas : (stepTh c.sh c.clock t).2.meas (c.exec (.step i)).sh.n ≤ k := by
      rw [hn]
      by_cases hf : t.finished = true
      · rw [stepTh_finished _ _ _ hf]
        have : t.meas c.sh.n = 0 := by
          obtain ⟨prog, cur, res⟩ := t
          simp [Th.finished] at hf
          obtain ⟨h1, h2⟩ := hf
          subst h1; subst h2
          simp [Th.meas]
        simp only []; omega
      · have hl : ∀ f, t.cur = some f → f.pc = .tryLock → c.sh.lock = false := by
          intro f hcur hpc
          by_contra hlock
          have hlock' : c.sh.lock = true := by simpa using hlock
          obtain ⟨j, u, hu, hcr⟩ := hm.held hlock'
          by_cases hji : j = i
          · subst hji
            rw [hi] at hu; cases hu
            simp [Th.inCrit, hcur, hpc, Pc.inCrit] at hcr
          · have := hothers j u hji hu
            rw [this] at hcr; cases hcr
        have := stepTh_meas c.sh c.clock t (by simpa using hf) hl
        omega
    obtain ⟨t', h1, h2⟩ := ih (c.exec (.step i)) _ (exec_mutex c _ hm) hget hoth hmeas
    exact ⟨t', by simpa [List.replicate_succ, run] using h1, h2⟩

/-- **lock-freedom (system-wide progress)** — at every configuration satisfying the lock discipline in which some
    thread has not finished, there is a thread whose next step strictly decreases its measure: the lock holder when
    the lock is held (it never waits for anybody), any unfinished thread when it is free.  Hence a spinning thread
    never spins for want of somebody able to make progress (no deadlock, no livelock of the whole system). -/
theorem progress_possible (c : Cfg) (hm : MutexInv c) (hnf : c.allFinished = false) :
    ∃ (i : Nat) (t : Th), c.th[i]? = some t ∧ t.finished = false ∧
      (stepTh c.sh c.clock t).2.meas c.sh.n < t.meas c.sh.n := by
  by_cases hl : c.sh.lock = true
  · obtain ⟨i, t, hi, hc⟩ := hm.held hl
    have hnft : t.finished = false := by
      unfold Th.inCrit at hc
      cases hcur : t.cur with
      | none => rw [hcur] at hc; cases hc
      | some f => simp [Th.finished, hcur]
    refine ⟨i, t, hi, hnft, stepTh_meas c.sh c.clock t hnft ?_⟩
    intro f hcur hpc
    simp [Th.inCrit, hcur, hpc, Pc.inCrit] at hc
  · have hl' : c.sh.lock = false := by simpa using hl
    have : ∃ t ∈ c.th, t.finished = false := by
      by_contra hcon
      have : c.allFinished = true := by
        unfold Cfg.allFinished
        rw [List.all_eq_true]
        intro t ht
        by_contra h
        exact hcon ⟨t, ht, by simpa using h⟩
      rw [this] at hnf; cases hnf
    obtain ⟨t, ht, hnft⟩ := this
    obtain ⟨i, hi⟩ := List.getElem?_of_mem ht
    exact ⟨i, t, hi, hnft, stepTh_meas c.sh c.clock t hnft (fun _ _ _ => hl')⟩

/-! ### global termination: the scheduler's drain and fair schedules -/

/-- **termination under the round-robin drain** (the scheduler the harness uses: thread ids 0,1,2,…,0,1,2,… one step
    each, finished threads skipped) — from every configuration satisfying the lock discipline the drain finishes every
    thread within `psi c` rounds, `psi` being the explicit potential of `Lemmas/LeapArrayRaceDrain.lean`
    (`(2K+4)·Σ base + Σ rho`): each round lowers it, because the round steps the lock holder if the lock is held
    and otherwise its first unfinished thread meets a free lock. -/
theorem drain_terminates_from (c : Cfg) (hm : MutexInv c) : (drain (c.psi + 1) c).allFinished = true :=
  drain_finishes c.psi c hm (le_refl _)

theorem psi_fresh_le (n L Iv t0 clock : Nat) (progs : List (List OpSpec)) :
    (fresh n L Iv t0 clock progs).psi ≤ (2 * progs.length + 4) * ((progs.map List.length).sum * (3 * n + 16)) := by
  unfold Cfg.psi fresh
  simp only [List.length_map]
  rw [sumRho_fresh, Nat.add_zero]
  exact Nat.mul_le_mul_left _ (sumBase_fresh_le _ progs)

/-- **every recorder and reader terminates** — for every geometry, every set of thread programs and every
    configuration reachable by any finite schedule `s`, the round-robin drain finishes every thread within
    `(2K+4) · #operations · (3n+16)` rounds (`K` threads, `n` buckets): an explicit bound that depends on the
    programs only, not on the schedule that led to the configuration. -/
theorem drain_terminates (n L Iv t0 clock : Nat) (progs : List (List OpSpec)) (s : List Entry) :
    (drain ((2 * progs.length + 4) * ((progs.map List.length).sum * (3 * n + 16)) + 1)
      (run (fresh n L Iv t0 clock progs) s)).allFinished = true := by
  apply drain_finishes
  · exact reset_section_exclusive n L Iv t0 clock progs s
  · exact le_trans (run_psi_le _ s) (psi_fresh_le n L Iv t0 clock progs)

/-- **fair schedules** — from every reachable configuration, in every infinite schedule (thread steps and clock
    ticks) in which each thread that is unfinished at some moment is scheduled at that moment or later, there is a
    moment at which every thread has finished. -/
theorem fair_terminates (n L Iv t0 clock : Nat) (progs : List (List OpSpec)) (s : List Entry) (σ : Nat → Entry)
    (hfair : Fair (run (fresh n L Iv t0 clock progs) s) σ) :
    ∃ k, (runTo (run (fresh n L Iv t0 clock progs) s) σ k).allFinished = true :=
  fair_finishes _ σ (reset_section_exclusive n L Iv t0 clock progs s) hfair

/-- non-vacuity: two recorders contending for the reset of the same slot, drained round-robin from the start -/
example : (drain 40 (nextRound (run (fresh 2 500 1000 1000 1000 [[.add 0 5]]) [.step 0, .step 0, .step 0]) 2000
    [[.add 0 1], [.add 0 2]])).allFinished = true := by decide

/-! ## data of an expired bucket is never visible — FALSE at this granularity (known finding) -/

/-- the configuration of the known finding `stale-counters-visible`: array 2×500 created at 1000, 5 passes
    recorded at 1000; then thread 0 records 1 pass at 2000 (recycles slot 0), thread 1 reads the 1000 ms
    view at 2000 (window of bucket starts [1500, 2000]) -/
def witnessInit : Cfg :=
  nextRound (run (fresh 2 500 1000 1000 1000 [[.add 0 5]]) [.step 0, .step 0, .step 0]) 2000 [[.add 0 1], [.viewsum 0]]

/-- both threads are started; thread 0 runs up to and including `StoreUint64(&BucketStart, 2000)`, then the
    reader runs to completion (replay: `replays/known/C09-stale-counters-visible.ops`) -/
def witnessSched : List Entry :=
  [.step 0, .step 1, .step 0, .step 0, .step 0, .step 1, .step 1, .step 1, .step 1, .step 1, .step 1]

/-- the full statement of the clause, for one reader: whenever a read of a view returns, its value is at most
    the amounts of the executed adds whose own timestamps lie in buckets of the reader's window.  Stated on
    the witness configuration's vocabulary: nothing had been recorded with a timestamp in `[1500, 2500)`. -/
def expired_never_visible_statement : Prop :=
  ∀ s : List Entry, ∀ t ∈ (run witnessInit s).th, ∀ r ∈ t.res, ∀ v, r.val = some v →
    -- no add with a timestamp in the window has been executed yet (thread 0 has not returned) ⇒ the read is 0
    ((run witnessInit s).th[0]?.map fun t0 => t0.res.length) = some 0 →
    (run witnessInit s).sh.performed 0 = 5 → v = 0

/-- **"data of an expired bucket is never visible" is false** at atomic-access granularity: the reader
    returns 5 for the window of bucket starts [1500, 2000] at a moment when no add with a timestamp in that
    window has been executed (the ghost total is still the 5 recorded at 1000, thread 0 has not returned). -/
theorem expired_never_visible_witness :
    let c := run witnessInit witnessSched
    (c.th[1]?.map fun t => t.res.map fun r => (r.now, r.val)) = some [(2000, some 5)]
      ∧ (c.th[0]?.map fun t => t.res.length) = some 0
      ∧ c.sh.performed 0 = 5 := by decide

theorem expired_never_visible_false : ¬ expired_never_visible_statement := by
  intro h
  have hw := expired_never_visible_witness
  simp only at hw
  obtain ⟨h1, h2, h3⟩ := hw
  cases hth : (run witnessInit witnessSched).th[1]? with
  | none => rw [hth] at h1; simp at h1
  | some t =>
    rw [hth] at h1
    simp only [Option.map_some, Option.some.injEq] at h1
    have hmem : t ∈ (run witnessInit witnessSched).th := List.mem_of_getElem? hth
    cases hres : t.res with
    | nil => rw [hres] at h1; simp at h1
    | cons r rs =>
      rw [hres] at h1
      simp only [List.map_cons, List.cons.injEq, Prod.mk.injEq] at h1
      have := h witnessSched t hmem r (by rw [hres]; exact List.mem_cons_self ..) 5 h1.1.2 h2 h3
      omega

/-- what does hold (`_partial`): when the writer is not interrupted between the store of the start and the
    zeroing (it runs to completion first), the reader sees exactly what has been recorded in its window -/
theorem expired_never_visible_partial :
    let c := run witnessInit ([.step 0, .step 1] ++ List.replicate 12 (.step 0) ++ List.replicate 6 (.step 1))
    (c.th[1]?.map fun t => t.res.map fun r => (r.now, r.val)) = some [(2000, some 1)] := by decide

/-! ## (b) an amount is only ever credited to the bucket its timestamp selects (n ≥ 2, stall condition) -/

/-- **credited_to_own_bucket** — more than one bucket, and a schedule along which the stall condition holds
    at every configuration a step is taken from (`StallRun`: no operation in progress started more than one
    bucket length before the current clock).  Then whenever a thread executes an atomic access on the bucket
    `currentBucketOfTime` handed to it — the add of `AddCount` (`mbAdd`), the min-RT and concurrency updates — the
    slot it writes to carries the start of the bucket its own timestamp selects: the amount is credited to that
    bucket and to no later one. -/
theorem credited_to_own_bucket (n L Iv t0 clock : Nat) (progs : List (List OpSpec)) (s : List Entry)
    (hn : 2 ≤ n) (hL : 0 < L) (hst : StallRun (fresh n L Iv t0 clock progs) s) :
    ∀ t ∈ (run (fresh n L Iv t0 clock progs) s).th, ∀ op now pc, t.cur = some ⟨op, now, pc⟩ →
      pc = .mbAdd ∨ pc = .minrtLoad ∨ pc = .minrtStore ∨ pc = .maxconcLoad ∨ pc = .maxconcStore →
      (run (fresh n L Iv t0 clock progs) s).sh.start ((now / L) % n) = Sentinel.LA.cbs L now := by
  intro t ht op now pc hc hpc
  have inv := run_own _ s (own_init (mkShared n L Iv t0) clock progs) hn hL hst
  have h := inv.own t ht _ hc
  have hh : pc.holds = true := by rcases hpc with h | h | h | h | h <;> subst h <;> rfl
  have := h hh
  rw [run_n, run_L] at this
  exact this

/-- the same from any configuration satisfying the invariant (later rounds on the same array) -/
theorem credited_to_own_bucket_from (c0 : Cfg) (inv : OwnInv c0) (s : List Entry)
    (hn : 2 ≤ c0.sh.n) (hL : 0 < c0.sh.L) (hst : StallRun c0 s) : OwnInv (run c0 s) :=
  run_own c0 s inv hn hL hst

/-- the hypotheses are satisfiable and the conclusion is not vacuous: two recorders on both sides of a bucket
    boundary, one of them recycling its slot, both parked at `mb.add` under a schedule satisfying the stall condition -/
example :
    let c0 := nextRound (run (fresh 2 500 1000 1000 1000 [[.add 0 5]]) [.step 0, .step 0, .step 0]) 1999 [[.add 0 1], [.add 0 2]]
    let s : List Entry := [.step 0, .tick 1, .step 1, .step 0] ++ List.replicate 11 (.step 1)
    StallRun c0 s ∧ ((run c0 s).th.map fun t => t.cur.map (·.pc)) = [some .mbAdd, some .mbAdd] := by
  refine ⟨stallRunB_sound _ _ (by decide), by decide⟩

/-- without the stall condition the clause fails — and the model shows it: a recorder that read the clock at
    1000 and is descheduled until the slot has been recycled for bucket 2000 adds its amount there -/
theorem credited_to_own_bucket_needs_stall :
    let c := run (nextRound (run (fresh 2 500 1000 1000 1000 [[.add 0 5]]) [.step 0, .step 0, .step 0]) 1000 [[.add 0 1], [.add 0 2]])
      ([.step 0, .tick 1000, .step 1, .step 0] ++ List.replicate 12 (.step 1) ++ [.step 0])
    c.sh.start 0 = 2000 ∧ c.sh.cnt 0 0 = 3 := by decide

/-! ## (c) exact when no recorder overlaps the rollover of its bucket -/

/-- **exact accounting of every counter word** at every reachable configuration: while a word is being recycled
    (`dirty`: the slot's start has been stored, the word not yet zeroed) whatever is added to it is `lost`;
    otherwise its content plus what was lost is exactly what has been added to it since the slot's start was
    stored (`fresh`).  `lost` only grows by an add executed while the word is dirty — an add that overlaps the
    rollover of its bucket. -/
theorem exact_up_to_overlap (n L Iv t0 clock : Nat) (progs : List (List OpSpec)) (s : List Entry) (i k : Nat) :
    let sh := (run (fresh n L Iv t0 clock progs) s).sh
    if sh.dirty i k = true then sh.lost i k = sh.fresh i k else sh.cnt i k + sh.lost i k = sh.fresh i k := by
  have h := run_sh_inv ExactInv apply_exact (fresh n L Iv t0 clock progs) s (by
    intro i k; simp [fresh, mkShared])
  exact h i k

/-- **exact_when_no_overlap** — if no add has overlapped the rollover of the word (`lost = 0`) and the word is
    not in the middle of being recycled, the counter is exactly the recorded total of the slot's current bucket.
    Together with `credited_to_own_bucket` (the adds of a slot's current bucket are those whose timestamps select
    it) and the sequential theorem `C08.viewSum_eq_ref`, this is the clause "the reported sums are exactly the
    recorded totals"; the composition down to the reader's return value is checked on the implementation's traces
    by the oracle (`bad lost` / `bad foreign-credit`). -/
theorem exact_when_no_overlap (n L Iv t0 clock : Nat) (progs : List (List OpSpec)) (s : List Entry) (i k : Nat)
    (hd : (run (fresh n L Iv t0 clock progs) s).sh.dirty i k = false)
    (hl : (run (fresh n L Iv t0 clock progs) s).sh.lost i k = 0) :
    (run (fresh n L Iv t0 clock progs) s).sh.cnt i k = (run (fresh n L Iv t0 clock progs) s).sh.fresh i k := by
  have h := exact_up_to_overlap n L Iv t0 clock progs s i k
  simp only [hd] at h
  simp at h
  omega

/-- the general `_partial` of "expired data is never visible": outside the recycling window of a word (`dirty`,
    between `bla.reset.start` and the word's `mb.reset.counter`) its content never exceeds what has been added
    since the slot's start was stored — stale data can only be read from a dirty word, which is exactly the
    region of the known finding `stale-counters-visible` -/
theorem expired_visible_only_while_dirty (n L Iv t0 clock : Nat) (progs : List (List OpSpec)) (s : List Entry) (i k : Nat)
    (hd : (run (fresh n L Iv t0 clock progs) s).sh.dirty i k = false) :
    (run (fresh n L Iv t0 clock progs) s).sh.cnt i k ≤ (run (fresh n L Iv t0 clock progs) s).sh.fresh i k := by
  have h := exact_up_to_overlap n L Iv t0 clock progs s i k
  simp only [hd] at h
  simp at h
  omega

/-- what keeps `expired_never_visible` a `_partial`: **only** the recorded finding `stale-counters-visible`.  Every single
    load of a reader obeys the clause unless it hits a word inside its recycling window: at any reachable configuration,
    a summation step on slot `j` whose word is not dirty adds at most `fresh j ev` — what has been recorded since the
    slot's start was stored — to the reader's sum (and the step adds exactly the word's content). -/
theorem load_le_fresh_unless_dirty (n L Iv t0 clock : Nat) (progs : List (List OpSpec)) (s : List Entry)
    (op : OpSpec) (now j : Nat) (r : List Nat) (acc : Nat)
    (hd : (run (fresh n L Iv t0 clock progs) s).sh.dirty j op.ev = false) :
    let sh := (run (fresh n L Iv t0 clock progs) s).sh
    ∃ v, v = acc + sh.cnt j op.ev ∧ v ≤ acc + sh.fresh j op.ev ∧
      ((decideStep sh op now (.mbGet (j :: r) acc)).2 = .fin (some v)
        ∨ (decideStep sh op now (.mbGet (j :: r) acc)).2 = .pc (.mbGet r v)) := by
  intro sh
  have h : sh.cnt j op.ev ≤ sh.fresh j op.ev := expired_visible_only_while_dirty n L Iv t0 clock progs s j op.ev hd
  refine ⟨acc + sh.cnt j op.ev, rfl, by omega, ?_⟩
  cases r with
  | nil => left; rfl
  | cons a q => right; rfl

/-- … and in the witness the word *is* dirty when the reader loads it -/
example : (run witnessInit (witnessSched.take 9)).sh.dirty 0 0 = true
    ∧ (run witnessInit (witnessSched.take 9)).sh.cnt 0 0 = 5
    ∧ (run witnessInit (witnessSched.take 9)).sh.fresh 0 0 = 0 := by decide

/-- **exact_when_no_overlap, reader level** — take any reachable configuration in which, for event `ev`, no word is in
    the middle of being recycled and no add has overlapped a rollover (`lost = 0`).  A reader of the view started
    at clock `tr` and scheduled without interference terminates after `1 + 2n + |V|` steps and returns exactly the
    total recorded (`fresh`) in the slots `V` that pass the view's filter at `tr` (not deprecated, start inside the
    view's range). -/
theorem exact_solo_reader (n L Iv t0 clock : Nat) (progs : List (List OpSpec)) (s : List Entry) (ev tr : Nat)
    (htr : 0 < tr) (hn : 0 < n)
    (hd : ∀ j, (run (fresh n L Iv t0 clock progs) s).sh.dirty j ev = false)
    (hl : ∀ j, (run (fresh n L Iv t0 clock progs) s).sh.lost j ev = 0) :
    let c := run (fresh n L Iv t0 clock progs) s
    let V := validFrom c.sh tr n 0
    let c' := run (nextRound c tr [[.viewsum ev]]) (List.replicate (1 + 2 * n + V.length) (.step 0))
    (c'.th[0]?.map fun t => (t.finished, t.res.map (·.val)))
      = some (true, [some ((V.map fun j => c.sh.fresh j ev).sum)]) := by
  intro c V c'
  have hcn : c.sh.n = n := by
    show (run (fresh n L Iv t0 clock progs) s).sh.n = n
    rw [run_n]; rfl
  have h := solo_viewsum (nextRound c tr [[.viewsum ev]]) 0 ev (by simp [nextRound]) htr (by
    show 0 < c.sh.n
    omega)
  simp only at h
  have hsh : (nextRound c tr [[.viewsum ev]]).sh = c.sh := rfl
  have hck : (nextRound c tr [[.viewsum ev]]).clock = tr := rfl
  rw [hsh, hck, hcn] at h
  have hsum : sumCnt c.sh ev V = (V.map fun j => c.sh.fresh j ev).sum := by
    unfold sumCnt
    congr 1
    apply List.map_congr_left
    intro j _
    exact exact_when_no_overlap n L Iv t0 clock progs s j ev (hd j) (hl j)
  show (c'.th[0]?.map fun t => (t.finished, t.res.map (·.val))) = _
  have h2 : c'.th[0]? = some (rdDone c.sh ev tr [] (sumCnt c.sh ev V)) := h.2
  rw [h2, hsum]
  simp [rdDone, Th.finished, mkRes]

/-- non-vacuity of `exact_solo_reader`: after a sequential add of 5 the hypotheses hold and the reader returns 5 -/
example :
    let c := run (fresh 2 500 1000 1000 1000 [[.add 0 5]]) [.step 0, .step 0, .step 0]
    (∀ j < 2, c.sh.dirty j 0 = false ∧ c.sh.lost j 0 = 0)
      ∧ ((validFrom c.sh 1400 2 0).map fun j => c.sh.fresh j 0) = [5] := by decide

/-! ## concurrent readers at different timestamps do not influence each other -/

/-- **non-interference of reads.**  Let thread `b` be a reader of a view (`SlidingWindowMetric.GetSum`: its program
    consists of `viewsum` operations only, whatever their clock readings).  Deleting all steps of `b` from **any**
    schedule changes neither the shared words nor the state — in particular the completed results — of any other thread:
    a reader's result depends only on the words it loads and on its own `now`.  (Ticks stay in place: they are not steps
    of `b`.) -/
theorem readers_noninterference (c : Cfg) (b : Nat) (hb : ∀ t, c.th[b]? = some t → PureReader t) (s : List Entry) :
    (run c s).sh = (run c (eraseThread b s)).sh ∧
    ∀ i, i ≠ b → (run c s).th[i]? = (run c (eraseThread b s)).th[i]? := by
  have h := quiet_erase b s c c ⟨rfl, rfl, fun _ _ => rfl⟩ (pure_quiet b s c hb)
  exact ⟨h.sh, h.th⟩

/-- the same for the results alone, from a fresh array: whatever the other threads do, reader `a`'s return values are the
    same with and without the view reader `b` -/
theorem reader_results_independent (n L Iv t0 clock : Nat) (progs : List (List OpSpec)) (a b : Nat) (hab : a ≠ b)
    (hb : ∀ p, progs[b]? = some p → ∀ op ∈ p, op.isView = true) (s : List Entry) :
    ((run (fresh n L Iv t0 clock progs) s).th[a]?.map fun t => t.res)
      = ((run (fresh n L Iv t0 clock progs) (eraseThread b s)).th[a]?.map fun t => t.res) := by
  have hp : ∀ t, (fresh n L Iv t0 clock progs).th[b]? = some t → PureReader t := by
    intro t ht
    simp only [fresh, List.getElem?_map] at ht
    cases hpb : progs[b]? with
    | none => rw [hpb] at ht; cases ht
    | some p =>
      rw [hpb] at ht
      simp only [Option.map_some, Option.some.injEq] at ht
      subst ht
      exact ⟨hb p hpb, fun f hf => by simp [mkThread] at hf⟩
  rw [(readers_noninterference _ b hp s).2 a hab]

/-- the exact condition, for readers that refresh (`count` / `values`: `currentBucketOfTime` first): such a reader writes
    only when its refresh recycles the slot of its current bucket; along every run in which the steps of `b` leave the
    shared words unchanged (`QuietRun`: e.g. its bucket is already current) it can be deleted just the same -/
theorem quiet_noninterference (c : Cfg) (b : Nat) (s : List Entry) (hq : QuietRun b c s) :
    (run c s).sh = (run c (eraseThread b s)).sh ∧
    ∀ i, i ≠ b → (run c s).th[i]? = (run c (eraseThread b s)).th[i]? := by
  have h := quiet_erase b s c c ⟨rfl, rfl, fun _ _ => rfl⟩ hq
  exact ⟨h.sh, h.th⟩

/-- … and the condition is needed: a `count` at 2000 recycles slot 0 (bucket 1000, 5 passes) under a view reader that
    read the clock at 1400; with the `count`'s steps the view reader returns 0, without them 5 -/
theorem refresh_is_a_write :
    let c := nextRound (run (fresh 2 500 1000 1000 1000 [[.add 0 5]]) [.step 0, .step 0, .step 0]) 1400 [[.viewsum 0], [.count 0]]
    let s : List Entry := [.step 0, .tick 600, .step 1] ++ List.replicate 20 (.step 1) ++ List.replicate 8 (.step 0)
    ((run c s).th[0]?.map fun t => t.res.map (·.val)) = some [some 0]
      ∧ ((run c (eraseThread 1 s)).th[0]?.map fun t => t.res.map (·.val)) = some [some 5] := by decide

/-- non-vacuity of `reader_results_independent`: two view readers three buckets apart over a filled 4-bucket array
    (the `readers apart` configuration), interleaved step by step -/
example :
    let progs : List (List OpSpec) := [[.add 0 1, .add 0 2], [.viewsum 0], [.viewsum 0]]
    let s : List Entry := [.step 0, .step 0, .step 0, .step 0, .step 0, .step 1, .tick 1500, .step 2] ++
      (List.replicate 14 [Entry.step 1, Entry.step 2]).flatten
    ((run (fresh 4 500 2000 4000 4000 progs) s).th[1]?.map fun t => t.res.map (·.val)) = some [some 3]
      ∧ ((run (fresh 4 500 2000 4000 4000 progs) (eraseThread 2 s)).th[1]?.map fun t => t.res.map (·.val)) = some [some 3] := by
  decide

/-! ## far time jumps: a bucket older than one interval is never summed, whatever the gap -/

/-- times are naturals in the model (`uint64` milliseconds in the code: no wrap below 2^64 ms): the filter of every reader
    keeps a slot only if its start is not in the future and at most one whole interval old — for **any** distance between
    the slot's start and the reader's clock reading (2^32 ms, 2^33 ms, …: no narrowing, no sign) -/
theorem summed_bucket_is_recent (sh : Shared) (op : OpSpec) (now s : Nat) (h : keepOf sh op now s = true) :
    s ≤ now ∧ now - s ≤ sh.n * sh.L := by
  have hd : Sentinel.LA.deprecated (sh.n * sh.L) now s = false := by
    cases op <;> simp [keepOf] at h <;> first | exact h | exact h.1
  unfold Sentinel.LA.deprecated at hd
  split_ifs at hd with hle
  · exact ⟨hle, by simpa using hd⟩

/-- a reader's scan step appends a slot only if it passes that filter: whatever was appended at this step is recent -/
theorem scan_appends_only_recent (sh : Shared) (op : OpSpec) (now j : Nat) (col col' : List Nat) (p : Nat)
    (h : (decideStep sh op now (.depLoad j col)).2 = .pc (.valGet p col')) (hj : col' ≠ col) :
    col' = col ++ [j] ∧ sh.start j ≤ now ∧ now - sh.start j ≤ sh.n * sh.L := by
  simp only [decideStep] at h
  by_cases hn : j + 1 < sh.n
  · rw [if_pos hn] at h
    cases hk : keepOf sh op now (sh.start j)
    · rw [hk] at h; simp at h; exact absurd h.2.symm hj
    · rw [hk] at h; simp at h
      exact ⟨h.2.symm, summed_bucket_is_recent sh op now _ hk⟩
  · rw [if_neg hn] at h
    generalize (if keepOf sh op now (sh.start j) = true then col ++ [j] else col) = c0 at h
    cases c0 <;> simp [afterScan] at h

/-- reader level: the slots a reader scheduled alone sums (`solo_viewsum`, `exact_solo_reader`) all have a start that is
    at most one interval old at the reader's clock reading — after a gap of any length nothing older is ever summed -/
theorem solo_reader_sums_only_recent (sh : Shared) (now : Nat) (m j0 : Nat) :
    ∀ j ∈ validFrom sh now m j0, sh.start j ≤ now ∧ now - sh.start j ≤ sh.n * sh.L := by
  induction m generalizing j0 with
  | zero => intro j hj; simp [validFrom] at hj
  | succ m ih =>
    intro j hj
    simp only [validFrom, List.mem_append] at hj
    rcases hj with hj | hj
    · cases hk : keepOf sh (.viewsum 0) now (sh.start j0)
      · rw [hk] at hj; simp at hj
      · rw [hk] at hj; simp at hj; subst hj
        exact summed_bucket_is_recent sh _ now _ hk
    · exact ih (j0 + 1) j hj

/-- non-vacuity with a far jump: 5 passes at 1000, a view reader 2^32 + 300 ms later sums no slot at all -/
example : validFrom (run (fresh 2 500 1000 1000 1000 [[.add 0 5]]) [.step 0, .step 0, .step 0]).sh (1000 + 2 ^ 32 + 300) 2 0 = [] := by
  decide

/-! ## signed amounts: the positive and the negative run -/

/-- an operation with a signed amount (the API takes `int64`: decrements, roll-backs) -/
inductive OpZ where
  | add (ev : Nat) (a : Int)
  | conc (c : Nat)
  | count (ev : Nat)
  | viewsum (ev : Nat)

/-- the operation of the **positive** run: records `max a 0` (`Drv.C09.parseOp?`) -/
def OpZ.pos : OpZ → OpSpec
  | .add ev a => .add ev a.toNat
  | .conc c => .conc c | .count ev => .count ev | .viewsum ev => .viewsum ev

/-- the operation of the **negative** run: records `max (-a) 0`; an rt amount is recorded as in the positive run
    (`Drv.C09.negOp?`) -/
def OpZ.neg : OpZ → OpSpec
  | .add ev a => .add ev (if ev = evRt then a.toNat else (-a).toNat)
  | .conc c => .conc c | .count ev => .count ev | .viewsum ev => .viewsum ev

theorem pos_neg_same_erasure (o : OpZ) : eraseOp o.pos = eraseOp o.neg := by
  cases o <;> simp [OpZ.pos, OpZ.neg, eraseOp]
  split_ifs <;> simp_all

/-- **control flow never depends on counter contents** (`Lemmas/LeapArrayRaceSigned.lean`: erasure is a homomorphism of
    the step relation), instantiated: for every signed program and every schedule, the positive and the negative run have
    the same erasure — same bucket starts, lock word, `minRt`, `maxConc`, same program counters of every thread (hence the
    same yield points: the driver's `bad-model-split` never happens), same number and kind of completed operations.  The
    driver prints `positive − negative` for every counter and return value. -/
theorem split_runs_same_control (n L Iv t0 clock : Nat) (zs : List (List OpZ)) (s : List Entry) :
    eraseCfg (run (fresh n L Iv t0 clock (zs.map fun p => p.map OpZ.pos)) s)
      = eraseCfg (run (fresh n L Iv t0 clock (zs.map fun p => p.map OpZ.neg)) s) := by
  apply ctl_independent
  simp only [eraseCfg, fresh, List.map_map]
  congr 1
  apply List.map_congr_left
  intro p _
  simp only [Function.comp, eraseTh, mkThread, List.map_map, Option.map_none, List.map_nil]
  congr 1
  apply List.map_congr_left
  intro o _
  exact pos_neg_same_erasure o

/-- … in particular every thread is parked at the same yield point in both runs -/
theorem split_runs_same_hooks (n L Iv t0 clock : Nat) (zs : List (List OpZ)) (s : List Entry) (i : Nat) :
    ((run (fresh n L Iv t0 clock (zs.map fun p => p.map OpZ.pos)) s).th[i]?.map fun t => t.cur.map fun f => f.pc.hook)
      = ((run (fresh n L Iv t0 clock (zs.map fun p => p.map OpZ.neg)) s).th[i]?.map fun t => t.cur.map fun f => f.pc.hook) := by
  have h := congrArg (fun c => c.th[i]?.map fun t => t.cur.map fun f => f.pc.hook) (split_runs_same_control n L Iv t0 clock zs s)
  have key : ∀ c : Cfg, ((eraseCfg c).th[i]?.map fun t => t.cur.map fun f => f.pc.hook)
      = (c.th[i]?.map fun t => t.cur.map fun f => f.pc.hook) := by
    intro c
    simp only [eraseCfg, List.getElem?_map, Option.map_map]
    congr 1
    funext t
    simp only [Function.comp, eraseTh, Option.map_map]
    congr 1
    funext f
    simp only [Function.comp, eraseFrame]
    cases f.pc <;> rfl
  simp only [key] at h
  exact h

/-- **signed no-invention** (transfer of `no_invention_started` to both runs): take a read of event `ev` that returned
    `vp` in the positive run and the read that returned `vn` in the negative run.  The signed value `vp − vn` the driver
    prints is at most the sum of the **positive parts** of the amounts of the `add ev` operations that have started, and at
    least minus the sum of their **negative parts** (`Cfg.started` of the positive resp. negative run is exactly that sum:
    the runs record `max a 0` resp. `max (−a) 0`). -/
theorem signed_read_bounds (n L Iv t0 clock : Nat) (zs : List (List OpZ)) (s : List Entry)
    (tp tn : Th) (rp rn : Res) (vp vn : Nat)
    (htp : tp ∈ (run (fresh n L Iv t0 clock (zs.map fun p => p.map OpZ.pos)) s).th) (hrp : rp ∈ tp.res) (hvp : rp.val = some vp)
    (htn : tn ∈ (run (fresh n L Iv t0 clock (zs.map fun p => p.map OpZ.neg)) s).th) (hrn : rn ∈ tn.res) (hvn : rn.val = some vn) :
    ((vp : Int) - vn ≤ ((run (fresh n L Iv t0 clock (zs.map fun p => p.map OpZ.pos)) s).started rp.op.ev : Int))
    ∧ (-((run (fresh n L Iv t0 clock (zs.map fun p => p.map OpZ.neg)) s).started rn.op.ev : Int) ≤ (vp : Int) - vn) := by
  have h1 := no_invention_started n L Iv t0 clock _ s tp htp rp hrp vp hvp
  have h2 := no_invention_started n L Iv t0 clock _ s tn htn rn hrn vn hvn
  constructor <;> omega

theorem validFrom_congr (sh sh' : Shared) (h : eraseSh sh = eraseSh sh') (now m j : Nat) :
    validFrom sh now m j = validFrom sh' now m j := by
  have hn : sh.n = sh'.n := by
    have h0 : (eraseSh sh).n = (eraseSh sh').n := by rw [h]
    exact h0
  have hL : sh.L = sh'.L := by
    have h0 : (eraseSh sh).L = (eraseSh sh').L := by rw [h]
    exact h0
  have hI : sh.Iv = sh'.Iv := by
    have h0 : (eraseSh sh).Iv = (eraseSh sh').Iv := by rw [h]
    exact h0
  have hs : sh.start = sh'.start := by
    have h0 : (eraseSh sh).start = (eraseSh sh').start := by rw [h]
    exact h0
  induction m generalizing j with
  | zero => rfl
  | succ m ih =>
    simp only [validFrom, ih]
    have : keepOf sh (.viewsum 0) now (sh.start j) = keepOf sh' (.viewsum 0) now (sh'.start j) := by
      simp only [keepOf, hn, hL, hI, hs]
    rw [this]

/-- **signed exactness, sequential reader** (transfer of `exact_solo_reader`): if in both runs no word of event `ev` is
    dirty and nothing was lost, a view reader scheduled alone at `tr` returns in the positive run the recorded positive
    parts and in the negative run the recorded negative parts **of the same slots** — so the signed value the driver prints
    is the signed sum of what was recorded in the reader's window. -/
theorem signed_exact_solo_reader (n L Iv t0 clock : Nat) (zs : List (List OpZ)) (s : List Entry) (ev tr : Nat)
    (htr : 0 < tr) (hn : 0 < n)
    (hdp : ∀ j, (run (fresh n L Iv t0 clock (zs.map fun p => p.map OpZ.pos)) s).sh.dirty j ev = false)
    (hlp : ∀ j, (run (fresh n L Iv t0 clock (zs.map fun p => p.map OpZ.pos)) s).sh.lost j ev = 0)
    (hdn : ∀ j, (run (fresh n L Iv t0 clock (zs.map fun p => p.map OpZ.neg)) s).sh.dirty j ev = false)
    (hln : ∀ j, (run (fresh n L Iv t0 clock (zs.map fun p => p.map OpZ.neg)) s).sh.lost j ev = 0) :
    let cp := run (fresh n L Iv t0 clock (zs.map fun p => p.map OpZ.pos)) s
    let cn := run (fresh n L Iv t0 clock (zs.map fun p => p.map OpZ.neg)) s
    let V := validFrom cp.sh tr n 0
    let k := 1 + 2 * n + V.length
    ((run (nextRound cp tr [[.viewsum ev]]) (List.replicate k (.step 0))).th[0]?.map fun t => (t.finished, t.res.map (·.val)))
        = some (true, [some ((V.map fun j => cp.sh.fresh j ev).sum)])
    ∧ ((run (nextRound cn tr [[.viewsum ev]]) (List.replicate k (.step 0))).th[0]?.map fun t => (t.finished, t.res.map (·.val)))
        = some (true, [some ((V.map fun j => cn.sh.fresh j ev).sum)]) := by
  intro cp cn V k
  have hsame : eraseSh cp.sh = eraseSh cn.sh := congrArg Cfg.sh (split_runs_same_control n L Iv t0 clock zs s)
  have hV : validFrom cn.sh tr n 0 = V := (validFrom_congr cp.sh cn.sh hsame tr n 0).symm
  refine ⟨exact_solo_reader n L Iv t0 clock _ s ev tr htr hn hdp hlp, ?_⟩
  have := exact_solo_reader n L Iv t0 clock _ s ev tr htr hn hdn hln
  simp only at this
  rw [hV] at this
  exact this

/-! ### the `ℤ`-valued counters: the algebraic core of the decomposition -/

/-- effect of a step's action on `ℤ`-valued counter words: a zeroing stores 0, an add adds the **signed** amount `amt`
    of the stepping thread's operation (the amount carried by the `ℕ`-action is ignored), everything else leaves them alone -/
def applyCntZ (z : Nat → Nat → Int) (a : Act) (amt : Int) : Nat → Nat → Int :=
  match a with
  | .zeroCnt i k => fun x y => if x = i ∧ y = k then 0 else z x y
  | .addCnt i k _ => fun x y => if x = i ∧ y = k then z x y + amt else z x y
  | _ => z

/-- the amount an action adds (0 for the others) -/
def actAmount : Act → Nat
  | .addCnt _ _ a => a
  | _ => 0

/-- **one step of the decomposition**: if the `ℤ`-counters are `positive − negative` before a step, and the two runs
    take the same action up to the amount (`eraseAct` — guaranteed at every step of every schedule by
    `split_runs_same_control` / `decide_erase`), the positive run adding `max a 0` and the negative run `max (−a) 0`, then
    the `ℤ`-counters updated with the signed amount `a` are `positive − negative` after the step.
    (`a.toNat − (−a).toNat = a`.) -/
theorem apply_decomposes (shp shn : Shared) (ap an : Act) (a : Int) (z : Nat → Nat → Int)
    (h : eraseAct ap = eraseAct an)
    (hp : ∀ i k x, ap = .addCnt i k x → x = a.toNat) (hn : ∀ i k x, an = .addCnt i k x → x = (-a).toNat)
    (hz : ∀ i k, z i k = (shp.cnt i k : Int) - (shn.cnt i k : Int)) :
    ∀ i k, applyCntZ z ap a i k = ((shp.apply ap).cnt i k : Int) - ((shn.apply an).cnt i k : Int) := by
  intro i k
  cases ap <;> cases an <;> simp [eraseAct] at h <;> (try obtain ⟨rfl, rfl⟩ := h) <;>
    simp only [applyCntZ, Shared.apply, upd2, hz]
  case zeroCnt.zeroCnt => split_ifs <;> simp
  case addCnt.addCnt i0 k0 xp xn =>
    have h1 := hp i0 k0 xp rfl
    have h2 := hn i0 k0 xn rfl
    subst h1; subst h2
    split_ifs with hc
    · obtain ⟨rfl, rfl⟩ := hc
      push_cast; omega
    · rfl

/-- the reader side of the same step: a summation step adds the loaded word to the running sum, and differences add up -/
theorem load_decomposes (accp accn cp cn : Nat) (accz cz : Int) (h1 : accz = (accp : Int) - accn) (h2 : cz = (cp : Int) - cn) :
    accz + cz = ((accp + cp : Nat) : Int) - ((accn + cn : Nat) : Int) := by
  push_cast; omega

/-!
**What is proved and what is missing for the full decomposition theorem.**  Proved: (1) control-flow independence for every
schedule (`ctl_independent`, `split_runs_same_control`: the positive and the negative run take, at every step, the same action
up to the amount of an add, go to the same program counter, and complete the same operations); (2) the algebraic core
(`apply_decomposes`, `load_decomposes`: one step keeps `ℤ-counter = positive − negative`, `ℤ-sum = positive − negative`);
(3) the safety results transferred to the pair of runs the driver executes (`signed_read_bounds`,
`signed_exact_solo_reader`).  Missing: the *definition of whole configurations* of an independent `ℤ`-machine (threads with
signed programs, their running sums and results) and the induction over `run` that threads (1) and (2) together — pure
bookkeeping of which signed amount belongs to the operation a thread is in (including the operations skipped at clock 0).
-/

end Sentinel.C09
