import Mathlib.Tactic
import Sentinel.Model.LeapArrayRace
/-!
# C09 — Sliding-window counters stay sound under concurrent writers and rollover
-/
namespace Sentinel.C09
open Sentinel.LAR

/-- the configuration of the known finding: array 2×500 created at 1000, 5 passes recorded at 1000;
    thread 0 records 1 pass at 2000 (recycles slot 0), thread 1 reads the 1000 ms view at 2000 -/
def witnessInit : Cfg :=
  let c0 : Cfg := { sh := mkShared 2 500 1000 1000, clock := 1000, th := [mkThread [.add 0 5]] }
  let c1 := run c0 [.step 0, .step 0, .step 0]
  { sh := c1.sh, clock := 2000, th := [mkThread [.add 0 1], mkThread [.viewsum 0]] }

def witnessSched : List Entry :=
  [.step 0, .step 1, .step 0, .step 0, .step 0, .step 1, .step 1, .step 1, .step 1, .step 1, .step 1]

/-- **"data of an expired bucket is never visible" is false** at atomic-access granularity: the reader
    returns 5 for the window of bucket starts [1500, 2000] at a moment when no add with a timestamp in
    that window has been executed (`performed`'s only contribution is the 5 recorded at 1000). -/
theorem expired_never_visible_witness :
    let c := run witnessInit witnessSched
    (c.th[1]?.map fun t => t.res.map fun r => (r.now, r.val)) = some [(2000, some 5)]
      ∧ (c.th[0]?.map fun t => t.res.length) = some 0
      ∧ c.sh.performed 0 = 5 := by decide

end Sentinel.C09
