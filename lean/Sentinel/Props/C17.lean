import Sentinel.Lemmas.MetricLog3
/-!
# C17 — Metric log is searchable, bounded, and survives truncation at any byte
(property-level statements; helper lemmas live in `Sentinel/Lemmas/MetricLog.lean`)

Reading guide.  The model (`Sentinel/Model/MetricLog.lean`, the definitions the driver executes against
`core/log/metric`) works on byte lists: `fat` = `ToFatString`, `parseLine` = `MetricItemFromFatString`,
`serialise` = what `writeItemsAndFlush` appends, `itemsFrom data off` = the items the readers see from
byte `off` on, `Writer.write` / `runWrites` = `Write` over a history, `find` / `findFrom` = the two
searcher calls with the position cache `Cache`, `cutData` / `cutIdx` = truncation (`List.take`).
`retained fs` are the items written to the files still present; `specFind` / `specFrom` is the reference
answer.  `Valid it`: counters in the range of their Go types, resource name without `|`, LF, CR.

Layers (DESIGN.md 6.C17): L0 = `specFind` over `retained` (section 2), L2 = bytes (sections 1, 4),
L1 → L0 = section 5.  Sections 6/7: what the pinned code violates (witnesses) and the full statements.
-/
namespace Sentinel.C17
open Sentinel.MetricLog

/-! ## 1. round trip through `ToFatString` / `MetricItemFromFatString` -/

/-- an accepted item is read back unchanged from its line -/
theorem roundtrip_item (it : Item) (h : Valid it) : parseLine (fat it) = some it :=
  parseLine_fat it h

/-- a whole data file is read back as the list of items written to it -/
theorem roundtrip_file (its : List Item) (h : ∀ it ∈ its, Valid it) : itemsFrom (serialise its) 0 = its :=
  itemsFrom_serialise_zero its h

example : Valid { ts := 1900000001000, res := [97], pass := 1, block := 0, complete := 2 ^ 64 - 1, error := 0, rt := 5,
                  occ := 0, conc := 2 ^ 32 - 1, cls := -2 ^ 31 } := by
  constructor <;> simp [plainB, BAR, LF, CR]

/-! ## 2. L0: the reference answer is complete, in timestamp order, without duplicates -/

theorem specFind_complete (w : List Item) (b e : Nat) (res : Bytes) (it : Item) (hw : it ∈ w)
    (hr : inRange b e it = true) (hm : resMatch res it = true) : it ∈ specFind w b e res := by
  unfold specFind; rw [List.mem_filter]; exact ⟨hw, by simp [hr, hm]⟩

theorem specFind_sound (w : List Item) (b e : Nat) (res : Bytes) (it : Item) (h : it ∈ specFind w b e res) :
    it ∈ w ∧ inRange b e it = true ∧ resMatch res it = true := by
  unfold specFind at h; rw [List.mem_filter] at h; simpa using h

/-- order is the writing order and nothing is returned twice: the answer is a sublist of what was written -/
theorem specFind_sublist (w : List Item) (b e : Nat) (res : Bytes) : (specFind w b e res).Sublist w :=
  List.filter_sublist

theorem specFind_sorted (w : List Item) (b e : Nat) (res : Bytes) (h : w.Pairwise secLe) :
    (specFind w b e res).Pairwise secLe := h.sublist (specFind_sublist w b e res)

theorem specFind_nodup (w : List Item) (b e : Nat) (res : Bytes) (h : w.Nodup) : (specFind w b e res).Nodup :=
  h.sublist (specFind_sublist w b e res)

/-- for every write history (any timestamps, any roll pattern) the retained items are in timestamp
    order, the files' bytes are exactly the serialisation of what was written to them -/
theorem retained_ordered (now maxSize maxFiles : Nat) (hist : List (Nat × List Item)) :
    (retained (runWrites (Writer.new now maxSize maxFiles) hist).files).Pairwise secLe :=
  (ordered_runWrites _ hist (ordered_new now maxSize maxFiles)).2.1

theorem files_are_serialisations (now maxSize maxFiles : Nat) (hist : List (Nat × List Item)) :
    ∀ f ∈ (runWrites (Writer.new now maxSize maxFiles) hist).files,
      f.data = serialise f.lines ∧ f.idx = encodeIdx f.ents :=
  allFilesOK_runWrites _ hist (new_filesOK now maxSize maxFiles)

/-! ## 3. the number of log files never exceeds the configured maximum -/

theorem file_count_le_max (now maxSize maxFiles : Nat) (h : 0 < maxFiles) (hist : List (Nat × List Item)) :
    (runWrites (Writer.new now maxSize maxFiles) hist).files.length ≤ maxFiles := by
  have := fileCount_runWrites (Writer.new now maxSize maxFiles) hist h
    (by simp only [Writer.new, Writer.roll, List.length_nil, List.drop_nil, List.nil_append, List.length_singleton]; omega)
  exact this.1

/-- **with restarts**: for every history of writes and restarts of the writer on the same directory
    (`Writer.reopen`: other limits, any later clock reading, whatever the directory already holds — also
    more files than the new limit), after every event the number of files is at most the limit of the
    writer in force.  (`removeDeprecatedFiles` removes `len - max + 1` files, not one.) -/
theorem file_count_le_max_events (now maxSize maxFiles : Nat) (h : 0 < maxFiles) (evs : List Ev) (hl : LimitsPos evs) :
    (runEvents (Writer.new now maxSize maxFiles) evs).files.length
      ≤ (runEvents (Writer.new now maxSize maxFiles) evs).maxFiles :=
  (fileCount_runEvents (Writer.new now maxSize maxFiles) evs h
    (by simp only [Writer.new, Writer.roll, List.length_nil, List.drop_nil, List.nil_append, List.length_singleton]; omega) hl).1

/-- the case of the seeded change C17-r2-3: six files on disk, restart with limit 2 -/
example : (runEvents (Writer.new 1000 1 6)
      ((List.range 9).map (fun i => Ev.write (2000 + i * 1000) [⟨0, [97], 1, 0, 0, 0, 5, 0, 0, 0⟩]) ++ [Ev.reopen 60000 1 2])).files.length = 2 := by
  decide

/-- **file_names_sorted**: along every accepted history of writes and restarts the names of the retained
    files `(date, roll number)` are *strictly increasing* in the comparator order (date first, then the
    number) in creation order — `nextFileNameOfTime` always picks a name greater than every existing one
    (`nextName_gt`), removal only drops a prefix.  In particular no two files share a name (no file is
    ever re-created / truncated by a roll), which is what the seeded change C17-3 and C17-r3-3 broke. -/
theorem file_names_sorted (now maxSize maxFiles : Nat) (evs : List Ev) (hok : EvsOK (Writer.new now maxSize maxFiles) evs) :
    ((runEvents (Writer.new now maxSize maxFiles) evs).files.map (·.name)).Pairwise nameLt := by
  rw [List.pairwise_map]
  exact (nameInv_runEvents _ evs hok (nameInv_new now maxSize maxFiles)).1

/-- … hence the searcher's listing order (the directory entries sorted with the comparator) **is** the
    creation order, the order in which the model keeps the files and in which `retained_ordered` holds -/
theorem listing_order_is_creation_order (now maxSize maxFiles : Nat) (evs : List Ev)
    (hok : EvsOK (Writer.new now maxSize maxFiles) evs) :
    ((runEvents (Writer.new now maxSize maxFiles) evs).files.map (·.name)).mergeSort nameLeB
      = (runEvents (Writer.new now maxSize maxFiles) evs).files.map (·.name) :=
  List.mergeSort_of_pairwise ((file_names_sorted now maxSize maxFiles evs hok).imp nameLeB_of_lt)

/-! ## 4. L2: a data file cut at an arbitrary byte -/

/-- **prefix lemma**: the lines read from a file cut at byte `k` are the complete lines before the
    cut plus at most one fragment -/
theorem cut_lines (its : List Item) (hv : ∀ it ∈ its, Valid it) (k : Nat) :
    splitLines ((serialise its).take k)
      = (wholeLines its k).map fat ++ (if fragment its k = [] then [] else [fragment its k]) :=
  splitLines_take_serialise its hv k

/-- … and the items read are every item wholly before the cut, then whatever the fragment parses to -/
theorem read_after_cut (its : List Item) (hv : ∀ it ∈ its, Valid it) (k : Nat) :
    itemsFrom ((serialise its).take k) 0 = wholeLines its k ++ tornParse (fragment its k) :=
  itemsFrom_take_serialise its hv k

/-- `all_wholly_before_cut`, for every `k` -/
theorem all_wholly_before_cut (its : List Item) (hv : ∀ it ∈ its, Valid it) (k : Nat) :
    wholeLines its k <+: itemsFrom ((serialise its).take k) 0 := by
  rw [read_after_cut its hv k]; exact List.prefix_append _ _

/-- the fragment yields an item only if it still has 8 fields (and it is a prefix of the line that was
    being written) -/
theorem fragment_parses_only_with_8_fields (its : List Item) (k : Nat) (x : Item)
    (h : parseLine ((fragment its k)) = some x) :
    8 ≤ (splitBar (fragment its k)).length ∧
      ∃ it ∈ its, tornItem its k = some it ∧ fragment its k <+: fat it := by
  refine ⟨parseLine_some_fields _ _ h, ?_⟩
  rcases fragment_prefix its k with h0 | h1
  · rw [h0] at h; simp [parseLine] at h
  · exact h1

/-- `only_written`, **partial**: for a cut on a line boundary exactly the items wholly before the cut
    are read, all of them written (for other cuts see `torn_line_witness`) -/
theorem only_written_partial (its : List Item) (hv : ∀ it ∈ its, Valid it) (k : Nat) (hk : fragment its k = []) :
    itemsFrom ((serialise its).take k) 0 = wholeLines its k ∧ wholeLines its k <+: its := by
  refine ⟨?_, wholeLines_prefix its k⟩
  rw [read_after_cut its hv k, hk]; simp [tornParse_nil]

/-- no cut at all (`k` beyond the end): everything is read back -/
theorem no_cut (its : List Item) (hv : ∀ it ∈ its, Valid it) (k : Nat) (hk : (serialise its).length ≤ k) :
    itemsFrom ((serialise its).take k) 0 = its := by
  rw [read_after_cut its hv k, fragment_eq_nil_of_ge its k hk, wholeLines_of_ge its k hk]; simp [tornParse_nil]

example : fragment [({ ts := 1000, res := [97], pass := 1, block := 0, complete := 0, error := 0, rt := 0, occ := 0, conc := 0, cls := 0 } : Item)] 45 = [] := by
  decide

/-- the full-buffer rule of `readLine`: a torn last line whose length is a positive multiple of the
    8192-byte reader buffer is not delivered at all (the reassembly loop meets EOF right after a full chunk
    and returns the error instead of the line) — then exactly the items wholly before the cut are read,
    even if the fragment lacks nothing but its LF -/
theorem full_buffer_tail_dropped (its : List Item) (hv : ∀ it ∈ its, Valid it) (k : Nat)
    (hb : (fragment its k).length % bufSize = 0) :
    itemsFrom ((serialise its).take k) 0 = wholeLines its k := by
  rw [read_after_cut its hv k]; simp [tornParse, tailLine, hb]

/-- whatever the torn line contributes was parsed from the fragment -/
theorem torn_item_from_fragment (its : List Item) (k : Nat) (x : Item) (h : x ∈ tornParse (fragment its k)) :
    parseLine (fragment its k) = some x := tornParse_mem _ x h

/-! ## 5. L1 → L0: the search of a fresh searcher -/

/-- **search_complete_sorted_nodup, partial** (fresh searcher; intact files; index correct for `begin`):
    `FindByTimeAndResource` returns exactly the reference answer — every retained item in range with the
    resource, in writing order, once — whatever the number of files and rolls. -/
theorem find_fresh_partial (fs : Dir) (b e : Nat) (res : Bytes)
    (hf : ∀ f ∈ fs, FileOK f ∧ entsBounded f.ents ∧ ∀ it ∈ f.lines, Valid it)
    (hs : (retained fs).Pairwise secLe) (hidx : IndexCorrect (b / 1000) fs) :
    (find fs {} b e res).2 = specFind (retained fs) b e res := by
  have h0 : offsetStartAndFile fs {} b = (0, 0) := by simp [offsetStartAndFile, cacheOk]
  unfold find search
  rw [h0]
  simp only [List.drop_zero]
  rw [searchLoop_intact _ _ _ (fun f hfm => ⟨(hf f hfm).1, (hf f hfm).2.1⟩)]
  unfold IndexCorrect at hidx
  cases hh : firstHit (b / 1000) fs with
  | none =>
    rw [hh] at hidx
    simp only
    unfold specFind
    rw [filter_nil_of_lt _ _ _ _ hidx]
  | some p =>
    obtain ⟨d, off⟩ := p
    rw [hh] at hidx
    simp only at hidx ⊢
    obtain ⟨pre, f, rest, e1, e2⟩ := firstHit_suffix _ _ _ _ hh
    obtain ⟨hpre, j, hoff, htake, hdrop⟩ := hidx pre f rest e1 e2
    have hff := hf f (by rw [e1]; simp)
    have hrest : ∀ g ∈ rest, FileOK g ∧ ∀ it ∈ g.lines, Valid it := fun g hg =>
      ⟨(hf g (by rw [e1]; simp [hg])).1, (hf g (by rw [e1]; simp [hg])).2.2⟩
    have hret : retained fs = retained pre ++ (f.lines.take j ++ (f.lines.drop j ++ retained rest)) := by
      rw [e1]; simp only [retained, List.flatMap_append, List.flatMap_cons]
      rw [← List.append_assoc (f.lines.take j), List.take_append_drop]
    rw [e2, readByEnd_eq, hff.1.1, hoff, itemsFrom_serialise_at _ hff.2.2, flatMap_itemsFrom rest hrest]
    have hsub : (f.lines.drop j ++ retained rest).Pairwise secLe := by
      rw [hret] at hs
      exact (List.pairwise_append.1 (List.pairwise_append.1 hs).2.1).2.1
    rw [scanEnd_sorted _ _ _ _ hsub hdrop]
    unfold specFind
    rw [hret, List.filter_append (retained pre), List.filter_append (f.lines.take j),
      filter_nil_of_lt _ _ _ _ hpre, filter_nil_of_lt _ _ _ _ htake]
    simp only [List.nil_append]
    apply List.filter_congr
    intro it hit
    have := hdrop it hit
    simp [inRange, this]

/-- every retained item not before `begin` belongs to a second that has an index entry in a retained
    file.  This excludes exactly the regions of `metriclog-first-second` (items of the creation second)
    and `metriclog-orphan-head` (a second continued after a roll whose index entry went with a removed
    file): a second gets its entry when the writer first sees it (`inv_addIndex`). -/
def Covered (fs : Dir) (b : Nat) : Prop :=
  ∀ x ∈ retained fs, b / 1000 ≤ x.ts / 1000 → ∃ e ∈ allEnts fs, e.1 = x.ts / 1000

/-- the common core: a writer state satisfying the invariant bundle `Inv` (Lemmas) -/
theorem search_of_inv (w : Writer) (hinv : Inv w w.latestOpSec) (hlines : LinesValid w) (hlat : w.latestOpSec < 2 ^ 64)
    (b e : Nat) (res : Bytes) (hsize : ∀ f ∈ w.files, f.data.length < 2 ^ 64) (hcov : Covered w.files b) :
    (find w.files {} b e res).2 = specFind (retained w.files) b e res := by
  refine find_fresh_partial _ b e res ?_ hinv.ord.2.1 (indexCorrect_of_inv _ hinv.ents hinv.sorted _ hcov)
  intro f hf
  refine ⟨hinv.ok f hf, ?_, hlines f hf⟩
  intro en hen
  obtain ⟨pre, rest, hsplit⟩ := List.append_of_mem hf
  have hen' : en ∈ allEnts w.files := by
    rw [hsplit, allEnts_append, allEnts_cons]; simp [hen]
  refine ⟨lt_of_le_of_lt (hinv.bound en hen') hlat, ?_⟩
  obtain ⟨j, _, hoff, _, _⟩ := EntsOK_split [] pre f rest (hsplit ▸ hinv.ents) en hen
  have h1 := serialise_take_length_le f.lines j
  have h2 := hsize f hf
  rw [(hinv.ok f hf).1] at h2
  omega

theorem new_linesValid (now a b : Nat) : LinesValid (Writer.new now a b) := by
  intro f hf
  simp only [Writer.new, Writer.roll, List.length_nil, List.drop_nil, List.nil_append, List.mem_singleton] at hf
  subst hf; simp

/-- **search_complete_sorted_nodup, partial, end to end**: for every creation time, every size / count
    limit, every accepted write history (any number of size rolls, day rolls and removals) a *fresh*
    searcher's `FindByTimeAndResource` returns exactly the retained items in range with the resource,
    in writing (= timestamp) order, each once — provided the query does not reach into the unindexed
    head of the log (`Covered`).  (`hsize`: offsets fit the 8-byte index field.) -/
theorem search_complete_partial (now maxSize maxFiles : Nat) (hnow : now / 1000 < 2 ^ 64)
    (hist : List (Nat × List Item)) (hv : HistValid hist) (b e : Nat) (res : Bytes)
    (hsize : ∀ f ∈ (runWrites (Writer.new now maxSize maxFiles) hist).files, f.data.length < 2 ^ 64)
    (hcov : Covered (runWrites (Writer.new now maxSize maxFiles) hist).files b) :
    (find (runWrites (Writer.new now maxSize maxFiles) hist).files {} b e res).2
      = specFind (retained (runWrites (Writer.new now maxSize maxFiles) hist).files) b e res := by
  have hinv := inv_runWrites _ hist (inv_new now maxSize maxFiles)
  have hside := runWrites_side (Writer.new now maxSize maxFiles) hist hv (new_linesValid now maxSize maxFiles)
    (by simpa [Writer.new] using hnow)
  exact search_of_inv _ hinv hside.1 hside.2 b e res hsize hcov

/-- **… with restarts**: the same for every accepted history of writes *and restarts of the writer* on the
    same directory (`EvsOK`: valid `Write` arguments; a restart's clock reading is not before the last
    second written).  The items of a restarted writer's creation second have no index entry either, so
    `Covered` excludes them exactly like those of the first writer. -/
theorem search_complete_partial_events (now maxSize maxFiles : Nat) (hnow : now / 1000 < 2 ^ 64)
    (evs : List Ev) (hok : EvsOK (Writer.new now maxSize maxFiles) evs) (b e : Nat) (res : Bytes)
    (hsize : ∀ f ∈ (runEvents (Writer.new now maxSize maxFiles) evs).files, f.data.length < 2 ^ 64)
    (hcov : Covered (runEvents (Writer.new now maxSize maxFiles) evs).files b) :
    (find (runEvents (Writer.new now maxSize maxFiles) evs).files {} b e res).2
      = specFind (retained (runEvents (Writer.new now maxSize maxFiles) evs).files) b e res := by
  have h := runEvents_inv (Writer.new now maxSize maxFiles) evs hok (inv_new now maxSize maxFiles)
    (new_linesValid now maxSize maxFiles) (by simpa [Writer.new] using hnow)
  exact search_of_inv _ h.1 h.2.1 h.2.2 b e res hsize hcov

/-- the hypothesis `Covered` is satisfiable with a non-empty answer (second 2 of `dirFirst` below) -/
example : Covered
    (runWrites (Writer.new 1000 100000 4) [(1000, [⟨0, [97], 1, 0, 0, 0, 5, 0, 0, 0⟩]), (2000, [⟨0, [97], 2, 0, 0, 0, 5, 0, 0, 0⟩])]).files
    2000 := by
  unfold Covered
  decide

/-! ### `FindFromTimeWithMaxLines`

The limit counts **lines**: the reader takes lines from the first one not before `begin`; once `maxLines` lines
have been taken it goes on only while the second stays the same (so the second in which the limit is
reached is completed) — except that at the end of a file it stops as soon as the limit is reached, even if
that second continues in the next file.  `specFrom` is this rule over the per-file item lists. -/

/-- L0: the reference answer is a prefix of the retained items not before `begin` — only written items,
    in timestamp order, each once, none skipped — and it is all of them or at least `maxLines` of them -/
theorem specFrom_sound_complete (files : List (List Item)) (b m : Nat) (hs : files.flatten.Pairwise secLe) :
    specFrom files b m <+: (files.flatten.filter fun it => decide (b / 1000 ≤ it.ts / 1000)) ∧
    (specFrom files b m = (files.flatten.filter fun it => decide (b / 1000 ≤ it.ts / 1000)) ∨
      m ≤ (specFrom files b m).length) :=
  specFrom_prefix_complete files b m hs

/-- L0: … and it does not run on: every line beyond the first `maxLines` has the same second as the line
    before it (`LimitRule`: line number `i ≥ maxLines` ⇒ second of line `i` = second of line `i - 1`), i.e.
    after the limit only the second in which it was reached is completed -/
theorem specFrom_limit_rule (files : List (List Item)) (b m : Nat) : LimitRule m 0 0 (specFrom files b m) :=
  readFromItems_rule m _

example : LimitRule 1 0 0 [⟨1000, [97], 1, 0, 0, 0, 5, 0, 0, 0⟩, ⟨1500, [98], 1, 0, 0, 0, 5, 0, 0, 0⟩] := by
  simp [LimitRule]

theorem flatten_map_lines (fs : Dir) : (fs.map (·.lines)).flatten = retained fs := by
  simp [retained, List.flatMap]

/-- the common core of the two theorems below -/
theorem from_time_of_inv (w : Writer) (hinv : Inv w w.latestOpSec) (hlines : LinesValid w) (hlat : w.latestOpSec < 2 ^ 64)
    (b m : Nat) (hq : 0 < m ∨ 0 < b / 1000) (hsize : ∀ f ∈ w.files, f.data.length < 2 ^ 64) (hcov : Covered w.files b) :
    (findFrom w.files {} b m).2 = specFrom (w.files.map (·.lines)) b m := by
  refine findFrom_fresh_partial _ b m ?_ (indexCorrect_of_inv _ hinv.ents hinv.sorted _ hcov) hq
  intro f hf
  refine ⟨hinv.ok f hf, ?_, hlines f hf⟩
  intro en hen
  obtain ⟨pre, rest, hsplit⟩ := List.append_of_mem hf
  have hen' : en ∈ allEnts w.files := by
    rw [hsplit, allEnts_append, allEnts_cons]; simp [hen]
  refine ⟨lt_of_le_of_lt (hinv.bound en hen') hlat, ?_⟩
  obtain ⟨j, _, hoff, _, _⟩ := EntsOK_split [] pre f rest (hsplit ▸ hinv.ents) en hen
  have h1 := serialise_take_length_le f.lines j
  have h2 := hsize f hf
  rw [(hinv.ok f hf).1] at h2
  omega

/-- **from_time_complete_partial_events**: for every accepted history of writes and restarts, under
    `Covered`, a fresh searcher's `FindFromTimeWithMaxLines begin maxLines` returns exactly `specFrom` of the
    retained files; hence (`specFrom_sound_complete`, `retained_ordered`) a prefix of the retained items not
    before `begin`, complete or at least `maxLines` long.  `hq` excludes only "limit 0 with `begin` in
    second 0" (the reader's initial `lastSec = 0`). -/
theorem from_time_complete_partial_events (now maxSize maxFiles : Nat) (hnow : now / 1000 < 2 ^ 64)
    (evs : List Ev) (hok : EvsOK (Writer.new now maxSize maxFiles) evs) (b m : Nat) (hq : 0 < m ∨ 0 < b / 1000)
    (hsize : ∀ f ∈ (runEvents (Writer.new now maxSize maxFiles) evs).files, f.data.length < 2 ^ 64)
    (hcov : Covered (runEvents (Writer.new now maxSize maxFiles) evs).files b) :
    (findFrom (runEvents (Writer.new now maxSize maxFiles) evs).files {} b m).2
        = specFrom ((runEvents (Writer.new now maxSize maxFiles) evs).files.map (·.lines)) b m ∧
    (findFrom (runEvents (Writer.new now maxSize maxFiles) evs).files {} b m).2
        <+: ((retained (runEvents (Writer.new now maxSize maxFiles) evs).files).filter
              fun it => decide (b / 1000 ≤ it.ts / 1000)) ∧
    ((findFrom (runEvents (Writer.new now maxSize maxFiles) evs).files {} b m).2
        = ((retained (runEvents (Writer.new now maxSize maxFiles) evs).files).filter
              fun it => decide (b / 1000 ≤ it.ts / 1000)) ∨
      m ≤ (findFrom (runEvents (Writer.new now maxSize maxFiles) evs).files {} b m).2.length) := by
  have h := runEvents_inv (Writer.new now maxSize maxFiles) evs hok (inv_new now maxSize maxFiles)
    (new_linesValid now maxSize maxFiles) (by simpa [Writer.new] using hnow)
  have e := from_time_of_inv _ h.1 h.2.1 h.2.2 b m hq hsize hcov
  have hs : ((runEvents (Writer.new now maxSize maxFiles) evs).files.map (·.lines)).flatten.Pairwise secLe := by
    rw [flatten_map_lines]; exact h.1.ord.2.1
  have l0 := specFrom_sound_complete _ b m hs
  rw [flatten_map_lines] at l0
  rw [e]
  exact ⟨rfl, l0.1, l0.2⟩

/-! ## 6. `search_total`: searching never fails, whatever the bytes are -/

/-- `find` / `findFrom` are total functions of arbitrary directory contents (any bytes in the data and
    index files, so in particular after `cutData fs k` / `cutIdx fs k` for every `k`) and of any cache
    state: there is no error result and no partiality in the model (`Found.error` of one index file
    only makes the loop go on with the next file). -/
theorem search_total (fs : Dir) (c : Cache) (b e m : Nat) (res : Bytes) (kd ki : Nat) :
    (∃ c' xs, find (cutIdx (cutData fs kd) ki) c b e res = (c', xs)) ∧
    (∃ c' xs, findFrom (cutIdx (cutData fs kd) ki) c b m = (c', xs)) :=
  ⟨⟨_, _, rfl⟩, ⟨_, _, rfl⟩⟩

/-- … and whatever the cache state, the cut offsets and the bytes are, every item `FindByTimeAndResource`
    returns was parsed from a line (or, by `read_after_cut`, the one fragment) of a retained data file:
    nothing is invented by the search itself -/
theorem search_after_cut_only_file_items (fs : Dir) (c : Cache) (b e : Nat) (res : Bytes) (kd ki : Nat) :
    ∀ x ∈ (find (cutIdx (cutData fs kd) ki) c b e res).2, FromFiles (cutIdx (cutData fs kd) ki) x :=
  find_fromFiles _ c b e res

/-! ### search level, after a crash (fresh searcher, `Covered`) -/

/-- the side conditions of the search lemmas for a writer state satisfying `Inv` -/
theorem files_wf_of_inv (w : Writer) (hinv : Inv w w.latestOpSec) (hlines : LinesValid w) (hlat : w.latestOpSec < 2 ^ 64)
    (hsize : ∀ f ∈ w.files, f.data.length < 2 ^ 64) :
    ∀ f ∈ w.files, FileOK f ∧ entsBounded f.ents ∧ ∀ it ∈ f.lines, Valid it := by
  intro f hf
  refine ⟨hinv.ok f hf, ?_, hlines f hf⟩
  intro en hen
  obtain ⟨pre, rest, hsplit⟩ := List.append_of_mem hf
  have hen' : en ∈ allEnts w.files := by
    rw [hsplit, allEnts_append, allEnts_cons]; simp [hen]
  refine ⟨lt_of_le_of_lt (hinv.bound en hen') hlat, ?_⟩
  obtain ⟨j, _, hoff, _, _⟩ := EntsOK_split [] pre f rest (hsplit ▸ hinv.ents) en hen
  have h1 := serialise_take_length_le f.lines j
  have h2 := hsize f hf
  rw [(hinv.ok f hf).1] at h2
  omega

/-- **search_after_cut_complete_partial, data file**: for every accepted history of writes and restarts,
    with `init ++ [cur]` the retained files (`cur` = the file being written), after cutting `cur`'s data at
    **any** byte `k` (index intact), under `Covered`, a fresh searcher's `find begin end res` returns the
    reference answer over *the items of the earlier files and the lines of `cur` wholly before the cut*,
    followed by at most one extra item, which can only be what the torn fragment parses to (the region of
    `metriclog-torn-line`).  Hence: (b) every matching item whose line lies wholly before the cut is
    returned, in order, once; (a) everything returned except possibly that one item was written. -/
theorem search_after_data_cut_partial (now maxSize maxFiles : Nat) (hnow : now / 1000 < 2 ^ 64)
    (evs : List Ev) (hok : EvsOK (Writer.new now maxSize maxFiles) evs) (init : Dir) (cur : File)
    (hfiles : (runEvents (Writer.new now maxSize maxFiles) evs).files = init ++ [cur])
    (k b e : Nat) (res : Bytes)
    (hsize : ∀ f ∈ (runEvents (Writer.new now maxSize maxFiles) evs).files, f.data.length < 2 ^ 64)
    (hcov : Covered (runEvents (Writer.new now maxSize maxFiles) evs).files b) :
    ∃ extra, (find (cutData (init ++ [cur]) k) {} b e res).2
        = specFind (retained init ++ wholeLines cur.lines k) b e res ++ extra ∧
      (∀ x ∈ extra, x ∈ tornParse (fragment cur.lines k)) ∧
      (fragment cur.lines k = [] → extra = []) ∧
      (∀ x ∈ specFind (retained init ++ wholeLines cur.lines k) b e res, x ∈ retained (init ++ [cur])) := by
  have h := runEvents_inv (Writer.new now maxSize maxFiles) evs hok (inv_new now maxSize maxFiles)
    (new_linesValid now maxSize maxFiles) (by simpa [Writer.new] using hnow)
  have hwf := files_wf_of_inv _ h.1 h.2.1 h.2.2 hsize
  have hidx := indexCorrect_of_inv _ h.1.ents h.1.sorted _ hcov
  have hs := h.1.ord.2.1
  rw [hfiles] at hwf hidx hs
  obtain ⟨extra, h1, h2⟩ := find_after_data_cut init cur k b e res hwf hs hidx
  refine ⟨extra, h1, h2, ?_, ?_⟩
  · intro hfr
    cases hx : extra with
    | nil => rfl
    | cons x r =>
      have := h2 x (by rw [hx]; simp)
      rw [hfr] at this
      simp [tornParse_nil] at this
  · intro x hx
    have := (specFind_sound _ _ _ _ _ hx).1
    rw [retained_append]
    rcases List.mem_append.1 this with hm | hm
    · exact List.mem_append_left _ hm
    · exact List.mem_append_right _ (by simpa [retained] using (wholeLines_prefix cur.lines k).subset hm)

/-- **search_after_cut_complete_partial, index file**: … after cutting `cur`'s index at **any** byte `k`
    (data intact), under `Covered`: if an index entry whose second is not before `begin` lies wholly
    before the cut (in an earlier file, or among the first `k / 16` entries of `cur`), the answer is the
    full reference answer; otherwise it is empty — never an error.  So (a) only written items are
    returned, and (b) every matching item whose own index entry lies wholly before the cut is returned. -/
theorem search_after_idx_cut_partial (now maxSize maxFiles : Nat) (hnow : now / 1000 < 2 ^ 64)
    (evs : List Ev) (hok : EvsOK (Writer.new now maxSize maxFiles) evs) (init : Dir) (cur : File)
    (hfiles : (runEvents (Writer.new now maxSize maxFiles) evs).files = init ++ [cur])
    (k b e : Nat) (res : Bytes)
    (hsize : ∀ f ∈ (runEvents (Writer.new now maxSize maxFiles) evs).files, f.data.length < 2 ^ 64)
    (hcov : Covered (runEvents (Writer.new now maxSize maxFiles) evs).files b) :
    (find (cutIdx (init ++ [cur]) k) {} b e res).2
        = (if (allEnts init ++ cur.ents.take (k / 16)).any (fun en => decide (en.1 ≥ b / 1000))
           then specFind (retained (init ++ [cur])) b e res else []) ∧
    (∀ x ∈ specFind (retained (init ++ [cur])) b e res,
        (∃ en ∈ allEnts init ++ cur.ents.take (k / 16), en.1 = x.ts / 1000) →
        x ∈ (find (cutIdx (init ++ [cur]) k) {} b e res).2) := by
  have h := runEvents_inv (Writer.new now maxSize maxFiles) evs hok (inv_new now maxSize maxFiles)
    (new_linesValid now maxSize maxFiles) (by simpa [Writer.new] using hnow)
  have hwf := files_wf_of_inv _ h.1 h.2.1 h.2.2 hsize
  have huncut := search_of_inv _ h.1 h.2.1 h.2.2 b e res hsize hcov
  rw [hfiles] at hwf huncut
  have hcut := find_after_idx_cut init cur k b e res (fun f hf => ⟨(hwf f hf).1.2, (hwf f hf).2.1⟩)
  rw [huncut] at hcut
  refine ⟨hcut, ?_⟩
  intro x hx ⟨en, hen, hes⟩
  have hany : (allEnts init ++ cur.ents.take (k / 16)).any (fun en => decide (en.1 ≥ b / 1000)) = true := by
    rw [List.any_eq_true]
    refine ⟨en, hen, ?_⟩
    have := (specFind_sound _ _ _ _ _ hx).2.1
    simp only [inRange, Bool.and_eq_true, decide_eq_true_eq] at this
    simp only [decide_eq_true_eq]
    omega
  rw [hcut, if_pos hany]
  exact hx

/-! ## 6b. for every history the writer model produces, with only the regions of the findings excluded

The hypotheses `Covered` and "fresh searcher" of the theorems above are discharged for the directories
produced by `log.new` + any sequence of `log.write` / restarts:

* `cacheOk fs c begin = false` — the query is outside `metriclog-cache-skip` (the driver's region is exactly
  `cacheOk = true`): then any searcher state behaves like a fresh one (`find_cache_miss_eq_fresh`, for arbitrary bytes);
* `∃ en ∈ allEnts fs, en.1 ≤ begin/1000` and `∀ c ∈ reopenSecs evs, c < begin/1000` — `begin` is not before the first
  retained index entry and after the creation seconds of restarted writers: the query is outside
  `metriclog-first-second` / `metriclog-orphan-head` (`covered_outside_regions`; `unindexed_only_in_head` says that
  for one writer the items without an index entry are exactly the head of the log in front of the first
  retained entry — the creation second, or a second whose entry went with a removed file);
* the torn-line region stays what it is in `search_after_data_cut_*` (the one `extra` item).

What remains a hypothesis: `hsize` (every data file shorter than 2^64 bytes, so that offsets fit the index
field; not derivable, the model's files are unbounded), `hnow` / `HistValid` / `EvsOK` (arguments in the range
of their Go types, legal resource names — any bytes but `|`, LF, CR, so all the awkward names —, restarts
not before the last second written). -/

theorem find_cache_miss_eq_fresh (fs : Dir) (c : Cache) (b e : Nat) (res : Bytes) (h : cacheOk fs c b = false) :
    (find fs c b e res).2 = (find fs {} b e res).2 :=
  search_cache_miss _ fs c b h

theorem findFrom_cache_miss_eq_fresh (fs : Dir) (c : Cache) (b m : Nat) (h : cacheOk fs c b = false) :
    (findFrom fs c b m).2 = (findFrom fs {} b m).2 :=
  search_cache_miss _ fs c b h

/-- the invariant behind the next theorems, for every history -/
theorem head_of_history (now maxSize maxFiles : Nat) (evs : List Ev) (hok : EvsOK (Writer.new now maxSize maxFiles) evs) :
    Head (runEvents (Writer.new now maxSize maxFiles) evs) (runEvents (Writer.new now maxSize maxFiles) evs).latestOpSec
      (reopenSecs evs) := by
  have := head_runEvents (Writer.new now maxSize maxFiles) evs [] hok (inv_new now maxSize maxFiles) (head_new now maxSize maxFiles)
  simpa using this

/-- **outside the first-second / orphan-head regions the index covers the query** -/
theorem covered_outside_regions (now maxSize maxFiles : Nat) (evs : List Ev)
    (hok : EvsOK (Writer.new now maxSize maxFiles) evs) (b : Nat)
    (hfirst : ∃ en ∈ allEnts (runEvents (Writer.new now maxSize maxFiles) evs).files, en.1 ≤ b / 1000)
    (hre : ∀ c ∈ reopenSecs evs, c < b / 1000) :
    Covered (runEvents (Writer.new now maxSize maxFiles) evs).files b :=
  covered_of_head (head_of_history now maxSize maxFiles evs hok) b hfirst hre

/-- one writer: a retained item whose second has no index entry lies in front of every retained index
    entry (all such items form the unindexed head of the log) -/
theorem unindexed_only_in_head (now maxSize maxFiles : Nat) (hist : List (Nat × List Item)) (hv : HistValid hist) :
    ∀ x ∈ retained (runWrites (Writer.new now maxSize maxFiles) hist).files,
      (∃ e ∈ allEnts (runWrites (Writer.new now maxSize maxFiles) hist).files, e.1 = x.ts / 1000) ∨
      (∀ e ∈ allEnts (runWrites (Writer.new now maxSize maxFiles) hist).files, x.ts / 1000 < e.1) := by
  intro x hx
  rw [runWrites_eq_runEvents] at hx ⊢
  have h := head_of_history now maxSize maxFiles _ (evsOK_of_histValid _ hist hv)
  rw [reopenSecs_writes] at h
  rcases h.head x hx with h1 | h2 | h3
  · exact Or.inl h1
  · exact Or.inr h2
  · simp at h3

/-- **search_complete, for every history of writes and restarts, any searcher state, only the finding
    regions excluded** -/
theorem search_complete_for_every_history (now maxSize maxFiles : Nat) (hnow : now / 1000 < 2 ^ 64)
    (evs : List Ev) (hok : EvsOK (Writer.new now maxSize maxFiles) evs) (c : Cache) (b e : Nat) (res : Bytes)
    (hsize : ∀ f ∈ (runEvents (Writer.new now maxSize maxFiles) evs).files, f.data.length < 2 ^ 64)
    (hcache : cacheOk (runEvents (Writer.new now maxSize maxFiles) evs).files c b = false)
    (hfirst : ∃ en ∈ allEnts (runEvents (Writer.new now maxSize maxFiles) evs).files, en.1 ≤ b / 1000)
    (hre : ∀ s ∈ reopenSecs evs, s < b / 1000) :
    (find (runEvents (Writer.new now maxSize maxFiles) evs).files c b e res).2
      = specFind (retained (runEvents (Writer.new now maxSize maxFiles) evs).files) b e res := by
  rw [find_cache_miss_eq_fresh _ c b e res hcache]
  exact search_complete_partial_events now maxSize maxFiles hnow evs hok b e res hsize
    (covered_outside_regions now maxSize maxFiles evs hok b hfirst hre)

/-- **… for every write history of one writer** (`log.new` + any sequence of `log.write`: any sizes, rolls,
    removals): the answer is exactly the retained items in range with the resource, in timestamp order,
    each once, whenever the cached position is not used and `begin` is not before the first retained
    index entry -/
theorem search_complete_for_every_write_history (now maxSize maxFiles : Nat) (hnow : now / 1000 < 2 ^ 64)
    (hist : List (Nat × List Item)) (hv : HistValid hist) (c : Cache) (b e : Nat) (res : Bytes)
    (hsize : ∀ f ∈ (runWrites (Writer.new now maxSize maxFiles) hist).files, f.data.length < 2 ^ 64)
    (hcache : cacheOk (runWrites (Writer.new now maxSize maxFiles) hist).files c b = false)
    (hfirst : ∃ en ∈ allEnts (runWrites (Writer.new now maxSize maxFiles) hist).files, en.1 ≤ b / 1000) :
    (find (runWrites (Writer.new now maxSize maxFiles) hist).files c b e res).2
      = specFind (retained (runWrites (Writer.new now maxSize maxFiles) hist).files) b e res := by
  rw [runWrites_eq_runEvents] at hsize hcache hfirst ⊢
  exact search_complete_for_every_history now maxSize maxFiles hnow _ (evsOK_of_histValid _ hist hv) c b e res
    hsize hcache hfirst (by rw [reopenSecs_writes]; simp)

/-- **from_time, for every history, any searcher state, only the finding regions excluded** -/
theorem from_time_complete_for_every_history (now maxSize maxFiles : Nat) (hnow : now / 1000 < 2 ^ 64)
    (evs : List Ev) (hok : EvsOK (Writer.new now maxSize maxFiles) evs) (c : Cache) (b m : Nat) (hq : 0 < m ∨ 0 < b / 1000)
    (hsize : ∀ f ∈ (runEvents (Writer.new now maxSize maxFiles) evs).files, f.data.length < 2 ^ 64)
    (hcache : cacheOk (runEvents (Writer.new now maxSize maxFiles) evs).files c b = false)
    (hfirst : ∃ en ∈ allEnts (runEvents (Writer.new now maxSize maxFiles) evs).files, en.1 ≤ b / 1000)
    (hre : ∀ s ∈ reopenSecs evs, s < b / 1000) :
    (findFrom (runEvents (Writer.new now maxSize maxFiles) evs).files c b m).2
      = specFrom ((runEvents (Writer.new now maxSize maxFiles) evs).files.map (·.lines)) b m := by
  rw [findFrom_cache_miss_eq_fresh _ c b m hcache]
  exact (from_time_complete_partial_events now maxSize maxFiles hnow evs hok b m hq hsize
    (covered_outside_regions now maxSize maxFiles evs hok b hfirst hre)).1

/-- **after a crash, for every history**: data file cut at any byte `k` (the full-buffer rule and the torn
    line are inside `tornParse`), any searcher state whose cached position is not used on the cut directory -/
theorem search_after_data_cut_for_every_history (now maxSize maxFiles : Nat) (hnow : now / 1000 < 2 ^ 64)
    (evs : List Ev) (hok : EvsOK (Writer.new now maxSize maxFiles) evs) (init : Dir) (cur : File)
    (hfiles : (runEvents (Writer.new now maxSize maxFiles) evs).files = init ++ [cur])
    (k : Nat) (c : Cache) (b e : Nat) (res : Bytes)
    (hsize : ∀ f ∈ (runEvents (Writer.new now maxSize maxFiles) evs).files, f.data.length < 2 ^ 64)
    (hcache : cacheOk (cutData (init ++ [cur]) k) c b = false)
    (hfirst : ∃ en ∈ allEnts (runEvents (Writer.new now maxSize maxFiles) evs).files, en.1 ≤ b / 1000)
    (hre : ∀ s ∈ reopenSecs evs, s < b / 1000) :
    ∃ extra, (find (cutData (init ++ [cur]) k) c b e res).2
        = specFind (retained init ++ wholeLines cur.lines k) b e res ++ extra ∧
      (∀ x ∈ extra, x ∈ tornParse (fragment cur.lines k)) ∧ (fragment cur.lines k = [] → extra = []) := by
  obtain ⟨extra, h1, h2, h3, _⟩ := search_after_data_cut_partial now maxSize maxFiles hnow evs hok init cur hfiles k b e res hsize
    (covered_outside_regions now maxSize maxFiles evs hok b hfirst hre)
  exact ⟨extra, by rw [find_cache_miss_eq_fresh _ c b e res hcache]; exact h1, h2, h3⟩

/-- … and the index file cut at any byte `k` -/
theorem search_after_idx_cut_for_every_history (now maxSize maxFiles : Nat) (hnow : now / 1000 < 2 ^ 64)
    (evs : List Ev) (hok : EvsOK (Writer.new now maxSize maxFiles) evs) (init : Dir) (cur : File)
    (hfiles : (runEvents (Writer.new now maxSize maxFiles) evs).files = init ++ [cur])
    (k : Nat) (c : Cache) (b e : Nat) (res : Bytes)
    (hsize : ∀ f ∈ (runEvents (Writer.new now maxSize maxFiles) evs).files, f.data.length < 2 ^ 64)
    (hcache : cacheOk (cutIdx (init ++ [cur]) k) c b = false)
    (hfirst : ∃ en ∈ allEnts (runEvents (Writer.new now maxSize maxFiles) evs).files, en.1 ≤ b / 1000)
    (hre : ∀ s ∈ reopenSecs evs, s < b / 1000) :
    (find (cutIdx (init ++ [cur]) k) c b e res).2
      = (if (allEnts init ++ cur.ents.take (k / 16)).any (fun en => decide (en.1 ≥ b / 1000))
         then specFind (retained (init ++ [cur])) b e res else []) := by
  rw [find_cache_miss_eq_fresh _ c b e res hcache]
  exact (search_after_idx_cut_partial now maxSize maxFiles hnow evs hok init cur hfiles k b e res hsize
    (covered_outside_regions now maxSize maxFiles evs hok b hfirst hre)).1

/-! ## 7. what the pinned code violates (known findings, `known/C17.jsonl`) -/

def mk (res : Nat) (pass rt : Nat) : Item :=
  { ts := 0, res := [res], pass := pass, block := 0, complete := 0, error := 0, rt := rt, occ := 0, conc := 0, cls := 0 }

/-- writer created in second 1, one item in second 1 and one in second 2 -/
def dirFirst : Dir := (runWrites (Writer.new 1000 100000 4) [(1000, [mk 97 1 5]), (2000, [mk 97 2 5])]).files

/-- `metriclog-first-second`: the item of the creation second is retained but not found -/
theorem first_second_witness :
    specFind (retained dirFirst) 1000 9000 [] = [{ mk 97 1 5 with ts := 1000 }, { mk 97 2 5 with ts := 2000 }] ∧
    (find dirFirst {} 1000 9000 []).2 = [{ mk 97 2 5 with ts := 2000 }] := by
  decide

/-- limit 40 bytes: every write rolls; seconds 2, 3, 4 end up in three files -/
def dirCache : Dir :=
  (runWrites (Writer.new 1000 40 8) [(2000, [mk 97 1 5]), (3000, [mk 97 2 5]), (4000, [mk 97 3 5])]).files

/-- `metriclog-cache-skip`: the same query twice on one searcher; the second answer lacks the first file -/
theorem cache_skip_witness :
    (find dirCache {} 2000 9000 []).2 = specFind (retained dirCache) 2000 9000 [] ∧
    (find dirCache (find dirCache {} 2000 9000 []).1 2000 9000 []).2
      = [{ mk 97 2 5 with ts := 3000 }, { mk 97 3 5 with ts := 4000 }] ∧
    (specFind (retained dirCache) 2000 9000 []).length = 3 := by
  decide

/-- one line `2000|1970-01-01 00:00:02|a|3|0|0|0|1234|0|0|0`, cut after `12` of the 8th field -/
def dirTorn : Dir := (runWrites (Writer.new 1000 100000 4) [(2000, [mk 97 3 1234])]).files

/-- `metriclog-torn-line`: the fragment is returned as an item that was never written -/
theorem torn_line_witness :
    (find (cutData dirTorn 37) {} 2000 2000 []).2 = [{ mk 97 3 12 with ts := 2000 }] ∧
    ({ mk 97 3 12 with ts := 2000 } : Item) ∉ retained dirTorn := by
  decide

/-- limits (50 bytes, 2 files): second 2 continues after a size roll, the file holding its index entry is removed -/
def dirOrphan : Dir :=
  (runWrites (Writer.new 1000 50 2)
    [(2000, [mk 97 1 5, mk 98 1 5]), (2500, [mk 97 2 5, mk 98 2 5]), (3000, [mk 97 3 5])]).files

/-- `metriclog-orphan-head`: the retained items of second 2 are not found -/
theorem orphan_head_witness :
    specFind (retained dirOrphan) 2000 9000 [] =
      [{ mk 97 2 5 with ts := 2500 }, { mk 98 2 5 with ts := 2500 }, { mk 97 3 5 with ts := 3000 }] ∧
    (find dirOrphan {} 2000 9000 []).2 = [{ mk 97 3 5 with ts := 3000 }] := by
  decide

/-- the side conditions of section 6b are satisfiable with a non-empty answer: on `dirCache` a searcher whose
    cache holds a later position (`begin` before the cached second) is outside the cache-skip region, and
    `begin` = second 2 is the first retained index entry -/
example :
    cacheOk dirCache (find dirCache {} 4000 9000 []).1 2000 = false ∧
    (∃ en ∈ allEnts dirCache, en.1 ≤ 2000 / 1000) ∧
    (find dirCache (find dirCache {} 4000 9000 []).1 2000 9000 []).2 = specFind (retained dirCache) 2000 9000 [] := by
  decide

/-! ## 8. the full statements (not provable for the pinned code: refuted by the witnesses above) -/

/-- the property's first sentence for one query of a fresh searcher, without the `Covered` restriction -/
def search_complete_sorted_nodup_statement : Prop :=
  ∀ (now maxSize maxFiles : Nat) (hist : List (Nat × List Item)) (b e : Nat) (res : Bytes),
    0 < maxSize → 0 < maxFiles → now / 1000 < 2 ^ 64 → HistValid hist →
    (find (runWrites (Writer.new now maxSize maxFiles) hist).files {} b e res).2
      = specFind (retained (runWrites (Writer.new now maxSize maxFiles) hist).files) b e res

theorem search_complete_sorted_nodup_statement_fails : ¬ search_complete_sorted_nodup_statement := by
  intro h
  have hv : HistValid [(1000, [mk 97 1 5]), (2000, [mk 97 2 5])] := by
    intro p hp
    simp only [List.mem_cons, List.not_mem_nil, or_false] at hp
    rcases hp with rfl | rfl <;> refine ⟨by norm_num, ?_⟩ <;> intro it hit <;>
      simp only [List.mem_singleton] at hit <;> subst hit <;> constructor <;> simp [mk, plainB, BAR, LF, CR]
  have h1 := h 1000 100000 4 [(1000, [mk 97 1 5]), (2000, [mk 97 2 5])] 1000 9000 [] (by norm_num) (by norm_num) (by norm_num) hv
  have h2 := first_second_witness
  unfold dirFirst at h2
  rw [h2.1, h2.2] at h1
  exact absurd h1 (by decide)

/-- … for any sequence of queries on **one** searcher (the cache is threaded through) -/
def search_any_query_sequence_statement : Prop :=
  ∀ (now maxSize maxFiles : Nat) (hist : List (Nat × List Item)) (c : Cache) (b e : Nat) (res : Bytes),
    0 < maxSize → 0 < maxFiles → HistValid hist →
    Covered (runWrites (Writer.new now maxSize maxFiles) hist).files b →
    (∃ b' e' res' c0, c = (find (runWrites (Writer.new now maxSize maxFiles) hist).files c0 b' e' res').1) →
    (find (runWrites (Writer.new now maxSize maxFiles) hist).files c b e res).2
      = specFind (retained (runWrites (Writer.new now maxSize maxFiles) hist).files) b e res

/-- after a cut of the last data file at any byte only written items are returned -/
def only_written_statement : Prop :=
  ∀ (its : List Item) (k : Nat), (∀ it ∈ its, Valid it) → ∀ x ∈ itemsFrom ((serialise its).take k) 0, x ∈ its

theorem only_written_statement_fails : ¬ only_written_statement := by
  intro h
  have hv : ∀ it ∈ [({ mk 97 3 1234 with ts := 2000 } : Item)], Valid it := by
    intro it hit
    simp only [List.mem_singleton] at hit
    subst hit
    constructor <;> simp [mk, plainB, BAR, LF, CR]
  have := h [{ mk 97 3 1234 with ts := 2000 }] 37 hv { mk 97 3 12 with ts := 2000 } (by decide)
  exact absurd this (by decide)

end Sentinel.C17
