import Mathlib.Tactic
import Sentinel.Model.MetricLog
/-!
# C17 — Metric log is searchable, bounded, and survives truncation at any byte
-/
namespace Sentinel.C17
open Sentinel.MetricLog

theorem modLast_length (l : Dir) (f : File → File) : (modLast l f).length = l.length := by
  induction l with
  | nil => rfl
  | cons x r ih =>
    cases r with
    | nil => rfl
    | cons y r => simp only [modLast, List.length_cons] at ih ⊢; omega

theorem roll_length_le (w : Writer) (ts : Nat) (h : 0 < w.maxFiles) (hl : w.files.length ≤ w.maxFiles) :
    (w.roll ts).files.length ≤ w.maxFiles := by
  simp only [Writer.roll, List.length_append, List.length_drop, List.length_singleton]
  omega

end Sentinel.C17
