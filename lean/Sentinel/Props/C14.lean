import Sentinel.Lemmas.Reuse
import Sentinel.Lemmas.ReuseDecisions
/-!
# C14 — Reloading rules does not disturb the runtime state of unchanged rules
(property theorems only; helper lemmas live in `Sentinel/Lemmas/Reuse.lean`)

Reading guide.  `K : Calc R S` is one rule manager's calculus (`K.eq` = `isEqualsTo`, `K.sr` = `isStatReusable`,
instances `cbCalc`, `flowCalc`, `hotCalc` in `Sentinel/Model/Reuse.lean`).  A controller `Ctl R S` carries its identity,
its bound rule and its mutable state; `build K now new old next` is `build…Controller(new rules, old controllers)`;
`Mgr.loadRules` / `Mgr.loadRulesOfResource` are the two load paths.  "Bound to the old controller" is literally
"the same `Ctl` value (same id, same state) sits at that position of the new list".
-/
namespace Sentinel.C14
open Sentinel.Reuse

variable {R S : Type}

/-- `isEqualsTo` is a partial equivalence (it is not reflexive on rules with an unknown strategy) -/
structure EqPER (K : Calc R S) : Prop where
  symm : ∀ a b, K.eq a b = true → K.eq b a = true
  trans : ∀ a b c, K.eq a b = true → K.eq b c = true → K.eq a c = true

theorem cb_eqPER : EqPER cbCalc where
  symm a b h := by
    simp only [cbCalc, CbRule.eq, Bool.and_eq_true, beq_iff_eq] at h ⊢
    obtain ⟨⟨⟨⟨⟨⟨⟨h1, h2⟩, h3⟩, h4⟩, h5⟩, h6⟩, h7⟩, h8⟩ := h
    refine ⟨⟨⟨⟨⟨⟨⟨h1.symm, h2.symm⟩, h3.symm⟩, h4.symm⟩, h5.symm⟩, h6.symm⟩, h7.symm⟩, ?_⟩
    rw [h2]
    split_ifs at h8 ⊢ <;> simp_all
  trans a b c h g := by
    simp only [cbCalc, CbRule.eq, Bool.and_eq_true, beq_iff_eq] at h g ⊢
    obtain ⟨⟨⟨⟨⟨⟨⟨h1, h2⟩, h3⟩, h4⟩, h5⟩, h6⟩, h7⟩, h8⟩ := h
    obtain ⟨⟨⟨⟨⟨⟨⟨g1, g2⟩, g3⟩, g4⟩, g5⟩, g6⟩, g7⟩, g8⟩ := g
    refine ⟨⟨⟨⟨⟨⟨⟨h1.trans g1, h2.trans g2⟩, h3.trans g3⟩, h4.trans g4⟩, h5.trans g5⟩, h6.trans g6⟩, h7.trans g7⟩, ?_⟩
    rw [← g2] at g8 ⊢
    split_ifs at h8 g8 ⊢ <;> simp_all

theorem hot_eqPER : EqPER hotCalc where
  symm a b h := by
    simp only [hotCalc, HotRule.eq, Bool.and_eq_true, beq_iff_eq, Bool.or_eq_true, bne_iff_ne, ne_eq] at h ⊢
    obtain ⟨⟨⟨⟨⟨⟨⟨⟨⟨⟨h1, h2⟩, h3⟩, h4⟩, h5⟩, h5'⟩, h6⟩, h7⟩, h8⟩, h9⟩, h10⟩ := h
    refine ⟨⟨⟨⟨⟨⟨⟨⟨⟨⟨h1.symm, h2.symm⟩, h3.symm⟩, h4.symm⟩, h5.symm⟩, h5'.symm⟩, h6.symm⟩, h7.symm⟩, h8.symm⟩, ?_⟩, ?_⟩
    · rcases h9 with h9 | h9
      · left; rw [← h8]; exact h9
      · right; exact ⟨h9.1.symm, h9.2.symm⟩
    · rw [← h3]
      split_ifs at h10 ⊢ <;> simp_all
  trans a b c h g := by
    simp only [hotCalc, HotRule.eq, Bool.and_eq_true, beq_iff_eq, Bool.or_eq_true, bne_iff_ne, ne_eq] at h g ⊢
    obtain ⟨⟨⟨⟨⟨⟨⟨⟨⟨⟨h1, h2⟩, h3⟩, h4⟩, h5⟩, h5'⟩, h6⟩, h7⟩, h8⟩, h9⟩, h10⟩ := h
    obtain ⟨⟨⟨⟨⟨⟨⟨⟨⟨⟨g1, g2⟩, g3⟩, g4⟩, g5⟩, g5'⟩, g6⟩, g7⟩, g8⟩, g9⟩, g10⟩ := g
    refine ⟨⟨⟨⟨⟨⟨⟨⟨⟨⟨h1.trans g1, h2.trans g2⟩, h3.trans g3⟩, h4.trans g4⟩, h5.trans g5⟩, h5'.trans g5'⟩, h6.trans g6⟩,
      h7.trans g7⟩, h8.trans g8⟩, ?_⟩, ?_⟩
    · rcases h9 with h9 | h9
      · left; exact h9
      · rcases g9 with g9 | g9
        · left; rw [h8]; exact g9
        · right; exact ⟨h9.1.trans g9.1, h9.2.trans g9.2⟩
    · rw [← h3] at g10
      split_ifs at h10 g10 ⊢ <;> simp_all

theorem flow_eqPER : EqPER flowCalc where
  symm a b h := by
    simp only [flowCalc, FlowRule.eq, Bool.and_eq_true, beq_iff_eq] at h ⊢
    obtain ⟨⟨⟨⟨⟨⟨⟨⟨⟨⟨⟨⟨⟨h1, h2⟩, h3⟩, h4⟩, h5⟩, h6⟩, h7⟩, h8⟩, h9⟩, h10⟩, h11⟩, h12⟩, h13⟩, h14⟩ := h
    exact ⟨⟨⟨⟨⟨⟨⟨⟨⟨⟨⟨⟨⟨h1.symm, h2.symm⟩, h3.symm⟩, h4.symm⟩, h5.symm⟩, h6.symm⟩, h7.symm⟩, h8.symm⟩, h9.symm⟩, h10.symm⟩,
      h11.symm⟩, h12.symm⟩, h13.symm⟩, h14.symm⟩
  trans a b c h g := by
    simp only [flowCalc, FlowRule.eq, Bool.and_eq_true, beq_iff_eq] at h g ⊢
    obtain ⟨⟨⟨⟨⟨⟨⟨⟨⟨⟨⟨⟨⟨h1, h2⟩, h3⟩, h4⟩, h5⟩, h6⟩, h7⟩, h8⟩, h9⟩, h10⟩, h11⟩, h12⟩, h13⟩, h14⟩ := h
    obtain ⟨⟨⟨⟨⟨⟨⟨⟨⟨⟨⟨⟨⟨g1, g2⟩, g3⟩, g4⟩, g5⟩, g6⟩, g7⟩, g8⟩, g9⟩, g10⟩, g11⟩, g12⟩, g13⟩, g14⟩ := g
    exact ⟨⟨⟨⟨⟨⟨⟨⟨⟨⟨⟨⟨⟨h1.trans g1, h2.trans g2⟩, h3.trans g3⟩, h4.trans g4⟩, h5.trans g5⟩, h6.trans g6⟩, h7.trans g7⟩,
      h8.trans g8⟩, h9.trans g9⟩, h10.trans g10⟩, h11.trans g11⟩, h12.trans g12⟩, h13.trans g13⟩, h14.trans g14⟩

/-! ## unchanged_keeps_controller -/

/-- the old controllers an occurrence of `r` may be bound to: those whose rule `isEqualsTo` it, in list order -/
def matching (K : Calc R S) (r : R) (old : List (Ctl R S)) : List (Ctl R S) := old.filter fun c => K.eq c.rule r

/-- which occurrence of (the class of) `r` the position `j` of the new list is -/
def occurrence (K : Calc R S) (new : List R) (j : Nat) (r : R) : Nat := (new.take j).countP fun r' => K.eq r' r

/-- **The property as stated** (multiset semantics): whenever the rule at position `j` of the new list is the `k`-th
    occurrence of its class and the old list has a `k`-th controller of that class, that very controller (same identity,
    same state) is at position `j` of the result — whatever else the list contains.  If `r` occurs `m` times in the old
    list and `m'` times in the new one, this binds the first `min m m'` occurrences.
    It is **false** of the three rule managers (`steal_witness`); it holds under `noStealB` (`unchanged_keeps_controller_partial`). -/
def unchanged_keeps_controller_statement (K : Calc R S) : Prop :=
  ∀ (now : Nat) (new : List R) (old : List (Ctl R S)) (next j : Nat) (r : R) (c : Ctl R S),
    new[j]? = some r → (matching K r old)[occurrence K new j r]? = some c →
    (build K now new old next)[j]? = some c

/-- C14, controller level, under the hypothesis "no rule earlier in the new list is stat-reusable-but-unequal with an
    old controller whose rule occurs later in the new list" (`noStealB`, decidable). -/
theorem unchanged_keeps_controller_partial (K : Calc R S) (hK : EqPER K) (now : Nat) (new : List R)
    (old : List (Ctl R S)) (next j : Nat) (r : R) (c : Ctl R S)
    (hns : noStealB K new old = true)
    (hj : new[j]? = some r) (hc : (matching K r old)[occurrence K new j r]? = some c) :
    (build K now new old next)[j]? = some c := by
  induction new generalizing old next j with
  | nil => simp at hj
  | cons r0 rs ih =>
    simp only [noStealB, Bool.and_eq_true, List.all_eq_true] at hns
    obtain ⟨hhead, htail⟩ := hns
    by_cases hex : ∃ c' ∈ old, K.eq c'.rule r0 = true
    · -- r0 finds an equal controller: the first one of its class
      obtain ⟨l1, c0, l2, e, hl, hc0, -⟩ := reuseIdx_finds K r0 old 0 none hex
      subst e
      rw [build_cons_eq K now r0 rs l1 c0 l2 next hl hc0]
      cases j with
      | zero =>
        simp only [List.getElem?_cons_zero, Option.some.injEq] at hj
        subst hj
        simp only [occurrence, List.take_zero, List.countP_nil, matching, List.filter_append,
          List.filter_cons, hc0, if_true] at hc
        have : l1.filter (fun c => K.eq c.rule r0) = [] := by
          rw [List.filter_eq_nil_iff]; intro x hx; simp [hl x hx]
        rw [this] at hc
        simpa using hc
      | succ j' =>
        simp only [List.getElem?_cons_succ] at hj ⊢
        refine ih (l1 ++ l2) next j' (noStealB_mono K rs _ _ (by intro x hx; simp at hx ⊢; tauto) htail) hj ?_
        simp only [occurrence, List.take_succ_cons, List.countP_cons, matching, List.filter_append,
          List.filter_cons] at hc ⊢
        by_cases h0 : K.eq r0 r = true
        · have hp : K.eq c0.rule r = true := hK.trans _ _ _ hc0 h0
          have hl1 : l1.filter (fun c => K.eq c.rule r) = [] := by
            rw [List.filter_eq_nil_iff]; intro x hx hxr
            have := hK.trans _ _ _ hxr (hK.symm _ _ h0)
            rw [hl x hx] at this; exact Bool.false_ne_true this
          simp only [h0, if_true, hp, hl1, List.nil_append] at hc ⊢
          simpa using hc
        · have hp : K.eq c0.rule r = false := by
            by_contra hne
            have hne' : K.eq c0.rule r = true := by simpa using hne
            exact h0 (hK.trans _ _ _ (hK.symm _ _ hc0) hne')
          simp only [h0, hp, Bool.false_eq_true, if_false, Nat.add_zero] at hc ⊢
          exact hc
    · -- r0 has no equal controller: it is built anew (fresh, or on the statistic of the first stat-reusable one)
      have hall : ∀ c' ∈ old, K.eq c'.rule r0 = false := by
        intro c' hc'; by_contra hne; exact hex ⟨c', hc', by simpa using hne⟩
      cases j with
      | zero =>
        exfalso
        simp only [List.getElem?_cons_zero, Option.some.injEq] at hj
        subst hj
        have hm : c ∈ matching K r0 old := List.mem_of_getElem? hc
        simp only [matching, List.mem_filter] at hm
        rw [hall c hm.1] at hm; exact Bool.false_ne_true hm.2
      | succ j' =>
        have hcm : c ∈ matching K r old := List.mem_of_getElem? hc
        simp only [matching, List.mem_filter] at hcm
        have h0 : ¬ K.eq r0 r = true := by
          intro h0
          have := hK.trans _ _ _ hcm.2 (hK.symm _ _ h0)
          rw [hall c hcm.1] at this; exact Bool.false_ne_true this
        have hocc : occurrence K (r0 :: rs) (j'+1) r = occurrence K rs j' r := by
          simp [occurrence, List.take_succ_cons, h0]
        rw [hocc] at hc
        have hrmem : r ∈ rs := by
          simp only [List.getElem?_cons_succ] at hj; exact List.mem_of_getElem? hj
        rcases reuseIdx_snd K r0 old 0 hall with ⟨-, hnone⟩ | ⟨l1, c0, l2, e, hl, hc0, -⟩
        · rw [build_cons_fresh K now r0 rs old next hall hnone]
          simp only [List.getElem?_cons_succ] at hj ⊢
          exact ih old (next+1) j' htail hj hc
        · subst e
          rw [build_cons_stat K now r0 rs l1 c0 l2 next hall hl hc0]
          simp only [List.getElem?_cons_succ] at hj ⊢
          refine ih (l1 ++ l2) (next+1) j' (noStealB_mono K rs _ _ (by intro x hx; simp at hx ⊢; tauto) htail) hj ?_
          -- the donor is not wanted by any later rule, in particular not by `r`
          have hd := hhead c0 (by simp)
          simp only [hc0, hall c0 (by simp), Bool.not_false, Bool.and_self, Bool.not_true, Bool.false_or,
            List.all_eq_true] at hd
          have hp : K.eq c0.rule r = false := by
            have := hd r hrmem
            simp only [Bool.and_eq_true, Bool.not_eq_true'] at this
            exact this.1
          simp only [matching, List.filter_append, List.filter_cons, hp, Bool.false_eq_true, if_false] at hc ⊢
          exact hc

/-- the order-insensitive condition implies the exact one -/
theorem noStealB_imp_noStealS (K : Calc R S) (new : List R) (old : List (Ctl R S)) (h : noStealB K new old = true) :
    noStealS K new old = true := by
  induction new generalizing old with
  | nil => rfl
  | cons r rs ih =>
    simp only [noStealB, Bool.and_eq_true, List.all_eq_true] at h
    obtain ⟨hhead, htail⟩ := h
    by_cases hex : ∃ c' ∈ old, K.eq c'.rule r = true
    · obtain ⟨l1, c0, l2, e, hl, hc0, -⟩ := reuseIdx_finds K r old 0 none hex
      subst e
      rw [noStealS_cons_eq K r rs l1 c0 l2 hl hc0]
      exact ih _ (noStealB_mono K rs _ _ (by intro x hx; simp at hx ⊢; tauto) htail)
    · have hall : ∀ c' ∈ old, K.eq c'.rule r = false := by
        intro c' hc'; by_contra hne; exact hex ⟨c', hc', by simpa using hne⟩
      rcases reuseIdx_snd K r old 0 hall with ⟨-, hnone⟩ | ⟨l1, c0, l2, e, hl, hc0, -⟩
      · rw [noStealS_cons_fresh K r rs old hall hnone]
        exact ih old htail
      · subst e
        rw [noStealS_cons_stat K r rs l1 c0 l2 hall hl hc0]
        have hd := hhead c0 (by simp)
        simp only [hc0, hall c0 (by simp), Bool.not_false, Bool.and_self, Bool.not_true, Bool.false_or] at hd
        rw [hd, Bool.true_and]
        exact ih _ (noStealB_mono K rs _ _ (by intro x hx; simp at hx ⊢; tauto) htail)

/-- The same under the exact hypothesis `noStealS` (weaker than `noStealB`, see `noStealB_imp_noStealS`): it follows the
    builder and fails precisely when some rule takes the statistic of an old controller whose rule still occurs later —
    this is the classifier the oracle uses for `reuse-steals-controller`. -/
theorem unchanged_keeps_controller_partial_exact (K : Calc R S) (hK : EqPER K) (now : Nat) (new : List R)
    (old : List (Ctl R S)) (next j : Nat) (r : R) (c : Ctl R S)
    (hns : noStealS K new old = true)
    (hj : new[j]? = some r) (hc : (matching K r old)[occurrence K new j r]? = some c) :
    (build K now new old next)[j]? = some c := by
  induction new generalizing old next j with
  | nil => simp at hj
  | cons r0 rs ih =>
    by_cases hex : ∃ c' ∈ old, K.eq c'.rule r0 = true
    · -- r0 finds an equal controller: the first one of its class
      obtain ⟨l1, c0, l2, e, hl, hc0, -⟩ := reuseIdx_finds K r0 old 0 none hex
      subst e
      rw [noStealS_cons_eq K r0 rs l1 c0 l2 hl hc0] at hns
      rw [build_cons_eq K now r0 rs l1 c0 l2 next hl hc0]
      cases j with
      | zero =>
        simp only [List.getElem?_cons_zero, Option.some.injEq] at hj
        subst hj
        simp only [occurrence, List.take_zero, List.countP_nil, matching, List.filter_append,
          List.filter_cons, hc0, if_true] at hc
        have : l1.filter (fun c => K.eq c.rule r0) = [] := by
          rw [List.filter_eq_nil_iff]; intro x hx; simp [hl x hx]
        rw [this] at hc
        simpa using hc
      | succ j' =>
        simp only [List.getElem?_cons_succ] at hj ⊢
        refine ih (l1 ++ l2) next j' hns hj ?_
        simp only [occurrence, List.take_succ_cons, List.countP_cons, matching, List.filter_append,
          List.filter_cons] at hc ⊢
        by_cases h0 : K.eq r0 r = true
        · have hp : K.eq c0.rule r = true := hK.trans _ _ _ hc0 h0
          have hl1 : l1.filter (fun c => K.eq c.rule r) = [] := by
            rw [List.filter_eq_nil_iff]; intro x hx hxr
            have := hK.trans _ _ _ hxr (hK.symm _ _ h0)
            rw [hl x hx] at this; exact Bool.false_ne_true this
          simp only [h0, if_true, hp, hl1, List.nil_append] at hc ⊢
          simpa using hc
        · have hp : K.eq c0.rule r = false := by
            by_contra hne
            have hne' : K.eq c0.rule r = true := by simpa using hne
            exact h0 (hK.trans _ _ _ (hK.symm _ _ hc0) hne')
          simp only [h0, hp, Bool.false_eq_true, if_false, Nat.add_zero] at hc ⊢
          exact hc
    · -- r0 has no equal controller: it is built anew (fresh, or on the statistic of the first stat-reusable one)
      have hall : ∀ c' ∈ old, K.eq c'.rule r0 = false := by
        intro c' hc'; by_contra hne; exact hex ⟨c', hc', by simpa using hne⟩
      cases j with
      | zero =>
        exfalso
        simp only [List.getElem?_cons_zero, Option.some.injEq] at hj
        subst hj
        have hm : c ∈ matching K r0 old := List.mem_of_getElem? hc
        simp only [matching, List.mem_filter] at hm
        rw [hall c hm.1] at hm; exact Bool.false_ne_true hm.2
      | succ j' =>
        have hcm : c ∈ matching K r old := List.mem_of_getElem? hc
        simp only [matching, List.mem_filter] at hcm
        have h0 : ¬ K.eq r0 r = true := by
          intro h0
          have := hK.trans _ _ _ hcm.2 (hK.symm _ _ h0)
          rw [hall c hcm.1] at this; exact Bool.false_ne_true this
        have hocc : occurrence K (r0 :: rs) (j'+1) r = occurrence K rs j' r := by
          simp [occurrence, List.take_succ_cons, h0]
        rw [hocc] at hc
        have hrmem : r ∈ rs := by
          simp only [List.getElem?_cons_succ] at hj; exact List.mem_of_getElem? hj
        rcases reuseIdx_snd K r0 old 0 hall with ⟨-, hnone⟩ | ⟨l1, c0, l2, e, hl, hc0, -⟩
        · rw [noStealS_cons_fresh K r0 rs old hall hnone] at hns
          rw [build_cons_fresh K now r0 rs old next hall hnone]
          simp only [List.getElem?_cons_succ] at hj ⊢
          exact ih old (next+1) j' hns hj hc
        · subst e
          rw [noStealS_cons_stat K r0 rs l1 c0 l2 hall hl hc0] at hns
          simp only [Bool.and_eq_true, List.all_eq_true] at hns
          obtain ⟨hd, htail⟩ := hns
          rw [build_cons_stat K now r0 rs l1 c0 l2 next hall hl hc0]
          simp only [List.getElem?_cons_succ] at hj ⊢
          refine ih (l1 ++ l2) (next+1) j' htail hj ?_
          have hp : K.eq c0.rule r = false := by
            have := hd r hrmem
            simp only [Bool.and_eq_true, Bool.not_eq_true'] at this
            exact this.1
          simp only [matching, List.filter_append, List.filter_cons, hp, Bool.false_eq_true, if_false] at hc ⊢
          exact hc

/-- what the oracle evaluates (`stealSim`, which also knows about constructor normalisation and decision-neutral fields) is
    exactly `noStealS` for a calculus without normalisation and with `canon = id` — the circuit-breaker manager -/
theorem stealSim_eq_noStealS (K : Calc R S) (hnorm : ∀ r, K.norm r = r) (new : List R) (old : List (Ctl R S)) :
    stealSim K id new old = noStealS K new old := by
  induction new generalizing old with
  | nil => rfl
  | cons r rs ih =>
    rw [stealSim, noStealS]
    rcases hres : reuseIdx K r old 0 none with ⟨a, b⟩
    cases a with
    | some i => exact ih _
    | none =>
      cases b with
      | none => exact ih _
      | some j =>
        simp only
        cases hj : old[j]? with
        | none => exact ih _
        | some c =>
          simp only
          have hall : ∀ c' ∈ old, K.eq c'.rule r = false := by
            intro c' hc'
            by_contra hne
            obtain ⟨l1, c0, l2, _, _, _, hi⟩ := reuseIdx_finds K r old 0 none ⟨c', hc', by simpa using hne⟩
            rw [hres] at hi
            simp at hi
          have hown : (old.findIdx? fun c' => K.eq c'.rule r || K.eq (id c'.rule) (id r)) = none := by
            rw [List.findIdx?_eq_none_iff]
            intro x hx
            simp [hall x hx]
          rw [hown, ih]
          simp [hnorm]

theorem stealSim_cb (new : List CbRule) (old : List (Ctl CbRule CbSt)) :
    stealSim cbCalc id new old = noStealS cbCalc new old := stealSim_eq_noStealS cbCalc (fun _ => rfl) new old

/-- the hypothesis of the partial theorem is satisfiable and the conclusion is not vacuous: old `[A]`, new `[A, A′]` -/
example : noStealB cbCalc [⟨1,7,2,60000,1,10000,1,0,1,0⟩, ⟨2,7,2,60000,1,10000,1,0,50,0⟩]
    [⟨0, ⟨1,7,2,60000,1,10000,1,0,1,0⟩, cbFresh ⟨1,7,2,60000,1,10000,1,0,1,0⟩ 5⟩] = true := by decide

/-! ### the finding `reuse-steals-controller` -/

/-- breaker `A` (controller 0) is **open** until 60005; new list `[A′, A]` with `A′` = `A` with threshold 50:
    `A′` takes `A`'s statistic and removes controller 0 from the candidates, `A` is rebuilt as controller 2, closed. -/
def wA : CbRule := ⟨1, 7, 2, 60000, 1, 10000, 1, 0, 1, 0⟩
def wA' : CbRule := ⟨2, 7, 2, 60000, 1, 10000, 1, 0, 50, 0⟩
def wOld : List (Ctl CbRule CbSt) := [⟨0, wA, { state := 2, retryAt := 60005, arr := LA.mk 1 10000 5 }⟩]

theorem steal_witness :
    (build cbCalc 6 [wA', wA] wOld 1).map (fun c => (c.id, c.rule.id, c.st.state)) = [(1, 2, 0), (2, 1, 0)]
    ∧ (cbCheck 6 wOld).1 = some 1                                   -- without the reload: blocked by rule 1
    ∧ (cbCheck 6 (build cbCalc 6 [wA', wA] wOld 1)).1 = none        -- after it: the request passes
    ∧ (build cbCalc 6 [wA, wA'] wOld 1).map (fun c => (c.id, c.rule.id, c.st.state)) = [(0, 1, 2), (1, 2, 0)] := by
  decide

/-- so the statement as given does not hold of the circuit-breaker manager -/
theorem unchanged_keeps_controller_fails_witness : ¬ unchanged_keeps_controller_statement cbCalc := by
  intro h
  have := h 6 [wA', wA] wOld 1 1 wA ⟨0, wA, { state := 2, retryAt := 60005, arr := LA.mk 1 10000 5 }⟩ (by rfl) (by rfl)
  have h2 : ((build cbCalc 6 [wA', wA] wOld 1)[1]?).map (·.id) = some 2 := by decide
  rw [this] at h2
  exact absurd h2 (by decide)

/-- the same shape in the flow manager: `W` (warm-up) and `D` (direct/reject) on one resource are stat-reusable -/
theorem steal_witness_flow :
    (build flowCalc 6 [⟨2,7,0,0,50,0,0,0,0,0,0,0,0,0,0⟩, ⟨1,7,1,0,10,0,0,0,10,3,0,0,0,0,0⟩]
        [⟨0, ⟨1,7,1,0,10,0,0,0,10,3,0,0,0,0,0⟩, { tokens := 77, lastFilled := 5000 }⟩] 1).map (fun c => (c.id, c.st.tokens))
      = [(1, 0), (2, 0)] := by decide

/-- and in the hotspot manager, where *all* mutable state (per-value token and time counters) is the statistic: `A′`
    (another threshold) listed first takes the counters of `A`, which starts from an empty cache -/
theorem steal_witness_hot :
    let a : HotRule := ⟨1, 7, 1, 0, 0, 0, 2, 0, 0, 1, 0, 2, 99, 5⟩
    let a' : HotRule := ⟨2, 7, 1, 0, 0, 0, 50, 0, 0, 1, 0, 2, 99, 5⟩
    let old : List (Ctl HotRule HotSt) := [⟨0, a, { times := [(4, 1000)], tokens := [(4, 0)] }⟩]
    (build hotCalc 6 [a', a] old 1).map (fun c => (c.id, c.rule.id, c.st.tokens)) = [(1, 2, [(4, 0)]), (2, 1, [])]
    ∧ (build hotCalc 6 [a, a'] old 1).map (fun c => (c.id, c.rule.id, c.st.tokens)) = [(0, 1, [(4, 0)]), (1, 2, [])] := by
  decide

/-! ### the finding `warmup-reload-resets` -/

/-- a warm-up rule whose cold factor is left to default (0): the constructor wrote 3 into the bound rule, so the
    identical rule of the next load is not `isEqualsTo` it — the controller is rebuilt (tokens 0) on the old statistic;
    with the factor given explicitly the controller is kept. -/
theorem warmup_reload_witness :
    let w0 : FlowRule := ⟨1, 7, 1, 0, 10, 0, 0, 0, 10, 0, 0, 0, 0, 0, 0⟩
    let w3 : FlowRule := ⟨1, 7, 1, 0, 10, 0, 0, 0, 10, 3, 0, 0, 0, 0, 0⟩
    let warmed (cs : List (Ctl FlowRule FlowSt)) := cs.map fun c => { c with st := { c.st with tokens := 77, lastFilled := 5000 } }
    ((build flowCalc 9 [w0] (warmed (build flowCalc 1 [w0] [] 0)) 1).map fun c => (c.id, c.st.tokens)) = [(1, 0)]
    ∧ ((build flowCalc 9 [w3] (warmed (build flowCalc 1 [w3] [] 0)) 1).map fun c => (c.id, c.st.tokens)) = [(0, 77)] := by
  decide

/-! ## both load paths are this builder, per resource -/

theorem loadRules_ctls (K : Calc R S) (valid : R → Bool) (res : R → Nat) (now : Nat) (rules : List R) (m : Mgr R S) (x : Nat) :
    (m.loadRules K valid res now rules).ctls x = build K now (rulesOf valid res x rules) (m.ctls x) m.next := rfl

theorem loadRulesOfResource_ctls (K : Calc R S) (valid : R → Bool) (res : R → Nat) (now : Nat) (rules : List R)
    (m : Mgr R S) (x : Nat) :
    (m.loadRulesOfResource K valid res now x rules).ctls x = build K now (rulesOf valid res x rules) (m.ctls x) m.next := by
  simp [Mgr.loadRulesOfResource]

/-- a per-resource load leaves every other resource's controllers alone -/
theorem loadRulesOfResource_other (K : Calc R S) (valid : R → Bool) (res : R → Nat) (now : Nat) (rules : List R)
    (m : Mgr R S) (x y : Nat) (h : y ≠ x) :
    (m.loadRulesOfResource K valid res now x rules).ctls y = m.ctls y := by
  simp [Mgr.loadRulesOfResource, h]

/-- `unchanged_keeps_controller_partial` for `LoadRules`: whatever the list says about *other* resources -/
theorem unchanged_keeps_controller_partial_LoadRules (K : Calc R S) (hK : EqPER K) (valid : R → Bool) (res : R → Nat)
    (now : Nat) (rules : List R) (m : Mgr R S) (x j : Nat) (r : R) (c : Ctl R S)
    (hns : noStealB K (rulesOf valid res x rules) (m.ctls x) = true)
    (hj : (rulesOf valid res x rules)[j]? = some r)
    (hc : (matching K r (m.ctls x))[occurrence K (rulesOf valid res x rules) j r]? = some c) :
    ((m.loadRules K valid res now rules).ctls x)[j]? = some c :=
  unchanged_keeps_controller_partial K hK now _ _ _ j r c hns hj hc

theorem unchanged_keeps_controller_partial_LoadRulesOfResource (K : Calc R S) (hK : EqPER K) (valid : R → Bool)
    (res : R → Nat) (now : Nat) (rules : List R) (m : Mgr R S) (x j : Nat) (r : R) (c : Ctl R S)
    (hns : noStealB K (rulesOf valid res x rules) (m.ctls x) = true)
    (hj : (rulesOf valid res x rules)[j]? = some r)
    (hc : (matching K r (m.ctls x))[occurrence K (rulesOf valid res x rules) j r]? = some c) :
    ((m.loadRulesOfResource K valid res now x rules).ctls x)[j]? = some c := by
  rw [loadRulesOfResource_ctls]
  exact unchanged_keeps_controller_partial K hK now _ _ _ j r c hns hj hc

/-! ## edits that only insert rules -/

/-- the new list is the old rules (up to `isEqualsTo`) with genuinely new rules — equal to no old controller's rule —
    inserted anywhere -/
inductive Inserted (K : Calc R S) : List (Ctl R S) → List R → Prop where
  | nil : Inserted K [] []
  | keep (c : Ctl R S) (r : R) (cs : List (Ctl R S)) (rs : List R) :
      K.eq c.rule r = true → Inserted K cs rs → Inserted K (c :: cs) (r :: rs)
  | add (r : R) (cs : List (Ctl R S)) (rs : List R) :
      (∀ c ∈ cs, K.eq c.rule r = false) → Inserted K cs rs → Inserted K cs (r :: rs)

theorem Inserted.wanted {K : Calc R S} {cs : List (Ctl R S)} {rs : List R} (h : Inserted K cs rs) :
    ∀ c ∈ cs, ∃ r ∈ rs, K.eq c.rule r = true := by
  induction h with
  | nil => simp
  | keep c r cs rs hcr _ ih =>
    intro d hd
    rcases List.mem_cons.mp hd with rfl | hd
    · exact ⟨r, List.mem_cons_self .., hcr⟩
    · obtain ⟨r', hr', he⟩ := ih d hd
      exact ⟨r', List.mem_cons_of_mem _ hr', he⟩
  | add r cs rs _ _ ih =>
    intro d hd
    obtain ⟨r', hr', he⟩ := ih d hd
    exact ⟨r', List.mem_cons_of_mem _ hr', he⟩

/-- C14 for the edit "add rules" (to the same resource, anywhere in its list), under `noStealB`: all old controllers
    survive, in their order; the inserted rules get new controllers in between. -/
theorem inserted_rules_keep_controllers (K : Calc R S) (now : Nat) (new : List R) (old : List (Ctl R S)) (next : Nat)
    (hi : Inserted K old new) (hns : noStealB K new old = true) :
    old.Sublist (build K now new old next) := by
  induction hi generalizing next with
  | nil => simp [build]
  | keep c r cs rs hcr _ ih =>
    have := build_cons_eq K now r rs [] c cs next (by simp) hcr
    simp only [List.nil_append] at this
    rw [this]
    simp only [noStealB, Bool.and_eq_true] at hns
    exact List.Sublist.cons_cons c (ih next (noStealB_mono K rs _ _ (fun x hx => List.mem_cons_of_mem _ hx) hns.2))
  | add r cs rs hnew hins ih =>
    simp only [noStealB, Bool.and_eq_true, List.all_eq_true] at hns
    obtain ⟨hhead, htail⟩ := hns
    -- `r` cannot take a statistic: its donor would be wanted by a later rule
    have hnosr : ∀ c ∈ cs, K.sr c.rule r = false := by
      intro c hc
      by_contra hne
      have hsr : K.sr c.rule r = true := by simpa using hne
      have hd := hhead c hc
      simp only [hsr, hnew c hc, Bool.not_false, Bool.and_self, Bool.not_true, Bool.false_or, List.all_eq_true] at hd
      obtain ⟨r', hr', he⟩ := hins.wanted c hc
      have := hd r' hr'
      simp only [he, Bool.not_true, Bool.false_and, Bool.false_eq_true] at this
    rw [build_cons_fresh K now r rs cs next hnew hnosr]
    exact List.Sublist.cons _ (ih (next+1) htail)

/-! ## decisions_invariant_under_reload -/

/-- a load whose list is, rule by rule, `isEqualsTo` the rules the old controllers are bound to returns exactly the old
    controllers (this is also why the `reflect.DeepEqual` short cut of `LoadRules` needs no modelling) -/
theorem build_self (K : Calc R S) (now : Nat) (new : List R) (old : List (Ctl R S)) (next : Nat)
    (h : List.Forall₂ (fun c r => K.eq c.rule r = true) old new) : build K now new old next = old := by
  induction h generalizing next with
  | nil => rfl
  | @cons c r cs rs hcr _ ih =>
    have := build_cons_eq K now r rs [] c cs next (by simp) hcr
    simp only [List.nil_append] at this
    rw [this, ih]

/-- one step of a history on one rule manager.  Traffic on a resource is *any* function of that resource's controllers
    (entry checks, completions, …) producing an observation; reloads go through either load path. -/
inductive Op (R S O : Type) where
  | traffic (x : Nat) (f : List (Ctl R S) → List (Ctl R S) × O)
  | reload (now : Nat) (rules : List R)
  | reloadRes (now : Nat) (x : Nat) (rules : List R)

def Op.isTraffic {O : Type} : Op R S O → Bool
  | .traffic .. => true
  | _ => false

def stepOp {O : Type} (K : Calc R S) (valid : R → Bool) (res : R → Nat) (m : Mgr R S) : Op R S O → Mgr R S × List (Nat × O)
  | .traffic x f => let (cs, o) := f (m.ctls x); (m.set x cs, [(x, o)])
  | .reload now rules => (m.loadRules K valid res now rules, [])
  | .reloadRes now x rules => (m.loadRulesOfResource K valid res now x rules, [])

/-- the observations of a history, in order, each tagged with its resource -/
def runOps {O : Type} (K : Calc R S) (valid : R → Bool) (res : R → Nat) : Mgr R S → List (Op R S O) → List (Nat × O)
  | _, [] => []
  | m, op :: ops => (stepOp K valid res m op).2 ++ runOps K valid res (stepOp K valid res m op).1 ops

/-- "every reload of the history leaves the rules of resource `x` unchanged": at each reload that touches `x`, the rules
    it lists for `x` are, one by one, `isEqualsTo` the rules `x`'s controllers are bound to at that moment -/
def UnchangedOn {O : Type} (K : Calc R S) (valid : R → Bool) (res : R → Nat) (x : Nat) : Mgr R S → List (Op R S O) → Prop
  | _, [] => True
  | m, op :: ops =>
    (match op with
      | .traffic .. => True
      | .reload _ rules => List.Forall₂ (fun c r => K.eq c.rule r = true) (m.ctls x) (rulesOf valid res x rules)
      | .reloadRes _ y rules => y = x → List.Forall₂ (fun c r => K.eq c.rule r = true) (m.ctls x) (rulesOf valid res x rules))
    ∧ UnchangedOn K valid res x (stepOp K valid res m op).1 ops

theorem decisions_invariant_aux {O : Type} (K : Calc R S) (valid : R → Bool) (res : R → Nat) (x : Nat)
    (ops : List (Op R S O)) (mA mB : Mgr R S) (hm : mA.ctls x = mB.ctls x) (hu : UnchangedOn K valid res x mA ops) :
    (runOps K valid res mA ops).filter (·.1 = x) = (runOps K valid res mB (ops.filter Op.isTraffic)).filter (·.1 = x) := by
  induction ops generalizing mA mB with
  | nil => rfl
  | cons op ops ih =>
    obtain ⟨h1, h2⟩ := hu
    cases op with
    | traffic y f =>
      simp only [List.filter_cons, Op.isTraffic, if_true, runOps, stepOp, List.filter_append] at h2 ⊢
      by_cases hy : y = x
      · subst hy
        simp only [decide_true, if_true, List.filter_nil, List.cons_append, List.nil_append]
        rw [hm] at h2 ⊢
        congr 1
        exact ih _ _ (by simp [Mgr.set]) h2
      · simp only [hy, decide_false, Bool.false_eq_true, if_false, List.filter_nil, List.nil_append]
        exact ih _ _ (by simp [Mgr.set, Ne.symm hy, hm]) h2
    | reload now rules =>
      simp only [List.filter_cons, Op.isTraffic, runOps, stepOp, List.nil_append] at h2 ⊢
      refine ih _ _ ?_ h2
      rw [loadRules_ctls, build_self K now _ _ _ h1, hm]
    | reloadRes now y rules =>
      simp only [List.filter_cons, Op.isTraffic, runOps, stepOp, List.nil_append] at h2 ⊢
      refine ih _ _ ?_ h2
      by_cases hy : y = x
      · subst hy
        rw [loadRulesOfResource_ctls, build_self K now _ _ _ (h1 rfl), hm]
      · rw [loadRulesOfResource_other K valid res now rules mA y x (Ne.symm hy), hm]

/-- **C14, decision level.**  From any manager state (whatever loads and traffic produced it), for every history of
    traffic on any resources with reloads inserted anywhere, through either load path, listing anything at all for the
    *other* resources: if the reloads leave the rules of `x` unchanged, the observations on `x` (decisions, waits,
    blocking rule — whatever the traffic functions return) are exactly those of the same history without the reloads. -/
theorem decisions_invariant_under_reload {O : Type} (K : Calc R S) (valid : R → Bool) (res : R → Nat) (x : Nat)
    (m : Mgr R S) (ops : List (Op R S O)) (hu : UnchangedOn K valid res x m ops) :
    (runOps K valid res m ops).filter (·.1 = x) = (runOps K valid res m (ops.filter Op.isTraffic)).filter (·.1 = x) :=
  decisions_invariant_aux K valid res x ops m m rfl hu

/-- the hypothesis is satisfiable with a real reload that rewrites another resource -/
example : UnchangedOn (O := Unit) cbCalc CbRule.valid (·.res) 7
    { ctls := fun x => if x = 7 then wOld else [], next := 1 } [.reload 6 [wA, ⟨5, 8, 2, 1000, 1, 1000, 1, 0, 3, 0⟩]] := by
  refine ⟨?_, trivial⟩
  show List.Forall₂ _ wOld [wA]
  exact List.Forall₂.cons (by decide) List.Forall₂.nil

/-! ## stat_reuse_keeps_statistics -/

/-- a modified rule (no old controller `isEqualsTo` it) takes over the state component `Calc.reuse` keeps — the
    statistic — of the first old controller it is stat-reusable with -/
theorem stat_reuse_keeps_statistics_head (K : Calc R S) (now : Nat) (r : R) (rs : List R) (l1 : List (Ctl R S))
    (c0 : Ctl R S) (l2 : List (Ctl R S)) (next : Nat)
    (hmod : ∀ x ∈ l1 ++ c0 :: l2, K.eq x.rule r = false) (hfirst : ∀ x ∈ l1, K.sr x.rule r = false)
    (hsr : K.sr c0.rule r = true) :
    ((build K now (r :: rs) (l1 ++ c0 :: l2) next)[0]?).map (·.st) = some (K.reuse r c0.st now) := by
  rw [build_cons_stat K now r rs l1 c0 l2 next hmod hfirst hsr]; rfl

/-- the property's last sentence, list level: the rule at position `j` of the new list is a *modification* (nothing old
    `isEqualsTo` it), `c0` is the only old controller it is stat-reusable with, and no earlier new rule is equal to or
    stat-reusable with `c0`'s rule: then the controller built at `j` carries `c0`'s statistic. -/
theorem stat_reuse_keeps_statistics (K : Calc R S) (now : Nat) (new : List R) (old : List (Ctl R S)) (next j : Nat)
    (r : R) (c0 : Ctl R S) (hc0 : c0 ∈ old) (hj : new[j]? = some r)
    (hmod : ∀ x ∈ old, K.eq x.rule r = false)
    (honly : ∀ x ∈ old, K.sr x.rule r = true → x = c0) (hsr : K.sr c0.rule r = true)
    (hearlier : ∀ i < j, ∀ r', new[i]? = some r' → K.eq c0.rule r' = false ∧ K.sr c0.rule r' = false) :
    ((build K now new old next)[j]?).map (·.st) = some (K.reuse r c0.st now) := by
  induction new generalizing old next j with
  | nil => simp at hj
  | cons r0 rs ih =>
    cases j with
    | zero =>
      simp only [List.getElem?_cons_zero, Option.some.injEq] at hj
      subst hj
      rcases reuseIdx_snd K r0 old 0 hmod with ⟨-, hn⟩ | ⟨l1, d0, l2, e, hl, hd0, -⟩
      · rw [hn c0 hc0] at hsr; exact absurd hsr Bool.false_ne_true
      · have hd : d0 = c0 := honly d0 (by rw [e]; simp) hd0
        subst hd e
        exact stat_reuse_keeps_statistics_head K now r0 rs l1 d0 l2 next hmod hl hd0
    | succ j' =>
      simp only [List.getElem?_cons_succ] at hj
      have h0 := hearlier 0 (Nat.succ_pos _) r0 rfl
      have hrest : ∀ i < j', ∀ r', rs[i]? = some r' → K.eq c0.rule r' = false ∧ K.sr c0.rule r' = false :=
        fun i hi r' hr' => hearlier (i+1) (Nat.succ_lt_succ hi) r' (by simpa using hr')
      -- whatever `r0` consumes, it is not `c0`
      have sub : ∀ (m1 : List (Ctl R S)) (d0 : Ctl R S) (m2 : List (Ctl R S)), old = m1 ++ d0 :: m2 → d0 ≠ c0 →
          ∀ nx, ((build K now rs (m1 ++ m2) nx)[j']?).map (·.st) = some (K.reuse r c0.st now) := by
        intro m1 d0 m2 e hne nx
        have hsubset : ∀ x ∈ m1 ++ m2, x ∈ old := by
          intro x hx; rw [e]; simp only [List.mem_append, List.mem_cons] at hx ⊢; tauto
        refine ih (m1 ++ m2) nx j' ?_ hj (fun x hx => hmod x (hsubset x hx))
          (fun x hx => honly x (hsubset x hx)) hrest
        have : c0 ∈ m1 ++ d0 :: m2 := e ▸ hc0
        simp only [List.mem_append, List.mem_cons] at this ⊢
        rcases this with h | h | h
        · exact Or.inl h
        · exact absurd h.symm hne
        · exact Or.inr h
      by_cases hex : ∃ c' ∈ old, K.eq c'.rule r0 = true
      · obtain ⟨m1, d0, m2, e, hl, hd0, -⟩ := reuseIdx_finds K r0 old 0 none hex
        have hne : d0 ≠ c0 := by
          intro hx; rw [hx, h0.1] at hd0; exact Bool.false_ne_true hd0
        have := sub m1 d0 m2 e hne next
        rw [e, build_cons_eq K now r0 rs m1 d0 m2 next hl hd0]
        simpa using this
      · have hall : ∀ c' ∈ old, K.eq c'.rule r0 = false := by
          intro c' hc'; by_contra hne; exact hex ⟨c', hc', by simpa using hne⟩
        rcases reuseIdx_snd K r0 old 0 hall with ⟨-, hnone⟩ | ⟨m1, d0, m2, e, hl, hd0, -⟩
        · rw [build_cons_fresh K now r0 rs old next hall hnone]
          simp only [List.getElem?_cons_succ]
          exact ih old (next+1) j' hc0 hj hmod honly hrest
        · have hne : d0 ≠ c0 := by
            intro hx; rw [hx, h0.2] at hd0; exact Bool.false_ne_true hd0
          have := sub m1 d0 m2 e hne (next+1)
          rw [e] at hall ⊢
          rw [build_cons_stat K now r0 rs m1 d0 m2 next hall hl hd0]
          simpa using this

/-- what "the statistic" is for the three managers: the breaker's window counters, the flow controller's read statistic -/
theorem cb_reuse_keeps_counters (r : CbRule) (st : CbSt) (now : Nat) : (cbCalc.reuse r st now).arr = st.arr := rfl
theorem hot_reuse_keeps_counters (r : HotRule) (st : HotSt) (now : Nat) : hotCalc.reuse r st now = st := rfl
/-- in particular the per-value concurrency cells (calls in flight) are handed over -/
theorem hot_reuse_keeps_cells (r : HotRule) (st : HotSt) (now : Nat) : (hotCalc.reuse r st now).conc = st.conc := rfl

/-- a hotspot concurrency rule never looks at `BurstCount` / `MaxQueueingTimeMs`: a controller bound to the rule with
    these fields changed decides and updates exactly alike (so such a modification, which goes through the stat-reuse
    path, must be invisible — the oracle claims it) -/
theorem hot_neutral_same_decisions (now arg : Nat) (c : Ctl HotRule HotSt) (hm : c.rule.mtype = 0) :
    hotCheckOne now arg { c with rule := c.rule.neutral }
      = ((hotCheckOne now arg c).1, { (hotCheckOne now arg c).2 with rule := (hotCheckOne now arg c).2.rule.neutral }) := by
  unfold HotRule.neutral
  simp only [hm, if_true, hotCheckOne, hotConcOne]
  cases kvGetI c.st.conc arg <;> simp [hm]

theorem hot_neutral_of_qps (r : HotRule) (hm : r.mtype ≠ 0) : r.neutral = r := by
  simp [HotRule.neutral, hm]

theorem flow_reuse_keeps_stat (r : FlowRule) (st : FlowSt) (now : Nat) : (flowCalc.reuse r st now).stat = st.stat := rfl

/-! ## the metamorphic claim, for the executable model the driver runs

The theorems above are about one rule manager.  This section is about the driver's whole state `Sentinel.Drv.C14.St`
(three managers, resource nodes, clock, memory reading) and its request functions `entry` (op `e`), and `doLoad` (ops
`*.reload`, `*.reloadres`) — the very functions `stepCore` dispatches to (`stepCore_t`, `stepCore_mem`, `stepCore_e`).
`D` is the set of resources a decision on `x` depends on: `x` and every resource the flow rules of `D` read the statistic
of (`Closed`); the oracle computes it as `dependsOn`. -/
section decisions
open Sentinel.Drv.C14

/-- traffic: what both runs execute -/
inductive TOp where
  | clock (t : Nat)
  | mem (m : Nat)
  | e (y : Nat) (err : Bool) (q : Req) (rt : Nat)
  | enter (h y : Nat) (q : Req)          -- `in h y q`: the entry stays in flight under handle `h`
  | leave (h : Nat) (err : Bool)         -- `out h err`

/-- one traffic op on the driver state; a decision is tagged with its resource -/
def TOp.run (s : St) : TOp → St × Option (Nat × String)
  | .clock t => ({ s with now := t }, none)
  | .mem m => ({ s with mem := m }, none)
  | .e y err q rt => ((entry s y err q rt).1, some (y, (entry s y err q rt).2))
  | .enter h y q => ((enterLive s h y q).1, some (y, (enterLive s h y q).2))
  | .leave h err => ((exitLive s h err).1, none)

/-- a handle that holds an entry in flight on a resource of `D` is not given to an entry on a resource outside `D`
    (the generator never reuses a handle at all) -/
def TOp.handleOk (D : List Nat) (s : St) : TOp → Prop
  | .enter h y _ => y ∉ D → ∀ e, liveAt s h = some e → e.2.1 ∉ D
  | _ => True

theorem stepCore_in (s : St) (h x a : String) (hn y : Nat) (q : Req) (hh : h.toNat? = some hn) (hx : x.toNat? = some y)
    (ha : parseReq a = some q) :
    stepCore s ["in", h, x, a] = (((TOp.enter hn y q).run s).1, (((TOp.enter hn y q).run s).2).map (·.2)) := by
  simp [stepCore, hh, hx, ha, TOp.run]

theorem stepCore_out (s : St) (h err : String) (hn e : Nat) (hh : h.toNat? = some hn) (he : err.toNat? = some e) :
    ((stepCore s ["out", h, err]).1) = ((TOp.leave hn (e != 0)).run s).1 := by
  simp [stepCore, hh, he, TOp.run]

theorem stepCore_t (s : St) (t : String) (n : Nat) (h : t.toNat? = some n) :
    stepCore s ["t", t] = (((TOp.clock n).run s).1, none) := by
  simp [stepCore, h, TOp.run]

theorem stepCore_mem (s : St) (t : String) (n : Nat) (h : t.toNat? = some n) :
    stepCore s ["mem", t] = (((TOp.mem n).run s).1, none) := by
  simp [stepCore, h, TOp.run]

theorem stepCore_e (s : St) (x err a rt : String) (y e n : Nat) (q : Req) (hx : x.toNat? = some y) (he : err.toNat? = some e)
    (ha : parseReq a = some q) (hr : rt.toNat? = some n) :
    stepCore s ["e", x, err, a, rt] = (((TOp.e y (e != 0) q n).run s).1, (((TOp.e y (e != 0) q n).run s).2).map (·.2)) := by
  simp [stepCore, hx, he, ha, hr, TOp.run]

/-- a history: traffic, and reloads of one module through either load path (`re` is the op's reload marker, `only` the
    resource of a per-resource load, `arg` the rule-list token) -/
inductive HOp where
  | traffic (o : TOp)
  | reload (modl : String) (re : Bool) (only : Option Nat) (arg : String)

def HOp.isTraffic : HOp → Bool
  | .traffic _ => true
  | _ => false

def HOp.run (s : St) : HOp → St × Option (Nat × String)
  | .traffic o => o.run s
  | .reload modl re only arg => ((doLoad false s modl re only arg).1, none)

/-- the decisions of a history, in order, each tagged with its resource -/
def decisions : St → List HOp → List (Nat × String)
  | _, [] => []
  | s, op :: ops => ((op.run s).2.toList) ++ decisions (op.run s).1 ops

/-- the side conditions, along the run with the reloads: every reload lists, for each resource of `D` it touches, rules `isEqualsTo` the bound ones in order (this excludes the regions of
    `reuse-steals-controller` — nothing is rebuilt, so nothing can be stolen — and of `warmup-reload-resets` — a rule
    with a defaulted cold factor is not `isEqualsTo` its normalised bound rule); a flow reload needs no new node in `D`
    (true of every reachable state: the unchanged rule already made sure of its node when it was first loaded). -/
def Unchanged (D : List Nat) : St → List HOp → Prop
  | _, [] => True
  | s, op :: ops =>
    (match op with
      | .traffic o => o.handleOk D s
      | .reload modl _ only arg =>
        (modl = "cb" ∧ ∀ rules, parseList parseCb arg = some rules → UnchangedFor cbCalc CbRule.valid (·.res) D s.cb only rules) ∨
        (modl = "hot" ∧ ∀ rules, parseList parseHot arg = some rules → UnchangedFor hotCalc HotRule.valid (·.res) D s.hot only rules) ∨
        (modl = "flow" ∧ (∀ rules, parseList parseFlow arg = some rules →
            UnchangedFor flowCalc FlowRule.valid (·.res) D s.flow only rules ∧
            ∀ z ∈ D, (nodeAt s z).isSome ∨ z ∉ flowTargets rules only)))
    ∧ Unchanged D (op.run s).1 ops

theorem Agree.symm' {D : List Nat} {a b : St} (h : Agree D a b) : Agree D b a :=
  ⟨h.now.symm, h.mem.symm, fun z hz => (h.on z hz).symm⟩

theorem Agree.trans' {D : List Nat} {a b c : St} (h : Agree D a b) (g : Agree D b c) : Agree D a c :=
  ⟨h.now.trans g.now, h.mem.trans g.mem, fun z hz => (h.on z hz).trans (g.on z hz)⟩

/-- one traffic op keeps two agreeing states agreeing, and on a resource of `D` it answers alike -/
theorem traffic_step (D : List Nat) (a b : St) (o : TOp) (h : Agree D a b) (hl : LiveRel D a b) (hc : Closed D a)
    (hok : o.handleOk D a) :
    Agree D (o.run a).1 (o.run b).1 ∧ LiveRel D (o.run a).1 (o.run b).1 ∧
    ((o.run a).2.toList.filter (·.1 ∈ D) = (o.run b).2.toList.filter (·.1 ∈ D)) := by
  cases o with
  | clock t => exact ⟨⟨rfl, h.mem, h.on⟩, hl, rfl⟩
  | mem m => exact ⟨⟨h.now, rfl, h.on⟩, hl, rfl⟩
  | e y err q rt =>
    obtain ⟨ha2, haoff, hanow, haat⟩ := entry_spec a y err q rt
    obtain ⟨hb2, hboff, hbnow, hbat⟩ := entry_spec b y err q rt
    simp only [TOp.run, Option.toList]
    refine ⟨h.step haoff hboff (by rw [hanow, hbnow, h.now]) ?_, ?_, ?_⟩
    · intro hy
      rw [haat, hbat, checksOf_agree h hc y hy q, h.now]
    · intro z e he
      simp only [liveAt, entry_live]
      exact hl z e he
    · by_cases hy : y ∈ D
      · simp only [List.filter_cons, hy, decide_true, if_true, List.filter_nil]
        rw [ha2, hb2, checksOf_agree h hc y hy q]
      · simp [List.filter_cons, hy]
  | enter hd y q =>
    obtain ⟨ha2, haoff, hanow, haat, -, hal⟩ := enterLive_spec a hd y q
    obtain ⟨hb2, hboff, hbnow, hbat, -, hbl⟩ := enterLive_spec b hd y q
    simp only [TOp.run, Option.toList]
    by_cases hy : y ∈ D
    · have hR := checksOf_agree h hc y hy q
      refine ⟨h.step haoff hboff (by rw [hanow, hbnow, h.now]) (fun _ => by rw [haat, hbat, hR]), ?_, ?_⟩
      · intro z e he
        rw [hal z, hbl z, hR, h.now]
        split_ifs
        · rfl
        · exact hl z e he
      · simp only [List.filter_cons, hy, decide_true, if_true, List.filter_nil]
        rw [ha2, hb2, hR]
    · refine ⟨h.step haoff hboff (by rw [hanow, hbnow, h.now]) (fun hy' => absurd hy' hy), ?_, by simp [List.filter_cons, hy]⟩
      intro z e he
      rw [hal z, hbl z]
      by_cases hz : z = hd
      · subst hz
        -- neither side holds an entry on a resource of `D` under this handle, before or after
        have hna : ∀ e', liveAt a z = some e' → e'.2.1 ∉ D := hok hy
        have hnb : ∀ e', liveAt b z = some e' → e'.2.1 ∉ D := by
          intro e' he' hD
          exact hna e' ((hl z e' hD).mpr he') hD
        constructor
        · intro hh
          split_ifs at hh
          · simp only [Option.some.injEq] at hh; subst hh; exact absurd he hy
          · exact absurd he (hna e hh)
        · intro hh
          split_ifs at hh
          · simp only [Option.some.injEq] at hh; subst hh; exact absurd he hy
          · exact absurd he (hnb e hh)
      · simp only [hz, and_false, if_false]
        exact hl z e he
  | leave hd err =>
    simp only [TOp.run, Option.toList, List.filter_nil, and_true]
    -- what each side holds under the handle
    rcases hla : liveAt a hd with _ | ⟨h1, xa, qa, sa⟩ <;> rcases hlb : liveAt b hd with _ | ⟨h2, xb, qb, sb⟩
    · rw [exitLive_none a hd err hla, exitLive_none b hd err hlb]; exact ⟨h, hl⟩
    · have hxb : xb ∉ D := fun hD => by
        have := (hl hd (h2, xb, qb, sb) hD).mpr hlb; rw [hla] at this; cases this
      obtain ⟨ob, nb, -, -, lb⟩ := exitLive_some b hd err h2 xb qb sb hlb
      rw [exitLive_none a hd err hla]
      refine ⟨h.step2 (Off.refl' xb a) ob (by rw [nb, h.now]) hxb hxb, ?_⟩
      intro z e he
      rw [lb z]
      by_cases hz : z = hd
      · subst hz; simp only [if_true]; rw [hla]
      · simp only [hz, if_false]; exact hl z e he
    · have hxa : xa ∉ D := fun hD => by
        have := (hl hd (h1, xa, qa, sa) hD).mp hla; rw [hlb] at this; cases this
      obtain ⟨oa, na, -, -, la⟩ := exitLive_some a hd err h1 xa qa sa hla
      rw [exitLive_none b hd err hlb]
      refine ⟨h.step2 oa (Off.refl' xa b) (by rw [na, h.now]) hxa hxa, ?_⟩
      intro z e he
      rw [la z]
      by_cases hz : z = hd
      · subst hz; simp only [if_true]; rw [hlb]
      · simp only [hz, if_false]; exact hl z e he
    · obtain ⟨oa, na, -, pa, la⟩ := exitLive_some a hd err h1 xa qa sa hla
      obtain ⟨ob, nb, -, pb, lb⟩ := exitLive_some b hd err h2 xb qb sb hlb
      have hlive : LiveRel D (exitLive a hd err).1 (exitLive b hd err).1 := by
        intro z e he
        rw [la z, lb z]
        by_cases hz : z = hd
        · simp [hz]
        · simp only [hz, if_false]; exact hl z e he
      by_cases hD : xa ∈ D
      · -- an entry on a resource of `D`: both sides hold the very same one
        have hsame := (hl hd (h1, xa, qa, sa) hD).mp hla
        rw [hlb] at hsame
        simp only [Option.some.injEq, Prod.mk.injEq] at hsame
        obtain ⟨rfl, rfl, rfl, rfl⟩ := hsame
        refine ⟨h.step oa ob (by rw [na, nb, h.now]) (fun _ => ?_), hlive⟩
        have hp := h.on xb hD
        simp only [proj, Prod.mk.injEq] at hp
        rw [pa, pb, hp.1, hp.2.1, hp.2.2.1, hp.2.2.2, h.now]
      · have hDb : xb ∉ D := fun hD' => by
          have hsame := (hl hd (h2, xb, qb, sb) hD').mpr hlb
          rw [hla] at hsame
          simp only [Option.some.injEq, Prod.mk.injEq] at hsame
          exact hD (hsame.2.1 ▸ hD')
        exact ⟨h.step2 oa ob (by rw [na, nb, h.now]) hD hDb, hlive⟩

theorem closed_traffic (D : List Nat) (s : St) (o : TOp) (h : Closed D s) : Closed D (o.run s).1 := by
  cases o with
  | clock t => exact h
  | mem m => exact h
  | e y err q rt => exact closed_entry D s y err q rt h
  | enter hd y q => exact closed_enterLive D s hd y q h
  | leave hd err => exact closed_exitLive D s hd err h

theorem decisions_sim (D : List Nat) (ops : List HOp) (a b : St) (h : Agree D a b) (hl : LiveRel D a b) (hc : Closed D a)
    (hu : Unchanged D a ops) :
    (decisions a ops).filter (·.1 ∈ D) = (decisions b (ops.filter HOp.isTraffic)).filter (·.1 ∈ D) := by
  induction ops generalizing a b with
  | nil => rfl
  | cons op ops ih =>
    obtain ⟨hop, hrest⟩ := hu
    cases op with
    | traffic o =>
      obtain ⟨hag, hlive, hdec⟩ := traffic_step D a b o h hl hc hop
      simp only [List.filter_cons, HOp.isTraffic, if_true, decisions, HOp.run, List.filter_append]
      rw [hdec]
      congr 1
      exact ih _ _ hag hlive (closed_traffic D a o hc) hrest
    | reload modl re only arg =>
      simp only [List.filter_cons, HOp.isTraffic, decisions, HOp.run, Option.toList, List.nil_append]
      have hself : Agree D (doLoad false a modl re only arg).1 a := by
        rcases hop with ⟨rfl, hh⟩ | ⟨rfl, hh⟩ | ⟨rfl, hh⟩
        · exact doLoad_cb_agree D a re only arg hh
        · exact doLoad_hot_agree D a re only arg hh
        · exact doLoad_flow_agree D a re only arg (fun r hr => (hh r hr).1) (fun r hr => (hh r hr).2)
      have hlself : (doLoad false a modl re only arg).1.live = a.live := doLoad_live a modl re only arg
      have hl' : LiveRel D (doLoad false a modl re only arg).1 b := by
        intro z e he; simp only [liveAt, hlself]; exact hl z e he
      exact ih _ _ (Agree.trans' hself h) hl' (closed_of_agree hself hc) hrest

/-- **C14 at decision level, for the model the driver executes.**  From any driver state `s` (whatever history `h`
    produced it): for every continuation of traffic (`t`, `mem`, `e`, `in` / `out` on any resources; handles as in `handleOk`) with reloads of any module inserted
    anywhere, through either load path, saying anything about resources outside `D`: if the flow controllers of `D` read
    only nodes of `D` at the start (`Closed`; traffic and unchanged reloads keep it so) and every reload leaves the rules
    of the resources in `D` unchanged (`Unchanged`), every decision on a resource of `D` — in particular on `x` — is the
    one the same traffic gets without the reloads. -/
theorem decisions_unaffected_by_reload_partial (D : List Nat) (s : St) (ops : List HOp) (hc : Closed D s)
    (hu : Unchanged D s ops) :
    (decisions s ops).filter (·.1 ∈ D) = (decisions s (ops.filter HOp.isTraffic)).filter (·.1 ∈ D) :=
  decisions_sim D ops s s ⟨rfl, rfl, fun _ _ => rfl⟩ (fun _ _ _ => Iff.rfl) hc hu

/-- the form asked for: one reload `r` between a history's state and a tail `t` of traffic -/
theorem decisions_same_with_and_without_one_reload (D : List Nat) (s : St) (modl : String) (re : Bool) (only : Option Nat)
    (arg : String) (t : List TOp) (hc : Closed D s)
    (hu : Unchanged D s (HOp.reload modl re only arg :: t.map HOp.traffic)) :
    (decisions s (HOp.reload modl re only arg :: t.map HOp.traffic)).filter (·.1 ∈ D)
      = (decisions s (t.map HOp.traffic)).filter (·.1 ∈ D) := by
  have := decisions_unaffected_by_reload_partial D s _ hc hu
  rw [this]
  congr 2
  simp only [List.filter_cons, HOp.isTraffic, Bool.false_eq_true, if_false]
  induction t with
  | nil => rfl
  | cons o t ih => simp [List.filter_cons, HOp.isTraffic, ih]

/-! ### handles: a static well-formedness condition on histories instead of `handleOk` along the run -/

/-- "a handle is not reused while it may still be live": `L` = the handles handed out by an `in` and not yet returned by an
    `out`.  A decidable (Boolean) predicate on the op history alone. -/
def wfHandles : List Nat → List HOp → Bool
  | _, [] => true
  | L, .traffic (.enter h _ _) :: ops => !L.contains h && wfHandles (h :: L) ops
  | L, .traffic (.leave h _) :: ops => wfHandles (L.filter (· != h)) ops
  | L, _ :: ops => wfHandles L ops

/-- the handles after one op -/
def handlesAfter (L : List Nat) : HOp → List Nat
  | .traffic (.enter h _ _) => h :: L
  | .traffic (.leave h _) => L.filter (· != h)
  | _ => L

/-- every entry in flight sits under a handle of `L` -/
def LiveIn (L : List Nat) (s : St) : Prop := ∀ z, (liveAt s z).isSome → z ∈ L

theorem liveIn_step (L : List Nat) (s : St) (op : HOp) (h : LiveIn L s) : LiveIn (handlesAfter L op) (op.run s).1 := by
  cases op with
  | reload modl re only arg =>
    intro z hz
    simp only [HOp.run, liveAt, doLoad_live] at hz
    exact h z hz
  | traffic o =>
    cases o with
    | clock t => exact h
    | mem m => exact h
    | e y err q rt =>
      intro z hz
      simp only [HOp.run, TOp.run, liveAt, entry_live] at hz
      exact h z hz
    | enter hd y q =>
      intro z hz
      obtain ⟨-, -, -, -, -, hl⟩ := enterLive_spec s hd y q
      simp only [HOp.run, TOp.run] at hz
      rw [hl z] at hz
      simp only [handlesAfter, List.mem_cons]
      split_ifs at hz with hc
      · exact Or.inl hc.2
      · exact Or.inr (h z hz)
    | leave hd err =>
      intro z hz
      simp only [HOp.run, TOp.run] at hz
      simp only [handlesAfter, List.mem_filter, bne_iff_ne, ne_eq]
      rcases hla : liveAt s hd with _ | ⟨h1, x, q, st⟩
      · rw [exitLive_none s hd err hla] at hz
        refine ⟨h z hz, ?_⟩
        intro e; subst e; rw [hla] at hz; simp at hz
      · obtain ⟨-, -, -, -, hl⟩ := exitLive_some s hd err h1 x q st hla
        rw [hl z] at hz
        split_ifs at hz with hc
        · simp at hz
        · exact ⟨h z hz, hc⟩

theorem wfHandles_cons (L : List Nat) (op : HOp) (ops : List HOp) (h : wfHandles L (op :: ops) = true) :
    wfHandles (handlesAfter L op) ops = true ∧ (∀ hd y q, op = .traffic (.enter hd y q) → hd ∉ L) := by
  cases op with
  | reload modl re only arg => exact ⟨h, by intro _ _ _ e; cases e⟩
  | traffic o =>
    cases o with
    | clock t => exact ⟨h, by intro _ _ _ e; cases e⟩
    | mem m => exact ⟨h, by intro _ _ _ e; cases e⟩
    | e y err q rt => exact ⟨h, by intro _ _ _ e; cases e⟩
    | leave hd err => exact ⟨h, by intro _ _ _ e; cases e⟩
    | enter hd y q =>
      simp only [wfHandles, Bool.and_eq_true, Bool.not_eq_true', List.contains_eq_mem, decide_eq_false_iff_not] at h
      refine ⟨h.2, ?_⟩
      intro hd' y' q' e
      cases e
      exact h.1

/-- the reload conditions of `Unchanged` alone -/
def ReloadsUnchanged (D : List Nat) : St → List HOp → Prop
  | _, [] => True
  | s, op :: ops =>
    (match op with
      | .traffic _ => True
      | .reload modl _ only arg =>
        (modl = "cb" ∧ ∀ rules, parseList parseCb arg = some rules → UnchangedFor cbCalc CbRule.valid (·.res) D s.cb only rules) ∨
        (modl = "hot" ∧ ∀ rules, parseList parseHot arg = some rules → UnchangedFor hotCalc HotRule.valid (·.res) D s.hot only rules) ∨
        (modl = "flow" ∧ (∀ rules, parseList parseFlow arg = some rules →
            UnchangedFor flowCalc FlowRule.valid (·.res) D s.flow only rules ∧
            ∀ z ∈ D, (nodeAt s z).isSome ∨ z ∉ flowTargets rules only)))
    ∧ ReloadsUnchanged D (op.run s).1 ops

/-- for a history whose handles are well-formed, `handleOk` holds all along the run -/
theorem unchanged_of_wf (D : List Nat) (ops : List HOp) (L : List Nat) (s : St) (hL : LiveIn L s)
    (hwf : wfHandles L ops = true) (hR : ReloadsUnchanged D s ops) : Unchanged D s ops := by
  induction ops generalizing L s with
  | nil => trivial
  | cons op ops ih =>
    obtain ⟨hwf', hfresh⟩ := wfHandles_cons L op ops hwf
    obtain ⟨hop, hrest⟩ := hR
    refine ⟨?_, ih _ _ (liveIn_step L s op hL) hwf' hrest⟩
    cases op with
    | reload modl re only arg => exact hop
    | traffic o =>
      cases o with
      | clock t => trivial
      | mem m => trivial
      | e y err q rt => trivial
      | leave hd err => trivial
      | enter hd y q =>
        intro _ e he
        have : hd ∈ L := hL hd (by rw [he]; rfl)
        exact absurd this (hfresh hd y q rfl)

/-- the driver state after a history -/
def stateAfter : St → List HOp → St
  | s, [] => s
  | s, op :: ops => stateAfter (op.run s).1 ops

theorem wf_after (L : List Nat) (s : St) (h ops : List HOp) (hL : LiveIn L s) (hwf : wfHandles L (h ++ ops) = true) :
    ∃ L', LiveIn L' (stateAfter s h) ∧ wfHandles L' ops = true := by
  induction h generalizing L s with
  | nil => exact ⟨L, hL, hwf⟩
  | cons op h ih =>
    obtain ⟨hwf', -⟩ := wfHandles_cons L op (h ++ ops) hwf
    exact ih _ _ (liveIn_step L s op hL) hwf'

/-- **C14 at decision level, from the initial state.**  `h` is any history whatsoever from the driver's initial state
    (loads of anything, traffic, reloads); `ops` continues it with traffic and reloads.  If the handles of the whole history
    are well-formed (`wfHandles []`, a Boolean on the ops), `D` is closed (the flow controllers of `D` read only nodes of
    `D`: that is what makes `D` "`x` and every resource `x`'s rules refer to"), and every reload in `ops` leaves the rules of
    `D` unchanged, the decisions on `D` in `h ++ ops` after `h` are those of `h ++ (ops without the reloads)`. -/
theorem decisions_unaffected_by_reload_from_initial (D : List Nat) (h ops : List HOp)
    (hwf : wfHandles [] (h ++ ops) = true) (hc : Closed D (stateAfter {} h))
    (hR : ReloadsUnchanged D (stateAfter {} h) ops) :
    (decisions (stateAfter {} h) ops).filter (·.1 ∈ D)
      = (decisions (stateAfter {} h) (ops.filter HOp.isTraffic)).filter (·.1 ∈ D) := by
  obtain ⟨L', hL', hwf'⟩ := wf_after [] {} h ops (by intro z hz; simp [liveAt] at hz) hwf
  exact decisions_unaffected_by_reload_partial D _ ops hc (unchanged_of_wf D ops L' _ hL' hwf' hR)

/-! ### the node side condition, discharged for reachable states -/

theorem nodesThere_run (s : St) (op : HOp) (h : NodesThere s) : NodesThere (op.run s).1 := by
  cases op with
  | reload modl re only arg => exact nodesThere_doLoad s modl re only arg h
  | traffic o =>
    cases o with
    | clock t => exact h
    | mem m => exact h
    | e y err q rt => exact nodesThere_entry s y err q rt h
    | enter hd y q => exact nodesThere_enterLive s hd y q h
    | leave hd err => exact nodesThere_exitLive s hd err h

/-- the invariant holds in every state reachable from the initial one -/
theorem nodesThere_reachable (h : List HOp) : NodesThere (stateAfter {} h) := by
  have gen : ∀ (s : St), NodesThere s → NodesThere (stateAfter s h) := by
    induction h with
    | nil => intro s hs; exact hs
    | cons op ops ih => intro s hs; exact ih _ (nodesThere_run s op hs)
  exact gen {} (by intro y c hc; simp [Mgr.empty] at hc)

/-- "each reload lists rules `isEqualsTo` the bound ones on `D`" — and nothing else about the state: for a flow reload the
    node condition of `ReloadsUnchanged` is replaced by a condition on the rule list alone (no rule of a resource outside `D`
    reads the statistic of a resource of `D`; such a rule cannot change a decision on `D`, but it would make the reload create
    `D`'s node earlier than the traffic does, and the proof compares states literally) -/
def ReloadsUnchangedStatic (D : List Nat) : St → List HOp → Prop
  | _, [] => True
  | s, op :: ops =>
    (match op with
      | .traffic _ => True
      | .reload modl _ only arg =>
        (modl = "cb" ∧ ∀ rules, parseList parseCb arg = some rules → UnchangedFor cbCalc CbRule.valid (·.res) D s.cb only rules) ∨
        (modl = "hot" ∧ ∀ rules, parseList parseHot arg = some rules → UnchangedFor hotCalc HotRule.valid (·.res) D s.hot only rules) ∨
        (modl = "flow" ∧ (∀ rules, parseList parseFlow arg = some rules →
            UnchangedFor flowCalc FlowRule.valid (·.res) D s.flow only rules ∧
            ∀ r ∈ rules, ruleTgt r ∈ D → r.res ∈ D)))
    ∧ ReloadsUnchangedStatic D (op.run s).1 ops

theorem reloadsUnchanged_of_static (D : List Nat) (ops : List HOp) (s : St) (hn : NodesThere s)
    (h : ReloadsUnchangedStatic D s ops) : ReloadsUnchanged D s ops := by
  induction ops generalizing s with
  | nil => trivial
  | cons op ops ih =>
    obtain ⟨hop, hrest⟩ := h
    refine ⟨?_, ih _ (nodesThere_run s op hn) hrest⟩
    cases op with
    | traffic o => trivial
    | reload modl re only arg =>
      rcases hop with hh | hh | ⟨hm, hh⟩
      · exact Or.inl hh
      · exact Or.inr (Or.inl hh)
      · refine Or.inr (Or.inr ⟨hm, fun rules hp => ?_⟩)
        obtain ⟨hu, hin⟩ := hh rules hp
        exact ⟨hu, flow_nodes_present D s only rules hn hu hin⟩

/-- **C14 at decision level, for reachable states, side conditions discharged.**  `h` any history from the initial
    state, `ops` any continuation; handles well-formed (Boolean `wfHandles`); `D` closed; every reload of `ops` lists, for the
    resources of `D` it touches, rules `isEqualsTo` the bound ones in order (and, for flow, no rule of another resource that
    reads `D`'s statistic).  Then the decisions on `D` are those of the same traffic without the reloads. -/
theorem decisions_unaffected_by_reload_reachable (D : List Nat) (h ops : List HOp)
    (hwf : wfHandles [] (h ++ ops) = true) (hc : Closed D (stateAfter {} h))
    (hR : ReloadsUnchangedStatic D (stateAfter {} h) ops) :
    (decisions (stateAfter {} h) ops).filter (·.1 ∈ D)
      = (decisions (stateAfter {} h) (ops.filter HOp.isTraffic)).filter (·.1 ∈ D) :=
  decisions_unaffected_by_reload_from_initial D h ops hwf hc
    (reloadsUnchanged_of_static D ops _ (nodesThere_reachable h) hR)

end decisions

end Sentinel.C14
