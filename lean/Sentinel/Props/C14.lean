import Sentinel.Lemmas.Reuse
/-!
# C14 — Reloading rules does not disturb the runtime state of unchanged rules
(property theorems only; helper lemmas live in `Sentinel/Lemmas/Reuse.lean`)

Reading guide.  `K : Calc R S` is one rule manager's calculus (`K.eq` = `isEqualsTo`, `K.sr` = `isStatReusable`,
instances `cbCalc`, `flowCalc`, `hotCalc` in `Sentinel/Model/Reuse.lean`).  A controller `Ctl R S` carries its identity,
its bound rule and its mutable state; `build K now new old next` is `build…Controller(new rules, old controllers)`;
`Mgr.loadRules` / `Mgr.loadRulesOfResource` are the two load paths.  "Bound to the old controller" is literally
"the same `Ctl` value (same id, same state) sits at that position of the new list".
-/
namespace Sentinel.C14
open Sentinel.Reuse

variable {R S : Type}

/-- `isEqualsTo` is a partial equivalence (it is not reflexive on rules with an unknown strategy) -/
structure EqPER (K : Calc R S) : Prop where
  symm : ∀ a b, K.eq a b = true → K.eq b a = true
  trans : ∀ a b c, K.eq a b = true → K.eq b c = true → K.eq a c = true

theorem cb_eqPER : EqPER cbCalc where
  symm a b h := by
    simp only [cbCalc, CbRule.eq, Bool.and_eq_true, beq_iff_eq] at h ⊢
    obtain ⟨⟨⟨⟨⟨⟨⟨h1, h2⟩, h3⟩, h4⟩, h5⟩, h6⟩, h7⟩, h8⟩ := h
    refine ⟨⟨⟨⟨⟨⟨⟨h1.symm, h2.symm⟩, h3.symm⟩, h4.symm⟩, h5.symm⟩, h6.symm⟩, h7.symm⟩, ?_⟩
    rw [h2]
    split_ifs at h8 ⊢ <;> simp_all
  trans a b c h g := by
    simp only [cbCalc, CbRule.eq, Bool.and_eq_true, beq_iff_eq] at h g ⊢
    obtain ⟨⟨⟨⟨⟨⟨⟨h1, h2⟩, h3⟩, h4⟩, h5⟩, h6⟩, h7⟩, h8⟩ := h
    obtain ⟨⟨⟨⟨⟨⟨⟨g1, g2⟩, g3⟩, g4⟩, g5⟩, g6⟩, g7⟩, g8⟩ := g
    refine ⟨⟨⟨⟨⟨⟨⟨h1.trans g1, h2.trans g2⟩, h3.trans g3⟩, h4.trans g4⟩, h5.trans g5⟩, h6.trans g6⟩, h7.trans g7⟩, ?_⟩
    rw [← g2] at g8 ⊢
    split_ifs at h8 g8 ⊢ <;> simp_all

theorem flow_eqPER : EqPER flowCalc where
  symm a b h := by
    simp only [flowCalc, FlowRule.eq, Bool.and_eq_true, beq_iff_eq] at h ⊢
    obtain ⟨⟨⟨⟨⟨⟨⟨⟨⟨h1, h2⟩, h3⟩, h4⟩, h5⟩, h6⟩, h7⟩, h8⟩, h9⟩, h10⟩ := h
    exact ⟨⟨⟨⟨⟨⟨⟨⟨⟨h1.symm, h2.symm⟩, h3.symm⟩, h4.symm⟩, h5.symm⟩, h6.symm⟩, h7.symm⟩, h8.symm⟩, h9.symm⟩, h10.symm⟩
  trans a b c h g := by
    simp only [flowCalc, FlowRule.eq, Bool.and_eq_true, beq_iff_eq] at h g ⊢
    obtain ⟨⟨⟨⟨⟨⟨⟨⟨⟨h1, h2⟩, h3⟩, h4⟩, h5⟩, h6⟩, h7⟩, h8⟩, h9⟩, h10⟩ := h
    obtain ⟨⟨⟨⟨⟨⟨⟨⟨⟨g1, g2⟩, g3⟩, g4⟩, g5⟩, g6⟩, g7⟩, g8⟩, g9⟩, g10⟩ := g
    exact ⟨⟨⟨⟨⟨⟨⟨⟨⟨h1.trans g1, h2.trans g2⟩, h3.trans g3⟩, h4.trans g4⟩, h5.trans g5⟩, h6.trans g6⟩, h7.trans g7⟩,
      h8.trans g8⟩, h9.trans g9⟩, h10.trans g10⟩

/-! ## unchanged_keeps_controller -/

/-- the old controllers an occurrence of `r` may be bound to: those whose rule `isEqualsTo` it, in list order -/
def matching (K : Calc R S) (r : R) (old : List (Ctl R S)) : List (Ctl R S) := old.filter fun c => K.eq c.rule r

/-- which occurrence of (the class of) `r` the position `j` of the new list is -/
def occurrence (K : Calc R S) (new : List R) (j : Nat) (r : R) : Nat := (new.take j).countP fun r' => K.eq r' r

/-- **The property as stated** (multiset semantics): whenever the rule at position `j` of the new list is the `k`-th
    occurrence of its class and the old list has a `k`-th controller of that class, that very controller (same identity,
    same state) is at position `j` of the result — whatever else the list contains.  If `r` occurs `m` times in the old
    list and `m'` times in the new one, this binds the first `min m m'` occurrences.
    It is **false** of the three rule managers (`steal_witness`); it holds under `noStealB` (`unchanged_keeps_controller_partial`). -/
def unchanged_keeps_controller_statement (K : Calc R S) : Prop :=
  ∀ (now : Nat) (new : List R) (old : List (Ctl R S)) (next j : Nat) (r : R) (c : Ctl R S),
    new[j]? = some r → (matching K r old)[occurrence K new j r]? = some c →
    (build K now new old next)[j]? = some c

/-- C14, controller level, under the hypothesis "no rule earlier in the new list is stat-reusable-but-unequal with an
    old controller whose rule occurs later in the new list" (`noStealB`, decidable). -/
theorem unchanged_keeps_controller_partial (K : Calc R S) (hK : EqPER K) (now : Nat) (new : List R)
    (old : List (Ctl R S)) (next j : Nat) (r : R) (c : Ctl R S)
    (hns : noStealB K new old = true)
    (hj : new[j]? = some r) (hc : (matching K r old)[occurrence K new j r]? = some c) :
    (build K now new old next)[j]? = some c := by
  induction new generalizing old next j with
  | nil => simp at hj
  | cons r0 rs ih =>
    simp only [noStealB, Bool.and_eq_true, List.all_eq_true] at hns
    obtain ⟨hhead, htail⟩ := hns
    by_cases hex : ∃ c' ∈ old, K.eq c'.rule r0 = true
    · -- r0 finds an equal controller: the first one of its class
      obtain ⟨l1, c0, l2, e, hl, hc0, -⟩ := reuseIdx_finds K r0 old 0 none hex
      subst e
      rw [build_cons_eq K now r0 rs l1 c0 l2 next hl hc0]
      cases j with
      | zero =>
        simp only [List.getElem?_cons_zero, Option.some.injEq] at hj
        subst hj
        simp only [occurrence, List.take_zero, List.countP_nil, matching, List.filter_append,
          List.filter_cons, hc0, if_true] at hc
        have : l1.filter (fun c => K.eq c.rule r0) = [] := by
          rw [List.filter_eq_nil_iff]; intro x hx; simp [hl x hx]
        rw [this] at hc
        simpa using hc
      | succ j' =>
        simp only [List.getElem?_cons_succ] at hj ⊢
        refine ih (l1 ++ l2) next j' (noStealB_mono K rs _ _ (by intro x hx; simp at hx ⊢; tauto) htail) hj ?_
        simp only [occurrence, List.take_succ_cons, List.countP_cons, matching, List.filter_append,
          List.filter_cons] at hc ⊢
        by_cases h0 : K.eq r0 r = true
        · have hp : K.eq c0.rule r = true := hK.trans _ _ _ hc0 h0
          have hl1 : l1.filter (fun c => K.eq c.rule r) = [] := by
            rw [List.filter_eq_nil_iff]; intro x hx hxr
            have := hK.trans _ _ _ hxr (hK.symm _ _ h0)
            rw [hl x hx] at this; exact Bool.false_ne_true this
          simp only [h0, if_true, hp, hl1, List.nil_append] at hc ⊢
          simpa using hc
        · have hp : K.eq c0.rule r = false := by
            by_contra hne
            have hne' : K.eq c0.rule r = true := by simpa using hne
            exact h0 (hK.trans _ _ _ (hK.symm _ _ hc0) hne')
          simp only [h0, hp, Bool.false_eq_true, if_false, Nat.add_zero] at hc ⊢
          exact hc
    · -- r0 has no equal controller: it is built anew (fresh, or on the statistic of the first stat-reusable one)
      have hall : ∀ c' ∈ old, K.eq c'.rule r0 = false := by
        intro c' hc'; by_contra hne; exact hex ⟨c', hc', by simpa using hne⟩
      cases j with
      | zero =>
        exfalso
        simp only [List.getElem?_cons_zero, Option.some.injEq] at hj
        subst hj
        have hm : c ∈ matching K r0 old := List.mem_of_getElem? hc
        simp only [matching, List.mem_filter] at hm
        rw [hall c hm.1] at hm; exact Bool.false_ne_true hm.2
      | succ j' =>
        have hcm : c ∈ matching K r old := List.mem_of_getElem? hc
        simp only [matching, List.mem_filter] at hcm
        have h0 : ¬ K.eq r0 r = true := by
          intro h0
          have := hK.trans _ _ _ hcm.2 (hK.symm _ _ h0)
          rw [hall c hcm.1] at this; exact Bool.false_ne_true this
        have hocc : occurrence K (r0 :: rs) (j'+1) r = occurrence K rs j' r := by
          simp [occurrence, List.take_succ_cons, h0]
        rw [hocc] at hc
        have hrmem : r ∈ rs := by
          simp only [List.getElem?_cons_succ] at hj; exact List.mem_of_getElem? hj
        rcases reuseIdx_snd K r0 old 0 hall with ⟨-, hnone⟩ | ⟨l1, c0, l2, e, hl, hc0, -⟩
        · rw [build_cons_fresh K now r0 rs old next hall hnone]
          simp only [List.getElem?_cons_succ] at hj ⊢
          exact ih old (next+1) j' htail hj hc
        · subst e
          rw [build_cons_stat K now r0 rs l1 c0 l2 next hall hl hc0]
          simp only [List.getElem?_cons_succ] at hj ⊢
          refine ih (l1 ++ l2) (next+1) j' (noStealB_mono K rs _ _ (by intro x hx; simp at hx ⊢; tauto) htail) hj ?_
          -- the donor is not wanted by any later rule, in particular not by `r`
          have hd := hhead c0 (by simp)
          simp only [hc0, hall c0 (by simp), Bool.not_false, Bool.and_self, Bool.not_true, Bool.false_or,
            List.all_eq_true, Bool.not_eq_eq_eq_not] at hd
          have hp : K.eq c0.rule r = false := by simpa using hd r hrmem
          simp only [matching, List.filter_append, List.filter_cons, hp, Bool.false_eq_true, if_false] at hc ⊢
          exact hc

/-- the hypothesis of the partial theorem is satisfiable and the conclusion is not vacuous: old `[A]`, new `[A, A′]` -/
example : noStealB cbCalc [⟨1,7,2,60000,1,10000,1,0,1,0⟩, ⟨2,7,2,60000,1,10000,1,0,50,0⟩]
    [⟨0, ⟨1,7,2,60000,1,10000,1,0,1,0⟩, cbFresh ⟨1,7,2,60000,1,10000,1,0,1,0⟩ 5⟩] = true := by decide

/-! ### the finding `reuse-steals-controller` -/

/-- breaker `A` (controller 0) is **open** until 60005; new list `[A′, A]` with `A′` = `A` with threshold 50:
    `A′` takes `A`'s statistic and removes controller 0 from the candidates, `A` is rebuilt as controller 2, closed. -/
def wA : CbRule := ⟨1, 7, 2, 60000, 1, 10000, 1, 0, 1, 0⟩
def wA' : CbRule := ⟨2, 7, 2, 60000, 1, 10000, 1, 0, 50, 0⟩
def wOld : List (Ctl CbRule CbSt) := [⟨0, wA, { state := 2, retryAt := 60005, arr := LA.mk 1 10000 5 }⟩]

theorem steal_witness :
    (build cbCalc 6 [wA', wA] wOld 1).map (fun c => (c.id, c.rule.id, c.st.state)) = [(1, 2, 0), (2, 1, 0)]
    ∧ (cbCheck 6 wOld).1 = some 1                                   -- without the reload: blocked by rule 1
    ∧ (cbCheck 6 (build cbCalc 6 [wA', wA] wOld 1)).1 = none        -- after it: admitted
    ∧ (build cbCalc 6 [wA, wA'] wOld 1).map (fun c => (c.id, c.rule.id, c.st.state)) = [(0, 1, 2), (1, 2, 0)] := by
  decide

/-- so the statement as given does not hold of the circuit-breaker manager -/
theorem unchanged_keeps_controller_fails_witness : ¬ unchanged_keeps_controller_statement cbCalc := by
  intro h
  have := h 6 [wA', wA] wOld 1 1 wA ⟨0, wA, { state := 2, retryAt := 60005, arr := LA.mk 1 10000 5 }⟩ (by rfl) (by rfl)
  have h2 : ((build cbCalc 6 [wA', wA] wOld 1)[1]?).map (·.id) = some 2 := by decide
  rw [this] at h2
  exact absurd h2 (by decide)

/-- the same shape in the flow manager: `W` (warm-up) and `D` (direct/reject) on one resource are stat-reusable -/
theorem steal_witness_flow :
    (build flowCalc 6 [⟨2,7,0,0,50,0,0,0,0,0,0⟩, ⟨1,7,1,0,10,0,0,0,10,3,0⟩]
        [⟨0, ⟨1,7,1,0,10,0,0,0,10,3,0⟩, { tokens := 77, lastFilled := 5000 }⟩] 1).map (fun c => (c.id, c.st.tokens))
      = [(1, 0), (2, 0)] := by decide

/-! ### the finding `warmup-reload-resets` -/

/-- a warm-up rule whose cold factor is left to default (0): the constructor wrote 3 into the bound rule, so the
    identical rule of the next load is not `isEqualsTo` it — the controller is rebuilt (tokens 0) on the old statistic;
    with the factor given explicitly the controller is kept. -/
theorem warmup_reload_witness :
    let w0 : FlowRule := ⟨1, 7, 1, 0, 10, 0, 0, 0, 10, 0, 0⟩
    let w3 : FlowRule := ⟨1, 7, 1, 0, 10, 0, 0, 0, 10, 3, 0⟩
    let warmed (cs : List (Ctl FlowRule FlowSt)) := cs.map fun c => { c with st := { c.st with tokens := 77, lastFilled := 5000 } }
    ((build flowCalc 9 [w0] (warmed (build flowCalc 1 [w0] [] 0)) 1).map fun c => (c.id, c.st.tokens)) = [(1, 0)]
    ∧ ((build flowCalc 9 [w3] (warmed (build flowCalc 1 [w3] [] 0)) 1).map fun c => (c.id, c.st.tokens)) = [(0, 77)] := by
  decide

/-! ## both load paths are this builder, per resource -/

theorem loadRules_ctls (K : Calc R S) (valid : R → Bool) (res : R → Nat) (now : Nat) (rules : List R) (m : Mgr R S) (x : Nat) :
    (m.loadRules K valid res now rules).ctls x = build K now (rulesOf valid res x rules) (m.ctls x) m.next := rfl

theorem loadRulesOfResource_ctls (K : Calc R S) (valid : R → Bool) (res : R → Nat) (now : Nat) (rules : List R)
    (m : Mgr R S) (x : Nat) :
    (m.loadRulesOfResource K valid res now x rules).ctls x = build K now (rulesOf valid res x rules) (m.ctls x) m.next := by
  simp [Mgr.loadRulesOfResource]

/-- a per-resource load leaves every other resource's controllers alone -/
theorem loadRulesOfResource_other (K : Calc R S) (valid : R → Bool) (res : R → Nat) (now : Nat) (rules : List R)
    (m : Mgr R S) (x y : Nat) (h : y ≠ x) :
    (m.loadRulesOfResource K valid res now x rules).ctls y = m.ctls y := by
  simp [Mgr.loadRulesOfResource, h]

/-- `unchanged_keeps_controller_partial` for `LoadRules`: whatever the list says about *other* resources -/
theorem unchanged_keeps_controller_partial_LoadRules (K : Calc R S) (hK : EqPER K) (valid : R → Bool) (res : R → Nat)
    (now : Nat) (rules : List R) (m : Mgr R S) (x j : Nat) (r : R) (c : Ctl R S)
    (hns : noStealB K (rulesOf valid res x rules) (m.ctls x) = true)
    (hj : (rulesOf valid res x rules)[j]? = some r)
    (hc : (matching K r (m.ctls x))[occurrence K (rulesOf valid res x rules) j r]? = some c) :
    ((m.loadRules K valid res now rules).ctls x)[j]? = some c :=
  unchanged_keeps_controller_partial K hK now _ _ _ j r c hns hj hc

theorem unchanged_keeps_controller_partial_LoadRulesOfResource (K : Calc R S) (hK : EqPER K) (valid : R → Bool)
    (res : R → Nat) (now : Nat) (rules : List R) (m : Mgr R S) (x j : Nat) (r : R) (c : Ctl R S)
    (hns : noStealB K (rulesOf valid res x rules) (m.ctls x) = true)
    (hj : (rulesOf valid res x rules)[j]? = some r)
    (hc : (matching K r (m.ctls x))[occurrence K (rulesOf valid res x rules) j r]? = some c) :
    ((m.loadRulesOfResource K valid res now x rules).ctls x)[j]? = some c := by
  rw [loadRulesOfResource_ctls]
  exact unchanged_keeps_controller_partial K hK now _ _ _ j r c hns hj hc

end Sentinel.C14
