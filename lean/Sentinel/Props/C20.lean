import Sentinel.Lemmas.Outlier
/-!
# C20 — Outlier ejection never removes more than the allowed share of nodes
(property theorems only; helper lemmas live in `Sentinel/Lemmas/Outlier.lean`)

Reading guide.  `r : Res` is the outlier state of one resource (rule, node-breaker map, recycler
map), `now` the time of the request, `ord` the order in which Go's `range` happens to visit the node
map — **any** permutation of `r.nodes`.  `(r.check now ord).2` is what `checkAllNodes` reports
(`filters`, `outliers`, `halfs`); `b.tryPass r.rule.cb now` is the real `TryPass` of the node's breaker
(result `.2`, breaker afterwards `.1`).  `r.rule.cap n` is the code's `int(float64(n) * MaxEjectionPercent)`;
`capF64 n m E` is that expression for the binary64 value `m / 2^E`, `capExact n m E = ⌊n·m/2^E⌋`.
All definitions are the ones of `Sentinel/Model/Outlier.lean` that the driver executes.
-/
namespace Sentinel.C20
open Sentinel.Outlier

/-- node `a`'s breaker rejects traffic at `now` -/
def Rejecting (r : Res) (now : Nat) (a : String) : Prop :=
  ∃ b, (a, b) ∈ r.nodes ∧ (b.tryPass r.rule.cb now).2 = false

/-- number of nodes whose breaker rejects traffic at `now` -/
def numRejecting (r : Res) (now : Nat) : Nat :=
  (r.nodes.filter fun p => !(p.2.tryPass r.rule.cb now).2).length

/-- closed form of the loop: the filter list is the first `cap` rejecting nodes **in iteration order** -/
theorem filters_eq (r : Res) (now : Nat) (ord : Nodes) :
    (r.check now ord).2.filters =
      (rejAddrs (ord.map (viewOf r.rule.cb now))).take (r.rule.cap r.nodes.length) := by
  unfold Res.check; simp only; rw [collect_filters]

private theorem rejAddrs_length (cb : CbRule) (now : Nat) (ns : Nodes) :
    (rejAddrs (ns.map (viewOf cb now))).length = (ns.filter fun p => !(p.2.tryPass cb now).2).length := by
  unfold rejAddrs
  rw [List.length_map, List.filter_map, List.length_map]
  rfl

/-- **The filter list contains only nodes whose breaker currently rejects traffic** — for every
    iteration order. -/
theorem filter_subset_rejecting (r : Res) (now : Nat) (ord : Nodes) (hp : ord.Perm r.nodes) :
    ∀ a ∈ (r.check now ord).2.filters, Rejecting r now a := by
  intro a ha
  rw [filters_eq] at ha
  have ha := List.mem_of_mem_take ha
  unfold rejAddrs at ha
  simp only [List.mem_map, List.mem_filter, Bool.not_eq_true'] at ha
  obtain ⟨v, ⟨⟨p, hpm, rfl⟩, hv⟩, rfl⟩ := ha
  exact ⟨p.2, hp.subset hpm, hv⟩

/-- **Its size never exceeds the cap the code computes** — for every iteration order. -/
theorem filter_card_le_cap (r : Res) (now : Nat) (ord : Nodes) :
    (r.check now ord).2.filters.length ≤ r.rule.cap r.nodes.length := by
  rw [filters_eq, List.length_take]; exact Nat.min_le_left _ _

/-- … and is exactly `min cap #rejecting`: the cap is the only reason a rejecting node is left out. -/
theorem filter_card_eq_min (r : Res) (now : Nat) (ord : Nodes) (hp : ord.Perm r.nodes) :
    (r.check now ord).2.filters.length = min (r.rule.cap r.nodes.length) (numRejecting r now) := by
  rw [filters_eq, List.length_take, rejAddrs_length]
  unfold numRejecting
  rw [(hp.filter _).length_eq]

/-- no node is reported twice (node addresses are map keys) -/
theorem filter_nodup (r : Res) (now : Nat) (ord : Nodes) (hp : ord.Perm r.nodes)
    (hk : (r.nodes.map (·.1)).Nodup) : (r.check now ord).2.filters.Nodup := by
  rw [filters_eq]
  apply List.Nodup.sublist (List.take_sublist _ _)
  unfold rejAddrs
  have h1 : (ord.map (·.1)).Nodup := (hp.map _).nodup_iff.2 hk
  have h2 : ((ord.map (viewOf r.rule.cb now)).map (·.addr)).Nodup := by
    rw [List.map_map]; exact h1
  exact List.Nodup.sublist (List.Sublist.map _ List.filter_sublist) h2

/-- the outlier list (what is handed to the recycler / retryer) is exactly the rejecting nodes -/
theorem outliers_exact (r : Res) (now : Nat) (ord : Nodes) (hp : ord.Perm r.nodes) (a : String) :
    a ∈ (r.check now ord).2.outliers ↔ Rejecting r now a := by
  unfold Res.check; simp only; rw [collect_outliers]
  unfold rejAddrs Rejecting
  simp only [List.mem_map, List.mem_filter, Bool.not_eq_true']
  constructor
  · rintro ⟨v, ⟨⟨p, hpm, rfl⟩, hv⟩, rfl⟩
    exact ⟨p.2, hp.subset hpm, hv⟩
  · rintro ⟨b, hb, hv⟩
    exact ⟨viewOf r.rule.cb now (a, b), ⟨⟨(a, b), hp.symm.subset hb, rfl⟩, hv⟩, rfl⟩

/-- **The half-open list is exactly the passively probed nodes**: passive mode (active recovery off),
    the breaker let the request through, and it is half-open afterwards (this includes a breaker that
    moved Open → HalfOpen in this very call). -/
theorem halfopen_exact (r : Res) (now : Nat) (ord : Nodes) (hp : ord.Perm r.nodes) (a : String) :
    a ∈ (r.check now ord).2.halfs ↔
      r.rule.active = false ∧ ∃ b, (a, b) ∈ r.nodes ∧ (b.tryPass r.rule.cb now).2 = true ∧
        (b.tryPass r.rule.cb now).1.state = .halfOpen := by
  unfold Res.check; simp only; rw [collect_halfs]
  unfold halfAddrs
  simp only [List.mem_map, List.mem_filter, Bool.and_eq_true, Bool.not_eq_true', beq_iff_eq]
  constructor
  · rintro ⟨v, ⟨⟨p, hpm, rfl⟩, hv1, hv2, hv3⟩, rfl⟩
    exact ⟨hv2, p.2, hp.subset hpm, hv1, hv3⟩
  · rintro ⟨hact, b, hb, h1, h2⟩
    exact ⟨viewOf r.rule.cb now (a, b), ⟨⟨(a, b), hp.symm.subset hb, rfl⟩, h1, hact, h2⟩, rfl⟩

/-- the state after the loop does not depend on the iteration order (each breaker is asked once) -/
theorem check_state_order_independent (r : Res) (now : Nat) (ord ord' : Nodes) :
    (r.check now ord).1.nodes = (r.check now ord').1.nodes := rfl

example : ∃ r : Res, ∃ now, Rejecting r now "a" :=
  ⟨{ rule := { cb := ⟨1, 1, 0, 1, 1, fun _ e => e, fun _ _ => true⟩, active := false, cap := fun n => n },
     nodes := [("a", { state := .opened, nextRetry := 5, stat := LA.mk 1 1 1 })] }, 0,
   _, List.mem_cons_self .., rfl⟩

/-! ## the recycler: a node that completed successfully is not recycled -/

/-- everything that can happen to one resource's outlier state -/
inductive Ev
  | check (now : Nat) (ord : Nodes)                         -- a request's `Slot.Check`
  | completed (now : Nat) (a : String) (rt : Nat) (err : Bool)  -- `MetricStatSlot.OnCompleted`
  | retryOk (now : Nat) (a : String) (rt : Nat)             -- `Retryer.onConnected`
  | recycle (a : String)                                    -- the recycler's timer for node `a`
  | reload (rule : Rule)                                    -- rule update keeping the breakers
  | rebuild (rule : Rule) (now : Nat) (reuseStat : Bool)    -- rule update with a changed breaker part: all breakers rebuilt Closed
  | clear                                                   -- `LoadRuleOfResource(res, nil)`, or a bulk load that drops the resource
  | retryFail (a : String)                                  -- `Retryer.onDisconnected`: a failed active check

def step (r : Res) : Ev → Res
  | .check now ord => (r.check now ord).1
  | .completed now a rt err => r.completed now a rt err
  | .retryOk now a rt => r.retryOk now a rt
  | .recycle a => r.recycle a
  | .reload rule => { r with rule := rule }
  | .rebuild rule now reuse => r.rebuild rule now reuse
  | .clear => r.clear
  | .retryFail a => r.retryFail a

/-- **A reload that rebuilds the node breakers (all Closed) does not change the recycler's status map**:
    a node scheduled before the reload is still scheduled, a node marked recovered is still marked. -/
theorem rebuild_keeps_status (r : Res) (rule : Rule) (now : Nat) (reuse : Bool) :
    (r.rebuild rule now reuse).status = r.status := rfl

/-- … nor the set of known nodes, and every rebuilt breaker is Closed -/
theorem rebuild_nodes (r : Res) (rule : Rule) (now : Nat) (reuse : Bool) :
    (r.rebuild rule now reuse).nodes.map (·.1) = r.nodes.map (·.1) ∧
    ∀ p ∈ (r.rebuild rule now reuse).nodes, p.2.state = .closed := by
  unfold Res.rebuild
  refine ⟨by simp [List.map_map, Function.comp_def], ?_⟩
  intro p hp
  simp only [List.mem_map] at hp
  obtain ⟨q, _, rfl⟩ := hp
  rfl

/-- **A failed active-recovery check is irrelevant** to everything the property speaks about: node breakers, recycler
    status and rule are unchanged (so it can neither eject a node nor make a recovered node recyclable again). -/
theorem failed_check_irrelevant (r : Res) (a : String) : step r (.retryFail a) = r := rfl

/-- dropping a resource's rule keeps the recycler's bookkeeping and forgets every node -/
theorem clear_keeps_status (r : Res) : r.clear.status = r.status ∧ r.clear.nodes = [] := ⟨rfl, rfl⟩

/-- node `a` is in the recycler's map and marked recovered -/
def Recovered (st : Status) (a : String) : Prop := hasKey st a = true ∧ ∀ p ∈ st, p.1 = a → p.2 = true

private theorem recovered_schedule {st : Status} {a : String} (h : Recovered st a) (l : List String) :
    Recovered (stSchedule st l) a := by
  obtain ⟨hk, ht⟩ := h
  refine ⟨?_, ?_⟩
  · unfold hasKey at hk ⊢
    simp only [List.any_eq_true] at hk ⊢
    obtain ⟨p, hp, hpa⟩ := hk
    exact ⟨p, mem_stSchedule_of_mem hp l, hpa⟩
  · intro p hp hpa
    rcases stSchedule_new l hp with h1 | ⟨_, h3⟩
    · exact ht p h1 hpa
    · rw [hpa, hk] at h3; exact absurd h3 (by simp)

private theorem recovered_recover {st : Status} {a : String} (h : Recovered st a) (b : String) :
    Recovered (stRecover st b) a := by
  obtain ⟨hk, ht⟩ := h
  unfold stRecover
  refine ⟨?_, ?_⟩
  · unfold hasKey at hk ⊢
    simp only [List.any_eq_true, List.mem_map] at hk ⊢
    obtain ⟨p, hp, hpa⟩ := hk
    refine ⟨_, ⟨p, hp, rfl⟩, ?_⟩
    split <;> simpa using hpa
  · intro p hp hpa
    simp only [List.mem_map] at hp
    obtain ⟨q, hq, rfl⟩ := hp
    split
    · rfl
    · rename_i hne
      simp only [hne] at hpa
      exact ht q hq (by simpa using hpa)

private theorem recovered_recycle {st : Status} {a : String} (h : Recovered st a) (b : String) (hb : b ≠ a) :
    Recovered (stRecycle st b).1 a := by
  obtain ⟨hk, ht⟩ := h
  unfold stRecycle
  refine ⟨?_, ?_⟩
  · unfold hasKey at hk ⊢
    simp only [List.any_eq_true, List.mem_filter] at hk ⊢
    obtain ⟨p, hp, hpa⟩ := hk
    refine ⟨p, ⟨hp, ?_⟩, hpa⟩
    have : p.1 = a := by simpa using hpa
    simp [this, Ne.symm hb]
  · intro p hp hpa
    exact ht p (List.mem_filter.1 hp).1 hpa

private theorem recovered_of_recover {st : Status} {a : String} (hk : hasKey st a = true) :
    Recovered (stRecover st a) a := by
  unfold stRecover
  refine ⟨?_, ?_⟩
  · unfold hasKey at hk ⊢
    simp only [List.any_eq_true, List.mem_map] at hk ⊢
    obtain ⟨p, hp, hpa⟩ := hk
    refine ⟨_, ⟨p, hp, rfl⟩, ?_⟩
    simp [hpa]
  · intro p hp hpa
    simp only [List.mem_map] at hp
    obtain ⟨q, _, rfl⟩ := hp
    split
    · rfl
    · rename_i hne
      simp only [hne] at hpa
      exact absurd (by simpa using hpa) hne

private theorem recovered_step {r : Res} {a : String} (h : Recovered r.status a) (e : Ev)
    (he : e ≠ .recycle a) : Recovered (step r e).status a := by
  cases e with
  | check now ord =>
    unfold step Res.check
    simp only
    split
    · exact h
    · exact recovered_schedule h _
  | completed now b rt err =>
    unfold step Res.completed
    simp only
    split
    · exact h
    · simp only
      split
      · exact h
      · exact recovered_recover h _
  | retryOk now b rt => exact recovered_recover h _
  | recycle b =>
    have hb : b ≠ a := fun hba => he (by rw [hba])
    exact recovered_recycle h b hb
  | reload rule => exact h
  | rebuild rule now reuse => exact h
  | clear => exact h
  | retryFail b => exact h

private theorem recovered_foldl {a : String} (evs : List Ev) (r₁ : Res) (h0 : Recovered r₁.status a)
    (hno : ∀ e ∈ evs, e ≠ .recycle a) : Recovered (evs.foldl step r₁).status a := by
  induction evs generalizing r₁ with
  | nil => exact h0
  | cons e es ih =>
    simp only [List.foldl_cons]
    exact ih _ (recovered_step h0 e (hno e (List.mem_cons_self ..)))
      (fun e' he' => hno e' (List.mem_cons_of_mem _ he'))

/-- the timer of a node marked recovered deletes nothing -/
theorem recycle_keeps_recovered (r : Res) (a : String) (h : Recovered r.status a) :
    (r.recycle a).nodes = r.nodes := by
  unfold Res.recycle stRecycle
  have : (r.status.any fun p => p.1 == a && !p.2) = false := by
    rw [List.any_eq_false]
    intro p hp
    by_cases hpa : p.1 = a
    · simp [h.2 p hp hpa]
    · simp [hpa]
  simp [this]

/-- **A node that completes a request successfully is not recycled.**  Node `a` has been handed to the
    recycler (it is in the status map); it then completes a request without error; whatever happens
    next to the resource — requests in any iteration order, completions of any node with any outcome,
    active-recovery results, timers of other nodes, rule reloads (including reloads that rebuild every
    breaker as Closed) — when `a`'s own timer fires, the
    node map is left untouched (in particular `a` keeps its breaker). -/
theorem successful_node_not_recycled (r : Res) (a : String) (now rt : Nat) (evs : List Ev)
    (ha : a ≠ "") (hs : hasKey r.status a = true) (hno : ∀ e ∈ evs, e ≠ .recycle a) :
    let r₂ := evs.foldl step (r.completed now a rt false)
    (r₂.recycle a).nodes = r₂.nodes := by
  intro r₂
  apply recycle_keeps_recovered
  apply recovered_foldl _ _ _ hno
  unfold Res.completed
  simp only [ha, if_false]
  exact recovered_of_recover hs

/-- the same when the success is reported by the active recovery check (`Retryer.onConnected`) -/
theorem reconnected_node_not_recycled (r : Res) (a : String) (now rt : Nat) (evs : List Ev)
    (hs : hasKey r.status a = true) (hno : ∀ e ∈ evs, e ≠ .recycle a) :
    let r₂ := evs.foldl step (r.retryOk now a rt)
    (r₂.recycle a).nodes = r₂.nodes := by
  intro r₂
  apply recycle_keeps_recovered
  exact recovered_foldl _ _ (recovered_of_recover hs) hno

/-- conversely a scheduled node with no success since is deleted by its timer -/
theorem unrecovered_node_recycled (r : Res) (a : String) (h : (a, false) ∈ r.status) :
    ∀ p ∈ (r.recycle a).nodes, p.1 ≠ a := by
  unfold Res.recycle stRecycle
  have : (r.status.any fun p => p.1 == a && !p.2) = true := by
    rw [List.any_eq_true]; exact ⟨_, h, by simp⟩
  simp only [this, if_true]
  intro p hp
  simpa using (List.mem_filter.1 hp).2

/-! ## the cap: `int(float64(n) * p)` against `⌊n · p⌋` -/

/-- products below `2^53` are exact: the code's cap *is* the floor -/
theorem capF64_eq_floor_of_exact (n m E : Nat) (h : n * m < 2 ^ 53) : capF64 n m E = capExact n m E := by
  unfold capF64 capExact
  simp only
  by_cases h0 : n * m = 0
  · simp [h0]
  · have : Nat.log2 (n * m) < 53 := (Nat.log2_lt h0).2 h
    have hb : Nat.log2 (n * m) + 1 ≤ 53 := by omega
    simp [h0, hb]

private theorem capF64_rounded (n m E : Nat) (h : n * m < 2 ^ (53 + E)) :
    capF64 n m E = capExact n m E ∨
      ∃ s q', s ≤ E ∧ n * m / 2 ^ s ≤ q' ∧ q' ≤ n * m / 2 ^ s + 1 ∧ capF64 n m E = q' / 2 ^ (E - s) := by
  unfold capF64 capExact
  simp only
  by_cases h0 : n * m = 0
  · left; simp [h0]
  · simp only [h0, if_false]
    by_cases hb : Nat.log2 (n * m) + 1 ≤ 53
    · left; simp [hb]
    · right
      simp only [hb, if_false]
      have hl : Nat.log2 (n * m) < 53 + E := (Nat.log2_lt h0).2 h
      have hs : Nat.log2 (n * m) + 1 - 53 ≤ E := by omega
      generalize Nat.log2 (n * m) + 1 - 53 = s at hs ⊢
      refine ⟨s, if 2 ^ (s - 1) < n * m % 2 ^ s ∨ n * m % 2 ^ s = 2 ^ (s - 1) ∧ n * m / 2 ^ s % 2 = 1
          then n * m / 2 ^ s + 1 else n * m / 2 ^ s, hs, ?_, ?_, ?_⟩
      · split <;> omega
      · split <;> omega
      · simp only [hs, if_true]

/-- the rounded product never falls below the exact floor (`n·p < 2^53`) … -/
theorem capF64_ge_floor (n m E : Nat) (h : n * m < 2 ^ (53 + E)) : capExact n m E ≤ capF64 n m E := by
  rcases capF64_rounded n m E h with h1 | ⟨s, q', hs, hlo, _, heq⟩
  · omega
  · rw [heq]
    unfold capExact
    have : n * m / 2 ^ E = n * m / 2 ^ s / 2 ^ (E - s) := by
      rw [Nat.div_div_eq_div_mul, ← pow_add]; congr 2; omega
    rw [this]
    exact Nat.div_le_div_right hlo

/-- … and exceeds it by at most one (`n·p < 2^53`). -/
theorem capF64_le_floor_succ (n m E : Nat) (h : n * m < 2 ^ (53 + E)) : capF64 n m E ≤ capExact n m E + 1 := by
  rcases capF64_rounded n m E h with h1 | ⟨s, q', hs, _, hhi, heq⟩
  · omega
  · rw [heq]
    unfold capExact
    have : n * m / 2 ^ E = n * m / 2 ^ s / 2 ^ (E - s) := by
      rw [Nat.div_div_eq_div_mul, ← pow_add]; congr 2; omega
    rw [this]
    calc q' / 2 ^ (E - s) ≤ (n * m / 2 ^ s + 1) / 2 ^ (E - s) := Nat.div_le_div_right hhi
      _ ≤ n * m / 2 ^ s / 2 ^ (E - s) + 1 := div_succ_le _ _ (by positivity)

/-- **The statement of the property about the share**: with `MaxEjectionPercent` the binary64 value
    `m / 2^E ∈ [0,1]`, the filter list never has more than `⌊n · MaxEjectionPercent⌋` entries.
    False on the pinned code (`cap_float_roundup_witness`): known finding `cap-float-roundup`. -/
def filter_card_le_floor_statement : Prop :=
  ∀ (r : Res) (now : Nat) (ord : Nodes) (m E : Nat), ord.Perm r.nodes → m ≤ 2 ^ E →
    r.rule.cap = (fun n => capF64 n m E) →
    (r.check now ord).2.filters.length ≤ capExact r.nodes.length m E

/-- the double nearest to 1/3 is `0x15555555555555 / 2^54 < 1/3`; `3 ·` it is `1 - 2^-54`, a tie that
    rounds (to even) up to `1.0` -/
theorem cap_float_roundup_arith :
    capF64 3 0x15555555555555 54 = 1 ∧ capExact 3 0x15555555555555 54 = 0 := by decide

/-- three nodes whose breakers are open, `MaxEjectionPercent = 1/3` (the double) -/
def witnessRes : Res :=
  let cb : CbRule := ⟨1000, 1, 0, 1, 1000, fun _ e => e, fun b _ => decide (1 ≤ b)⟩
  let br : Breaker := { state := .opened, nextRetry := 2000, stat := { n := 1, L := 1000, slots := [] } }
  { rule := { cb := cb, active := false, cap := fun n => capF64 n 0x15555555555555 54 },
    nodes := [("a", br), ("b", br), ("c", br)] }

/-- **Witness**: one of three nodes is ejected although `⌊3 · p⌋ = 0` for the configured `p`. -/
theorem cap_float_roundup_witness :
    (witnessRes.check 1000 witnessRes.nodes).2.filters.length = 1 ∧
    capExact witnessRes.nodes.length 0x15555555555555 54 = 0 := by decide

theorem filter_card_le_floor_statement_false : ¬ filter_card_le_floor_statement := by
  intro h
  have := h witnessRes 1000 witnessRes.nodes 0x15555555555555 54 (List.Perm.refl _) (by decide) rfl
  rw [cap_float_roundup_witness.1, cap_float_roundup_witness.2] at this
  omega

/-- **Partial (1)**: the floor bound holds whenever the product `n · m` fits 53 bits (for instance every
    dyadic percentage with few bits: 0, 1, 1/2, 1/4, 3/4, …), for every iteration order. -/
theorem filter_card_le_floor_partial (r : Res) (now : Nat) (ord : Nodes) (m E : Nat)
    (hcap : r.rule.cap = fun n => capF64 n m E) (hex : r.nodes.length * m < 2 ^ 53) :
    (r.check now ord).2.filters.length ≤ capExact r.nodes.length m E := by
  have := filter_card_le_cap r now ord
  rw [hcap] at this
  simp only at this
  rw [capF64_eq_floor_of_exact _ _ _ hex] at this
  exact this

/-- **Partial (2)**: in general the excess is at most one node (`n · p < 2^53`). -/
theorem filter_card_le_floor_succ (r : Res) (now : Nat) (ord : Nodes) (m E : Nat)
    (hcap : r.rule.cap = fun n => capF64 n m E) (hm : m ≤ 2 ^ E) (hn : r.nodes.length < 2 ^ 53) :
    (r.check now ord).2.filters.length ≤ capExact r.nodes.length m E + 1 := by
  have h1 := filter_card_le_cap r now ord
  rw [hcap] at h1
  simp only at h1
  have h2 : r.nodes.length * m < 2 ^ (53 + E) := by
    rw [pow_add]
    calc r.nodes.length * m ≤ r.nodes.length * 2 ^ E := Nat.mul_le_mul_left _ hm
      _ < 2 ^ 53 * 2 ^ E := Nat.mul_lt_mul_of_pos_right hn (by positivity)
  exact le_trans h1 (capF64_le_floor_succ _ _ _ h2)

/-- edge cases: no node, or `p = 0`: nothing is ever ejected; `p = 1`: every rejecting node is -/
theorem cap_zero_nodes (m E : Nat) : capF64 0 m E = 0 := by
  unfold capF64; simp

theorem cap_percent_zero (n E : Nat) : capF64 n 0 E = 0 := by
  unfold capF64; simp

theorem cap_percent_one (n : Nat) (hn : n < 2 ^ 53) : capF64 n (2 ^ 52) 52 = n := by
  have h := capF64_ge_floor n (2 ^ 52) 52 (by
    calc n * 2 ^ 52 < 2 ^ 53 * 2 ^ 52 := Nat.mul_lt_mul_of_pos_right hn (by positivity)
      _ = 2 ^ (53 + 52) := by rw [pow_add])
  unfold capExact at h
  rw [Nat.mul_div_cancel _ (by positivity)] at h
  -- the product n·2^52 has the bits of n: it is representable, so the rounding is exact
  unfold capF64
  simp only
  by_cases h0 : n * 2 ^ 52 = 0
  · have : n = 0 := by
      rcases Nat.mul_eq_zero.1 h0 with h | h
      · exact h
      · exact absurd h (by positivity)
    simp [this]
  · simp only [h0, if_false]
    by_cases hb : Nat.log2 (n * 2 ^ 52) + 1 ≤ 53
    · simp only [hb, if_true]; exact Nat.mul_div_cancel _ (by positivity)
    · simp only [hb, if_false]
      have hl : Nat.log2 (n * 2 ^ 52) < 53 + 52 := (Nat.log2_lt h0).2 (by
        calc n * 2 ^ 52 < 2 ^ 53 * 2 ^ 52 := Nat.mul_lt_mul_of_pos_right hn (by positivity)
          _ = 2 ^ (53 + 52) := by rw [pow_add])
      have hs : Nat.log2 (n * 2 ^ 52) + 1 - 53 ≤ 52 := by omega
      generalize hsd : Nat.log2 (n * 2 ^ 52) + 1 - 53 = s at hs
      have hspos : 0 < s := by omega
      -- n * 2^52 = (n * 2^(52-s)) * 2^s: remainder 0, no rounding
      have hsplit : n * 2 ^ 52 = n * 2 ^ (52 - s) * 2 ^ s := by
        rw [Nat.mul_assoc, ← pow_add]; congr 2; omega
      have hr : n * 2 ^ 52 % 2 ^ s = 0 := by rw [hsplit]; exact Nat.mul_mod_left _ _
      have hq : n * 2 ^ 52 / 2 ^ s = n * 2 ^ (52 - s) := by
        rw [hsplit]; exact Nat.mul_div_cancel _ (by positivity)
      have hhalf : ¬ (2 ^ (s - 1) < 0) := Nat.not_lt_zero _
      have hne : (0 : Nat) ≠ 2 ^ (s - 1) := (by positivity : 0 < 2 ^ (s - 1)).ne
      simp only [hr, hq, hs, if_true, hhalf, false_or, hne, false_and, if_false]
      exact Nat.mul_div_cancel _ (by positivity)

/-! ## along every history, and non-vacuity -/

/-- The per-request guarantees hold in whatever state a history of events (requests, completions with any
    per-node success/failure pattern at any times, recovery results, timers, reloads) leads to. -/
theorem filter_sound_along_any_history (r₀ : Res) (evs : List Ev) (now : Nat) (ord : Nodes)
    (hp : ord.Perm (evs.foldl step r₀).nodes) :
    let r := evs.foldl step r₀
    (∀ a ∈ (r.check now ord).2.filters, Rejecting r now a) ∧
    (r.check now ord).2.filters.length = min (r.rule.cap r.nodes.length) (numRejecting r now) ∧
    (r.check now ord).2.filters.length ≤ r.rule.cap r.nodes.length :=
  ⟨filter_subset_rejecting _ now ord hp, filter_card_eq_min _ now ord hp, filter_card_le_cap _ now ord⟩

/-- a small concrete resource: `a` open and timed out (will be probed), `b` open (rejecting), `c` closed -/
def sampleRes (active : Bool) (cap : Nat) : Res :=
  let cb : CbRule := ⟨1000, 1, 0, 1, 1000, fun _ e => e, fun b _ => decide (1 ≤ b)⟩
  let st : LA.Arr Cnt := { n := 1, L := 1000, slots := [] }
  { rule := { cb := cb, active := active, cap := fun _ => cap },
    nodes := [("a", { state := .opened, nextRetry := 500, stat := st }),
              ("b", { state := .opened, nextRetry := 5000, stat := st }),
              ("c", { stat := st })],
    status := [("b", false)] }

/-- the hypotheses and conclusions are inhabited: passive mode reports the probed node, the cap admits the
    rejecting one; in active mode nothing is reported half-open; with cap 0 nothing is filtered -/
example :
    ((sampleRes false 1).check 1000 (sampleRes false 1).nodes).2.filters = ["b"] ∧
    ((sampleRes false 1).check 1000 (sampleRes false 1).nodes).2.halfs = ["a"] ∧
    ((sampleRes true 1).check 1000 (sampleRes true 1).nodes).2.halfs = [] ∧
    ((sampleRes false 0).check 1000 (sampleRes false 0).nodes).2.filters = [] := by decide

/-- the recycler hypotheses are inhabited: `b` is scheduled, succeeds, its timer deletes nothing; without the
    success the same timer deletes it -/
example : hasKey (sampleRes false 1).status "b" = true ∧
    ((((sampleRes false 1).completed 2000 "b" 1 false).recycle "b").nodes.map (·.1)) = ["a", "b", "c"] ∧
    ((((sampleRes false 1).completed 2000 "b" 1 true).recycle "b").nodes.map (·.1)) = ["a", "c"] := by decide

/-- the exact-product hypothesis of `filter_card_le_floor_partial` is inhabited (p = 1/2, 5 nodes: cap 2) -/
example : 5 * 2 ^ 52 < 2 ^ 53 + 2 ^ 54 ∧ capF64 5 1 1 = 2 ∧ capExact 5 1 1 = 2 := by decide

/-! ## the floor bound on every reachable state: exactly the recorded region is left out -/

/-- the model's run over an event history (every op of the driver is one or two of these events) -/
def run (r₀ : Res) (evs : List Ev) : Res := evs.foldl step r₀

/-- the region of known finding `cap-float-roundup`: the binary64 product rounds up to the next integer -/
def RoundupRegion (n m E : Nat) : Prop := capF64 n m E = capExact n m E + 1

/-- how the driver (and `outlier.IsValidRule`) builds every rule: `MaxEjectionPercent = m / 2^E ∈ [0, 1]`, cap = the code's
    `int(float64(n) * p)` -/
def WFRule (rule : Rule) : Prop := ∃ m E, m ≤ 2 ^ E ∧ rule.cap = fun n => capF64 n m E

/-- events carrying a rule carry a well-formed one -/
def EvWF : Ev → Prop
  | .reload rule => WFRule rule
  | .rebuild rule _ _ => WFRule rule
  | _ => True

theorem rule_step (r : Res) (e : Ev) :
    (step r e).rule = match e with
      | .reload rule => rule
      | .rebuild rule _ _ => rule
      | _ => r.rule := by
  cases e with
  | check now ord => rfl
  | completed now a rt err =>
    show (r.completed now a rt err).rule = r.rule
    unfold Res.completed
    split <;> rfl
  | retryOk now a rt => rfl
  | recycle a => rfl
  | reload rule => rfl
  | rebuild rule now reuse => rfl
  | clear => rfl
  | retryFail a => rfl

theorem wf_run (r₀ : Res) (evs : List Ev) (h0 : WFRule r₀.rule) (hev : ∀ e ∈ evs, EvWF e) :
    WFRule (run r₀ evs).rule := by
  unfold run
  induction evs generalizing r₀ with
  | nil => exact h0
  | cons e es ih =>
    simp only [List.foldl_cons]
    apply ih
    · rw [rule_step]
      have he := hev e (List.mem_cons_self ..)
      cases e <;> first | exact h0 | exact he
    · exact fun e' he' => hev e' (List.mem_cons_of_mem _ he')

/-- **Sharp form of the share bound.**  What kept `filter_card_le_floor_partial` partial is its hypothesis
    `n · m < 2^53` (the product is exactly representable).  Without it: for a well-formed rule and fewer than `2^53` nodes the
    floor bound holds **iff** the state is not inside the recorded region (`RoundupRegion`) with more rejecting nodes than the
    exact floor — for every iteration order. -/
theorem filter_card_le_floor_iff (r : Res) (now : Nat) (ord : Nodes) (m E : Nat) (hp : ord.Perm r.nodes)
    (hcap : r.rule.cap = fun n => capF64 n m E) (hm : m ≤ 2 ^ E) (hn : r.nodes.length < 2 ^ 53) :
    (r.check now ord).2.filters.length ≤ capExact r.nodes.length m E ↔
      ¬ (RoundupRegion r.nodes.length m E ∧ capExact r.nodes.length m E < numRejecting r now) := by
  have h1 := filter_card_eq_min r now ord hp
  rw [hcap] at h1
  simp only at h1
  have h2 : r.nodes.length * m < 2 ^ (53 + E) := by
    rw [pow_add]
    calc r.nodes.length * m ≤ r.nodes.length * 2 ^ E := Nat.mul_le_mul_left _ hm
      _ < 2 ^ 53 * 2 ^ E := Nat.mul_lt_mul_of_pos_right hn (by positivity)
  have hlo := capF64_ge_floor _ _ _ h2
  have hhi := capF64_le_floor_succ _ _ _ h2
  unfold RoundupRegion
  rw [h1]
  omega

/-- outside the recorded region the bound holds outright -/
theorem filter_card_le_floor_outside_roundup (r : Res) (now : Nat) (ord : Nodes) (m E : Nat) (hp : ord.Perm r.nodes)
    (hcap : r.rule.cap = fun n => capF64 n m E) (hm : m ≤ 2 ^ E) (hn : r.nodes.length < 2 ^ 53)
    (hout : ¬ RoundupRegion r.nodes.length m E) :
    (r.check now ord).2.filters.length ≤ capExact r.nodes.length m E :=
  (filter_card_le_floor_iff r now ord m E hp hcap hm hn).2 fun h => hout h.1

/-- the recorded witness lies in the region -/
theorem roundup_region_inhabited : RoundupRegion 3 0x15555555555555 54 := by
  unfold RoundupRegion; rw [cap_float_roundup_arith.1, cap_float_roundup_arith.2]

/-! ## the known nodes along histories -/

/-- **What one event can do to the set of known nodes**: nothing; add exactly the (non-empty, new) address a request
    completed on; remove exactly the node whose recycle timer fired while it was pending and unrecovered; or forget all of
    them when the resource loses its rule (per-resource clear, bulk load without it, invalid bulk rule). -/
theorem known_nodes_step (r : Res) (e : Ev) :
    keys (step r e).nodes = keys r.nodes ∨
    (∃ now a rt err, e = .completed now a rt err ∧ a ≠ "" ∧ a ∉ keys r.nodes ∧
        keys (step r e).nodes = keys r.nodes ++ [a]) ∨
    (∃ a, e = .recycle a ∧ (stRecycle r.status a).2 = true ∧
        keys (step r e).nodes = (keys r.nodes).filter fun k => !(k == a)) ∨
    (e = .clear ∧ keys (step r e).nodes = []) := by
  cases e with
  | check now ord => exact Or.inl (keys_check r now ord)
  | completed now a rt err =>
    have h := keys_completed r now a rt err
    by_cases hc : a = "" ∨ a ∈ keys r.nodes
    · left; show keys (r.completed now a rt err).nodes = _; rw [h, if_pos hc]
    · right; left
      refine ⟨now, a, rt, err, rfl, fun h0 => hc (Or.inl h0), fun h0 => hc (Or.inr h0), ?_⟩
      show keys (r.completed now a rt err).nodes = _
      rw [h, if_neg hc]
  | retryOk now a rt => exact Or.inl (keys_retryOk r now a rt)
  | recycle a =>
    have h := keys_recycle r a
    by_cases hd : (stRecycle r.status a).2 = true
    · right; right; left
      refine ⟨a, rfl, hd, ?_⟩
      show keys (r.recycle a).nodes = _
      rw [h, if_pos hd]
    · left
      show keys (r.recycle a).nodes = _
      rw [h, if_neg hd]
  | reload rule => exact Or.inl rfl
  | rebuild rule now reuse => exact Or.inl (keys_rebuild r rule now reuse)
  | clear => exact Or.inr (Or.inr (Or.inr ⟨rfl, rfl⟩))
  | retryFail a => exact Or.inl rfl

/-- events that cannot change the known nodes, relative to the set `known`: requests, completions on a known (or the
    empty) address, recovery-check results, reloads and rebuilds -/
def NodeNeutral (known : List String) : Ev → Prop
  | .completed _ a _ _ => a = "" ∨ a ∈ known
  | .recycle _ => False
  | .clear => False
  | _ => True

/-- **`known-node-set-changed-without-event`, as an invariant of `run`**: over any history consisting only of node-neutral
    events the set of known nodes (even its map order) is unchanged. -/
theorem known_nodes_unchanged (r₀ : Res) (evs : List Ev)
    (h : ∀ e ∈ evs, NodeNeutral (keys r₀.nodes) e) : keys (run r₀ evs).nodes = keys r₀.nodes := by
  unfold run
  induction evs generalizing r₀ with
  | nil => rfl
  | cons e es ih =>
    simp only [List.foldl_cons]
    have he := h e (List.mem_cons_self ..)
    have hstep : keys (step r₀ e).nodes = keys r₀.nodes := by
      rcases known_nodes_step r₀ e with h1 | ⟨_, a, _, _, rfl, hne, hnk, _⟩ | ⟨a, rfl, _, _⟩ | ⟨rfl, _⟩
      · exact h1
      · exact absurd he (by simp [NodeNeutral, hne, hnk])
      · exact absurd he (by simp [NodeNeutral])
      · exact absurd he (by simp [NodeNeutral])
    rw [ih (step r₀ e) (by rw [hstep]; exact fun e' he' => h e' (List.mem_cons_of_mem _ he')), hstep]

/-- **Known nodes come only from traffic**: a node known after a history was known before it or is the address of a
    completion in it. -/
theorem known_node_origin (r₀ : Res) (evs : List Ev) (a : String) (h : a ∈ keys (run r₀ evs).nodes) :
    a ∈ keys r₀.nodes ∨ ∃ now rt err, Ev.completed now a rt err ∈ evs := by
  unfold run at h
  induction evs generalizing r₀ with
  | nil => exact Or.inl h
  | cons e es ih =>
    simp only [List.foldl_cons] at h
    rcases ih (step r₀ e) h with h1 | ⟨now, rt, err, hm⟩
    · rcases known_nodes_step r₀ e with h2 | ⟨now, a', rt, err, rfl, _, _, h2⟩ | ⟨a', rfl, _, h2⟩ | ⟨rfl, h2⟩
      · left; rwa [h2] at h1
      · rw [h2, List.mem_append, List.mem_singleton] at h1
        rcases h1 with h1 | rfl
        · exact Or.inl h1
        · exact Or.inr ⟨now, rt, err, List.mem_cons_self ..⟩
      · rw [h2] at h1; exact Or.inl (List.mem_filter.1 h1).1
      · rw [h2] at h1; exact absurd h1 (List.not_mem_nil)
    · exact Or.inr ⟨now, rt, err, List.mem_cons_of_mem _ hm⟩

/-- **A callee that completed a request is a known node afterwards, under the address it was traced with** (any
    outcome, any response time; the empty address is not a node). -/
theorem completed_callee_known (r : Res) (now : Nat) (a : String) (rt : Nat) (err : Bool) (ha : a ≠ "") :
    a ∈ keys (r.completed now a rt err).nodes := by
  rw [keys_completed]
  split
  · rename_i h; rcases h with h | h
    · exact absurd h ha
    · exact h
  · simp

/-- … and stays known along any history until the resource loses its rule or the node's own recycle timer fires. -/
theorem known_persists (r : Res) (evs : List Ev) (a : String) (h : a ∈ keys r.nodes)
    (hno : ∀ e ∈ evs, e ≠ .clear ∧ e ≠ .recycle a) : a ∈ keys (run r evs).nodes := by
  unfold run
  induction evs generalizing r with
  | nil => exact h
  | cons e es ih =>
    simp only [List.foldl_cons]
    apply ih
    · have he := hno e (List.mem_cons_self ..)
      rcases known_nodes_step r e with h2 | ⟨_, a', _, _, rfl, _, _, h2⟩ | ⟨a', rfl, _, h2⟩ | ⟨rfl, _⟩
      · rwa [h2]
      · rw [h2]; exact List.mem_append_left _ h
      · rw [h2, List.mem_filter]
        refine ⟨h, ?_⟩
        have : a ≠ a' := fun haa => he.2 (by rw [haa])
        simp [this]
      · exact absurd rfl he.1
    · exact fun e' he' => hno e' (List.mem_cons_of_mem _ he')

/-- the oracle's two claims together, for a request traced with `a` inside any history -/
theorem completed_callee_known_in_run (r₀ : Res) (evs₁ evs₂ : List Ev) (now : Nat) (a : String) (rt : Nat) (err : Bool)
    (ha : a ≠ "") (hno : ∀ e ∈ evs₂, e ≠ .clear ∧ e ≠ .recycle a) :
    a ∈ keys (run r₀ (evs₁ ++ .completed now a rt err :: evs₂)).nodes := by
  unfold run
  rw [List.foldl_append, List.foldl_cons]
  exact known_persists _ evs₂ a (completed_callee_known _ now a rt err ha) hno

/-- node addresses stay pairwise distinct (they are map keys): the hypothesis of `filter_nodup` holds on every
    reachable state -/
theorem keys_nodup_run (r₀ : Res) (evs : List Ev) (h : (keys r₀.nodes).Nodup) : (keys (run r₀ evs).nodes).Nodup := by
  unfold run
  induction evs generalizing r₀ with
  | nil => exact h
  | cons e es ih =>
    simp only [List.foldl_cons]
    apply ih
    rcases known_nodes_step r₀ e with h2 | ⟨_, a', _, _, rfl, _, hnk, h2⟩ | ⟨a', rfl, _, h2⟩ | ⟨rfl, h2⟩
    · rwa [h2]
    · rw [h2]
      exact List.Nodup.append h (List.nodup_singleton _) (by
        intro x hx hx'
        rw [List.mem_singleton] at hx'
        exact hnk (hx' ▸ hx))
    · rw [h2]; exact h.filter _
    · rw [h2]; exact List.nodup_nil

/-- one event adds at most one node -/
theorem nodes_length_run (r₀ : Res) (evs : List Ev) : (run r₀ evs).nodes.length ≤ r₀.nodes.length + evs.length := by
  unfold run
  induction evs generalizing r₀ with
  | nil => simp
  | cons e es ih =>
    simp only [List.foldl_cons, List.length_cons]
    have h1 := ih (step r₀ e)
    have h2 : (step r₀ e).nodes.length ≤ r₀.nodes.length + 1 := by
      have hk : ∀ ns : Nodes, ns.length = (keys ns).length := fun ns => by simp [keys]
      rw [hk, hk r₀.nodes]
      rcases known_nodes_step r₀ e with h2 | ⟨_, a', _, _, rfl, _, _, h2⟩ | ⟨a', rfl, _, h2⟩ | ⟨rfl, h2⟩
      · rw [h2]; omega
      · rw [h2]; simp
      · rw [h2]; exact le_trans (List.length_filter_le _ _) (by omega)
      · rw [h2]; simp
    omega

/-- **The share bound on every reachable state of the model.**  Start from any state with a well-formed rule and distinct
    node addresses, run any history of events (requests in any iteration order, completions on arbitrary address tokens with
    any outcome, recovery checks succeeding or failing, recycle timers, reloads on either path, rebuilds, rule drops) whose
    rules are well-formed and which is shorter than `2^53` events: the rule in force is `m / 2^E ∈ [0,1]` for some `m, E`, the
    filter list is duplicate-free, has at most `⌊n·p⌋ + 1` entries, and at most `⌊n·p⌋` **unless** the state lies in the recorded
    `cap-float-roundup` region with more rejecting nodes than the floor — nothing else is left out. -/
theorem filter_card_le_floor_reachable (r₀ : Res) (evs : List Ev) (now : Nat) (ord : Nodes)
    (h0 : WFRule r₀.rule) (hk : (keys r₀.nodes).Nodup) (hev : ∀ e ∈ evs, EvWF e)
    (hlen : r₀.nodes.length + evs.length < 2 ^ 53) (hp : ord.Perm (run r₀ evs).nodes) :
    let r := run r₀ evs
    ∃ m E, m ≤ 2 ^ E ∧ r.rule.cap = (fun n => capF64 n m E) ∧
      (r.check now ord).2.filters.Nodup ∧
      (r.check now ord).2.filters.length ≤ capExact r.nodes.length m E + 1 ∧
      ((r.check now ord).2.filters.length ≤ capExact r.nodes.length m E ↔
        ¬ (RoundupRegion r.nodes.length m E ∧ capExact r.nodes.length m E < numRejecting r now)) := by
  intro r
  obtain ⟨m, E, hm, hcap⟩ := wf_run r₀ evs h0 hev
  have hn : r.nodes.length < 2 ^ 53 := lt_of_le_of_lt (nodes_length_run r₀ evs) hlen
  exact ⟨m, E, hm, hcap, filter_nodup r now ord hp (keys_nodup_run r₀ evs hk),
    filter_card_le_floor_succ r now ord m E hcap hm hn, filter_card_le_floor_iff r now ord m E hp hcap hm hn⟩

/-- non-vacuity: the empty resource with the witness percentage is a legal start, and the witness state is reachable from it
    by three completions (so the region really is met by histories) -/
example : WFRule witnessRes.rule ∧ (keys ({ witnessRes with nodes := [] } : Res).nodes).Nodup :=
  ⟨⟨0x15555555555555, 54, by decide, rfl⟩, List.nodup_nil⟩

end Sentinel.C20
