import Sentinel.Model.BreakerRace
/-! # C12 (first version: witnesses only; theorems follow) -/
namespace Sentinel.C12
open Sentinel.BreakerRace

/-- error-count breaker, timeout 1000 ms, minRequestAmount 1, threshold 1, probeNum 0 -/
def cfgW : Cfg := { timeout := 1000, minReq := 1, probeNum := 0, slowKind := false, maxRt := 0, trip := fun b _ => decide (1 ≤ b) }

def sch (l : List Nat) : List Ent := l.map Ent.t

theorem early_probe_witness :
    (run cfgW (init cfgW [[.complete 1 true], [.tryPass false]]) (sch [0, 0, 0, 1, 1, 1])).sh.early = true := by decide

end Sentinel.C12
