import Sentinel.Lemmas.BreakerRace
/-!
# C12 — Breaker transitions are atomic and probes exclusive under concurrency

Property-level statements about the small-step model `Sentinel.BreakerRace` (the definitions the driver
executes against `core/circuitbreaker` through the `cb.*` yield hooks).  Helper lemmas and the inductive
invariant live in `Sentinel/Lemmas/BreakerRace.lean`.

Reading guide.  `step cfg i s t` is one schedule entry for thread `i`: the atomic access it is parked at plus
its thread-local code up to the next yield point.  `Reach cfg c`: `c` is reachable with **any number of
threads**, arbitrary programs of `TryPass` / `OnRequestComplete` calls, **any schedule** of steps and clock
ticks (threads may be spawned at any time).  `hist` is the list of won CASes on the state word in CAS order,
`log` the listener calls in call order, `admits` who got `true` from `TryPass` and why (ghost fields).
`run cfg (init cfg progs) es` — what the driver computes for an op file — is reachable (`run_reachable`).
-/
namespace Sentinel.C12
open Sentinel.BreakerRace

theorem run_reachable (cfg : Cfg) (progs : List (List Call)) (es : List Ent) :
    Reach cfg (run cfg (init cfg progs) es) :=
  reach_run cfg (reach_init cfg progs) es

/-! ## transition_once — each transition is one won CAS by one thread, reported exactly once with the right prev -/

/-- The state word changes only in a step of a thread parked before a CAS whose expected value is the current
    word (so two threads cannot both perform "the same" transition); the change follows a legal edge and is
    recorded once, under the winner's id. -/
theorem transition_once_cas (cfg : Cfg) (i : Nat) (s : Sh) (t : Th) :
    ((step cfg i s t).1.st = s.st ∧ (step cfg i s t).1.hist = s.hist) ∨
    ((step cfg i s t).1.hist = s.hist ++ [⟨s.st, (step cfg i s t).1.st, i⟩] ∧
      legal s.st (step cfg i s t).1.st = true ∧ t.pc.casExpect = some s.st) :=
  step_transition cfg i s t

/-- A listener call is made by the stepping thread, for a CAS it won (in this step or earlier), with that CAS's
    expected value as `prev`. -/
theorem transition_once_report (cfg : Cfg) (i : Nat) (s : Sh) (t : Th) :
    (step cfg i s t).1.log = s.log ∨
    (∃ p q, (step cfg i s t).1.log = s.log ++ [⟨p, q, i⟩] ∧
      (t.pc.owes = some (p, q) ∨ (t.pc.casExpect = some p ∧ s.st = p ∧ (step cfg i s t).1.st = q))) :=
  step_log cfg i s t

/-- In every reachable configuration, for every transition `k = (prev, to, thread)`: the number of times it
    happened equals the number of times it was reported plus one if its thread is right now between that CAS
    and the listener call (and zero otherwise) — never reported twice, never dropped, never by somebody else,
    never with another `prev`. -/
theorem transition_once (cfg : Cfg) {c : Conf} (h : Reach cfg c) (k : Note) :
    c.sh.hist.count k = c.sh.log.count k +
      (match c.th[k.tid]? with | some t => owe k.tid t k | none => 0) :=
  (reach_inv cfg h).notify k

/-- …hence whenever no thread is between a CAS and its listener call (in particular when all calls have
    returned) the listener log is exactly the transition history, up to order. -/
theorem transition_once_quiescent (cfg : Cfg) {c : Conf} (h : Reach cfg c)
    (hq : ∀ t ∈ c.th, t.pc.owes = none) : c.sh.log.Perm c.sh.hist := by
  rw [List.perm_iff_count]
  intro k
  have hk := transition_once cfg h k
  cases hth : c.th[k.tid]? with
  | none => rw [hth] at hk; simpa using hk.symm
  | some t =>
    rw [hth] at hk
    have := hq t (List.mem_of_getElem? hth)
    simpa [owe, this] using hk.symm

/-! ## log_is_path — the transitions form a walk of the state machine from Closed -/

/-- The transition history is a path in the legal graph, starts at Closed and ends at the current state word. -/
theorem log_is_path (cfg : Cfg) {c : Conf} (h : Reach cfg c) : walk .closed c.sh.hist = some c.sh.st :=
  (reach_inv cfg h).path

/-! ### What is NOT claimed under concurrency: the order of listener calls of different threads

The property (C12) says: each transition is performed by one caller and reported exactly once with the correct
previous state — `transition_once` above.  It makes **no claim about the order in which the listener calls of
different threads arrive**; the ordered-path claim for the listener log belongs to the *sequential* property C03.
The three items below only document this boundary (they are not a property violation and not a finding): listeners
are called after the CAS (`->Open`: after the deadline store; `HalfOpen->Closed`: after the probe-counter reset), so
a later transition of another thread can be reported first; the CAS history is always a path (`log_is_path`), and the
listener log coincides with it whenever notifications do not overlap with other threads' steps
(`listener_order_partial`, which covers the sequential case). -/

/-- (not claimed by C12) "the listener log, read as a sequence of calls, is a path from Closed" -/
def listener_call_order_not_claimed : Prop :=
  ∀ (cfg : Cfg) (c : Conf), Reach cfg c → (walk .closed c.sh.log).isSome = true

/-- error-count breaker: one failed request trips it; retry timeout 10 ms; probeNum 0 -/
def cfg10 : Cfg :=
  { timeout := 10, minReq := 1, probeNum := 0, slowKind := false, maxRt := 0, trip := fun b _ => decide (1 ≤ b) }

/-- same with retry timeout 1000 ms -/
def cfg1000 : Cfg := { cfg10 with timeout := 1000 }

def sch (l : List Nat) : List Ent := l.map Ent.t

/-- thread 0: fail (opens), probe after the timeout, succeed (closes: parked between cas(HalfOpen,Closed) and its
    listener call); thread 1: a failed completion trips the closed breaker and reports Closed→Open first -/
def orderRun : Conf :=
  run cfg10 (init cfg10 [[.complete 1 true, .tryPass false, .complete 1 false], [.complete 1 true]])
    (sch [0, 0, 0, 0] ++ [.tick 10] ++ sch [0, 0, 0, 0, 0, 0, 0, 0, 1, 1, 1, 1, 0])

/-- an interleaving in which every transition is reported exactly once with the right prev, nothing is admitted
    early, and yet the calls arrive in an order that is not a path: documentation, not a violation -/
theorem listener_calls_can_reorder_example :
    orderRun.sh.log = [⟨.closed, .opened, 0⟩, ⟨.opened, .halfOpen, 0⟩, ⟨.closed, .opened, 1⟩, ⟨.halfOpen, .closed, 0⟩]
      ∧ walk .closed orderRun.sh.log = none ∧ orderRun.sh.early = false := by decide

/-- …so the sequence reading is not a theorem of the concurrent model (and C12 does not ask for it) -/
theorem listener_call_order_not_a_theorem : ¬ listener_call_order_not_claimed := by
  intro h
  have h1 := h cfg10 orderRun (run_reachable _ _ _)
  have h2 := listener_calls_can_reorder_example.2.1
  rw [h2] at h1
  exact absurd h1 (by decide)

/-- no other thread takes a step while somebody is between a won CAS and its listener call -/
def QuietRun (cfg : Cfg) : Conf → List Ent → Prop
  | _, [] => True
  | c, .tick ms :: r => QuietRun cfg (c.tick ms) r
  | c, .t i :: r => QuietAt c i ∧ QuietRun cfg (c.sched cfg i) r

theorem order_run (cfg : Cfg) (es : List Ent) : ∀ c : Conf, OrderInv c → QuietRun cfg c es → OrderInv (run cfg c es) := by
  induction es with
  | nil => intro c h _; exact h
  | cons e r ih =>
    intro c h hq
    cases e with
    | tick ms => exact ih (c.tick ms) h hq
    | t i => exact ih (c.sched cfg i) (order_step cfg i h hq.1) hq.2

/-- **listener_order_partial.** If no other thread steps while a thread is between a won CAS and its listener
    call (in particular: sequentially), then whenever nobody owes a notification the listener log *is* the
    transition history, in order — and therefore a path from Closed to the current state word. -/
theorem listener_order_partial (cfg : Cfg) (progs : List (List Call)) (es : List Ent)
    (hq : QuietRun cfg (init cfg progs) es)
    (hdone : ∀ t ∈ (run cfg (init cfg progs) es).th, t.pc.owes = none) :
    (run cfg (init cfg progs) es).sh.log = (run cfg (init cfg progs) es).sh.hist ∧
    walk .closed (run cfg (init cfg progs) es).sh.log = some (run cfg (init cfg progs) es).sh.st := by
  have hJ := order_run cfg es _ (order_init cfg progs) hq
  have hQ : QuietAt (run cfg (init cfg progs) es) 0 := fun j u _ hu => hdone u (List.mem_of_getElem? hu)
  have h0 := hJ 0 hQ
  have hl : (run cfg (init cfg progs) es).sh.log = (run cfg (init cfg progs) es).sh.hist := by
    cases hu : (run cfg (init cfg progs) es).th[0]? with
    | none => rw [hu] at h0; simpa using h0.symm
    | some u =>
      rw [hu] at h0
      have := hdone u (List.mem_of_getElem? hu)
      simpa [owedL, this] using h0.symm
  exact ⟨hl, by rw [hl]; exact log_is_path cfg (run_reachable cfg progs es)⟩

/-! ### Exact characterisation of the listener order (still: *not* a C12 clause — documentation of the boundary)

`listener_order_partial` has a sufficient condition (`QuietRun`).  The exact one: call a point of the run *in order* when the
listener log is a prefix of the transition history (every call so far was the call for the oldest transition still
unreported).  The region, defined on the run alone: some schedule entry takes the run from an in-order point to a point
that is not in order (a listener call overtakes an older, still unreported transition).  `listener_order_iff`: at a
quiescent end the log *is* the history **iff** the run stays outside that region; leaving is permanent
(`inOrder_permanent`). -/

def InOrder (c : Conf) : Prop := c.sh.log <+: c.sh.hist

def OrderRegion (cfg : Cfg) (c : Conf) (es : List Ent) : Prop :=
  ∃ es₁ e r, es = es₁ ++ e :: r ∧ InOrder (run cfg c es₁) ∧ ¬ InOrder (run cfg c (es₁ ++ [e]))

theorem run_append (cfg : Cfg) (a b : List Ent) : ∀ c : Conf, run cfg c (a ++ b) = run cfg (run cfg c a) b := by
  induction a with
  | nil => intro c; rfl
  | cons e r ih => intro c; exact ih (c.exec cfg e)

/-- both lists only grow, at the end -/
theorem exec_appends (cfg : Cfg) (c : Conf) (e : Ent) :
    (∃ x, (c.exec cfg e).sh.log = c.sh.log ++ x) ∧ (∃ y, (c.exec cfg e).sh.hist = c.sh.hist ++ y) := by
  cases e with
  | tick ms => exact ⟨⟨[], by simp [Conf.exec, Conf.tick]⟩, ⟨[], by simp [Conf.exec, Conf.tick]⟩⟩
  | t i =>
    simp only [Conf.exec]
    unfold Conf.sched
    cases hth : c.th[i]? with
    | none => exact ⟨⟨[], by simp⟩, ⟨[], by simp⟩⟩
    | some t =>
      constructor
      · rcases step_log cfg i c.sh t with h | ⟨p, q, h, _⟩
        · exact ⟨[], by simp [h]⟩
        · exact ⟨_, h⟩
      · rcases step_transition cfg i c.sh t with h | h
        · exact ⟨[], by simp [h.2]⟩
        · exact ⟨_, h.1⟩

/-- never more calls than transitions -/
theorem log_length_le (cfg : Cfg) {c : Conf} (h : Reach cfg c) : c.sh.log.length ≤ c.sh.hist.length := by
  apply List.Subperm.length_le
  rw [List.subperm_ext_iff]
  intro k _
  have := transition_once cfg h k
  omega

/-- once a call has overtaken an older unreported transition the log never becomes a prefix of the history again -/
theorem inOrder_permanent (cfg : Cfg) {c : Conf} (h : Reach cfg c) (e : Ent) (hn : ¬ InOrder c) : ¬ InOrder (c.exec cfg e) := by
  intro hi
  obtain ⟨⟨x, hx⟩, ⟨y, hy⟩⟩ := exec_appends cfg c e
  unfold InOrder at hi hn
  rw [hx, hy] at hi
  have h1 : c.sh.log <+: c.sh.hist ++ y := (List.prefix_append _ _).trans hi
  exact hn (List.prefix_of_prefix_length_le h1 (List.prefix_append _ _) (log_length_le cfg h))

theorem reach_exec (cfg : Cfg) {c : Conf} (h : Reach cfg c) (e : Ent) : Reach cfg (c.exec cfg e) := by
  cases e with
  | t i => exact Reach.step i h
  | tick ms => exact Reach.tick ms h

theorem run_not_inOrder (cfg : Cfg) (es : List Ent) : ∀ c : Conf, Reach cfg c → ¬ InOrder c → ¬ InOrder (run cfg c es) := by
  induction es with
  | nil => intro c _ hn; exact hn
  | cons e r ih => intro c h hn; exact ih _ (reach_exec cfg h e) (inOrder_permanent cfg h e hn)

theorem run_inOrder_iff (cfg : Cfg) (es : List Ent) :
    ∀ c : Conf, Reach cfg c → InOrder c → (InOrder (run cfg c es) ↔ ¬ OrderRegion cfg c es) := by
  induction es with
  | nil =>
    intro c _ hi
    constructor
    · rintro _ ⟨es₁, e, r, hes, _⟩
      cases es₁ <;> cases hes
    · intro _; exact hi
  | cons e r ih =>
    intro c h hi
    by_cases h1 : InOrder (c.exec cfg e)
    · have := ih _ (reach_exec cfg h e) h1
      show InOrder (run cfg (c.exec cfg e) r) ↔ _
      rw [this]
      constructor
      · rintro hn ⟨es₁, e', r', hes, ha, hb⟩
        cases es₁ with
        | nil =>
          simp only [List.nil_append, List.cons.injEq] at hes
          obtain ⟨rfl, rfl⟩ := hes
          exact hb h1
        | cons a es₁' =>
          simp only [List.cons_append, List.cons.injEq] at hes
          obtain ⟨rfl, rfl⟩ := hes
          exact hn ⟨es₁', e', r', rfl, ha, hb⟩
      · rintro hn ⟨es₁, e', r', hes, ha, hb⟩
        exact hn ⟨e :: es₁, e', r', by rw [hes]; rfl, ha, hb⟩
    · constructor
      · intro hfin
        exact absurd hfin (run_not_inOrder cfg r _ (reach_exec cfg h e) h1)
      · intro hn
        exact absurd ⟨[], e, r, rfl, hi, h1⟩ hn

/-- **listener_order_iff.** At a quiescent end of any run from `init`: the listener log equals the transition history,
    in order, **iff** no schedule entry of the run lets a listener call overtake an older unreported transition. -/
theorem listener_order_iff (cfg : Cfg) (progs : List (List Call)) (es : List Ent)
    (hdone : ∀ t ∈ (run cfg (init cfg progs) es).th, t.pc.owes = none) :
    (run cfg (init cfg progs) es).sh.log = (run cfg (init cfg progs) es).sh.hist ↔
      ¬ OrderRegion cfg (init cfg progs) es := by
  have hr0 := reach_init cfg progs
  have hi0 : InOrder (init cfg progs) := by
    obtain ⟨h1, h2, _⟩ := startAll_frame cfg progs {}
    unfold InOrder
    simp only [init, initFrom]
    rw [h1, h2]
  rw [← run_inOrder_iff cfg es _ hr0 hi0]
  constructor
  · intro h; unfold InOrder; rw [h]
  · intro h
    have hp := transition_once_quiescent cfg (run_reachable cfg progs es) hdone
    exact List.IsPrefix.eq_of_length h hp.length_eq

/-- the region is inhabited (the documented reordering run) … -/
theorem orderRegion_inhabited :
    OrderRegion cfg10 (init cfg10 [[.complete 1 true, .tryPass false, .complete 1 false], [.complete 1 true]])
      (sch [0, 0, 0, 0] ++ [.tick 10] ++ sch [0, 0, 0, 0, 0, 0, 0, 0, 1, 1, 1, 1, 0]) := by
  by_contra h
  have hd : ∀ t ∈ orderRun.th, t.pc.owes = none := by decide
  have := (listener_order_iff cfg10 _ _ hd).mpr h
  have h2 : orderRun.sh.log ≠ orderRun.sh.hist := by decide
  exact h2 this

/-- … and so is its complement: a `QuietRun` never enters it -/
theorem quietRun_not_in_orderRegion (cfg : Cfg) (progs : List (List Call)) (es : List Ent)
    (hq : QuietRun cfg (init cfg progs) es)
    (hdone : ∀ t ∈ (run cfg (init cfg progs) es).th, t.pc.owes = none) :
    ¬ OrderRegion cfg (init cfg progs) es :=
  (listener_order_iff cfg progs es hdone).mp (listener_order_partial cfg progs es hq hdone).1

/-- decidable form of `QuietAt` / `QuietRun` (to exhibit schedules satisfying the hypothesis) -/
def quietAtB (c : Conf) (i : Nat) : Bool :=
  (List.range c.th.length).all fun j =>
    j == i || (match c.th[j]? with | some u => u.pc.owes.isNone | none => true)

theorem quietAtB_sound (c : Conf) (i : Nat) (h : quietAtB c i = true) : QuietAt c i := by
  intro j u hj hu
  have hjlt : j < c.th.length := by
    by_contra hn
    rw [List.getElem?_eq_none (by omega)] at hu; cases hu
  have := List.all_eq_true.mp h j (List.mem_range.mpr hjlt)
  simp [hj, hu] at this
  exact this

def quietRunB (cfg : Cfg) : Conf → List Ent → Bool
  | _, [] => true
  | c, .tick ms :: r => quietRunB cfg (c.tick ms) r
  | c, .t i :: r => quietAtB c i && quietRunB cfg (c.sched cfg i) r

theorem quietRunB_sound (cfg : Cfg) (es : List Ent) : ∀ c : Conf, quietRunB cfg c es = true → QuietRun cfg c es := by
  induction es with
  | nil => intro c _; trivial
  | cons e r ih =>
    intro c h
    cases e with
    | tick ms => exact ih _ h
    | t i =>
      simp only [quietRunB, Bool.and_eq_true] at h
      exact ⟨quietAtB_sound c i h.1, ih _ h.2⟩

/-- the hypothesis of `listener_order_partial` is satisfiable: open, wait, probe, close — interleaved with a
    second thread's TryPass calls at points where nobody owes a notification -/
example : QuietRun cfg10 (init cfg10 [[.complete 1 true, .tryPass false, .complete 1 false], [.tryPass false, .tryPass false]])
    (sch [0, 0, 0, 0, 1, 1, 1] ++ [.tick 10] ++ sch [0, 0, 0, 0, 1, 0, 0, 0, 0, 0]) :=
  quietRunB_sound _ _ _ (by decide)

/-! ## single_probe — probeNum = 0: one probe per passage to HalfOpen -/

/-- Why a `TryPass` can return true at all: it read Closed; or (probeNum > 0) it read HalfOpen; or it won the
    Open→HalfOpen CAS — exactly one admission per step, of the stepping thread, and a step that admits nobody
    lets a returning `TryPass` return false. -/
theorem admission_reasons (cfg : Cfg) (i : Nat) (s : Sh) (t : Th) :
    ((step cfg i s t).1.admits = s.admits ∧
        ((step cfg i s t).2.res = t.res ∨ (step cfg i s t).2.res = t.res ++ [false])) ∨
    ((step cfg i s t).2.res = t.res ++ [true] ∧
      (((step cfg i s t).1.admits = s.admits ++ [(i, .closedRead)] ∧ s.st = .closed
          ∧ (step cfg i s t).1.hist = s.hist) ∨
       ((step cfg i s t).1.admits = s.admits ++ [(i, .quota)] ∧ s.st = .halfOpen ∧ 0 < cfg.probeNum
          ∧ (step cfg i s t).1.hist = s.hist) ∨
       ((step cfg i s t).1.admits = s.admits ++ [(i, .probeWin)] ∧ s.st = .opened ∧ (step cfg i s t).1.st = .halfOpen
          ∧ (step cfg i s t).1.hist = s.hist ++ [⟨.opened, .halfOpen, i⟩]))) :=
  step_admit_cases cfg i s t

/-- the state word is HalfOpen before every entry of the schedule -/
def staysHalfOpen (cfg : Cfg) : Conf → List Ent → Prop
  | _, [] => True
  | c, e :: r => c.sh.st = .halfOpen ∧ staysHalfOpen cfg (c.exec cfg e) r

theorem sched_halfOpen (cfg : Cfg) (hp : cfg.probeNum = 0) (c : Conf) (hc : c.sh.st = .halfOpen) (j : Nat) :
    (c.sched cfg j).sh.admits = c.sh.admits ∧
    ∀ (i : Nat) (t : Th), c.th[i]? = some t →
      ∃ t' fs, (c.sched cfg j).th[i]? = some t' ∧ t'.res = t.res ++ fs ∧ ∀ b ∈ fs, b = false := by
  unfold Conf.sched
  cases hth : c.th[j]? with
  | none => exact ⟨rfl, fun i t hi => ⟨t, [], hi, by simp, by simp⟩⟩
  | some u =>
    have hj : j < c.th.length := by
      by_contra hn
      rw [List.getElem?_eq_none (by omega)] at hth; cases hth
    have hcases := step_admit_cases cfg j c.sh u
    have hno : (step cfg j c.sh u).1.admits = c.sh.admits ∧
        ((step cfg j c.sh u).2.res = u.res ∨ (step cfg j c.sh u).2.res = u.res ++ [false]) := by
      rcases hcases with h | ⟨_, h | h | h⟩
      · exact h
      · rw [hc] at h; exact absurd h.2.1 (by decide)
      · omega
      · rw [hc] at h; exact absurd h.2.1 (by decide)
    refine ⟨hno.1, fun i t hi => ?_⟩
    by_cases hij : j = i
    · subst hij
      rw [hth] at hi; cases hi
      refine ⟨(step cfg j c.sh u).2, ?_⟩
      rcases hno.2 with h | h
      · exact ⟨[], by simp [hj], by simp [h], by simp⟩
      · exact ⟨[false], by simp [hj], h, by simp⟩
    · exact ⟨t, [], by simp [hij, hi], by simp, by simp⟩

/-- **single_probe.** `probeNum = 0`: as long as the state word stays HalfOpen — i.e. from a won Open→HalfOpen
    CAS (which admits its winner and nobody else, `admission_reasons`) until the completion or rollback that
    CASes it away — no `TryPass` of any thread returns true, under any schedule. -/
theorem single_probe (cfg : Cfg) (hp : cfg.probeNum = 0) (es : List Ent) :
    ∀ c : Conf, staysHalfOpen cfg c es →
      (run cfg c es).sh.admits = c.sh.admits ∧
      ∀ (i : Nat) (t : Th), c.th[i]? = some t →
        ∃ t' fs, (run cfg c es).th[i]? = some t' ∧ t'.res = t.res ++ fs ∧ ∀ b ∈ fs, b = false := by
  induction es with
  | nil => intro c _; exact ⟨rfl, fun i t hi => ⟨t, [], hi, by simp, by simp⟩⟩
  | cons e r ih =>
    intro c hs
    obtain ⟨hc, hr⟩ := hs
    have ih' := ih (c.exec cfg e) hr
    cases e with
    | tick ms => exact ih'
    | t j =>
      have h1 := sched_halfOpen cfg hp c hc j
      refine ⟨by rw [← h1.1]; exact ih'.1, fun i t hi => ?_⟩
      obtain ⟨t1, fs1, ht1, hres1, hf1⟩ := h1.2 i t hi
      obtain ⟨t2, fs2, ht2, hres2, hf2⟩ := ih'.2 i t1 ht1
      refine ⟨t2, fs1 ++ fs2, ht2, by rw [hres2, hres1, List.append_assoc], ?_⟩
      intro b hb
      rcases List.mem_append.mp hb with hb | hb
      · exact hf1 b hb
      · exact hf2 b hb

/-- Probe admissions are exactly the Open→HalfOpen transitions, per thread: each passage to HalfOpen admitted
    exactly one caller — the one that performed it. -/
theorem probe_admissions_eq_transitions (cfg : Cfg) {c : Conf} (h : Reach cfg c) (j : Nat) :
    c.sh.admits.count (j, How.probeWin) = c.sh.hist.count ⟨.opened, .halfOpen, j⟩ :=
  (reach_inv cfg h).probe j

/-! ## no_early_admission — FALSE on the pinned code; true outside two classified windows -/

/-- "While the breaker is open no request is admitted before a full retry timeout has elapsed since it opened":
    no Open→HalfOpen CAS is won at a clock value below `openedAt + timeout`, where `openedAt` is the clock at the
    last Closed→Open / HalfOpen→Open performed by a completion. -/
def no_early_admission_statement : Prop :=
  ∀ (cfg : Cfg) (c : Conf), Reach cfg c → c.sh.early = false

/-- Known finding `open-without-deadline`: thread 0 completes a failed request, wins cas(Closed,Open) and is parked
    before the deadline store; thread 1's TryPass reads Open, the still-zero deadline, and wins Open→HalfOpen in
    the same millisecond (timeout 1000 ms). -/
def earlyRun : Conf :=
  run cfg1000 (init cfg1000 [[.complete 1 true], [.tryPass false]]) (sch [0, 0, 0, 1, 1, 1, 1])

theorem early_probe_witness :
    earlyRun.sh.early = true ∧ earlyRun.sh.earlyNoDl = true ∧ earlyRun.sh.earlyStale = false
      ∧ earlyRun.sh.clock < earlyRun.sh.openedAt + 1000 ∧ earlyRun.sh.admits = [(1, .probeWin)] := by decide

/-- the same window after a failed probe (`fromHalfOpenToOpen`: cas, probe-counter reset, deadline store): the
    deadline read is not zero but the expired one of the previous opening -/
def earlyRunHalfOpen : Conf :=
  run cfg10 (init cfg10 [[.complete 1 true, .complete 1 true], [.tryPass false, .tryPass false]])
    (sch [0, 0, 0, 0] ++ [.tick 10] ++ sch [1, 1, 1, 1, 0, 0, 1, 1, 1, 1])

theorem early_probe_halfopen_witness :
    earlyRunHalfOpen.sh.earlyNoDl = true ∧ earlyRunHalfOpen.sh.earlyStale = false
      ∧ earlyRunHalfOpen.sh.deadline = 10 ∧ earlyRunHalfOpen.sh.openedAt = 10 ∧ earlyRunHalfOpen.sh.clock = 10 := by
  decide

/-- Known finding `stale-retry-check` (ABA on the state word): thread 1 passes the deadline check of the first
    opening and is parked before its CAS; thread 2 probes, closes, and trips the breaker again; thread 1's
    cas(Open,HalfOpen) then succeeds although the new deadline (stored!) is a full timeout away. -/
def abaRun : Conf :=
  run cfg10 (init cfg10 [[.complete 1 true], [.tryPass false], [.tryPass false, .complete 1 false, .complete 1 true]])
    (sch [0, 0, 0, 0] ++ [.tick 10] ++ sch [1, 1, 1, 2, 2, 2, 2, 2, 2, 2, 2, 2, 2, 2, 2, 2, 1])

theorem aba_witness :
    abaRun.sh.early = true ∧ abaRun.sh.earlyStale = true ∧ abaRun.sh.earlyNoDl = false
      ∧ abaRun.sh.fresh = true ∧ abaRun.sh.deadline = 20 ∧ abaRun.sh.clock = 10 := by decide

theorem no_early_admission_false : ¬ no_early_admission_statement := by
  intro h
  have h1 := h cfg1000 earlyRun (run_reachable _ _ _)
  rw [early_probe_witness.1] at h1
  exact absurd h1 (by decide)

/-- run to completion first, the same two calls are fine -/
example : (run cfg1000 (init cfg1000 [[.complete 1 true], [.tryPass false]]) (sch [0, 0, 0, 0, 1, 1, 1, 1])).sh.early = false := by
  decide

/-- **no_early_admission_partial.** In every reachable configuration: a `TryPass` parked before its
    cas(Open,HalfOpen) whose deadline load (a) happened during the current opening (`ep = epoch`: no
    Closed→Open / HalfOpen→Open since) and (b) read a deadline stored since that opening (`fr`), is parked at a
    time when the full retry timeout has elapsed since the breaker opened — so its admission is not early. -/
theorem no_early_admission_partial (cfg : Cfg) {c : Conf} (h : Reach cfg c) (i : Nat) (t : Th)
    (hi : c.th[i]? = some t) (blk : Bool) (ep : Nat) (fr : Bool) (hpc : t.pc = .tpCas blk ep fr)
    (hfresh : fr = true) (hep : ep = c.sh.epoch) : c.sh.openedAt + cfg.timeout ≤ c.sh.clock :=
  (((reach_inv cfg h).thTime i t hi).1 blk ep fr hpc).2 hfresh hep

/-- …equivalently on the monitors: an early admission outside the two classified windows never happens, and
    every early admission is classified. -/
theorem no_early_admission_outside_windows (cfg : Cfg) {c : Conf} (h : Reach cfg c) : c.sh.earlyOut = false :=
  (reach_inv cfg h).time.2.2

theorem early_split (cfg : Cfg) {c : Conf} (h : Reach cfg c) :
    c.sh.early = (c.sh.earlyNoDl || c.sh.earlyStale || c.sh.earlyOut) := by
  induction h with
  | init => rfl
  | spawn p _ ih => simpa using ih
  | @step c i _ ih =>
    unfold Conf.sched
    cases hth : c.th[i]? with
    | none => exact ih
    | some t => exact step_early_split cfg i c.sh t ih
  | tick ms _ ih => exact ih
  | retire _ _ ih => exact ih
  | stat b t _ ih => exact ih

theorem early_is_classified (cfg : Cfg) {c : Conf} (h : Reach cfg c) (he : c.sh.early = true) :
    c.sh.earlyNoDl = true ∨ c.sh.earlyStale = true := by
  have h1 := early_split cfg h
  have h2 := no_early_admission_outside_windows cfg h
  rw [he, h2] at h1
  cases hA : c.sh.earlyNoDl with
  | true => exact Or.inl rfl
  | false =>
    cases hB : c.sh.earlyStale with
    | true => exact Or.inr rfl
    | false => rw [hA, hB] at h1; exact absurd h1 (by decide)

/-! ### Exact characterisation: the clause fails on a run iff the run enters the findings' region

The *region* is defined on the run alone (no monitor field): at some point of the schedule the thread that is granted the
next step is parked before `cas(Open,HalfOpen)`, the state word is Open, less than a full retry timeout has elapsed since
the breaker opened — and (this is what the two findings are) the deadline check that brought the thread there was made
during an earlier opening (`stale-retry-check`) or before the deadline of the current opening had been stored
(`open-without-deadline`).  `no_early_admission_iff`: on every run from `init`, "no probe is admitted before a full retry
timeout since the breaker opened" holds **iff** the run stays outside the region.  The last conjunct of the region is
implied by the rest on reachable configurations (`no_early_admission_partial`): it is not an extra restriction, it says
*where* such a point can lie. -/

/-- thread `i` of `c` is about to win `cas(Open,HalfOpen)` before a full retry timeout has elapsed since the opening -/
def EarlyWin (cfg : Cfg) (c : Conf) (i : Nat) : Prop :=
  ∃ t, c.th[i]? = some t ∧ earlyWinB cfg c.sh t = true

/-- …and its deadline check belongs to one of the two classified windows: made during an earlier opening, or before the
    deadline of the current opening was stored -/
def InWindow (c : Conf) (i : Nat) : Prop :=
  ∃ t blk ep fr, c.th[i]? = some t ∧ t.pc = .tpCas blk ep fr ∧ (ep ≠ c.sh.epoch ∨ fr = false)

/-- the region of the findings `open-without-deadline` / `stale-retry-check`, on a run: some schedule entry grants a
    step to a thread that is in that situation -/
def EarlyRegion (cfg : Cfg) (c : Conf) (es : List Ent) : Prop :=
  ∃ es₁ i r, es = es₁ ++ Ent.t i :: r ∧ EarlyWin cfg (run cfg c es₁) i ∧ InWindow (run cfg c es₁) i

theorem sched_early (cfg : Cfg) (c : Conf) (i : Nat) :
    (c.sched cfg i).sh.early = true ↔ c.sh.early = true ∨ EarlyWin cfg c i := by
  unfold Conf.sched EarlyWin
  cases hth : c.th[i]? with
  | none => simp
  | some t => simp [step_early_eq]

theorem run_early_iff (cfg : Cfg) (es : List Ent) :
    ∀ c : Conf, (run cfg c es).sh.early = true ↔
      c.sh.early = true ∨ ∃ es₁ i r, es = es₁ ++ Ent.t i :: r ∧ EarlyWin cfg (run cfg c es₁) i := by
  induction es with
  | nil => intro c; simp [run]
  | cons e r ih =>
    intro c
    have h1 : run cfg c (e :: r) = run cfg (c.exec cfg e) r := rfl
    rw [h1, ih]
    constructor
    · rintro (h | ⟨es₁, i, r', hr, hw⟩)
      · cases e with
        | tick ms => exact Or.inl h
        | t j =>
          rcases (sched_early cfg c j).mp h with h | h
          · exact Or.inl h
          · exact Or.inr ⟨[], j, r, rfl, h⟩
      · exact Or.inr ⟨e :: es₁, i, r', by rw [hr]; rfl, hw⟩
    · rintro (h | ⟨es₁, i, r', hr, hw⟩)
      · cases e with
        | tick ms => exact Or.inl h
        | t j => exact Or.inl ((sched_early cfg c j).mpr (Or.inl h))
      · cases es₁ with
        | nil =>
          simp only [List.nil_append, List.cons.injEq] at hr
          obtain ⟨rfl, rfl⟩ := hr
          exact Or.inl ((sched_early cfg c i).mpr (Or.inr hw))
        | cons a es₁' =>
          simp only [List.cons_append, List.cons.injEq] at hr
          obtain ⟨rfl, rfl⟩ := hr
          exact Or.inr ⟨es₁', i, r', rfl, hw⟩

/-- on a reachable configuration, a thread about to win the probe early is necessarily in one of the two windows -/
theorem earlyWin_inWindow (cfg : Cfg) {c : Conf} (h : Reach cfg c) (i : Nat) (hw : EarlyWin cfg c i) : InWindow c i := by
  obtain ⟨t, hth, he⟩ := hw
  unfold earlyWinB at he
  split at he
  · rename_i blk ep fr hpc
    simp only [Bool.and_eq_true, beq_iff_eq, decide_eq_true_eq] at he
    refine ⟨t, blk, ep, fr, hth, hpc, ?_⟩
    by_contra hn
    push_neg at hn
    have hfr : fr = true := by cases fr <;> simp_all
    have := no_early_admission_partial cfg h i t hth blk ep fr hpc hfr hn.1
    omega
  · cases he

theorem startAll_early (cfg : Cfg) (ps : List (List Call)) : ∀ s : Sh, (startAll cfg s ps).1.early = s.early := by
  induction ps with
  | nil => intro s; rfl
  | cons q qs ih => intro s; simp [startAll, ih]

/-- **no_early_admission_iff.** On every run (any threads, programs, schedule): no probe is admitted before a full retry
    timeout has elapsed since the breaker opened **iff** the run stays outside the region of the two findings. -/
theorem no_early_admission_iff (cfg : Cfg) (progs : List (List Call)) (es : List Ent) :
    (run cfg (init cfg progs) es).sh.early = false ↔ ¬ EarlyRegion cfg (init cfg progs) es := by
  have hinit : (init cfg progs).sh.early = false := startAll_early cfg progs {}
  constructor
  · intro h ⟨es₁, i, r, hes, hw, _⟩
    have := (run_early_iff cfg es (init cfg progs)).mpr (Or.inr ⟨es₁, i, r, hes, hw⟩)
    rw [h] at this; cases this
  · intro h
    by_contra hne
    have he : (run cfg (init cfg progs) es).sh.early = true := by
      cases hx : (run cfg (init cfg progs) es).sh.early with
      | true => rfl
      | false => exact absurd hx hne
    rcases (run_early_iff cfg es (init cfg progs)).mp he with h0 | ⟨es₁, i, r, hes, hw⟩
    · rw [hinit] at h0; cases h0
    · exact h ⟨es₁, i, r, hes, hw, earlyWin_inWindow cfg (run_reachable cfg progs es₁) i hw⟩

/-- the region is inhabited: the witness runs of both findings lie in it … -/
theorem earlyRegion_inhabited :
    EarlyRegion cfg1000 (init cfg1000 [[.complete 1 true], [.tryPass false]]) (sch [0, 0, 0, 1, 1, 1, 1]) ∧
    EarlyRegion cfg10 (init cfg10 [[.complete 1 true], [.tryPass false], [.tryPass false, .complete 1 false, .complete 1 true]])
      (sch [0, 0, 0, 0] ++ [.tick 10] ++ sch [1, 1, 1, 2, 2, 2, 2, 2, 2, 2, 2, 2, 2, 2, 2, 2, 1]) := by
  constructor
  · by_contra h
    have := (no_early_admission_iff cfg1000 _ _).mpr h
    exact absurd (show earlyRun.sh.early = false from this) (by rw [early_probe_witness.1]; decide)
  · by_contra h
    have := (no_early_admission_iff cfg10 _ _).mpr h
    exact absurd (show abaRun.sh.early = false from this) (by rw [aba_witness.1]; decide)

/-- … and so is its complement (non-vacuity of the other direction): the sequential run of the same two calls -/
example : ¬ EarlyRegion cfg1000 (init cfg1000 [[.complete 1 true], [.tryPass false]]) (sch [0, 0, 0, 0, 1, 1, 1, 1]) :=
  (no_early_admission_iff cfg1000 _ _).mp (by decide)

/-- the deadline, once stored after an opening, is a full timeout after that opening -/
theorem stored_deadline_is_full_timeout (cfg : Cfg) {c : Conf} (h : Reach cfg c) (hf : c.sh.fresh = true) :
    c.sh.openedAt + cfg.timeout ≤ c.sh.deadline :=
  (reach_inv cfg h).time.2.1 hf

/-! ## rule reloads and several breakers per resource

`World`: the breaker objects built by successive rule loads (`rebuildAux` = `BuildResourceCircuitBreaker` on a copy of
the current list: an equal rule keeps its object, any other rule gets a fresh Closed object sharing only a statistic) and
the resource's *published* breaker list `cur`.  A request takes its snapshot of `cur` when `Slot.Check` /
`MetricStatSlot.OnCompleted` start (`advance`) and walks over it; a rule load publishes the new list in one step, after
the last yield point inside the rebuild.  `wrun (wstart …)` is what the driver executes. -/

/-- the words (and monitors) of an object, without the shared statistic and clock -/
def Obj.words (o : Obj) : St × Nat × Nat × List Note × List Note :=
  (o.conf.sh.st, o.conf.sh.deadline, o.conf.sh.probe, o.conf.sh.hist, o.conf.sh.log)

/-- A step of a call bound to object `k` leaves the state word, deadline, probe counter, history and listener log of
    every other object alone (they only share the statistic and the clock): in particular a completion that is still
    under way on a retired object cannot open, close or re-arm a live one. -/
theorem world_step_frame (w : World) (k j k' : Nat) (hne : k' ≠ k) :
    ((w.step k j).objs[k']?).map Obj.words = (w.objs[k']?).map Obj.words := by
  unfold World.step
  cases hk : w.objs[k]? with
  | none => rfl
  | some o =>
    unfold World.sync
    have hset : (w.objs.set k { o with conf := o.conf.sched o.cfg j })[k']? = w.objs[k']? := by
      simp [List.getElem?_set, Ne.symm hne]
    cases hk2 : (w.objs.set k { o with conf := o.conf.sched o.cfg j })[k]? with
    | none => simp only [hk2, hset]
    | some o2 =>
      simp only [hk2, List.getElem?_map, hset]
      cases w.objs[k']? with
      | none => rfl
      | some p =>
        simp only [Option.map_some]
        split_ifs <;> rfl

/-- the published list changes only when a rule load completes: a step of a breaker call never changes it … -/
theorem world_step_keeps_list (w : World) (k j : Nat) : (w.step k j).cur = w.cur := by
  unfold World.step
  cases w.objs[k]? with
  | none => rfl
  | some o =>
    unfold World.sync
    dsimp only
    split <;> rfl

/-- … and neither does the start of a call, nor a tick -/
theorem world_bind_keeps_list (w : World) (k : Nat) (c : Call) : (w.bindOn k c).1.cur = w.cur := by
  unfold World.bindOn
  cases w.objs[k]? with
  | none => rfl
  | some o =>
    unfold World.sync
    dsimp only
    split <;> rfl

/-- a rule load keeps every existing object as it is (an equal rule reuses its breaker with its state: an Open breaker
    that is reused stays Open, with its deadline): objects are only appended -/
theorem rebuild_keeps_objects (clock : Nat) (rules : List RuleE) :
    ∀ (old : List Nat) (objs : List Obj) (new : List Nat), objs <+: (rebuildAux clock rules old objs new).1 := by
  induction rules with
  | nil => intro old objs new; simp [rebuildAux]
  | cons r rs ih =>
    intro old objs new
    unfold rebuildAux
    split
    · exact ih _ _ _
    · split
      · exact (List.prefix_append _ _).trans (ih _ _ _)
      · exact (List.prefix_append _ _).trans (ih _ _ _)

/-- Every object of every world reached from a world of breakers — any harness threads, any programs of checks,
    completions and rule loads, any schedule — is a reachable single-breaker configuration: `transition_once`,
    `log_is_path`, `probe_admissions_eq_transitions`, `no_early_admission_partial`, … hold for every breaker of the
    published list and for each retired one. -/
theorem reload_objects_are_breakers (w : World) (h : WOK w) (progs : List (List WCall)) (es : List Ent) :
    WOK (wrun ⟨(wstart w progs).1, (wstart w progs).2⟩ es).w :=
  wok_wrun es _ (wok_wstart progs w h)

/-- the first rule load of a case -/
theorem first_load_is_breaker (rules : List RuleE) : WOK (({} : World).rebuild rules) :=
  wok_rebuild _ rules wok_empty

/-- …for instance: on no object, live or retired, is a probe admitted early outside the two classified windows, and
    each object's transition history is a legal path from Closed -/
theorem reload_no_early_admission_outside_windows (w : World) (h : WOK w) (o : Obj) (ho : o ∈ w.objs) :
    o.conf.sh.earlyOut = false ∧ walk .closed o.conf.sh.hist = some o.conf.sh.st :=
  ⟨no_early_admission_outside_windows o.cfg (h o ho), log_is_path o.cfg (h o ho)⟩

/-! ## exit hooks: an entry rolls back only breakers it probed; an entry-less context never rolls back

`WT.rollSet`: the breakers a harness thread's entry under way may still roll back (hooks registered so far + the rollback
under way).  It is empty when an item starts (`advance_rollSet`), it grows only by the breaker `k` whose `TryPass` — a call
of this very entry — has just been admitted as the winner of `cas(Open,HalfOpen)`, and only if the context carries an
entry (`afterCall_rollSet`, `wtstep_rollSet`); a rollback call is bound only to a member of it (`startRoll_rollSet`).
Hence, in every reachable world (any number of breakers per resource, reloads included): a HalfOpen→Open rollback of
breaker `k` is only ever performed by a thread whose current entry won a probe on `k`, and a `tpn` check never rolls back
(`noEntry_never_rolls_back`).  These are step invariants of `WT.step`; `wrun` only iterates `WT.step`. -/

def _root_.Sentinel.BreakerRace.WT.rollSet (t : WT) : List Nat :=
  match t.phase with
  | .checking _ hooks _ _ => hooks
  | .rolling rest => (t.cur.map (·.1)).toList ++ rest
  | _ => []

/-- a new item starts with no hooks (and never in the middle of a rollback) -/
theorem advance_rollSet (todo : List WCall) : ∀ (w : World) (res : List Bool), (advance w res todo).2.rollSet = [] := by
  induction todo with
  | nil => intro w res; rfl
  | cons c r ih =>
    intro w res
    cases c with
    | check fb ne =>
      unfold advance
      split
      · exact ih _ _
      · rfl
    | complete rt err =>
      unfold advance
      split
      · exact ih _ _
      · rfl
    | load rules noop nx => rfl

/-- the exit hooks are run in order: the rollback bound next is the head of the list, the rest stays -/
theorem startRoll_rollSet (w : World) (t : WT) (hs : List Nat) : (startRoll w t hs).2.rollSet = hs := by
  cases hs with
  | nil => exact advance_rollSet _ _ _
  | cons h r => simp [startRoll, WT.rollSet]

/-- after a breaker call of the entry has returned: the set is the old one, possibly plus the breaker `k` just asked —
    only if its TryPass returned true **as the probe winner** and the context carries an entry -/
theorem afterCall_rollSet (w : World) (t : WT) (k : Nat) (b won : Bool) :
    ∀ h ∈ (afterCall w t k b won).2.rollSet,
      h ∈ t.rollSet ∨ (h = k ∧ b = true ∧ won = true ∧ ∃ rest hooks fb, t.phase = .checking rest hooks fb false) := by
  intro h hh
  unfold afterCall at hh
  cases hp : t.phase with
  | checking rest hooks fb ne =>
    rw [hp] at hh
    have hrs : t.rollSet = hooks := by simp [WT.rollSet, hp]
    cases b with
    | false =>
      simp only [Bool.false_eq_true, if_false] at hh
      rw [startRoll_rollSet] at hh
      exact Or.inl (hrs ▸ hh)
    | true =>
      simp only [if_true] at hh
      have hmem : ∀ x ∈ (if (won && !ne) = true then hooks ++ [k] else hooks),
          x ∈ hooks ∨ (x = k ∧ won = true ∧ ne = false) := by
        intro x hx
        split_ifs at hx with hc
        · simp only [Bool.and_eq_true, Bool.not_eq_true'] at hc
          rcases List.mem_append.mp hx with hx | hx
          · exact Or.inl hx
          · exact Or.inr ⟨by simpa using hx, hc.1, hc.2⟩
        · exact Or.inl hx
      have fin : ∀ x ∈ (if (won && !ne) = true then hooks ++ [k] else hooks),
          x ∈ t.rollSet ∨ (x = k ∧ true = true ∧ won = true ∧
            ∃ rest' hooks' fb', Phase.checking rest hooks fb ne = Phase.checking rest' hooks' fb' false) := by
        intro x hx
        rcases hmem x hx with hx | ⟨h1, h2, h3⟩
        · exact Or.inl (hrs ▸ hx)
        · exact Or.inr ⟨h1, rfl, h2, rest, hooks, fb, by rw [h3]⟩
      cases rest with
      | cons k2 ks =>
        simp only [WT.rollSet] at hh
        exact fin h hh
      | nil =>
        cases fb with
        | true =>
          simp only [if_true] at hh
          rw [startRoll_rollSet] at hh
          exact fin h hh
        | false =>
          simp only [Bool.false_eq_true, if_false] at hh
          rw [advance_rollSet] at hh
          cases hh
  | rolling rest =>
    rw [hp] at hh
    simp only at hh
    rw [startRoll_rollSet] at hh
    exact Or.inl (by simp [WT.rollSet, hp, hh])
  | completing rest rt err =>
    rw [hp] at hh
    cases rest with
    | cons k2 ks => simp [WT.rollSet] at hh
    | nil => simp only at hh; rw [advance_rollSet] at hh; cases hh
  | idle => rw [hp] at hh; simp only at hh; rw [advance_rollSet] at hh; cases hh
  | loading _ _ _ => rw [hp] at hh; simp only at hh; rw [advance_rollSet] at hh; cases hh
  | rebuilding _ _ => rw [hp] at hh; simp only at hh; rw [advance_rollSet] at hh; cases hh

/-- **Step invariant.** Whatever a harness thread may roll back after a step, it could already roll back before, or it
    is the breaker `k` of the call `(k, j)` that has just returned with its admission recorded as *probe won by that very
    call* on `k`, through a context that carries an entry. -/
theorem wtstep_rollSet (w : World) (t : WT) :
    ∀ h ∈ (t.step w).2.rollSet,
      h ∈ t.rollSet ∨
      (∃ j, t.cur = some (h, j) ∧
        (((w.step h j).objs[h]?).bind fun o => o.conf.sh.admits.getLast?) = some (j, How.probeWin) ∧
        ∃ rest hooks fb, t.phase = .checking rest hooks fb false) := by
  intro h hh
  unfold WT.step at hh
  split at hh
  · split_ifs at hh
    · rw [advance_rollSet] at hh; cases hh
    · rw [advance_rollSet] at hh; cases hh
    · simp [WT.rollSet] at hh
  · split_ifs at hh
    · rw [advance_rollSet] at hh; cases hh
    · simp [WT.rollSet] at hh
  · split at hh
    · exact Or.inl hh
    · rename_i k j hcur
      split at hh
      · rename_i th adm hsome
        split_ifs at hh
        · rcases afterCall_rollSet _ _ _ _ _ h hh with h1 | ⟨rfl, _, hwon, hph⟩
          · exact Or.inl h1
          · refine Or.inr ⟨j, hcur, ?_, hph⟩
            cases ho : (w.step h j).objs[h]? with
            | none => rw [ho] at hsome; cases hsome
            | some o =>
              rw [ho] at hsome
              simp only [Option.bind_some, Option.map_eq_some_iff] at hsome
              obtain ⟨th', _, heq⟩ := hsome
              cases heq
              simpa using hwon
        · exact Or.inl hh
      · exact Or.inl hh

/-- a check through a context without `SentinelEntry` keeps its hook list empty … -/
theorem noEntry_afterCall (w : World) (t : WT) (k : Nat) (b won : Bool) (rest : List Nat) (fb : Bool)
    (hp : t.phase = .checking rest [] fb true) : (afterCall w t k b won).2.rollSet = [] := by
  apply List.eq_nil_iff_forall_not_mem.mpr
  intro h hh
  rcases afterCall_rollSet w t k b won h hh with h1 | ⟨_, _, _, r, hk, f, hph⟩
  · simp [WT.rollSet, hp] at h1
  · rw [hp] at hph; cases hph

/-- … so it never installs a rollback: **after every breaker call of a `tpn` check the hook list is still empty, and no
    rollback is under way** (a `rolling` phase would carry the breaker being rolled back in `cur`, which `rollSet` contains) -/
theorem noEntry_never_rolls_back (w : World) (t : WT) (k : Nat) (b won : Bool) (rest : List Nat) (fb : Bool)
    (hp : t.phase = .checking rest [] fb true) :
    (∀ rest' hooks' fb' ne', (afterCall w t k b won).2.phase = .checking rest' hooks' fb' ne' → hooks' = []) ∧
    (∀ r, (afterCall w t k b won).2.phase = .rolling r → (afterCall w t k b won).2.cur = none ∧ r = []) := by
  have h0 := noEntry_afterCall w t k b won rest fb hp
  constructor
  · intro rest' hooks' fb' ne' hph
    simpa [WT.rollSet, hph] using h0
  · intro r hph
    simp only [WT.rollSet, hph, List.append_eq_nil_iff] at h0
    refine ⟨?_, h0.2⟩
    cases hc : (afterCall w t k b won).2.cur with
    | none => rfl
    | some p => rw [hc] at h0; simp at h0

/-! ## per-resource reloads with inner yield points: a request sees the old list or the new one, never a mixture

The snapshot a check / completion walks over is taken in `advance` (`k :: rest` = the breaker asked first and those still
to ask).  `advance_snapshot`: it **is** the list published at that moment.  `wtstep_list`: the published list changes only in
the step that completes a load, and then to the complete rebuilt list; the steps of a load before that — the yield points
`cb.x.reload` / `cb.x.rebuild` inside `LoadRulesOfResource` — leave the whole world untouched
(`rebuild_invisible_until_published`), and no other kind of step changes the list.  So every snapshot taken at any point of
any run equals the list most recently published — the old one or the new one. -/

theorem advance_keeps_list (todo : List WCall) : ∀ (w : World) (res : List Bool), (advance w res todo).1.cur = w.cur := by
  induction todo with
  | nil => intro w res; rfl
  | cons c r ih =>
    intro w res
    cases c with
    | check fb ne =>
      unfold advance
      split
      · exact ih _ _
      · exact world_bind_keeps_list _ _ _
    | complete rt err =>
      unfold advance
      split
      · exact ih _ _
      · exact world_bind_keeps_list _ _ _
    | load rules noop nx => rfl

/-- **the snapshot clause**: the list a check / completion starts to walk over is the published list of that moment -/
theorem advance_snapshot (todo : List WCall) : ∀ (w : World) (res : List Bool) (k j : Nat) (rest : List Nat),
    (advance w res todo).2.cur = some (k, j) →
    ((∃ hooks fb ne, (advance w res todo).2.phase = .checking rest hooks fb ne) ∨
     (∃ rt err, (advance w res todo).2.phase = .completing rest rt err)) →
    k :: rest = w.cur := by
  induction todo with
  | nil => intro w res k j rest hc _; cases hc
  | cons c r ih =>
    intro w res k j rest hc hp
    cases c with
    | check fb ne =>
      unfold advance at hc hp
      split at hc
      · rename_i hcur
        rw [hcur] at hp
        have := ih w (res ++ [true]) k j rest hc hp
        rw [this, hcur]
      · rename_i k0 ks hcur
        rw [hcur] at hp
        simp only [Option.some.injEq, Prod.mk.injEq] at hc
        rcases hp with ⟨hooks, fb', ne', hp⟩ | ⟨rt, err, hp⟩
        · simp only [Phase.checking.injEq] at hp
          rw [hcur, ← hc.1, hp.1]
        · cases hp
    | complete rt err =>
      unfold advance at hc hp
      split at hc
      · rename_i hcur
        rw [hcur] at hp
        have := ih w res k j rest hc hp
        rw [this, hcur]
      · rename_i k0 ks hcur
        rw [hcur] at hp
        simp only [Option.some.injEq, Prod.mk.injEq] at hc
        rcases hp with ⟨hooks, fb', ne', hp⟩ | ⟨rt', err', hp⟩
        · cases hp
        · simp only [Phase.completing.injEq] at hp
          rw [hcur, ← hc.1, hp.1]
    | load rules noop nx =>
      simp [advance] at hc

theorem startRoll_keeps_list (w : World) (t : WT) (hs : List Nat) : (startRoll w t hs).1.cur = w.cur := by
  cases hs with
  | nil => exact advance_keeps_list _ _ _
  | cons h r => exact world_bind_keeps_list _ _ _

theorem afterCall_keeps_list (w : World) (t : WT) (k : Nat) (b won : Bool) : (afterCall w t k b won).1.cur = w.cur := by
  unfold afterCall
  cases t.phase with
  | checking rest hooks fb ne =>
    cases b with
    | false => simpa using startRoll_keeps_list _ _ _
    | true =>
      cases rest with
      | cons k2 ks => simpa using world_bind_keeps_list _ _ _
      | nil =>
        cases fb with
        | true => simpa using startRoll_keeps_list _ _ _
        | false => simpa using advance_keeps_list _ _ _
  | rolling rest => exact startRoll_keeps_list _ _ _
  | completing rest rt err =>
    cases rest with
    | cons k2 ks => exact world_bind_keeps_list _ _ _
    | nil => exact advance_keeps_list _ _ _
  | idle => exact advance_keeps_list _ _ _
  | loading _ _ _ => exact advance_keeps_list _ _ _
  | rebuilding _ _ => exact advance_keeps_list _ _ _

/-- the steps of a load before its last one change nothing at all: the rebuild is invisible until it is published -/
theorem rebuild_invisible_until_published (w : World) (t : WT) :
    (∀ rules nx, t.phase = .loading rules false nx → nx ≠ 0 → (t.step w).1 = w) ∧
    (∀ rules left, t.phase = .rebuilding rules left → 1 < left → (t.step w).1 = w) := by
  constructor
  · intro rules nx hp hnx
    unfold WT.step
    rw [hp]
    simp [hnx]
  · intro rules left hp hl
    unfold WT.step
    rw [hp]
    have : ¬ left ≤ 1 := by omega
    simp [this]

/-- **old or new, never a mixture**: one step of any harness thread either leaves the published list as it is, or it is
    the step that completes a rule load and the list becomes the complete rebuilt list -/
theorem wtstep_list (w : World) (t : WT) :
    (t.step w).1.cur = w.cur ∨
    (∃ rules, (t.step w).1.cur = (w.rebuild rules).cur ∧
      ((∃ nx, t.phase = .loading rules false nx ∧ nx = 0) ∨ (∃ left, t.phase = .rebuilding rules left ∧ left ≤ 1))) := by
  unfold WT.step
  split
  · rename_i rules noop nx hp
    split_ifs with h1 h2
    · exact Or.inl (advance_keeps_list _ _ _)
    · refine Or.inr ⟨rules, advance_keeps_list _ _ _, Or.inl ⟨nx, ?_, h2⟩⟩
      have : noop = false := by simpa using h1
      rw [hp, this]
    · exact Or.inl rfl
  · rename_i rules left hp
    split_ifs with h1
    · exact Or.inr ⟨rules, advance_keeps_list _ _ _, Or.inr ⟨left, hp, h1⟩⟩
    · exact Or.inl rfl
  · split
    · exact Or.inl rfl
    · split
      · split_ifs
        · exact Or.inl ((afterCall_keeps_list _ _ _ _ _).trans (world_step_keeps_list _ _ _))
        · exact Or.inl (world_step_keeps_list _ _ _)
      · exact Or.inl (world_step_keeps_list _ _ _)

/-- a tick does not change the list either -/
theorem world_tick_keeps_list (w : World) (ms : Nat) : (w.tick ms).cur = w.cur := rfl

/-! ## non-vacuity -/

/-- the hypotheses of `single_probe` are satisfiable on a reachable configuration: after a probe was admitted the
    word is HalfOpen, and two more TryPass calls running under the schedule `1 2 1 2` keep it there -/
example : staysHalfOpen cfg10
    (run cfg10 (init cfg10 [[.complete 1 true, .tryPass false], [.tryPass false], [.tryPass false]])
      (sch [0, 0, 0, 0] ++ [.tick 10] ++ sch [0, 0, 0, 0])) (sch [1, 2]) := by
  simp only [staysHalfOpen, sch, List.map]
  decide

/-- the hypotheses of `no_early_admission_partial` are satisfiable: a TryPass parked before its CAS with a fresh
    check of the current opening -/
example : ((run cfg10 (init cfg10 [[.complete 1 true], [.tryPass false]])
      (sch [0, 0, 0, 0] ++ [.tick 10] ++ sch [1, 1, 1])).th[1]?).map (·.pc) = some (.tpCas false 1 true) := by
  decide

end Sentinel.C12
