import Sentinel.Lemmas.BreakerRace
/-!
# C12 — Breaker transitions are atomic and probes exclusive under concurrency

Property-level statements about the small-step model `Sentinel.BreakerRace` (the definitions the driver
executes against `core/circuitbreaker` through the `cb.*` yield hooks).  Helper lemmas and the inductive
invariant live in `Sentinel/Lemmas/BreakerRace.lean`.

Reading guide.  `step cfg i s t` is one schedule entry for thread `i`: the atomic access it is parked at plus
its thread-local code up to the next yield point.  `Reach cfg c`: `c` is reachable with **any number of
threads**, arbitrary programs of `TryPass` / `OnRequestComplete` calls, **any schedule** of steps and clock
ticks (threads may be spawned at any time).  `hist` is the list of won CASes on the state word in CAS order,
`log` the listener calls in call order, `admits` who got `true` from `TryPass` and why (ghost fields).
`run cfg (init cfg progs) es` — what the driver computes for an op file — is reachable (`run_reachable`).
-/
namespace Sentinel.C12
open Sentinel.BreakerRace

theorem run_reachable (cfg : Cfg) (progs : List (List Call)) (es : List Ent) :
    Reach cfg (run cfg (init cfg progs) es) :=
  reach_run cfg (reach_init cfg progs) es

/-! ## transition_once — each transition is one won CAS by one thread, reported exactly once with the right prev -/

/-- The state word changes only in a step of a thread parked before a CAS whose expected value is the current
    word (so two threads cannot both perform "the same" transition); the change follows a legal edge and is
    recorded once, under the winner's id. -/
theorem transition_once_cas (cfg : Cfg) (i : Nat) (s : Sh) (t : Th) :
    ((step cfg i s t).1.st = s.st ∧ (step cfg i s t).1.hist = s.hist) ∨
    ((step cfg i s t).1.hist = s.hist ++ [⟨s.st, (step cfg i s t).1.st, i⟩] ∧
      legal s.st (step cfg i s t).1.st = true ∧ t.pc.casExpect = some s.st) :=
  step_transition cfg i s t

/-- A listener call is made by the stepping thread, for a CAS it won (in this step or earlier), with that CAS's
    expected value as `prev`. -/
theorem transition_once_report (cfg : Cfg) (i : Nat) (s : Sh) (t : Th) :
    (step cfg i s t).1.log = s.log ∨
    (∃ p q, (step cfg i s t).1.log = s.log ++ [⟨p, q, i⟩] ∧
      (t.pc.owes = some (p, q) ∨ (t.pc.casExpect = some p ∧ s.st = p ∧ (step cfg i s t).1.st = q))) :=
  step_log cfg i s t

/-- In every reachable configuration, for every transition `k = (prev, to, thread)`: the number of times it
    happened equals the number of times it was reported plus one if its thread is right now between that CAS
    and the listener call (and zero otherwise) — never reported twice, never dropped, never by somebody else,
    never with another `prev`. -/
theorem transition_once (cfg : Cfg) {c : Conf} (h : Reach cfg c) (k : Note) :
    c.sh.hist.count k = c.sh.log.count k +
      (match c.th[k.tid]? with | some t => owe k.tid t k | none => 0) :=
  (reach_inv cfg h).notify k

/-- …hence whenever no thread is between a CAS and its listener call (in particular when all calls have
    returned) the listener log is exactly the transition history, up to order. -/
theorem transition_once_quiescent (cfg : Cfg) {c : Conf} (h : Reach cfg c)
    (hq : ∀ t ∈ c.th, t.pc.owes = none) : c.sh.log.Perm c.sh.hist := by
  rw [List.perm_iff_count]
  intro k
  have hk := transition_once cfg h k
  cases hth : c.th[k.tid]? with
  | none => rw [hth] at hk; simpa using hk.symm
  | some t =>
    rw [hth] at hk
    have := hq t (List.mem_of_getElem? hth)
    simpa [owe, this] using hk.symm

/-! ## log_is_path — the transitions form a walk of the state machine from Closed -/

/-- The transition history is a path in the legal graph, starts at Closed and ends at the current state word. -/
theorem log_is_path (cfg : Cfg) {c : Conf} (h : Reach cfg c) : walk .closed c.sh.hist = some c.sh.st :=
  (reach_inv cfg h).path

/-! ### What is NOT claimed under concurrency: the order of listener calls of different threads

The property (C12) says: each transition is performed by one caller and reported exactly once with the correct
previous state — `transition_once` above.  It makes **no claim about the order in which the listener calls of
different threads arrive**; the ordered-path claim for the listener log belongs to the *sequential* property C03.
The three items below only document this boundary (they are not a property violation and not a finding): listeners
are called after the CAS (`->Open`: after the deadline store; `HalfOpen->Closed`: after the probe-counter reset), so
a later transition of another thread can be reported first; the CAS history is always a path (`log_is_path`), and the
listener log coincides with it whenever notifications do not overlap with other threads' steps
(`listener_order_partial`, which covers the sequential case). -/

/-- (not claimed by C12) "the listener log, read as a sequence of calls, is a path from Closed" -/
def listener_call_order_not_claimed : Prop :=
  ∀ (cfg : Cfg) (c : Conf), Reach cfg c → (walk .closed c.sh.log).isSome = true

/-- error-count breaker: one failed request trips it; retry timeout 10 ms; probeNum 0 -/
def cfg10 : Cfg :=
  { timeout := 10, minReq := 1, probeNum := 0, slowKind := false, maxRt := 0, trip := fun b _ => decide (1 ≤ b) }

/-- same with retry timeout 1000 ms -/
def cfg1000 : Cfg := { cfg10 with timeout := 1000 }

def sch (l : List Nat) : List Ent := l.map Ent.t

/-- thread 0: fail (opens), probe after the timeout, succeed (closes: parked between cas(HalfOpen,Closed) and its
    listener call); thread 1: a failed completion trips the closed breaker and reports Closed→Open first -/
def orderRun : Conf :=
  run cfg10 (init cfg10 [[.complete 1 true, .tryPass false, .complete 1 false], [.complete 1 true]])
    (sch [0, 0, 0, 0] ++ [.tick 10] ++ sch [0, 0, 0, 0, 0, 0, 0, 1, 1, 1, 1, 0])

/-- an interleaving in which every transition is reported exactly once with the right prev, nothing is admitted
    early, and yet the calls arrive in an order that is not a path: documentation, not a violation -/
theorem listener_calls_can_reorder_example :
    orderRun.sh.log = [⟨.closed, .opened, 0⟩, ⟨.opened, .halfOpen, 0⟩, ⟨.closed, .opened, 1⟩, ⟨.halfOpen, .closed, 0⟩]
      ∧ walk .closed orderRun.sh.log = none ∧ orderRun.sh.early = false := by decide

/-- …so the sequence reading is not a theorem of the concurrent model (and C12 does not ask for it) -/
theorem listener_call_order_not_a_theorem : ¬ listener_call_order_not_claimed := by
  intro h
  have h1 := h cfg10 orderRun (run_reachable _ _ _)
  have h2 := listener_calls_can_reorder_example.2.1
  rw [h2] at h1
  exact absurd h1 (by decide)

/-- no other thread takes a step while somebody is between a won CAS and its listener call -/
def QuietRun (cfg : Cfg) : Conf → List Ent → Prop
  | _, [] => True
  | c, .tick ms :: r => QuietRun cfg (c.tick ms) r
  | c, .t i :: r => QuietAt c i ∧ QuietRun cfg (c.sched cfg i) r

theorem order_run (cfg : Cfg) (es : List Ent) : ∀ c : Conf, OrderInv c → QuietRun cfg c es → OrderInv (run cfg c es) := by
  induction es with
  | nil => intro c h _; exact h
  | cons e r ih =>
    intro c h hq
    cases e with
    | tick ms => exact ih (c.tick ms) h hq
    | t i => exact ih (c.sched cfg i) (order_step cfg i h hq.1) hq.2

/-- **listener_order_partial.** If no other thread steps while a thread is between a won CAS and its listener
    call (in particular: sequentially), then whenever nobody owes a notification the listener log *is* the
    transition history, in order — and therefore a path from Closed to the current state word. -/
theorem listener_order_partial (cfg : Cfg) (progs : List (List Call)) (es : List Ent)
    (hq : QuietRun cfg (init cfg progs) es)
    (hdone : ∀ t ∈ (run cfg (init cfg progs) es).th, t.pc.owes = none) :
    (run cfg (init cfg progs) es).sh.log = (run cfg (init cfg progs) es).sh.hist ∧
    walk .closed (run cfg (init cfg progs) es).sh.log = some (run cfg (init cfg progs) es).sh.st := by
  have hJ := order_run cfg es _ (order_init cfg progs) hq
  have hQ : QuietAt (run cfg (init cfg progs) es) 0 := fun j u _ hu => hdone u (List.mem_of_getElem? hu)
  have h0 := hJ 0 hQ
  have hl : (run cfg (init cfg progs) es).sh.log = (run cfg (init cfg progs) es).sh.hist := by
    cases hu : (run cfg (init cfg progs) es).th[0]? with
    | none => rw [hu] at h0; simpa using h0.symm
    | some u =>
      rw [hu] at h0
      have := hdone u (List.mem_of_getElem? hu)
      simpa [owedL, this] using h0.symm
  exact ⟨hl, by rw [hl]; exact log_is_path cfg (run_reachable cfg progs es)⟩

/-- decidable form of `QuietAt` / `QuietRun` (to exhibit schedules satisfying the hypothesis) -/
def quietAtB (c : Conf) (i : Nat) : Bool :=
  (List.range c.th.length).all fun j =>
    j == i || (match c.th[j]? with | some u => u.pc.owes.isNone | none => true)

theorem quietAtB_sound (c : Conf) (i : Nat) (h : quietAtB c i = true) : QuietAt c i := by
  intro j u hj hu
  have hjlt : j < c.th.length := by
    by_contra hn
    rw [List.getElem?_eq_none (by omega)] at hu; cases hu
  have := List.all_eq_true.mp h j (List.mem_range.mpr hjlt)
  simp [hj, hu] at this
  exact this

def quietRunB (cfg : Cfg) : Conf → List Ent → Bool
  | _, [] => true
  | c, .tick ms :: r => quietRunB cfg (c.tick ms) r
  | c, .t i :: r => quietAtB c i && quietRunB cfg (c.sched cfg i) r

theorem quietRunB_sound (cfg : Cfg) (es : List Ent) : ∀ c : Conf, quietRunB cfg c es = true → QuietRun cfg c es := by
  induction es with
  | nil => intro c _; trivial
  | cons e r ih =>
    intro c h
    cases e with
    | tick ms => exact ih _ h
    | t i =>
      simp only [quietRunB, Bool.and_eq_true] at h
      exact ⟨quietAtB_sound c i h.1, ih _ h.2⟩

/-- the hypothesis of `listener_order_partial` is satisfiable: open, wait, probe, close — interleaved with a
    second thread's TryPass calls at points where nobody owes a notification -/
example : QuietRun cfg10 (init cfg10 [[.complete 1 true, .tryPass false, .complete 1 false], [.tryPass false, .tryPass false]])
    (sch [0, 0, 0, 0, 1, 1] ++ [.tick 10] ++ sch [0, 0, 1, 0, 0, 0, 0, 0, 0, 1]) :=
  quietRunB_sound _ _ _ (by decide)

/-! ## single_probe — probeNum = 0: one probe per passage to HalfOpen -/

/-- Why a `TryPass` can return true at all: it read Closed; or (probeNum > 0) it read HalfOpen; or it won the
    Open→HalfOpen CAS — exactly one admission per step, of the stepping thread, and a step that admits nobody
    lets a returning `TryPass` return false. -/
theorem admission_reasons (cfg : Cfg) (i : Nat) (s : Sh) (t : Th) :
    ((step cfg i s t).1.admits = s.admits ∧
        ((step cfg i s t).2.res = t.res ∨ (step cfg i s t).2.res = t.res ++ [false])) ∨
    ((step cfg i s t).2.res = t.res ++ [true] ∧
      (((step cfg i s t).1.admits = s.admits ++ [(i, .closedRead)] ∧ s.st = .closed
          ∧ (step cfg i s t).1.hist = s.hist) ∨
       ((step cfg i s t).1.admits = s.admits ++ [(i, .quota)] ∧ s.st = .halfOpen ∧ 0 < cfg.probeNum
          ∧ (step cfg i s t).1.hist = s.hist) ∨
       ((step cfg i s t).1.admits = s.admits ++ [(i, .probeWin)] ∧ s.st = .opened ∧ (step cfg i s t).1.st = .halfOpen
          ∧ (step cfg i s t).1.hist = s.hist ++ [⟨.opened, .halfOpen, i⟩]))) :=
  step_admit_cases cfg i s t

/-- the state word is HalfOpen before every entry of the schedule -/
def staysHalfOpen (cfg : Cfg) : Conf → List Ent → Prop
  | _, [] => True
  | c, e :: r => c.sh.st = .halfOpen ∧ staysHalfOpen cfg (c.exec cfg e) r

theorem sched_halfOpen (cfg : Cfg) (hp : cfg.probeNum = 0) (c : Conf) (hc : c.sh.st = .halfOpen) (j : Nat) :
    (c.sched cfg j).sh.admits = c.sh.admits ∧
    ∀ (i : Nat) (t : Th), c.th[i]? = some t →
      ∃ t' fs, (c.sched cfg j).th[i]? = some t' ∧ t'.res = t.res ++ fs ∧ ∀ b ∈ fs, b = false := by
  unfold Conf.sched
  cases hth : c.th[j]? with
  | none => exact ⟨rfl, fun i t hi => ⟨t, [], hi, by simp, by simp⟩⟩
  | some u =>
    have hj : j < c.th.length := by
      by_contra hn
      rw [List.getElem?_eq_none (by omega)] at hth; cases hth
    have hcases := step_admit_cases cfg j c.sh u
    have hno : (step cfg j c.sh u).1.admits = c.sh.admits ∧
        ((step cfg j c.sh u).2.res = u.res ∨ (step cfg j c.sh u).2.res = u.res ++ [false]) := by
      rcases hcases with h | ⟨_, h | h | h⟩
      · exact h
      · rw [hc] at h; exact absurd h.2.1 (by decide)
      · omega
      · rw [hc] at h; exact absurd h.2.1 (by decide)
    refine ⟨hno.1, fun i t hi => ?_⟩
    by_cases hij : j = i
    · subst hij
      rw [hth] at hi; cases hi
      refine ⟨(step cfg j c.sh u).2, ?_⟩
      rcases hno.2 with h | h
      · exact ⟨[], by simp [hj], by simp [h], by simp⟩
      · exact ⟨[false], by simp [hj], h, by simp⟩
    · exact ⟨t, [], by simp [hij, hi], by simp, by simp⟩

/-- **single_probe.** `probeNum = 0`: as long as the state word stays HalfOpen — i.e. from a won Open→HalfOpen
    CAS (which admits its winner and nobody else, `admission_reasons`) until the completion or rollback that
    CASes it away — no `TryPass` of any thread returns true, under any schedule. -/
theorem single_probe (cfg : Cfg) (hp : cfg.probeNum = 0) (es : List Ent) :
    ∀ c : Conf, staysHalfOpen cfg c es →
      (run cfg c es).sh.admits = c.sh.admits ∧
      ∀ (i : Nat) (t : Th), c.th[i]? = some t →
        ∃ t' fs, (run cfg c es).th[i]? = some t' ∧ t'.res = t.res ++ fs ∧ ∀ b ∈ fs, b = false := by
  induction es with
  | nil => intro c _; exact ⟨rfl, fun i t hi => ⟨t, [], hi, by simp, by simp⟩⟩
  | cons e r ih =>
    intro c hs
    obtain ⟨hc, hr⟩ := hs
    have ih' := ih (c.exec cfg e) hr
    cases e with
    | tick ms => exact ih'
    | t j =>
      have h1 := sched_halfOpen cfg hp c hc j
      refine ⟨by rw [← h1.1]; exact ih'.1, fun i t hi => ?_⟩
      obtain ⟨t1, fs1, ht1, hres1, hf1⟩ := h1.2 i t hi
      obtain ⟨t2, fs2, ht2, hres2, hf2⟩ := ih'.2 i t1 ht1
      refine ⟨t2, fs1 ++ fs2, ht2, by rw [hres2, hres1, List.append_assoc], ?_⟩
      intro b hb
      rcases List.mem_append.mp hb with hb | hb
      · exact hf1 b hb
      · exact hf2 b hb

/-- Probe admissions are exactly the Open→HalfOpen transitions, per thread: each passage to HalfOpen admitted
    exactly one caller — the one that performed it. -/
theorem probe_admissions_eq_transitions (cfg : Cfg) {c : Conf} (h : Reach cfg c) (j : Nat) :
    c.sh.admits.count (j, How.probeWin) = c.sh.hist.count ⟨.opened, .halfOpen, j⟩ :=
  (reach_inv cfg h).probe j

/-! ## no_early_admission — FALSE on the pinned code; true outside two classified windows -/

/-- "While the breaker is open no request is admitted before a full retry timeout has elapsed since it opened":
    no Open→HalfOpen CAS is won at a clock value below `openedAt + timeout`, where `openedAt` is the clock at the
    last Closed→Open / HalfOpen→Open performed by a completion. -/
def no_early_admission_statement : Prop :=
  ∀ (cfg : Cfg) (c : Conf), Reach cfg c → c.sh.early = false

/-- Known finding `open-without-deadline`: thread 0 completes a failed request, wins cas(Closed,Open) and is parked
    before the deadline store; thread 1's TryPass reads Open, the still-zero deadline, and wins Open→HalfOpen in
    the same millisecond (timeout 1000 ms). -/
def earlyRun : Conf :=
  run cfg1000 (init cfg1000 [[.complete 1 true], [.tryPass false]]) (sch [0, 0, 0, 1, 1, 1])

theorem early_probe_witness :
    earlyRun.sh.early = true ∧ earlyRun.sh.earlyNoDl = true ∧ earlyRun.sh.earlyStale = false
      ∧ earlyRun.sh.clock < earlyRun.sh.openedAt + 1000 ∧ earlyRun.sh.admits = [(1, .probeWin)] := by decide

/-- the same window after a failed probe (`fromHalfOpenToOpen`: cas, probe-counter reset, deadline store): the
    deadline read is not zero but the expired one of the previous opening -/
def earlyRunHalfOpen : Conf :=
  run cfg10 (init cfg10 [[.complete 1 true, .complete 1 true], [.tryPass false, .tryPass false]])
    (sch [0, 0, 0, 0] ++ [.tick 10] ++ sch [1, 1, 1, 0, 0, 1, 1, 1])

theorem early_probe_halfopen_witness :
    earlyRunHalfOpen.sh.earlyNoDl = true ∧ earlyRunHalfOpen.sh.earlyStale = false
      ∧ earlyRunHalfOpen.sh.deadline = 10 ∧ earlyRunHalfOpen.sh.openedAt = 10 ∧ earlyRunHalfOpen.sh.clock = 10 := by
  decide

/-- Known finding `stale-retry-check` (ABA on the state word): thread 1 passes the deadline check of the first
    opening and is parked before its CAS; thread 2 probes, closes, and trips the breaker again; thread 1's
    cas(Open,HalfOpen) then succeeds although the new deadline (stored!) is a full timeout away. -/
def abaRun : Conf :=
  run cfg10 (init cfg10 [[.complete 1 true], [.tryPass false], [.tryPass false, .complete 1 false, .complete 1 true]])
    (sch [0, 0, 0, 0] ++ [.tick 10] ++ sch [1, 1, 2, 2, 2, 2, 2, 2, 2, 2, 2, 2, 2, 2, 1])

theorem aba_witness :
    abaRun.sh.early = true ∧ abaRun.sh.earlyStale = true ∧ abaRun.sh.earlyNoDl = false
      ∧ abaRun.sh.fresh = true ∧ abaRun.sh.deadline = 20 ∧ abaRun.sh.clock = 10 := by decide

theorem no_early_admission_false : ¬ no_early_admission_statement := by
  intro h
  have h1 := h cfg1000 earlyRun (run_reachable _ _ _)
  rw [early_probe_witness.1] at h1
  exact absurd h1 (by decide)

/-- run to completion first, the same two calls are fine -/
example : (run cfg1000 (init cfg1000 [[.complete 1 true], [.tryPass false]]) (sch [0, 0, 0, 0, 1, 1, 1])).sh.early = false := by
  decide

/-- **no_early_admission_partial.** In every reachable configuration: a `TryPass` parked before its
    cas(Open,HalfOpen) whose deadline load (a) happened during the current opening (`ep = epoch`: no
    Closed→Open / HalfOpen→Open since) and (b) read a deadline stored since that opening (`fr`), is parked at a
    time when the full retry timeout has elapsed since the breaker opened — so its admission is not early. -/
theorem no_early_admission_partial (cfg : Cfg) {c : Conf} (h : Reach cfg c) (i : Nat) (t : Th)
    (hi : c.th[i]? = some t) (blk : Bool) (ep : Nat) (fr : Bool) (hpc : t.pc = .tpCas blk ep fr)
    (hfresh : fr = true) (hep : ep = c.sh.epoch) : c.sh.openedAt + cfg.timeout ≤ c.sh.clock :=
  ((reach_inv cfg h).thTime i t hi blk ep fr hpc).2 hfresh hep

/-- …equivalently on the monitors: an early admission outside the two classified windows never happens, and
    every early admission is classified. -/
theorem no_early_admission_outside_windows (cfg : Cfg) {c : Conf} (h : Reach cfg c) : c.sh.earlyOut = false :=
  (reach_inv cfg h).time.2.2

theorem early_split (cfg : Cfg) {c : Conf} (h : Reach cfg c) :
    c.sh.early = (c.sh.earlyNoDl || c.sh.earlyStale || c.sh.earlyOut) := by
  induction h with
  | init => rfl
  | spawn p _ ih => simpa using ih
  | @step c i _ ih =>
    unfold Conf.sched
    cases hth : c.th[i]? with
    | none => exact ih
    | some t => exact step_early_split cfg i c.sh t ih
  | tick ms _ ih => exact ih
  | retire _ _ ih => exact ih
  | stat b t _ ih => exact ih

theorem early_is_classified (cfg : Cfg) {c : Conf} (h : Reach cfg c) (he : c.sh.early = true) :
    c.sh.earlyNoDl = true ∨ c.sh.earlyStale = true := by
  have h1 := early_split cfg h
  have h2 := no_early_admission_outside_windows cfg h
  rw [he, h2] at h1
  cases hA : c.sh.earlyNoDl with
  | true => exact Or.inl rfl
  | false =>
    cases hB : c.sh.earlyStale with
    | true => exact Or.inr rfl
    | false => rw [hA, hB] at h1; exact absurd h1 (by decide)

/-- the deadline, once stored after an opening, is a full timeout after that opening -/
theorem stored_deadline_is_full_timeout (cfg : Cfg) {c : Conf} (h : Reach cfg c) (hf : c.sh.fresh = true) :
    c.sh.openedAt + cfg.timeout ≤ c.sh.deadline :=
  (reach_inv cfg h).time.2.1 hf

/-! ## rule reloads and several breakers per resource

`World`: the breaker objects built by successive rule loads (`rebuildAux` = `BuildResourceCircuitBreaker` on a copy of
the current list: an equal rule keeps its object, any other rule gets a fresh Closed object sharing only a statistic) and
the resource's *published* breaker list `cur`.  A request takes its snapshot of `cur` when `Slot.Check` /
`MetricStatSlot.OnCompleted` start (`advance`) and walks over it; a rule load publishes the new list in one step, after
the last yield point inside the rebuild.  `wrun (wstart …)` is what the driver executes. -/

/-- the words (and monitors) of an object, without the shared statistic and clock -/
def Obj.words (o : Obj) : St × Nat × Nat × List Note × List Note :=
  (o.conf.sh.st, o.conf.sh.deadline, o.conf.sh.probe, o.conf.sh.hist, o.conf.sh.log)

/-- A step of a call bound to object `k` leaves the state word, deadline, probe counter, history and listener log of
    every other object alone (they only share the statistic and the clock): in particular a completion that is still
    under way on a retired object cannot open, close or re-arm a live one. -/
theorem world_step_frame (w : World) (k j k' : Nat) (hne : k' ≠ k) :
    ((w.step k j).objs[k']?).map Obj.words = (w.objs[k']?).map Obj.words := by
  unfold World.step
  cases hk : w.objs[k]? with
  | none => rfl
  | some o =>
    unfold World.sync
    have hset : (w.objs.set k { o with conf := o.conf.sched o.cfg j })[k']? = w.objs[k']? := by
      simp [List.getElem?_set, Ne.symm hne]
    cases hk2 : (w.objs.set k { o with conf := o.conf.sched o.cfg j })[k]? with
    | none => simp only [hk2, hset]
    | some o2 =>
      simp only [hk2, List.getElem?_map, hset]
      cases w.objs[k']? with
      | none => rfl
      | some p =>
        simp only [Option.map_some]
        split_ifs <;> rfl

/-- the published list changes only when a rule load completes: a step of a breaker call never changes it … -/
theorem world_step_keeps_list (w : World) (k j : Nat) : (w.step k j).cur = w.cur := by
  unfold World.step
  cases w.objs[k]? with
  | none => rfl
  | some o =>
    unfold World.sync
    dsimp only
    split <;> rfl

/-- … and neither does the start of a call, nor a tick -/
theorem world_bind_keeps_list (w : World) (k : Nat) (c : Call) : (w.bindOn k c).1.cur = w.cur := by
  unfold World.bindOn
  cases w.objs[k]? with
  | none => rfl
  | some o =>
    unfold World.sync
    dsimp only
    split <;> rfl

/-- a rule load keeps every existing object as it is (an equal rule reuses its breaker with its state: an Open breaker
    that is reused stays Open, with its deadline): objects are only appended -/
theorem rebuild_keeps_objects (clock : Nat) (rules : List RuleE) :
    ∀ (old : List Nat) (objs : List Obj) (new : List Nat), objs <+: (rebuildAux clock rules old objs new).1 := by
  induction rules with
  | nil => intro old objs new; simp [rebuildAux]
  | cons r rs ih =>
    intro old objs new
    unfold rebuildAux
    split
    · exact ih _ _ _
    · split
      · exact (List.prefix_append _ _).trans (ih _ _ _)
      · exact (List.prefix_append _ _).trans (ih _ _ _)

/-- Every object of every world reached from a world of breakers — any harness threads, any programs of checks,
    completions and rule loads, any schedule — is a reachable single-breaker configuration: `transition_once`,
    `log_is_path`, `probe_admissions_eq_transitions`, `no_early_admission_partial`, … hold for every breaker of the
    published list and for each retired one. -/
theorem reload_objects_are_breakers (w : World) (h : WOK w) (progs : List (List WCall)) (es : List Ent) :
    WOK (wrun ⟨(wstart w progs).1, (wstart w progs).2⟩ es).w :=
  wok_wrun es _ (wok_wstart progs w h)

/-- the first rule load of a case -/
theorem first_load_is_breaker (rules : List RuleE) : WOK (({} : World).rebuild rules) :=
  wok_rebuild _ rules wok_empty

/-- …for instance: on no object, live or retired, is a probe admitted early outside the two classified windows, and
    each object's transition history is a legal path from Closed -/
theorem reload_no_early_admission_outside_windows (w : World) (h : WOK w) (o : Obj) (ho : o ∈ w.objs) :
    o.conf.sh.earlyOut = false ∧ walk .closed o.conf.sh.hist = some o.conf.sh.st :=
  ⟨no_early_admission_outside_windows o.cfg (h o ho), log_is_path o.cfg (h o ho)⟩

/-! ## non-vacuity -/

/-- the hypotheses of `single_probe` are satisfiable on a reachable configuration: after a probe was admitted the
    word is HalfOpen, and two more TryPass calls running under the schedule `1 2 1 2` keep it there -/
example : staysHalfOpen cfg10
    (run cfg10 (init cfg10 [[.complete 1 true, .tryPass false], [.tryPass false], [.tryPass false]])
      (sch [0, 0, 0, 0] ++ [.tick 10] ++ sch [0, 0, 0])) (sch [1, 2]) := by
  simp only [staysHalfOpen, sch, List.map]
  decide

/-- the hypotheses of `no_early_admission_partial` are satisfiable: a TryPass parked before its CAS with a fresh
    check of the current opening -/
example : ((run cfg10 (init cfg10 [[.complete 1 true], [.tryPass false]])
      (sch [0, 0, 0, 0] ++ [.tick 10] ++ sch [1, 1])).th[1]?).map (·.pc) = some (.tpCas false 1 true) := by
  decide

end Sentinel.C12
