import Mathlib.Tactic
import Sentinel.Lemmas.PipelineCb
import Sentinel.Lemmas.PipelineCouple
import Sentinel.Lemmas.PipelineFlowHist
import Sentinel.Lemmas.PipelineHotHist
import Sentinel.Lemmas.PipelineSysHist
import Sentinel.Lemmas.PipelineIdle
import Sentinel.Props.C02
import Sentinel.Props.C06
import Sentinel.Props.C01
import Sentinel.Props.C04
import Sentinel.Props.C07
/-!
# INT — the integrated default global slot chain (internal check; extra phase of C16 and C01)

All statements are about `Sentinel.Pipe` (`Model/Pipeline.lean`), the model the `INT` driver executes against
`api.Entry` on the real global chain with every rule manager loaded.  That model is the **product of the module models**
(`System`, `FlowReject`, `Iso`, `HotConc`, `CB`, `Entry`) composed along the built-in chain; nothing is re-modelled.

Reading guide.  `verdict A s q k` = the verdict of slot `k` for request `q`: module `k`'s own check function on module
`k`'s own component of the state **before** the entry.  `firstBlock v order` = first block in a slot order.
`entry A s q` = `api.Entry` on the global chain (prepare slot, rule-check loop over the slice sorted by `Order()`,
statistic slots).  `R` = carrier of the `float64` values of the system slot (any type with a decidable `<`).

1. `builtin_order`, `decision_is_first_block`
2. projections — history form: `iso_projection`, `flow_projection_hist`, `hot_projection_hist`, `sys_projection_hist`;
   step form: `cb_projection`, `hot_projection`, `flow_projection_immediate`, `sys_verdict_is_spec`;
   transfers: `iso_cap_integrated` (C04), `open_rejects_until_integrated` (C03), `flow_window_counts_only_fully_passed`,
   `admit_iff_integrated`, `window_cap_integrated` (C02), `cell_eq_live_integrated` (C06), `sys_blocked_iff_integrated` (C07)
3. `ent_is_entry_run`, `pass_plus_block_integrated`, `gauge_is_live_integrated`, `window_is_ledger_integrated` (C01);
   shared state: `iso_gauge_coupled`, `flow_nodes_coupled`, `reqs_are_live_contexts`
-/
set_option linter.unusedSectionVars false

namespace Sentinel.INT
open Sentinel.Pipe

variable {R : Type} [LT R] [∀ a b : R, Decidable (a < b)]

/-! ## 1. the decision is the first block in the built-in order -/

/-- the rule-check slice of the global chain as `AddRuleCheckSlot` sorts the five built-in slots by their `Order()`
    constants (1000 … 5000, `Chain.defaultRuleIns`, tied to the code by the `order` op and by C16's `globalorder`) -/
theorem builtin_order : ruleSlots = [.sys, .flow, .iso, .hot, .cb] := ruleSlots_eq

theorem before_of_takeWhile (k j : Slot) (h : j.pos < k.pos) :
    j ∈ ([Slot.sys, .flow, .iso, .hot, .cb] : List Slot).takeWhile (· ≠ k) := by
  cases k <;> cases j <;> simp [Slot.pos] at h ⊢

/-- **decision_is_first_block.**  For every state and every request:

* the decision of `api.Entry` on the global chain is `block` by the first slot, in the order system < flow < isolation <
  hotspot < circuit breaker, whose **own module verdict on the pre-state** is a block — later slots' verdicts do not matter,
  earlier slots' checks cannot influence it (non-interference) — else `pass`;
* the states of the slots **after** the blocking one are unchanged (they are not consulted): a flow block leaves the isolation
  gauge, the hotspot cells and the breakers untouched, …;
* the states of the slots **up to** the blocking one change only as their own model says for a check: system, flow
  (Direct/Reject: no throttling wait, excluded from the domain) and isolation not at all, hotspot by the `AddIfAbsent` touches of
  `HotConc.checkTcs`, the breakers by `CB.doEntry` (`TryPass` of each breaker, then the exit-hook rollback of the probes this
  very entry started when **another** breaker of the resource blocks);
* nothing is admitted: `reqs` unchanged, the flow controllers' standalone counters unchanged. -/
theorem decision_is_first_block (A : System.Arith R) (s : St R) (q : Req) :
    (entry A s q).2 = firstBlock (verdict A s q) [.sys, .flow, .iso, .hot, .cb] ∧
    (∀ b, (entry A s q).2 = some b →
        verdict A s q b.slot = some b ∧ (∀ k : Slot, k.pos < b.slot.pos → verdict A s q k = none)) ∧
    ((entry A s q).2 = none → ∀ k, verdict A s q k = none) ∧
    (∀ b, (entry A s q).2 = some b →
        (b.slot.pos < Slot.hot.pos → (entry A s q).1.hot = s.hot) ∧
        (b.slot.pos < Slot.cb.pos → (entry A s q).1.cb = s.cb ∧ (entry A s q).1.evs = s.evs) ∧
        (entry A s q).1.sysRules = s.sysRules ∧ (entry A s q).1.load = s.load ∧ (entry A s q).1.cpu = s.cpu ∧
        (entry A s q).1.flow.ctrls = s.flow.ctrls ∧ (entry A s q).1.iso = s.iso ∧
        (Slot.hot.pos ≤ b.slot.pos → (entry A s q).1.hot = hotChecked s q) ∧
        (b.slot = .cb → (entry A s q).1.cb = (CB.doEntry s.cb q.id (rname q.res)).1) ∧
        (entry A s q).1.reqs = s.reqs) := by
  refine ⟨entry_decision A s q, ?_, ?_, ?_⟩
  · intro b hb
    rw [entry_snd] at hb
    refine ⟨decision_some A s q b hb, ?_⟩
    obtain ⟨k, _, hv, hbefore⟩ := firstBlock_some _ _ _ hb
    have hk := verdict_slot A s q k b hv
    intro j hj
    exact hbefore j (before_of_takeWhile k j (hk ▸ hj))
  · intro hn k
    rw [entry_snd] at hn
    exact decision_none A s q hn k
  · intro b hb
    rw [entry_snd] at hb
    have hne : decision A s q ≠ none := by rw [hb]; simp
    obtain ⟨e1, e2, e3, _⟩ := entry_static A s q
    refine ⟨?_, ?_, e1, e2, e3, ?_, ?_, ?_, ?_, ?_⟩
    · intro h
      rw [entry_hot, if_neg hne, hb]
      cases hs : b.slot <;> simp [reached, hs, Slot.pos] at h ⊢
    · intro h
      rw [entry_cb, entry_evs, hb]
      cases hs : b.slot <;> simp [reached, hs, Slot.pos] at h ⊢
    · rw [entry_flow, hb]
      simp [flowStat]
    · rw [entry_iso, if_neg hne]
    · intro h
      rw [entry_hot, if_neg hne, hb]
      cases hs : b.slot <;> simp [reached, hs, Slot.pos] at h ⊢
    · intro h
      rw [entry_cb, hb]
      simp [reached, h, Slot.pos]
    · rw [entry_reqs, if_neg hne]

/-- a passed entry: every slot's state after it is the module's own "admitted" step — the isolation gauge +1 and a handle
    (`Iso.step (.entry …)`, see `isoAdmit_is_model_step`), the cells touched by the check then +1 (`HotConc.entry`, see
    `hot_projection`), the breakers after `CB.doEntry`, the flow controllers' standalone windows + batch -/
theorem passed_entry_effect (A : System.Arith R) (s : St R) (q : Req) (h : (entry A s q).2 = none) :
    (entry A s q).1.iso = isoAdmit s.iso q.id (rname q.res) ∧
    (entry A s q).1.hot = hotAdmit (hotChecked s q) (toString q.id) (rname q.res) q.args q.atts ∧
    (entry A s q).1.cb = (CB.doEntry s.cb q.id (rname q.res)).1 ∧
    (entry A s q).1.flow =
      flowStat { s.flow with nodes := FlowReject.ensure s.flow.nodes q.res s.now } q.res s.now q.batch false ∧
    (entry A s q).1.reqs = q :: s.reqs := by
  rw [entry_snd] at h
  refine ⟨by rw [entry_iso, if_pos h], by rw [entry_hot, if_pos h], ?_, by rw [entry_flow, h]; rfl, by rw [entry_reqs, if_pos h]⟩
  rw [entry_cb, h]
  rfl

/-- `isoAdmit` **is** the isolation model's step for an admitted entry -/
theorem isoAdmit_is_model_step (s : Iso.St) (id : Nat) (res : String) (b : UInt32)
    (hl : Iso.isLive s.live id = false) (hc : Iso.checkPass (Iso.rulesOf s.rules res) (s.gauge res) b = none) :
    Iso.step s (.entry id res b) = (isoAdmit s id res, .pass) := isoAdmit_eq_step s id res b hl hc

/-! ## 2. projection of an integrated history onto each module

The component of module `m` in the integrated state evolves by **module `m`'s own model**, fed with the entries that reach
slot `m` together with their final outcome.  Hence every theorem about module `m`'s model holds for the integrated chain. -/

/-- **isolation** (history form): the isolation component after any integrated history is the isolation model's own state
    after the projected history `isoHist` (loads; the entries that reach the isolation slot and are blocked by it or finally
    admitted; all exits), and the isolation model answers them as the pipeline did (`pass` / `block idx tv`). -/
theorem iso_projection (A : System.Arith R) (s : St R) (os : List (Pipe.Op R)) (hf : IsoFresh s) :
    Iso.run s.iso (isoHist A s os) = ((run A s os).1.iso, isoHistOuts A s os) := run_iso A s os hf

theorem isoOps_seq (o : Pipe.Op R) (out : Out) (hno : ∀ rs, o ≠ Pipe.Op.loadIso rs) : ∀ x ∈ isoOps o out, Iso.seqOp x = true := by
  intro x hx
  cases o <;> cases out <;> simp only [isoOps, List.mem_cons, List.mem_nil_iff, or_false] at hx
  all_goals first
    | (subst hx; rfl)
    | (exact absurd rfl (hno _))
    | (rename_i d; cases d with
        | none => simp only [List.mem_cons, List.mem_nil_iff, or_false] at hx; subst hx; rfl
        | some b => cases b <;> simp only [List.mem_cons, List.mem_nil_iff, or_false] at hx <;> first | (subst hx; rfl) | cases hx)
    | cases hx

theorem isoOps_size (o : Pipe.Op R) (out : Out) : Iso.histSize (isoOps o out) ≤ 1 := by
  cases o <;> cases out <;> simp [isoOps, Iso.histSize, Iso.opSize]
  rename_i q d
  cases d with
  | none => simp [Iso.opSize]
  | some b => cases b <;> simp [Iso.opSize]

theorem isoHist_seq (A : System.Arith R) (s : St R) (os : List (Pipe.Op R)) (hno : ∀ rs, Pipe.Op.loadIso rs ∉ os) :
    ∀ x ∈ isoHist A s os, Iso.seqOp x = true := by
  induction os generalizing s with
  | nil => intro x hx; cases hx
  | cons o os ih =>
    intro x hx
    simp only [isoHist, List.mem_append] at hx
    rcases hx with hx | hx
    · exact isoOps_seq o _ (fun rs e => hno rs (e ▸ List.mem_cons_self ..)) x hx
    · exact ih _ (fun rs hm => hno rs (List.mem_cons_of_mem _ hm)) x hx

theorem isoHist_size (A : System.Arith R) (s : St R) (os : List (Pipe.Op R)) : Iso.histSize (isoHist A s os) ≤ os.length := by
  induction os generalizing s with
  | nil => simp [isoHist, Iso.histSize]
  | cons o os ih =>
    simp only [isoHist, Iso.histSize_append, List.length_cons]
    have := isoOps_size o (step A s o).2
    have := ih (step A s o).1
    omega

/-- **isolation cap on the integrated chain** (C04 `cap_any_batch` transferred): with the isolation rules `rs` in force and not
    reloaded, after **any** integrated history — any other rules of any kind on the same resources, any interleaving of
    entries, blocks by any slot, exits with or without errors, clock steps — the isolation gauge of every resource is at most
    `N + 1` for every rule `N` of the resource (`N` when no batch is 0: `iso_cap_integrated_pos`).  Every prefix of a history
    is a history, so this is the cap at every moment. -/
theorem iso_cap_integrated (A : System.Arith R) (s0 : St R) (rs : List (String × UInt32)) (os : List (Pipe.Op R))
    (h0 : s0.iso = { rules := Iso.loadRules rs }) (hno : ∀ rs', Pipe.Op.loadIso rs' ∉ os) (hlen : os.length < 2147483648) :
    ∀ res, ∀ r ∈ Iso.rulesOf (Iso.loadRules rs) res, (run A s0 os).1.iso.gauge res ≤ (r.thr.toNat + 1 : Nat) := by
  intro res r hr
  have hf : IsoFresh s0 := by intro p hp; rw [h0] at hp; cases hp
  have hp := iso_projection A s0 os hf
  rw [h0] at hp
  have hb : Iso.histSize (isoHist A s0 os) < 2147483648 := lt_of_le_of_lt (isoHist_size A s0 os) hlen
  have := Sentinel.C04.cap_any_batch rs (isoHist A s0 os) (isoHist_seq A s0 os hno) hb _ (List.prefix_refl _) res r hr
  rw [hp] at this
  exact this

theorem isoOps_entry (o : Pipe.Op R) (out : Out) (id : Nat) (res : String) (b : UInt32) (h : Iso.Op.entry id res b ∈ isoOps o out) :
    ∃ q, o = Pipe.Op.entry q ∧ b = UInt32.ofNat q.batch := by
  cases o <;> cases out <;> simp only [isoOps, List.mem_cons, List.mem_nil_iff, or_false] at h
  all_goals first
    | cases h
    | (rename_i q d; cases d with
        | none =>
          simp only [List.mem_cons, List.mem_nil_iff, or_false, Iso.Op.entry.injEq] at h
          exact ⟨q, rfl, h.2.2⟩
        | some b' =>
          cases b' <;> simp only [List.mem_cons, List.mem_nil_iff, or_false, Iso.Op.entry.injEq] at h <;>
            first | exact ⟨q, rfl, h.2.2⟩ | cases h)

theorem isoHist_entry (A : System.Arith R) (s : St R) (os : List (Pipe.Op R)) (id : Nat) (res : String) (b : UInt32)
    (h : Iso.Op.entry id res b ∈ isoHist A s os) : ∃ q, Pipe.Op.entry q ∈ os ∧ b = UInt32.ofNat q.batch := by
  induction os generalizing s with
  | nil => cases h
  | cons o os ih =>
    simp only [isoHist, List.mem_append] at h
    rcases h with h | h
    · obtain ⟨q, hq, hb⟩ := isoOps_entry o _ id res b h
      exact ⟨q, hq ▸ List.mem_cons_self .., hb⟩
    · obtain ⟨q, hq, hb⟩ := ih _ h
      exact ⟨q, List.mem_cons_of_mem _ hq, hb⟩

/-- … and with batch counts in `1 … 2³²−1` the gauge never exceeds the threshold itself (C04 `cap_batch_pos` transferred) -/
theorem iso_cap_integrated_pos (A : System.Arith R) (s0 : St R) (rs : List (String × UInt32)) (os : List (Pipe.Op R))
    (h0 : s0.iso = { rules := Iso.loadRules rs }) (hno : ∀ rs', Pipe.Op.loadIso rs' ∉ os) (hlen : os.length < 2147483648)
    (hbatch : ∀ q, Pipe.Op.entry q ∈ os → 1 ≤ q.batch ∧ q.batch < 4294967296) :
    ∀ res, ∀ r ∈ Iso.rulesOf (Iso.loadRules rs) res, (run A s0 os).1.iso.gauge res ≤ (r.thr.toNat : Nat) := by
  intro res r hr
  have hf : IsoFresh s0 := by intro p hp; rw [h0] at hp; cases hp
  have hp := iso_projection A s0 os hf
  rw [h0] at hp
  have hb : Iso.histSize (isoHist A s0 os) < 2147483648 := lt_of_le_of_lt (isoHist_size A s0 os) hlen
  have hz : ∀ id res b, Iso.Op.entry id res b ∈ isoHist A s0 os → 1 ≤ b.toNat := by
    intro id res b hm
    obtain ⟨q, hq, rfl⟩ := isoHist_entry A s0 os id res b hm
    obtain ⟨h1, h2⟩ := hbatch q hq
    rw [UInt32.toNat_ofNat_of_lt' (by simpa using h2)]
    exact h1
  have := Sentinel.C04.cap_batch_pos rs (isoHist A s0 os) (isoHist_seq A s0 os hno) hz hb _ (List.prefix_refl _) res r hr
  rw [hp] at this
  exact this

/-- **circuit breaker** (step form): unless breakers are being loaded, every integrated op moves the breaker component by
    zero or one move **of the breaker model** (`cbMove` / `cbApply`: clock steps, `CB.doEntry` for the entries that reach the
    breaker slot, `CB.doExit` for all exits with the error the entry's context carries — each of them a `CB.step`,
    `cb_move_is_model_step`), and the listener log grows by that move's callbacks. -/
theorem cb_projection (A : System.Arith R) (s : St R) (o : Pipe.Op R) (hl : ∀ rs, o = .loadCb rs → s.cbLoaded = true) :
    (step A s o).1.cb = (match cbMove A s o with | some m => (cbApply s.cb m).1 | none => s.cb) ∧
    (o ≠ .log → (step A s o).1.evs =
      s.evs ++ (match cbMove A s o with | some m => (cbApply s.cb m).2.evs | none => [])) :=
  step_cb A s o hl

/-- a move is a step of the breaker model's own op language (whatever batch count the op carries: C03 `batch_irrelevant`) -/
theorem cb_move_is_model_step (c : CB.Sys (Sentinel.LA.Arr CB.Cnt)) (m : CbMove) :
    cbApply c m = CB.step CB.laOps c m.toOp := cbApply_eq_step c m

/-- **open_rejects_until on the integrated chain** (C03 `open_rejects_until_history` transferred).  Once a breaker `k` of
    resource `res` is open with deadline `D`, then along **any** integrated continuation whose clock readings stay below `D`
    — requests to this or other resources blocked by any slot, completions of stragglers with or without errors, probes
    and rollbacks of other breakers, loads of other rule kinds — no request to `res` is admitted, and the breaker is still
    open with the same deadline at the end. -/
theorem open_rejects_until_integrated (A : System.Arith R) (s : St R) (os : List (Pipe.Op R)) (k res D : Nat)
    (hl : s.cbLoaded = true) (h : Sentinel.C03.OpenUntil k (rname res) D s.cb.brs) (hnow : s.cb.now < D)
    (hclk : ∀ t, Pipe.Op.clock t ∈ os → t < D) :
    Sentinel.C03.OpenUntil k (rname res) D (run A s os).1.cb.brs ∧
      List.Forall₂ (fun o out => ∀ q, o = Pipe.Op.entry q → q.res = res → out ≠ Out.dec none) os (run A s os).2 := by
  induction os generalizing s with
  | nil => exact ⟨h, List.Forall₂.nil⟩
  | cons o os ih =>
    obtain ⟨h1, h2, h3, h4⟩ := step_keeps_open_integrated A s o k res D hl h hnow
      (fun t ht => hclk t (ht ▸ List.mem_cons_self ..))
    obtain ⟨i1, i2⟩ := ih (step A s o).1 h3 h1 h2 (fun t ht => hclk t (List.mem_cons_of_mem _ ht))
    simp only [run]
    exact ⟨i1, List.Forall₂.cons h4 i2⟩

/-- **hotspot** (step form; `fb = []`: the auxiliary "flow-blocked resources" list of the C06 harness is not used here).
    An entry that reaches the hotspot slot and is finally admitted, or blocked by the hotspot slot, is `HotConc.entry` on the
    hotspot component (same answer); one that passes the hotspot check and is blocked by a breaker is the *check half*
    of `HotConc.check` (cells touched, nothing counted: an entry that never commits); an entry blocked earlier does not touch
    it; `Exit` is `HotConc.exit`. -/
theorem hot_projection (A : System.Arith R) (s : St R) (q : Req) (hf : s.hot.fb = []) :
    ((entry A s q).2 = none →
        HotConc.entry s.hot (toString q.id) (rname q.res) q.args q.atts = ((entry A s q).1.hot, HotConc.Res.pass)) ∧
    ((entry A s q).2 = some Blk.hot →
        HotConc.entry s.hot (toString q.id) (rname q.res) q.args q.atts = ((entry A s q).1.hot, HotConc.Res.blockHot)) ∧
    (∀ k, (entry A s q).2 = some (Blk.cb k) →
        (entry A s q).1.hot.tcs = (HotConc.check s.hot (toString q.id) (rname q.res) q.args q.atts).tcs ∧
        (entry A s q).1.hot.live = s.hot.live) ∧
    (∀ b, (entry A s q).2 = some b → b.slot.pos < Slot.hot.pos → (entry A s q).1.hot = s.hot) ∧
    (∀ id err, (exit s id err).hot = HotConc.exit s.hot (toString id)) := by
  refine ⟨?_, ?_, ?_, ?_, fun _ _ => rfl⟩
  · intro h
    rw [entry_snd] at h
    have hv := decision_none A s q h .hot
    simp only [verdict] at hv
    have hv' : (HotConc.checkTcs (rname q.res) q.args q.atts s.hot.tcs).2 = false := by
      cases hc : (HotConc.checkTcs (rname q.res) q.args q.atts s.hot.tcs).2
      · rfl
      · simp [hc] at hv
    rw [hot_entry_eq _ _ _ _ _ hf, hv', entry_hot, if_pos h]
    rfl
  · intro h
    rw [entry_snd] at h
    have hv := decision_some A s q _ h
    simp only [Blk.slot, verdict] at hv
    have hv' : (HotConc.checkTcs (rname q.res) q.args q.atts s.hot.tcs).2 = true := by
      cases hc : (HotConc.checkTcs (rname q.res) q.args q.atts s.hot.tcs).2
      · simp [hc] at hv
      · rfl
    have hne : decision A s q ≠ none := by rw [h]; simp
    rw [hot_entry_eq _ _ _ _ _ hf, hv', entry_hot, if_neg hne, h]
    simp [reached, Blk.slot, Slot.pos, hotChecked]
  · intro k h
    rw [entry_snd] at h
    have hne : decision A s q ≠ none := by rw [h]; simp
    rw [entry_hot, if_neg hne, h]
    simp only [reached, Blk.slot, Slot.pos, Nat.reduceLeDiff, decide_true, if_true]
    exact ⟨(hot_check_eq _ _ _ _ _ hf).1.symm, rfl⟩
  · intro b h hlt
    exact ((decision_is_first_block A s q).2.2.2 b h).1 hlt

theorem touches_append (ns : FlowReject.Nodes) (r now : Nat) (a b : List Nat) :
    FlowReject.touches (FlowReject.touches ns r now a) r now b = FlowReject.touches ns r now (a ++ b) := by
  induction a generalizing ns with
  | nil => rfl
  | cons x xs ih => simp only [FlowReject.touches, List.cons_append, ih]

/-- **flow** (step form): the flow slot's verdict is `FlowReject.checkPhase`'s on the flow component, and the statistic
    phase of an entry followed by its `Exit` at the same instant is `FlowReject.statPhase` — i.e. the integrated chain does
    `FlowReject.entry` on the flow component for every call pattern of C02's op language, and splits it into its entry half
    (`flowStat`) and exit half (`flowExit`) when the entry is held open. -/
theorem flow_projection_immediate (f : FlowReject.St) (res now b : Nat) :
    FlowReject.entry f res now b =
      ((match (FlowReject.checkPhase f res now b).2 with
        | none => flowExit (flowStat (FlowReject.checkPhase f res now b).1 res now b false) res now false
        | some _ => flowStat (FlowReject.checkPhase f res now b).1 res now b true),
       (FlowReject.checkPhase f res now b).2) := by
  simp only [FlowReject.entry]
  cases h : (FlowReject.checkPhase f res now b).2 with
  | none =>
    simp only [FlowReject.statPhase, flowExit, flowStat, Bool.false_eq_true, if_false, List.nil_append, touches_append]
    rfl
  | some i => simp [FlowReject.statPhase, flowStat]

theorem flow_verdict_is_checkPhase (A : System.Arith R) (s : St R) (q : Req) :
    verdict A s q .flow = (FlowReject.checkPhase s.flow q.res s.now q.batch).2.map Blk.flow := rfl

end Sentinel.INT

namespace Sentinel.INT
open Sentinel.Pipe

/-- **system**: the system slot's verdict on the integrated chain is C07's property predicate (`specBlocked`: inbound and some
    loaded rule violated) evaluated on the aggregates of the **shared** inbound node — the node whose content theorem
    `window_is_ledger_integrated` below pins down (C07 `check_eq_specBlocked` transferred; `R` a linear order, i.e. no NaN). -/
theorem sys_verdict_is_spec {R : Type} [LinearOrder R] (A : System.Arith R) (s : St R) (q : Req) :
    (verdict A s q .sys).isSome = System.specBlocked A q.inbound s.sysRules (sysView s) := by
  simp only [verdict, Option.isSome_map]
  exact Sentinel.C07.check_eq_specBlocked A s.sysRules (sysView s) q.inbound

end Sentinel.INT

/-! ## 3. accounting across modules

The statistic component `ent` of the integrated state is **literally** C01's model (`Entry.step false`) run on the ledger
history `eh` — one `entry` op per `api.Entry` call carrying the chain's verdict as C01's behaviour table
`[node] / [pass|block] / stat.Slot`, one `trace` / `exit` op per call, and a statistic-free node-creating entry per valid
flow rule at `load flow` — so C01's ledger theorems hold verbatim for the integrated chain, whatever slot decided. -/

namespace Sentinel.INT
open Sentinel.Pipe

variable {R : Type} [LT R] [∀ a b : R, Decidable (a < b)]

/-- a fresh case: nothing loaded, clock not started -/
def fresh (l0 c0 : R) : St R := { load := l0, cpu := c0 }

theorem panicFree_of_std (h : List Entry.TOp) (k : Entry.Key) (hs : StdHist h) : Entry.panicFree h k = true := by
  induction h with
  | nil => rfl
  | cons x r ih =>
    have hr : StdHist r := fun y hy e he => hs y (List.mem_cons_of_mem _ hy) e he
    obtain ⟨t, op⟩ := x
    cases op with
    | entry e =>
      have := hs (t, .entry e) (List.mem_cons_self ..) e rfl
      simp [Entry.panicFree, ih hr, this]
    | trace id err => simp [Entry.panicFree, ih hr]
    | exit id err => simp [Entry.panicFree, ih hr]

/-- **the statistic component is C01's model on the ledger history**, which is time-monotone, starts after time 0 and
    contains no recovered panic (so C01's `panicFree` side condition holds on every node) -/
theorem ent_is_entry_run (A : System.Arith R) (l0 c0 : R) (os : List (Pipe.Op R))
    (hs : (run A (fresh l0 c0) os).1.started = true) :
    (run A (fresh l0 c0) os).1.ent
        = Entry.run false (run A (fresh l0 c0) os).1.t0 (run A (fresh l0 c0) os).1.eh.reverse ∧
    Sentinel.C01.Mono (run A (fresh l0 c0) os).1.t0 (run A (fresh l0 c0) os).1.eh.reverse ∧
    0 < (run A (fresh l0 c0) os).1.t0 ∧
    Entry.lastT (run A (fresh l0 c0) os).1.t0 (run A (fresh l0 c0) os).1.eh ≤ (run A (fresh l0 c0) os).1.now ∧
    (∀ k, Entry.panicFree (run A (fresh l0 c0) os).1.eh k = true) := by
  have hinv : Inv (fresh l0 c0) := by intro h; simp [fresh] at h
  have hl := inv_run A _ os hinv hs
  refine ⟨?_, ?_, hl.pos, hl.last, fun k => panicFree_of_std _ k hl.std⟩
  · rw [hl.ent]; simp [Entry.run]
  · simp only [Sentinel.C01.Mono, List.reverse_reverse]; exact hl.mono

/-- **pass + block = requested** on the integrated chain: at any read time not before the last op, in every window up to
    10 s, on every resource node and on the inbound total, the passed plus the blocked tokens are the tokens requested by the
    `api.Entry` calls accounted there — whichever of the five slots blocked (C01 `pass_plus_block_eq_requested` transferred) -/
theorem pass_plus_block_integrated (A : System.Arith R) (l0 c0 : R) (os : List (Pipe.Op R))
    (hs : (run A (fresh l0 c0) os).1.started = true) (k : Entry.Key) (Iv now : Nat)
    (hnow : (run A (fresh l0 c0) os).1.now ≤ now) (hIv : Iv ≤ 10000) (b : Sentinel.LA.Bucket)
    (hb : Entry.obsWindow (run A (fresh l0 c0) os).1.ent k Iv now = some b) :
    b.pass + b.block = Entry.requested (Sentinel.C01.inWindow Iv now) (run A (fresh l0 c0) os).1.eh k := by
  obtain ⟨e1, e2, e3, e4, e5⟩ := ent_is_entry_run A l0 c0 os hs
  rw [e1] at hb
  have := Sentinel.C01.pass_plus_block_eq_requested false _ _ e3 e2 k (Or.inr (by simpa using e5 k)) Iv now
    (by simpa using le_trans e4 hnow) hIv b hb
  simpa using this

/-- **gauge = number of live passed entries**, never negative, on every node of the integrated chain
    (C01 `gauge_is_live_count` transferred) -/
theorem gauge_is_live_integrated (A : System.Arith R) (l0 c0 : R) (os : List (Pipe.Op R))
    (hs : (run A (fresh l0 c0) os).1.started = true) (k : Entry.Key) (g : Int)
    (hg : Entry.obsConc (run A (fresh l0 c0) os).1.ent k = some g) :
    g = (Entry.live (run A (fresh l0 c0) os).1.eh k : Int) ∧ 0 ≤ g := by
  obtain ⟨e1, e2, e3, _, e5⟩ := ent_is_entry_run A l0 c0 os hs
  rw [e1] at hg
  have := Sentinel.C01.gauge_is_live_count false _ _ e3 e2 k (Or.inr (by simpa using e5 k)) g hg
  simpa using this

/-- **every window of every node is the ledger's** (C01 `window_refines_ledger` transferred): what the `stat` op reads —
    and what the system slot and the reused-view flow rules read — is the aligned-window sum over the ledger events -/
theorem window_is_ledger_integrated (A : System.Arith R) (l0 c0 : R) (os : List (Pipe.Op R))
    (hs : (run A (fresh l0 c0) os).1.started = true) (k : Entry.Key) (Iv now : Nat)
    (hnow : (run A (fresh l0 c0) os).1.now ≤ now) (hIv : Iv ≤ 10000) :
    Entry.obsWindow (run A (fresh l0 c0) os).1.ent k Iv now = Entry.ledWindow false (run A (fresh l0 c0) os).1.eh k Iv now := by
  obtain ⟨e1, e2, e3, e4, _⟩ := ent_is_entry_run A l0 c0 os hs
  rw [e1]
  have := Sentinel.C01.window_refines_ledger false _ _ e3 e2 k Iv now (by simpa using le_trans e4 hnow) hIv
  simpa using this

end Sentinel.INT

/-! ## 3b. the shared state: the isolation slot reads the resource node's gauge

In the code the isolation slot reads `CurrentConcurrency()` of the resource node that `stat.Slot` maintains; in the product
model the isolation component carries its own `gauge` (moved by the isolation model's steps only).  They never differ. -/

namespace Sentinel.INT
open Sentinel.Pipe

variable {R : Type} [LT R] [∀ a b : R, Decidable (a < b)]

theorem couple_fresh (l0 c0 : R) : Couple (fresh l0 c0) :=
  ⟨fun _ => rfl,
   fun id r => ⟨fun h => by simp [fresh, Iso.resOfId] at h, fun ⟨i, hi, _⟩ => by simp [fresh, Entry.info] at hi⟩,
   fun _ _ => rfl, fun id i hi => by simp [fresh, Entry.info] at hi, fun _ => rfl⟩

/-- **iso_gauge_coupled**: after every integrated history the isolation component's gauge of a resource is the
    `CurrentConcurrency()` of the resource's node (0 while the node does not exist), which by `gauge_is_live_integrated` is the
    number of live admitted entries of the resource — whichever slots blocked whatever in between. -/
theorem iso_gauge_coupled (A : System.Arith R) (l0 c0 : R) (os : List (Pipe.Op R))
    (hs : (run A (fresh l0 c0) os).1.started = true) (res : String) :
    (run A (fresh l0 c0) os).1.iso.gauge res = ((Entry.obsConc (run A (fresh l0 c0) os).1.ent (some res)).getD 0) := by
  have hc := couple_run A _ os (couple_fresh l0 c0)
  obtain ⟨e1, e2, e3, _, _⟩ := ent_is_entry_run A l0 c0 os hs
  rw [e1, Sentinel.C01.conc_refines_ledger false _ _ e3 e2 (some res), hc.gauge res]
  simp only [Entry.ledConc, List.reverse_reverse]
  split_ifs with hp
  · rfl
  · have hn : Entry.nodeExists (run A (fresh l0 c0) os).1.eh res = false := by simpa using hp
    simp [(Entry.noNode_empty false _ res hn).2]

/-- hence the isolation verdict of the integrated chain is `isolation.checkPass` on the node's own gauge -/
theorem iso_verdict_reads_node (A : System.Arith R) (l0 c0 : R) (os : List (Pipe.Op R))
    (hs : (run A (fresh l0 c0) os).1.started = true) (q : Req) :
    verdict A (run A (fresh l0 c0) os).1 q .iso =
      (Iso.checkPass (Iso.rulesOf (run A (fresh l0 c0) os).1.iso.rules (rname q.res))
        ((Entry.obsConc (run A (fresh l0 c0) os).1.ent (some (rname q.res))).getD 0) (UInt32.ofNat q.batch)).map
        fun p => Blk.iso p.1.idx p.2 := by
  simp only [verdict]
  rw [iso_gauge_coupled A l0 c0 os hs]

end Sentinel.INT

/-! ## 3c. the flow component's copy of the resource nodes -/

namespace Sentinel.INT
open Sentinel.Pipe

variable {R : Type} [LT R] [∀ a b : R, Decidable (a < b)]

theorem sync_fresh (l0 c0 : R) : Sync (fresh l0 c0) :=
  ⟨⟨fun q hq => by simp [fresh] at hq, fun id _ c hc => by simp [fresh, Entry.init, Entry.findE] at hc, fun _ _ => rfl,
    fun _ _ => rfl, fun q hq => by simp [fresh] at hq, fun _ => rfl⟩,
   fun k => rfl, fun _ => rfl⟩

/-- **flow_nodes_coupled**: after every integrated history the flow component's private node map — the pass counters the
    reused-view flow rules read — is the pass projection (`passNode`: same buckets, pass counter only) of the **shared**
    resource nodes maintained by `stat.Slot`, for every resource (absent there iff absent here).  Together with
    `window_is_ledger_integrated` this says what those counters contain. -/
theorem flow_nodes_coupled (A : System.Arith R) (l0 c0 : R) (os : List (Pipe.Op R)) (k : Nat) :
    FlowReject.lookup (run A (fresh l0 c0) os).1.flow.nodes k =
      (Entry.findN (run A (fresh l0 c0) os).1.ent.nodes (rname k)).map passNode :=
  (sync_run A _ os (sync_fresh l0 c0)).nodes k

/-- the admitted-and-not-exited requests are exactly the live contexts of the shared statistic state -/
theorem reqs_are_live_contexts (A : System.Arith R) (l0 c0 : R) (os : List (Pipe.Op R)) :
    CtxSync (run A (fresh l0 c0) os).1 := (sync_run A _ os (sync_fresh l0 c0)).ctx

end Sentinel.INT

/-! ## 2b. history-form projections onto the flow, hotspot and system modules, and the transfers they give -/

namespace Sentinel.INT
open Sentinel.Pipe

variable {R : Type} [LT R] [∀ a b : R, Decidable (a < b)]

/-! ### flow -/

/-- **flow_projection_hist.**  Flow rules loaded once (`s0.flow = FlowReject.load rules now`), then any integrated history
    without another flow load.  Project it onto the flow module: `flowHist` = the requests that reach the flow slot **with their
    final outcome**, i.e. those finally admitted by the whole chain and those blocked by the flow slot (a request blocked by
    the system slot never reaches it; one that passes it and is blocked by a later slot is *not* an admitted arrival).  Then
    * the flow model's reference run on that arrival list answers exactly what the integrated chain answered
      (`flowHistOuts`: `none` for the admitted ones, `some i` = the blocking rule), and its admitted history is `passedHist`,
      the requests that passed **all** slots;
    * so does the flow model itself (`FlowReject.runEntries`, C02 `run_eq_ref_asis`);
    * the flow component of the integrated state satisfies C02's representation invariant for that history. -/
theorem flow_projection_hist (A : System.Arith R) (s0 : St R) (rules : List FlowReject.Rule) (os : List (Pipe.Op R))
    (h0 : s0.flow = FlowReject.load rules s0.now) (hpos : 0 < s0.now) (hst : s0.started = true)
    (hno : ∀ rs, Pipe.Op.loadFlow rs ∉ os) :
    FlowReject.refRun FlowReject.RuleInfo.feed (FlowReject.compile rules) [] (flowHist A s0 os)
      = (passedHist A s0 os, flowHistOuts A s0 os) ∧
    (FlowReject.runEntries (FlowReject.load rules s0.now) (flowHist A s0 os)).2 = flowHistOuts A s0 os ∧
    FlowReject.Rep (FlowReject.compile rules) (run A s0 os).1.flow (passedHist A s0 os) (run A s0 os).1.now ∧
    FlowReject.MonoA s0.now (flowHist A s0 os) := by
  have rep0 : FlowReject.Rep (FlowReject.compile rules) s0.flow [] s0.now := by
    rw [h0]; exact FlowReject.load_rep rules s0.now hpos
  obtain ⟨r1, r2, r3, _, _⟩ := run_flow A s0 os rep0 hpos hst hno
  simp only [List.nil_append] at r1 r2
  refine ⟨r2, ?_, r1, r3⟩
  rw [Sentinel.C02.run_eq_ref_asis rules s0.now hpos _ r3, r2]

/-- **flow_window_counts_only_fully_passed** — the cross-module fact.  At any moment of any integrated history, the verdict of
    the flow slot on a request is the flow reference's decision over the windows of the history `passedHist` = **the requests
    that passed ALL slots**: a pass is recorded (by `stat.Slot` on the node, by the standalone slot on the independent
    windows) only for a request that no later slot — isolation, hotspot, circuit breaker — blocked.  A request that the
    flow rule had room for but that a later slot rejected consumes nothing of the flow window; nor does a blocked one. -/
theorem flow_window_counts_only_fully_passed (A : System.Arith R) (s0 : St R) (rules : List FlowReject.Rule)
    (os : List (Pipe.Op R)) (h0 : s0.flow = FlowReject.load rules s0.now) (hpos : 0 < s0.now) (hst : s0.started = true)
    (hno : ∀ rs, Pipe.Op.loadFlow rs ∉ os) (q : Req) :
    verdict A (run A s0 os).1 q .flow =
      (FlowReject.refCheck FlowReject.RuleInfo.feed (FlowReject.compile rules) (passedHist A s0 os) q.res
        (run A s0 os).1.now q.batch).map Blk.flow := by
  have rep0 : FlowReject.Rep (FlowReject.compile rules) s0.flow [] s0.now := by
    rw [h0]; exact FlowReject.load_rep rules s0.now hpos
  obtain ⟨r1, _, _, r4, _⟩ := run_flow A s0 os rep0 hpos hst hno
  simp only [List.nil_append] at r1
  exact flow_verdict_ref A _ q r1 r4

/-- **admit_iff on the integrated chain** (C02 `admit_iff_pointwise` transferred): a request that reaches the flow slot is
    passed by it **iff** every flow rule in force on its resource has room for the batch in its aligned window, where the
    window content is the tokens of the requests that passed all slots (each rule counting the resource the code wires it
    to, `RuleInfo.feed`; = the resource the property names whenever no rule lies in C02's known-finding region,
    `admit_iff_integrated_demanded`). -/
theorem admit_iff_integrated (A : System.Arith R) (s0 : St R) (rules : List FlowReject.Rule)
    (os : List (Pipe.Op R)) (h0 : s0.flow = FlowReject.load rules s0.now) (hpos : 0 < s0.now) (hst : s0.started = true)
    (hno : ∀ rs, Pipe.Op.loadFlow rs ∉ os) (q : Req) :
    verdict A (run A s0 os).1 q .flow = none ↔
      ∀ c ∈ FlowReject.compile rules, c.rule.res = q.res →
        c.rule.thr.exceeds (FlowReject.windowTokens (passedHist A s0 os) c.feed c.L c.Iv (run A s0 os).1.now + q.batch) = false := by
  rw [flow_window_counts_only_fully_passed A s0 rules os h0 hpos hst hno q, Option.map_eq_none_iff,
    FlowReject.refCheck_none_iff]

theorem admit_iff_integrated_demanded (A : System.Arith R) (s0 : St R) (rules : List FlowReject.Rule)
    (hreg : ∀ c ∈ FlowReject.compile rules, c.inFinding = false)
    (os : List (Pipe.Op R)) (h0 : s0.flow = FlowReject.load rules s0.now) (hpos : 0 < s0.now) (hst : s0.started = true)
    (hno : ∀ rs, Pipe.Op.loadFlow rs ∉ os) (q : Req) :
    verdict A (run A s0 os).1 q .flow = none ↔
      ∀ c ∈ FlowReject.compile rules, c.rule.res = q.res →
        c.rule.thr.exceeds (FlowReject.windowTokens (passedHist A s0 os) c.rule.src c.L c.Iv (run A s0 os).1.now + q.batch) = false := by
  rw [admit_iff_integrated A s0 rules os h0 hpos hst hno q]
  constructor <;> intro h c hc hr <;> have := h c hc hr <;> have hf := hreg c hc <;>
    simp only [FlowReject.RuleInfo.inFinding, ne_eq, decide_eq_false_iff_not, not_not] at hf <;>
    first | (rw [← hf]; exact this) | (rw [hf]; exact this)

/-- **window cap on the integrated chain** (C02 `window_cap` transferred): for every flow rule that counts its own resource
    and every window position of its geometry, the tokens of the requests admitted by the whole chain never exceed the
    threshold — whatever the other slots did in between. -/
theorem window_cap_integrated (A : System.Arith R) (s0 : St R) (rules : List FlowReject.Rule)
    (os : List (Pipe.Op R)) (h0 : s0.flow = FlowReject.load rules s0.now) (hpos : 0 < s0.now) (hst : s0.started = true)
    (hno : ∀ rs, Pipe.Op.loadFlow rs ∉ os)
    (c : FlowReject.RuleInfo) (hc : c ∈ FlowReject.compile rules) (hown : c.feed = c.rule.res) (e : Nat) :
    c.rule.thr.exceeds (Sentinel.LA.refW c.L (FlowReject.histOf (passedHist A s0 os) c.rule.res) (e + c.L - c.Iv) e) = false := by
  obtain ⟨r2, _, _, r3⟩ := flow_projection_hist A s0 rules os h0 hpos hst hno
  have := Sentinel.C02.window_cap rules s0.now (flowHist A s0 os) r3 c hc hown e
  rw [r2] at this
  exact this

/-- the start state of the flow theorems is reachable: `clock t`, `load flow rules` on a fresh case -/
theorem flow_start_reachable (A : System.Arith R) (l0 c0 : R) (t : Nat) (ht : 0 < t) (rules : List FlowReject.Rule) :
    (run A (fresh l0 c0) [.clock t, .loadFlow rules]).1.flow = FlowReject.load rules t ∧
    (run A (fresh l0 c0) [.clock t, .loadFlow rules]).1.now = t ∧
    (run A (fresh l0 c0) [.clock t, .loadFlow rules]).1.started = true := by
  have h0 : t ≠ 0 := by omega
  simp only [run, step, fresh, h0, if_false, Bool.not_false, if_true, Bool.not_true, Bool.false_or, Bool.false_eq_true]
  obtain ⟨a, b, _⟩ := ghostNodes_frame2 rules
    ({ started := true, now := t, t0 := t, ent := Entry.init t, eh := [], load := l0, cpu := c0, cb := { now := t } } : St R)
  refine ⟨rfl, ?_, ?_⟩
  · simpa [loadFlow] using a
  · simpa [loadFlow] using b

/-! ### hotspot -/

/-- **hot_projection_hist.**  Hotspot rules loaded before the traffic (`HotRel` to `HotConc.init rules`), then any integrated
    history without another hotspot load.  Its projection `hotHist` — a request finally admitted or blocked by the hotspot
    slot is `HotConc.Op.entry`, one that passes the hotspot check and is blocked by a breaker is a `HotConc.Op.check` that never
    commits, an `Exit` is `HotConc.Op.exit`, requests blocked before the hotspot slot do not appear — is a history of the hotspot
    model whose state has the same cells and the same live entries as the hotspot component of the integrated state. -/
theorem hot_projection_hist (A : System.Arith R) (s0 : St R) (rules : List HotConc.Rule) (os : List (Pipe.Op R))
    (h0 : s0.hot = HotConc.init rules) (hno : ∀ rs, Pipe.Op.loadHot rs ∉ os) :
    (run A s0 os).1.hot.tcs = (HotConc.run (HotConc.init rules) (hotHist A s0 os)).tcs ∧
    (run A s0 os).1.hot.live = (HotConc.run (HotConc.init rules) (hotHist A s0 os)).live := by
  have r0 : HotRel s0.used s0.hot (HotConc.init rules) := by
    rw [h0]
    exact ⟨rfl, rfl, rfl, rfl, fun e he => by simp [HotConc.init, HotConc.load] at he,
           fun p hp => by simp [HotConc.init, HotConc.load] at hp⟩
  have := run_hot A s0 os _ r0 hno
  exact ⟨this.tcs, this.live⟩

/-- **cell_eq_live on the integrated chain** (C06 `cell_eq_live` transferred): after any integrated history, for every hotspot
    controller that has not evicted and every value, the cell equals the number of live entries — admitted by the **whole
    chain** and not yet exited — that the rule counts under that value.  Requests blocked by the system, flow or isolation slot
    never touch a cell; requests blocked by a breaker touch but do not count. -/
theorem cell_eq_live_integrated (A : System.Arith R) (s0 : St R) (rules : List HotConc.Rule) (os : List (Pipe.Op R))
    (h0 : s0.hot = HotConc.init rules) (hno : ∀ rs, Pipe.Op.loadHot rs ∉ os) :
    ∀ t ∈ (run A s0 os).1.hot.tcs, t.ev = false → ∀ v, v ≠ HotConc.Val.nil →
      HotConc.cellOf t.cache v = (HotConc.liveOf t.rule v (run A s0 os).1.hot.live : Int) := by
  obtain ⟨h1, h2⟩ := hot_projection_hist A s0 rules os h0 hno
  rw [h1, h2]
  exact Sentinel.C06.cell_eq_live rules (hotHist A s0 os)

/-- the start state of the hotspot theorems is reachable: `clock t`, `load hot rules` on a fresh case -/
theorem hot_start_reachable (A : System.Arith R) (l0 c0 : R) (t : Nat) (ht : 0 < t) (rules : List HotConc.Rule) :
    (run A (fresh l0 c0) [.clock t, .loadHot rules]).1.hot = HotConc.init rules := by
  have h0 : t ≠ 0 := by omega
  simp [run, step, fresh, h0, HotConc.init]

end Sentinel.INT

namespace Sentinel.INT
open Sentinel.Pipe

/-! ### system -/

section sys
variable {R : Type} [LT R] [LE R] [∀ a b : R, Decidable (a < b)] [∀ a b : R, Decidable (a ≤ b)]

/-- **sys_projection_hist.**  After any integrated history from a fresh case, everything the system slot reads — loaded rules,
    load / cpu readings, the inbound node's leap array and gauge (shared with `stat.Slot`) — is what the system model holds
    after replaying the projected history `sysHist` with **its own transition functions** (`sysApply`): `System.step` for
    clock / load / readings, `onPassed` / `onBlocked` / `onExit` for the entries with their final outcome (what `System.step`
    does on `.entry` / `.exit`: `sysApply_entry_is_step`, `sysApply_exit_is_step`), plus the block count of inbound requests
    blocked by a *later* slot and the error count of inbound completions — two counters the system view never reads.
    Hence the system slot's verdict on the integrated chain is the system model's verdict in that state. -/
theorem sys_projection_hist (A : System.Arith R) (l0 c0 : R) (os : List (Pipe.Op R)) :
    SysRel (run A (fresh l0 c0) os).1 (sysRun A { load := l0, cpu := c0 } (sysHist A (fresh l0 c0) os)) ∧
    ((run A (fresh l0 c0) os).1.started = true → ∀ q : Req,
      (verdict A (run A (fresh l0 c0) os).1 q .sys).isSome =
        System.blockedBy A false (sysRun A { load := l0, cpu := c0 } (sysHist A (fresh l0 c0) os)) q.inbound) := by
  have r0 : SysRel (fresh l0 c0) ({ load := l0, cpu := c0 } : System.St R) :=
    ⟨rfl, rfl, rfl, rfl, rfl, rfl, fun h => by simp [fresh] at h, fun _ => rfl⟩
  have r := run_sys A (fresh l0 c0) os _ r0 (sync_fresh l0 c0)
  exact ⟨r, fun hst q => sys_verdict_rel A _ _ r hst q⟩

end sys

/-- **blocked_iff_exists_violated on the integrated chain** (C07 transferred; `R` a linear order): a request is rejected by the
    system slot — which, being the first slot, means `api.Entry` answers a system block — **iff** it is inbound and at
    least one loaded system rule is violated at the aggregates of the shared inbound node at that moment. -/
theorem sys_blocked_iff_integrated {R : Type} [LinearOrder R] (A : System.Arith R) (s : St R) (q : Req) :
    (entry A s q).2 = some Blk.sys ↔ q.inbound = true ∧ ∃ r ∈ s.sysRules, System.violated A (sysView s) r := by
  have hdec : (entry A s q).2 = some Blk.sys ↔ (verdict A s q .sys).isSome = true := by
    rw [entry_snd]
    constructor
    · intro h
      have := decision_some A s q _ h
      simp only [Blk.slot] at this
      rw [this]; rfl
    · intro h
      obtain ⟨b, hb⟩ := Option.isSome_iff_exists.mp h
      have hs : b = Blk.sys := by
        simp only [verdict, Option.map_eq_some_iff] at hb
        obtain ⟨_, _, e⟩ := hb
        exact e.symm
      subst hs
      simp only [decision, firstBlock, hb]
  rw [hdec]
  cases hi : q.inbound
  · simp only [verdict, Option.isSome_map, hi, Sentinel.C07.outbound_never_blocked]
    simp
  · simp only [verdict, Option.isSome_map, hi, true_and]
    exact Sentinel.C07.blocked_iff_exists_violated A s.sysRules s.sysRules (List.Perm.refl _) (sysView s)

end Sentinel.INT

/-! ## 2c. more module theorems on the integrated chain (each for every state / every history of the integrated model) -/

namespace Sentinel.INT
open Sentinel.Pipe

variable {R : Type} [LT R] [∀ a b : R, Decidable (a < b)]

theorem passedHist_append (A : System.Arith R) (s : St R) (os1 os2 : List (Pipe.Op R)) :
    passedHist A s (os1 ++ os2) = passedHist A s os1 ++ passedHist A (run A s os1).1 os2 := by
  induction os1 generalizing s with
  | nil => rfl
  | cons o os ih => simp only [List.cons_append, passedHist, run, ih, List.append_assoc]

theorem run_append (A : System.Arith R) (s : St R) (os1 os2 : List (Pipe.Op R)) :
    (run A s (os1 ++ os2)).1 = (run A (run A s os1).1 os2).1 := by
  induction os1 generalizing s with
  | nil => rfl
  | cons o os ih => simp only [List.cons_append, run, ih]

/-! ### (a) flow: admit ⇔ room, when every earlier slot passes; a blocked request costs no flow quota -/

/-- **C02 `admit ⇔ windowSum + b ≤ T` on the integrated chain.**  Flow rules loaded once, any integrated history, any request
    that the (only) earlier slot — system — lets through: `api.Entry` answers a **flow block** iff some flow rule of the
    resource has no room for the batch in its aligned window of tokens that passed all slots; otherwise the request goes
    on to the isolation slot (and the answer is whatever the first of isolation / hotspot / breaker says, or `pass`). -/
theorem flow_block_iff_integrated (A : System.Arith R) (s0 : St R) (rules : List FlowReject.Rule)
    (os : List (Pipe.Op R)) (h0 : s0.flow = FlowReject.load rules s0.now) (hpos : 0 < s0.now) (hst : s0.started = true)
    (hno : ∀ rs, Pipe.Op.loadFlow rs ∉ os) (q : Req) (hsys : verdict A (run A s0 os).1 q .sys = none) :
    (∃ i, (entry A (run A s0 os).1 q).2 = some (Blk.flow i)) ↔
      ¬ ∀ c ∈ FlowReject.compile rules, c.rule.res = q.res →
        c.rule.thr.exceeds (FlowReject.windowTokens (passedHist A s0 os) c.feed c.L c.Iv (run A s0 os).1.now + q.batch) = false := by
  rw [← admit_iff_integrated A s0 rules os h0 hpos hst hno q]
  constructor
  · rintro ⟨i, hi⟩
    have := (decision_is_first_block A (run A s0 os).1 q).2.1 _ hi
    simp only [Blk.slot] at this
    rw [this.1]; simp
  · intro hne
    cases hv : verdict A (run A s0 os).1 q .flow with
    | none => exact absurd hv hne
    | some b =>
      have hslot := verdict_slot A _ q _ _ hv
      cases b with
      | flow i =>
        refine ⟨i, ?_⟩
        rw [entry_snd]
        simp only [decision, firstBlock, hsys, hv]
      | sys => cases hslot
      | iso a b => cases hslot
      | hot => cases hslot
      | cb k => cases hslot

/-- **a blocked request costs no flow quota — across modules.**  Whatever slot blocks a request — the *earlier* system slot
    (the flow slot is never reached), the flow slot itself, or a *later* slot (isolation, hotspot, breaker: the flow check
    had passed, yet `stat.Slot` and the standalone slot are told "blocked") — and also a malformed op: the history of tokens
    that the flow windows count is unchanged by it, so (`flow_window_counts_only_fully_passed`) every later flow verdict is
    computed as if the request had never come.  Only a request that passes **all** slots is appended. -/
theorem blocked_costs_no_flow_quota (A : System.Arith R) (s0 : St R) (os : List (Pipe.Op R)) (q : Req) :
    passedHist A s0 (os ++ [.entry q]) =
      if (step A (run A s0 os).1 (.entry q)).2 = Out.dec none
      then passedHist A s0 os ++ [flowArr (run A s0 os).1 q] else passedHist A s0 os := by
  rw [passedHist_append]
  simp only [passedHist, List.append_nil]
  cases hout : (step A (run A s0 os).1 (.entry q)).2 with
  | dec d =>
    cases d with
    | none => simp [flowPassed]
    | some b => simp [flowPassed]
  | _ => simp [flowPassed]

/-- … spelled out for the next verdicts: after a blocked request and any further history, the flow slot decides over an
    admitted history that contains no trace of it -/
theorem blocked_request_invisible_to_flow (A : System.Arith R) (s0 : St R) (rules : List FlowReject.Rule)
    (os os2 : List (Pipe.Op R)) (q : Req)
    (h0 : s0.flow = FlowReject.load rules s0.now) (hpos : 0 < s0.now) (hst : s0.started = true)
    (hno : ∀ rs, Pipe.Op.loadFlow rs ∉ os ++ [.entry q] ++ os2)
    (hblk : (step A (run A s0 os).1 (.entry q)).2 ≠ Out.dec none) (q' : Req) :
    verdict A (run A s0 (os ++ [.entry q] ++ os2)).1 q' .flow =
      (FlowReject.refCheck FlowReject.RuleInfo.feed (FlowReject.compile rules)
        (passedHist A s0 os ++ passedHist A (run A s0 (os ++ [.entry q])).1 os2) q'.res
        (run A s0 (os ++ [.entry q] ++ os2)).1.now q'.batch).map Blk.flow := by
  rw [flow_window_counts_only_fully_passed A s0 rules _ h0 hpos hst hno q', passedHist_append,
    blocked_costs_no_flow_quota, if_neg hblk]

/-! ### (b) hotspot: blocks by later slots leave the cells where they were -/

/-- **C06 `cell = live` under blocks by later slots.**  Hotspot rules loaded before the traffic, any integrated history, then
    a request that passes the hotspot check and is blocked by a circuit breaker (the only later slot): the live entries are
    the same as before and every cell (of a controller that has not evicted) still equals the number of live entries with
    the value — `ConcurrencyStatSlot` counts passed entries only; the check's `AddIfAbsent` creates cells but never moves one. -/
theorem later_block_leaves_cells (A : System.Arith R) (s0 : St R) (rules : List HotConc.Rule) (os : List (Pipe.Op R))
    (h0 : s0.hot = HotConc.init rules) (hno : ∀ rs, Pipe.Op.loadHot rs ∉ os) (q : Req) (k : Nat)
    (hu : usedId (run A s0 os).1 q.id = false) (hst : (run A s0 os).1.started = true)
    (hblk : (entry A (run A s0 os).1 q).2 = some (Blk.cb k)) :
    (entry A (run A s0 os).1 q).1.hot.live = (run A s0 os).1.hot.live ∧
    ∀ t ∈ (entry A (run A s0 os).1 q).1.hot.tcs, t.ev = false → ∀ v, v ≠ HotConc.Val.nil →
      HotConc.cellOf t.cache v = (HotConc.liveOf t.rule v (run A s0 os).1.hot.live : Int) := by
  have hlive : (entry A (run A s0 os).1 q).1.hot.live = (run A s0 os).1.hot.live := by
    have := ((decision_is_first_block A (run A s0 os).1 q).2.2.2 _ hblk).2.2.2.2.2.2.2.1 (by simp [Blk.slot, Slot.pos])
    rw [this]; rfl
  refine ⟨hlive, ?_⟩
  have hstep : (run A s0 (os ++ [.entry q])).1 = (entry A (run A s0 os).1 q).1 := by
    rw [run_append]
    simp [run, step, hst, hu]
  have hno' : ∀ rs, Pipe.Op.loadHot rs ∉ os ++ [.entry q] := by
    intro rs hm
    rcases List.mem_append.mp hm with h | h
    · exact hno rs h
    · simp at h
  have := cell_eq_live_integrated A s0 rules (os ++ [.entry q]) h0 hno'
  rw [hstep, hlive] at this
  exact this

/-- a request blocked by an **earlier** slot (system, flow, isolation) does not reach the hotspot slot: no cell is even
    created, the whole hotspot component is untouched (from `decision_is_first_block`) -/
theorem earlier_block_leaves_hot_untouched (A : System.Arith R) (s : St R) (q : Req) (b : Blk)
    (hblk : (entry A s q).2 = some b) (hearly : b.slot.pos < Slot.hot.pos) : (entry A s q).1.hot = s.hot :=
  ((decision_is_first_block A s q).2.2.2 b hblk).1 hearly

/-! ### (c) system: outbound traffic is never blocked by it; what it blocks reaches no later slot -/

/-- **C07 `outbound_never_blocked` on the integrated chain**: whatever the system rules, readings and statistics, an outbound
    request is never answered with a system block -/
theorem outbound_never_sys_blocked (A : System.Arith R) (s : St R) (q : Req) (hout : q.inbound = false) :
    (entry A s q).2 ≠ some Blk.sys := by
  intro h
  have := ((decision_is_first_block A s q).2.1 _ h).1
  simp [Blk.slot, verdict, System.check, hout] at this

/-- **a system-blocked request reaches no later slot**: flow controllers, isolation gauge and handles, hotspot cells,
    breakers and listener log are exactly as before; nothing is admitted.  (The block is counted by `stat.Slot`.) -/
theorem sys_block_reaches_no_later_slot (A : System.Arith R) (s : St R) (q : Req) (h : (entry A s q).2 = some Blk.sys) :
    (entry A s q).1.flow.ctrls = s.flow.ctrls ∧ (entry A s q).1.iso = s.iso ∧ (entry A s q).1.hot = s.hot ∧
    (entry A s q).1.cb = s.cb ∧ (entry A s q).1.evs = s.evs ∧ (entry A s q).1.reqs = s.reqs := by
  obtain ⟨h1, h2, _, _, _, h6, h7, _, _, h10⟩ := (decision_is_first_block A s q).2.2.2 _ h
  have hp1 : (Blk.sys).slot.pos < Slot.hot.pos := by simp [Blk.slot, Slot.pos]
  have hp2 : (Blk.sys).slot.pos < Slot.cb.pos := by simp [Blk.slot, Slot.pos]
  exact ⟨h6, h7, h1 hp1, (h2 hp2).1, (h2 hp2).2, h10⟩

end Sentinel.INT

/-! ## 3d. conservation: when every admitted entry has exited, every gauge the modules read is 0 -/

namespace Sentinel.INT
open Sentinel.Pipe

variable {R : Type} [LT R] [∀ a b : R, Decidable (a < b)]

/-- nothing is in flight on any node once `reqs` is empty: the ledger's live count is 0 (real accounts are all finished —
    `reqs_are_live_contexts`; the node-creating ghosts of `flow.LoadRules` never account — `GhostStd`) -/
theorem live_zero_when_idle (A : System.Arith R) (l0 c0 : R) (os : List (Pipe.Op R))
    (hs : (run A (fresh l0 c0) os).1.started = true) (hidle : (run A (fresh l0 c0) os).1.reqs = []) (k : Entry.Key) :
    Entry.live (run A (fresh l0 c0) os).1.eh k = 0 := by
  have hinv : Inv (fresh l0 c0) := by intro h; simp [fresh] at h
  have hl := inv_run A _ os hinv hs
  have hsync := sync_run A _ os (sync_fresh l0 c0)
  have hg : GhostStd (run A (fresh l0 c0) os).1 :=
    ghostStd_run A _ os (sync_fresh l0 c0) (by intro g c hc; simp [fresh, Entry.init, Entry.findE] at hc)
  have sim := Entry.sim_runR false _ _ hl.pos hl.mono
  have hents : ∀ id, Entry.findE (run A (fresh l0 c0) os).1.ent.ents id =
      (Entry.info (run A (fresh l0 c0) os).1.eh id).map Entry.ctxOf := by
    intro id; rw [hl.ent]; exact sim.ents id
  unfold Entry.live
  rw [List.countP_eq_zero]
  intro id hid
  obtain ⟨i, hi⟩ := Option.isSome_iff_exists.mp ((Entry.mem_entryIds _ id).mp hid)
  simp only [Entry.liveB, hi, Bool.and_eq_true, Bool.not_eq_true', not_and, Bool.not_eq_true]
  intro hnd
  have hc := hents id
  rw [hi] at hc
  rcases Nat.even_or_odd' id with ⟨g, rfl | rfl⟩
  · have := hg g _ hc
    simp only [Entry.ctxOf] at this
    cases k <;> simp [Entry.touches, this]
  · have hd := hsync.ctx.dead g (by rw [hidle]; intro q hq; cases hq) _ (by simpa [rid] using hc)
    simp only [Entry.ctxOf] at hd
    rw [hd] at hnd
    cases hnd

/-- **gauge conservation on the integrated chain** (C01 `gauge_zero_when_idle` transferred, with the ghosts of `flow.LoadRules`
    accounted for): after any integrated history at whose end every admitted entry has exited — whatever mixture of passes
    and of blocks by any of the five slots, errors, late exits, rule loads happened — the concurrency gauge of **every
    resource node and of the inbound node** is 0, and so is the gauge the isolation slot reads. -/
theorem gauges_zero_when_idle (A : System.Arith R) (l0 c0 : R) (os : List (Pipe.Op R))
    (hs : (run A (fresh l0 c0) os).1.started = true) (hidle : (run A (fresh l0 c0) os).1.reqs = []) :
    (∀ k g, Entry.obsConc (run A (fresh l0 c0) os).1.ent k = some g → g = 0) ∧
    (∀ res, (run A (fresh l0 c0) os).1.iso.gauge res = 0) := by
  have h1 : ∀ k g, Entry.obsConc (run A (fresh l0 c0) os).1.ent k = some g → g = 0 := by
    intro k g hg
    have := (gauge_is_live_integrated A l0 c0 os hs k g hg).1
    rw [this, live_zero_when_idle A l0 c0 os hs hidle k]
    rfl
  refine ⟨h1, fun res => ?_⟩
  rw [iso_gauge_coupled A l0 c0 os hs res]
  cases hc : Entry.obsConc (run A (fresh l0 c0) os).1.ent (some res) with
  | none => rfl
  | some g => simp [h1 _ g hc]

/-- the hotspot component's live entries are exactly the admitted-and-not-exited requests, after every history -/
theorem hot_live_is_reqs (A : System.Arith R) (l0 c0 : R) (os : List (Pipe.Op R)) :
    (run A (fresh l0 c0) os).1.hot.live = (run A (fresh l0 c0) os).1.reqs.map hotLiveOf :=
  (hotLive_run A _ os ⟨rfl, by simp [fresh], fun q hq => by simp [fresh] at hq⟩).live

/-- **the hotspot cells return to zero** (C06 `returns_to_zero` / `cell_eq_live` transferred): hotspot rules loaded at the start
    of the case (`clock t`, `load hot rules`), then any integrated history without another hotspot load; once every admitted
    entry has exited, every cell of every controller that has not evicted is 0 — whatever was blocked by whichever slot
    in between (entries blocked before the hotspot slot never touch a cell, entries blocked by a breaker create cells but
    do not count, admitted entries count +1 and −1). -/
theorem hot_cells_zero_when_idle (A : System.Arith R) (l0 c0 : R) (t : Nat) (ht : 0 < t) (rules : List HotConc.Rule)
    (os : List (Pipe.Op R)) (hno : ∀ rs, Pipe.Op.loadHot rs ∉ os)
    (hidle : (run A (fresh l0 c0) ([.clock t, .loadHot rules] ++ os)).1.reqs = []) :
    ∀ tc ∈ (run A (fresh l0 c0) ([.clock t, .loadHot rules] ++ os)).1.hot.tcs, tc.ev = false → ∀ v, v ≠ HotConc.Val.nil →
      HotConc.cellOf tc.cache v = 0 := by
  intro tc htc hev v hv
  have hlive := hot_live_is_reqs A l0 c0 ([.clock t, .loadHot rules] ++ os)
  rw [hidle] at hlive
  rw [run_append] at htc hlive
  have h0 := hot_start_reachable A l0 c0 t ht rules
  have := cell_eq_live_integrated A _ rules os h0 hno tc htc hev v hv
  rw [this, hlive]
  rfl

end Sentinel.INT

/-! ## 4. non-vacuity: a concrete integrated history on the code-shaped machine (evaluated by `decide`) -/

namespace Sentinel.INT
open Sentinel.Pipe

/-- resource `r1` with an isolation rule (1 in flight) and a flow rule (2 per second); carrier ℕ for the system slot -/
def demoOps : List (Pipe.Op Nat) :=
  [ .clock 1000,
    .loadIso [("r1", 1)],
    .loadFlow [{ res := 1, thr := .frac 2 1, iv := 1000 }],
    .entry { id := 1, res := 1, inbound := true, batch := 1 },      -- pass
    .entry { id := 2, res := 1, inbound := true, batch := 1 },      -- isolation blocks (flow would pass: 1 + 1 ≤ 2)
    .exit 1 false,
    .entry { id := 3, res := 1, inbound := true, batch := 1 },      -- pass (second token of the window)
    .exit 3 true,
    .entry { id := 4, res := 1, inbound := true, batch := 1 } ]     -- flow blocks first (isolation would pass: nothing in flight)

/-- every outcome occurs, different slots are the first blocker at different moments, and the blocked entries left the
    isolation gauge alone -/
example :
    (run Sentinel.C07.natArith (fresh 0 0) demoOps).2 =
      [.none, .none, .none, .dec none, .dec (some (.iso 0 1)), .none, .dec none, .none, .dec (some (.flow 0))] ∧
    (run Sentinel.C07.natArith (fresh 0 0) demoOps).1.iso.gauge "r1" = 0 ∧
    (run Sentinel.C07.natArith (fresh 0 0) demoOps).1.started = true := by
  decide

/-- the hypotheses of `iso_cap_integrated` are satisfiable -/
example : ({ fresh (0 : Nat) 0 with iso := { rules := Iso.loadRules [("r1", 1)] } } : St Nat).iso =
    { rules := Iso.loadRules [("r1", 1)] } := rfl

/-- an error-count breaker (trips at one error, timeout 100 ms, one probe) next to an isolation rule -/
def demoCbOps : List (Pipe.Op Nat) :=
  [ .clock 1000,
    .loadCb [(0, { res := "r1", kind := .count, retryMs := 100, minReq := 1, statI := 1000, buckets := 2, maxRt := 0,
                   probeNum := 1, reached := fun bad _ => decide (1 ≤ bad) })],
    .loadIso [("r1", 5)],
    .entry { id := 1, res := 1, inbound := false, batch := 1 },
    .exit 1 true,                                                   -- the error trips the breaker (error → breaker counters)
    .entry { id := 2, res := 1, inbound := false, batch := 1 },      -- blocked by the breaker until 1100
    .clock 1100,
    .entry { id := 3, res := 1, inbound := false, batch := 1 } ]     -- the probe

/-- the hypotheses of `open_rejects_until_integrated` are reachable: after the error the breaker is open until 1100, and
    the run shows the block, then the admitted probe -/
example :
    (run Sentinel.C07.natArith (fresh 0 0) (demoCbOps.take 5)).1.cb.brs.map (fun b => (b.id, b.st, b.nextRetry)) =
      [(0, CB.St.opened, 1100)] ∧
    (run Sentinel.C07.natArith (fresh 0 0) (demoCbOps.take 5)).1.cbLoaded = true ∧
    (run Sentinel.C07.natArith (fresh 0 0) demoCbOps).2 =
      [.none, .num 1, .none, .dec none, .none, .dec (some (.cb 0)), .none, .dec none] := by
  decide

end Sentinel.INT
