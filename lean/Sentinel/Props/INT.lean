import Mathlib.Tactic
import Sentinel.Lemmas.Pipeline
/-! # INT — the integrated default global slot chain (internal check; phase of C16 and C01) -/
namespace Sentinel.INT
open Sentinel.Pipe

/-- the built-in order: system < flow < isolation < hotspot < circuit breaker -/
theorem builtin_order : ruleSlots = [.sys, .flow, .iso, .hot, .cb] := ruleSlots_eq

end Sentinel.INT
