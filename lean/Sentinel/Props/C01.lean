import Sentinel.Lemmas.EntryLedger
import Sentinel.Lemmas.EntryPool
import Sentinel.Lemmas.EntrySchedule
import Sentinel.Lemmas.EntryReset
import Sentinel.Lemmas.EntryResetLedger
import Sentinel.Lemmas.EntryClock
import Sentinel.Lemmas.EntryFresh
import Sentinel.Lemmas.EntryErrors
/-!
# C01 — Entry/Exit accounting is conserved and correctly attributed
(property theorems only; the simulation lemmas live in `Sentinel/Lemmas/Entry.lean`)

Reading guide.  `ops : List TOp` is a history of time-stamped ops `entry | trace | exit` in
chronological order; `Mono t0 ops` says the clock readings never decrease from `t0 > 0` on.
`run fix t0 ops` is the code-shaped model of `Sentinel/Model/Entry.lean` (the one the driver executes
against `api.Entry / api.TraceError / SentinelEntry.Exit`): slot chain phases with recover, the real
prepare slot, `stat.Slot`'s callbacks on leap arrays (20 × 500 ms) and gauges, one context per entry,
`sync.Once` + `exited`.  `fix = false` is the code as it is, `fix = true` accounts a recovered panic as
the pass it is (what the property demands).  The `led…` functions are the ledger recomputed from the
history alone (no arrays, no gauges, no chain execution).
-/
namespace Sentinel.C01
open Sentinel.Entry Sentinel.LA

/-- clock readings never decrease (chronological order) -/
def Mono (t0 : Nat) (ops : List TOp) : Prop := MonoR t0 ops.reverse

/-! ## (1) the model's observables are the ledger's, for every history -/

/-- **window sums** (`GetSum` of the default 1 s metric, of any `GenerateReadStat` view up to 10 s, and
through the window payload also min RT and peak concurrency): at any read time not before the last op,
for the inbound node and every resource node, existing or not. -/
theorem window_refines_ledger (fix : Bool) (t0 : Nat) (ops : List TOp) (h0 : 0 < t0) (hm : Mono t0 ops)
    (k : Key) (Iv now : Nat) (hnow : lastT t0 ops.reverse ≤ now) (hIv : Iv ≤ 10000) :
    obsWindow (run fix t0 ops) k Iv now = ledWindow fix ops.reverse k Iv now := by
  have sim := sim_runR fix t0 ops.reverse h0 hm
  have hpos : 0 < now := lt_of_lt_of_le h0 (le_trans (t0_le_lastT t0 ops.reverse hm) hnow)
  unfold obsWindow ledWindow run
  cases k with
  | none =>
    simp only [nodeOf, Option.map]
    rw [nodeOk_window sim.nodes.inb now Iv hnow hpos (by simpa [sampleCountTotal, bucketLen] using hIv)]
    rfl
  | some r =>
    simp only [nodeOf]
    cases hf : findN (runR fix t0 ops.reverse).nodes r with
    | none => simp [sim.nodes.none_ r hf]
    | some n =>
      have := sim.nodes.some_ r n hf
      simp only [Option.map, this.1, if_true]
      rw [nodeOk_window this.2 now Iv hnow hpos (by simpa [sampleCountTotal, bucketLen] using hIv)]

/-- **the gauge** (`CurrentConcurrency()`) -/
theorem conc_refines_ledger (fix : Bool) (t0 : Nat) (ops : List TOp) (h0 : 0 < t0) (hm : Mono t0 ops) (k : Key) :
    obsConc (run fix t0 ops) k = ledConc fix ops.reverse k := by
  have sim := sim_runR fix t0 ops.reverse h0 hm
  unfold obsConc ledConc run
  cases k with
  | none => simp only [nodeOf, Option.map]; rw [sim.nodes.inb.2.2.1]; rfl
  | some r =>
    simp only [nodeOf]
    cases hf : findN (runR fix t0 ops.reverse).nodes r with
    | none => simp [sim.nodes.none_ r hf]
    | some n =>
      have := sim.nodes.some_ r n hf
      simp only [Option.map, this.1, if_true]
      rw [this.2.2.2.1]

/-- **`entry.Context().Err()` / `.Input.Args` of live entries, and the outcome of `api.Entry`** -/
theorem ctx_refines_ledger (fix : Bool) (t0 : Nat) (ops : List TOp) (h0 : 0 < t0) (hm : Mono t0 ops) (id : Nat) :
    obsCtx (run fix t0 ops) id = ledCtx ops.reverse id ∧
    obsEntered (run fix t0 ops) id = ledEntered ops.reverse id := by
  have sim := sim_runR fix t0 ops.reverse h0 hm
  unfold obsCtx ledCtx obsEntered ledEntered run
  rw [sim.ents id]
  cases info ops.reverse id with
  | none => exact ⟨rfl, rfl⟩
  | some i => simp [ctxOf]

/-- **recording statistic slots** are told exactly what the ledger says -/
theorem reclog_refines_ledger (fix : Bool) (t0 : Nat) (ops : List TOp) (h0 : 0 < t0) (hm : Mono t0 ops) :
    (run fix t0 ops).log = recLog fix ops.reverse :=
  (sim_runR fix t0 ops.reverse h0 hm).log

/-- the verdict the drivers compute for the default chain is the same on both sides: the model reads the gauge of
the node (0 if the node is about to be created), the spec reads the ledger's gauge -/
theorem default_verdict_agrees (fix : Bool) (t0 : Nat) (ops : List TOp) (h0 : 0 < t0) (hm : Mono t0 ops)
    (iso : Option Nat) (hot : Bool) (res : String) (batch : Nat) (args : List String) :
    defaultRule iso hot ((obsConc (run fix t0 ops) (some res)).getD 0) batch args =
    defaultRule iso hot ((ledConc fix ops.reverse (some res)).getD 0) batch args := by
  rw [conc_refines_ledger fix t0 ops h0 hm]

/-! ## (1b) pooling is transparent

`EntryPool.runR` is the same lifecycle with `base.ctxPool` modelled: context objects whose fields persist across
`Put`/`Get`, entries that keep their pointer after `Exit`, and a pool that hands out **any** free object or a new one
(the oracle number paired with each op).  Whatever the pool does, every node, every gauge, the recording log and the
`Err`/`Args` seen through every live entry are those of the pool-free model — hence, by (1), the ledger's.  This is the
statement the two repairs (`args-alias`, `late-exit-error`) establish; no time-monotonicity is needed. -/
theorem pooled_refines_pool_free (fix : Bool) (t0 : Nat) (h : List (TOp × Nat)) :
    let p := EntryPool.runR fix t0 h
    let s := Entry.runR fix t0 (h.map (·.1))
    (∀ k, EntryPool.nodeOf p k = Entry.nodeOf s k) ∧ p.log = s.log ∧
    (∀ id, EntryPool.obsCtx p id = Entry.obsCtx s id) ∧
    (∀ id, EntryPool.obsEntered p id = Entry.obsEntered s id) := by
  have r := EntryPool.rel_runR fix t0 h
  refine ⟨?_, r.log, ?_, ?_⟩
  rotate_left 2
  · intro id
    unfold EntryPool.obsEntered Entry.obsEntered
    have := r.isnil id
    cases hp : EntryPool.findP (EntryPool.runR fix t0 h).ents id <;>
      cases hs : findE (Entry.runR fix t0 (h.map (·.1))).ents id <;> rw [hp, hs] at this <;> simp_all
  · intro k
    cases k with
    | none => simp only [EntryPool.nodeOf, Entry.nodeOf, r.inb]
    | some res => simp only [EntryPool.nodeOf, Entry.nodeOf, r.nodes]
  · intro id
    unfold EntryPool.obsCtx Entry.obsCtx
    have hex := r.exited id
    cases hp : EntryPool.findP (EntryPool.runR fix t0 h).ents id with
    | none =>
      rw [hp] at hex
      cases hs : findE (Entry.runR fix t0 (h.map (·.1))).ents id with
      | none => rfl
      | some c => rw [hs] at hex; simp at hex
    | some pe =>
      rw [hp] at hex
      cases hs : findE (Entry.runR fix t0 (h.map (·.1))).ents id with
      | none => rw [hs] at hex; simp at hex
      | some c =>
        rw [hs] at hex
        have hexi : pe.exited = c.exited := by simpa using hex
        by_cases hx : pe.exited = true
        · have : c.exited = true := hexi ▸ hx
          simp [hx, this]
        · have hpf : pe.exited = false := by simpa using hx
          have hcf : c.exited = false := hexi ▸ hpf
          have := (r.live id pe hp hpf).2
          rw [hs] at this
          have hc : c = (EntryPool.runR fix t0 h).store.getD pe.ctx EntryPool.freshCtx := Option.some.inj this
          have hcf' : ((EntryPool.runR fix t0 h).store.getD pe.ctx EntryPool.freshCtx).exited = false := hc ▸ hcf
          simp only [hpf, Bool.false_eq_true, if_false, hcf']
          rw [← hc]; simp [hcf]

/-- in particular the pooled model's observables are the ledger's, for every pool behaviour -/
theorem pooled_refines_ledger (fix : Bool) (t0 : Nat) (h : List (TOp × Nat)) (h0 : 0 < t0)
    (hm : MonoR t0 (h.map (·.1))) (k : Key) (Iv now : Nat) (hnow : lastT t0 (h.map (·.1)) ≤ now) (hIv : Iv ≤ 10000) :
    (EntryPool.nodeOf (EntryPool.runR fix t0 h) k).map (fun n => viewSum n.arr Iv now) = ledWindow fix (h.map (·.1)) k Iv now ∧
    (EntryPool.nodeOf (EntryPool.runR fix t0 h) k).map (·.conc) = ledConc fix (h.map (·.1)) k ∧
    (∀ id, EntryPool.obsCtx (EntryPool.runR fix t0 h) id = ledCtx (h.map (·.1)) id) := by
  obtain ⟨h1, _, h3, _⟩ := pooled_refines_pool_free fix t0 h
  have hrev : ((h.map (·.1)).reverse).reverse = h.map (·.1) := List.reverse_reverse _
  have hm' : Mono t0 (h.map (·.1)).reverse := by unfold Mono; rw [hrev]; exact hm
  have hnow' : lastT t0 ((h.map (·.1)).reverse).reverse ≤ now := by rw [hrev]; exact hnow
  have w := window_refines_ledger fix t0 (h.map (·.1)).reverse h0 hm' k Iv now hnow' hIv
  have c := conc_refines_ledger fix t0 (h.map (·.1)).reverse h0 hm' k
  have x := fun id => (ctx_refines_ledger fix t0 (h.map (·.1)).reverse h0 hm' id).1
  unfold run at w c x
  simp only [hrev] at w c x
  refine ⟨?_, ?_, ?_⟩
  · rw [h1 k]; exact w
  · rw [h1 k]; exact c
  · intro id; rw [h3 id]; exact x id

/-- why the `exited` guard matters (the repaired defect `late-exit-error`, kept as a regression witness): with the
unguarded `SetError`, a late `TraceError` on an exited entry reaches the entry that now owns the recycled object -/
theorem late_exit_error_witness :
    let e1 : EntryOp := { id := 1, res := "x1", inbound := false, batch := 1, args := [], chain := {} }
    let e2 : EntryOp := { id := 2, res := "x2", inbound := false, batch := 1, args := [], chain := {} }
    let p := EntryPool.runR false 1000 [((1000, .entry e2), 0), ((1000, .exit 1 none), 0), ((1000, .entry e1), 0)]
    EntryPool.obsCtx p 2 = some (none, e2) ∧
    EntryPool.obsCtx (EntryPool.apiTrace p 1 (some "late")) 2 = some (none, e2) ∧
    EntryPool.obsCtx (EntryPool.apiTraceUnguarded p 1 (some "late")) 2 = some (some "late", e2) := by
  decide

/-! ## (2) corollaries: what the ledger says, hence what the model does

`fix = true ∨ panicFree … k`: the demanded accounting, or the code as it is on every node that no
recovered-panic entry accounts on. -/

/-- the time filter of the aligned window of a view of interval `Iv` read at `now` -/
def inWindow (Iv now : Nat) (t : Nat) : Bool :=
  decide (cbs bucketLen now + bucketLen - Iv ≤ cbs bucketLen t ∧ cbs bucketLen t ≤ cbs bucketLen now)

/-- **passed + blocked tokens = requested tokens**, on the resource entered and on the inbound total, in every
window: each `Entry` call contributes its batch to exactly one of pass / block -/
theorem pass_plus_block_eq_requested (fix : Bool) (t0 : Nat) (ops : List TOp) (h0 : 0 < t0) (hm : Mono t0 ops)
    (k : Key) (hk : fix = true ∨ panicFree ops.reverse k = true)
    (Iv now : Nat) (hnow : lastT t0 ops.reverse ≤ now) (hIv : Iv ≤ 10000) (b : Bucket)
    (hb : obsWindow (run fix t0 ops) k Iv now = some b) :
    b.pass + b.block = requested (inWindow Iv now) ops.reverse k := by
  rw [window_refines_ledger fix t0 ops h0 hm k Iv now hnow hIv] at hb
  have hev : evs fix ops.reverse k = evs true ops.reverse k := by
    rcases hk with rfl | hp
    · rfl
    · cases fix
      · exact (ledger_fix_irrelevant _ k hp).1
      · rfl
  unfold ledWindow at hb
  simp only [hev] at hb
  split_ifs at hb
  simp only [Option.some.injEq] at hb
  rw [← hb, refW_eq_tally]
  exact pass_plus_block _ _ k

/-- **one completion per passed entry, at its first `Exit`; none for a blocked entry; none before the exit**:
`completionsOf` counts the `exit` ops addressed to `id` that made the statistic slots run `OnCompleted` -/
theorem complete_exactly_once (h : List TOp) (id : Nat) :
    completionsOf h id = match info h id with
      | some i => if i.done && decide (outcome i.e.chain ≠ .block) then 1 else 0
      | none => 0 :=
  complete_once h id

theorem blocked_never_completes (h : List TOp) (id : Nat) (i : Info) (hi : info h id = some i)
    (hb : outcome i.e.chain = .block) : completionsOf h id = 0 := by
  rw [complete_once, hi]; simp [hb]

/-- the completion carries the entry's own error (set by the ops addressed to that id, or by the chain's
recover) and its own response time: the events of a contributing `exit` -/
theorem completion_payload (fix : Bool) (h : List TOp) (t id : Nat) (err : Option String) (i : Info) (k : Key)
    (hi : info h id = some i) (hd : i.done = false) (hk : touches i.e k = true) :
    contrib fix h (t, .exit id err) k =
      (if (orErr err i.err).isSome then [(t, evBucket .error i.e.batch)] else [])
        ++ [(t, evBucket .rt (t - i.t0)), (t, evBucket .complete i.e.batch)] := by
  simp [contrib, contribI, Op.addr, hi, hd, hk]

/-- **`Exit` is idempotent and late calls change nothing**: any sequence of `trace` / `exit` (with or without
error, at any times) addressed to ids that are already finished leaves the whole model state — every node, every
gauge, every other entry's context, every log — exactly as it was -/
theorem exit_idempotent (fix : Bool) (t0 : Nat) (ops late : List TOp) (h0 : 0 < t0) (hm : Mono t0 ops)
    (hl : ∀ x ∈ late, IsLate ops.reverse x) : run fix t0 (ops ++ late) = run fix t0 ops := by
  unfold run
  rw [List.reverse_append]
  exact late_ops_noop fix t0 ops.reverse h0 hm late.reverse (fun x hx => hl x (List.mem_reverse.mp hx))

/-- an id is finished as soon as one `exit` has been addressed to it -/
theorem finished_after_exit (t id : Nat) (err : Option String) (h : List TOp) (i : Info)
    (hi : info ((t, .exit id err) :: h) id = some i) : i.done = true :=
  exit_finishes t id err h i hi

/-- **the gauge is the number of live passed entries**, hence never negative … -/
theorem gauge_is_live_count (fix : Bool) (t0 : Nat) (ops : List TOp) (h0 : 0 < t0) (hm : Mono t0 ops)
    (k : Key) (hk : fix = true ∨ panicFree ops.reverse k = true) (g : Int)
    (hg : obsConc (run fix t0 ops) k = some g) : g = (live ops.reverse k : Int) ∧ 0 ≤ g := by
  rw [conc_refines_ledger fix t0 ops h0 hm k] at hg
  have hga : gauge fix ops.reverse k = gauge true ops.reverse k := by
    rcases hk with rfl | hp
    · rfl
    · cases fix
      · exact (ledger_fix_irrelevant _ k hp).2
      · rfl
  simp only [ledConc] at hg
  split_ifs at hg
  simp only [Option.some.injEq] at hg
  rw [← hg, hga]
  exact ⟨gauge_eq_live _ k, gauge_nonneg _ k⟩

/-- … **and exactly zero whenever no entry is in flight** -/
theorem gauge_zero_when_idle (fix : Bool) (t0 : Nat) (ops : List TOp) (h0 : 0 < t0) (hm : Mono t0 ops)
    (k : Key) (hk : fix = true ∨ panicFree ops.reverse k = true)
    (idle : ∀ id i, info ops.reverse id = some i → i.done = true) (g : Int)
    (hg : obsConc (run fix t0 ops) k = some g) : g = 0 := by
  rw [conc_refines_ledger fix t0 ops h0 hm k] at hg
  have hga : gauge fix ops.reverse k = gauge true ops.reverse k := by
    rcases hk with rfl | hp
    · rfl
    · cases fix
      · exact (ledger_fix_irrelevant _ k hp).2
      · rfl
  simp only [ledConc] at hg
  split_ifs at hg
  simp only [Option.some.injEq] at hg
  rw [← hg, hga]
  exact gauge_zero_idle _ k idle

/-! ## (2b) many goroutines, at the granularity of API calls

Any interleaving of the calls of several goroutines is itself a history, so (1) and (2) hold for it.  In addition the
*account* does not depend on the interleaving: if two histories differ only by the order of adjacent calls addressed to
different entries (`Sched`), every counter of every window, every gauge, every entry's context and every `Entry` outcome is
the same; only the peak-concurrency samples may differ.  (This is what allows the check's multi-goroutine soak to compare the
final state with a sequential run.  Interleavings *inside* a call — the atomics of the bucket array — are C09's / C15's.) -/
theorem schedule_independent (fix : Bool) (t0 : Nat) (ops1 ops2 : List TOp) (h0 : 0 < t0)
    (hm1 : Mono t0 ops1) (hm2 : Mono t0 ops2) (hs : Sched ops1.reverse ops2.reverse)
    (k : Key) (Iv now : Nat) (hnow1 : lastT t0 ops1.reverse ≤ now) (hnow2 : lastT t0 ops2.reverse ≤ now) (hIv : Iv ≤ 10000) :
    (obsWindow (run fix t0 ops1) k Iv now).map cnt = (obsWindow (run fix t0 ops2) k Iv now).map cnt ∧
    obsConc (run fix t0 ops1) k = obsConc (run fix t0 ops2) k ∧
    (∀ id, obsCtx (run fix t0 ops1) id = obsCtx (run fix t0 ops2) id ∧
           obsEntered (run fix t0 ops1) id = obsEntered (run fix t0 ops2) id) := by
  obtain ⟨hi, hg, he, hn⟩ := sched_invariant fix hs
  refine ⟨?_, ?_, ?_⟩
  · rw [window_refines_ledger fix t0 ops1 h0 hm1 k Iv now hnow1 hIv,
        window_refines_ledger fix t0 ops2 h0 hm2 k Iv now hnow2 hIv]
    cases k with
    | none => simp only [ledWindow, if_true, Option.map, refW_eq_tally]; rw [he none]
    | some r =>
      simp only [ledWindow, hn r]
      split_ifs
      · simp only [Option.map, refW_eq_tally]; rw [he (some r)]
      · rfl
  · rw [conc_refines_ledger fix t0 ops1 h0 hm1 k, conc_refines_ledger fix t0 ops2 h0 hm2 k]
    cases k with
    | none => simp only [ledConc, hg none]
    | some r => simp only [ledConc, hn r, hg (some r)]
  · intro id
    obtain ⟨a1, b1⟩ := ctx_refines_ledger fix t0 ops1 h0 hm1 id
    obtain ⟨a2, b2⟩ := ctx_refines_ledger fix t0 ops2 h0 hm2 id
    rw [a1, a2, b1, b2]
    unfold ledCtx ledEntered
    rw [hi id]
    exact ⟨rfl, rfl⟩

/-! ## (2c) `stat.ResetResourceNodeMap()` in the middle of a history

The node-map reset is a test utility outside the property's op list, but it can be called while entries are in flight.
`resetNodes` empties the node map (the old nodes stay referenced by the contexts in flight and can never be looked up
again).  Whatever ops follow, from any state, the **inbound node** — every inbound window, the inbound gauge — the recording
log, the context seen through every live entry and every `Entry` outcome are exactly those of the run without the reset:
an inbound entry that passed before a reset and exits after it is completed on the node it passed on. -/
theorem nodemap_reset_irrelevant (fix : Bool) (s : St) (later : List TOp) :
    let a := runFrom fix s later
    let b := runFrom fix (resetNodes s) later
    nodeOf a none = nodeOf b none ∧ a.log = b.log ∧
    (∀ id, obsCtx a id = obsCtx b id) ∧ (∀ id, obsEntered a id = obsEntered b id) := by
  have h := reset_irrelevant fix s later
  refine ⟨by simp only [nodeOf, h.inb], h.log, ?_, ?_⟩
  · intro id
    have he := h.ents id
    unfold obsCtx
    cases h1 : findE (runFrom fix s later).ents id with
    | none =>
      cases h2 : findE (runFrom fix (resetNodes s) later).ents id with
      | none => rfl
      | some c' => rw [h1, h2] at he; simp at he
    | some c =>
      cases h2 : findE (runFrom fix (resetNodes s) later).ents id with
      | none => rw [h1, h2] at he; simp at he
      | some c' =>
        rw [h1, h2] at he
        obtain ⟨a1, _, a3, _, a5⟩ := noNode_fields (Option.some.inj he)
        simp only [a1, a3, a5]
  · intro id
    have he := h.ents id
    unfold obsEntered
    cases h1 : findE (runFrom fix s later).ents id with
    | none =>
      cases h2 : findE (runFrom fix (resetNodes s) later).ents id with
      | none => rfl
      | some c' => rw [h1, h2] at he; simp at he
    | some c =>
      cases h2 : findE (runFrom fix (resetNodes s) later).ents id with
      | none => rw [h1, h2] at he; simp at he
      | some c' =>
        rw [h1, h2] at he
        obtain ⟨_, _, _, a4, _⟩ := noNode_fields (Option.some.inj he)
        simp only [Option.map, a4]

/-- the pooled model (the one the driver runs) performs the reset in step with the pool-free one -/
theorem pooled_reset_refines {p : EntryPool.PSt} {s : St} (r : EntryPool.Rel p s) :
    EntryPool.Rel (EntryPool.resetNodes p) (resetNodes s) := EntryPool.rel_reset r

/-! ## (2d) the account of histories WITH node-map resets

A history with resets is a list of segments `segs` (newest segment first, every segment newest op first), a
`stat.ResetResourceNodeMap()` between consecutive segments; `runSegs` runs it on the model (`resetNodes` between the
segments).  `flat segs` is the reset-free history with the same account: the newest segment as it is, every older op with
its entry *detached* (node slot of the prepare table replaced by a no-op).  The ledger of `flat segs` is the ledger of
section (1), so all its corollaries apply; in words:

* a resource's node ledger **restarts** at a reset (`reset_restarts_resource_ledger`: no node, no events, gauge 0, whatever
  was in flight) and then counts exactly the entries made after it;
* entries admitted before the reset complete on their own (old, unreachable) node: in `flat segs` they touch no resource
  key (`touches_detach`), so their `exit` contributes nothing to the new node — and everything to the inbound node;
* the **inbound** ledger is that of the same ops without any reset (`reset_keeps_inbound_ledger`). -/
theorem accounting_with_resets (fix : Bool) (t0 : Nat) (segs : List (List TOp)) (h0 : 0 < t0)
    (hm : MonoR t0 segs.flatten) (k : Key) (Iv now : Nat) (hnow : lastT t0 (flat segs) ≤ now) (hIv : Iv ≤ 10000) :
    obsWindow (runSegs fix t0 segs) k Iv now = ledWindow fix (flat segs) k Iv now ∧
    obsConc (runSegs fix t0 segs) k = ledConc fix (flat segs) k ∧
    (runSegs fix t0 segs).log = recLog fix (flat segs) ∧
    (∀ id, obsEntered (runSegs fix t0 segs) id = ledEntered (flat segs) id) ∧
    (∀ id, (obsCtx (runSegs fix t0 segs) id).map (fun v => (v.1, coreE v.2)) =
           (ledCtx (flat segs) id).map (fun v => (v.1, coreE v.2))) := by
  have g := segs_flat fix t0 segs
  have hmf : MonoR t0 (flat segs) := monoR_congr t0 _ _ (flat_times segs).symm hm
  have hrev : (flat segs).reverse.reverse = flat segs := List.reverse_reverse _
  have hm' : Mono t0 (flat segs).reverse := by unfold Mono; rw [hrev]; exact hmf
  have hnow' : lastT t0 (flat segs).reverse.reverse ≤ now := by rw [hrev]; exact hnow
  have w := window_refines_ledger fix t0 (flat segs).reverse h0 hm' k Iv now hnow' hIv
  have c := conc_refines_ledger fix t0 (flat segs).reverse h0 hm' k
  have l := reclog_refines_ledger fix t0 (flat segs).reverse h0 hm'
  have x := fun id => ctx_refines_ledger fix t0 (flat segs).reverse h0 hm' id
  unfold run at w c l x
  simp only [hrev] at w c l x
  have hnode : nodeOf (runSegs fix t0 segs) k = nodeOf (runR fix t0 (flat segs)) k := by
    cases k with
    | none => simp only [nodeOf, g.inb]
    | some r => simp only [nodeOf, (g.nodes rfl).1]
  refine ⟨?_, ?_, g.log.trans l, ?_, ?_⟩
  · rw [← w]; unfold obsWindow; rw [hnode]
  · rw [← c]; unfold obsConc; rw [hnode]
  · intro id
    rw [← (x id).2]
    have he := g.ents id
    unfold obsEntered
    cases h1 : findE (runSegs fix t0 segs).ents id with
    | none =>
      cases h2 : findE (runR fix t0 (flat segs)).ents id with
      | none => rfl
      | some c' => rw [h1, h2] at he; simp at he
    | some c1 =>
      cases h2 : findE (runR fix t0 (flat segs)).ents id with
      | none => rw [h1, h2] at he; simp at he
      | some c' =>
        rw [h1, h2] at he
        obtain ⟨_, _, _, q4, _⟩ := (core_eq_iff _ _).mp (Option.some.inj he)
        simp only [Option.map, q4]
  · intro id
    rw [← (x id).1]
    have he := g.ents id
    unfold obsCtx
    cases h1 : findE (runSegs fix t0 segs).ents id with
    | none =>
      cases h2 : findE (runR fix t0 (flat segs)).ents id with
      | none => rfl
      | some c' => rw [h1, h2] at he; simp at he
    | some c1 =>
      cases h2 : findE (runR fix t0 (flat segs)).ents id with
      | none => rw [h1, h2] at he; simp at he
      | some c' =>
        rw [h1, h2] at he
        obtain ⟨q1, _, q3, _, q5⟩ := (core_eq_iff _ _).mp (Option.some.inj he)
        simp only [q5]
        split_ifs
        · rfl
        · simp only [Option.map, q1, q3]

/-- at a reset every resource ledger is empty — no node, no events, gauge 0 — whatever was in flight -/
theorem reset_restarts_resource_ledger (fix : Bool) (older : List TOp) (res : String) :
    nodeExists (older.map detach) res = false ∧ evs fix (older.map detach) (some res) = [] ∧
    gauge fix (older.map detach) (some res) = 0 :=
  detached_resource_empty fix older res

/-- the inbound ledger of a history with resets is that of the same ops without any reset -/
theorem reset_keeps_inbound_ledger (fix : Bool) (segs : List (List TOp)) :
    evs fix (flat segs) none = evs fix segs.flatten none ∧ gauge fix (flat segs) none = gauge fix segs.flatten none :=
  inbound_flat fix segs

/-- the code as it is, with resets, outside the known-finding region: on every node no panicking entry of `flat segs`
    accounts on, the as-is model shows the demanded ledger -/
theorem accounting_with_resets_partial (t0 : Nat) (segs : List (List TOp)) (h0 : 0 < t0)
    (hm : MonoR t0 segs.flatten) (k : Key) (Iv now : Nat) (hnow : lastT t0 (flat segs) ≤ now) (hIv : Iv ≤ 10000)
    (hk : panicFree (flat segs) k = true) :
    obsWindow (runSegs false t0 segs) k Iv now = ledWindow true (flat segs) k Iv now ∧
    obsConc (runSegs false t0 segs) k = ledConc true (flat segs) k := by
  obtain ⟨a, b, _⟩ := accounting_with_resets false t0 segs h0 hm k Iv now hnow hIv
  obtain ⟨e1, e2⟩ := ledger_fix_irrelevant (flat segs) k hk
  refine ⟨?_, ?_⟩
  · rw [a]; unfold ledWindow; rw [e1]
  · rw [b]; unfold ledConc; rw [e2]

/-! ## (2e) any clock

The refinement theorems of (1) need clock readings that never decrease (the window sums are about time).  The gauges, the
outcome of every `Entry`, and the error / input seen through every live entry do **not** depend on the clock at all: the
same ops under any two clocks — readings may differ arbitrarily, step backwards, read 0 — give the same values.  Hence under
any clock the gauge is the ledger's gauge of the same ops at a frozen clock, i.e. the number of live passed entries. -/
theorem clock_independent (fix : Bool) (t0 t0' : Nat) (ops ops' : List TOp) (hops : ops.map (·.2) = ops'.map (·.2)) :
    (∀ k, obsConc (run fix t0 ops) k = obsConc (run fix t0' ops') k) ∧
    (∀ id, obsEntered (run fix t0 ops) id = obsEntered (run fix t0' ops') id) ∧
    (∀ id, obsCtx (run fix t0 ops) id = obsCtx (run fix t0' ops') id) := by
  have hr : ops.reverse.map (·.2) = ops'.reverse.map (·.2) := by
    rw [List.map_reverse, List.map_reverse, hops]
  have c := ceq_run fix t0 t0' ops.reverse ops'.reverse hr
  unfold run
  refine ⟨c.conc, ?_, ?_⟩
  · intro id
    have he := c.ents id
    unfold obsEntered
    cases h1 : findE (runR fix t0 ops.reverse).ents id with
    | none =>
      cases h2 : findE (runR fix t0' ops'.reverse).ents id with
      | none => rfl
      | some c' => rw [h1, h2] at he; simp at he
    | some c1 =>
      cases h2 : findE (runR fix t0' ops'.reverse).ents id with
      | none => rw [h1, h2] at he; simp at he
      | some c' =>
        rw [h1, h2] at he
        obtain ⟨_, _, _, q4, _⟩ := (unstart_eq_iff _ _).mp (Option.some.inj he)
        simp only [Option.map, q4]
  · intro id
    have he := c.ents id
    unfold obsCtx
    cases h1 : findE (runR fix t0 ops.reverse).ents id with
    | none =>
      cases h2 : findE (runR fix t0' ops'.reverse).ents id with
      | none => rfl
      | some c' => rw [h1, h2] at he; simp at he
    | some c1 =>
      cases h2 : findE (runR fix t0' ops'.reverse).ents id with
      | none => rw [h1, h2] at he; simp at he
      | some c' =>
        rw [h1, h2] at he
        obtain ⟨q1, q2, _, _, q5⟩ := (unstart_eq_iff _ _).mp (Option.some.inj he)
        simp only [q1, q2, q5]

/-- the same ops with the clock frozen at 1 -/
def freeze (ops : List TOp) : List TOp := ops.map fun x => (1, x.2)

theorem mono_freeze (ops : List TOp) : Mono 1 (freeze ops) := by
  unfold Mono freeze
  rw [← List.map_reverse]
  induction ops.reverse with
  | nil => trivial
  | cons x r ih =>
    refine ⟨?_, ih⟩
    cases r <;> simp [lastT]

/-- **under any clock** — no monotonicity, any `t0` — every gauge is the ledger's gauge of the same ops (frozen clock);
with `gauge_is_live_count` / `gauge_zero_when_idle` applied to `freeze ops`: the number of live passed entries, never
negative, zero when idle (for `fix = true`, or on `panicFree` nodes) -/
theorem gauge_any_clock (fix : Bool) (t0 : Nat) (ops : List TOp) (k : Key) :
    obsConc (run fix t0 ops) k = ledConc fix (freeze ops).reverse k := by
  have h1 := (clock_independent fix t0 1 ops (freeze ops) (by simp [freeze, Function.comp_def])).1 k
  rw [h1]
  exact conc_refines_ledger fix 1 (freeze ops) (by decide) (mono_freeze ops) k

/-! ## (2f) traffic on fresh outbound resources (the harness op `many n`)

`P` marks resource names, `I` entry ids.  *Inside* ops: outbound entries on a `P` resource with an `I` id through a chain
without recording slots, and `trace`/`exit` of `I` ids.  *Outside* ops touch neither.  From ANY state in which no context
uses a `P` name or an `I` id, ANY interleaving of inside and outside ops leaves — compared with running the outside ops
alone — the inbound node, every node outside `P`, the recording log, and the context and outcome of every entry outside `I`
exactly as they are.  `many n` is n inside entry/exit pairs on never-seen names before everything else (`many_irrelevant`). -/
theorem fresh_traffic_irrelevant (P : String → Bool) (I : Nat → Bool) (fix : Bool) (s : St)
    (hfresh : ∀ id c, findE s.ents id = some c → I id = false ∧ P c.e.res = false) (ops : List TOp)
    (hops : ∀ x ∈ ops, inside P I x = true ∨ outside P I x = true) :
    let a := runFrom fix s (ops.filter (outside P I))
    let b := runFrom fix s ops
    nodeOf a none = nodeOf b none ∧ (∀ r, P r = false → nodeOf a (some r) = nodeOf b (some r)) ∧ a.log = b.log ∧
    (∀ id, I id = false → obsCtx a id = obsCtx b id ∧ obsEntered a id = obsEntered b id) := by
  have hs : Sep P I s :=
    ⟨fun id c hI hf => by rw [(hfresh id c hf).1] at hI; exact absurd hI (by simp), fun id c _ hf => (hfresh id c hf).2⟩
  obtain ⟨o, _, _⟩ := fresh_traffic P I fix s hs ops hops
  refine ⟨by simp only [nodeOf, o.inb], fun r hr => by simp only [nodeOf, o.nodes r hr], o.log, ?_⟩
  intro id hid
  unfold obsCtx obsEntered
  rw [o.ents id hid]
  exact ⟨rfl, rfl⟩

theorem inside_not_outside (P : String → Bool) (I : Nat → Bool) (x : TOp) (h : inside P I x = true) : outside P I x = false := by
  obtain ⟨t, op⟩ := x
  cases op <;> simp_all [inside, outside]

/-- `many n`, then anything else: the later ops see the state as if the `many` had not happened -/
theorem many_irrelevant (P : String → Bool) (I : Nat → Bool) (fix : Bool) (s : St)
    (hfresh : ∀ id c, findE s.ents id = some c → I id = false ∧ P c.e.res = false) (pairs later : List TOp)
    (hp : ∀ x ∈ pairs, inside P I x = true) (hl : ∀ x ∈ later, outside P I x = true) :
    let a := runFrom fix s later
    let b := runFrom fix s (later ++ pairs)
    nodeOf a none = nodeOf b none ∧ (∀ r, P r = false → nodeOf a (some r) = nodeOf b (some r)) ∧ a.log = b.log ∧
    (∀ id, I id = false → obsCtx a id = obsCtx b id ∧ obsEntered a id = obsEntered b id) := by
  have hfil : (later ++ pairs).filter (outside P I) = later := by
    rw [List.filter_append, List.filter_eq_self.mpr hl,
        List.filter_eq_nil_iff.mpr (fun x hx => by simp [inside_not_outside P I x (hp x hx)]), List.append_nil]
  have := fresh_traffic_irrelevant P I fix s hfresh (later ++ pairs)
    (fun x hx => by rcases List.mem_append.mp hx with h | h; exact Or.inr (hl x h); exact Or.inl (hp x h))
  rw [hfil] at this
  exact this

/-! ## (2g) errors are opaque tags

An error is an arbitrary `String` for the model and the ledger: a plain error, a wrapped one, a `*base.BlockError` are
different tags and nothing else.  Reporting paths: `trace` (`api.TraceError`; `entry.SetError` called directly with a non-nil
error is the same op for the model) and `exit … err` (`Exit(WithError(err))`). -/

/-- a non-nil report on a live entry — any tag — is what the completion will carry; a nil report changes nothing -/
theorem report_sets_error (t id : Nat) (x : String) (h : List TOp) (i : Info) (hi : info h id = some i) (hl : i.done = false) :
    info ((t, .trace id (some x)) :: h) id = some { i with err := some x } ∧
    (∀ id', info ((t, .trace id none) :: h) id' = info h id') :=
  ⟨trace_sets_error t id x h i hi hl, trace_nil_noop t id h⟩

/-- **every reported error counts exactly once, nil counts nothing**: at the first `exit` of a live entry the error counter
of each node the entry accounts on (its resource; the inbound node for inbound traffic) grows by the entry's batch iff an
error was reported by that exit or before it — whatever the tag, whatever the path — and by nothing otherwise; entries and
reports themselves add no error tokens; there is no second completion (`complete_exactly_once`) -/
theorem error_counted_once (fix : Bool) (h : List TOp) (t id : Nat) (err : Option String) (i : Info) (k : Key)
    (hi : info h id = some i) (hl : i.done = false) :
    errorTokens (contrib fix h (t, .exit id err) k) = (if touches i.e k && (err.isSome || i.err.isSome) then i.e.batch else 0) ∧
    (∀ e, errorTokens (contrib fix h (t, .entry e) k) = 0) ∧
    (∀ j e', errorTokens (contrib fix h (t, .trace j e') k) = 0) :=
  ⟨completion_error_count fix h t id err i k hi hl, (no_error_before_completion fix h t k).1, (no_error_before_completion fix h t k).2⟩

/-- **a report after the exit changes nothing**, for every path and every tag (the repaired `late-exit-error`): the account
of every id, the events of every node, every gauge and the recording log are untouched (`exit_idempotent` is the same fact
on the model's whole state) -/
theorem late_report_changes_nothing (fix : Bool) (t id : Nat) (err : Option String) (h : List TOp) (i : Info)
    (hi : info h id = some i) (hd : i.done = true) :
    (∀ id', info ((t, .trace id err) :: h) id' = info h id' ∧ info ((t, .exit id err) :: h) id' = info h id') ∧
    (∀ k, contrib fix h (t, .trace id err) k = [] ∧ contrib fix h (t, .exit id err) k = [] ∧
          gaugeDelta fix h (t, .exit id err) k = 0 ∧ recContrib fix h (t, .exit id err) = []) :=
  ⟨fun id' => late_report_noop t id err h i hi hd id', fun k => late_report_no_events fix t id err h i hi hd k⟩

/-! ## (3) the statement for the code as it is, and where it fails -/

/-- the property at full strength for the code as it is: its observables are the demanded ledger's -/
def accounting_statement : Prop :=
  ∀ (t0 : Nat) (ops : List TOp), 0 < t0 → Mono t0 ops → ∀ (k : Key) (Iv now : Nat),
    lastT t0 ops.reverse ≤ now → Iv ≤ 10000 →
    obsWindow (run false t0 ops) k Iv now = ledWindow true ops.reverse k Iv now ∧
    obsConc (run false t0 ops) k = ledConc true ops.reverse k

/-- … holds for the repaired model on every history … -/
theorem accounting_repaired (t0 : Nat) (ops : List TOp) (h0 : 0 < t0) (hm : Mono t0 ops) (k : Key) (Iv now : Nat)
    (hnow : lastT t0 ops.reverse ≤ now) (hIv : Iv ≤ 10000) :
    obsWindow (run true t0 ops) k Iv now = ledWindow true ops.reverse k Iv now ∧
    obsConc (run true t0 ops) k = ledConc true ops.reverse k ∧
    (run true t0 ops).log = recLog true ops.reverse :=
  ⟨window_refines_ledger true t0 ops h0 hm k Iv now hnow hIv, conc_refines_ledger true t0 ops h0 hm k,
   reclog_refines_ledger true t0 ops h0 hm⟩

/-- … and for the code as it is **exactly outside the classified region**: on every node on which no entry
with a panicking chain accounts (`panicFree`), and for the recording slots when no chain panicked (`noPanic`) -/
theorem accounting_partial (t0 : Nat) (ops : List TOp) (h0 : 0 < t0) (hm : Mono t0 ops) (k : Key) (Iv now : Nat)
    (hnow : lastT t0 ops.reverse ≤ now) (hIv : Iv ≤ 10000) (hk : panicFree ops.reverse k = true) :
    obsWindow (run false t0 ops) k Iv now = ledWindow true ops.reverse k Iv now ∧
    obsConc (run false t0 ops) k = ledConc true ops.reverse k ∧
    (noPanic ops.reverse = true → (run false t0 ops).log = recLog true ops.reverse) := by
  obtain ⟨e1, e2⟩ := ledger_fix_irrelevant ops.reverse k hk
  refine ⟨?_, ?_, ?_⟩
  · rw [window_refines_ledger false t0 ops h0 hm k Iv now hnow hIv]; unfold ledWindow; rw [e1]
  · rw [conc_refines_ledger false t0 ops h0 hm k]; unfold ledConc; rw [e2]
  · intro hn; rw [reclog_refines_ledger false t0 ops h0 hm]; exact reclog_fix_irrelevant _ hn

/-! ## known finding `panic-pass-gauge` -/

def panicEntry : EntryOp :=
  { id := 1, res := "h", inbound := false, batch := 1, args := ["u:x"], chain := { pre := [.node], rules := [.panic], std := true } }

/-- a rule check that panics is recovered, the request is passed, nothing is recorded at entry, and the exit
    records a completion and decrements the gauge: pass 0, complete 1, concurrency −1 with nothing in flight;
    the ledger the property demands says pass 1, complete 1, concurrency 0 -/
theorem panic_pass_gauge_witness :
    let ops : List TOp := [(1000, .entry panicEntry), (1000, .exit 1 none)]
    obsConc (run false 1000 ops) (some "h") = some (-1) ∧
    (obsWindow (run false 1000 ops) (some "h") 1000 1000).map (·.pass) = some 0 ∧
    (obsWindow (run false 1000 ops) (some "h") 1000 1000).map (·.complete) = some 1 ∧
    ledConc true ops.reverse (some "h") = some 0 ∧
    (ledWindow true ops.reverse (some "h") 1000 1000).map (·.pass) = some 1 := by
  decide

/-- the full-strength statement is false of the code as it is -/
theorem accounting_statement_false : ¬ accounting_statement := by
  intro h
  have := (h 1000 [(1000, .entry panicEntry), (1000, .exit 1 none)] (by decide) (show MonoR 1000 [(1000, .exit 1 none), (1000, .entry panicEntry)] from ⟨by decide, by decide, trivial⟩)
    (some "h") 1000 1000
    (by decide) (by decide)).2
  revert this
  decide

/-! ## non-vacuity: the hypotheses are satisfiable, the region is not everything -/

example : Mono 1000 [(1000, .entry panicEntry), (1500, .trace 1 (some "e")), (1500, .exit 1 none)] :=
  show MonoR 1000 [(1500, .exit 1 none), (1500, .trace 1 (some "e")), (1000, .entry panicEntry)] from
    ⟨by decide, by decide, by decide, trivial⟩
example : panicFree [(1000, Op.entry panicEntry)] none = true := by decide
example : panicFree [(1000, Op.entry panicEntry)] (some "h") = false := by decide
example : IsLate [(2, .exit 1 none), (1, .entry panicEntry)] (3, .exit 1 (some "late")) := ⟨_, rfl, rfl⟩
example : ∀ id i, info [(2, .exit 1 none), (1, .entry panicEntry)] id = some i → i.done = true := by
  intro id i hi
  by_cases h : id = 1
  · subst h; exact exit_finishes 2 1 none _ i hi
  · rw [info_exit_other _ _ _ _ _ (Ne.symm h), info_entry_other _ _ _ _ (by simpa [panicEntry] using Ne.symm h)] at hi
    simp [info] at hi

end Sentinel.C01
