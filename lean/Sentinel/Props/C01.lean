import Sentinel.Lemmas.Entry
/-!
# C01 — Entry/Exit accounting is conserved and correctly attributed
(property theorems only; the simulation lemmas live in `Sentinel/Lemmas/Entry.lean`)

Reading guide.  `ops : List TOp` is a history of time-stamped ops `entry | trace | exit` in
chronological order; `Mono t0 ops` says the clock readings never decrease from `t0 > 0` on.
`run fix t0 ops` is the code-shaped model of `Sentinel/Model/Entry.lean` (the one the driver executes
against `api.Entry / api.TraceError / SentinelEntry.Exit`): slot chain phases with recover, the real
prepare slot, `stat.Slot`'s callbacks on leap arrays (20 × 500 ms) and gauges, one context per entry,
`sync.Once` + `exited`.  `fix = false` is the code as it is, `fix = true` accounts a recovered panic as
the pass it is (what the property demands).  The `led…` functions are the ledger recomputed from the
history alone (no arrays, no gauges, no chain execution).
-/
namespace Sentinel.C01
open Sentinel.Entry Sentinel.LA

/-- clock readings never decrease (chronological order) -/
def Mono (t0 : Nat) (ops : List TOp) : Prop := MonoR t0 ops.reverse

/-! ## (1) the model's observables are the ledger's, for every history -/

/-- **window sums** (`GetSum` of the default 1 s metric, of any `GenerateReadStat` view up to 10 s, and
through the window payload also min RT and peak concurrency): at any read time not before the last op,
for the inbound node and every resource node, existing or not. -/
theorem window_refines_ledger (fix : Bool) (t0 : Nat) (ops : List TOp) (h0 : 0 < t0) (hm : Mono t0 ops)
    (k : Key) (Iv now : Nat) (hnow : lastT t0 ops.reverse ≤ now) (hIv : Iv ≤ 10000) :
    obsWindow (run fix t0 ops) k Iv now = ledWindow fix ops.reverse k Iv now := by
  have sim := sim_runR fix t0 ops.reverse h0 hm
  unfold obsWindow ledWindow run
  cases k with
  | none =>
    simp only [nodeOf, Option.map]
    rw [nodeOk_window sim.nodes.inb now Iv hnow (by simpa [sampleCountTotal, bucketLen] using hIv)]
    rfl
  | some r =>
    simp only [nodeOf]
    cases hf : findN (runR fix t0 ops.reverse).nodes r with
    | none => simp [sim.nodes.none_ r hf]
    | some n =>
      have := sim.nodes.some_ r n hf
      simp only [Option.map, this.1, if_true]
      rw [nodeOk_window this.2 now Iv hnow (by simpa [sampleCountTotal, bucketLen] using hIv)]

/-- **the gauge** (`CurrentConcurrency()`) -/
theorem conc_refines_ledger (fix : Bool) (t0 : Nat) (ops : List TOp) (h0 : 0 < t0) (hm : Mono t0 ops) (k : Key) :
    obsConc (run fix t0 ops) k = ledConc fix ops.reverse k := by
  have sim := sim_runR fix t0 ops.reverse h0 hm
  unfold obsConc ledConc run
  cases k with
  | none => simp only [nodeOf, Option.map]; rw [sim.nodes.inb.2.2.1]; rfl
  | some r =>
    simp only [nodeOf]
    cases hf : findN (runR fix t0 ops.reverse).nodes r with
    | none => simp [sim.nodes.none_ r hf]
    | some n =>
      have := sim.nodes.some_ r n hf
      simp only [Option.map, this.1, if_true]
      rw [this.2.2.2.1]

/-- **`entry.Context().Err()` / `.Input.Args` of live entries, and the outcome of `api.Entry`** -/
theorem ctx_refines_ledger (fix : Bool) (t0 : Nat) (ops : List TOp) (h0 : 0 < t0) (hm : Mono t0 ops) (id : Nat) :
    obsCtx (run fix t0 ops) id = ledCtx ops.reverse id ∧
    obsEntered (run fix t0 ops) id = ledEntered ops.reverse id := by
  have sim := sim_runR fix t0 ops.reverse h0 hm
  unfold obsCtx ledCtx obsEntered ledEntered run
  rw [sim.ents id]
  cases info ops.reverse id with
  | none => exact ⟨rfl, rfl⟩
  | some i => simp [ctxOf]

/-- **recording statistic slots** are told exactly what the ledger says -/
theorem reclog_refines_ledger (fix : Bool) (t0 : Nat) (ops : List TOp) (h0 : 0 < t0) (hm : Mono t0 ops) :
    (run fix t0 ops).log = recLog fix ops.reverse :=
  (sim_runR fix t0 ops.reverse h0 hm).log

/-! ## known finding `panic-pass-gauge` -/

def panicEntry : EntryOp :=
  { id := 1, res := "h", inbound := false, batch := 1, args := ["u:x"], chain := { pre := [.node], rules := [.panic], std := true } }

/-- a rule check that panics is recovered, the request is passed, nothing is recorded at entry, and the exit
    records a completion and decrements the gauge: pass 0, complete 1, concurrency −1 with nothing in flight;
    the ledger the property demands says pass 1, complete 1, concurrency 0 -/
theorem panic_pass_gauge_witness :
    let ops : List TOp := [(1000, .entry panicEntry), (1000, .exit 1 none)]
    obsConc (run false 1000 ops) (some "h") = some (-1) ∧
    (obsWindow (run false 1000 ops) (some "h") 1000 1000).map (·.pass) = some 0 ∧
    (obsWindow (run false 1000 ops) (some "h") 1000 1000).map (·.complete) = some 1 ∧
    ledConc true ops.reverse (some "h") = some 0 ∧
    (ledWindow true ops.reverse (some "h") 1000 1000).map (·.pass) = some 1 := by
  decide

end Sentinel.C01
