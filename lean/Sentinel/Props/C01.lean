import Sentinel.Model.Entry
/-! # C01 (first cut: witness only; the refinement theorems follow) -/
namespace Sentinel.C01
open Sentinel.Entry Sentinel.LA

def panicEntry : EntryOp :=
  { id := 1, res := "h", inbound := false, batch := 1, args := ["u:x"], chain := { pre := [.node], rules := [.panic], std := true } }

/-- `panic-pass-gauge`: a rule check that panics is recovered, the request is passed, nothing is recorded at entry,
    and the exit records a completion and decrements the gauge: concurrency −1 with nothing in flight -/
theorem panic_pass_gauge_witness :
    obsConc (run false 1000 [(1000, .entry panicEntry), (1000, .exit 1 none)]) (some "h") = some (-1) := by
  decide

end Sentinel.C01
